import GS.Props.C01_WatchDyn
/-!
# C01 (support) — `simplifyPropClauses`, the binary loop and `propagate` preserve `watchInv`

`Mid` is the invariant of the `for i, w := range wl` loop of `simplifyPropClauses`: the state in which
`wlist[lit]` is read as `wl[:j] ++ wl[i:]` (`virt`) satisfies `WatchInv`, and the watchers already
kept satisfy the semantic condition of a processed literal.
-/
namespace GS.Watch

/-! ## Helpers -/

theorem set_same {α} {l : List α} {i : Nat} {x : α} (h : l[i]? = some x) : l.set i x = l := by
  obtain ⟨hlt, hx⟩ := List.getElem?_eq_some_iff.mp h
  subst hx
  exact List.set_getElem_self hlt

theorem litStatus_some {m : List Int} {l : Int} (h0 : l ≠ 0) (hn : l.natAbs ≤ m.length) :
    ∃ s, litStatus m l = some s := by
  unfold litStatus modelAt
  have hpos : 0 < l.natAbs := Int.natAbs_pos.mpr h0
  have hlt : l.natAbs - 1 < m.length := by omega
  simp only [h0, if_false, List.getElem?_eq_getElem hlt]
  split
  · exact ⟨_, rfl⟩
  · split <;> exact ⟨_, rfl⟩

theorem litTrueB_of_sat {m : List Int} {l : Int} (h : litStatus m l = some .sat) :
    litTrueB m l = true := by unfold litTrueB; simp [h]

theorem litFalseB_of_unsat {m : List Int} {l : Int} (h : litStatus m l = some .unsat) :
    litFalseB m l = true := by unfold litFalseB; simp [h]

theorem litUnboundB_of_indet {m : List Int} {l : Int} (h : litStatus m l = some .indet) :
    litUnboundB m l = true := by unfold litUnboundB; simp [h]

/-- the negation of a true literal is false -/
theorem litFalseB_neg {m : List Int} {l : Int} (h : litTrueB m l = true) :
    litFalseB m (-l) = true := by
  obtain ⟨h0, a, ha, ha0, hal⟩ := litTrueB_iff.mp h
  apply litFalseB_iff.mpr
  refine ⟨by omega, a, by simpa using ha, ha0, ?_⟩
  omega

theorem litTrueB_neg_false {m : List Int} {l : Int} (h : litTrueB m l = true) :
    litTrueB m (-l) = false := by
  cases ht : litTrueB m (-l) with
  | false => rfl
  | true => exact absurd (litFalseB_neg h) (fun hf => not_true_and_false ht hf)

/-- a literal that is not `Unsat` has a negation that is not true -/
theorem neg_not_true_of_not_unsat {m : List Int} {l : Int} (h : litStatus m l ≠ some .unsat) :
    litTrueB m (-l) = false := by
  cases ht : litTrueB m (-l) with
  | false => rfl
  | true =>
    exfalso
    have := litFalseB_neg ht
    simp only [Int.neg_neg] at this
    unfold litFalseB at this
    apply h
    simpa using this

theorem findFree_spec {m : List Int} : ∀ (r : List Int) (k0 : Nat),
    (∀ l ∈ r, ∃ s, litStatus m l = some s) →
    (findFree m r k0 = .ok none ∧ ∀ l ∈ r, litFalseB m l = true) ∨
    (∃ j litK, findFree m r k0 = .ok (some (k0 + j, litK)) ∧ r[j]? = some litK ∧
      litStatus m litK ≠ some .unsat)
  | [], k0, _ => by left; simp [findFree]
  | l :: ls, k0, hs => by
    obtain ⟨s, hsl⟩ := hs l (by simp)
    have ih := findFree_spec ls (k0 + 1) (fun x hx => hs x (by simp [hx]))
    cases s with
    | unsat =>
      rcases ih with ⟨h1, h2⟩ | ⟨j, litK, h1, h2, h3⟩
      · left
        refine ⟨by simp [findFree, hsl, h1], ?_⟩
        intro x hx
        simp only [List.mem_cons] at hx
        rcases hx with hx | hx
        · subst hx; exact litFalseB_of_unsat hsl
        · exact h2 x hx
      · right
        refine ⟨j + 1, litK, ?_, by simpa using h2, h3⟩
        have : k0 + (j + 1) = k0 + 1 + j := by omega
        simp only [findFree, hsl, h1, this]
    | sat => right; exact ⟨0, l, by simp [findFree, hsl], by simp, by simp [hsl]⟩
    | indet => right; exact ⟨0, l, by simp [findFree, hsl], by simp, by simp [hsl]⟩

theorem swap_01 (a b : Int) (r : List Int) : swap (a :: b :: r) 0 1 = some (b :: a :: r) := by
  simp [swap]

theorem swap_1k (a b : Int) {r : List Int} {j : Nat} {x : Int} (h : r[j]? = some x) :
    swap (a :: b :: r) 1 (2 + j) = some (a :: x :: r.set j b) := by
  have : 2 + j = j + 1 + 1 := by omega
  simp [swap, this, h]

/-- the pending literal is not among the processed ones -/
theorem notMem_take_of_nodup {tr : List Int} {ptr : Nat} {lit : Int}
    (hnd : (tr.map Int.natAbs).Nodup) (h : tr[ptr]? = some lit) : lit ∉ tr.take ptr := by
  obtain ⟨hlt, hx⟩ := List.getElem?_eq_some_iff.mp h
  have hsplit : tr = tr.take ptr ++ lit :: tr.drop (ptr + 1) := by
    conv => lhs; rw [← List.take_append_drop ptr tr, List.drop_eq_getElem_cons hlt, hx]
  rw [hsplit, List.map_append, List.nodup_append] at hnd
  intro hmem
  have h1 : lit.natAbs ∈ (tr.take ptr).map Int.natAbs := List.mem_map.mpr ⟨lit, hmem, rfl⟩
  exact hnd.2.2 _ h1 lit.natAbs (by simp) rfl

/-- binding an unbound variable removes one zero from the binding array -/
theorem zeros_set {v : Int} (hv : v ≠ 0) : ∀ {m : List Int} {i : Nat}, m[i]? = some 0 →
    zeros (m.set i v) + 1 = zeros m
  | [], _, h => by simp at h
  | a :: m, 0, h => by
    simp only [List.getElem?_cons_zero, Option.some.injEq] at h
    subst h
    simp [zeros, List.countP_cons, hv]
  | a :: m, i + 1, h => by
    simp only [List.getElem?_cons_succ] at h
    have ih := zeros_set hv h
    simp only [zeros, List.set_cons_succ, List.countP_cons] at ih ⊢
    omega

/-! ## The semantic condition of one watcher -/

/-- blocking literal true, or one of the two watched literals true -/
def SemW (cl : List (List Int)) (m : List Int) (w : Watcher) : Prop :=
  litTrueB m w.other = true ∨ ∃ c, cl[w.cid]? = some c ∧
    ((∃ a, c[0]? = some a ∧ litTrueB m a = true) ∨ (∃ b, c[1]? = some b ∧ litTrueB m b = true))

theorem SemW_swap {cl : List (List Int)} {m : List Int} {cid : Nat} {a b : Int} {r : List Int}
    (hc : cl[cid]? = some (a :: b :: r)) {w : Watcher} (h : SemW cl m w) :
    SemW (cl.set cid (b :: a :: r)) m w := by
  rcases h with h | ⟨c, hcw, h2⟩
  · exact Or.inl h
  · right
    rw [set_get _ _ hc]
    by_cases hwc : w.cid = cid
    · rw [hwc, hc] at hcw
      cases hcw
      refine ⟨b :: a :: r, by simp [hwc], ?_⟩
      simp only [List.getElem?_cons_zero, List.getElem?_cons_succ, Option.some.injEq,
        exists_eq_left'] at h2 ⊢
      exact h2.symm
    · exact ⟨c, by simp [hwc, hcw], h2⟩

theorem SemW_move {cl : List (List Int)} {m : List Int} {cid : Nat} {first nl x : Int} {r r' : List Int}
    (hc : cl[cid]? = some (first :: nl :: r)) (hnl : litTrueB m nl = false) {w : Watcher}
    (h : SemW cl m w) : SemW (cl.set cid (first :: x :: r')) m w := by
  rcases h with h | ⟨c, hcw, h2⟩
  · exact Or.inl h
  · right
    rw [set_get _ _ hc]
    by_cases hwc : w.cid = cid
    · rw [hwc, hc] at hcw
      cases hcw
      refine ⟨first :: x :: r', by simp [hwc], ?_⟩
      simp only [List.getElem?_cons_zero, List.getElem?_cons_succ, Option.some.injEq,
        exists_eq_left'] at h2 ⊢
      rcases h2 with h2 | h2
      · exact Or.inl h2
      · rw [h2] at hnl; cases hnl
    · exact ⟨c, by simp [hwc, hcw], h2⟩

theorem SemW_mono {cl : List (List Int)} {m m' : List Int}
    (hm : ∀ x, litTrueB m x = true → litTrueB m' x = true) {w : Watcher} (h : SemW cl m w) :
    SemW cl m' w := by
  rcases h with h | ⟨c, hcw, h2⟩
  · exact Or.inl (hm _ h)
  · right
    refine ⟨c, hcw, ?_⟩
    rcases h2 with ⟨a, ha, hat⟩ | ⟨b, hb, hbt⟩
    · exact Or.inl ⟨a, ha, hm _ hat⟩
    · exact Or.inr ⟨b, hb, hm _ hbt⟩

/-! ## Forced literals -/

/-- Every literal at a trail position `≥ n0` has an antecedent: a clause containing it all of whose
    other literals have their negation earlier on the trail (the guard `isUnit` of
    `GS.Trail.propagateOp`). -/
def Forced (cl : List (List Int)) (reasons : List (Option Nat)) (trail : List Int) (n0 : Nat) : Prop :=
  ∀ (p : Nat) (l : Int), n0 ≤ p → trail[p]? = some l →
    ∃ cid c, reasons[l.natAbs - 1]? = some (some cid) ∧ cl[cid]? = some c ∧ l ∈ c ∧
      ∀ x ∈ c, x ≠ l → (-x) ∈ trail.take p

theorem Forced_perm {cl : List (List Int)} {reasons : List (Option Nat)} {trail : List Int} {n0 cid : Nat}
    {c c' : List Int} (hc : cl[cid]? = some c) (hp : c'.Perm c) (h : Forced cl reasons trail n0) :
    Forced (cl.set cid c') reasons trail n0 := by
  intro p l hp0 hl
  obtain ⟨cid1, c1, hr, hc1, hlc, hall⟩ := h p l hp0 hl
  by_cases hcc : cid1 = cid
  · subst hcc
    rw [hc] at hc1; cases hc1
    refine ⟨cid1, c', hr, by rw [set_get _ _ hc]; simp, hp.mem_iff.mpr hlc, ?_⟩
    intro x hx hxl
    exact hall x (hp.mem_iff.mp hx) hxl
  · exact ⟨cid1, c1, hr, by rw [set_get _ _ hc]; simp [hcc, hc1], hlc, hall⟩

/-- a false literal has its negation on the trail -/
theorem neg_mem_trail_of_false {st : State} {ptr : Nat} (h : WatchInv st ptr) {x : Int}
    (hf : litFalseB st.model x = true) : (-x) ∈ st.trail := by
  obtain ⟨hx0, a, ha, ha0, _⟩ := litFalseB_iff.mp hf
  have hxpos : 0 < x.natAbs := Int.natAbs_pos.mpr hx0
  have hlt : x.natAbs - 1 < st.model.length := by
    rcases Nat.lt_or_ge (x.natAbs - 1) st.model.length with h1 | h1
    · exact h1
    · rw [List.getElem?_eq_none h1] at ha; cases ha
  have hmem : x.natAbs ∈ st.trail.map Int.natAbs := by
    rcases h.bound_on_trail (x.natAbs - 1) hlt with hb | hb
    · rw [ha] at hb; cases hb; exact absurd rfl ha0
    · have : x.natAbs - 1 + 1 = x.natAbs := by omega
      rwa [this] at hb
  obtain ⟨t, ht, htv⟩ := List.mem_map.mp hmem
  have hteq : t = -x := eq_neg_of_true_false (h.trail_true t ht) hf htv
  rw [← hteq]; exact ht

theorem Forced_bind {st : State} {ptr n0 cid : Nat} {l lvl : Int} {c : List Int} (h : WatchInv st ptr)
    (hu : litUnboundB st.model l = true) (hc : st.clauses[cid]? = some c) (hlc : l ∈ c)
    (hfalse : ∀ x ∈ c, x ≠ l → litFalseB st.model x = true)
    (hF : Forced st.clauses st.reasons st.trail n0) :
    Forced (bindSt st l lvl cid).clauses (bindSt st l lvl cid).reasons (bindSt st l lvl cid).trail n0 := by
  obtain ⟨hl0, hm0⟩ := litUnboundB_iff.mp hu
  have hlpos : 0 < l.natAbs := Int.natAbs_pos.mpr hl0
  have hlt : l.natAbs - 1 < st.model.length := by
    rcases Nat.lt_or_ge (l.natAbs - 1) st.model.length with h1 | h1
    · exact h1
    · rw [List.getElem?_eq_none h1] at hm0; cases hm0
  intro p l' hp0 hl'
  change (st.trail ++ [l])[p]? = some l' at hl'
  show ∃ cid' c', (st.reasons.set (l.natAbs - 1) (some cid))[l'.natAbs - 1]? = some (some cid') ∧
    st.clauses[cid']? = some c' ∧ l' ∈ c' ∧ ∀ x ∈ c', x ≠ l' → (-x) ∈ (st.trail ++ [l]).take p
  rcases Nat.lt_or_ge p st.trail.length with hp | hp
  · rw [List.getElem?_append_left hp] at hl'
    obtain ⟨cid1, c1, hr, hc1, hlc1, hall⟩ := hF p l' hp0 hl'
    have hl'mem : l' ∈ st.trail := mem_of_getElem?_eq hl'
    have hl'0 : l' ≠ 0 := (litTrueB_iff.mp (h.trail_true l' hl'mem)).1
    have hl'pos : 0 < l'.natAbs := Int.natAbs_pos.mpr hl'0
    have hne : l'.natAbs ≠ l.natAbs := by
      intro heq
      exact natAbs_notMem_trail h hu (List.mem_map.mpr ⟨l', hl'mem, heq⟩)
    refine ⟨cid1, c1, ?_, hc1, hlc1, ?_⟩
    · rw [List.getElem?_set_ne (by omega)]; exact hr
    · rw [List.take_append_of_le_length (Nat.le_of_lt hp)]; exact hall
  · have hpe : p = st.trail.length := by
      rcases Nat.lt_or_ge st.trail.length p with h1 | h1
      · rw [List.getElem?_eq_none (by simp; omega)] at hl'; cases hl'
      · omega
    subst hpe
    rw [List.getElem?_append_right (Nat.le_refl _)] at hl'
    simp only [Nat.sub_self, List.getElem?_cons_zero, Option.some.injEq] at hl'
    subst hl'
    refine ⟨cid, c, ?_, hc, hlc, ?_⟩
    · rw [List.getElem?_set_self (by rw [h.shape.1]; exact hlt)]
    · intro x hx hxl
      rw [List.take_append_of_le_length (Nat.le_refl _), List.take_length]
      exact neg_mem_trail_of_false h (hfalse x hx hxl)

/-! ## The loop of `simplifyPropClauses` -/

/-- the state in which `wlist[lit]` is read as `L` -/
def virt (st : State) (lit : Int) (L : List Watcher) : State :=
  { st with wlong := st.wlong.set (litIdx lit) L }

/-- Invariant of the `for i, w := range wl` loop: `kept = wl[:j]`, `rest = wl[i:]`. -/
structure Mid (M M2 n0 : Nat) (st : State) (ptr : Nat) (lit : Int) (kept rest : List Watcher) : Prop where
  inv : WatchInv (virt st lit (kept ++ rest)) ptr
  lit_at : st.trail[ptr]? = some lit
  lst : litIdx lit < st.wlong.length
  sem : ∀ w ∈ kept, SemW st.clauses st.model w
  semB : ∀ ws, st.wbin[litIdx lit]? = some ws → ∀ w ∈ ws, litTrueB st.model w.other = true
  /-- conserved: every literal pushed on the trail binds an unbound variable -/
  meas : st.trail.length + zeros st.model = M
  /-- the number of variables does not change -/
  nvars : st.model.length = M2
  /-- the literals pushed so far are forced -/
  forced : Forced st.clauses st.reasons st.trail n0

/-- what the loop returns: either no conflict and the loop invariant with nothing left to read, or a
    conflict clause all of whose literals are false. -/
def Post (M M2 n0 : Nat) (ptr : Nat) (lit : Int) (res : Except Err (Option Nat × List Watcher × State)) : Prop :=
  ∃ confl kept' st', res = .ok (confl, kept', st') ∧
    Forced st'.clauses st'.reasons st'.trail n0 ∧
    (confl = none → Mid M M2 n0 st' ptr lit kept' []) ∧
    (∀ cid, confl = some cid → WatchInv (virt st' lit kept') ptr ∧ ∃ c, st'.clauses[cid]? = some c ∧
      ∀ l ∈ c, litFalseB st'.model l = true)

/-- the part of the loop body reached when the blocking literal is not `Sat` -/
def nonSatBody (lit : Int) (lvl : Int) (w : Watcher) (rest kept : List Watcher) (st : State) :
    Except Err (Option Nat × List Watcher × State) :=
  match st.clauses[w.cid]? with
  | none => .error .panic
  | some c0 =>
    match c0[0]? with
    | none => .error .panic
    | some f0 =>
      match (if f0 = -lit then swap c0 0 1 else some c0) with
      | none => .error .panic
      | some c1 =>
        match c1[0]? with
        | none => .error .panic
        | some first =>
          let w2 : Watcher := ⟨w.cid, first⟩
          match litStatus st.model first with
          | none => .error .panic
          | some .sat =>
            simpLoop lit lvl rest (kept ++ [w2]) { st with clauses := st.clauses.set w.cid c1 }
          | some fs =>
            match findFree st.model (c1.drop 2) 2 with
            | .error e => .error e
            | .ok (some (k, litK)) =>
              match swap c1 1 k with
              | none => .error .panic
              | some c2 =>
                match wpush st.wlong (-litK) w2 with
                | none => .error .panic
                | some wl' =>
                  simpLoop lit lvl rest kept { st with clauses := st.clauses.set w.cid c2, wlong := wl' }
            | .ok none =>
              let st1 : State := { st with clauses := st.clauses.set w.cid c1 }
              if fs = .unsat then
                .ok (some w.cid, kept ++ [w2] ++ rest, st1)
              else
                match bind st1 first lvl w.cid with
                | none => .error .panic
                | some st2 => simpLoop lit lvl rest (kept ++ [w2]) st2

theorem simpLoop_cons (lit lvl : Int) (w : Watcher) (rest kept : List Watcher) (st : State) :
    simpLoop lit lvl (w :: rest) kept st =
      match litStatus st.model w.other with
      | none => .error .panic
      | some .sat => simpLoop lit lvl rest (kept ++ [w]) st
      | some _ => nonSatBody lit lvl w rest kept st := by
  rw [simpLoop]
  unfold nonSatBody
  cases litStatus st.model w.other with
  | none => rfl
  | some s => cases s <;> rfl

theorem virt_virt (st : State) (lit : Int) (L L' : List Watcher) :
    virt (virt st lit L) lit L' = virt st lit L' := by
  unfold virt
  simp [List.set_set]

/-- the state after the literals of clause `cid` have been reordered -/
abbrev setClause (st : State) (cid : Nat) (c : List Int) : State :=
  { st with clauses := st.clauses.set cid c }

theorem setClause_same {st : State} {cid : Nat} {c : List Int} (h : st.clauses[cid]? = some c) :
    setClause st cid c = st := by
  unfold setClause
  rw [set_same h]

theorem nonSatBody_spec {M M2 n0 ptr : Nat} {lit lvl : Int} (hlvl : 0 < lvl) (w : Watcher)
    (rest kept : List Watcher) (st : State) (h : Mid M M2 n0 st ptr lit kept (w :: rest))
    (IH : ∀ kept' st', Mid M M2 n0 st' ptr lit kept' rest → Post M M2 n0 ptr lit (simpLoop lit lvl rest kept' st')) :
    Post M M2 n0 ptr lit (nonSatBody lit lvl w rest kept st) := by
  have hV := h.inv
  have hlit_mem : lit ∈ st.trail := mem_of_getElem?_eq h.lit_at
  have hlt : litTrueB st.model lit = true := hV.trail_true lit hlit_mem
  have hlit0 : lit ≠ 0 := (litTrueB_iff.mp hlt).1
  have hnot : lit ∉ st.trail.take ptr := notMem_take_of_nodup hV.trail_nodup h.lit_at
  have hnl : litTrueB st.model (-lit) = false := litTrueB_neg_false hlt
  have hVi : (virt st lit (kept ++ w :: rest)).wlong[litIdx lit]? = some (kept ++ w :: rest) := by
    show (st.wlong.set _ _)[_]? = _
    rw [List.getElem?_set_self h.lst]
  obtain ⟨c0, hc0, hlen0, h01, _⟩ := hV.wlong _ _ hVi w (by simp)
  change st.clauses[w.cid]? = some c0 at hc0
  rw [idxLit_litIdx hlit0] at h01
  obtain ⟨x0, x1, r0, hr0, hc0eq⟩ : ∃ x0 x1 r0, r0 ≠ [] ∧ c0 = x0 :: x1 :: r0 := by
    match c0, hlen0 with
    | x0 :: x1 :: y :: r, _ => exact ⟨x0, x1, y :: r, by simp, rfl⟩
  subst hc0eq
  simp only [List.getElem?_cons_zero, List.getElem?_cons_succ, Option.some.injEq] at h01
  -- after `c.swap(0, 1)` the clause is `first :: ¬lit :: r0`
  obtain ⟨first, hsw, hV1, hsem1, hF1⟩ : ∃ first,
      (if x0 = -lit then swap (x0 :: x1 :: r0) 0 1 else some (x0 :: x1 :: r0)) =
        some (first :: (-lit) :: r0) ∧
      WatchInv (virt (setClause st w.cid (first :: (-lit) :: r0)) lit
        (kept ++ w :: rest)) ptr ∧
      (∀ w' ∈ kept, SemW (st.clauses.set w.cid (first :: (-lit) :: r0)) st.model w') ∧
      Forced (st.clauses.set w.cid (first :: (-lit) :: r0)) st.reasons st.trail n0 := by
    by_cases hx0 : x0 = -lit
    · refine ⟨x1, by rw [if_pos hx0, swap_01, hx0], ?_, ?_, ?_⟩
      · rw [← hx0]; exact swap01_inv hV hc0 hr0
      · intro w' hw'; rw [← hx0]; exact SemW_swap hc0 (h.sem w' hw')
      · rw [← hx0]; exact Forced_perm hc0 (List.Perm.swap x0 x1 r0) h.forced
    · have hx1 : x1 = -lit := by
        rcases h01 with h01 | h01
        · exact absurd h01 hx0
        · exact h01
      refine ⟨x0, by rw [if_neg hx0, hx1], ?_, ?_, ?_⟩
      · rw [← hx1, setClause_same hc0]; exact hV
      · intro w' hw'; rw [← hx1, set_same hc0]; exact h.sem w' hw'
      · rw [← hx1, set_same hc0]; exact h.forced
  have hcl1 : (st.clauses.set w.cid (first :: (-lit) :: r0))[w.cid]? = some (first :: (-lit) :: r0) := by
    rw [set_get _ _ hc0]; simp
  have hcond1 := hV1.clauses _ (mem_of_getElem?_eq (show (virt (setClause st w.cid
    (first :: (-lit) :: r0)) lit (kept ++ w :: rest)).clauses[w.cid]? = _ from hcl1))
  change _ ∧ (∀ l ∈ first :: (-lit) :: r0, l ≠ 0 ∧ l.natAbs ≤ st.model.length) ∧ _ at hcond1
  obtain ⟨_, hlits1, _⟩ := hcond1
  have hf0 : first ≠ 0 := (hlits1 first (by simp)).1
  have hfn : first.natAbs ≤ st.model.length := (hlits1 first (by simp)).2
  obtain ⟨fs, hfs⟩ := litStatus_some hf0 hfn
  have hV1i : (virt (setClause st w.cid (first :: (-lit) :: r0)) lit
      (kept ++ w :: rest)).wlong[litIdx lit]? = some (kept ++ w :: rest) := hVi
  have happ : kept ++ [(⟨w.cid, first⟩ : Watcher)] ++ rest = kept ++ ⟨w.cid, first⟩ :: rest := by simp
  -- the state in which `w` has been replaced by `w2` in place
  have hV2 : WatchInv (virt (setClause st w.cid (first :: (-lit) :: r0)) lit
      (kept ++ [⟨w.cid, first⟩] ++ rest)) ptr := by
    have := replaceW_inv (w2 := ⟨w.cid, first⟩) hV1 hV1i rfl
      (by
        intro c hc
        change (st.clauses.set w.cid _)[w.cid]? = some c at hc
        rw [hcl1] at hc; cases hc; simp)
      (by rw [idxLit_litIdx hlit0]; exact hnot)
    rw [happ]
    have e := virt_virt (setClause st w.cid (first :: (-lit) :: r0)) lit
      (kept ++ w :: rest) (kept ++ ⟨w.cid, first⟩ :: rest)
    rw [← e]
    exact this
  -- the literals beyond position 1
  have hstat : ∀ l ∈ r0, ∃ s, litStatus st.model l = some s := fun l hl =>
    litStatus_some (hlits1 l (by simp [hl])).1 (hlits1 l (by simp [hl])).2
  have hshape := hV.shape
  change st.reasons.length = st.model.length ∧ st.wbin.length = 2 * st.model.length ∧
    (st.wlong.set (litIdx lit) (kept ++ w :: rest)).length = 2 * st.model.length at hshape
  rw [List.length_set] at hshape
  -- the branch in which the watcher moves to the list of `¬litK`
  have hmove : ∀ j litK, r0[j]? = some litK → litStatus st.model litK ≠ some .unsat →
      ∃ Lk, wpush st.wlong (-litK) ⟨w.cid, first⟩ =
          some (st.wlong.set (litIdx (-litK)) (Lk ++ [⟨w.cid, first⟩])) ∧
        Post M M2 n0 ptr lit (simpLoop lit lvl rest kept { st with
          clauses := st.clauses.set w.cid (first :: litK :: r0.set j (-lit))
          wlong := st.wlong.set (litIdx (-litK)) (Lk ++ [⟨w.cid, first⟩]) }) := by
    intro j litK hkj hnu
    have hKr : litK ∈ r0 := mem_of_getElem?_eq hkj
    have hK0 : litK ≠ 0 := (hlits1 litK (by simp [hKr])).1
    have hKn : litK.natAbs ≤ st.model.length := (hlits1 litK (by simp [hKr])).2
    have hnK0 : -litK ≠ 0 := by omega
    have hklt : litIdx (-litK) < st.wlong.length := by
      rw [hshape.2.2]; exact litIdx_lt hnK0 (by simpa using hKn)
    obtain ⟨Lk, hLk⟩ : ∃ Lk, st.wlong[litIdx (-litK)]? = some Lk :=
      ⟨_, List.getElem?_eq_getElem hklt⟩
    refine ⟨Lk, by unfold wpush wget; simp [hnK0, hLk], ?_⟩
    have hnd1 := (hV1.clauses _ (mem_of_getElem?_eq (show (virt (setClause st w.cid
      (first :: (-lit) :: r0)) lit (kept ++ w :: rest)).clauses[w.cid]? = _ from hcl1))).2.2
    have hnd' : (((-lit) :: r0).map Int.natAbs).Nodup := by
      simp only [List.map_cons, List.nodup_cons] at hnd1 ⊢; exact hnd1.2
    have hKl : litK.natAbs ≠ lit.natAbs := by
      have := natAbs_ne_of_nodup_cons hnd' hKr
      simpa using this
    have hik : litIdx (-litK) ≠ litIdx lit :=
      litIdx_ne_of_natAbs_ne hnK0 hlit0 (by simpa using hKl)
    have hLk' : (virt (setClause st w.cid (first :: (-lit) :: r0)) lit
        (kept ++ w :: rest)).wlong[litIdx (-litK)]? = some Lk := by
      show (st.wlong.set _ _)[_]? = _
      rw [List.getElem?_set_ne (Ne.symm hik)]; exact hLk
    have hmv := moveW_inv (j := j) (litK := litK) (Lk := Lk) hV1 hlit0 hV1i
      (show (virt (setClause st w.cid (first :: (-lit) :: r0)) lit
        (kept ++ w :: rest)).clauses[w.cid]? = _ from hcl1) hkj hLk' hnot
      (neg_not_true_of_not_unsat hnu) hnl
    apply IH
    refine ⟨?_, h.lit_at, by simpa using h.lst, ?_, h.semB, h.meas, h.nvars, ?_⟩
    rotate_left 2
    · have := Forced_perm hcl1 ((set_perm (b := -lit) hkj).cons first) hF1
      rw [List.set_set] at this
      exact this
    · have e : virt { st with
          clauses := st.clauses.set w.cid (first :: litK :: r0.set j (-lit))
          wlong := st.wlong.set (litIdx (-litK)) (Lk ++ [⟨w.cid, first⟩]) } lit (kept ++ rest) =
        { virt (setClause st w.cid (first :: (-lit) :: r0)) lit (kept ++ w :: rest) with
          clauses := (virt (setClause st w.cid (first :: (-lit) :: r0)) lit
            (kept ++ w :: rest)).clauses.set w.cid (first :: litK :: r0.set j (-lit))
          wlong := ((virt (setClause st w.cid (first :: (-lit) :: r0)) lit
            (kept ++ w :: rest)).wlong.set (litIdx (-litK)) (Lk ++ [⟨w.cid, first⟩])).set
              (litIdx lit) (kept ++ rest) } := by
        simp only [virt, setClause, List.set_set]
        rw [List.set_comm _ _ (Ne.symm hik), List.set_set]
      rw [e]
      exact hmv
    · intro w' hw'
      have := SemW_move (x := litK) (r' := r0.set j (-lit)) hcl1 hnl (hsem1 w' hw')
      rw [List.set_set] at this
      exact this
  have hff := findFree_spec (m := st.model) r0 2 hstat
  have hdrop : List.drop 2 (first :: (-lit) :: r0) = r0 := rfl
  unfold nonSatBody
  simp only [hc0, List.getElem?_cons_zero, hsw, hfs]
  cases fs with
  | sat =>
    simp only []
    apply IH
    refine ⟨hV2, h.lit_at, h.lst, ?_, h.semB, h.meas, h.nvars, hF1⟩
    intro w' hw'
    simp only [List.mem_append, List.mem_singleton] at hw'
    rcases hw' with hw' | hw'
    · exact hsem1 w' hw'
    · subst hw'
      right
      exact ⟨_, hcl1, Or.inl ⟨first, by simp, litTrueB_of_sat hfs⟩⟩
  | unsat =>
    simp only [hdrop]
    rcases hff with ⟨hnone, hallF⟩ | ⟨j, litK, hsome, hkj, hnu⟩
    · simp only [hnone, if_true]
      refine ⟨some w.cid, _, _, rfl, hF1, by simp, ?_⟩
      intro cid hcid
      cases hcid
      refine ⟨hV2, _, hcl1, ?_⟩
      intro l hl
      simp only [List.mem_cons] at hl
      rcases hl with hl | hl | hl
      · subst hl; exact litFalseB_of_unsat hfs
      · subst hl; exact litFalseB_neg hlt
      · exact hallF l hl
    · obtain ⟨Lk, hpush, hpost⟩ := hmove j litK hkj hnu
      simp only [hsome, swap_1k first (-lit) hkj, hpush]
      exact hpost
  | indet =>
    simp only [hdrop]
    rcases hff with ⟨hnone, hallF⟩ | ⟨j, litK, hsome, hkj, hnu⟩
    · have hu : litUnboundB st.model first = true := litUnboundB_of_indet hfs
      have hpos : 0 < first.natAbs := Int.natAbs_pos.mpr hf0
      have hb := bind_eq (st := setClause st w.cid (first :: (-lit) :: r0)) lvl w.cid hf0
        (show first.natAbs - 1 < st.reasons.length by rw [hshape.1]; omega)
        (show first.natAbs - 1 < st.model.length by omega)
      have hne : ¬ (Status.indet = Status.unsat) := by simp
      simp only [hnone, hne, if_false]
      rw [show ({ st with clauses := st.clauses.set w.cid (first :: (-lit) :: r0) } : State) =
        setClause st w.cid (first :: (-lit) :: r0) from rfl, hb]
      apply IH
      have hmono : ∀ x, litTrueB st.model x = true →
          litTrueB (st.model.set (first.natAbs - 1) (signedLvl first lvl)) x = true :=
        fun x hx => litTrueB_set_mono hu hx
      refine ⟨?_, ?_, h.lst, ?_, ?_, ?_, ?_, ?_⟩
      rotate_left 4
      · show (st.trail ++ [first]).length + zeros (st.model.set _ _) = M
        have := zeros_set (signedLvl_ne_zero (l := first) (Int.ne_of_gt hlvl)) (litUnboundB_iff.mp hu).2
        rw [← h.meas, List.length_append]; simp only [List.length_singleton]; omega
      · show (st.model.set _ _).length = M2
        rw [List.length_set]; exact h.nvars
      · have hfalse : ∀ x ∈ first :: (-lit) :: r0, x ≠ first → litFalseB st.model x = true := by
          intro x hx hxf
          simp only [List.mem_cons] at hx
          rcases hx with hx | hx | hx
          · exact absurd hx hxf
          · subst hx; exact litFalseB_neg hlt
          · exact hallF x hx
        exact Forced_bind (lvl := lvl) (st := virt (setClause st w.cid (first :: (-lit) :: r0)) lit
          (kept ++ [⟨w.cid, first⟩] ++ rest)) hV2 hu hcl1 (by simp) hfalse hF1
      · exact bindSt_inv w.cid hV2 hu hlvl
      · show (st.trail ++ [first])[ptr]? = some lit
        have hp : ptr < st.trail.length := (List.getElem?_eq_some_iff.mp h.lit_at).1
        rw [List.getElem?_append_left hp]; exact h.lit_at
      · intro w' hw'
        simp only [List.mem_append, List.mem_singleton] at hw'
        rcases hw' with hw' | hw'
        · exact SemW_mono hmono (hsem1 w' hw')
        · subst hw'
          right
          exact ⟨_, hcl1, Or.inl ⟨first, by simp, litTrueB_set_self hu hlvl⟩⟩
      · intro ws hws w' hw'
        exact hmono _ (h.semB ws hws w' hw')
    · obtain ⟨Lk, hpush, hpost⟩ := hmove j litK hkj hnu
      simp only [hsome, swap_1k first (-lit) hkj, hpush]
      exact hpost

/-- **The loop of `simplifyPropClauses` keeps its invariant**, never panics, and a conflict clause it
    returns has all its literals false. -/
theorem simpLoop_spec {M M2 n0 ptr : Nat} {lit lvl : Int} (hlvl : 0 < lvl) :
    ∀ (rest kept : List Watcher) (st : State), Mid M M2 n0 st ptr lit kept rest →
      Post M M2 n0 ptr lit (simpLoop lit lvl rest kept st) := by
  intro rest
  induction rest with
  | nil =>
    intro kept st h
    exact ⟨none, kept, st, by simp [simpLoop], h.forced, fun _ => h, by simp⟩
  | cons w rest ih =>
    intro kept st h
    rw [simpLoop_cons]
    have hV := h.inv
    have hVi : (virt st lit (kept ++ w :: rest)).wlong[litIdx lit]? = some (kept ++ w :: rest) := by
      show (st.wlong.set _ _)[_]? = _
      rw [List.getElem?_set_self h.lst]
    obtain ⟨c0, hc0, _, _, hoc⟩ := hV.wlong _ _ hVi w (by simp)
    have hcond := (hV.clauses c0 (mem_of_getElem?_eq hc0)).2.1 _ hoc
    change w.other ≠ 0 ∧ w.other.natAbs ≤ st.model.length at hcond
    obtain ⟨so, hso⟩ := litStatus_some hcond.1 hcond.2
    rw [hso]
    cases so with
    | sat =>
      simp only []
      apply ih
      refine ⟨?_, h.lit_at, h.lst, ?_, h.semB, h.meas, h.nvars, h.forced⟩
      · have : kept ++ [w] ++ rest = kept ++ w :: rest := by simp
        rw [this]; exact hV
      · intro w' hw'
        simp only [List.mem_append, List.mem_singleton] at hw'
        rcases hw' with hw' | hw'
        · exact h.sem w' hw'
        · subst hw'; exact Or.inl (litTrueB_of_sat hso)
    | indet => exact nonSatBody_spec hlvl w rest kept st h (fun k s hm => ih k s hm)
    | unsat => exact nonSatBody_spec hlvl w rest kept st h (fun k s hm => ih k s hm)

/-- At the end of the loop the state in which `wlist[lit] = wl[:j]` satisfies the invariant with
    `lit` processed. -/
theorem Mid.done {M M2 n0 : Nat} {st : State} {ptr : Nat} {lit : Int} {kept : List Watcher}
    (h : Mid M M2 n0 st ptr lit kept []) : WatchInv (virt st lit kept) (ptr + 1) := by
  have hV := h.inv
  rw [List.append_nil] at hV
  have hp : ptr < st.trail.length := (List.getElem?_eq_some_iff.mp h.lit_at).1
  have hlit0 : lit ≠ 0 := (litTrueB_iff.mp (hV.trail_true lit (mem_of_getElem?_eq h.lit_at))).1
  have htake : ∀ x, x ∈ (virt st lit kept).trail.take (ptr + 1) →
      x ∈ (virt st lit kept).trail.take ptr ∨ x = lit := by
    intro x hx
    change x ∈ st.trail.take (ptr + 1) at hx
    rw [List.take_succ, h.lit_at] at hx
    show x ∈ st.trail.take ptr ∨ x = lit
    simpa using hx
  refine ⟨hV.shape, hV.clauses, hp, hV.trail_true, hV.trail_nodup, hV.bound_on_trail, hV.wbin,
    hV.wlong, hV.count, ?_, ?_⟩
  · intro i ws hws hin w hw
    rcases htake _ hin with hin | hin
    · exact hV.semBin i ws hws hin w hw
    · have hi : i = litIdx lit := by rw [← hin, litIdx_idxLit]
      rw [hi] at hws
      exact h.semB ws hws w hw
  · intro i ws hws hin w hw
    rcases htake _ hin with hin | hin
    · exact hV.semLong i ws hws hin w hw
    · have hi : i = litIdx lit := by rw [← hin, litIdx_idxLit]
      rw [hi] at hws
      change (st.wlong.set _ _)[_]? = _ at hws
      rw [List.getElem?_set_self h.lst] at hws
      cases hws
      exact h.sem w hw

end GS.Watch
