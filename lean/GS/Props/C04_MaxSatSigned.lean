import GS.Model.MaxSatSigned
import GS.Props.C04_MaxSat
import GS.Props.C04_MaxSatNew
/-!
# C04 — the blocking-literal encoding of the current `maxsat.New` is exact for coefficients of either sign

`GS.MaxSatSigned.encodeS` relaxes a soft constraint `Σ cᵢ·lᵢ ≥ d` with the term
`blockCoeff · b`, `blockCoeff = d + Σ_{cᵢ<0} |cᵢ|`, and only when `blockCoeff > 0`.
Everything below holds for **all** integer coefficients (negative, zero, positive) and all
degrees; the hypothesis `softNonneg` of `GS.Props.C04_MaxSat` is gone. What remains:

* `hard.wf n`, `softWf n soft` : the user's literals are non-zero and within `1..n`
  (the blocking variables `n+1+i` are fresh) — completeness only;
* `weightsNonneg soft`          : the weights are `≥ 0` — soundness only.
-/
namespace GS.MaxSatSigned
open GS GS.MaxSatEnc

/-! ### arithmetic -/

theorem negSum_nonneg : ∀ ts : List (Int × Int), 0 ≤ negSum ts := by
  intro ts
  induction ts with
  | nil => simp [negSum]
  | cons t ts ih => simp only [negSum]; split <;> omega

/-- The left-hand side of a constraint is at least minus the sum of the absolute values of its
    negative coefficients — for every assignment, every sign. -/
theorem lhs_ge_negSum (a : Asg) : ∀ ts : List (Int × Int), -(negSum ts) ≤ lhs a ts := by
  intro ts
  induction ts with
  | nil => simp [negSum, lhs]
  | cons t ts ih =>
    simp only [negSum, lhs, termVal]
    split <;> split <;> omega

theorem relaxS_lhs (a : Asg) (c : Lin) (b : Int) :
    lhs a (relaxS c b).terms = lhs a c.terms + (if litTrue a b = true then blockCoeff c else 0) := by
  simp [relaxS, lhs_append, lhs, termVal]

/-! ### `relaxS_sem` -/

/-- Blocking literal false: the relaxed constraint *is* the constraint. -/
theorem relaxS_unblocked (a : Asg) (c : Lin) (b : Int) (hb : litTrue a b = false) :
    (relaxS c b).holds a = c.holds a := by
  unfold Lin.holds
  rw [relaxS_lhs, hb]
  simp [relaxS]

/-- Blocking literal true: the relaxed constraint holds, whatever the signs of the coefficients:
    `lhs + degree + negSum ≥ degree` because `lhs ≥ −negSum`. -/
theorem relaxS_blocked (a : Asg) (c : Lin) (b : Int) (hb : litTrue a b = true) :
    (relaxS c b).holds a = true := by
  unfold Lin.holds
  rw [relaxS_lhs, hb]
  have := lhs_ge_negSum a c.terms
  simp only [relaxS, blockCoeff, if_true, decide_eq_true_eq]
  omega

theorem relaxS_sound (a : Asg) (c : Lin) (b : Int) (h : (relaxS c b).holds a = true) :
    c.holds a = true ∨ litTrue a b = true := by
  cases hb : litTrue a b with
  | true => exact Or.inr rfl
  | false => rw [relaxS_unblocked a c b hb] at h; exact Or.inl h

/-- **`Σ cᵢ·lᵢ + blockCoeff·b ≥ d` is `(Σ cᵢ·lᵢ ≥ d) ∨ b`** for all integer coefficients and
    degrees. The statement is pointwise in the assignment, so it needs neither `b` fresh, nor
    `b ≠ 0`, nor even `0 < blockCoeff` (see `relaxS_sem'` for the form with that hypothesis). -/
theorem relaxS_sem (a : Asg) (c : Lin) (b : Int) :
    (relaxS c b).holds a = true ↔ (c.holds a = true ∨ litTrue a b = true) := by
  constructor
  · exact relaxS_sound a c b
  · rintro (h | h)
    · cases hb : litTrue a b with
      | true => exact relaxS_blocked a c b hb
      | false => rw [relaxS_unblocked a c b hb]; exact h
    · exact relaxS_blocked a c b h

/-- The form asked for (the hypothesis is not used). -/
theorem relaxS_sem' (a : Asg) (c : Lin) (b : Int) (_h : 0 < blockCoeff c) :
    (relaxS c b).holds a = true ↔ (c.holds a = true ∨ litTrue a b = true) := relaxS_sem a c b

/-- **No blocking literal needed when `blockCoeff ≤ 0`**: the constraint holds under every
    assignment, so `New` is right to hand it to the solver unrelaxed and to charge nothing. -/
theorem trivial_of_blockCoeff_nonpos (a : Asg) (c : Lin) (h : blockCoeff c ≤ 0) :
    c.holds a = true := by
  unfold Lin.holds
  have := lhs_ge_negSum a c.terms
  unfold blockCoeff at h
  simp only [decide_eq_true_eq]
  omega

/-- the former counterexample `2·x1 − x2 ≥ 1` (see `C04_MaxSat`): now relaxed with coefficient
    `2`, and the blocking literal alone satisfies it. -/
example :
    let c : Lin := ⟨[(2, 1), (-1, 2)], 1⟩
    let a : Asg := asgOf [false, true, true]
    blockCoeff c = 2 ∧ relaxS c 3 = ⟨[(2, 1), (-1, 2), (2, 3)], 1⟩ ∧
    litTrue a 3 = true ∧ (relaxS c 3).holds a = true := by decide

/-- `−x1 − x2 ≥ −2` has `blockCoeff = 0`: trivially true, never relaxed. -/
example : blockCoeff ⟨[(-1, 1), (-1, 2)], -2⟩ = 0 := by decide

/-! ### fidelity of `relaxS` to the three branches of the current `maxsat.New` -/

theorem foldl_shift (cs : List Int) (x y : Int) :
    cs.foldl (fun acc k => if k < 0 then acc - k else acc) (x + y) =
      cs.foldl (fun acc k => if k < 0 then acc - k else acc) x + y := by
  induction cs generalizing x with
  | nil => rfl
  | cons k ks ih =>
    simp only [List.foldl_cons]
    split
    · rw [show x + y - k = (x - k) + y by omega, ih]
    · exact ih x

theorem foldl_negSum_zip : ∀ (cs ls : List Int) (d : Int), cs.length = ls.length →
    cs.foldl (fun acc k => if k < 0 then acc - k else acc) d = d + negSum (cs.zip ls) := by
  intro cs
  induction cs with
  | nil => intro ls d _; simp [negSum]
  | cons k ks ih =>
    intro ls d h
    cases ls with
    | nil => simp at h
    | cons l ls =>
      simp only [List.length_cons, Nat.add_right_cancel_iff] at h
      simp only [List.foldl_cons, List.zip_cons_cons, negSum]
      split
      · rw [ih ls (d - k) h]; omega
      · rw [ih ls d h]; omega

theorem negSum_ones : ∀ ls : List Int, negSum (ls.map (fun l => ((1 : Int), l))) = 0 := by
  intro ls
  induction ls with
  | nil => rfl
  | cons l ls ih => simp [negSum, ih]

/-- The Go loop computes `blockCoeff` of the constraint's meaning. -/
theorem goBlockCoeff_eq (c : GoConstr) (l : Lin) (hl : c.toLin = some l) :
    goBlockCoeff c = blockCoeff l := by
  obtain ⟨lits, coeffs, d⟩ := c
  simp only [GoConstr.toLin] at hl
  cases coeffs with
  | nil =>
    simp only [List.isEmpty_nil, if_true, Option.some.injEq] at hl
    subst hl
    simp [goBlockCoeff, blockCoeff, negSum_ones]
  | cons k ks =>
    simp only [List.isEmpty_cons, Bool.false_eq_true, if_false] at hl
    split at hl
    · rename_i hlen
      simp only [Option.some.injEq] at hl
      subst hl
      simp only [goBlockCoeff, blockCoeff]
      exact foldl_negSum_zip (k :: ks) lits d hlen
    · cases hl

/-- **Fidelity.** For every `GtEq` call with a meaning (clause, cardinality constraint, or PB
    constraint with as many coefficients as literals) — no hypothesis on the bound, none on the
    signs — `New` creates a blocking literal iff `0 < blockCoeff`, and what it then passes to
    `solver.GtEq` means `relaxS` of the constraint. -/
theorem newSoftS_toLin (c : GoConstr) (bl : Int) (l : Lin) (hl : c.toLin = some l) :
    (0 < blockCoeff l → ∃ r, newSoftS c bl = some r ∧ r.toLin = some (relaxS l bl)) ∧
    (blockCoeff l ≤ 0 → newSoftS c bl = none) := by
  have hbc := goBlockCoeff_eq c l hl
  constructor
  · intro hpos
    have hgo : goBlockCoeff c > 0 := by rw [hbc]; exact hpos
    obtain ⟨lits, coeffs, d⟩ := c
    simp only [GoConstr.toLin] at hl
    cases coeffs with
    | nil =>
      simp only [List.isEmpty_nil, if_true, Option.some.injEq] at hl
      subst hl
      have hbd : blockCoeff ⟨lits.map (fun l => ((1 : Int), l)), d⟩ = d := by
        simp [blockCoeff, negSum_ones]
      have hgd : goBlockCoeff ⟨lits, [], d⟩ = d := by rw [hbc, hbd]
      rw [hbd] at hpos
      by_cases h1 : d > 1
      · have hz := zip_append_single (lits.map (fun _ => (1 : Int))) lits d bl (by simp)
        rw [zip_ones] at hz
        refine ⟨⟨lits ++ [bl], lits.map (fun _ => (1 : Int)) ++ [d], d⟩, ?_, ?_⟩
        · simp [newSoftS, hgd, hpos, h1]
        · simp [GoConstr.toLin, relaxS, hbd, hz]
      · have : d = 1 := by omega
        subst this
        refine ⟨⟨lits ++ [bl], [], 1⟩, ?_, ?_⟩
        · simp [newSoftS, hgd]
        · simp [GoConstr.toLin, relaxS, hbd]
    | cons k ks =>
      simp only [List.isEmpty_cons, Bool.false_eq_true, if_false] at hl
      split at hl
      · rename_i hlen
        simp only [Option.some.injEq] at hl
        subst hl
        have hz := zip_append_single (k :: ks) lits (goBlockCoeff ⟨lits, k :: ks, d⟩) bl hlen
        refine ⟨⟨lits ++ [bl], (k :: ks) ++ [goBlockCoeff ⟨lits, k :: ks, d⟩], d⟩, ?_, ?_⟩
        · simp [newSoftS, hgo]
        · have hlen' : ((k :: ks) ++ [goBlockCoeff ⟨lits, k :: ks, d⟩]).length = (lits ++ [bl]).length := by
            simp only [List.length_append, hlen, List.length_singleton]
          simp only [GoConstr.toLin, relaxS, hz]
          rw [if_neg (by simp), if_pos hlen', hbc]
      · cases hl
  · intro hle
    have hgo : ¬ goBlockCoeff c > 0 := by rw [hbc]; omega
    simp [newSoftS, hgo]

/-- soft PB `2·x1 − x2 ≥ 1`: blocking literal 3 with coefficient `1 + 1 = 2`. -/
example : newSoftS ⟨[1, 2], [2, -1], 1⟩ 3 = some ⟨[1, 2, 3], [2, -1, 2], 1⟩ := by decide
/-- soft cardinality `x1 + x2 + x3 ≥ 2`: explicit unit coefficients, then 2. -/
example : newSoftS ⟨[1, 2, 3], [], 2⟩ 4 = some ⟨[1, 2, 3, 4], [1, 1, 1, 2], 2⟩ := by decide
/-- a soft clause keeps `nil` coefficients. -/
example : newSoftS ⟨[1, -2], [], 1⟩ 3 = some ⟨[1, -2, 3], [], 1⟩ := by decide
/-- `nil` coefficients, bound 0, and `−x1 − x2 ≥ −2`: trivially true, no blocking literal. -/
example : newSoftS ⟨[1, 2], [], 0⟩ 3 = none ∧ newSoftS ⟨[1, 2], [-1, -1], -2⟩ 3 = none := by decide

/-! ### completeness -/

theorem complete_auxS (n : Nat) (u e : Asg) (hag : ∀ v, 1 ≤ v → v ≤ n → e v = u v) :
    ∀ (ss : List Soft) (k : Nat), 1 ≤ k → softWf n ss = true →
      (∀ i s, ss[i]? = some s → e (k + i) = !s.c.holds u) →
      Problem.holds e (relaxFromS k ss) = true ∧ cost (costFromS k ss) e = violated u ss := by
  intro ss
  induction ss with
  | nil => intro k _ _ _; simp [relaxFromS, costFromS, Problem.holds, cost, lhs, violated]
  | cons s ss ih =>
    intro k hk hw he
    unfold softWf at hw
    simp only [List.all_cons, Bool.and_eq_true] at hw
    have hk0 : e k = !s.c.holds u := by simpa using he 0 s (by simp)
    have hlit : litTrue e (k : Int) = !s.c.holds u := by rw [litTrue_natCast e k hk, hk0]
    have hc : s.c.holds e = s.c.holds u := Lin.holds_congr e u n hag s.c hw.1
    have ⟨ih1, ih2⟩ := ih (k + 1) (by omega) (by unfold softWf; exact hw.2)
      (fun i s' hi => by
        have := he (i + 1) s' (by simpa using hi)
        rw [← this]; congr 1; omega)
    by_cases hpos : 0 < blockCoeff s.c
    · constructor
      · simp only [relaxFromS, hpos, if_true, Problem.holds, List.all_cons, Bool.and_eq_true]
        refine ⟨?_, ih1⟩
        rw [relaxS_sem e s.c k, hc, hlit]
        cases s.c.holds u <;> simp
      · unfold cost at ih2 ⊢
        simp only [costFromS, hpos, if_true, lhs, termVal, violated, ih2, hlit]
        cases s.c.holds u <;> simp
    · have htu := trivial_of_blockCoeff_nonpos u s.c (by omega)
      have hte := trivial_of_blockCoeff_nonpos e s.c (by omega)
      constructor
      · simp only [relaxFromS, hpos, if_false, Problem.holds, List.all_cons, Bool.and_eq_true]
        exact ⟨hte, ih1⟩
      · unfold cost at ih2 ⊢
        simp only [costFromS, hpos, if_false, violated, ih2, htu, if_true]
        omega

/-- **Completeness (no sign hypothesis).** Every assignment `u` satisfying `hard` extends — each
    blocking variable set to "its soft constraint is violated by `u`" (`MaxSatEnc.extend`) — to
    a model of the encoded problem whose cost is exactly the weight violated by `u`. -/
theorem encodingS_complete (n : Nat) (hard : Problem) (soft : List Soft) (u : Asg)
    (hwH : hard.wf n = true) (hwS : softWf n soft = true)
    (hu : Problem.holds u hard = true) :
    Problem.holds (extend n u soft) (encodeS n hard soft).1 = true ∧
    cost (encodeS n hard soft).2 (extend n u soft) = violated u soft ∧
    (∀ v, v ≤ n → extend n u soft v = u v) := by
  have hag : ∀ v, 1 ≤ v → v ≤ n → extend n u soft v = u v :=
    fun v _ h2 => extend_user n u soft v h2
  have ⟨h1, h2⟩ := complete_auxS n u (extend n u soft) hag soft (n + 1) (by omega) hwS
    (fun i s hi => extend_blocking n u soft i s hi)
  refine ⟨?_, h2, fun v hv => extend_user n u soft v hv⟩
  simp only [encodeS, Problem.holds, List.all_append, Bool.and_eq_true]
  refine ⟨?_, h1⟩
  have := Problem.holds_congr (extend n u soft) u n hag hard hwH
  unfold Problem.holds at this
  rw [this]; exact hu

/-! ### soundness -/

theorem sound_auxS (a : Asg) : ∀ (ss : List Soft) (k : Nat), weightsNonneg ss = true →
    Problem.holds a (relaxFromS k ss) = true → violated a ss ≤ cost (costFromS k ss) a := by
  intro ss
  induction ss with
  | nil => intro k _ _; simp [costFromS, cost, lhs, violated]
  | cons s ss ih =>
    intro k hw hm
    unfold weightsNonneg at hw
    simp only [List.all_cons, Bool.and_eq_true, decide_eq_true_eq] at hw
    simp only [relaxFromS, Problem.holds, List.all_cons, Bool.and_eq_true] at hm
    have ih' := ih (k + 1) (by unfold weightsNonneg; exact hw.2) hm.2
    have hw1 := hw.1
    by_cases hpos : 0 < blockCoeff s.c
    · have hm1 := hm.1
      simp only [hpos, if_true] at hm1
      unfold cost at ih' ⊢
      simp only [costFromS, hpos, if_true, lhs, termVal, violated]
      rcases relaxS_sound a s.c k hm1 with h | h
      · simp only [h, if_true]
        split <;> omega
      · simp only [h, if_true]
        split <;> omega
    · have hta := trivial_of_blockCoeff_nonpos a s.c (by omega)
      unfold cost at ih' ⊢
      simp only [costFromS, hpos, if_false, violated, hta, if_true]
      omega

/-- **Soundness (no sign, no well-formedness hypothesis).** Every model `a` of the encoded
    problem satisfies `hard`, and the weight it violates is at most its cost. -/
theorem encodingS_sound (n : Nat) (hard : Problem) (soft : List Soft) (a : Asg)
    (hwt : weightsNonneg soft = true)
    (ha : Problem.holds a (encodeS n hard soft).1 = true) :
    Problem.holds a hard = true ∧ violated a soft ≤ cost (encodeS n hard soft).2 a := by
  simp only [encodeS, Problem.holds, List.all_append, Bool.and_eq_true] at ha
  exact ⟨ha.1, sound_auxS a soft (n + 1) hwt ha.2⟩

/-! ### transfer -/

/-- The encoded problem is satisfiable iff the hard part is — for coefficients of either sign. -/
theorem encodedS_sat_iff (n : Nat) (hard : Problem) (soft : List Soft)
    (hwH : hard.wf n = true) (hwS : softWf n soft = true) :
    Satisfiable (encodeS n hard soft).1 ↔ Satisfiable hard := by
  constructor
  · rintro ⟨a, ha⟩
    simp only [encodeS, Problem.holds, List.all_append, Bool.and_eq_true] at ha
    exact ⟨a, ha.1⟩
  · rintro ⟨u, hu⟩
    exact ⟨_, (encodingS_complete n hard soft u hwH hwS hu).1⟩

/-- **Transfer (no `softNonneg`).** If `a` is an optimum of the encoded problem for the encoded
    cost function, then every assignment `u` that agrees with `a` on the user's variables `1..n`
    is a MaxSAT optimum of `(hard, soft)`, and the optimal cost is the weight `u` violates, i.e.
    the minimal violated weight. -/
theorem optimumS_transfer (n : Nat) (hard : Problem) (soft : List Soft) (a u : Asg)
    (hwH : hard.wf n = true) (hwS : softWf n soft = true)
    (hwt : weightsNonneg soft = true)
    (hopt : IsOptimum (encodeS n hard soft).1 (encodeS n hard soft).2 a)
    (hu : ∀ v, 1 ≤ v → v ≤ n → u v = a v) :
    IsMaxSatOpt hard soft u ∧ cost (encodeS n hard soft).2 a = violated u soft ∧
    (∀ b, Problem.holds b hard = true → cost (encodeS n hard soft).2 a ≤ violated b soft) := by
  obtain ⟨hm, hmin⟩ := hopt
  have ⟨hh, hle⟩ := encodingS_sound n hard soft a hwt hm
  have hvu : violated u soft = violated a soft := violated_congr u a n hu soft hwS
  have hhu : Problem.holds u hard = true := by
    rw [Problem.holds_congr u a n hu hard hwH]; exact hh
  have hall : ∀ b, Problem.holds b hard = true → cost (encodeS n hard soft).2 a ≤ violated b soft := by
    intro b hb
    have ⟨c1, c2, _⟩ := encodingS_complete n hard soft b hwH hwS hb
    have := hmin _ c1
    omega
  have heq : cost (encodeS n hard soft).2 a = violated u soft := by
    have := hall a hh
    omega
  refine ⟨⟨hhu, ?_⟩, heq, hall⟩
  intro b hb
  have := hall b hb
  omega

/-- Conversely every MaxSAT optimum extends to an optimum of the encoded problem. -/
theorem optimumS_transfer_conv (n : Nat) (hard : Problem) (soft : List Soft) (u : Asg)
    (hwH : hard.wf n = true) (hwS : softWf n soft = true)
    (hwt : weightsNonneg soft = true) (hopt : IsMaxSatOpt hard soft u) :
    IsOptimum (encodeS n hard soft).1 (encodeS n hard soft).2 (extend n u soft) := by
  have ⟨c1, c2, _⟩ := encodingS_complete n hard soft u hwH hwS hopt.1
  refine ⟨c1, ?_⟩
  intro b hb
  have ⟨s1, s2⟩ := encodingS_sound n hard soft b hwt hb
  have := hopt.2 b s1
  omega

/-- hypotheses of the transfer theorems met by an instance with coefficients of both signs:
    hard `x1 ∨ x2`; soft `2·x1 − x2 ≥ 1` (weight 3, relaxed with `2·x4`), soft
    `−x1 − x2 − x3 ≥ −3` (weight 2, `blockCoeff = 0`: not relaxed, variable 5 unused), soft
    `−2·x1 + 3·¬x3 + 0·x2 ≥ 2` (weight 1, relaxed with `4·x6`). -/
example :
    let hard : Problem := [Lin.ofClause [1, 2]]
    let soft : List Soft := [⟨3, ⟨[(2, 1), (-1, 2)], 1⟩⟩, ⟨2, ⟨[(-1, 1), (-1, 2), (-1, 3)], -3⟩⟩,
      ⟨1, ⟨[(-2, 1), (3, -3), (0, 2)], 2⟩⟩]
    hard.wf 3 = true ∧ softWf 3 soft = true ∧ weightsNonneg soft = true ∧
    encodeS 3 hard soft =
      ([⟨[(1, 1), (1, 2)], 1⟩, ⟨[(2, 1), (-1, 2), (2, 4)], 1⟩, ⟨[(-1, 1), (-1, 2), (-1, 3)], -3⟩,
        ⟨[(-2, 1), (3, -3), (0, 2), (4, 6)], 2⟩], [(3, 4), (1, 6)]) := by decide

/-- The witness that refuted `encoded_sat_iff` for the old encoding (hard `¬x1`, `x2`; soft
    `2·x1 − x2 ≥ 1`, weight 1) is handled: encoded optimum = MaxSAT optimum = 1. -/
example :
    let hard : Problem := [Lin.ofClause [-1], Lin.ofClause [2]]
    let soft : List Soft := [⟨1, ⟨[(2, 1), (-1, 2)], 1⟩⟩]
    bruteMaxSat 2 hard soft = some 1 ∧
    bruteOpt 3 (encodeS 2 hard soft).1 (encodeS 2 hard soft).2 = some 1 := by decide

/-! ### the remaining hypotheses are necessary: witnesses -/

/-- Negative weight: soft `x1` of weight `-1`: `x1 = true, b = true` is an encoded optimum (cost
    `-1`) that violates weight `0`, whereas the MaxSAT minimum is `-1`. -/
example :
    let soft : List Soft := [⟨-1, Lin.ofClause [1]⟩]
    let a : Asg := asgOf [true, true]
    Problem.holds a (encodeS 1 [] soft).1 = true ∧ cost (encodeS 1 [] soft).2 a = -1 ∧
    violated a soft = 0 ∧ bruteMaxSat 1 [] soft = some (-1) := by decide

/-- Literal outside `1..n`: the blocking variable `n+1 = 2` collides with the user's `x2`. -/
example :
    let hard : Problem := [Lin.ofClause [2]]
    let soft : List Soft := [⟨1, Lin.ofClause [1]⟩]
    bruteOpt 2 (encodeS 1 hard soft).1 (encodeS 1 hard soft).2 = some 1 ∧
    bruteMaxSat 2 hard soft = some 0 := by decide

#print axioms lhs_ge_negSum
#print axioms relaxS_sem
#print axioms trivial_of_blockCoeff_nonpos
#print axioms newSoftS_toLin
#print axioms encodingS_complete
#print axioms encodingS_sound
#print axioms encodedS_sat_iff
#print axioms optimumS_transfer
#print axioms optimumS_transfer_conv

end GS.MaxSatSigned
