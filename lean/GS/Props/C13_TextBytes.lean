import GS.Model.TextBytes
import GS.Props.C13_Formats
import GS.Props.C13_CnfBytes
/-!
# C13 at byte level for `solver.ParseOPB`, `maxsat.ParseWCNF`, `explain.ParseCNF`
(`GS.Model.TextBytes`)

The token-level theorems of `GS.Props.C13_Formats` (`parseOpb_render`, `parseWcnf_render`,
`explainParse_render`) are about lines of tokens. Here the texts are bytes.

* `scanLines_text`: what `bufio.Scanner` delivers on a text given as lines (`TLine`: content,
  `\n` or `\r\n`; final newline or not) — the contents, when every line fits the buffer.
  `scanLines_long`: a line of 65536 bytes or more stops it (`parseOpbBytes_long`: an error;
  `wcnfTokens_long`: `ParseWCNF` silently drops the rest of the file).
* OPB: `renderOpbBytes o lay` with `OpbByteLayout` (per term: coefficient 1 left out, optional `+`,
  leading zeros, blanks / tabs; per line: leading blanks, `>=` / `=` glued on either side, `;`
  glued, `min:` glued, `\r\n`; comment lines `*…` with arbitrary bytes and empty lines anywhere a
  line can start; final newline or not). `opbTokens_render`: its tokens are the token-level rendering
  `o.renderLines lay.toTok`; `parseOpbBytes_render_tokens`, `parseOpbBytes_render`.
* WCNF: `renderWcnfBytes w lay`, `wcnfTokens_render`, `parseWcnfBytes_render`.
* explain: any list of token lines `L` rendered with a free byte layout is read back:
  `explainTokens_render`; `explainParseBytes_render` for `L = d.renderLines lay`.
* `…_total`; examples with CRLF, tabs, glued operators, missing final newline; rejected inputs.

Hypotheses on top of the token-level ones: the layout is well formed (`….ok`: blanks where blanks
are expected, non-empty between two fields), the numbers fit a 64-bit `int` (`OpbInRange`,
`wcnfInRange`, `tokOk`), every line fits the scanner's buffer and a text without final newline does
not end with an empty line (`OpbFits`, `WcnfFits`, `LinesFit`).
-/
namespace GS.TextBytes
open GS GS.Formats GS.CnfBytes

/-! ## Texts as lines: what `bufio.Scanner` delivers -/

/-- A line of a text: its content and whether it is ended by `\r\n` (or, for the last line of a
    text without final newline, by a lone `\r`) rather than by `\n`. -/
structure TLine where
  body : List Nat
  cr : Bool := false
deriving Repr, Inhabited

def TLine.raw (l : TLine) : List Nat := l.body ++ (if l.cr then [13] else [])

/-- The bytes of a text; `fin = false`: the last line is not ended by `\n`. -/
def textBytes : List TLine → Bool → List Nat
  | [], _ => []
  | l :: ls, fin => if ls.isEmpty && !fin then l.raw else l.raw ++ 10 :: textBytes ls fin

/-- No `\n` inside, no `\r` at the end of the content, and the line fits the scanner's buffer. -/
def TLine.ok (l : TLine) : Bool :=
  l.body.all (· != 10) && l.body.getLast? != some 13 && decide (l.raw.length < maxLine)

/-- Every line is fine; a text without final newline does not end with an empty line. -/
def textOk (ls : List TLine) (fin : Bool) : Bool :=
  ls.all (·.ok) && (fin || (ls.getLast?.map (fun l => !l.raw.isEmpty)).getD true)

theorem rawLines_line : ∀ (l rest : List Nat), l.all (· != 10) = true →
    rawLines (l ++ 10 :: rest) = l :: rawLines rest := by
  intro l
  induction l with
  | nil => intro rest _; simp [rawLines]
  | cons b l ih =>
    intro rest h
    simp only [List.all_cons, Bool.and_eq_true, bne_iff_ne, ne_eq] at h
    have := ih rest h.2
    simp only [List.cons_append, rawLines, h.1, if_false, this]

theorem rawLines_last : ∀ (l : List Nat), l.all (· != 10) = true → l ≠ [] → rawLines l = [l] := by
  intro l
  induction l with
  | nil => intro _ h; exact absurd rfl h
  | cons b l ih =>
    intro h _
    simp only [List.all_cons, Bool.and_eq_true, bne_iff_ne, ne_eq] at h
    cases l with
    | nil => simp [rawLines, h.1]
    | cons c l =>
      have := ih h.2 (by simp)
      simp only [rawLines, h.1, if_false] at this ⊢
      rw [this]

theorem raw_no_nl (l : TLine) (h : l.body.all (· != 10) = true) : l.raw.all (· != 10) = true := by
  unfold TLine.raw
  cases l.cr <;> simp [h]

theorem rawLines_text : ∀ (ls : List TLine) (fin : Bool), textOk ls fin = true →
    rawLines (textBytes ls fin) = ls.map (·.raw) := by
  intro ls
  induction ls with
  | nil => intro fin _; simp [textBytes, rawLines]
  | cons l ls ih =>
    intro fin h
    simp only [textOk, List.all_cons, Bool.and_eq_true, TLine.ok] at h
    obtain ⟨⟨⟨⟨hb, _⟩, _⟩, hls⟩, hfin⟩ := h
    have hraw := raw_no_nl l hb
    by_cases hc : (ls.isEmpty && !fin) = true
    · simp only [Bool.and_eq_true, Bool.not_eq_true', List.isEmpty_iff] at hc
      obtain ⟨rfl, rfl⟩ := hc
      simp only [textBytes, List.isEmpty_nil, Bool.not_false, Bool.and_self, if_true, List.map_cons, List.map_nil]
      simp only [Bool.false_or, List.getLast?_singleton, Option.map_some, Option.getD_some,
        Bool.not_eq_true', List.isEmpty_eq_false_iff] at hfin
      exact rawLines_last _ hraw hfin
    · simp only [textBytes, hc, if_false, Bool.false_eq_true, List.map_cons]
      rw [rawLines_line _ _ hraw, ih fin]
      simp only [textOk, Bool.and_eq_true]
      refine ⟨hls, ?_⟩
      cases fin with
      | true => rfl
      | false =>
        cases ls with
        | nil => simp at hc
        | cons l' ls' => simpa [List.getLast?_cons_cons] using hfin

theorem dropCR_raw (l : TLine) (h : (l.body.getLast? != some 13) = true) : dropCR l.raw = l.body := by
  unfold TLine.raw dropCR
  cases l.cr with
  | true => simp
  | false =>
    simp only [bne_iff_ne, ne_eq] at h
    simp [h]

theorem takeFit_text : ∀ (ls : List TLine), ls.all (·.ok) = true →
    takeFit (ls.map (·.raw)) = (ls.map (·.body), false) := by
  intro ls
  induction ls with
  | nil => intro _; rfl
  | cons l ls ih =>
    intro h
    simp only [List.all_cons, Bool.and_eq_true, TLine.ok, decide_eq_true_eq] at h
    obtain ⟨⟨⟨_, h13⟩, hlen⟩, hls⟩ := h
    simp only [List.map_cons, takeFit, hlen, if_true, ih hls, dropCR_raw l h13]

/-- **The scanner on a text.** It delivers the contents of the lines, `\r` dropped, and does
    not stop on a long line. -/
theorem scanLines_text (ls : List TLine) (fin : Bool) (h : textOk ls fin = true) :
    scanLines (textBytes ls fin) = (ls.map (·.body), false) := by
  unfold scanLines
  rw [rawLines_text ls fin h]
  simp only [textOk, Bool.and_eq_true] at h
  exact takeFit_text ls h.1

/-! ## `strings.Fields` on fields separated by blanks -/

/-- `' '` or `'\t'`. -/
def blank (b : Nat) : Bool := b == 32 || b == 9

theorem blank_space {b : Nat} (h : blank b = true) : asciiSpace b = true := by
  simp only [blank, Bool.or_eq_true, beq_iff_eq] at h
  rcases h with rfl | rfl <;> decide

theorem blanks_spaces {ws : List Nat} (h : ws.all blank = true) : ws.all asciiSpace = true := by
  rw [List.all_eq_true] at h ⊢
  exact fun b hb => blank_space (h b hb)

/-- What may follow a field: the end of the line or a white space. -/
def EndsField (rest : List Nat) : Prop := rest = [] ∨ ∃ b r, rest = b :: r ∧ asciiSpace b = true

theorem endsField_blanks {ws : List Nat} (rest : List Nat) (h : ws.all blank = true) (hr : EndsField rest) :
    EndsField (ws ++ rest) := by
  cases ws with
  | nil => exact hr
  | cons b ws =>
    simp only [List.all_cons, Bool.and_eq_true] at h
    exact Or.inr ⟨b, ws ++ rest, rfl, blank_space h.1⟩

theorem endsField_cons_blank (ws : List Nat) (rest : List Nat) (hne : ws ≠ []) (h : ws.all blank = true) :
    EndsField (ws ++ rest) := by
  cases ws with
  | nil => exact absurd rfl hne
  | cons b ws =>
    simp only [List.all_cons, Bool.and_eq_true] at h
    exact Or.inr ⟨b, ws ++ rest, rfl, blank_space h.1⟩

/-- A field, then the end of the line or a white space (left in place). -/
theorem fieldsAux_field (w rest : List Nat) (hw : w.all isWord = true) (hne : w ≠ []) (hr : EndsField rest) :
    fieldsAux 0 [] (w ++ rest) = w :: fieldsAux 0 [] rest := by
  rcases hr with rfl | ⟨b, r, rfl, hb⟩
  · have := fieldsAux_last w [] hw hne (by simp)
    simpa [fieldsAux, flush] using this
  · have := fieldsAux_tok w [b] r hw hne (by simp [hb]) (by simp)
    rw [fieldsAux_space [] r hb]
    simpa [flush] using this

theorem fieldsAux_blanks (ws rest : List Nat) (h : ws.all blank = true) :
    fieldsAux 0 [] (ws ++ rest) = fieldsAux 0 [] rest := fieldsAux_spaces rest ws (blanks_spaces h)

theorem fieldsAux_blank_cons (b : Nat) (rest : List Nat) (h : blank b = true) :
    fieldsAux 0 [] (b :: rest) = fieldsAux 0 [] rest := fieldsAux_blanks [b] rest (by simp [h])

/-! ## Integers and variable names as bytes -/

/-- How an integer is written: an optional `+` (non-negative values only) and leading zeros. -/
structure IntLay where
  plus : Bool := false
  zeros : Nat := 0
deriving Repr, Inhabited

def intBytes (l : IntLay) (i : Int) : List Nat :=
  (if i < 0 then [45] else if l.plus then [43] else []) ++ (List.replicate l.zeros 48 ++ decBytes i.natAbs)

/-- `x<n>` / `~x<n>`. -/
def varBytes (l : Int) : List Nat := (if l < 0 then [126, 120] else [120]) ++ decBytes l.natAbs

theorem atoi_minus_digits {ds : List Nat} (hne : ds ≠ []) (hd : ds.all isDigit = true)
    (hv : dval 0 ds ≤ 9223372036854775808) : atoi (45 :: ds) = some (-(dval 0 ds : Int)) := by
  have he : ds.isEmpty = false := by cases ds with | nil => exact absurd rfl hne | cons _ _ => rfl
  simp [CnfBytes.atoi, splitSign, he, hd, digitsVal_eq, hv]

/-- `strconv.Atoi` reads a rendered integer back, within the 64-bit range. -/
theorem atoi_intBytes (l : IntLay) (i : Int) (h : i.natAbs < 9223372036854775808) :
    atoi (intBytes l i) = some i := by
  have hv : dval 0 (List.replicate l.zeros 48 ++ decBytes i.natAbs) = i.natAbs := dval_num _ _
  unfold intBytes
  by_cases hi : i < 0
  · simp only [hi, if_true, List.singleton_append]
    rw [atoi_minus_digits (digits_ne_nil _ _) (digits_all _ _) (by rw [hv]; omega), hv]
    congr 1; omega
  · simp only [hi, if_false]
    have := atoi_num ⟨l.plus, l.zeros⟩ i.natAbs h
    unfold NumLayout.bytes at this
    rw [this]; congr 1; omega

theorem intBytes_words (l : IntLay) (i : Int) : (intBytes l i).all isWord = true ∧ intBytes l i ≠ [] := by
  have hd : (List.replicate l.zeros 48 ++ decBytes i.natAbs).all isWord = true := by
    rw [List.all_eq_true]
    intro b hb
    exact isWord_of_digit (List.all_eq_true.mp (digits_all l.zeros i.natAbs) b hb)
  have hne := digits_ne_nil l.zeros i.natAbs
  unfold intBytes
  refine ⟨?_, ?_⟩
  · rw [List.all_append, hd, Bool.and_true]
    split
    · decide
    · split <;> decide
  · intro h
    exact hne (List.append_eq_nil_iff.mp h).2

theorem decBytes_words (n : Nat) : (decBytes n).all isWord = true := by
  rw [List.all_eq_true]
  intro b hb
  exact isWord_of_digit (decBytes_digit hb)

theorem varBytes_words (v : Int) : (varBytes v).all isWord = true ∧ varBytes v ≠ [] := by
  unfold varBytes
  refine ⟨?_, ?_⟩
  · rw [List.all_append, decBytes_words, Bool.and_true]
    split <;> decide
  · split <;> simp

theorem decBytes_atoi (n : Nat) (h : n < 9223372036854775808) : atoi (decBytes n) = some (n : Int) := by
  have := atoi_num ⟨false, 0⟩ n h
  simpa [NumLayout.bytes] using this

theorem atoi_varBytes (v : Int) : atoi (varBytes v) = none := by
  unfold varBytes
  split <;> simp [CnfBytes.atoi, splitSign, isDigit]

theorem wordOf_decBytes (n : Nat) : (decBytes n).map Char.ofNat = Nat.toDigits 10 n := by
  unfold decBytes
  rw [List.map_map]
  conv => rhs; rw [← List.map_id (Nat.toDigits 10 n)]
  apply List.map_congr_left
  intro c _
  simp [Function.comp, Char.ofNat_toNat]

theorem wordOf_varBytes (v : Int) : wordOf (varBytes v) = varName v := by
  unfold wordOf varBytes
  rw [List.map_append, wordOf_decBytes]
  apply String.ext
  rw [varName_toList]
  split <;> simp [String.toList_ofList] <;> rfl

/-- A variable name within range is passed on as it is. -/
theorem opbTok_varBytes (v : Int) (h : v.natAbs < 9223372036854775808) : opbTok (varBytes v) = varTok v := by
  unfold opbTok
  rw [atoi_varBytes]
  have hd : varDigits (varBytes v) = some (decBytes v.natAbs) := by
    unfold varBytes; split <;> simp [varDigits]
  simp only [hd, decBytes_atoi _ h, Option.isNone_some, Bool.and_false, Bool.false_eq_true, if_false, varTok,
    wordOf_varBytes]

theorem opbTok_intBytes (l : IntLay) (i : Int) (h : i.natAbs < 9223372036854775808) :
    opbTok (intBytes l i) = Tok.int i := by
  unfold opbTok
  rw [atoi_intBytes l i h]

/-! ## OPB: rendering at byte level -/

/-- Non-empty run of blanks. -/
def seps (ws : List Nat) : Bool := !ws.isEmpty && ws.all blank

/-- The free choices for one weighted term: leave out a coefficient 1, how the coefficient is
    written, the blanks between coefficient and variable, the blanks after the variable. -/
structure TermLay where
  om : Bool := false
  coef : IntLay := {}
  sep1 : List Nat := [32]
  sep2 : List Nat := [32]
deriving Repr, Inhabited

def coefFields (t : Int × Int) (l : TermLay) : List (List Nat) :=
  if l.om && t.1 == 1 then [] else [intBytes l.coef t.1]

def termBytes (t : Int × Int) (l : TermLay) : List Nat :=
  (if l.om && t.1 == 1 then [] else intBytes l.coef t.1 ++ l.sep1) ++ (varBytes t.2 ++ l.sep2)

def termsBytes : List (Int × Int) → List TermLay → List Nat
  | [], _ => []
  | t :: ts, ls => termBytes t (ls.headD {}) ++ termsBytes ts ls.tail

def termsFields : List (Int × Int) → List TermLay → List (List Nat)
  | [], _ => []
  | t :: ts, ls => coefFields t (ls.headD {}) ++ varBytes t.2 :: termsFields ts ls.tail

/-- Blanks between coefficient and variable; blanks after the variable, which may be missing
    after the last term only (what follows is then glued to the variable). -/
def termsOk : List (Int × Int) → List TermLay → Bool
  | [], _ => true
  | _ :: ts, ls =>
    seps (ls.headD {}).sep1 && (ls.headD {}).sep2.all blank && (ts.isEmpty || !(ls.headD {}).sep2.isEmpty) &&
      termsOk ts ls.tail

theorem seps_spec {ws : List Nat} (h : seps ws = true) : ws ≠ [] ∧ ws.all blank = true := by
  simp only [seps, Bool.and_eq_true, Bool.not_eq_true', List.isEmpty_eq_false_iff] at h
  exact h

theorem fields_terms : ∀ (ts : List (Int × Int)) (ls : List TermLay) (rest : List Nat),
    termsOk ts ls = true → EndsField rest →
    fieldsAux 0 [] (termsBytes ts ls ++ rest) = termsFields ts ls ++ fieldsAux 0 [] rest := by
  intro ts
  induction ts with
  | nil => intro ls rest _ _; rfl
  | cons t ts ih =>
    intro ls rest hok hr
    simp only [termsOk, Bool.and_eq_true, Bool.or_eq_true, Bool.not_eq_true', List.isEmpty_iff,
      List.isEmpty_eq_false_iff] at hok
    obtain ⟨⟨⟨h1, h2⟩, h3⟩, h4⟩ := hok
    obtain ⟨h1n, h1b⟩ := seps_spec h1
    have hnext : EndsField ((ls.headD {}).sep2 ++ (termsBytes ts ls.tail ++ rest)) := by
      rcases h3 with rfl | hne
      · simpa [termsBytes] using endsField_blanks rest h2 hr
      · exact endsField_cons_blank _ _ hne h2
    have hvar : fieldsAux 0 [] (varBytes t.2 ++ ((ls.headD {}).sep2 ++ (termsBytes ts ls.tail ++ rest))) =
        varBytes t.2 :: (termsFields ts ls.tail ++ fieldsAux 0 [] rest) := by
      rw [fieldsAux_field _ _ (varBytes_words t.2).1 (varBytes_words t.2).2 hnext, fieldsAux_blanks _ _ h2,
        ih ls.tail rest h4 hr]
    simp only [termsBytes, termsFields, termBytes, coefFields]
    by_cases ho : ((ls.headD {}).om && t.1 == 1) = true
    · simp only [ho, if_true, List.nil_append, List.append_assoc]
      exact hvar
    · simp only [ho, if_false, Bool.false_eq_true, List.append_assoc, List.cons_append]
      rw [fieldsAux_field _ _ (intBytes_words _ _).1 (intBytes_words _ _).2 (endsField_cons_blank _ _ h1n h1b),
        fieldsAux_blanks _ _ h1b, hvar]
      rfl

/-- Coefficients and variable numbers fit a 64-bit `int`. -/
def termsInRange (ts : List (Int × Int)) : Prop :=
  ∀ t ∈ ts, t.1.natAbs < 9223372036854775808 ∧ t.2.natAbs < 9223372036854775808

theorem toks_terms : ∀ (ts : List (Int × Int)) (ls : List TermLay), termsInRange ts →
    (termsFields ts ls).map opbTok = renderTerms ts (ls.map (·.om)) := by
  intro ts
  induction ts with
  | nil => intro _ _; rfl
  | cons t ts ih =>
    intro ls hr
    have ht := hr t (by simp)
    have hr' : termsInRange ts := fun t' h' => hr t' (by simp [h'])
    have hh : (ls.map (·.om)).headD false = (ls.headD {}).om := by cases ls <;> rfl
    have htl : (ls.map (·.om)).tail = ls.tail.map (·.om) := by cases ls <;> rfl
    have e1 : (termsFields (t :: ts) ls).map opbTok =
        (coefFields t (ls.headD {})).map opbTok ++ varTok t.2 :: renderTerms ts (ls.tail.map (·.om)) := by
      simp only [termsFields, List.map_append, List.map_cons, ih ls.tail hr', opbTok_varBytes _ ht.2]
    have e2 : renderTerms (t :: ts) (ls.map (·.om)) =
        renderTerm (ls.headD {}).om t ++ renderTerms ts (ls.tail.map (·.om)) := by
      simp only [renderTerms, hh, htl]
    rw [e1, e2]
    unfold coefFields renderTerm
    by_cases ho : ((ls.headD {}).om && t.1 == 1) = true
    · simp only [ho, if_true, List.map_nil, List.nil_append, List.singleton_append]
    · simp only [ho, if_false, Bool.false_eq_true, List.map_cons, List.map_nil, opbTok_intBytes _ _ ht.1,
        List.cons_append, List.nil_append]

/-! ## `spaceOutOperators` -/

theorem replaceGe_cons2 (a b : Nat) (r : List Nat) :
    replaceGe (a :: b :: r) =
      if a = 62 ∧ b = 61 then some (32 :: 62 :: 61 :: 32 :: r) else (replaceGe (b :: r)).map (a :: ·) := by
  rw [replaceGe]

theorem replaceGe_found : ∀ (pre post : List Nat), pre.all (· != 62) = true →
    replaceGe (pre ++ 62 :: 61 :: post) = some (pre ++ 32 :: 62 :: 61 :: 32 :: post) := by
  intro pre
  induction pre with
  | nil => intro post _; simp [replaceGe_cons2]
  | cons a pre ih =>
    intro post h
    simp only [List.all_cons, Bool.and_eq_true, bne_iff_ne, ne_eq] at h
    have := ih post h.2
    cases pre with
    | nil =>
      simp only [List.nil_append] at this
      simp only [List.cons_append, List.nil_append, replaceGe_cons2 a 62, h.1, false_and, if_false, this, Option.map_some]
    | cons b pre =>
      simp only [List.cons_append] at this ⊢
      rw [replaceGe_cons2, this]
      simp [h.1]

theorem replaceGe_none : ∀ (l : List Nat), l.all (· != 62) = true → replaceGe l = none := by
  intro l
  induction l with
  | nil => intro _; rfl
  | cons a l ih =>
    intro h
    simp only [List.all_cons, Bool.and_eq_true, bne_iff_ne, ne_eq] at h
    cases l with
    | nil => rfl
    | cons b l => rw [replaceGe_cons2, ih h.2]; simp [h.1]

theorem replaceEq_found : ∀ (pre post : List Nat), pre.all (· != 61) = true →
    replaceEq (pre ++ 61 :: post) = pre ++ 32 :: 61 :: 32 :: post := by
  intro pre
  induction pre with
  | nil => intro post _; simp [replaceEq]
  | cons a pre ih =>
    intro post h
    simp only [List.all_cons, Bool.and_eq_true, bne_iff_ne, ne_eq] at h
    simp [replaceEq, h.1, ih post h.2]

theorem spaceOut_not_min (body : List Nat) (h : body.head? ≠ some 109) :
    spaceOut body = (match replaceGe body with | some r => r | none => replaceEq body) := by
  unfold spaceOut
  split
  · simp at h
  · rfl

/-! ## OPB lines -/

/-- The bytes of terms, blanks, integers. -/
def plain (b : Nat) : Bool := blank b || isDigit b || b == 43 || b == 45 || b == 120 || b == 126

/-- The bytes of a constraint line. -/
def cbyte (b : Nat) : Bool := plain b || b == 62 || b == 61 || b == 59

theorem plain_of_blank {b : Nat} (h : blank b = true) : plain b = true := by simp [plain, h]

theorem blanks_plain {ws : List Nat} (h : ws.all blank = true) : ws.all plain = true := by
  rw [List.all_eq_true] at h ⊢
  exact fun b hb => plain_of_blank (h b hb)

theorem digits_plain (z n : Nat) : (List.replicate z 48 ++ decBytes n).all plain = true := by
  rw [List.all_eq_true]
  intro b hb
  have := List.all_eq_true.mp (digits_all z n) b hb
  simp [plain, this]

theorem intBytes_plain (l : IntLay) (i : Int) : (intBytes l i).all plain = true := by
  unfold intBytes
  rw [List.all_append, digits_plain, Bool.and_true]
  split
  · decide
  · split <;> decide

theorem varBytes_plain (v : Int) : (varBytes v).all plain = true := by
  unfold varBytes
  have := digits_plain 0 v.natAbs
  simp only [List.replicate_zero, List.nil_append] at this
  rw [List.all_append, this, Bool.and_true]
  split <;> decide

theorem termsBytes_plain : ∀ (ts : List (Int × Int)) (ls : List TermLay), termsOk ts ls = true →
    (termsBytes ts ls).all plain = true := by
  intro ts
  induction ts with
  | nil => intro _ _; rfl
  | cons t ts ih =>
    intro ls hok
    simp only [termsOk, Bool.and_eq_true] at hok
    obtain ⟨⟨⟨h1, h2⟩, _⟩, h4⟩ := hok
    have h1b := blanks_plain (seps_spec h1).2
    simp only [termsBytes, termBytes, List.all_append, ih ls.tail h4, varBytes_plain, blanks_plain h2, Bool.and_true]
    split
    · rfl
    · rw [List.all_append, intBytes_plain, h1b]; rfl

theorem plain_ne {b : Nat} (h : plain b = true) :
    b ≠ 62 ∧ b ≠ 61 ∧ b ≠ 10 ∧ b ≠ 13 ∧ b ≠ 42 ∧ b ≠ 109 ∧ b ≠ 59 := by
  simp only [plain, blank, isDigit, Bool.or_eq_true, beq_iff_eq, Bool.and_eq_true, decide_eq_true_eq] at h
  omega

theorem all_ne_of_plain {l : List Nat} (h : l.all plain = true) (k : Nat)
    (hk : k = 62 ∨ k = 61 ∨ k = 10 ∨ k = 13 ∨ k = 42 ∨ k = 109 ∨ k = 59) : l.all (· != k) = true := by
  rw [List.all_eq_true] at h ⊢
  intro b hb
  have := plain_ne (h b hb)
  simp only [bne_iff_ne, ne_eq]
  omega

def opBytes : Rel → List Nat
  | .ge => [62, 61]
  | .eq => [61]

/-- The free choices for a constraint line: blanks in front, the terms, blanks between operator
    and right-hand side and before the `;` (either may be missing; so may the blanks after the
    last variable: `x1>=2;`), how the right-hand side is written, `\r\n` or `\n`. -/
structure ConstrLay where
  lead : List Nat := []
  terms : List TermLay := []
  ws1 : List Nat := [32]
  rhs : IntLay := {}
  ws2 : List Nat := [32]
  cr : Bool := false
deriving Repr, Inhabited

def ConstrLay.ok (c : OpbConstr) (l : ConstrLay) : Bool :=
  l.lead.all blank && termsOk c.terms l.terms && l.ws1.all blank && l.ws2.all blank

def constrBody (c : OpbConstr) (l : ConstrLay) : List Nat :=
  (l.lead ++ termsBytes c.terms l.terms) ++ (opBytes c.rel ++ (l.ws1 ++ (intBytes l.rhs c.rhs ++ l.ws2)))

def constrLineBytes (c : OpbConstr) (l : ConstrLay) : List Nat := constrBody c l ++ [59]

theorem constr_pre_plain (c : OpbConstr) (l : ConstrLay) (h : l.ok c = true) :
    (l.lead ++ termsBytes c.terms l.terms).all plain = true := by
  simp only [ConstrLay.ok, Bool.and_eq_true] at h
  rw [List.all_append, blanks_plain h.1.1.1, termsBytes_plain _ _ h.1.1.2]; rfl

theorem constr_post_plain (c : OpbConstr) (l : ConstrLay) (h : l.ok c = true) :
    (l.ws1 ++ (intBytes l.rhs c.rhs ++ l.ws2)).all plain = true := by
  simp only [ConstrLay.ok, Bool.and_eq_true] at h
  simp only [List.all_append, blanks_plain h.1.2, blanks_plain h.2, intBytes_plain, Bool.and_true]

theorem head_mem {α : Type} {l : List α} {b : α} (h : l.head? = some b) : b ∈ l := by
  cases l with
  | nil => simp at h
  | cons a l => simp at h; simp [h]

theorem constrBody_cbyte (c : OpbConstr) (l : ConstrLay) (h : l.ok c = true) :
    (constrBody c l).all cbyte = true := by
  have h1 := constr_pre_plain c l h
  have h2 := constr_post_plain c l h
  have p2c : ∀ {xs : List Nat}, xs.all plain = true → xs.all cbyte = true := by
    intro xs hx
    rw [List.all_eq_true] at hx ⊢
    intro b hb; simp [cbyte, hx b hb]
  unfold constrBody
  rw [List.all_append, p2c h1, List.all_append, p2c h2]
  cases c.rel <;> decide

theorem cbyte_ne {b : Nat} (h : cbyte b = true) : b ≠ 10 ∧ b ≠ 13 ∧ b ≠ 42 ∧ b ≠ 109 := by
  simp only [cbyte, plain, blank, isDigit, Bool.or_eq_true, beq_iff_eq, Bool.and_eq_true, decide_eq_true_eq] at h
  omega

theorem spaceOut_constr (c : OpbConstr) (l : ConstrLay) (h : l.ok c = true) :
    spaceOut (constrBody c l) =
      (l.lead ++ termsBytes c.terms l.terms) ++ 32 :: (opBytes c.rel ++ 32 :: (l.ws1 ++ (intBytes l.rhs c.rhs ++ l.ws2))) := by
  have hhead : (constrBody c l).head? ≠ some 109 := by
    intro hh
    have := List.all_eq_true.mp (constrBody_cbyte c l h) 109 (head_mem hh)
    exact (cbyte_ne this).2.2.2 rfl
  rw [spaceOut_not_min _ hhead]
  have h1 := constr_pre_plain c l h
  have h2 := constr_post_plain c l h
  unfold constrBody
  cases c.rel with
  | ge =>
    simp only [opBytes, List.cons_append, List.nil_append]
    rw [replaceGe_found _ _ (all_ne_of_plain h1 62 (by omega))]
  | eq =>
    simp only [opBytes, List.cons_append, List.nil_append]
    have hn : ((l.lead ++ termsBytes c.terms l.terms) ++ 61 :: (l.ws1 ++ (intBytes l.rhs c.rhs ++ l.ws2))).all (· != 62) = true := by
      rw [List.all_append, all_ne_of_plain h1 62 (by omega), List.all_cons, all_ne_of_plain h2 62 (by omega)]; rfl
    rw [replaceGe_none _ hn]
    exact replaceEq_found _ _ (all_ne_of_plain h1 61 (by omega))

theorem opBytes_words (r : Rel) : (opBytes r).all isWord = true ∧ opBytes r ≠ [] := by
  cases r <;> exact ⟨by decide, by simp [opBytes]⟩

theorem fields_constr (c : OpbConstr) (l : ConstrLay) (h : l.ok c = true) :
    fieldsOf (spaceOut (constrBody c l)) =
      termsFields c.terms l.terms ++ [opBytes c.rel, intBytes l.rhs c.rhs] := by
  rw [spaceOut_constr c l h]
  simp only [ConstrLay.ok, Bool.and_eq_true] at h
  obtain ⟨⟨⟨hl, ht⟩, hw1⟩, hw2⟩ := h
  unfold fieldsOf fields
  rw [List.append_assoc, fieldsAux_blanks _ _ hl,
    fields_terms _ _ _ ht (Or.inr ⟨32, _, rfl, by decide⟩),
    fieldsAux_blank_cons 32 _ (by decide),
    fieldsAux_field _ _ (opBytes_words c.rel).1 (opBytes_words c.rel).2 (Or.inr ⟨32, _, rfl, by decide⟩),
    fieldsAux_blank_cons 32 _ (by decide), fieldsAux_blanks _ _ hw1,
    fieldsAux_last _ _ (intBytes_words _ _).1 (intBytes_words _ _).2 (blanks_spaces hw2)]

theorem opbLineToks_body (body : List Nat) (fs : List (List Nat))
    (h1 : (body ++ [59]).head? ≠ some 42) (hf : fieldsOf (spaceOut body) = fs)
    (h2 : ∀ f, fs.head? = some f → f.head? ≠ some 42) :
    opbLineToks (body ++ [59]) = fs.map opbTok ++ [Tok.word ";"] := by
  have e1 : (body ++ [59]).isEmpty = false := by simp
  have e2 : startsWith 42 (body ++ [59]) = false := by
    simp only [startsWith, beq_eq_false_iff_ne]; exact h1
  have e3 : ((fs.head?.map (startsWith 42)).getD false) = false := by
    cases hfs : fs.head? with
    | none => rfl
    | some f =>
      simp only [Option.map_some, Option.getD_some, startsWith, beq_eq_false_iff_ne]
      exact h2 f hfs
  unfold opbLineToks
  simp only [e1, e2, Bool.or_self, Bool.false_eq_true, if_false, List.getLast?_append, List.getLast?_singleton,
    Option.some_or, bne_self_eq_false, List.dropLast_concat, hf, e3]

theorem opbTok_op (r : Rel) : opbTok (opBytes r) = relTok r := by
  cases r <;> decide

theorem termsFields_plain : ∀ (ts : List (Int × Int)) (ls : List TermLay) (f : List Nat),
    f ∈ termsFields ts ls → f.all plain = true := by
  intro ts
  induction ts with
  | nil => intro _ f hf; simp [termsFields] at hf
  | cons t ts ih =>
    intro ls f hf
    simp only [termsFields, coefFields, List.mem_append, List.mem_cons] at hf
    rcases hf with hf | rfl | hf
    · split at hf
      · simp at hf
      · simp only [List.mem_singleton] at hf; subst hf; exact intBytes_plain _ _
    · exact varBytes_plain _
    · exact ih ls.tail f hf

theorem head_ne_star_of_plain {f : List Nat} (h : f.all plain = true) : f.head? ≠ some 42 := by
  intro hh
  exact (plain_ne (List.all_eq_true.mp h 42 (head_mem hh))).2.2.2.2.1 rfl

/-- **A constraint line.** Whatever the layout, the tokeniser turns the bytes of the line into
    the token line of `GS.Formats`. -/
theorem opbLineToks_constr (c : OpbConstr) (l : ConstrLay) (h : l.ok c = true)
    (hr : termsInRange c.terms) (hrhs : c.rhs.natAbs < 9223372036854775808) :
    opbLineToks (constrLineBytes c l) = c.renderLine (l.terms.map (·.om)) := by
  unfold constrLineBytes
  have hhead : (constrBody c l ++ [59]).head? ≠ some 42 := by
    intro hh
    have hm := head_mem hh
    rw [List.mem_append] at hm
    rcases hm with hm | hm
    · exact (cbyte_ne (List.all_eq_true.mp (constrBody_cbyte c l h) 42 hm)).2.2.1 rfl
    · simp at hm
  rw [opbLineToks_body _ _ hhead (fields_constr c l h)]
  · simp only [List.map_append, List.map_cons, List.map_nil, toks_terms _ _ hr, opbTok_op, opbTok_intBytes _ _ hrhs,
      OpbConstr.renderLine, List.append_assoc, List.cons_append, List.nil_append]
  · intro f hf
    have hm := head_mem hf
    simp only [List.mem_append, List.mem_cons, List.not_mem_nil, or_false] at hm
    rcases hm with hm | rfl | rfl
    · exact head_ne_star_of_plain (termsFields_plain _ _ f hm)
    · cases c.rel <;> decide
    · exact head_ne_star_of_plain (intBytes_plain _ _)

/-- The free choices for the objective line: blanks after `min:` (may be missing), the terms
    (the blanks after the last variable may be missing: `x1;`). -/
structure ObjLay where
  ws0 : List Nat := [32]
  terms : List TermLay := []
  cr : Bool := false
deriving Repr, Inhabited

def ObjLay.ok (ts : List (Int × Int)) (l : ObjLay) : Bool := l.ws0.all blank && termsOk ts l.terms

def objBody (ts : List (Int × Int)) (l : ObjLay) : List Nat :=
  109 :: 105 :: 110 :: 58 :: (l.ws0 ++ termsBytes ts l.terms)

def objLineBytes (ts : List (Int × Int)) (l : ObjLay) : List Nat := objBody ts l ++ [59]

theorem objBody_bytes (ts : List (Int × Int)) (l : ObjLay) (h : l.ok ts = true) :
    (objBody ts l).all (fun b => b != 10 && b != 13) = true := by
  simp only [ObjLay.ok, Bool.and_eq_true] at h
  have hp : (l.ws0 ++ termsBytes ts l.terms).all plain = true := by
    rw [List.all_append, blanks_plain h.1, termsBytes_plain _ _ h.2]; rfl
  unfold objBody
  simp only [List.all_cons]
  refine Bool.and_eq_true_iff.mpr ⟨by decide, Bool.and_eq_true_iff.mpr ⟨by decide, Bool.and_eq_true_iff.mpr ⟨by decide,
    Bool.and_eq_true_iff.mpr ⟨by decide, ?_⟩⟩⟩⟩
  rw [List.all_eq_true] at hp ⊢
  intro b hb
  have := plain_ne (hp b hb)
  simp only [Bool.and_eq_true, bne_iff_ne, ne_eq]
  omega

/-- **The objective line.** -/
theorem opbLineToks_obj (ts : List (Int × Int)) (l : ObjLay) (h : l.ok ts = true) (hr : termsInRange ts) :
    opbLineToks (objLineBytes ts l) = renderObjective ts (l.terms.map (·.om)) := by
  unfold objLineBytes
  have hf : fieldsOf (spaceOut (objBody ts l)) = [109, 105, 110, 58] :: termsFields ts l.terms := by
    simp only [ObjLay.ok, Bool.and_eq_true] at h
    have e : spaceOut (objBody ts l) = [109, 105, 110, 58] ++ 32 :: (l.ws0 ++ termsBytes ts l.terms) := rfl
    rw [e]
    unfold fieldsOf fields
    rw [fieldsAux_field _ _ (by decide) (by simp) (Or.inr ⟨32, _, rfl, by decide⟩),
      fieldsAux_blank_cons 32 _ (by decide), fieldsAux_blanks _ _ h.1]
    have := fields_terms ts l.terms [] h.2 (Or.inl rfl)
    simp only [List.append_nil] at this
    rw [this]
    simp [fieldsAux, flush]
  rw [opbLineToks_body _ _ (by simp [objBody]) hf]
  · simp only [List.map_cons, toks_terms _ _ hr, renderObjective]
    rfl
  · intro f hf'
    simp only [List.head?_cons, Option.some.injEq] at hf'
    subst hf'; decide

theorem opbLineToks_empty : opbLineToks [] = [] := rfl

theorem opbLineToks_comment (junk : List Nat) : opbLineToks (42 :: junk) = [] := by
  simp [opbLineToks, startsWith]

/-! ## OPB files -/

/-- A line `ParseOPB` skips: an empty line, or `*` followed by any bytes. -/
inductive Skip where
  | blank (cr : Bool)
  | comment (junk : List Nat) (cr : Bool)
deriving Repr, Inhabited

def Skip.line : Skip → TLine
  | .blank cr => ⟨[], cr⟩
  | .comment junk cr => ⟨42 :: junk, cr⟩

def Skip.ok : Skip → Bool
  | .blank _ => true
  | .comment junk _ => junk.all (· != 10) && junk.getLast? != some 13

/-- The free choices for an OPB file at byte level. -/
structure OpbByteLayout where
  objSkips : List Skip := []
  obj : ObjLay := {}
  constrs : List (List Skip × ConstrLay) := []
  trailing : List Skip := []
  finalNewline : Bool := true
deriving Repr, Inhabited

def objTLines (obj : Option (List (Int × Int))) (lay : OpbByteLayout) : List TLine :=
  lay.objSkips.map Skip.line ++
    (match obj with
     | none => []
     | some ts => [⟨objLineBytes ts lay.obj, lay.obj.cr⟩])

def constrTLines : List OpbConstr → List (List Skip × ConstrLay) → List TLine
  | [], _ => []
  | c :: cs, ls =>
    (ls.headD ([], {})).1.map Skip.line ++
      ⟨constrLineBytes c (ls.headD ([], {})).2, (ls.headD ([], {})).2.cr⟩ :: constrTLines cs ls.tail

def opbTLines (o : Opb) (lay : OpbByteLayout) : List TLine :=
  objTLines o.objective lay ++ (constrTLines o.constrs lay.constrs ++ lay.trailing.map Skip.line)

/-- The bytes of an OPB file. -/
def renderOpbBytes (o : Opb) (lay : OpbByteLayout) : List Nat := textBytes (opbTLines o lay) lay.finalNewline

def constrsOk : List OpbConstr → List (List Skip × ConstrLay) → Bool
  | [], _ => true
  | c :: cs, ls => (ls.headD ([], {})).1.all Skip.ok && (ls.headD ([], {})).2.ok c && constrsOk cs ls.tail

def OpbByteLayout.ok (o : Opb) (lay : OpbByteLayout) : Bool :=
  lay.objSkips.all Skip.ok &&
    (match o.objective with
     | none => true
     | some ts => lay.obj.ok ts) && constrsOk o.constrs lay.constrs && lay.trailing.all Skip.ok

/-- The token-level layout a byte-level layout amounts to: skipped lines reach the token level
    as empty lines. -/
def OpbByteLayout.toTok (lay : OpbByteLayout) : OpbLayout :=
  { objective := ⟨lay.objSkips.map (fun _ => none), lay.obj.terms.map (·.om)⟩,
    constrs := lay.constrs.map (fun p => ⟨p.1.map (fun _ => none), p.2.terms.map (·.om)⟩),
    trailing := lay.trailing.map (fun _ => none) }

/-- All numbers of the file fit a 64-bit `int`. -/
def OpbInRange (o : Opb) : Prop :=
  (∀ ts, o.objective = some ts → termsInRange ts) ∧
    ∀ c ∈ o.constrs, termsInRange c.terms ∧ c.rhs.natAbs < 9223372036854775808

def lineToks (l : TLine) : Line := opbLineToks l.body

theorem skips_toks (ss : List Skip) :
    (ss.map Skip.line).map lineToks = (ss.map (fun _ => (none : Option (List Tok)))).map skipLine := by
  induction ss with
  | nil => rfl
  | cons s ss ih =>
    simp only [List.map_cons, ih]
    congr 1
    cases s with
    | blank cr => rfl
    | comment junk cr => exact opbLineToks_comment junk

theorem constr_toks : ∀ (cs : List OpbConstr) (ls : List (List Skip × ConstrLay)), constrsOk cs ls = true →
    (∀ c ∈ cs, termsInRange c.terms ∧ c.rhs.natAbs < 9223372036854775808) →
    (constrTLines cs ls).map lineToks =
      renderConstrs cs (ls.map (fun p => ⟨p.1.map (fun _ => none), p.2.terms.map (·.om)⟩)) := by
  intro cs
  induction cs with
  | nil => intro _ _ _; rfl
  | cons c cs ih =>
    intro ls hok hr
    simp only [constrsOk, Bool.and_eq_true] at hok
    have hc := hr c (by simp)
    have e1 : (ls.map (fun p : List Skip × ConstrLay => (⟨p.1.map (fun _ => none), p.2.terms.map (·.om)⟩ : OpbLineLayout))).headD {} =
        ⟨(ls.headD ([], {})).1.map (fun _ => none), (ls.headD ([], {})).2.terms.map (·.om)⟩ := by
      cases ls <;> rfl
    have e2 : (ls.map (fun p : List Skip × ConstrLay => (⟨p.1.map (fun _ => none), p.2.terms.map (·.om)⟩ : OpbLineLayout))).tail =
        ls.tail.map (fun p => ⟨p.1.map (fun _ => none), p.2.terms.map (·.om)⟩) := by
      cases ls <;> rfl
    simp only [constrTLines, renderConstrs, List.map_append, List.map_cons, skips_toks, e1, e2,
      ih ls.tail hok.2 (fun c' h' => hr c' (by simp [h']))]
    congr 2
    exact opbLineToks_constr c _ hok.1.2 hc.1 hc.2

/-- **Tokenisation of a rendered OPB file** (lines as the scanner delivers them). -/
theorem opbTLines_toks (o : Opb) (lay : OpbByteLayout) (hok : lay.ok o = true) (hr : OpbInRange o) :
    (opbTLines o lay).map lineToks = o.renderLines lay.toTok := by
  simp only [OpbByteLayout.ok, Bool.and_eq_true] at hok
  obtain ⟨⟨⟨_, hobj⟩, hcs⟩, _⟩ := hok
  unfold opbTLines Opb.renderLines objTLines renderObjectiveLines OpbByteLayout.toTok
  simp only [List.map_append, skips_toks, constr_toks _ _ hcs hr.2]
  congr 2
  cases ho : o.objective with
  | none => rfl
  | some ts =>
    rw [ho] at hobj
    simp only [List.map_cons, List.map_nil, lineToks]
    rw [opbLineToks_obj ts lay.obj hobj (hr.1 ts ho)]

theorem skip_line_ok (s : Skip) (h : s.ok = true) :
    (s.line.body.all (· != 10) && s.line.body.getLast? != some 13) = true := by
  cases s with
  | blank cr => rfl
  | comment junk cr =>
    simp only [Skip.ok, Bool.and_eq_true] at h
    simp only [Skip.line, List.all_cons, h.1, Bool.and_true, Bool.and_eq_true]
    refine ⟨by decide, ?_⟩
    cases junk with
    | nil => decide
    | cons a junk => simpa [List.getLast?_cons_cons] using h.2

theorem semi_line_ok (body : List Nat) (h : body.all (fun b => b != 10 && b != 13) = true) :
    ((body ++ [59]).all (· != 10) && (body ++ [59]).getLast? != some 13) = true := by
  rw [List.all_eq_true] at h
  simp only [List.all_append, List.getLast?_append, List.getLast?_singleton, Option.some_or, Bool.and_eq_true,
    List.all_eq_true]
  refine ⟨⟨?_, by decide⟩, by decide⟩
  intro b hb
  have := h b hb
  simp only [Bool.and_eq_true] at this
  exact this.1

theorem constrBody_bytes (c : OpbConstr) (l : ConstrLay) (h : l.ok c = true) :
    (constrBody c l).all (fun b => b != 10 && b != 13) = true := by
  have := constrBody_cbyte c l h
  rw [List.all_eq_true] at this ⊢
  intro b hb
  have := cbyte_ne (this b hb)
  simp only [Bool.and_eq_true, bne_iff_ne, ne_eq]
  omega

theorem constrTLines_ok : ∀ (cs : List OpbConstr) (ls : List (List Skip × ConstrLay)), constrsOk cs ls = true →
    ∀ l ∈ constrTLines cs ls, (l.body.all (· != 10) && l.body.getLast? != some 13) = true := by
  intro cs
  induction cs with
  | nil => intro _ _ l hl; simp [constrTLines] at hl
  | cons c cs ih =>
    intro ls hok l hl
    simp only [constrsOk, Bool.and_eq_true] at hok
    simp only [constrTLines, List.mem_append, List.mem_map, List.mem_cons] at hl
    rcases hl with ⟨s, hs, rfl⟩ | rfl | hl
    · exact skip_line_ok s (List.all_eq_true.mp hok.1.1 s hs)
    · exact semi_line_ok _ (constrBody_bytes c _ hok.1.2)
    · exact ih ls.tail hok.2 l hl

theorem opbTLines_ok (o : Opb) (lay : OpbByteLayout) (hok : lay.ok o = true) :
    ∀ l ∈ opbTLines o lay, (l.body.all (· != 10) && l.body.getLast? != some 13) = true := by
  simp only [OpbByteLayout.ok, Bool.and_eq_true] at hok
  obtain ⟨⟨⟨hs, hobj⟩, hcs⟩, htr⟩ := hok
  intro l hl
  simp only [opbTLines, objTLines, List.mem_append, List.mem_map] at hl
  rcases hl with (⟨s, hs', rfl⟩ | hl) | hl | ⟨s, hs', rfl⟩
  · exact skip_line_ok s (List.all_eq_true.mp hs s hs')
  · cases ho : o.objective with
    | none => rw [ho] at hl; simp at hl
    | some ts =>
      rw [ho] at hl hobj
      simp only [List.mem_singleton] at hl
      subst hl
      exact semi_line_ok _ (objBody_bytes ts _ hobj)
  · exact constrTLines_ok _ _ hcs l hl
  · exact skip_line_ok s (List.all_eq_true.mp htr s hs')

/-- What the byte level asks on top of the layout being well formed: every line fits the
    scanner's buffer, and a file without final newline does not end with an empty line. -/
def OpbFits (o : Opb) (lay : OpbByteLayout) : Prop :=
  (∀ l ∈ opbTLines o lay, l.raw.length < maxLine) ∧
    (lay.finalNewline || ((opbTLines o lay).getLast?.map (fun l => !l.raw.isEmpty)).getD true) = true

theorem opbText_ok (o : Opb) (lay : OpbByteLayout) (hok : lay.ok o = true) (hfit : OpbFits o lay) :
    textOk (opbTLines o lay) lay.finalNewline = true := by
  unfold textOk
  rw [Bool.and_eq_true]
  refine ⟨?_, hfit.2⟩
  rw [List.all_eq_true]
  intro l hl
  have h1 := opbTLines_ok o lay hok l hl
  have h2 := hfit.1 l hl
  simp only [TLine.ok, h1, h2, decide_true, Bool.and_self]

/-- **The tokens of a rendered OPB file** are the token-level rendering. -/
theorem opbTokens_render (o : Opb) (lay : OpbByteLayout) (hok : lay.ok o = true) (hr : OpbInRange o)
    (hfit : OpbFits o lay) : opbTokens (renderOpbBytes o lay) = o.renderLines lay.toTok := by
  unfold opbTokens renderOpbBytes
  rw [scanLines_text _ _ (opbText_ok o lay hok hfit)]
  simp only [Bool.false_eq_true, if_false, List.append_nil, List.map_map]
  exact opbTLines_toks o lay hok hr

/-- The byte-level reader on a rendered file is the token-level reader on the token rendering. -/
theorem parseOpbBytes_render_tokens (o : Opb) (lay : OpbByteLayout) (hok : lay.ok o = true) (hr : OpbInRange o)
    (hfit : OpbFits o lay) :
    parseOpbBytes (renderOpbBytes o lay) = parseOpbLines (o.renderLines lay.toTok) := by
  unfold parseOpbBytes
  rw [opbTokens_render o lay hok hr hfit]

/-- **C13, OPB, at byte level.** `solver.ParseOPB` never fails (error or panic) on the bytes of a
    well-formed OPB file whose numbers fit 64 bits and whose lines fit the scanner's buffer,
    whatever the byte layout (blanks and tabs, `\r\n`, final newline or not, comment and empty
    lines, optional `+` and leading zeros, unit coefficients left out, `>=`, `=`, `min:` and `;`
    glued to their neighbours); conclusions as in `GS.Formats.parseOpb_render`. -/
theorem parseOpbBytes_render (o : Opb) (lay : OpbByteLayout) (hwf : o.wf = true) (hok : lay.ok o = true)
    (hr : OpbInRange o) (hfit : OpbFits o lay) :
    ∃ r, parseOpbBytes (renderOpbBytes o lay) = .ok r ∧
      r.obj = o.objective ∧ r.constrs = o.constrs.flatMap pbcsOf ∧
      (∀ c ∈ r.constrs, c.normal = true) ∧
      (∀ a, r.constrs.all (·.sem a) = o.sem a) ∧
      (∀ a, r.frontSem a = o.sem a) ∧
      (∀ a, cost (r.obj.getD []) a = o.cost a) := by
  rw [parseOpbBytes_render_tokens o lay hok hr hfit]
  exact parseOpb_render o lay.toTok hwf

/-! ## Token lines as bytes (WCNF, explain) -/

/-- How a field is written (integers only) and the blanks after it. -/
structure FieldLay where
  num : IntLay := {}
  sep : List Nat := [32]
deriving Repr, Inhabited

def tokBytes (t : Tok) (l : IntLay) : List Nat :=
  match t with
  | .int i => intBytes l i
  | .word s => s.toList.map Char.toNat

/-- An integer within the 64-bit range; a word made of ASCII bytes other than white space,
    not empty, that `strconv.Atoi` rejects. -/
def tokOk : Tok → Bool
  | .int i => decide (i.natAbs < 9223372036854775808)
  | .word s =>
    !s.toList.isEmpty && (s.toList.map Char.toNat).all isWord && (CnfBytes.atoi (s.toList.map Char.toNat)).isNone

def toksBytes : Line → List FieldLay → List Nat
  | [], _ => []
  | t :: ts, ls => (tokBytes t (ls.headD {}).num ++ (ls.headD {}).sep) ++ toksBytes ts ls.tail

def toksLayOk : Line → List FieldLay → Bool
  | [], _ => true
  | _ :: ts, ls => (ls.headD {}).sep.all blank && (ts.isEmpty || !(ls.headD {}).sep.isEmpty) && toksLayOk ts ls.tail

theorem tokBytes_words (t : Tok) (l : IntLay) (h : tokOk t = true) :
    (tokBytes t l).all isWord = true ∧ tokBytes t l ≠ [] := by
  cases t with
  | int i => exact intBytes_words l i
  | word s =>
    simp only [tokOk, Bool.and_eq_true, Bool.not_eq_true', List.isEmpty_eq_false_iff] at h
    refine ⟨h.1.2, ?_⟩
    simp only [tokBytes, ne_eq, List.map_eq_nil_iff]
    exact h.1.1

theorem tokOf_tokBytes (t : Tok) (l : IntLay) (h : tokOk t = true) : tokOf (tokBytes t l) = t := by
  cases t with
  | int i =>
    simp only [tokOk, decide_eq_true_eq] at h
    simp only [tokOf, tokBytes, atoi_intBytes l i h]
  | word s =>
    simp only [tokOk, Bool.and_eq_true, Option.isNone_iff_eq_none] at h
    simp only [tokOf, tokBytes, h.2, wordOf, List.map_map]
    congr 1
    have : (Char.ofNat ∘ Char.toNat) = id := by funext c; simp [Function.comp, Char.ofNat_toNat]
    rw [this, List.map_id, String.ofList_toList]

theorem fields_toks : ∀ (ts : Line) (ls : List FieldLay) (rest : List Nat),
    ts.all tokOk = true → toksLayOk ts ls = true → EndsField rest →
    (fieldsAux 0 [] (toksBytes ts ls ++ rest)).map tokOf = ts ++ (fieldsAux 0 [] rest).map tokOf := by
  intro ts
  induction ts with
  | nil => intro ls rest _ _ _; rfl
  | cons t ts ih =>
    intro ls rest hts hok hr
    simp only [List.all_cons, Bool.and_eq_true] at hts
    simp only [toksLayOk, Bool.and_eq_true, Bool.or_eq_true, Bool.not_eq_true', List.isEmpty_iff,
      List.isEmpty_eq_false_iff] at hok
    obtain ⟨⟨h2, h3⟩, h4⟩ := hok
    have hnext : EndsField ((ls.headD {}).sep ++ (toksBytes ts ls.tail ++ rest)) := by
      rcases h3 with rfl | hne
      · simpa [toksBytes] using endsField_blanks rest h2 hr
      · exact endsField_cons_blank _ _ hne h2
    have hw := tokBytes_words t (ls.headD {}).num hts.1
    simp only [toksBytes, List.append_assoc]
    rw [fieldsAux_field _ _ hw.1 hw.2 hnext, fieldsAux_blanks _ _ h2, List.map_cons, ih ls.tail rest hts.2 h4 hr,
      tokOf_tokBytes _ _ hts.1]
    rfl

/-- The fields of a rendered token line, read back as tokens, are the token line. -/
theorem lineToks_render (lead : List Nat) (ts : Line) (ls : List FieldLay) (hl : lead.all blank = true)
    (hts : ts.all tokOk = true) (hok : toksLayOk ts ls = true) :
    (fieldsOf (lead ++ toksBytes ts ls)).map tokOf = ts := by
  unfold fieldsOf fields
  rw [fieldsAux_blanks _ _ hl]
  have := fields_toks ts ls [] hts hok (Or.inl rfl)
  simp only [List.append_nil] at this
  rw [this]
  simp [fieldsAux, flush]

/-- Bytes of a rendered token line: blanks and ASCII bytes other than white space. -/
def lbyte (b : Nat) : Bool := blank b || isWord b

theorem lbyte_ne {b : Nat} (h : lbyte b = true) : b ≠ 10 ∧ b ≠ 13 := by
  simp only [lbyte, blank, isWord, asciiSpace, Bool.or_eq_true, beq_iff_eq, Bool.and_eq_true, decide_eq_true_eq,
    Bool.not_eq_true', Bool.or_eq_false_iff, Bool.and_eq_false_iff, decide_eq_false_iff_not, beq_eq_false_iff_ne] at h
  omega

theorem toksBytes_lbyte : ∀ (ts : Line) (ls : List FieldLay), ts.all tokOk = true → toksLayOk ts ls = true →
    (toksBytes ts ls).all lbyte = true := by
  intro ts
  induction ts with
  | nil => intro _ _ _; rfl
  | cons t ts ih =>
    intro ls hts hok
    simp only [List.all_cons, Bool.and_eq_true] at hts
    simp only [toksLayOk, Bool.and_eq_true] at hok
    have hw := (tokBytes_words t (ls.headD {}).num hts.1).1
    have a1 : (tokBytes t (ls.headD {}).num).all lbyte = true := by
      rw [List.all_eq_true] at hw ⊢
      intro b hb; simp [lbyte, hw b hb]
    have a2 : (ls.headD {}).sep.all lbyte = true := by
      have := hok.1.1
      rw [List.all_eq_true] at this ⊢
      intro b hb; simp [lbyte, this b hb]
    simp only [toksBytes, List.all_append, a1, a2, ih ls.tail hts.2 hok.2, Bool.and_self]

theorem line_ok_of_lbyte (lead : List Nat) (ts : Line) (ls : List FieldLay) (hl : lead.all blank = true)
    (hts : ts.all tokOk = true) (hok : toksLayOk ts ls = true) :
    ((lead ++ toksBytes ts ls).all (· != 10) && (lead ++ toksBytes ts ls).getLast? != some 13) = true := by
  have hall : (lead ++ toksBytes ts ls).all lbyte = true := by
    rw [List.all_append, toksBytes_lbyte ts ls hts hok, Bool.and_true]
    rw [List.all_eq_true] at hl ⊢
    intro b hb; simp [lbyte, hl b hb]
  rw [List.all_eq_true] at hall
  rw [Bool.and_eq_true]
  constructor
  · rw [List.all_eq_true]
    intro b hb
    simpa using (lbyte_ne (hall b hb)).1
  · simp only [bne_iff_ne, ne_eq]
    intro h
    have := List.mem_of_getLast? h
    exact (lbyte_ne (hall 13 this)).2 rfl

/-! ## Lines of tokens as a text; `explain.ParseCNF` -/

/-- The free choices for one line: blanks in front, how each field is written and the blanks after
    it (after the last field they may be missing), `\r\n` or `\n`. -/
structure LineDecor where
  lead : List Nat := []
  fields : List FieldLay := []
  cr : Bool := false
deriving Repr, Inhabited

def lineTL (ts : Line) (d : LineDecor) : TLine := ⟨d.lead ++ toksBytes ts d.fields, d.cr⟩

def linesTL : List Line → List LineDecor → List TLine
  | [], _ => []
  | l :: ls, ds => lineTL l (ds.headD {}) :: linesTL ls ds.tail

def decorOk : List Line → List LineDecor → Bool
  | [], _ => true
  | l :: ls, ds => (ds.headD {}).lead.all blank && toksLayOk l (ds.headD {}).fields && decorOk ls ds.tail

/-- The bytes of a text given as lines of tokens. -/
def renderLinesBytes (L : List Line) (ds : List LineDecor) (fin : Bool) : List Nat := textBytes (linesTL L ds) fin

/-- Every line fits the scanner's buffer; a text without final newline does not end with an
    empty line. -/
def LinesFit (L : List Line) (ds : List LineDecor) (fin : Bool) : Prop :=
  (∀ l ∈ linesTL L ds, l.raw.length < maxLine) ∧
    (fin || ((linesTL L ds).getLast?.map (fun l => !l.raw.isEmpty)).getD true) = true

theorem linesTL_ok : ∀ (L : List Line) (ds : List LineDecor), L.all (·.all tokOk) = true → decorOk L ds = true →
    ∀ l ∈ linesTL L ds, (l.body.all (· != 10) && l.body.getLast? != some 13) = true := by
  intro L
  induction L with
  | nil => intro _ _ _ l hl; simp [linesTL] at hl
  | cons x L ih =>
    intro ds hts hok l hl
    simp only [List.all_cons, Bool.and_eq_true] at hts
    simp only [decorOk, Bool.and_eq_true] at hok
    simp only [linesTL, List.mem_cons] at hl
    rcases hl with rfl | hl
    · exact line_ok_of_lbyte _ _ _ hok.1.1 hts.1 hok.1.2
    · exact ih ds.tail hts.2 hok.2 l hl

theorem linesTL_toks : ∀ (L : List Line) (ds : List LineDecor), L.all (·.all tokOk) = true → decorOk L ds = true →
    (linesTL L ds).map (fun l => explainLineToks l.body) = L := by
  intro L
  induction L with
  | nil => intro _ _ _; rfl
  | cons x L ih =>
    intro ds hts hok
    simp only [List.all_cons, Bool.and_eq_true] at hts
    simp only [decorOk, Bool.and_eq_true] at hok
    have e := ih ds.tail hts.2 hok.2
    simp only [linesTL, List.map_cons, e]
    congr 1
    exact lineToks_render _ _ _ hok.1.1 hts.1 hok.1.2

theorem linesText_ok (L : List Line) (ds : List LineDecor) (fin : Bool) (hts : L.all (·.all tokOk) = true)
    (hok : decorOk L ds = true) (hfit : LinesFit L ds fin) : textOk (linesTL L ds) fin = true := by
  unfold textOk
  rw [Bool.and_eq_true]
  refine ⟨?_, hfit.2⟩
  rw [List.all_eq_true]
  intro l hl
  have h1 := linesTL_ok L ds hts hok l hl
  have h2 := hfit.1 l hl
  simp only [TLine.ok, h1, h2, decide_true, Bool.and_self]

/-- **Tokenisation of a text given as lines of tokens** by the reader of package `explain`:
    whatever the byte layout, the token lines are read back. -/
theorem explainTokens_render (L : List Line) (ds : List LineDecor) (fin : Bool) (hts : L.all (·.all tokOk) = true)
    (hok : decorOk L ds = true) (hfit : LinesFit L ds fin) :
    explainTokens (renderLinesBytes L ds fin) = L := by
  unfold explainTokens renderLinesBytes
  rw [scanLines_text _ _ (linesText_ok L ds fin hts hok hfit)]
  simp only [Bool.false_eq_true, if_false, List.append_nil, List.map_map]
  exact linesTL_toks L ds hts hok

theorem explainParseBytes_render_tokens (L : List Line) (ds : List LineDecor) (fin : Bool)
    (hts : L.all (·.all tokOk) = true) (hok : decorOk L ds = true) (hfit : LinesFit L ds fin) :
    explainParseBytes (renderLinesBytes L ds fin) = explainParseTokens L := by
  unfold explainParseBytes
  rw [explainTokens_render L ds fin hts hok hfit]

/-- **C13, `explain.ParseCNF`, at byte level.** On the bytes of a rendered DIMACS file (token-level
    layout `lay`: comments, clauses over several lines, several clauses per line; byte-level layout
    `ds`, `fin`: blanks and tabs, `\r\n`, optional `+` and leading zeros, final newline or not)
    whose numbers fit 64 bits, whose comment words are ASCII and whose lines fit the scanner's
    buffer, the parser returns exactly the clauses of the file (as `explainParse_render`). -/
theorem explainParseBytes_render (d : Dimacs) (lay : CnfLayout) (ds : List LineDecor) (fin : Bool)
    (hcl : ∀ c ∈ d.clauses, exClauseOk d.nbVars c)
    (hts : (d.renderLines lay).all (·.all tokOk) = true) (hok : decorOk (d.renderLines lay) ds = true)
    (hfit : LinesFit (d.renderLines lay) ds fin) :
    explainParseBytes (renderLinesBytes (d.renderLines lay) ds fin) =
      .ok (d.nbVars, GS.Explain.mkPb d.nbVars d.clauses) := by
  rw [explainParseBytes_render_tokens _ ds fin hts hok hfit]
  exact explainParse_render d lay hcl

/-! ## WCNF -/

/-- A line `ParseWCNF` skips: an empty line (no blank in it: a line of blanks makes it panic), or
    `c` followed by any bytes. -/
def skipLineC : Skip → TLine
  | .blank cr => ⟨[], cr⟩
  | .comment junk cr => ⟨99 :: junk, cr⟩

/-- The free choices for a WCNF file at byte level. The header line starts with `p` (its `lead` is
    not used: `ParseWCNF` looks at the first byte of the line); clause lines may start with blanks. -/
structure WcnfByteLayout where
  before : List Skip := []
  header : LineDecor := {}
  clauses : List (List Skip × LineDecor) := []
  finalNewline : Bool := true
deriving Repr, Inhabited

def wcnfClauseTLines : List (Int × List Int) → List (List Skip × LineDecor) → List TLine
  | [], _ => []
  | wc :: rest, ls =>
    (ls.headD ([], {})).1.map skipLineC ++
      lineTL (wcnfClauseLine wc) (ls.headD ([], {})).2 :: wcnfClauseTLines rest ls.tail

def wcnfTLines (w : Wcnf) (lay : WcnfByteLayout) : List TLine :=
  lay.before.map skipLineC ++
    ⟨toksBytes (wcnfHeaderLine w) lay.header.fields, lay.header.cr⟩ :: wcnfClauseTLines w.clauses lay.clauses

/-- The bytes of a WCNF file. -/
def renderWcnfBytes (w : Wcnf) (lay : WcnfByteLayout) : List Nat := textBytes (wcnfTLines w lay) lay.finalNewline

def wcnfClausesOk : List (Int × List Int) → List (List Skip × LineDecor) → Bool
  | [], _ => true
  | wc :: rest, ls =>
    (ls.headD ([], {})).1.all Skip.ok && (ls.headD ([], {})).2.lead.all blank &&
      toksLayOk (wcnfClauseLine wc) (ls.headD ([], {})).2.fields && wcnfClausesOk rest ls.tail

def WcnfByteLayout.ok (w : Wcnf) (lay : WcnfByteLayout) : Bool :=
  lay.before.all Skip.ok && toksLayOk (wcnfHeaderLine w) lay.header.fields && wcnfClausesOk w.clauses lay.clauses

/-- All numbers of the file fit a 64-bit `int`. -/
def wcnfInRange (w : Wcnf) : Bool :=
  (wcnfHeaderLine w).all tokOk && w.clauses.all (fun wc => (wcnfClauseLine wc).all tokOk)

theorem wcnfLineToks_skip (s : Skip) : wcnfLineToks (skipLineC s).body = [] := by
  cases s with
  | blank cr => rfl
  | comment junk cr => simp [skipLineC, wcnfLineToks, startsWith]

theorem wcnfHeader_bytes (w : Wcnf) (fl : List FieldLay) :
    ∃ r, toksBytes (wcnfHeaderLine w) fl = 112 :: r := by
  refine ⟨(fl.headD {}).sep ++ toksBytes (wcnfHeaderLine w).tail fl.tail, ?_⟩
  simp only [wcnfHeaderLine, toksBytes, List.cons_append, List.tail_cons]
  rfl

theorem wcnfLineToks_header (w : Wcnf) (fl : List FieldLay) (hts : (wcnfHeaderLine w).all tokOk = true)
    (hok : toksLayOk (wcnfHeaderLine w) fl = true) :
    wcnfLineToks (toksBytes (wcnfHeaderLine w) fl) = wcnfHeaderLine w := by
  have h := lineToks_render [] (wcnfHeaderLine w) fl rfl hts hok
  simp only [List.nil_append] at h
  obtain ⟨r, hr⟩ := wcnfHeader_bytes w fl
  unfold wcnfLineToks
  rw [h, hr]
  simp [startsWith]

theorem plain_ne_cp {b : Nat} (h : plain b = true) : b ≠ 99 ∧ b ≠ 112 := by
  simp only [plain, blank, isDigit, Bool.or_eq_true, beq_iff_eq, Bool.and_eq_true, decide_eq_true_eq] at h
  omega

theorem wcnfLineToks_clause (wc : Int × List Int) (d : LineDecor) (hl : d.lead.all blank = true)
    (hts : (wcnfClauseLine wc).all tokOk = true) (hok : toksLayOk (wcnfClauseLine wc) d.fields = true) :
    wcnfLineToks (lineTL (wcnfClauseLine wc) d).body = wcnfClauseLine wc := by
  have h := lineToks_render d.lead (wcnfClauseLine wc) d.fields hl hts hok
  have hb : ∃ X, d.lead ++ toksBytes (wcnfClauseLine wc) d.fields = d.lead ++ (intBytes (d.fields.headD {}).num wc.1 ++ X) := by
    refine ⟨(d.fields.headD {}).sep ++ toksBytes (intLine (wc.2 ++ [0])) d.fields.tail, ?_⟩
    simp only [wcnfClauseLine, intLine, List.map_cons, toksBytes, tokBytes, List.append_assoc]
  obtain ⟨X, hX⟩ := hb
  have hhead : ∀ b, (d.lead ++ toksBytes (wcnfClauseLine wc) d.fields).head? = some b → b ≠ 99 ∧ b ≠ 112 := by
    intro b hbh
    rw [hX] at hbh
    cases hlead : d.lead with
    | nil =>
      rw [hlead] at hbh
      have hne := (intBytes_words (d.fields.headD {}).num wc.1).2
      cases hi : intBytes (d.fields.headD {}).num wc.1 with
      | nil => exact absurd hi hne
      | cons a r =>
        rw [hi] at hbh
        simp only [List.nil_append, List.cons_append, List.head?_cons, Option.some.injEq] at hbh
        subst hbh
        have := List.all_eq_true.mp (intBytes_plain (d.fields.headD {}).num wc.1) a (by rw [hi]; simp)
        exact plain_ne_cp this
    | cons a r =>
      rw [hlead] at hbh hl
      simp only [List.cons_append, List.head?_cons, Option.some.injEq] at hbh
      subst hbh
      simp only [List.all_cons, Bool.and_eq_true] at hl
      exact plain_ne_cp (plain_of_blank hl.1)
  have hne : (d.lead ++ toksBytes (wcnfClauseLine wc) d.fields).isEmpty = false := by
    rw [hX]
    have hne := (intBytes_words (d.fields.headD {}).num wc.1).2
    cases hi : intBytes (d.fields.headD {}).num wc.1 with
    | nil => exact absurd hi hne
    | cons a r => simp
  have e99 : startsWith 99 (d.lead ++ toksBytes (wcnfClauseLine wc) d.fields) = false := by
    simp only [startsWith, beq_eq_false_iff_ne]
    intro hh; exact (hhead 99 hh).1 rfl
  have e112 : startsWith 112 (d.lead ++ toksBytes (wcnfClauseLine wc) d.fields) = false := by
    simp only [startsWith, beq_eq_false_iff_ne]
    intro hh; exact (hhead 112 hh).2 rfl
  unfold wcnfLineToks lineTL
  simp only [hne, e99, e112, Bool.or_self, Bool.false_eq_true, if_false, h]
  simp [wcnfClauseLine, intLine]

theorem skipsC_toks (ss : List Skip) :
    (ss.map skipLineC).map (fun l => wcnfLineToks l.body) =
      (ss.map (fun _ => (none : Option (List Tok)))).map wcnfSkipLine := by
  induction ss with
  | nil => rfl
  | cons s ss ih =>
    simp only [List.map_cons, ih]
    congr 1
    exact wcnfLineToks_skip s

theorem wcnfClause_toks : ∀ (cls : List (Int × List Int)) (ls : List (List Skip × LineDecor)),
    wcnfClausesOk cls ls = true → cls.all (fun wc => (wcnfClauseLine wc).all tokOk) = true →
    (wcnfClauseTLines cls ls).map (fun l => wcnfLineToks l.body) =
      wcnfRenderClauses cls (ls.map (fun p => p.1.map (fun _ => none))) := by
  intro cls
  induction cls with
  | nil => intro _ _ _; rfl
  | cons wc rest ih =>
    intro ls hok hr
    simp only [wcnfClausesOk, Bool.and_eq_true] at hok
    simp only [List.all_cons, Bool.and_eq_true] at hr
    have e1 : (ls.map (fun p : List Skip × LineDecor => p.1.map (fun _ => (none : Option (List Tok))))).headD [] =
        (ls.headD ([], {})).1.map (fun _ => none) := by cases ls <;> rfl
    have e2 : (ls.map (fun p : List Skip × LineDecor => p.1.map (fun _ => (none : Option (List Tok))))).tail =
        ls.tail.map (fun p => p.1.map (fun _ => none)) := by cases ls <;> rfl
    simp only [wcnfClauseTLines, wcnfRenderClauses, List.map_append, List.map_cons, skipsC_toks, e1, e2,
      ih ls.tail hok.2 hr.2]
    congr 2
    exact wcnfLineToks_clause wc _ hok.1.1.2 hr.1 hok.1.2

theorem wcnfTLines_toks (w : Wcnf) (lay : WcnfByteLayout) (hok : lay.ok w = true) (hr : wcnfInRange w = true) :
    (wcnfTLines w lay).map (fun l => wcnfLineToks l.body) =
      wcnfRenderLines w (lay.before.map (fun _ => none)) (lay.clauses.map (fun p => p.1.map (fun _ => none))) := by
  simp only [WcnfByteLayout.ok, Bool.and_eq_true] at hok
  simp only [wcnfInRange, Bool.and_eq_true] at hr
  unfold wcnfTLines wcnfRenderLines
  simp only [List.map_append, List.map_cons, skipsC_toks, wcnfClause_toks _ _ hok.2 hr.2]
  congr 2
  exact wcnfLineToks_header w _ hr.1 hok.1.2

theorem skipC_line_ok (s : Skip) (h : s.ok = true) :
    ((skipLineC s).body.all (· != 10) && (skipLineC s).body.getLast? != some 13) = true := by
  cases s with
  | blank cr => rfl
  | comment junk cr =>
    simp only [Skip.ok, Bool.and_eq_true] at h
    simp only [skipLineC, List.all_cons, h.1, Bool.and_true, Bool.and_eq_true]
    refine ⟨by decide, ?_⟩
    cases junk with
    | nil => decide
    | cons a junk => simpa [List.getLast?_cons_cons] using h.2

theorem wcnfClauseTLines_ok : ∀ (cls : List (Int × List Int)) (ls : List (List Skip × LineDecor)),
    wcnfClausesOk cls ls = true → cls.all (fun wc => (wcnfClauseLine wc).all tokOk) = true →
    ∀ l ∈ wcnfClauseTLines cls ls, (l.body.all (· != 10) && l.body.getLast? != some 13) = true := by
  intro cls
  induction cls with
  | nil => intro _ _ _ l hl; simp [wcnfClauseTLines] at hl
  | cons wc rest ih =>
    intro ls hok hr l hl
    simp only [wcnfClausesOk, Bool.and_eq_true] at hok
    simp only [List.all_cons, Bool.and_eq_true] at hr
    simp only [wcnfClauseTLines, List.mem_append, List.mem_map, List.mem_cons] at hl
    rcases hl with ⟨s, hs, rfl⟩ | rfl | hl
    · exact skipC_line_ok s (List.all_eq_true.mp hok.1.1.1 s hs)
    · exact line_ok_of_lbyte _ _ _ hok.1.1.2 hr.1 hok.1.2
    · exact ih ls.tail hok.2 hr.2 l hl

/-- Every line fits the scanner's buffer; a file without final newline does not end with an
    empty line. -/
def WcnfFits (w : Wcnf) (lay : WcnfByteLayout) : Prop :=
  (∀ l ∈ wcnfTLines w lay, l.raw.length < maxLine) ∧
    (lay.finalNewline || ((wcnfTLines w lay).getLast?.map (fun l => !l.raw.isEmpty)).getD true) = true

theorem wcnfText_ok (w : Wcnf) (lay : WcnfByteLayout) (hok : lay.ok w = true) (hr : wcnfInRange w = true)
    (hfit : WcnfFits w lay) : textOk (wcnfTLines w lay) lay.finalNewline = true := by
  unfold textOk
  rw [Bool.and_eq_true]
  refine ⟨?_, hfit.2⟩
  rw [List.all_eq_true]
  intro l hl
  have h2 := hfit.1 l hl
  have h1 : (l.body.all (· != 10) && l.body.getLast? != some 13) = true := by
    simp only [WcnfByteLayout.ok, Bool.and_eq_true] at hok
    simp only [wcnfInRange, Bool.and_eq_true] at hr
    simp only [wcnfTLines, List.mem_append, List.mem_map, List.mem_cons] at hl
    rcases hl with ⟨s, hs, rfl⟩ | rfl | hl
    · exact skipC_line_ok s (List.all_eq_true.mp hok.1.1 s hs)
    · have := line_ok_of_lbyte [] _ _ rfl hr.1 hok.1.2
      simpa using this
    · exact wcnfClauseTLines_ok _ _ hok.2 hr.2 l hl
  simp only [TLine.ok, h1, h2, decide_true, Bool.and_self]

/-- **The tokens of a rendered WCNF file** are the token-level rendering (skipped lines reach the
    token level as empty lines). -/
theorem wcnfTokens_render (w : Wcnf) (lay : WcnfByteLayout) (hok : lay.ok w = true) (hr : wcnfInRange w = true)
    (hfit : WcnfFits w lay) :
    wcnfTokens (renderWcnfBytes w lay) =
      wcnfRenderLines w (lay.before.map (fun _ => none)) (lay.clauses.map (fun p => p.1.map (fun _ => none))) := by
  unfold wcnfTokens renderWcnfBytes
  rw [scanLines_text _ _ (wcnfText_ok w lay hok hr hfit)]
  simp only [Bool.false_eq_true, if_false, List.append_nil, List.map_map]
  exact wcnfTLines_toks w lay hok hr

/-- **C13, WCNF, at byte level.** On the bytes of a rendered WCNF file (blanks and tabs, `\r\n`,
    final newline or not, empty and `c` lines before the header and between the clauses, optional
    `+` and leading zeros, blanks in front of clause lines) whose numbers fit 64 bits and whose lines
    fit the scanner's buffer, `maxsat.ParseWCNF` hands to the optimiser exactly `wcnfEncode` of the
    instance (as `parseWcnf_render`). -/
theorem parseWcnfBytes_render (w : Wcnf) (lay : WcnfByteLayout) (hok : lay.ok w = true) (hr : wcnfInRange w = true)
    (hfit : WcnfFits w lay) :
    parseWcnfBytes (renderWcnfBytes w lay) = .ok (GS.MaxSatEnc.wcnfEncode w.nbVars w.topVal w.clauses) := by
  unfold parseWcnfBytes
  rw [wcnfTokens_render w lay hok hr hfit]
  exact parseWcnf_render w _ _

/-! ## Totality -/

/-- The mirrors are total functions (structural recursions on the bytes and on the token lines):
    each reader always returns, with a value, an error or a panic (`Except.error "panic: …"`).
    What can panic in `ParseOPB`: `line[0]` (guarded by `line == ""`), `line[len(line)-1]` (same),
    `fields[0]` (guarded by `len(fields) == 0`), `fields[len-2]` (guarded by `len < 3`), `l[0]`,
    `l[1:]`, `l[2:]` (guarded by the prefix tests; `l[2:]` only when `l[0] == '~'` and the prefix
    is `~x`) — and `terms[i]` after `i++` (a coefficient as last field) and `terms[i*2]` in the
    error message: these two **do** panic (`"1 x1 1 >= 1;"`, `"1 x1 m >= 1;"`), as the token level
    says. In `ParseWCNF`: `line[0]` (guarded), `fields[1..4]` (guarded by `len(fields) < 4`,
    `== 5`), and `make([]int, len(fields)-1)` / `lits[len(lits)-1]`, which **do** panic on a line of
    blanks and on a line with one field; `make(…, nbClauses)` for a negative count; the `make` after
    the loop when there was no header. In `explain.ParseCNF`: `fields[0]` (guarded), `fields[2]`,
    `fields[3]` (guarded by `len(fields) != 4`), `pb.units[v-1]` (guarded by `v > pb.NbVars`,
    except for `v = -2^63`, see `explainGuard`). -/
theorem parseOpbBytes_total (bs : List Nat) :
    (∃ r, parseOpbBytes bs = .ok r) ∨ (∃ e, parseOpbBytes bs = .error e) := by
  cases parseOpbBytes bs with
  | ok r => exact Or.inl ⟨r, rfl⟩
  | error e => exact Or.inr ⟨e, rfl⟩

theorem parseWcnfBytes_total (bs : List Nat) :
    (∃ r, parseWcnfBytes bs = .ok r) ∨ (∃ e, parseWcnfBytes bs = .error e) := by
  cases parseWcnfBytes bs with
  | ok r => exact Or.inl ⟨r, rfl⟩
  | error e => exact Or.inr ⟨e, rfl⟩

theorem explainParseBytes_total (bs : List Nat) :
    (∃ r, explainParseBytes bs = .ok r) ∨ (∃ e, explainParseBytes bs = .error e) := by
  cases explainParseBytes bs with
  | ok r => exact Or.inl ⟨r, rfl⟩
  | error e => exact Or.inr ⟨e, rfl⟩

/-! ## What the scanner does with a long line -/

/-- A line of `maxLine` bytes or more stops the scanner, with or without `\n` after it; the
    lines before it have been delivered. -/
theorem scanLines_long (ls : List TLine) (long rest : List Nat) (h : textOk ls true = true)
    (hl : long.all (· != 10) = true) (hlen : maxLine ≤ long.length) :
    scanLines (textBytes ls true ++ (long ++ 10 :: rest)) = (ls.map (·.body), true) := by
  have hraw : ∀ (ls : List TLine), textOk ls true = true →
      rawLines (textBytes ls true ++ (long ++ 10 :: rest)) = ls.map (·.raw) ++ long :: rawLines rest := by
    intro ls
    induction ls with
    | nil => intro _; simp [textBytes, rawLines_line _ _ hl]
    | cons l ls ih =>
      intro h
      simp only [textOk, List.all_cons, Bool.and_eq_true] at h
      have h1 := h.1.1
      simp only [TLine.ok, Bool.and_eq_true] at h1
      have hb := raw_no_nl l h1.1.1
      have : textOk ls true = true := by simp only [textOk, h.1.2, Bool.true_or, Bool.and_self]
      simp only [textBytes, Bool.not_true, Bool.and_false, Bool.false_eq_true, if_false, List.append_assoc,
        List.cons_append, List.map_cons]
      rw [rawLines_line _ _ hb, ih this]
  have htake : ∀ (ls : List TLine) (tl : List (List Nat)), ls.all (·.ok) = true →
      takeFit (ls.map (·.raw) ++ long :: tl) = (ls.map (·.body), true) := by
    intro ls tl
    induction ls with
    | nil =>
      intro _
      have : ¬ long.length < maxLine := by omega
      simp [takeFit, this]
    | cons l ls ih =>
      intro h
      simp only [List.all_cons, Bool.and_eq_true, TLine.ok, decide_eq_true_eq] at h
      simp only [List.map_cons, List.cons_append, takeFit, h.1.2, if_true, ih h.2, dropCR_raw l h.1.1.2]
  unfold scanLines
  rw [hraw ls h]
  simp only [textOk, Bool.and_eq_true] at h
  exact htake ls _ h.1

/-- After a line that does not fit the buffer all three readers see `scanner.Err() != nil` (the token
    level gets a line it rejects). Before the repair `ParseWCNF` did not look at it and the limit was
    64 KiB: the rest of the file was silently dropped (a long comment line turned an unsatisfiable
    instance into a satisfiable one); now the limit is 2^30 bytes and passing it is an error. -/
theorem wcnfTokens_long (ls : List TLine) (long rest : List Nat) (h : textOk ls true = true)
    (hl : long.all (· != 10) = true) (hlen : maxLine ≤ long.length) :
    wcnfTokens (textBytes ls true ++ (long ++ 10 :: rest)) = wcnfTokens (textBytes ls true) ++ [errLine] := by
  unfold wcnfTokens
  rw [scanLines_long ls long rest h hl hlen, scanLines_text ls true h]
  simp

theorem opbTokens_long (ls : List TLine) (long rest : List Nat) (h : textOk ls true = true)
    (hl : long.all (· != 10) = true) (hlen : maxLine ≤ long.length) :
    opbTokens (textBytes ls true ++ (long ++ 10 :: rest)) = opbTokens (textBytes ls true) ++ [errLine] := by
  unfold opbTokens
  rw [scanLines_long ls long rest h hl hlen, scanLines_text ls true h]
  simp

/-- `parseOpbLines` fails as soon as one line is `errLine`. -/
theorem opbLines_errLine : ∀ (ls : List Line) (st : OpbState), ∃ e, opbLines st (ls ++ [errLine]) = .error e := by
  intro ls
  induction ls with
  | nil => intro st; exact ⟨_, by simp [opbLines, opbLine, errLine, isStarLine, firstChar]; rfl⟩
  | cons l ls ih =>
    intro st
    simp only [List.cons_append, opbLines]
    cases opbLine st l with
    | error e => exact ⟨e, rfl⟩
    | ok st' => exact ih st'

/-- **A line that does not fit the buffer is an error for `ParseOPB`** (unless an earlier line
    already was). -/
theorem parseOpbBytes_long (ls : List TLine) (long rest : List Nat) (h : textOk ls true = true)
    (hl : long.all (· != 10) = true) (hlen : maxLine ≤ long.length) :
    ∃ e, parseOpbBytes (textBytes ls true ++ (long ++ 10 :: rest)) = .error e := by
  unfold parseOpbBytes parseOpbLines
  rw [opbTokens_long ls long rest h hl hlen]
  exact opbLines_errLine _ _

/-! ## Non-vacuity -/

/-- `min: x1 + 2 ~x2`, `x1 - 2 x2 >= -1`, `x3 + ~x1 = 1`. -/
def exOpb : Opb := ⟨some [(1, 1), (2, -2)], [⟨[(1, 1), (-2, 2)], .ge, -1⟩, ⟨[(1, 3), (1, -1)], .eq, 1⟩]⟩

/-- CRLF, tabs, `min:` glued to `+1`, `;` glued, `>=` glued on both sides, a coefficient left out,
    a leading zero, a comment, an empty line, a leading blank, no final newline. -/
def exOpbLay : OpbByteLayout :=
  { objSkips := [.comment [32, 99] true],
    obj := { ws0 := [], terms := [⟨false, ⟨true, 0⟩, [32], [32, 9]⟩, ⟨false, {}, [9], []⟩], cr := true },
    constrs := [([.blank true], { lead := [32], terms := [⟨true, {}, [32], [9]⟩, ⟨false, {}, [32, 32], []⟩], ws1 := [],
                                  rhs := ⟨false, 1⟩, ws2 := [], cr := true }),
                ([], { terms := [⟨false, ⟨true, 1⟩, [32], [32]⟩, ⟨true, {}, [32], [32]⟩], ws1 := [9], ws2 := [32] })],
    finalNewline := false }

/-- `"* c\r\nmin:+1 x1 \t2\t~x2;\r\n\r\n x1\t-2  x2>=-01;\r\n+01 x3 ~x1 =\t1 ;"` -/
example : renderOpbBytes exOpb exOpbLay = [42, 32, 99, 13, 10, 109, 105, 110, 58, 43, 49, 32, 120, 49, 32, 9, 50, 9, 126, 120, 50, 59, 13, 10, 13, 10, 32, 120, 49, 9, 45, 50, 32, 32, 120, 50, 62, 61, 45, 48, 49, 59, 13, 10, 43, 48, 49, 32, 120, 51, 32, 126, 120, 49, 32, 61, 9, 49, 32, 59] := by decide
example : exOpbLay.ok exOpb = true := by decide
example : exOpb.wf = true := by decide
example : OpbInRange exOpb := by
  refine ⟨?_, ?_⟩
  · intro ts h; cases h; intro t ht; simp at ht; rcases ht with rfl | rfl <;> decide
  · intro c hc; simp [exOpb] at hc
    rcases hc with rfl | rfl
    · refine ⟨?_, by decide⟩; intro t ht; simp at ht; rcases ht with rfl | rfl <;> decide
    · refine ⟨?_, by decide⟩; intro t ht; simp at ht; rcases ht with rfl | rfl <;> decide
example : OpbFits exOpb exOpbLay := ⟨by decide, by decide⟩

def exWcnf : Wcnf := ⟨2, some 5, [(5, [1, 2]), (1, [-1])]⟩

/-- `"c x\r\np\twcnf 2  +2 05\r\n\r\n 5 1\t2 0 \r\n1 -1 0\r"` -/
def exWcnfLay : WcnfByteLayout :=
  { before := [.comment [32, 120] true],
    header := { fields := [⟨{}, [9]⟩, ⟨{}, [32]⟩, ⟨{}, [32, 32]⟩, ⟨⟨true, 0⟩, [32]⟩, ⟨⟨false, 1⟩, []⟩], cr := true },
    clauses := [([.blank true], { lead := [32], fields := [⟨{}, [32]⟩, ⟨{}, [9]⟩, ⟨{}, [32]⟩, ⟨{}, [32]⟩], cr := true }),
                ([], { fields := [⟨{}, [32]⟩, ⟨{}, [32]⟩, ⟨{}, []⟩], cr := true })],
    finalNewline := false }

example : renderWcnfBytes exWcnf exWcnfLay = [99, 32, 120, 13, 10, 112, 9, 119, 99, 110, 102, 32, 50, 32, 32, 43, 50, 32, 48, 53, 13, 10, 13, 10, 32, 53, 32, 49, 9, 50, 32, 48, 32, 13, 10, 49, 32, 45, 49, 32, 48, 13] := by decide
example : exWcnfLay.ok exWcnf = true := by decide
example : wcnfInRange exWcnf = true := by decide
example : WcnfFits exWcnf exWcnfLay := ⟨by decide, by decide⟩

def exDimacs : Dimacs := ⟨3, [[1, -2], [3]]⟩
def exCnfLay : CnfLayout := { beforeHeader := [[Tok.word "hello", Tok.int 7]], clauses := [{ cuts := [1], join := true }, {}] }
def exDecor : List LineDecor :=
  [{ fields := [⟨{}, [9]⟩, ⟨{}, [32]⟩, ⟨{}, []⟩], cr := true }, { lead := [32], fields := [⟨{}, [32]⟩, ⟨{}, [9]⟩, ⟨⟨true, 1⟩, [32]⟩, ⟨{}, [32, 9]⟩], cr := true },
   { fields := [⟨{}, []⟩] }, { fields := [⟨{}, [32]⟩, ⟨{}, [32]⟩, ⟨{}, [32]⟩, ⟨{}, []⟩], cr := true }]

/-- `"c\thello 7\r\n p cnf\t+03 2 \t\r\n1\n-2 0 3 0\r"` -/
example : renderLinesBytes (exDimacs.renderLines exCnfLay) exDecor false = [99, 9, 104, 101, 108, 108, 111, 32, 55, 13, 10, 32, 112, 32, 99, 110, 102, 9, 43, 48, 51, 32, 50, 32, 9, 13, 10, 49, 10, 45, 50, 32, 48, 32, 51, 32, 48, 13] := by decide
example : (exDimacs.renderLines exCnfLay).all (·.all tokOk) = true := by decide
example : decorOk (exDimacs.renderLines exCnfLay) exDecor = true := by decide
example : LinesFit (exDimacs.renderLines exCnfLay) exDecor false := ⟨by decide, by decide⟩
example : ∀ c ∈ exDimacs.clauses, exClauseOk exDimacs.nbVars c := by
  intro c hc; simp [exDimacs] at hc
  rcases hc with rfl | rfl
  · exact ⟨by decide, by intro l h; simp at h⟩
  · exact ⟨by decide, by intro l h; simp at h; subst h; decide⟩


/-! ## What is rejected (witnesses replayed on the Go code) -/

/-- `"p wcnf 1 1\n \n1 1 0\n"`: a line of blanks makes `ParseWCNF` panic. -/
example : parseWcnfBytes [112, 32, 119, 99, 110, 102, 32, 49, 32, 49, 10, 32, 10, 49, 32, 49, 32, 48, 10] = .error "panic: index out of range [-1]" := by rfl
/-- The empty file makes `ParseWCNF` panic. -/
example : parseWcnfBytes [] =
    .error "panic: makeslice: len out of range / length of lits and of weights don't match" := by rfl
/-- `" p wcnf 1 1\n1 1 0\n"`: a blank in front of the header is an error. -/
example : parseWcnfBytes [32, 112, 32, 119, 99, 110, 102, 32, 49, 32, 49, 10, 49, 32, 49, 32, 48, 10] = .error "Invalid integer in WCNF clause" := by rfl
/-- `"1 x1 >= 1 ; \n"`: a blank after the `;` is an error. -/
example : parseOpbBytes [49, 32, 120, 49, 32, 62, 61, 32, 49, 32, 59, 32, 10] = .error "line does not end with semicolon" := by rfl
/-- `" min:+1 x1 ;\n"`: a blank in front of a glued `min:` is an error. -/
example : parseOpbBytes [32, 109, 105, 110, 58, 43, 49, 32, 120, 49, 32, 59, 10] = .error "invalid syntax" := by rfl
/-- `"1 x1 1 >= 1;"`: a coefficient as last term makes `ParseOPB` panic. -/
example : parseOpbBytes [49, 32, 120, 49, 32, 49, 32, 62, 61, 32, 49, 59] = .error "panic: index out of range" := by rfl
/-- `x99999999999999999999` is passed on as `x?`. -/
example : opbTok [120, 57, 57, 57, 57, 57, 57, 57, 57, 57, 57, 57, 57, 57, 57, 57, 57, 57, 57, 57, 57] = Tok.word "x?" := by decide

end GS.TextBytes

#print axioms GS.TextBytes.scanLines_text
#print axioms GS.TextBytes.opbTokens_render
#print axioms GS.TextBytes.parseOpbBytes_render_tokens
#print axioms GS.TextBytes.parseOpbBytes_render
#print axioms GS.TextBytes.parseWcnfBytes_render
#print axioms GS.TextBytes.explainTokens_render
#print axioms GS.TextBytes.explainParseBytes_render
#print axioms GS.TextBytes.parseOpbBytes_total
#print axioms GS.TextBytes.parseWcnfBytes_total
#print axioms GS.TextBytes.explainParseBytes_total
#print axioms GS.TextBytes.scanLines_long
#print axioms GS.TextBytes.wcnfTokens_long
#print axioms GS.TextBytes.parseOpbBytes_long
