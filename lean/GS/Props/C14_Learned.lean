import GS.Props.C14_PbSet
import GS.Props.C14_SimplifyPB
/-!
# C14 — end-to-end statement over the mirrors

`cuttingPlanes` returns `pb.clause().SimplifyPB()` where `pb` was obtained from problem
constraints by `roundToOne` and `clash`. `pb.clause()` lists the non-zero positions
(`PbSet.termsFrom`) and `NewPBClause` sorts them (an unspecified permutation `ts`).
For every such permutation, whatever `SimplifyPB` returns is a consequence of the problem.
-/
namespace GS

theorem lhs_perm (a : Asg) {l1 l2 : List (Int × Int)} (h : l1.Perm l2) : lhs a l1 = lhs a l2 := by
  induction h with
  | nil => rfl
  | cons x _ ih => simp only [lhs, ih]
  | swap x y l => simp only [lhs]; omega
  | trans _ _ ih1 ih2 => exact ih1.trans ih2

theorem termsFrom_weight_pos (k : Nat) (ws : List Int) : ∀ t ∈ PbSet.termsFrom k ws, 0 < t.1 := by
  induction ws generalizing k with
  | nil => simp [PbSet.termsFrom]
  | cons w ws ih =>
    rw [PbSet.termsFrom]
    by_cases h0 : w = 0
    · rw [if_pos h0]; exact ih (k+1)
    · rw [if_neg h0]
      intro t ht
      rcases List.mem_cons.mp ht with rfl | ht
      · show 0 < iabs w
        unfold iabs; split <;> omega
      · exact ih (k+1) t ht

/-- **C14, final step.** If `q` is derivable from `prob` and `ts` is any ordering of the terms
    of `q`, then in every model of `prob`: the units returned by `SimplifyPB` are true and the
    returned learned constraint holds. -/
theorem learned_sound (prob : List PbSet) (q : PbSet) (hd : Derivable prob q)
    (ts : List (Int × Int)) (hperm : ts.Perm (PbSet.termsFrom 0 q.weights))
    (units : List Int) (rest : Option (List (Int × Int) × Int))
    (h : simplifyTerms ts q.card = .done units rest)
    (a : Asg) (ha : ∀ p ∈ prob, p.holds a = true) :
    (∀ u ∈ units, litTrue a u = true) ∧ (∀ r, rest = some r → Lin.holds a ⟨r.1, r.2⟩ = true) := by
  have hq := derivation_sound a prob q hd ha
  have hw : ∀ t ∈ ts, 0 ≤ t.1 := fun t ht =>
    Int.le_of_lt (termsFrom_weight_pos 0 q.weights t (hperm.mem_iff.mp ht))
  apply (simplify_equiv ts q.card hw units rest h a).mp
  rw [← toLin_holds] at hq
  have hq' : q.card ≤ lhs a (PbSet.termsFrom 0 q.weights) := of_decide_eq_true hq
  simp only [Lin.holds, decide_eq_true_eq]
  rw [lhs_perm a hperm]
  exact hq'

/-- **C14, final step, `ok = false`.** If `SimplifyPB` reports `ok = false` (the solver then
    answers UNSAT), the problem has no model. -/
theorem learned_unsat_sound (prob : List PbSet) (q : PbSet) (hd : Derivable prob q)
    (ts : List (Int × Int)) (hperm : ts.Perm (PbSet.termsFrom 0 q.weights))
    (h : simplifyTerms ts q.card = .unsat) (a : Asg) : ¬ ∀ p ∈ prob, p.holds a = true := by
  intro ha
  have hq := derivation_sound a prob q hd ha
  have hw : ∀ t ∈ ts, 0 ≤ t.1 := fun t ht =>
    Int.le_of_lt (termsFrom_weight_pos 0 q.weights t (hperm.mem_iff.mp ht))
  have hf := simplify_unsat ts q.card hw h a
  rw [← toLin_holds] at hq
  have hq' : q.card ≤ lhs a (PbSet.termsFrom 0 q.weights) := of_decide_eq_true hq
  simp only [Lin.holds, decide_eq_false_iff_not] at hf
  rw [lhs_perm a hperm] at hf
  exact hf hq'

/-- the learned `x2 ≥ 1` of the example derivation: `SimplifyPB` turns it into the unit `x2`. -/
example : simplifyTerms (PbSet.termsFrom 0 [0, 1]) 1 = .done [2] none := by decide

end GS
