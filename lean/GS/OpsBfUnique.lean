import GS.Proto
import GS.Model.BfUnique
/-! Driver ops for `bf.Unique` with more than 4 names (C11/C12): the grid dimensions computed in ℕ,
    to be compared with Go's `int(math.Sqrt(float64(n)) + 0.5)` / `int(math.Ceil(math.Sqrt(float64(n))))`. -/
namespace GS.OpsBfUnique
open GS GS.Proto GS.BfUnique

def showDims (d : Nat × Nat) : String := s!"{d.1} {d.2}"

/-- `uniquedims n` → `nbLines nbCols` (`natDims n`) -/
def opUniqueDims (fs : List String) : Option String := do
  let [n] := fs | none
  let n ← parseNat n
  some (showDims (natDims n))

/-- `uniquedimsrange lo | hi` → `nbLines nbCols ; nbLines nbCols ; …` for `n = lo, …, hi-1` -/
def opUniqueDimsRange (fs : List String) : Option String := do
  let [lo, hi] := fs | none
  let lo ← parseNat lo; let hi ← parseNat hi
  some (" ; ".intercalate ((List.range (hi - lo)).map (fun i => showDims (natDims (lo + i)))))

/-- `uniquecells n` → for `n` variables and `natDims n = (L, C)`: `L C | line of each index | column of each index` -/
def opUniqueCells (fs : List String) : Option String := do
  let [n] := fs | none
  let n ← parseNat n
  let (L, C) := natDims n
  let idx := List.range n
  some s!"{L} {C} | {" ".intercalate (idx.map (fun p => toString (p / C)))} | {" ".intercalate (idx.map (fun p => toString (p % C)))}"

/-- a cheap naming of the dummy variables for printing: it only looks at the head of the group,
    which identifies the group within one recursion tree of `uniqueRec` on distinct names
    (the theorems of `C11_Unique` about `uniqueRecF` hold for any naming). -/
def nmOp (t : Bool) (i : Nat) (g : List GS.Bf.Key) : Nat :=
  pair (if t then 1 else 0) (pair i (match g with | [] => 0 | k :: _ => keyCode k + 1))

mutual
/-- Go's `String()` of the formula; problem variable `n` is printed `v<n>`, a dummy variable
    `D<r>` with `r` its rank of first appearance (left to right); `seen` = dummies met so far. -/
def render : GS.Bf.F → List Nat → String × List Nat
  | .var n d, seen =>
    if d then
      let r := seen.idxOf n
      if r < seen.length then (s!"D{r}", seen) else (s!"D{seen.length}", seen ++ [n])
    else (s!"v{n}", seen)
  | .lit n _ neg, seen => ((if neg then "not(" else "") ++ s!"lit{n}" ++ (if neg then ")" else ""), seen)
  | .not f, seen => let (x, s1) := render f seen; ("not(" ++ x ++ ")", s1)
  | .and fs, seen => let (x, s1) := renders fs seen; ("and(" ++ x ++ ")", s1)
  | .or fs, seen => let (x, s1) := renders fs seen; ("or(" ++ x ++ ")", s1)
  | .tt, seen => ("⊤", seen)
  | .ff, seen => ("⊥", seen)
  | .unique _, seen => ("unique", seen)   -- not reached: `opUniqueShape` renders the expansion, as `unique.String()` does
def renders : List GS.Bf.F → List Nat → String × List Nat
  | [], seen => ("", seen)
  | [f], seen => render f seen
  | f :: g :: fs, seen =>
    let (x, s1) := render f seen
    let (y, s2) := renders (g :: fs) s1
    (x ++ ", " ++ y, s2)
end

/-- `uniqueshape n` → `Unique(v0, …, v(n-1)).String()` (= `uniqueRec(v0, …).String()`) with the dummy variables renamed `D0, D1, …`
    in order of first appearance (the harness renames the `line-…` / `col-…` names of Go's output
    the same way), followed by ` | <number of dummies>`. -/
def opUniqueShape (fs : List String) : Option String := do
  let [n] := fs | none
  let n ← parseNat n
  let (x, seen) := render (uniqueRecN natDims nmOp ((List.range n).map (fun i => (i, false)))) []
  some s!"{x} | {seen.length}"

def table : List (String × (List String → Option String)) :=
  [("uniquedims", opUniqueDims), ("uniquedimsrange", opUniqueDimsRange), ("uniquecells", opUniqueCells),
   ("uniqueshape", opUniqueShape)]

end GS.OpsBfUnique
