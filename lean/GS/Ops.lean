import GS.Proto
import GS.Check.Brute
import GS.Check.Rup
import GS.Check.MaxSatBrute
/-!
# GS.Ops — the operations the driver answers (one line in, one line out)
-/
namespace GS.Ops
open GS GS.Proto

def b01 (b : Bool) : String := if b then "1" else "0"

def opSat (fs : List String) : Option String := do
  let [n, p] := fs | none
  let n ← parseNat n; let p ← parseProblem p
  if !p.wf n then some "wf-error" else
  some (b01 (bruteSat n p))

/-- index of the first constraint violated by the model, or ok -/
def firstViolated (a : Asg) : Problem → Nat → Option Nat
  | [], _ => none
  | c :: cs, i => if c.holds a then firstViolated a cs (i+1) else some i

def opEval (fs : List String) : Option String := do
  let [n, p, m] := fs | none
  let n ← parseNat n; let p ← parseProblem p; let m ← parseBools m
  if !p.wf n then some "wf-error" else
  if m.length != n then some s!"len {m.length}" else
  match firstViolated (asgOf m) p 0 with
  | none => some "ok"
  | some i => some s!"viol {i}"

def opOpt (fs : List String) : Option String := do
  let [n, p, f] := fs | none
  let n ← parseNat n; let p ← parseProblem p; let f ← parseTerms f
  if !(p.wf n && termsWf n f) then some "wf-error" else
  match bruteOpt n p f with
  | none => some "none"
  | some k => some s!"some {k}"

def opCost (fs : List String) : Option String := do
  let [f, m] := fs | none
  let f ← parseTerms f; let m ← parseBools m
  some (toString (cost f (asgOf m)))

def opCount (fs : List String) : Option String := do
  let [n, p] := fs | none
  let n ← parseNat n; let p ← parseProblem p
  if !p.wf n then some "wf-error" else
  some (toString (bruteCount n p))

def opModels (fs : List String) : Option String := do
  let [n, p] := fs | none
  let n ← parseNat n; let p ← parseProblem p
  if !p.wf n then some "wf-error" else
  some (" ".intercalate ((modelsOver n p).map (fun m => "m" ++ showBools m)))

def opEnt (fs : List String) : Option String := do
  let [n, p, c] := fs | none
  let n ← parseNat n; let p ← parseProblem p; let c ← parseInts c; let c ← linOfInts c
  if !(p.wf n && c.wf n) then some "wf-error" else
  some (b01 (entailsB n p c))

def opCnfSat (fs : List String) : Option String := do
  let [n, f] := fs | none
  let n ← parseNat n; let f ← parseGroups f
  if !cnfWf n f then some "wf-error" else
  some (b01 (bruteCnfSat n f))

/-- `rup n | F | lines` → `firstbad=<i|-1> refutes=<0|1>` -/
def opRup (fs : List String) : Option String := do
  let [n, f, ls] := fs | none
  let n ← parseNat n; let f ← parseGroups f; let ls ← parseGroups ls
  let fb := match rupFirstBad n f ls 0 with | none => "-1" | some i => toString i
  some s!"firstbad={fb} refutes={b01 (rupRefutes n f ls)}"

def opUp (fs : List String) : Option String := do
  let [n, f] := fs | none
  let n ← parseNat n; let f ← parseGroups f
  some (b01 (upRefute n f))

def opMus (fs : List String) : Option String := do
  let [n, m] := fs | none
  let n ← parseNat n; let m ← parseGroups m
  if !cnfWf n m then some "wf-error" else
  some (b01 (isMUSB n m))

def opSubMulti (fs : List String) : Option String := do
  let [xs, ys] := fs | none
  let xs ← parseGroups xs; let ys ← parseGroups ys
  some (b01 (subMultiset xs ys))

/-- soft constraints: groups `weight deg c l c l …` -/
def parseSoft (s : String) : Option (List Soft) := do
  let gs ← parseGroups s
  gs.mapM (fun g => match g with
    | [] => none
    | w :: rest => (linOfInts rest).map (fun c => ⟨w, c⟩))

/-- `maxsat n | hard | soft` → `none` | `some k` -/
def opMaxSat (fs : List String) : Option String := do
  let [n, h, s] := fs | none
  let n ← parseNat n; let h ← parseProblem h; let s ← parseSoft s
  if !(h.wf n && softWf n s) then some "wf-error" else
  match bruteMaxSat n h s with
  | none => some "none"
  | some k => some s!"some {k}"

/-- `violated soft | model` → total weight of violated soft constraints -/
def opViolated (fs : List String) : Option String := do
  let [s, m] := fs | none
  let s ← parseSoft s; let m ← parseBools m
  some (toString (violated (asgOf m) s))

/-- `costs n | cs | terms` → cost of every model over 1..n, in `leaves` order -/
def opCosts (fs : List String) : Option String := do
  let [n, p, f] := fs | none
  let n ← parseNat n; let p ← parseProblem p; let f ← parseTerms f
  if !(p.wf n) then some "wf-error" else
  some (" ".intercalate ((modelsOver n p).map (fun m => toString (cost f (asgOf m)))))

def table : List (String × (List String → Option String)) :=
  [("sat", opSat), ("eval", opEval), ("opt", opOpt), ("cost", opCost), ("count", opCount),
   ("models", opModels), ("ent", opEnt), ("cnfsat", opCnfSat), ("rup", opRup), ("up", opUp),
   ("mus", opMus), ("submulti", opSubMulti), ("maxsat", opMaxSat), ("violated", opViolated), ("costs", opCosts)]

end GS.Ops
