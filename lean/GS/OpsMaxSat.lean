import GS.Proto
import GS.Ops
import GS.Model.MaxSatEnc
/-! Driver ops for the MaxSAT blocking-literal encoding (C04). -/
namespace GS.OpsMaxSat
open GS GS.Proto GS.MaxSatEnc

/-- `deg c l c l …` (what `linOfInts` reads). -/
def showLin (c : Lin) : String :=
  showInts (c.degree :: c.terms.flatMap (fun t => [t.1, t.2]))

/-- constraints separated by ` ; ` (what `parseProblem` reads; the empty problem is ``). -/
def showProblem (p : Problem) : String := " ; ".intercalate (p.map showLin)

/-- `c l c l …` (what `parseTerms` reads). -/
def showTerms (ts : List (Int × Int)) : String := showInts (ts.flatMap (fun t => [t.1, t.2]))

/-- `msenc n | hard | soft` (soft: groups `weight deg c l c l …`) →
    `<encoded problem> | <cost terms>`; the `i`-th soft constraint is relaxed with variable
    `n+1+i`. `wf-error` if a literal is `0` or outside `1..n`. -/
def opMsEnc (fs : List String) : Option String := do
  let [n, h, s] := fs | none
  let n ← parseNat n; let h ← parseProblem h; let s ← GS.Ops.parseSoft s
  if !(h.wf n && softWf n s) then some "wf-error" else
  let (p, f) := encode n h s
  some s!"{showProblem p} | {showTerms f}"

/-- `wcnfenc n | top | clauses` (clauses: groups `weight l l …`, `top = 0`: no top weight) →
    `<clauses> | <cost terms> | <nbVars> | <firstRelax>` as built by `ParseWCNF`. -/
def opWcnfEnc (fs : List String) : Option String := do
  let [n, top, cs] := fs | none
  let n ← parseNat n; let top ← (trim top).toInt?; let gs ← parseGroups cs
  let cls ← gs.mapM (fun g => match g with
    | [] => none
    | w :: ls => some (w, ls))
  let out := wcnfEncode n top cls
  some s!"{showGroups out.clauses} | {showTerms out.costFn} | {out.nbVars} | {out.firstRelax}"

/-- `msnew lits | coeffs | atLeast | bl` → `lits | coeffs | atLeast`: the arguments `New`
    passes to `solver.GtEq` for one soft constraint (empty coeffs = `nil`). -/
def opMsNew (fs : List String) : Option String := do
  let [ls, cs, d, bl] := fs | none
  let ls ← parseInts ls; let cs ← parseInts cs
  let d ← (trim d).toInt?; let bl ← (trim bl).toInt?
  let r := newSoft ⟨ls, cs, d⟩ bl
  some s!"{showInts r.lits} | {showInts r.coeffs} | {r.atLeast}"

/-- `msencgo <constraints>`: groups `weight deg k x…` in the order given to `New`; `weight = 0`
    is hard; `k = 0`: `x…` are literals (`nil` coefficients), `k = 1`: `x…` are `c l c l …`.
    Literal `l` is the variable named `|l|`. → `<problem> | <cost terms> | <varInts>` with Go's
    numbering (`varInts`: name of solver variable `1..`, `0` for a blocking literal), or `panic`
    when `solver.GtEq` would (coefficient / literal count mismatch); `wf-error` on a literal `0`. -/
def opMsEncGo (fs : List String) : Option String := do
  let [cs] := fs | none
  let gs ← parseGroups cs
  let cs ← gs.mapM (fun g => match g with
    | w :: d :: 0 :: ls => some (⟨ls, [], d, w⟩ : MsConstr)
    | w :: d :: 1 :: r => (linOfInts (d :: r)).map (fun l => ⟨l.terms.map (·.2), l.terms.map (·.1), d, w⟩)
    | _ => none)
  if cs.any (fun c => c.lits.any (· == 0)) then some "wf-error" else
  let st := newGo cs
  match st.constrs.mapM GoConstr.toLin with
  | none => some "panic"
  | some p => some s!"{showProblem p} | {showTerms st.costFn} | {showInts st.varInts}"

def table : List (String × (List String → Option String)) :=
  [("msenc", opMsEnc), ("wcnfenc", opWcnfEnc), ("msnew", opMsNew), ("msencgo", opMsEncGo)]

end GS.OpsMaxSat
