import GS.Proto
import GS.Model.Analyze
/-!
# GS.OpsAnalyze — driver ops for the conflict-analysis mirror

`analyze <lvl> | <conflict literals> | <trail> | <reasons>`

* trail: groups `lit level assumed` (assumed is `0` or `1`) separated by ` ; `, in trail order;
  the empty field is the empty trail;
* reasons: one group per trail entry, separated by ` ; `: the literals of the antecedent, or the
  single token `0` when the variable has no antecedent;
* answer: `learned <asserting> | <rest>` where `rest` is sorted by decreasing level, ties by
  increasing `|literal|` (then negative before positive); `unit <l>`; `toplevel`; `stuck`.

`analyze_inv <lvl> | <conflict literals> | <trail> | <reasons>` evaluates the executable invariants
of `GS.Model.Analyze` on the same input and answers
`inv <trailInv> <reasonsCnf> <decisionsOk> <conflOk>` (each `0` or `1`).

`pb_explains <x or 0> | <degree> | <coef lit coef lit …> | <literals false before>` answers `1` when
the constraint `Σ coef·lit ≥ degree` has non-negative coefficients and forces `x` once the listed
literals are false (`0` instead of `x`: the constraint is violated once they are false), else `0`
(`GS.Analyze.pbExplains`; soundness: `pb_explains_sound`).

Unparsable input (bad integer, group of the wrong shape, trail and reasons of different lengths)
yields `none`: the driver answers `bad-op`.
-/
namespace GS.OpsAnalyze
open GS GS.Proto GS.Analyze

def parseTrailEntry : List Int → Option (Int × Nat × Bool)
  | [l, lv, a] =>
    if l = 0 ∨ lv < 0 then none
    else if a = 0 then some (l, lv.toNat, false)
    else if a = 1 then some (l, lv.toNat, true)
    else none
  | _ => none

def parseReason : List Int → Option (Option (List Int))
  | [0] => some none
  | ls => if ls.contains 0 then none else some (some ls)

def parseSt (fs : List String) : Option St := do
  let [lvl, confl, trail, reasons] := fs | none
  let lvl ← parseNat lvl
  let confl ← parseInts confl
  let tr ← (← parseGroups trail).mapM parseTrailEntry
  let rs ← (← parseGroups reasons).mapM parseReason
  if tr.length ≠ rs.length then none
  else some ⟨lvl, ⟨confl⟩, tr, rs⟩

/-- Order of the answer: decreasing level, then increasing variable, then negative first. -/
def before (key : Int → Nat) (x y : Int) : Bool :=
  key x > key y || (key x == key y && (x.natAbs < y.natAbs || (x.natAbs == y.natAbs && x ≤ y)))

def insOut (key : Int → Nat) (x : Int) : List Int → List Int
  | [] => [x]
  | y :: ys => if before key x y then x :: y :: ys else y :: insOut key x ys

def sortOut (key : Int → Nat) (xs : List Int) : List Int := xs.foldr (insOut key) []

def showRes (st : St) : Res → String
  | .learned a rest =>
    s!"learned {a} | {showInts (sortOut (fun l => lvOf st.entries l.natAbs) rest)}"
  | .unit l => s!"unit {l}"
  | .topLevel => "toplevel"
  | .stuck => "stuck"

def opAnalyze (fs : List String) : Option String := do
  let st ← parseSt fs
  some (showRes st (analyze st))

def bit (b : Bool) : String := if b then "1" else "0"

def opAnalyzeInv (fs : List String) : Option String := do
  let st ← parseSt fs
  let es := st.entries
  some s!"inv {bit (trailInv es st.lvl)} {bit (reasonsCnf es)} {bit (decisionsOk es st.lvl)} {bit (conflOk es st.lvl st.confl.lits)}"

def opPbExplains (fs : List String) : Option String := do
  let [x, d, ts, fl] := fs | none
  let [x] ← parseInts x | none
  let [d] ← parseInts d | none
  let ts ← parseTerms ts
  let fl ← parseInts fl
  some (bit (pbExplains (fun l => fl.contains l) (if x = 0 then [] else [x]) ⟨ts, d⟩))

def table : List (String × (List String → Option String)) :=
  [("analyze", opAnalyze), ("analyze_inv", opAnalyzeInv), ("pb_explains", opPbExplains)]

end GS.OpsAnalyze
