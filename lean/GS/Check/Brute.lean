import GS.Spec.Basic
/-!
# GS.Check.Brute — exhaustive oracles, proved equal to the spec

`bruteSat`, `bruteOpt`, `bruteCount`, `bruteModels`, `entailsB`, `isMUSB` enumerate the
`2^n` boolean lists of length `n`. The theorems say that, for problems whose literals lie
in `1..n`, these decide exactly `Satisfiable`, `IsOptimum`, … over *all* total assignments.
-/
namespace GS

/-! ### evaluation depends only on the variables mentioned -/

theorem litTrue_congr (a b : Asg) (n : Nat) (h : ∀ v, 1 ≤ v → v ≤ n → a v = b v)
    (l : Int) (hl : litOk n l = true) : litTrue a l = litTrue b l := by
  unfold litOk at hl
  simp at hl
  have hv : 1 ≤ l.natAbs := by have := hl.1; omega
  unfold litTrue
  rw [h l.natAbs hv hl.2]

theorem lhs_congr (a b : Asg) (n : Nat) (h : ∀ v, 1 ≤ v → v ≤ n → a v = b v) :
    ∀ ts : List (Int × Int), termsWf n ts = true → lhs a ts = lhs b ts := by
  intro ts
  induction ts with
  | nil => intro _; rfl
  | cons t ts ih =>
    intro hw
    unfold termsWf at hw
    simp only [List.all_cons, Bool.and_eq_true] at hw
    have := litTrue_congr a b n h t.2 hw.1
    simp only [lhs, termVal, this]
    rw [ih (by unfold termsWf; exact hw.2)]

theorem Lin.holds_congr (a b : Asg) (n : Nat) (h : ∀ v, 1 ≤ v → v ≤ n → a v = b v)
    (c : Lin) (hw : c.wf n = true) : c.holds a = c.holds b := by
  unfold Lin.holds
  rw [lhs_congr a b n h c.terms hw]

theorem Problem.holds_congr (a b : Asg) (n : Nat) (h : ∀ v, 1 ≤ v → v ≤ n → a v = b v) :
    ∀ p : Problem, p.wf n = true → Problem.holds a p = Problem.holds b p := by
  intro p
  induction p with
  | nil => intro _; rfl
  | cons c p ih =>
    intro hw
    unfold Problem.wf at hw
    simp only [List.all_cons, Bool.and_eq_true] at hw
    simp only [Problem.holds, List.all_cons]
    rw [Lin.holds_congr a b n h c hw.1]
    have := ih (by unfold Problem.wf; exact hw.2)
    unfold Problem.holds at this
    rw [this]

theorem clauseTrue_congr (a b : Asg) (n : Nat) (h : ∀ v, 1 ≤ v → v ≤ n → a v = b v) :
    ∀ c : List Int, clauseWf n c = true → clauseTrue a c = clauseTrue b c := by
  intro c
  induction c with
  | nil => intro _; rfl
  | cons l c ih =>
    intro hw
    unfold clauseWf at hw
    simp only [List.all_cons, Bool.and_eq_true] at hw
    simp only [clauseTrue, List.any_cons]
    rw [litTrue_congr a b n h l hw.1]
    have := ih (by unfold clauseWf; exact hw.2)
    unfold clauseTrue at this
    rw [this]

theorem cnfTrue_congr (a b : Asg) (n : Nat) (h : ∀ v, 1 ≤ v → v ≤ n → a v = b v) :
    ∀ f : List (List Int), cnfWf n f = true → cnfTrue a f = cnfTrue b f := by
  intro f
  induction f with
  | nil => intro _; rfl
  | cons c f ih =>
    intro hw
    unfold cnfWf at hw
    simp only [List.all_cons, Bool.and_eq_true] at hw
    simp only [cnfTrue, List.all_cons]
    rw [clauseTrue_congr a b n h c hw.1]
    have := ih (by unfold cnfWf; exact hw.2)
    unfold cnfTrue at this
    rw [this]

/-! ### `leaves n` is exactly the boolean lists of length `n`, without repetition -/

theorem mem_leaves : ∀ (n : Nat) (bs : List Bool), bs ∈ leaves n ↔ bs.length = n := by
  intro n
  induction n with
  | zero =>
    intro bs
    simp [leaves]
  | succ n ih =>
    intro bs
    simp only [leaves, List.mem_append, List.mem_map]
    constructor
    · rintro (⟨cs, hcs, h⟩ | ⟨cs, hcs, h⟩) <;> subst h <;> simp [(ih cs).1 hcs]
    · intro hl
      cases bs with
      | nil => simp at hl
      | cons b bs =>
        simp at hl
        cases b
        · exact Or.inl ⟨bs, (ih bs).2 hl, rfl⟩
        · exact Or.inr ⟨bs, (ih bs).2 hl, rfl⟩

theorem leaves_nodup : ∀ n : Nat, (leaves n).Nodup := by
  intro n
  induction n with
  | zero => simp [leaves]
  | succ n ih =>
    simp only [leaves]
    unfold List.Nodup at *
    rw [List.pairwise_append]
    refine ⟨?_, ?_, ?_⟩
    · exact List.Pairwise.map _ (fun a b h => by simpa using h) ih
    · exact List.Pairwise.map _ (fun a b h => by simpa using h) ih
    · intro a ha b hb
      simp only [List.mem_map] at ha hb
      obtain ⟨x, _, rfl⟩ := ha
      obtain ⟨y, _, rfl⟩ := hb
      simp

theorem restrict_length (a : Asg) : ∀ (n k : Nat), (restrict a k n).length = n := by
  intro n
  induction n with
  | zero => intro k; rfl
  | succ n ih => intro k; simp [restrict, ih]

theorem restrict_getD (a : Asg) : ∀ (n k i : Nat), i < n → (restrict a k n).getD i false = a (k + i) := by
  intro n
  induction n with
  | zero => intro k i h; omega
  | succ n ih =>
    intro k i h
    cases i with
    | zero => simp [restrict]
    | succ i =>
      simp only [restrict, List.getD_cons_succ]
      rw [ih (k+1) i (by omega)]
      congr 1; omega

theorem asgOf_restrict (a : Asg) (n v : Nat) (h1 : 1 ≤ v) (h2 : v ≤ n) :
    asgOf (restrict a 1 n) v = a v := by
  cases v with
  | zero => omega
  | succ v =>
    simp only [asgOf]
    rw [restrict_getD a n 1 v (by omega)]
    congr 1; omega

theorem restrict_mem_leaves (a : Asg) (n : Nat) : restrict a 1 n ∈ leaves n :=
  (mem_leaves n _).2 (restrict_length a n 1)

/-! ### satisfiability -/

def bruteSat (n : Nat) (p : Problem) : Bool :=
  (leaves n).any (fun bs => Problem.holds (asgOf bs) p)

theorem bruteSat_iff (n : Nat) (p : Problem) (hw : p.wf n = true) :
    bruteSat n p = true ↔ Satisfiable p := by
  unfold bruteSat Satisfiable
  rw [List.any_eq_true]
  constructor
  · rintro ⟨bs, _, h⟩; exact ⟨asgOf bs, h⟩
  · rintro ⟨a, h⟩
    refine ⟨restrict a 1 n, restrict_mem_leaves a n, ?_⟩
    rw [Problem.holds_congr (asgOf (restrict a 1 n)) a n (fun v h1 h2 => asgOf_restrict a n v h1 h2) p hw]
    exact h

/-- First satisfying boolean list, if any (used to exhibit a witness in replays). -/
def bruteWitness (n : Nat) (p : Problem) : Option (List Bool) :=
  (leaves n).find? (fun bs => Problem.holds (asgOf bs) p)

def bruteCnfSat (n : Nat) (f : List (List Int)) : Bool :=
  (leaves n).any (fun bs => cnfTrue (asgOf bs) f)

theorem bruteCnfSat_iff (n : Nat) (f : List (List Int)) (hw : cnfWf n f = true) :
    bruteCnfSat n f = true ↔ CnfSat f := by
  unfold bruteCnfSat CnfSat
  rw [List.any_eq_true]
  constructor
  · rintro ⟨bs, _, h⟩; exact ⟨asgOf bs, h⟩
  · rintro ⟨a, h⟩
    refine ⟨restrict a 1 n, restrict_mem_leaves a n, ?_⟩
    rw [cnfTrue_congr (asgOf (restrict a 1 n)) a n (fun v h1 h2 => asgOf_restrict a n v h1 h2) f hw]
    exact h

/-! ### entailment of a clause by a CNF, of a constraint by a problem -/

def entailsB (n : Nat) (p : Problem) (c : Lin) : Bool :=
  (leaves n).all (fun bs => !Problem.holds (asgOf bs) p || c.holds (asgOf bs))

theorem entailsB_iff (n : Nat) (p : Problem) (c : Lin) (hp : p.wf n = true) (hc : c.wf n = true) :
    entailsB n p c = true ↔ Entails p c := by
  unfold entailsB Entails
  rw [List.all_eq_true]
  constructor
  · intro h a ha
    have hag := fun v h1 h2 => asgOf_restrict a n v h1 h2
    have := h (restrict a 1 n) (restrict_mem_leaves a n)
    rw [Problem.holds_congr _ a n hag p hp, Lin.holds_congr _ a n hag c hc, ha] at this
    simpa using this
  · intro h bs _
    cases hh : Problem.holds (asgOf bs) p with
    | false => simp
    | true => simp [h _ hh]

/-! ### optimisation -/

/-- Minimum of `g` over a list, `none` if the list is empty. -/
def minOver (g : List Bool → Int) : List (List Bool) → Option Int
  | [] => none
  | bs :: rest =>
    match minOver g rest with
    | none => some (g bs)
    | some m => some (if g bs < m then g bs else m)

theorem minOver_none (g) : ∀ l, minOver g l = none ↔ l = [] := by
  intro l
  cases l with
  | nil => simp [minOver]
  | cons b l =>
    simp only [minOver]
    split <;> simp

theorem minOver_some (g) : ∀ (l : List (List Bool)) (m : Int), minOver g l = some m →
    (∃ bs ∈ l, g bs = m) ∧ ∀ bs ∈ l, m ≤ g bs := by
  intro l
  induction l with
  | nil => intro m h; simp [minOver] at h
  | cons b l ih =>
    intro m h
    simp only [minOver] at h
    split at h
    · rename_i hn
      have hl : l = [] := (minOver_none g l).1 hn
      subst hl
      simp at h
      subst h
      simp
    · rename_i m' hs
      have := ih m' hs
      simp at h
      obtain ⟨⟨w, hw, hwc⟩, hmin⟩ := this
      by_cases hlt : g b < m'
      · simp [hlt] at h
        subst h
        refine ⟨⟨b, by simp, rfl⟩, ?_⟩
        intro bs hbs
        simp at hbs
        rcases hbs with rfl | hbs
        · omega
        · have := hmin bs hbs; omega
      · simp [hlt] at h
        subst h
        refine ⟨⟨w, by simp [hw], hwc⟩, ?_⟩
        intro bs hbs
        simp at hbs
        rcases hbs with rfl | hbs
        · omega
        · exact hmin bs hbs

/-- Minimum of the cost over the satisfying boolean lists, `none` if there is none. -/
def minCost (f : List (Int × Int)) : List (List Bool) → Option Int :=
  minOver (fun bs => cost f (asgOf bs))

def bruteOpt (n : Nat) (p : Problem) (f : List (Int × Int)) : Option Int :=
  minCost f (modelsOver n p)

theorem minCost_none (f) : ∀ l, minCost f l = none ↔ l = [] := minOver_none _

theorem minCost_some (f) : ∀ (l : List (List Bool)) (m : Int), minCost f l = some m →
    (∃ bs ∈ l, cost f (asgOf bs) = m) ∧ ∀ bs ∈ l, m ≤ cost f (asgOf bs) := minOver_some _

theorem mem_modelsOver (n : Nat) (p : Problem) (bs : List Bool) :
    bs ∈ modelsOver n p ↔ bs.length = n ∧ Problem.holds (asgOf bs) p = true := by
  unfold modelsOver
  rw [List.mem_filter, mem_leaves]

theorem bruteOpt_none (n : Nat) (p : Problem) (f) (hw : p.wf n = true) :
    bruteOpt n p f = none ↔ ¬ Satisfiable p := by
  unfold bruteOpt
  rw [minCost_none, ← bruteSat_iff n p hw]
  unfold modelsOver bruteSat
  rw [List.filter_eq_nil_iff, List.any_eq_true]
  constructor
  · intro h ⟨bs, hm, hh⟩; exact h bs hm hh
  · intro h bs hm hh; exact h ⟨bs, hm, hh⟩

theorem bruteOpt_some (n : Nat) (p : Problem) (f) (m : Int) (hw : p.wf n = true)
    (hf : termsWf n f = true) (h : bruteOpt n p f = some m) :
    ∃ a, IsOptimum p f a ∧ cost f a = m := by
  unfold bruteOpt at h
  obtain ⟨⟨bs, hbs, hc⟩, hmin⟩ := minCost_some f _ m h
  rw [mem_modelsOver] at hbs
  refine ⟨asgOf bs, ⟨hbs.2, ?_⟩, hc⟩
  intro b hb
  have hag := fun v h1 h2 => asgOf_restrict b n v h1 h2
  have hmem : restrict b 1 n ∈ modelsOver n p := by
    rw [mem_modelsOver]
    refine ⟨restrict_length b n 1, ?_⟩
    rw [Problem.holds_congr _ b n hag p hw]; exact hb
  have := hmin _ hmem
  unfold cost at this hc ⊢
  rw [lhs_congr _ b n hag f hf] at this
  omega

/-- Every optimum has the cost `bruteOpt` reports. -/
theorem bruteOpt_unique (n : Nat) (p : Problem) (f) (m : Int) (hw : p.wf n = true)
    (hf : termsWf n f = true) (h : bruteOpt n p f = some m) (a : Asg) (ha : IsOptimum p f a) :
    cost f a = m := by
  obtain ⟨b, hb, hbc⟩ := bruteOpt_some n p f m hw hf h
  have h1 := ha.2 b hb.1
  have h2 := hb.2 a ha.1
  omega

/-! ### counting -/

def bruteCount (n : Nat) (p : Problem) : Nat := countOver n p

theorem modelsOver_nodup (n : Nat) (p : Problem) : (modelsOver n p).Nodup :=
  List.Pairwise.filter _ (leaves_nodup n)

/-! ### MUS over CNF -/

def isMUSB (n : Nat) (m : List (List Int)) : Bool :=
  !bruteCnfSat n m && (List.range m.length).all (fun i => bruteCnfSat n (dropNth m i))

theorem cnfWf_dropNth (n : Nat) (m : List (List Int)) (i : Nat) (h : cnfWf n m = true) :
    cnfWf n (dropNth m i) = true := by
  unfold cnfWf dropNth at *
  rw [List.all_eq_true] at h ⊢
  intro c hc
  rw [List.mem_append] at hc
  rcases hc with hc | hc
  · exact h c (List.mem_of_mem_take hc)
  · exact h c (List.mem_of_mem_drop hc)

theorem isMUSB_iff (n : Nat) (m : List (List Int)) (hw : cnfWf n m = true) :
    isMUSB n m = true ↔ IsMUS m := by
  unfold isMUSB IsMUS
  simp only [Bool.and_eq_true, Bool.not_eq_true', List.all_eq_true, List.mem_range]
  constructor
  · rintro ⟨h1, h2⟩
    refine ⟨?_, ?_⟩
    · intro hs
      have := (bruteCnfSat_iff n m hw).2 hs
      rw [h1] at this; cases this
    · intro i hi
      exact (bruteCnfSat_iff n _ (cnfWf_dropNth n m i hw)).1 (h2 i hi)
  · rintro ⟨h1, h2⟩
    refine ⟨?_, ?_⟩
    · cases hb : bruteCnfSat n m with
      | false => rfl
      | true => exact absurd ((bruteCnfSat_iff n m hw).1 hb) h1
    · intro i hi
      exact (bruteCnfSat_iff n _ (cnfWf_dropNth n m i hw)).2 (h2 i hi)

end GS
