import GS.Spec.MaxSat
import GS.Check.Brute
/-! # Exhaustive MaxSAT oracle, proved equal to the spec -/
namespace GS

theorem violated_congr (a b : Asg) (n : Nat) (h : ∀ v, 1 ≤ v → v ≤ n → a v = b v) :
    ∀ ss : List Soft, softWf n ss = true → violated a ss = violated b ss := by
  intro ss
  induction ss with
  | nil => intro _; rfl
  | cons s ss ih =>
    intro hw
    unfold softWf at hw
    simp only [List.all_cons, Bool.and_eq_true] at hw
    simp only [violated]
    rw [Lin.holds_congr a b n h s.c hw.1, ih (by unfold softWf; exact hw.2)]

def bruteMaxSat (n : Nat) (hard : Problem) (soft : List Soft) : Option Int :=
  minOver (fun bs => violated (asgOf bs) soft) (modelsOver n hard)

theorem bruteMaxSat_none (n : Nat) (hard : Problem) (soft : List Soft) (hw : hard.wf n = true) :
    bruteMaxSat n hard soft = none ↔ ¬ Satisfiable hard := by
  unfold bruteMaxSat
  rw [minOver_none, ← bruteSat_iff n hard hw]
  unfold modelsOver bruteSat
  rw [List.filter_eq_nil_iff, List.any_eq_true]
  constructor
  · intro h ⟨bs, hm, hh⟩; exact h bs hm hh
  · intro h bs hm hh; exact h ⟨bs, hm, hh⟩

theorem bruteMaxSat_some (n : Nat) (hard : Problem) (soft : List Soft) (m : Int)
    (hw : hard.wf n = true) (hs : softWf n soft = true) (h : bruteMaxSat n hard soft = some m) :
    ∃ a, IsMaxSatOpt hard soft a ∧ violated a soft = m := by
  unfold bruteMaxSat at h
  obtain ⟨⟨bs, hbs, hc⟩, hmin⟩ := minOver_some _ _ m h
  rw [mem_modelsOver] at hbs
  refine ⟨asgOf bs, ⟨hbs.2, ?_⟩, hc⟩
  intro b hb
  have hag := fun v h1 h2 => asgOf_restrict b n v h1 h2
  have hmem : restrict b 1 n ∈ modelsOver n hard := by
    rw [mem_modelsOver]
    refine ⟨restrict_length b n 1, ?_⟩
    rw [Problem.holds_congr _ b n hag hard hw]; exact hb
  have := hmin _ hmem
  rw [violated_congr _ b n hag soft hs] at this
  omega

/-- Every optimal assignment violates exactly the weight the oracle reports. -/
theorem bruteMaxSat_unique (n : Nat) (hard : Problem) (soft : List Soft) (m : Int)
    (hw : hard.wf n = true) (hs : softWf n soft = true) (h : bruteMaxSat n hard soft = some m)
    (a : Asg) (ha : IsMaxSatOpt hard soft a) : violated a soft = m := by
  obtain ⟨b, hb, hbc⟩ := bruteMaxSat_some n hard soft m hw hs h
  have h1 := ha.2 b hb.1
  have h2 := hb.2 a ha.1
  omega

end GS
