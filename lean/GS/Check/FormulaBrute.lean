import GS.Spec.Formula
import GS.Check.Brute
/-!
# Truth-table oracle for formulas over names `0..k-1`, and the comparison of a CNF export
with the formula it came from (C11, C12).
-/
namespace GS

/-- assignment of names `0..` from a boolean list -/
def nameAsg (bs : List Bool) : Nat → Bool := fun i => bs.getD i false

/-- satisfying assignments of `f` over names `0..k-1` -/
def sfModels (k : Nat) (f : SF) : List (List Bool) := (leaves k).filter (fun bs => SF.eval (nameAsg bs) f)

def sfSat (k : Nat) (f : SF) : Bool := (leaves k).any (fun bs => SF.eval (nameAsg bs) f)

/-- restriction of a CNF model (over variables `1..n`) to the named variables: name `i` is
    CNF variable `idx[i]` (0 = the name does not occur in the export: unconstrained). -/
def project (idx : List Nat) (m : List Bool) : List (Option Bool) :=
  idx.map (fun v => if v = 0 then none else some (asgOf m v))

/-- a name assignment is compatible with a projected CNF model -/
def compatible (bs : List Bool) (p : List (Option Bool)) : Bool :=
  (bs.zip p).all (fun (b, o) => match o with | none => true | some c => b == c)

/-- Both directions of C12 over the whole truth table:
    every formula model extends to a model of the export, and every model of the export
    restricts to formula models (for every value of the names it leaves unconstrained). -/
def exportEquiv (k : Nat) (f : SF) (idx : List Nat) (n : Nat) (cnf : List (List Int)) : Bool :=
  let cms := (leaves n).filter (fun m => cnfTrue (asgOf m) cnf)
  let projs := cms.map (project idx)
  (leaves k).all (fun bs =>
    let isModel := SF.eval (nameAsg bs) f
    let covered := projs.any (compatible bs)
    isModel == covered)

end GS
