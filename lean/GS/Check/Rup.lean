import GS.Spec.Basic
/-!
# GS.Check.Rup — array-based unit propagation and a RUP checker, with soundness proofs

This is the checker that "shares no code with the solver" (C06): bindings are an
`Array Int` indexed by variable (0 unbound, 1 true, -1 false), clauses are scanned for
conflict / unit until a fix-point (fuel-bounded), a line is RUP when propagating the
negation of its literals reaches a conflict.  Also the verified core that the mirror of
`explain.(*Problem).unsat` (C08) is compared against.
-/
namespace GS

/-- value of a binding array at variable v (1-based); out of range = unbound -/
def bind (u : Array Int) (v : Nat) : Int := (u[v - 1]?).getD 0

def Agrees (u : Array Int) (a : Asg) : Prop :=
  ∀ v, 0 < v → (bind u v = 1 → a v = true) ∧ (bind u v = -1 → a v = false)

inductive Scan | sat | conflict | unit (l : Int) | many
deriving Repr, DecidableEq

/-- scan one clause: `unb` = number of unbound literals met so far (0 or 1), `ul` the first one -/
def scan (u : Array Int) : List Int → Nat → Int → Scan
  | [], 0, _ => .conflict
  | [], _+1, ul => .unit ul
  | l :: rest, unb, ul =>
    let b := bind u l.natAbs
    if b = 0 then
      if unb = 0 then scan u rest 1 l else if l = ul then scan u rest unb ul else .many
    else if b * l = (l.natAbs : Int) then .sat
    else scan u rest unb ul

def setLit (u : Array Int) (l : Int) : Array Int :=
  u.setIfInBounds (l.natAbs - 1) (if l > 0 then 1 else -1)

/-- one pass over all clauses; returns (bindings, conflict?, modified?) -/
def pass (u : Array Int) : List (List Int) → Bool → Array Int × Bool × Bool
  | [], m => (u, false, m)
  | c :: cs, m =>
    match scan u c 0 0 with
    | .conflict => (u, true, m)
    | .unit l => pass (setLit u l) cs true
    | _ => pass u cs m

def fix (f : List (List Int)) : Nat → Array Int → Bool
  | 0, _ => false
  | fuel+1, u =>
    match pass u f false with
    | (_, true, _) => true
    | (u', false, true) => fix f fuel u'
    | (_, false, false) => false


theorem bind_setLit_same (u : Array Int) (l : Int) (hl : l ≠ 0) (hb : l.natAbs - 1 < u.size) :
    bind (setLit u l) l.natAbs = (if l > 0 then 1 else -1) := by
  unfold bind setLit
  simp [Array.getElem?_setIfInBounds, hb]

theorem bind_setLit_other (u : Array Int) (l : Int) (v : Nat) (hv : 0 < v) (hl : l ≠ 0) (hne : v ≠ l.natAbs) :
    bind (setLit u l) v = bind u v := by
  unfold bind setLit
  have hpos : 0 < l.natAbs := Int.natAbs_pos.mpr hl
  have : l.natAbs - 1 ≠ v - 1 := by omega
  simp [Array.getElem?_setIfInBounds, this]

/-- A literal whose variable is bound and not "sat" is false under agreeing assignments. -/
theorem litFalse_of_bound (u : Array Int) (a : Asg) (h : Agrees u a) (l : Int) (hl : l ≠ 0)
    (hb1 : bind u l.natAbs = 1 ∨ bind u l.natAbs = -1)
    (hne : bind u l.natAbs * l ≠ (l.natAbs : Int)) : litTrue a l = false := by
  have hpos : 0 < l.natAbs := Int.natAbs_pos.mpr hl
  have := h l.natAbs hpos
  unfold litTrue
  rcases hb1 with hv | hv
  · rw [hv] at hne
    have hneg : ¬ l > 0 := by omega
    simp [hneg, this.1 hv]
  · rw [hv] at hne
    have hp : l > 0 := by omega
    simp [hp, this.2 hv]


/-- bindings only ever hold 0, 1 or -1 -/
def WF (u : Array Int) : Prop := ∀ v, bind u v = 0 ∨ bind u v = 1 ∨ bind u v = -1

/-- with one unbound literal `ul` already seen, the scan never reports a conflict, and if it
    reports a unit it is `ul` and every remaining literal is false or a repetition of `ul`. -/
theorem scan_one (u : Array Int) (a : Asg) (hwf : WF u) (h : Agrees u a) :
    ∀ (c : List Int) (n : Nat) (ul : Int), (∀ l ∈ c, l ≠ 0) →
      scan u c (n+1) ul ≠ .conflict ∧
      (∀ l, scan u c (n+1) ul = .unit l → l = ul ∧ (clauseTrue a c = true → litTrue a ul = true)) := by
  intro c
  induction c with
  | nil => intro n ul _; simp [scan, clauseTrue]
  | cons x xs ih =>
    intro n ul hnz
    have hx : x ≠ 0 := hnz x (by simp)
    have hxs : ∀ l ∈ xs, l ≠ 0 := fun l hl => hnz l (by simp [hl])
    unfold scan
    simp only
    by_cases hb : bind u x.natAbs = 0
    · simp only [hb, if_true]
      have hn : ¬ (n + 1 = 0) := by omega
      simp only [hn, if_false]
      by_cases he : x = ul
      · simp only [he, if_true]
        have := ih n ul hxs
        refine ⟨this.1, ?_⟩
        intro l hl
        have := this.2 l hl
        refine ⟨this.1, ?_⟩
        intro hct
        simp only [clauseTrue, List.any_cons, Bool.or_eq_true] at hct
        rcases hct with hct | hct
        · exact hct
        · exact this.2 (by unfold clauseTrue; exact hct)
      · simp [he]
    · simp only [hb, if_false]
      by_cases hs : bind u x.natAbs * x = (x.natAbs : Int)
      · simp [hs]
      · simp only [hs, if_false]
        have hbv : bind u x.natAbs = 1 ∨ bind u x.natAbs = -1 := by
          rcases hwf x.natAbs with h0 | h1 | h2
          · exact absurd h0 hb
          · exact Or.inl h1
          · exact Or.inr h2
        have hf := litFalse_of_bound u a h x hx hbv hs
        have := ih n ul hxs
        refine ⟨this.1, ?_⟩
        intro l hl
        have := this.2 l hl
        refine ⟨this.1, ?_⟩
        intro hct
        apply this.2
        simp only [clauseTrue, List.any_cons, hf, Bool.false_or] at hct
        unfold clauseTrue; exact hct

theorem scan_zero (u : Array Int) (a : Asg) (hwf : WF u) (h : Agrees u a) :
    ∀ (c : List Int) (ul : Int), (∀ l ∈ c, l ≠ 0) →
      (scan u c 0 ul = .conflict → clauseTrue a c = false) ∧
      (∀ l, scan u c 0 ul = .unit l → l ≠ 0 ∧ bind u l.natAbs = 0 ∧ (clauseTrue a c = true → litTrue a l = true)) := by
  intro c
  induction c with
  | nil => intro ul _; simp [scan, clauseTrue]
  | cons x xs ih =>
    intro ul hnz
    have hx : x ≠ 0 := hnz x (by simp)
    have hxs : ∀ l ∈ xs, l ≠ 0 := fun l hl => hnz l (by simp [hl])
    unfold scan
    simp only
    by_cases hb : bind u x.natAbs = 0
    · simp only [hb, if_true]
      have h1 := scan_one u a hwf h xs 0 x hxs
      refine ⟨fun hc => absurd hc h1.1, ?_⟩
      intro l hl
      have := h1.2 l hl
      refine ⟨this.1 ▸ hx, this.1 ▸ hb, ?_⟩
      intro hct
      simp only [clauseTrue, List.any_cons, Bool.or_eq_true] at hct
      rcases hct with hct | hct
      · rw [this.1]; exact hct
      · rw [this.1]; exact this.2 (by unfold clauseTrue; exact hct)
    · simp only [hb, if_false]
      by_cases hs : bind u x.natAbs * x = (x.natAbs : Int)
      · simp [hs]
      · simp only [hs, if_false]
        have hbv : bind u x.natAbs = 1 ∨ bind u x.natAbs = -1 := by
          rcases hwf x.natAbs with h0 | h1 | h2
          · exact absurd h0 hb
          · exact Or.inl h1
          · exact Or.inr h2
        have hf := litFalse_of_bound u a h x hx hbv hs
        have := ih ul hxs
        refine ⟨?_, ?_⟩
        · intro hc; have := this.1 hc; simp [clauseTrue, hf] at *; exact this
        · intro l hl
          have := this.2 l hl
          refine ⟨this.1, this.2.1, ?_⟩
          intro hct
          apply this.2.2
          simp [clauseTrue, hf] at *
          exact hct


theorem bind_setLit (u : Array Int) (l : Int) (hl : l ≠ 0) (v : Nat) (hv : 0 < v) :
    bind (setLit u l) v = bind u v ∨ (v = l.natAbs ∧ bind (setLit u l) v = (if l > 0 then 1 else -1)) := by
  by_cases hne : v = l.natAbs
  · subst hne
    by_cases hb : l.natAbs - 1 < u.size
    · exact Or.inr ⟨rfl, bind_setLit_same u l hl hb⟩
    · left
      unfold bind setLit
      simp [Array.getElem?_setIfInBounds, hb]
  · exact Or.inl (bind_setLit_other u l v hv hl hne)

theorem wf_setLit (u : Array Int) (l : Int) (hl : l ≠ 0) (hwf : WF u) : WF (setLit u l) := by
  intro v
  by_cases hv : 0 < v
  · rcases bind_setLit u l hl v hv with h | ⟨_, h⟩
    · rw [h]; exact hwf v
    · rw [h]; split <;> simp
  · have : v = 0 := by omega
    subst this
    -- v = 0 reads index 0 - 1 = 0; treat generically
    unfold bind setLit
    simp only [Array.getElem?_setIfInBounds]
    split
    · split
      · split <;> simp
      · simp
    · exact hwf 0

theorem agrees_setLit (u : Array Int) (a : Asg) (l : Int) (hl : l ≠ 0) (h : Agrees u a)
    (ht : litTrue a l = true) : Agrees (setLit u l) a := by
  intro v hv
  rcases bind_setLit u l hl v hv with hb | ⟨hvl, hb⟩
  · rw [hb]; exact h v hv
  · rw [hb]
    unfold litTrue at ht
    subst hvl
    by_cases hp : l > 0
    · simp [hp] at ht ⊢; exact ht
    · simp [hp] at ht ⊢; exact ht

theorem pass_sound (a : Asg) : ∀ (f : List (List Int)) (u : Array Int) (m : Bool),
    WF u → Agrees u a → cnfTrue a f = true → (∀ c ∈ f, ∀ l ∈ c, l ≠ 0) →
    (pass u f m).2.1 = false ∧ WF (pass u f m).1 ∧ Agrees (pass u f m).1 a := by
  intro f
  induction f with
  | nil => intro u m hwf h _ _; simp [pass, hwf, h]
  | cons c cs ih =>
    intro u m hwf h ht hnz
    have hc : clauseTrue a c = true := by simp [cnfTrue] at ht; exact ht.1
    have hcs : cnfTrue a cs = true := by simp [cnfTrue] at ht ⊢; exact ht.2
    have hnzc : ∀ l ∈ c, l ≠ 0 := hnz c (by simp)
    have hnzcs : ∀ c' ∈ cs, ∀ l ∈ c', l ≠ 0 := fun c' hc' => hnz c' (by simp [hc'])
    have hz := scan_zero u a hwf h c 0 hnzc
    unfold pass
    split
    · rename_i hs
      have := hz.1 hs
      simp [hc] at this
    · rename_i l hs
      have := hz.2 l hs
      exact ih (setLit u l) true (wf_setLit u l this.1 hwf) (agrees_setLit u a l this.1 h (this.2.2 hc)) hcs hnzcs
    · exact ih u m hwf h hcs hnzcs

theorem fix_sound (a : Asg) (f : List (List Int)) (hnz : ∀ c ∈ f, ∀ l ∈ c, l ≠ 0) :
    ∀ (fuel : Nat) (u : Array Int), WF u → Agrees u a → cnfTrue a f = true → fix f fuel u = false := by
  intro fuel
  induction fuel with
  | zero => intro u _ _ _; simp [fix]
  | succ n ih =>
    intro u hwf h ht
    have hp := pass_sound a f u false hwf h ht hnz
    unfold fix
    split
    · rename_i heq; rw [heq] at hp; simp at hp
    · rename_i u' heq; rw [heq] at hp; exact ih u' hp.2.1 hp.2.2 ht
    · rfl

/-- Soundness: if propagation from bindings that every model of `f` must agree with reaches a
    conflict, `f` has no model (agreeing with `u`). -/
theorem fix_conflict_unsat (f : List (List Int)) (hnz : ∀ c ∈ f, ∀ l ∈ c, l ≠ 0)
    (fuel : Nat) (u : Array Int) (hwf : WF u) (hc : fix f fuel u = true) :
    ¬ ∃ a, Agrees u a ∧ cnfTrue a f = true := by
  rintro ⟨a, ha, hf⟩
  have := fix_sound a f hnz fuel u hwf ha hf
  rw [this] at hc; cases hc


/-! ### top-level refutation and RUP lines -/

/-- all literals non-zero -/
def cnfNz (f : List (List Int)) : Bool := f.all (fun c => c.all (· != 0))

theorem cnfNz_spec (f : List (List Int)) (h : cnfNz f = true) : ∀ c ∈ f, ∀ l ∈ c, l ≠ 0 := by
  intro c hc l hl
  unfold cnfNz at h
  rw [List.all_eq_true] at h
  have := h c hc
  rw [List.all_eq_true] at this
  simpa using this l hl

def emptyBind (n : Nat) : Array Int := Array.replicate n 0

theorem wf_empty (n : Nat) : WF (emptyBind n) := by
  intro v
  left
  unfold bind emptyBind
  simp [Array.getElem?_replicate]
  split <;> rfl

theorem agrees_empty (n : Nat) (a : Asg) : Agrees (emptyBind n) a := by
  intro v _
  have : bind (emptyBind n) v = 0 := by
    unfold bind emptyBind
    simp [Array.getElem?_replicate]
    split <;> rfl
  rw [this]; simp

/-- Unit propagation alone refutes `f` (over bindings for variables `1..n`). -/
def upRefute (n : Nat) (f : List (List Int)) : Bool := cnfNz f && fix f (n + 2) (emptyBind n)

theorem upRefute_sound (n : Nat) (f : List (List Int)) (h : upRefute n f = true) : ¬ CnfSat f := by
  unfold upRefute at h
  simp only [Bool.and_eq_true] at h
  rintro ⟨a, ha⟩
  exact fix_conflict_unsat f (cnfNz_spec f h.1) (n+2) (emptyBind n) (wf_empty n) h.2
    ⟨a, agrees_empty n a, ha⟩

/-- Install the negation of every literal of `c`; `none` when some literal of `c` is already
    true under the bindings (then `c` is trivially implied, e.g. a tautological line). -/
def assumeNeg (u : Array Int) : List Int → Option (Array Int)
  | [] => some u
  | l :: rest =>
    if l = 0 then none
    else if bind u l.natAbs * l = (l.natAbs : Int) then none
    else assumeNeg (setLit u (-l)) rest

theorem assumeNeg_agrees (a : Asg) : ∀ (c : List Int) (u u' : Array Int), WF u → Agrees u a →
    clauseTrue a c = false → (∀ l ∈ c, l ≠ 0) → assumeNeg u c = some u' → WF u' ∧ Agrees u' a := by
  intro c
  induction c with
  | nil => intro u u' hwf hag _ _ h; simp [assumeNeg] at h; subst h; exact ⟨hwf, hag⟩
  | cons l c ih =>
    intro u u' hwf hag hf hnz h
    have hl : l ≠ 0 := hnz l (by simp)
    simp only [clauseTrue, List.any_cons, Bool.or_eq_false_iff] at hf
    unfold assumeNeg at h
    simp only [hl, if_false] at h
    split at h
    · cases h
    · have hnl : -l ≠ 0 := by omega
      have ht : litTrue a (-l) = true := by rw [litTrue_neg a l hl, hf.1]; rfl
      exact ih (setLit u (-l)) u' (wf_setLit u (-l) hnl hwf) (agrees_setLit u a (-l) hnl hag ht)
        (by unfold clauseTrue; exact hf.2) (fun x hx => hnz x (by simp [hx])) h

theorem assumeNeg_none (a : Asg) : ∀ (c : List Int) (u : Array Int), WF u → Agrees u a →
    (∀ l ∈ c, l ≠ 0) → assumeNeg u c = none → clauseTrue a c = true := by
  intro c
  induction c with
  | nil => intro u _ _ _ h; simp [assumeNeg] at h
  | cons l c ih =>
    intro u hwf hag hnz h
    have hl : l ≠ 0 := hnz l (by simp)
    unfold assumeNeg at h
    simp only [hl, if_false] at h
    simp only [clauseTrue, List.any_cons, Bool.or_eq_true]
    cases hlt : litTrue a l with
    | true => exact Or.inl rfl
    | false =>
      right
      split at h
      · rename_i hb
        -- the binding makes l true, so a makes l true: contradiction
        exfalso
        have hpos : 0 < l.natAbs := Int.natAbs_pos.mpr hl
        have hA := hag l.natAbs hpos
        rcases hwf l.natAbs with h0 | h1 | h2
        · rw [h0] at hb; omega
        · rw [h1] at hb
          have hp : l > 0 := by omega
          have := hA.1 h1
          unfold litTrue at hlt; simp [hp, this] at hlt
        · rw [h2] at hb
          have hp : ¬ l > 0 := by omega
          have := hA.2 h2
          unfold litTrue at hlt; simp [hp, this] at hlt
      · have hnl : -l ≠ 0 := by omega
        have ht : litTrue a (-l) = true := by rw [litTrue_neg a l hl, hlt]; rfl
        have := ih (setLit u (-l)) (wf_setLit u (-l) hnl hwf) (agrees_setLit u a (-l) hnl hag ht)
          (fun x hx => hnz x (by simp [hx])) h
        unfold clauseTrue at this; exact this

/-- `c` follows from `f` by reverse unit propagation. -/
def rupLine (n : Nat) (f : List (List Int)) (c : List Int) : Bool :=
  cnfNz f && c.all (· != 0) &&
    match assumeNeg (emptyBind n) c with
    | none => true
    | some u => fix f (n + 2) u

theorem rupLine_sound (n : Nat) (f : List (List Int)) (c : List Int) (h : rupLine n f c = true) :
    CnfEntails f c := by
  unfold rupLine at h
  simp only [Bool.and_eq_true] at h
  obtain ⟨⟨hf, hc⟩, hm⟩ := h
  have hnzc : ∀ l ∈ c, l ≠ 0 := by
    rw [List.all_eq_true] at hc
    intro l hl; simpa using hc l hl
  intro a ha
  cases hct : clauseTrue a c with
  | true => rfl
  | false =>
    exfalso
    split at hm
    · rename_i hn
      have := assumeNeg_none a c (emptyBind n) (wf_empty n) (agrees_empty n a) hnzc hn
      rw [this] at hct; cases hct
    · rename_i u hs
      have := assumeNeg_agrees a c (emptyBind n) u (wf_empty n) (agrees_empty n a) hct hnzc hs
      exact fix_conflict_unsat f (cnfNz_spec f hf) (n+2) u this.1 hm ⟨a, this.2, ha⟩

/-- Check a certificate: every line must be RUP w.r.t. the formula plus the earlier lines.
    Returns the index of the first line that is not, or `none` if all are. -/
def rupFirstBad (n : Nat) : List (List Int) → List (List Int) → Nat → Option Nat
  | _, [], _ => none
  | db, c :: rest, i => if rupLine n db c then rupFirstBad n (c :: db) rest (i + 1) else some i

def rupValid (n : Nat) (f : List (List Int)) (lines : List (List Int)) : Bool :=
  (rupFirstBad n f lines 0).isNone

theorem cnfEntails_cons (f : List (List Int)) (c d : List Int)
    (hc : CnfEntails f c) (hd : CnfEntails (c :: f) d) : CnfEntails f d := by
  intro a ha
  apply hd a
  simp only [cnfTrue, List.all_cons, Bool.and_eq_true]
  exact ⟨hc a ha, ha⟩

theorem rupFirstBad_sound (n : Nat) (f : List (List Int)) :
    ∀ (lines db : List (List Int)) (i : Nat), (∀ d ∈ db, CnfEntails f d) →
      rupFirstBad n db lines i = none →
      (∀ c ∈ lines, CnfEntails f c) := by
  intro lines
  induction lines with
  | nil => intro db i _ _ c hc; cases hc
  | cons c rest ih =>
    intro db i hdb h
    unfold rupFirstBad at h
    split at h
    · rename_i hr
      have hc : CnfEntails f c := by
        intro a ha
        apply rupLine_sound n db c hr a
        unfold cnfTrue
        rw [List.all_eq_true]
        intro d hd
        exact hdb d hd a ha
      have := ih (c :: db) (i+1) (by
        intro d hd
        simp at hd
        rcases hd with rfl | hd
        · exact hc
        · exact hdb d hd) h
      intro x hx
      simp at hx
      rcases hx with rfl | hx
      · exact hc
      · exact this x hx
    · cases h

/-- **Soundness of the certificate checker**: every line of an accepted certificate is a
    logical consequence of the formula. -/
theorem rupValid_sound (n : Nat) (f : List (List Int)) (lines : List (List Int))
    (h : rupValid n f lines = true) : ∀ c ∈ lines, CnfEntails f c := by
  unfold rupValid at h
  have hn : rupFirstBad n f lines 0 = none := by
    cases hh : rupFirstBad n f lines 0 with
    | none => rfl
    | some k => rw [hh] at h; cases h
  exact rupFirstBad_sound n f lines f 0 (by
    intro d hd a ha
    unfold cnfTrue at ha
    rw [List.all_eq_true] at ha
    exact ha d hd) hn

/-- A certificate refutes `f`: all lines RUP in order and the empty clause derivable by
    unit propagation at the end. -/
def rupRefutes (n : Nat) (f : List (List Int)) (lines : List (List Int)) : Bool :=
  rupValid n f lines && upRefute n (lines.reverse ++ f)

theorem rupRefutes_sound (n : Nat) (f : List (List Int)) (lines : List (List Int))
    (h : rupRefutes n f lines = true) : ¬ CnfSat f := by
  unfold rupRefutes at h
  simp only [Bool.and_eq_true] at h
  have hl := rupValid_sound n f lines h.1
  have hu := upRefute_sound n _ h.2
  rintro ⟨a, ha⟩
  apply hu
  refine ⟨a, ?_⟩
  unfold cnfTrue
  rw [List.all_eq_true]
  intro c hc
  rw [List.mem_append] at hc
  rcases hc with hc | hc
  · exact hl c (List.mem_reverse.1 hc) a ha
  · unfold cnfTrue at ha; rw [List.all_eq_true] at ha; exact ha c hc

end GS
