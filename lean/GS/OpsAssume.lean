import GS.Proto
import GS.Model.Assume
/-!
# GS.OpsAssume — driver ops for the mirror of the prologue of `(*Solver).Assume`

`assumepro <nbVars> | <facts> | <lits>`

* the solver has `nbVars` variables, no variable bound, empty trail (`GS.Assume.fresh`: by
  `GS.Assume.assumePrologue_no_leak` the answer is the same from every well-formed state);
* facts, lits: DIMACS literals, space separated, in order (an empty field = none).

Answer: `refuted`, or `installed <trail literals in order> | <assumption-flagged variables,
increasing>`, or `panic` (literal `0` / variable beyond `nbVars`: Go panics with an index error).

`assumepro_from <nbVars> | <facts> | <lits> | <model> | <trail>`

* the same from an arbitrary state: `<model>` = `s.model` (`nbVars` integers, `0` unbound, `±level`;
  the single word `nil` for the solver `New` returns on a problem refuted at parse time, whose
  `s.status` is `Unsat`), `<trail>` = `s.trail`.

Answer: `early unsat`, `panic`, or `refuted <trail> | <flagged> | <model>` /
`installed <trail> | <flagged> | <model>` (the whole state left behind).
-/
namespace GS.OpsAssume
open GS GS.Proto GS.Assume

def showNats (xs : List Nat) : String := " ".intercalate (xs.map toString)

def showStatus : Status → String
  | .indet => "indet" | .sat => "sat" | .unsat => "unsat"

def opAssumePro (fs : List String) : Option String := do
  let [n, facts, lits] := fs | none
  let n ← parseNat n
  let facts ← parseInts facts
  let lits ← parseInts lits
  match assumePrologue (fresh n facts) lits with
  | .early st => some s!"early {showStatus st}"
  | .panic => some "panic"
  | .refuted _ => some "refuted"
  | .installed st => some s!"installed {showInts st.trail} | {showNats (flagged st.flags)}"

def showFull (tag : String) (st : State) : String :=
  s!"{tag} {showInts st.trail} | {showNats (flagged st.flags)} | {showInts (st.model.getD [])}"

def opAssumeProFrom (fs : List String) : Option String := do
  let [n, facts, lits, model, trail] := fs | none
  let n ← parseNat n
  let facts ← parseInts facts
  let lits ← parseInts lits
  let trail ← parseInts trail
  let (model, status) ←
    if trim model = "nil" then some (none, Status.unsat)
    else (parseInts model).map (fun m => (some m, Status.indet))
  let st : State := { nbVars := n, status := status, facts := facts, model := model,
                      trail := trail, flags := List.replicate n false }
  match assumePrologue st lits with
  | .early st => some s!"early {showStatus st}"
  | .panic => some "panic"
  | .refuted st => some (showFull "refuted" st)
  | .installed st => some (showFull "installed" st)

def table : List (String × (List String → Option String)) :=
  [("assumepro", opAssumePro), ("assumepro_from", opAssumeProFrom)]

end GS.OpsAssume
