import GS.Proto
import GS.Model.Chan
/-!
# Driver op for the channel-trace checker (C20)

`chantrace <cap> | <event> ; <event> ; ...`  →  `1` if the event sequence is a trace of
`GS.Chan.producerSystem cap vals` for some `vals` (`GS.Chan.acceptsTrace`, proved exact in
`GS/Props/C20_ChanTrace.lean`: `acceptsTrace_iff_trace`), `0` otherwise.

Event encoding (each event is a `;`-separated group of integers; values `v` are naturals, the
identifier of the result, e.g. its index or its cost; the channel is always channel 0 = `results`):

| group   | event                                                          |
|---------|----------------------------------------------------------------|
| `1 v`   | `sent v`      : the producer completed `results <- v`          |
| `2 v`   | `received v`  : the consumer received `v`                      |
| `3`     | `closed`      : the producer executed `close(results)`         |
| `4`     | `sawClosed`   : a receive of the consumer reported "closed"    |
| `5 v`   | `returned v`  : the call returned `v`                          |
| `5`     | `returned` nothing (no result was produced, `vals = []`)       |
| `6`     | `panicked`    (never accepted)                                 |

A rendezvous on an unbuffered channel is the two consecutive events `1 v ; 2 v`.
An empty event list is written as an empty field.  Malformed input → `bad-op` (never a default).
-/
namespace GS.OpsChan
open GS GS.Proto GS.Chan

def natOfInt (i : Int) : Option Nat := if i < 0 then none else some i.toNat

def eventOfGroup : List Int → Option Event
  | [1, v] => (natOfInt v).map (Event.sent 0)
  | [2, v] => (natOfInt v).map (Event.received 0)
  | [3] => some (Event.closed 0)
  | [4] => some (Event.sawClosed 0)
  | [5, v] => (natOfInt v).map (fun n => Event.returned (some n))
  | [5] => some (Event.returned none)
  | [6] => some Event.panicked
  | _ => none

/-- `chantrace cap | events` -/
def opChanTrace (fs : List String) : Option String := do
  let [c, evs] := fs | none
  let cap ← parseNat c
  let gs ← parseGroups evs
  let events ← gs.mapM eventOfGroup
  some (if acceptsTrace cap events then "1" else "0")

def table : List (String × (List String → Option String)) :=
  [("chantrace", opChanTrace)]

end GS.OpsChan
