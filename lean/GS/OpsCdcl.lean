import GS.Proto
import GS.Model.Cdcl
/-!
# GS.OpsCdcl — driver op replaying a solver run through the abstract CDCL machine

`cdcl <n> | <base clauses> | <events>`

* base clauses: `c1 ; c2 ; …` as in `parseGroups` (`e` = the empty clause, empty field = no clause);
* events are separated by ` / ` (the clause separator ` ; ` is not used inside events):
  `L lits…` learn, `F i` forget the i-th learned clause (0-based, oldest first), `A lits…` append,
  `S lits…` assume (`S` alone: no assumption), `M 0/1 values…` answerSat with that model
  (written `M 0 1 1`, one value per variable), `U` answerUnsat.  `L`/`A` alone or `L e`/`A e`
  denote the empty clause;
* answer: `ok` when every guard accepts, else `rejected <index of the first rejected event>`.

Unparsable input yields `none` (the driver answers `bad-op`).
-/
namespace GS.OpsCdcl
open GS GS.Proto GS.Cdcl

def tokens (s : String) : List String := ((trim s).splitOn " ").filter (· ≠ "")

def parseLits (ts : List String) : Option (List Int) :=
  if ts = ["e"] then some [] else ts.mapM (fun t => t.toInt?)

def parseBits (ts : List String) : Option (List Bool) :=
  ts.mapM (fun t => if t = "0" then some false else if t = "1" then some true else none)

def parseEvent (s : String) : Option Ev :=
  match tokens s with
  | "L" :: rest => (parseLits rest).map Ev.learn
  | ["F", i] => i.toNat?.map Ev.forget
  | "A" :: rest => (parseLits rest).map Ev.append
  | "S" :: rest => (parseLits rest).map Ev.assume
  | "M" :: rest => (parseBits rest).map Ev.answerSat
  | ["U"] => some Ev.answerUnsat
  | _ => none

def parseEvents (s : String) : Option (List Ev) :=
  if trim s = "" then some [] else (s.splitOn "/").mapM parseEvent

def opCdcl (fs : List String) : Option String := do
  let [n, f, es] := fs | none
  let n ← parseNat n; let f ← parseGroups f; let es ← parseEvents es
  match firstRejected (init n f) es 0 with
  | none => some "ok"
  | some i => some s!"rejected {i}"

def table : List (String × (List String → Option String)) := [("cdcl", opCdcl)]

end GS.OpsCdcl
