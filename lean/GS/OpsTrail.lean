import GS.Proto
import GS.Model.Trail
/-!
# GS.OpsTrail — driver op for the abstract trail machine `GS.Trail`

`trail_run <units> | <ops> | <conflict literals>`

* units: the literals `New` puts on the trail (`GS.Trail.init`); empty field = empty trail;
* ops: groups separated by ` ; `, one operation per group, first integer = kind:
  `1 l` decide, `2 l c…` propagate `l` with antecedent `c…`, `3 k` backjump, `4 l k c…`
  assertLearned (backjump to `k`, then propagate `l` with antecedent `c…`), `5 l` addFact,
  `6 l` assume;
* conflict literals: may be empty (no analysis asked).

Answer
* `refused <i>` — the guard of the `i`-th operation (0-based) fails, or `refused units` when
  `unitsOk` fails;
* `state <lvl> | <trail> | <reasons> | inv <b> | <analysis>` — trail and reasons in the format of
  the `analyze` op (`lit level assumed` groups; antecedent literals or `0`), `b` = `invB` of the
  final state (always `1`: `GS.Trail.reachable_inv_partial` + `invB_iff`), and `<analysis>` =
  `none` when the conflict field is empty, else `falsified <b> <answer of the analyze op without
  reordering: learned a | rest / unit l / toplevel / stuck>`.
-/
namespace GS.OpsTrail
open GS GS.Proto GS.Analyze GS.Trail

def parseOp : List Int → Option Op
  | [1, l] => some (.decide l)
  | 2 :: l :: c => some (.propagate l c)
  | [3, k] => if k < 0 then none else some (.backjump k.toNat)
  | 4 :: l :: k :: c => if k < 0 then none else some (.assertLearned l c k.toNat)
  | [5, l] => some (.addFact l)
  | [6, l] => some (.assume l)
  | _ => none

/-- `run` that reports the index of the refused operation. -/
def runIdx (s : State) (i : Nat) : List Op → Except Nat State
  | [] => .ok s
  | o :: os =>
    match step s o with
    | some s' => runIdx s' (i + 1) os
    | none => .error i

def bit (b : Bool) : String := if b then "1" else "0"

def showRes : Res → String
  | .learned a rest => s!"learned {a} | {showInts rest}"
  | .unit l => s!"unit {l}"
  | .topLevel => "toplevel"
  | .stuck => "stuck"

def showState (s : State) : String :=
  let tr := " ; ".intercalate (s.es.map (fun e => s!"{e.lit} {e.lvl} {bit e.assumed}"))
  let rs := " ; ".intercalate (s.es.map (fun e =>
    match e.reason with | some r => showInts r | none => "0"))
  s!"state {s.lvl} | {tr} | {rs} | inv {bit (invB s)}"

def opTrailRun (fs : List String) : Option String := do
  let [units, ops, confl] := fs | none
  let units ← parseInts units
  let ops ← (← parseGroups ops).mapM parseOp
  let confl ← parseInts confl
  if !unitsOk units then some "refused units"
  else
    match runIdx (init units) 0 ops with
    | .error i => some s!"refused {i}"
    | .ok s =>
      let an := if confl.isEmpty then "none"
        else s!"falsified {bit (falsified s confl)} {showRes (analyze (s.toSt confl))}"
      some s!"{showState s} | {an}"

def table : List (String × (List String → Option String)) := [("trail_run", opTrailRun)]

end GS.OpsTrail
