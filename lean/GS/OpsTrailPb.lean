import GS.Proto
import GS.Model.TrailPb
/-!
# GS.OpsTrailPb — driver op for the trail machine with cardinality / PB antecedents `GS.TrailPb`

`trailpb_run <units> | <ops> | <conflict literals>`
`trailpb_run <units> | <ops> | | <deg w l w l …>`

* units: the literals `New` puts on the trail (`GS.TrailPb.init`); empty field = empty trail;
* ops: groups separated by ` ; `, one operation per group, first integer = kind:
  `1 l` decide, `2 l c…` propagate `l` with the clause `c…`, `3 k` backjump, `4 l k c…`
  assertLearned (backjump to `k`, then propagate `l` with the clause `c…`), `5 l` addFact,
  `6 l` assume (all as in `trail_run`), and
  `7 l deg w l w l …` propagatePb: `l` is propagated by the constraint `Σ w·l ≥ deg`
  (guard `GS.TrailPb.forcedPb`: `l` is a literal of the constraint, weights `≥ 0`, and the weights
  of its literals that are neither false nor `l` sum to less than `deg`);
* conflict: third field = literals of a clause (as in `trail_run`), or, with an empty third field, a
  fourth field `deg w l w l …` = a cardinality / PB constraint; both empty = no analysis asked.

Answer (same format as `trail_run`)
* `refused <i>` — the guard of the `i`-th operation (0-based) fails, or `refused units` when
  `unitsOk` fails;
* `state <lvl> | <trail> | <reasons> | inv <b> | <analysis>` — trail as `lit level assumed` groups,
  reasons as the literals of the antecedent or `0`, `b` = `invPbB` of the final state (always `1`:
  `GS.TrailPb.reachable_invPb_partial` + `invPbB_iff`), and `<analysis>` = `none`, or
  `falsified <b> <learned a | rest / unit l / toplevel / stuck>` where `b` = `falsifiedPb` of the
  conflict (a clause conflict is `Lin.ofClause`) and the answer is that of `GS.Analyze.analyze` on
  the snapshot (`State.toSt`).
-/
namespace GS.OpsTrailPb
open GS GS.Proto GS.Analyze GS.TrailPb

def parseOp : List Int → Option Op
  | [1, l] => some (.decide l)
  | 2 :: l :: c => some (.propagate l c)
  | [3, k] => if k < 0 then none else some (.backjump k.toNat)
  | 4 :: l :: k :: c => if k < 0 then none else some (.assertLearned l c k.toNat)
  | [5, l] => some (.addFact l)
  | [6, l] => some (.assume l)
  | 7 :: l :: rest => (linOfInts rest).map (fun c => .propagatePb l c)
  | _ => none

/-- `run` that reports the index of the refused operation. -/
def runIdx (s : State) (i : Nat) : List Op → Except Nat State
  | [] => .ok s
  | o :: os =>
    match step s o with
    | some s' => runIdx s' (i + 1) os
    | none => .error i

def bit (b : Bool) : String := if b then "1" else "0"

def showRes : Res → String
  | .learned a rest => s!"learned {a} | {showInts rest}"
  | .unit l => s!"unit {l}"
  | .topLevel => "toplevel"
  | .stuck => "stuck"

def showState (s : State) : String :=
  let tr := " ; ".intercalate (s.es.map (fun e => s!"{e.lit} {e.lvl} {bit e.assumed}"))
  let rs := " ; ".intercalate (s.es.map (fun e =>
    match e.reason with | some r => showInts (litsOf r) | none => "0"))
  s!"state {s.lvl} | {tr} | {rs} | inv {bit (invPbB s)}"

def parseConfl : List String → Option (Option Lin)
  | [c] => do
    let ls ← parseInts c
    pure (if ls.isEmpty then none else some (Lin.ofClause ls))
  | [c, pb] => do
    let ls ← parseInts c
    let xs ← parseInts pb
    if !ls.isEmpty then none
    else if xs.isEmpty then pure none
    else (linOfInts xs).map some
  | _ => none

def opTrailPbRun (fs : List String) : Option String := do
  let units :: ops :: rest := fs | none
  let units ← parseInts units
  let ops ← (← parseGroups ops).mapM parseOp
  let confl ← parseConfl rest
  if !GS.Trail.unitsOk units then some "refused units"
  else
    match runIdx (init units) 0 ops with
    | .error i => some s!"refused {i}"
    | .ok s =>
      let an := match confl with
        | none => "none"
        | some c => s!"falsified {bit (falsifiedPb s c)} {showRes (analyze (s.toSt (litsOf c)))}"
      some s!"{showState s} | {an}"

def table : List (String × (List String → Option String)) := [("trailpb_run", opTrailPbRun)]

end GS.OpsTrailPb
