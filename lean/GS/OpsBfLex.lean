import GS.Proto
import GS.Model.BfLex
/-!
# GS.OpsBfLex — driver ops for the lexer mirror of `bf.Parse` (`GS.Model.BfLex`)

* `bflex <b0 b1 …>` — the bytes of the text as decimal integers `0..255` (an empty field is the empty
  text).  Answer: `ok <tok> <tok> …` with the tokens of the op `bfparse` (`v<n>` a name — `n` is the
  base-256 reading of the byte `1` followed by the bytes of the token text —, `k<i>` the Go keyword
  number `i` of `GS.BfLex.keywords`, `BAR` for `|`, the other punctuation as itself), or `unmodelled`
  (a byte `≥ 0x80` outside strings and comments), or `fuel` (never: theorem `lex_total`).
* `bfparsebytes <b0 b1 …>` — `ok <formula in the wire format of bfparse>` | `err` | `fuel` | `unmodelled`.
-/
namespace GS.OpsBfLex
open GS GS.Proto GS.BfLex

def parseByteField (s : String) : Option (List Nat) := do
  let xs ← parseInts s
  xs.mapM (fun x => if 0 ≤ x ∧ x < 256 then some x.toNat else none)

def opBfLex (fs : List String) : Option String := do
  let [f] := fs | none
  let bs ← parseByteField f
  match lex bs with
  | .ok ts => some (" ".intercalate ("ok" :: ts))
  | .error e => some e

def opBfParseBytes (fs : List String) : Option String := do
  let [f] := fs | none
  let bs ← parseByteField f
  match parseBytes bs with
  | .ok (.ok sf _) => some ("ok " ++ GS.BfParse.showSF sf)
  | .ok .err => some "err"
  | .ok .fuel => some "fuel"
  | .error e => some e

def table : List (String × (List String → Option String)) :=
  [("bflex", opBfLex), ("bfparsebytes", opBfParseBytes)]

end GS.OpsBfLex
