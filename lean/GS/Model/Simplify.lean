import GS.Spec.Basic
import GS.Model.Constr
/-!
# GS.Model.Simplify — mirror of the parse-time simplification of `solver/problem.go`

Core-only, executable. Mirrors, line by line,

* `/repo/solver/problem.go`  : `updateStatus`, `simplify2`, `simplifyCard`, `simplifyPB`, `addUnit`,
  `addUnits`, `replicateUnits`;
* `/repo/solver/parser.go`   : `ParseSlice`, `ParseSliceNb`, `(*Problem).parseSlice`;
* `/repo/solver/parser_pb.go`: `ParseCardConstrs`, `ParsePBConstrs`, `appendClause`;
* `/repo/solver/clause.go`   : `NewPBClause` (the sort), `updateCardinality`, `removeLit`, `Shrink`.

## Conventions

* Literals are DIMACS integers (the Go code converts them with `IntToLit`; `Lit.Var()` of the
  literal `l` is `|l| - 1` = `varOf l`, `Lit.IsPositive()` is `l > 0`, `Negation()` is `-l`).
  Go `int` / `int32` are the unbounded `Int` (no overflow, no truncation by `int32(val)`).
* `Problem.Model` is a `List Int` indexed by `Var` (values 0 / 1 / -1). `mget` reads it and returns 0
  out of range, `List.set` is a no-op out of range, where Go would panic (index out of range).
  This never happens on the paths from `parseSlice` / `parseCardConstrs` / `parsePBConstrs`
  (proved for `parseSlice` in `GS.Props.C01_Simplify`: every literal's variable is `< model.length`).
* Explicit Go `panic`s (null literal) are `none`.
* **In-place tricks.** The Go loops work on a prefix `a[0:n]` of a slice and delete position `p`
  with `n--; a[p] = a[n]` (literals: `c.Set(k, c.Get(nbLits))`, `removeLit`; clauses:
  `pb.Clauses[i] = pb.Clauses[nbClauses]`). Positions `< p` are never touched again, so the
  model keeps the *suffix* `a[p:n]` as a list: deleting its head `x :: r` yields `rot r`
  (`[]` if `r = []`, else the last element of `r` followed by `r` without its last element).
  This reproduces the order of literals, clauses and units of the Go result exactly.
* Loops `for j < nbLits`, `for i < nbClauses` become recursion on a fuel that is the length of the
  suffix (every iteration shortens it by one): exact. The outer `for restart` / `for modified`
  loops get the fuel stated at `simplify2` / `simplifyCard` / `simplifyPB`.
* The early `return`s after `pb.Status = Unsat` are recognised in the model by
  `status = .unsat` (precondition: the status is not `Unsat` on entry — the callers enter with
  `Indet`). **When the result status is `unsat`, the field `clauses` of the model is not
  meaningful**: Go leaves `pb.Clauses` un-truncated with aliased, partially mutated clauses there
  (and `simplifyPB` sets it to `nil` on one of its two Unsat exits). `nbVars`, `units` and `model`
  are faithful also in that case.
-/
namespace GS.Simplify
open GS GS.Constr

/-- `solver.Status` restricted to the three values a `Problem` can have. -/
inductive Status where
  | indet | sat | unsat
deriving Repr, DecidableEq, Inhabited

/-- `solver.Clause` as seen by the simplifiers: `weights = none` is `pbData == nil`
    (propositional clause or cardinality constraint); `card` is `Cardinality()`. -/
structure Cl where
  lits : List Int
  weights : Option (List Int)
  card : Int
deriving Repr, DecidableEq, Inhabited

/-- `solver.Problem` (without the cost function). -/
structure Pb where
  nbVars : Nat
  clauses : List Cl
  status : Status
  units : List Int
  model : List Int
deriving Repr, DecidableEq, Inhabited

/-- `IntToLit(l).Var()` for `l ≠ 0`. -/
def varOf (l : Int) : Nat := l.natAbs - 1

/-- `pb.Model[v]` (0 out of range; Go would panic). -/
def mget (m : List Int) (v : Nat) : Int := (m[v]?).getD 0

/-- Suffix `x :: r` of an array prefix after `n--; a[p] = a[n]` at its head position `p`. -/
def rot {α : Type} (r : List α) : List α :=
  match r.getLast? with
  | none => []
  | some x => x :: r.dropLast

/-- `pb.addUnit(lit)`. -/
def addUnit (pb : Pb) (lit : Int) : Pb :=
  if lit > 0 then
    if mget pb.model (varOf lit) = -1 then { pb with status := .unsat }
    else { pb with model := pb.model.set (varOf lit) 1, units := pb.units ++ [lit] }
  else
    if mget pb.model (varOf lit) = 1 then { pb with status := .unsat }
    else { pb with model := pb.model.set (varOf lit) (-1), units := pb.units ++ [lit] }

/-- `pb.addUnits(c, nbLits)`: `addUnit` on the first `nbLits` literals (no status test in between). -/
def addUnits (pb : Pb) (lits : List Int) : Pb := lits.foldl addUnit pb

/-- `pb.updateStatus(nbClauses)`; `pb.clauses` is already the prefix `pb.Clauses[:nbClauses]`. -/
def updateStatus (pb : Pb) : Pb :=
  if pb.status = .indet ∧ pb.clauses = [] then { pb with status := .sat } else pb

/-- `pb.replicateUnits()`. -/
def replicateUnits (pb : Pb) : Pb :=
  { pb with model := pb.units.foldl (fun m u => m.set (varOf u) (if u > 0 then 1 else -1)) pb.model }

/-! ## simplify2 -/

/-- The `for k < nbLits` loop of `simplify2` for the literal `lit` at position `j`; the list is
    `a[k:nbLits]`. `none`: `lit2 == lit.Negation()` was met (`clauseSat`). Fuel: the length. -/
def dedup (lit : Int) : Nat → List Int → Option (List Int)
  | 0, r => some r
  | _ + 1, [] => some []
  | n + 1, x :: r =>
    if x = -lit then none
    else if x = lit then dedup lit n (rot r)          -- nbLits--; c.Set(k, c.Get(nbLits))
    else (dedup lit n r).map (x :: ·)                  -- k++

/-- The `for j < nbLits` loop of `simplify2`; the list is `a[j:nbLits]`, the result the final
    `a[0:nbLits]` (`none` = `clauseSat`). Fuel: the length. -/
def scan2 (m : List Int) : Nat → List Int → Option (List Int)
  | 0, s => some s
  | _ + 1, [] => some []
  | n + 1, lit :: r =>
    match dedup lit r.length r with
    | none => none
    | some r1 =>
      if mget m (varOf lit) = 0 then (scan2 m n r1).map (lit :: ·)       -- j++
      else if (mget m (varOf lit) = 1 ↔ lit > 0) then none               -- clauseSat
      else scan2 m n (rot r1)                                            -- nbLits--; c.Set(j, c.Get(nbLits))

/-- Result of one `for i < nbClauses` sweep: the problem (model, units, status), the clauses
    `pb.Clauses[:nbClauses]` and the `restart` flag. -/
structure PassR where
  pb : Pb
  kept : List Cl
  restart : Bool
deriving Repr, DecidableEq, Inhabited

/-- The `for i < nbClauses` loop of `simplify2`; the list is `pb.Clauses[i:nbClauses]`.
    Fuel: the length. -/
def pass2 : Nat → Pb → List Cl → PassR
  | 0, pb, s => ⟨pb, s, false⟩
  | _ + 1, pb, [] => ⟨pb, [], false⟩
  | n + 1, pb, c :: r =>
    match scan2 pb.model c.lits.length c.lits with
    | none => pass2 n pb (rot r)                         -- nbClauses--; pb.Clauses[i] = pb.Clauses[nbClauses]
    | some [] => ⟨{ pb with status := .unsat }, c :: r, false⟩
    | some [l] =>                                        -- UP: pb.addUnit(c.First())
      let pb1 := addUnit pb l
      if pb1.status = .unsat then ⟨pb1, c :: r, false⟩
      else
        let q := pass2 n pb1 (rot r)
        ⟨q.pb, q.kept, true⟩
    | some ls =>                                         -- c.Shrink(nbLits); i++
      let q := pass2 n pb r
      ⟨q.pb, { c with lits := ls } :: q.kept, q.restart⟩

/-- The `for restart` loop of `simplify2` followed by `updateStatus`. -/
def loop2 : Nat → Pb → Pb
  | 0, pb => pb
  | n + 1, pb =>
    let r := pass2 pb.clauses.length pb pb.clauses
    if r.pb.status = .unsat then { r.pb with clauses := r.kept }
    else if r.restart then loop2 n { r.pb with clauses := r.kept }
    else updateStatus { r.pb with clauses := r.kept }

/-- `pb.simplify2()`. Every sweep that sets `restart` removes a clause, so at most
    `len(pb.Clauses) + 1` sweeps run: the fuel suffices (`GS.Simplify.loop2_fuel`). -/
def simplify2 (pb : Pb) : Pb := loop2 (pb.clauses.length + 1) pb

/-! ## parseSlice -/

/-- `if v >= pb.NbVars { pb.NbVars = v + 1 }` for `v = |l| - 1`. -/
def bumpVars (n : Nat) (l : Int) : Nat := if l.natAbs - 1 ≥ n then l.natAbs - 1 + 1 else n

/-- The first loop of `parseSlice`. `none` = `panic` (null literal); the `Bool` is the early
    `return` on an empty clause. -/
def parseLines : List (List Int) → Pb → Option (Pb × Bool)
  | [], pb => some (pb, false)
  | [] :: _, pb => some ({ pb with status := .unsat }, true)
  | [l] :: rest, pb =>
    if l = 0 then none
    else parseLines rest { pb with nbVars := bumpVars pb.nbVars l, units := pb.units ++ [l] }
  | (l1 :: l2 :: t) :: rest, pb =>
    if 0 ∈ (l1 :: l2 :: t) then none
    else parseLines rest { pb with nbVars := (l1 :: l2 :: t).foldl bumpVars pb.nbVars,
                                   clauses := pb.clauses ++ [⟨l1 :: l2 :: t, none, 1⟩] }

/-- The loop over `pb.Units` that fills `pb.Model`; the `Bool` says that two units conflict
    (`pb.Status = Unsat; return`), the model is the one reached at that point. -/
def bindUnits : List Int → List Int → List Int × Bool
  | [], m => (m, false)
  | u :: us, m =>
    if mget m (varOf u) = 0 then bindUnits us (m.set (varOf u) (if u > 0 then 1 else -1))
    else if ¬ (mget m (varOf u) > 0 ↔ u > 0) then (m, true)
    else bindUnits us m

/-- The common end of `parseSlice` / `ParseCardConstrs` / `ParsePBConstrs`:
    `pb.Model = make(...)`, bind the units, then the simplifier `simp`. -/
def finish (simp : Pb → Pb) (pb : Pb) : Pb :=
  let r := bindUnits pb.units (List.replicate pb.nbVars 0)
  if r.2 then { pb with model := r.1, status := .unsat }
  else simp { pb with model := r.1 }

/-- `ParseSliceNb(cnf, nbVars)`; `ParseSlice(cnf)` is `parseSlice cnf 0`. -/
def parseSlice (cnf : List (List Int)) (nbVars : Nat) : Option Pb :=
  match parseLines cnf ⟨nbVars, [], .indet, [], []⟩ with
  | none => none
  | some (pb, true) => some pb
  | some (pb, false) => some (finish simplify2 pb)

/-! ## simplifyCard -/

/-- `c.updateCardinality(add)` on `Cardinality() = lbdValue + 1`. -/
def updCard (card add : Int) : Int := if add < 0 ∧ -add > card - 1 then 1 else card + add

/-- The `for j < nbLits` loop of `simplifyCard`; `k` is `nbSat`. `none` = `clauseSat`. -/
def scanCard (m : List Int) (card : Int) : Nat → List Int → Nat → Option (List Int × Nat)
  | 0, s, k => some (s, k)
  | _ + 1, [], k => some ([], k)
  | n + 1, lit :: r, k =>
    if mget m (varOf lit) = 0 then (scanCard m card n r k).map (fun p => (lit :: p.1, p.2))
    else if (mget m (varOf lit) = 1 ↔ lit > 0) then
      if ((k + 1 : Nat) : Int) = card then none          -- nbSat++; if nbSat == card { clauseSat }
      else scanCard m card n (rot r) (k + 1)
    else scanCard m card n (rot r) k

/-- The `for i < nbClauses` loop of `simplifyCard`. -/
def passCard : Nat → Pb → List Cl → PassR
  | 0, pb, s => ⟨pb, s, false⟩
  | _ + 1, pb, [] => ⟨pb, [], false⟩
  | n + 1, pb, c :: r =>
    match scanCard pb.model c.card c.lits.length c.lits 0 with
    | none => passCard n pb (rot r)
    | some (ls, nbSat) =>
      -- `if !clauseSat && nbSat > 0 { card -= nbSat; c.updateCardinality(-nbSat) }`
      -- (for `nbSat = 0` both are the identity)
      let card := c.card - (nbSat : Int)
      let c' : Cl := { c with lits := ls, card := updCard c.card (-(nbSat : Int)) }
      if (ls.length : Int) < card then ⟨{ pb with status := .unsat }, c :: r, false⟩
      else if (ls.length : Int) = card then            -- UP: pb.addUnits(c, nbLits)
        let pb1 := addUnits pb ls
        if pb1.status = .unsat then ⟨pb1, c :: r, false⟩
        else
          let q := passCard n pb1 (rot r)
          ⟨q.pb, q.kept, true⟩
      else
        let q := passCard n pb r
        ⟨q.pb, c' :: q.kept, q.restart⟩

def loopCard : Nat → Pb → Pb
  | 0, pb => pb
  | n + 1, pb =>
    let r := passCard pb.clauses.length pb pb.clauses
    if r.pb.status = .unsat then { r.pb with clauses := r.kept }
    else if r.restart then loopCard n { r.pb with clauses := r.kept }
    else updateStatus { r.pb with clauses := r.kept }

/-- `pb.simplifyCard()`. As for `simplify2`, a sweep that sets `restart` removes a clause. -/
def simplifyCard (pb : Pb) : Pb := loopCard (pb.clauses.length + 1) pb

/-- `if v >= pb.NbVars { pb.NbVars = v + 1 }` over the literals of a constraint. -/
def bumpAll (n : Nat) (ls : List Int) : Nat := ls.foldl bumpVars n

/-- The first loop of `ParseCardConstrs`. `none` = `panic("literal 0 found in clause")`. -/
def parseCardLines : List CardC → Pb → Option (Pb × Bool)
  | [], pb => some (pb, false)
  | c :: rest, pb =>
    match frontCard c with
    | .dropped => parseCardLines rest pb
    | .unsat => some ({ pb with status := .unsat }, true)
    | .units ls =>
      if 0 ∈ ls then none
      else parseCardLines rest { pb with nbVars := bumpAll pb.nbVars ls, units := pb.units ++ ls }
    | .kept =>
      if 0 ∈ c.lits then none
      else parseCardLines rest { pb with nbVars := bumpAll pb.nbVars c.lits,
                                         clauses := pb.clauses ++ [⟨c.lits, none, c.atLeast⟩] }

/-- `ParseCardConstrs(constrs)`. -/
def parseCardConstrs (cs : List CardC) : Option Pb :=
  match parseCardLines cs ⟨0, [], .indet, [], []⟩ with
  | none => none
  | some (pb, true) => some pb
  | some (pb, false) => some (finish simplifyCard pb)

/-! ## simplifyPB -/

/-- `(weight, literal)` terms of a clause (`c.Weight(j)` is 1 when `pbData == nil`). -/
def Cl.terms (c : Cl) : List (Int × Int) :=
  match c.weights with
  | none => c.lits.map (fun l => (1, l))
  | some ws => ws.zip c.lits

/-- Sum of the weights of a term list (`c.WeightSum()`). -/
def wsum (ts : List (Int × Int)) : Int := (ts.map (·.1)).sum

/-- Writing the terms back into the clause (`pbData == nil` stays `nil`). -/
def Cl.withTerms (c : Cl) (ts : List (Int × Int)) (card : Int) : Cl :=
  { lits := ts.map (·.2), weights := c.weights.map (fun _ => ts.map (·.1)), card := card }

/-- State of the `for j < c.Len()` loop of `simplifyPB`: the problem (model, units, status),
    the remaining terms, the local `card`, the stored `c.Cardinality()`, `wSum`, `modified`. -/
structure ScanP where
  pb : Pb
  terms : List (Int × Int)
  card : Int
  stored : Int
  wSum : Int
  modified : Bool
deriving Repr, DecidableEq, Inhabited

/-- The `for j < c.Len()` loop of `simplifyPB`; the list is the terms from position `j` on. -/
def scanPB : Nat → Pb → Int → Int → Int → List (Int × Int) → ScanP
  | 0, pb, card, st, ws, s => ⟨pb, s, card, st, ws, false⟩
  | _ + 1, pb, card, st, ws, [] => ⟨pb, [], card, st, ws, false⟩
  | n + 1, pb, card, st, ws, (w, lit) :: r =>
    if mget pb.model (varOf lit) = 0 then
      if ws - w < card then                            -- lit must be true
        let pb1 := addUnit pb lit
        if pb1.status = .unsat then ⟨pb1, (w, lit) :: r, card, st, ws, true⟩   -- return
        else
          let q := scanPB n pb1 (card - w) (updCard st (-w)) (ws - w) (rot r)   -- c.removeLit(j)
          { q with modified := true }
      else
        let q := scanPB n pb card st ws r              -- j++
        { q with terms := (w, lit) :: q.terms }
    else
      let cs : Int × Int :=
        if (mget pb.model (varOf lit) = 1 ↔ lit > 0) then (card - w, updCard st (-w)) else (card, st)
      let q := scanPB n pb cs.1 cs.2 (ws - w) (rot r)  -- c.removeLit(j)
      { q with modified := true }

/-- The `for i < len(pb.Clauses)` loop of `simplifyPB`; `restart` is `modified`. -/
def passPB : Nat → Pb → List Cl → PassR
  | 0, pb, s => ⟨pb, s, false⟩
  | _ + 1, pb, [] => ⟨pb, [], false⟩
  | n + 1, pb, c :: r =>
    let q := scanPB c.terms.length pb c.card c.card (wsum c.terms) c.terms
    if q.pb.status = .unsat then ⟨q.pb, c :: r, true⟩                     -- return
    else if q.card ≤ 0 then                                                -- clause is Sat
      let p := passPB n q.pb (rot r)
      ⟨p.pb, p.kept, true⟩
    else if q.wSum < q.card then ⟨{ q.pb with status := .unsat }, [], true⟩  -- pb.Clauses = nil
    else
      let p := passPB n q.pb r
      ⟨p.pb, c.withTerms q.terms q.stored :: p.kept, q.modified || p.restart⟩

def loopPB : Nat → Pb → Pb
  | 0, pb => pb
  | n + 1, pb =>
    let r := passPB pb.clauses.length pb pb.clauses
    if r.pb.status = .unsat then { r.pb with clauses := r.kept }
    else if r.restart then loopPB n { r.pb with clauses := r.kept }
    else updateStatus { r.pb with clauses := r.kept }

/-- Fuel for the `for modified` loop: a sweep that sets `modified` removes a literal or a clause,
    so at most `Σ (len(c) + 1) + 1` sweeps run. -/
def pbFuel (cs : List Cl) : Nat := (cs.map (fun c => c.lits.length + 1)).sum + 1

/-- `pb.simplifyPB()`. -/
def simplifyPB (pb : Pb) : Pb :=
  let pb := replicateUnits pb
  loopPB (pbFuel pb.clauses) pb

/-- Insertion step of `sort.Sort` on `weightedLits` (`Less(i, j) = weights[i] > weights[j]`):
    the new term moves left past the terms of strictly smaller weight. -/
def insTerm (x : Int × Int) : List (Int × Int) → List (Int × Int)
  | [] => [x]
  | y :: ys => if y.1 ≥ x.1 then y :: insTerm x ys else x :: y :: ys

/-- The sort of `NewPBClause`: by decreasing weight, stable. Go's `sort.Sort` is an insertion
    sort (hence stable, hence exactly this) for at most 12 elements; for longer slices it is
    pdqsort and the order among equal weights is not modelled. -/
def sortTerms (ts : List (Int × Int)) : List (Int × Int) := ts.foldl (fun acc x => insTerm x acc) []

/-- `NewPBClause(lits, weights, card)` (for `len(weights) == len(lits)` when not `nil`). -/
def newPBClause (c : PBC) : Cl :=
  match c.weights with
  | none => ⟨c.lits, some (c.lits.map (fun _ => 1)), c.atLeast⟩
  | some _ =>
    let ts := sortTerms c.terms
    ⟨ts.map (·.2), some (ts.map (·.1)), c.atLeast⟩

/-- `if !found { pb.Units = append(pb.Units, lit) }` over the literals of a constraint. -/
def addNewUnits (us : List Int) (ls : List Int) : List Int :=
  ls.foldl (fun us l => if l ∈ us then us else us ++ [l]) us

/-- Inputs of `ParsePBConstrs` the model covers: no null literal, and `Weights` either `nil`
    or as long as `Lits`. -/
def pbcOk (c : PBC) : Bool :=
  !(c.lits.contains 0) && (match c.weights with | none => true | some ws => ws.length == c.lits.length)

/-- The first loop of `ParsePBConstrs`. `none`: a constraint outside `pbcOk` was met (Go: an
    index-out-of-range panic if and when the literal 0 is looked up in `pb.Model`, resp. in the
    sort; not modelled). -/
def parsePBLines : List PBC → Pb → Option (Pb × Bool)
  | [], pb => some (pb, false)
  | c :: rest, pb =>
    if !pbcOk c then none
    else
      let pb := { pb with nbVars := bumpAll pb.nbVars c.lits }
      match frontPB c with
      | .dropped => parsePBLines rest pb
      | .unsat => some ({ pb with status := .unsat }, true)
      | .units ls => parsePBLines rest { pb with units := addNewUnits pb.units ls }
      | .kept => parsePBLines rest { pb with clauses := pb.clauses ++ [newPBClause c] }

/-- `ParsePBConstrs(constrs)`. -/
def parsePBConstrs (cs : List PBC) : Option Pb :=
  match parsePBLines cs ⟨0, [], .indet, [], []⟩ with
  | none => none
  | some (pb, true) => some pb
  | some (pb, false) => some (finish simplifyPB pb)

end GS.Simplify
