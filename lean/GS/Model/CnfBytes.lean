import GS.Model.Simplify
/-!
# GS.Model.CnfBytes — `solver.ParseCNF` on the byte stream

Core-only, executable. Mirror of `/repo/solver/parser.go`: `isSpace`, `readInt`, `parseHeader` and
the reading loop of `ParseCNF` (everything before `pb.simplify2()`), byte by byte, together with
what the three library calls do on byte strings (`bufio.Reader.ReadString('\n')`,
`strings.Fields`, `strconv.Atoi`).

## Shape of the mirror

The Go code pulls bytes one at a time (`r.ReadByte()`), and every loop of `ParseCNF`, `readInt`
and `ReadString` consumes exactly one byte per iteration. The mirror is therefore a machine that
is *fed* one byte per step (`step`), whose control state (`Mode`) is the program point at which
the Go code waits for that byte, and which is told at the end that the next read is `io.EOF`
(`finish`). It is a structural recursion on the input: total, no fuel.

| `Mode`              | Go program point where the byte arrives                                             |
|---------------------|-------------------------------------------------------------------------------------|
| `top`               | `b, err = r.ReadByte()` of the main loop (first line of `ParseCNF` / its last line)   |
| `comment`           | `b, err = r.ReadByte()` in the `b == 'c'` branch (both reads: a comment ends at `\n`) |
| `header acc`        | inside `r.ReadString('\n')` of `parseHeader`; `acc` = bytes of the line so far        |
| `num lits`          | `*b, err = r.ReadByte()` of the space-skipping loop at the head of `readInt`          |
| `neg lits`          | `*b, err = r.ReadByte()` after a `-`                                                  |
| `dig lits sign res` | `*b, err = r.ReadByte()` after a digit (`res` accumulated so far, `sign` = `neg`)     |

`lits` is the local slice `lits` of the clause loop. The first byte of a clause is examined by
`readInt` without a read (`b` is the look-ahead of the main loop): `top` hands it to `stepNum`.

## Conventions

* A byte is a `Nat` (`< 256`; the driver op checks it).
* Go `int` is 64 bit: `res = 10*res + d`, `res *= neg` and `-val` wrap (`wrap64`), exactly.
* Error return: `Except.error msg`. A Go `panic`: `Except.error` with a message starting with
  `panic:` (convention of `GS.Model.Formats`). Behaviour the mirror does not define:
  a message starting with `unmodelled:` — only one case: a literal that passes the range check
  of `ParseCNF` but does not fit `int32` (`IntToLit(int32(val))` truncates; this needs
  `NbVars ≥ 2^31` or the value `-2^63`, which slips through `val > NbVars || -val > NbVars`).
* The two `make` calls after the header panic for a negative count and for a count above
  `maxAlloc / 8 = 2^45` (`runtime.makeslice` on linux/amd64; both element types are 8 bytes wide).
  Below that bound the allocation is attempted: whether the process survives a header that
  declares 10^12 variables is not a property of the code. The mirror records the largest count
  declared so far in `peak`; the driver op answers `unmodelled` when it exceeds `2^24`.
* The reader is assumed to deliver bytes and then `io.EOF` for ever (true of files, `strings.Reader`,
  `bytes.Reader`); other read errors are not modelled.
-/
namespace GS.CnfBytes
open GS

/-! ## Bytes -/

/-- `isSpace` of `parser.go`: `' '`, `'\t'`, `'\n'`, `'\r'`. -/
def isSpace (b : Nat) : Bool := b == 32 || b == 9 || b == 10 || b == 13

/-- `'0' ≤ b ≤ '9'`. -/
def isDigit (b : Nat) : Bool := decide (48 ≤ b) && decide (b ≤ 57)

/-- Two's complement wrap-around of a Go `int` (64 bit). -/
def wrap64 (x : Int) : Int := (x + 9223372036854775808) % 18446744073709551616 - 9223372036854775808

/-! ## `strings.Fields` -/

/-- `asciiSpace` of package `strings`: `'\t'`, `'\n'`, `'\v'`, `'\f'`, `'\r'`, `' '`. -/
def asciiSpace (b : Nat) : Bool := (decide (9 ≤ b) && decide (b ≤ 13)) || b == 32

/-- Length in bytes of the white space rune (`unicode.IsSpace`) encoded at the head of the bytes;
    0 when there is none. Beyond ASCII these are U+0085, U+00A0 (`C2 85`, `C2 A0`), U+1680
    (`E1 9A 80`), U+2000–U+200A, U+2028, U+2029, U+202F (`E2 80 80..8A / A8 / A9 / AF`), U+205F
    (`E2 81 9F`) and U+3000 (`E3 80 80`). A lead byte (`≥ C0`) is never a continuation byte, so
    `range s` always starts a rune on it: an occurrence of one of these sequences is always
    decoded as that rune, and bytes that are not part of a valid sequence decode to U+FFFD,
    which is not a space. -/
def spaceLen : List Nat → Nat
  | [] => 0
  | b :: rest =>
    if asciiSpace b then 1
    else if b < 128 then 0
    else
      match rest with
      | [] => 0
      | c :: rest2 =>
        if b == 194 then (if c == 133 || c == 160 then 2 else 0)
        else
          match rest2 with
          | [] => 0
          | d :: _ =>
            if b == 225 then (if c == 154 && d == 128 then 3 else 0)
            else if b == 226 then
              (if c == 128 then
                 (if (decide (128 ≤ d) && decide (d ≤ 138)) || d == 168 || d == 169 || d == 175 then 3 else 0)
               else if c == 129 then (if d == 159 then 3 else 0)
               else 0)
            else if b == 227 then (if c == 128 && d == 128 then 3 else 0)
            else 0

/-- A completed field (nothing for the empty one). -/
def flush (cur : List Nat) : List (List Nat) := if cur.isEmpty then [] else [cur]

/-- `strings.Fields` scanning; `skip` = bytes of a multi-byte space still to pass, `cur` = the
    field under construction. -/
def fieldsAux : Nat → List Nat → List Nat → List (List Nat)
  | _, cur, [] => flush cur
  | skip + 1, cur, _ :: rest => fieldsAux skip cur rest
  | 0, cur, b :: rest =>
    if spaceLen (b :: rest) = 0 then fieldsAux 0 (cur ++ [b]) rest
    else flush cur ++ fieldsAux (spaceLen (b :: rest) - 1) [] rest

/-- `strings.Fields(line)` on the bytes of `line`. -/
def fields (line : List Nat) : List (List Nat) := fieldsAux 0 [] line

/-! ## `strconv.Atoi` -/

/-- Value of a string of decimal digits. -/
def digitsVal (ds : List Nat) : Nat := ds.foldl (fun a b => 10 * a + (b - 48)) 0

/-- Sign and digits: `s[0] == '-' || s[0] == '+'` is cut off. -/
def splitSign : List Nat → Bool × List Nat
  | [] => (false, [])
  | b :: r => if b = 45 then (true, r) else if b = 43 then (false, r) else (false, b :: r)

/-- `strconv.Atoi` (64-bit `int`): optional sign, at least one digit, digits only (no `_` in base
    10), value within `[-2^63, 2^63 - 1]`; anything else is an error (`none`). -/
def atoi (s : List Nat) : Option Int :=
  let p := splitSign s
  if p.2.isEmpty || !p.2.all isDigit then none
  else if p.1 then (if digitsVal p.2 ≤ 9223372036854775808 then some (-(digitsVal p.2 : Int)) else none)
  else (if digitsVal p.2 < 9223372036854775808 then some (digitsVal p.2 : Int) else none)

/-! ## The reader -/

inductive Mode where
  | top
  | comment
  | header (acc : List Nat)
  | num (lits : List Int)
  | neg (lits : List Int)
  | dig (lits : List Int) (sign : Int) (res : Int)
deriving Repr, DecidableEq, Inhabited

/-- `pb.NbVars`, `nbClauses`, `pb.Clauses` (as integer lists, in order), the largest count a
    header declared so far, and the program point. -/
structure St where
  nbVars : Int := 0
  nbClauses : Int := 0
  clauses : List (List Int) := []
  peak : Nat := 0
  mode : Mode := .top
deriving Repr, DecidableEq, Inhabited

/-- `make` panics above this count (`8 * n > maxAlloc = 2^48`). -/
def makeLimit : Int := 35184372088832

/-- `parseHeader` on the line read by `ReadString`, then `pb.Model = make([]decLevel, pb.NbVars)`
    and `pb.Clauses = make([]*Clause, 0, nbClauses)` (the clauses read so far are dropped). -/
def doHeader (st : St) (line : List Nat) : Except String St :=
  match fields line with
  | _ :: f1 :: f2 :: _ =>
    match atoi f1 with
    | none => .error "cannot parse CNF header: nbvars not an int"
    | some v =>
      match atoi f2 with
      | none => .error "cannot parse CNF header: nbClauses not an int"
      | some c =>
        if v < 0 ∨ v > makeLimit then .error "panic: makeslice: len out of range"
        else if c < 0 ∨ c > makeLimit then .error "panic: makeslice: cap out of range"
        else .ok { nbVars := v, nbClauses := c, clauses := [],
                   peak := max st.peak (max v.toNat c.toNat), mode := .top }
  | _ => .error "cannot parse CNF header: invalid syntax in header"

/-- The value `val` returned by `readInt` inside the clause loop. -/
def addVal (st : St) (lits : List Int) (v : Int) : Except String St :=
  if v = 0 then .ok { st with clauses := st.clauses ++ [lits], mode := .top }
  else if v > st.nbVars ∨ wrap64 (-v) > st.nbVars then .error "invalid literal for problem with that many vars only"
  else if v < -2147483648 ∨ v > 2147483647 then .error "unmodelled: literal does not fit int32"
  else .ok { st with mode := .num (lits ++ [v]) }

/-- `readInt` looking at byte `b` before any digit: skip spaces, `-`, first digit. -/
def stepNum (st : St) (lits : List Int) (b : Nat) : Except String St :=
  if isSpace b then .ok { st with mode := .num lits }
  else if b = 45 then .ok { st with mode := .neg lits }
  else if isDigit b then .ok { st with mode := .dig lits 1 ((b : Int) - 48) }
  else .error "cannot parse clause: cannot read int: not a digit"

/-- One byte. -/
def step (st : St) (b : Nat) : Except String St :=
  match st.mode with
  | .top =>
    if b = 99 then .ok { st with mode := .comment }
    else if b = 112 then .ok { st with mode := .header [] }
    else if isSpace b then .ok st
    else stepNum st [] b
  | .comment => if b = 10 then .ok { st with mode := .top } else .ok st
  | .header acc =>
    if b = 10 then doHeader st (acc ++ [10]) else .ok { st with mode := .header (acc ++ [b]) }
  | .num lits => stepNum st lits b
  | .neg lits =>
    if isDigit b then .ok { st with mode := .dig lits (-1) ((b : Int) - 48) }
    else .error "cannot parse clause: cannot read int: not a digit"
  | .dig lits s res =>
    if isSpace b then addVal st lits (wrap64 (res * s))
    else if isDigit b then .ok { st with mode := .dig lits s (wrap64 (10 * res + ((b : Int) - 48))) }
    else .error "cannot parse clause: cannot read int: not a digit"

def run (st : St) : List Nat → Except String St
  | [] => .ok st
  | b :: bs =>
    match step st b with
    | .error e => .error e
    | .ok st' => run st' bs

/-- `if len(lits) != 0 { pb.Clauses = append(pb.Clauses, NewClause(lits)) }` when `readInt`
    returns `io.EOF`. -/
def closeClause (st : St) (lits : List Int) : St :=
  if lits.isEmpty then { st with mode := .top } else { st with clauses := st.clauses ++ [lits], mode := .top }

/-- The next read returns `io.EOF`. -/
def finish (st : St) : Except String St :=
  match st.mode with
  | .top => .ok st
  | .comment => .ok { st with mode := .top }
  | .header acc =>
    if acc.isEmpty then .error "cannot parse CNF header: cannot read header: EOF" else doHeader st acc
  | .num lits => .ok (closeClause st lits)
  | .neg _ => .error "cannot parse clause: cannot read int: EOF"
  | .dig lits s res =>
    match addVal st lits (wrap64 (res * s)) with
    | .error e => .error e
    | .ok st' =>
      match st'.mode with
      | .num lits' => .ok (closeClause st' lits')
      | _ => .ok st'

/-- The reading loop of `ParseCNF` with all its variables. -/
def parseCore (bs : List Nat) : Except String St :=
  match run {} bs with
  | .error e => .error e
  | .ok st => finish st

/-- `solver.ParseCNF` up to (not including) `simplify2`: `pb.NbVars`, the declared `nbClauses`,
    and the clauses as written, in order. -/
def parseCnfBytes (bs : List Nat) : Except String (Nat × Nat × List (List Int)) :=
  match parseCore bs with
  | .error e => .error e
  | .ok st => .ok (st.nbVars.toNat, st.nbClauses.toNat, st.clauses)

/-- The `*Problem` on which `ParseCNF` calls `simplify2`: no units yet, `Model` all zero. -/
def initPb (nbVars : Nat) (clauses : List (List Int)) : GS.Simplify.Pb :=
  ⟨nbVars, clauses.map (fun c => ⟨c, none, 1⟩), .indet, [], List.replicate nbVars 0⟩

/-- `solver.ParseCNF` end to end. -/
def parseCnfFull (bs : List Nat) : Except String GS.Simplify.Pb :=
  match parseCnfBytes bs with
  | .error e => .error e
  | .ok r => .ok (GS.Simplify.simplify2 (initPb r.1 r.2.2))

end GS.CnfBytes
