import GS.Model.CnfBytes
import GS.Model.Formats
import GS.Model.OpbFull
/-!
# GS.Model.TextBytes — `solver.ParseOPB`, `maxsat.ParseWCNF`, `explain.ParseCNF` on the byte stream

Core-only, executable. The three readers split their input with a `bufio.Scanner` (default split
function `ScanLines`, default buffer limit `MaxScanTokenSize = 65536`), cut each line into fields
with `strings.Fields` and read numbers with `strconv.Atoi`. `GS.Model.Formats` mirrors what they do
with the fields (`parseOpbLines`, `parseWcnfLines`, `explainParseTokens` on `List Line`,
`Line = List Tok`); this file mirrors how the bytes become those lines of tokens, so that

    parseOpbBytes     = parseOpbLines      ∘ opbTokens
    parseWcnfBytes    = parseWcnfLines     ∘ wcnfTokens
    explainParseBytes = explainParseTokens ∘ explainTokens

Byte classes, `strings.Fields` on bytes (with the Unicode spaces) and `strconv.Atoi` with its
64-bit range are those of `GS.CnfBytes` (`fields`, `atoi`).

## `bufio.Scanner` (`scanLines`)

`ScanLines` ends a line at each `\n`; a last line without `\n` is a line unless it is empty;
one trailing `\r` is dropped from each line. `Scanner.Scan` gives up with `ErrTooLong` when
its buffer (at most 65536 bytes) is full and holds no complete line, i.e. at the first line whose
content before the `\n` (the `\r` included) has 65536 bytes or more — whatever the chunks in which
the reader delivers the bytes, and also for a last line without `\n` (the buffer is found full
before the end of file is seen). The lines before it have been delivered. Then

* `ParseOPB` and `explain.ParseCNF` test `scanner.Err()` after the loop and return an error
  (unless an earlier line already made them return): the tokenisers append a line that the token
  level rejects (`errLine`);
* `ParseWCNF` does **not** test `scanner.Err()`: the long line and everything after it is
  silently dropped and the file read so far is solved (`wcnfTokens` just stops there).

## What the token level cannot see, and how it is passed on

A `Tok.word` carries the bytes of the field, each byte `b` as the character `Char.ofNat b`
(injective: equality and prefix tests on words are tests on bytes).

* OPB: `line == "" || line[0] == '*'` is a test on the **raw line**; the token level tests the
  first field. A skipped line is passed as the empty token line. A line that is not skipped but
  whose first field starts with `*` (leading blanks) always makes Go return an error (no `;` at
  the end, fewer than 3 fields, bad operator, bad right-hand side, or `invalid weight` on
  `terms[0]`): passed as `errLine`.
  `line[len(line)-1] != ';'` is a test on the **last byte** (a blank after the `;` is an error):
  such a line is passed as `errLine`, otherwise the fields of `spaceOutOperators(line[:len-1])`
  followed by the field `;`.
  A variable name `x<digits>` / `~x<digits>` whose number does not fit 64 bits is an
  `Atoi` error in Go ("invalid variable"); the token-level `atoi` has no range: the name is passed
  as `x?` / `~x?` (same prefix, same length class, not a number: same error at the same place).
* WCNF: `line[0] == 'p'` / `line[0] != 'c'` are tests on the **first byte of the raw line**.
  A `c` line is passed as the empty line, a `p` line as its fields. Any other line is a clause
  line: when it has no field (blanks only) `make([]int, len(fields)-1)` panics — passed as the
  line `[0]`, on which the token level panics too (index -1); when its first field is not an
  integer (`Atoi` error on `fields[0]`, e.g. ` p wcnf 1 1` or ` c x`) that field is passed as
  the word `" "`, which the token level rejects as `Invalid integer`.
* explain: `fields[0]` is compared with `"c"` and `"p"`: exactly the token level.

## 64-bit arithmetic and allocation: `…Guard`

The token level computes in `Int`. The Go code wraps (`GtEq`, `Eq`, `-lit`, `IntToLit(int32(…))`)
and allocates `make(…, NbVars)`. The guards say when no such effect is possible; the driver ops
answer `unmodelled` when the guard of the format fails:
* `opbGuard`: on every line the absolute values of the integer fields sum to less than `2^31` (beyond 64-bit wrap-around, `NewPBClause` keeps the degree in a `uint32`: `lbdValue: uint32(card - 1)`), and
  every variable number is at most `2^20` in absolute value;
* `wcnfGuard`: every `p` line declares `0 ≤ nbVars ≤ 2^20` and `nbClauses ≤ 2^20` (a negative
  `nbVars` is accepted by `ParseWCNF` and panics later, in `ParseSliceNb`);
* `explainGuard`: every `p` line declares at most `2^20` variables and clauses, and no integer
  field is `-2^63` (`v = -v` wraps in `addClause`, then `pb.units[v-1]` panics).
-/
namespace GS.TextBytes
open GS GS.Formats GS.CnfBytes

/-! ## `bufio.Scanner` with `ScanLines` -/

/-- `bufio.MaxScanTokenSize`. -/
def maxLine : Nat := 1073741824

/-- The bytes between the `\n`s; an empty last piece is not a line. -/
def rawLines : List Nat → List (List Nat)
  | [] => []
  | b :: rest =>
    if b = 10 then [] :: rawLines rest
    else
      match rawLines rest with
      | [] => [[b]]
      | l :: ls => (b :: l) :: ls

/-- `dropCR` of package `bufio`. -/
def dropCR (l : List Nat) : List Nat := if l.getLast? = some 13 then l.dropLast else l

/-- The lines `Scan` delivers before the first line that does not fit the buffer, and whether
    there is such a line (`scanner.Err() == bufio.ErrTooLong`). -/
def takeFit : List (List Nat) → List (List Nat) × Bool
  | [] => ([], false)
  | l :: ls =>
    if l.length < maxLine then ((dropCR l) :: (takeFit ls).1, (takeFit ls).2) else ([], true)

def scanLines (bs : List Nat) : List (List Nat) × Bool := takeFit (rawLines bs)

/-- `splitLines`: the texts returned by successive `scanner.Text()`. -/
def splitLines (bs : List Nat) : List (List Nat) := (scanLines bs).1

/-! ## Fields and tokens -/

/-- `strings.Fields`. -/
def fieldsOf (line : List Nat) : List (List Nat) := fields line

/-- The bytes of a field as a `String` (byte `b` ↦ `Char.ofNat b`). -/
def wordOf (f : List Nat) : String := String.ofList (f.map Char.ofNat)

/-- A field as the token level sees it: `Tok.int` exactly when `strconv.Atoi` succeeds. -/
def tokOf (f : List Nat) : Tok :=
  match atoi f with
  | some i => .int i
  | none => .word (wordOf f)

/-- A line that each of the three token-level readers rejects with an error return. -/
def errLine : Line := [Tok.word " "]

/-- Sign, then at least one digit, then nothing: the syntax `strconv.Atoi` accepts. -/
def numSyntax (s : List Nat) : Bool := !(splitSign s).2.isEmpty && (splitSign s).2.all isDigit

/-! ## OPB -/

/-- `strings.Replace(line, ">=", " >= ", 1)`, `none` when `!strings.Contains(line, ">=")`. -/
def replaceGe : List Nat → Option (List Nat)
  | [] => none
  | a :: rest =>
    match rest with
    | [] => none
    | b :: rest2 =>
      if a = 62 ∧ b = 61 then some (32 :: 62 :: 61 :: 32 :: rest2)
      else (replaceGe rest).map (a :: ·)

/-- `strings.Replace(line, "=", " = ", 1)`. -/
def replaceEq : List Nat → List Nat
  | [] => []
  | a :: rest => if a = 61 then 32 :: 61 :: 32 :: rest else a :: replaceEq rest

/-- `spaceOutOperators`. -/
def spaceOut (body : List Nat) : List Nat :=
  match body with
  | 109 :: 105 :: 110 :: 58 :: rest => 109 :: 105 :: 110 :: 58 :: 32 :: rest
  | _ =>
    match replaceGe body with
    | some r => r
    | none => replaceEq body

/-- The number part of a variable name (`l[1:]`, or `l[2:]` when `l[0] == '~'`), when the field
    has the prefix `x` / `~x`. -/
def varDigits : List Nat → Option (List Nat)
  | 120 :: rest => some rest
  | 126 :: 120 :: rest => some rest
  | _ => none

/-- An OPB field. A variable name whose number has the syntax of an integer but not the range
    becomes `x?` / `~x?`. -/
def opbTok (f : List Nat) : Tok :=
  match atoi f with
  | some i => .int i
  | none =>
    match varDigits f with
    | some ds =>
      if numSyntax ds && (atoi ds).isNone then .word (wordOf (f.take (f.length - ds.length) ++ [63]))
      else .word (wordOf f)
    | none => .word (wordOf f)

def startsWith (b : Nat) (l : List Nat) : Bool := l.head? == some b

/-- One line delivered by the scanner, as a token line for `GS.Formats.opbLine`. -/
def opbLineToks (line : List Nat) : Line :=
  if line.isEmpty || startsWith 42 line then []
  else if line.getLast? != some 59 then errLine
  else
    let fs := fieldsOf (spaceOut line.dropLast)
    if (fs.head?.map (startsWith 42)).getD false then errLine
    else fs.map opbTok ++ [Tok.word ";"]

def opbTokens (bs : List Nat) : List Line :=
  (scanLines bs).1.map opbLineToks ++ (if (scanLines bs).2 then [errLine] else [])

/-- `solver.ParseOPB` up to (not including) the conflicting-unit check and `simplifyPB`. -/
def parseOpbBytes (bs : List Nat) : Except String OpbState := parseOpbLines (opbTokens bs)

/-- `solver.ParseOPB` end to end. -/
def parseOpbBytesFull (bs : List Nat) :=
  GS.OpbFull.parseOpbFull (opbTokens bs)

def sumAbs : Line → Nat
  | [] => 0
  | .int i :: ts => i.natAbs + sumAbs ts
  | .word _ :: ts => sumAbs ts

def varLimit : Nat := 1048576

def varTokOk : Tok → Bool
  | .int _ => true
  | .word s =>
    if hasVarPrefix s.toList then
      match varLit s.toList with
      | some (raw, _) => decide (raw.natAbs ≤ varLimit)
      | none => true
    else true

def opbGuard (ls : List Line) : Bool :=
  ls.all (fun l => decide (sumAbs l < 2147483648) && l.all varTokOk)

/-! ## WCNF -/

def wcnfLineToks (line : List Nat) : Line :=
  if line.isEmpty || startsWith 99 line then []
  else if startsWith 112 line then (fieldsOf line).map tokOf
  else
    match (fieldsOf line).map tokOf with
    | [] => [Tok.int 0]
    | .word _ :: r => Tok.word " " :: r
    | ts => ts

def wcnfTokens (bs : List Nat) : List Line :=
  (scanLines bs).1.map wcnfLineToks ++ (if (scanLines bs).2 then [errLine] else [])

/-- `maxsat.ParseWCNF` up to the call of `ParseSliceNb`. -/
def parseWcnfBytes (bs : List Nat) : Except String GS.MaxSatEnc.WcnfOut := parseWcnfLines (wcnfTokens bs)

def wcnfHeaderOk : Line → Bool
  | .word _ :: _ :: .int v :: .int c :: _ => decide (0 ≤ v) && decide (v ≤ (varLimit : Int)) && decide (c ≤ (varLimit : Int))
  | _ => true

def wcnfGuard (ls : List Line) : Bool := ls.all wcnfHeaderOk

/-! ## explain -/

def explainLineToks (line : List Nat) : Line := (fieldsOf line).map tokOf

def explainTokens (bs : List Nat) : List Line :=
  (scanLines bs).1.map explainLineToks ++ (if (scanLines bs).2 then [errLine] else [])

/-- `explain.ParseCNF`. -/
def explainParseBytes (bs : List Nat) : Except String (Nat × GS.Explain.Pb) :=
  explainParseTokens (explainTokens bs)

def explainHeaderOk : Line → Bool
  | .word s :: _ :: .int v :: .int c :: _ => s != "p" || (decide (v ≤ (varLimit : Int)) && decide (c ≤ (varLimit : Int)))
  | _ => true

def noMinInt : Tok → Bool
  | .int i => i != -9223372036854775808
  | .word _ => true

def explainGuard (ls : List Line) : Bool := ls.all (fun l => explainHeaderOk l && l.all noMinInt)

end GS.TextBytes
