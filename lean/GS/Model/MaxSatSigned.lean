import GS.Model.MaxSatEnc
/-!
# GS.Model.MaxSatSigned — the blocking-literal encoding of `maxsat.New` for coefficients of either sign

Core-only. Mirrors the *current* `maxsat.New` (/repo/maxsat/problem.go, lines 38-67):

* `blockCoeff := AtLeast − Σ {c | c < 0}` — the degree of the constraint once `solver.GtEq`
  has normalised its negative coefficients;
* a soft constraint (`Weight ≠ 0`) gets a blocking literal **only when** `blockCoeff > 0`, and
  that literal's coefficient is `blockCoeff` (`relaxS`); when `blockCoeff ≤ 0` the constraint is
  handed to the solver unchanged, no variable is created and nothing is added to the cost
  function;
* `nil` coefficients and `AtLeast = 1` (a clause): the blocking literal is appended with the
  implicit coefficient 1 (`= blockCoeff`); `nil` coefficients and `AtLeast > 1`: unit
  coefficients are made explicit, then `blockCoeff = AtLeast` is appended.

Numbering in `encodeS`: the `i`-th soft constraint (0-based) owns the variable `n+1+i`, which
is *used* only when `0 < blockCoeff` (the variables of the constraints that are not relaxed
simply do not occur). `New` itself numbers the blocking variables `len(varInts)` at creation
time: `newGoS` mirrors that literally.
-/
namespace GS.MaxSatSigned
open GS GS.MaxSatEnc

/-- `Σ |c|` over the terms with a negative coefficient. -/
def negSum : List (Int × Int) → Int
  | [] => 0
  | t :: ts => (if t.1 < 0 then -t.1 else 0) + negSum ts

/-- The coefficient of the blocking literal: the degree after normalisation of negative
    coefficients. -/
def blockCoeff (c : Lin) : Int := c.degree + negSum c.terms

/-- `c` with the extra term `blockCoeff c · b`. -/
def relaxS (c : Lin) (b : Int) : Lin := ⟨c.terms ++ [(blockCoeff c, b)], c.degree⟩

/-- Soft constraints in order; the one at position `i` is relaxed with variable `k+i` when
    `0 < blockCoeff`, kept unchanged otherwise. -/
def relaxFromS : Nat → List Soft → Problem
  | _, [] => []
  | k, s :: ss => (if 0 < blockCoeff s.c then relaxS s.c (k : Int) else s.c) :: relaxFromS (k + 1) ss

/-- The cost function: `weightᵢ · b_{k+i}` for the relaxed constraints only. -/
def costFromS : Nat → List Soft → List (Int × Int)
  | _, [] => []
  | k, s :: ss =>
    if 0 < blockCoeff s.c then (s.weight, (k : Int)) :: costFromS (k + 1) ss else costFromS (k + 1) ss

/-- The encoded problem and its cost function; user variables are `1..n`. -/
def encodeS (n : Nat) (hard : Problem) (soft : List Soft) : Problem × List (Int × Int) :=
  (hard ++ relaxFromS (n + 1) soft, costFromS (n + 1) soft)

/-! ### one constraint of `maxsat.New`, branch by branch -/

/-- Lines 45-50: `blockCoeff := constr.AtLeast; for _, c := range coeffs { if c < 0 { blockCoeff -= c } }`
    (ranging over a `nil` slice does nothing, so `[]` for `nil` is faithful). -/
def goBlockCoeff (c : GoConstr) : Int :=
  c.coeffs.foldl (fun acc k => if k < 0 then acc - k else acc) c.atLeast

/-- Lines 38-66 for a soft constraint (`Weight ≠ 0`) with the candidate blocking variable `bl`
    (`len(pb.varInts) + 1`): `some` of the arguments of `solver.GtEq` when a blocking literal is
    created (`blockCoeff > 0`), `none` when it is not. As in `MaxSatEnc.newSoft`, Go's `nil` slice
    is `none` in the intermediate values and `[]` in the result (which is never a non-nil empty
    slice: explicit coefficients always end with `blockCoeff`). -/
def newSoftS (c : GoConstr) (bl : Int) : Option GoConstr :=
  let coeffs0 : Option (List Int) := if c.coeffs.length ≠ 0 then some c.coeffs else none
  let bc := goBlockCoeff c
  if bc > 0 then
    let lits := c.lits ++ [bl]
    let coeffs1 : Option (List Int) :=
      if coeffs0.isNone && c.atLeast > 1 then some (c.lits.map (fun _ => (1 : Int))) else coeffs0
    let coeffs2 : Option (List Int) := coeffs1.map (fun cs => cs ++ [bc])
    some ⟨lits, coeffs2.getD [], c.atLeast⟩
  else none

/-- What `New` passes to `solver.GtEq` for a soft constraint, and whether a blocking literal
    was created. -/
def newArgS (c : GoConstr) (bl : Int) : GoConstr × Bool :=
  match newSoftS c bl with
  | some r => (r, true)
  | none => (c, false)

/-! ### the whole loop of `maxsat.New`, with Go's numbering -/

/-- One iteration of the loop over `constrs` (current code: the blocking variable is created
    only when `Weight ≠ 0 && blockCoeff > 0`). -/
def newStepS (st : NewState) (c : MsConstr) : NewState :=
  let (varInts, lits) := mapLits st.varInts c.lits
  let g : GoConstr := ⟨lits, c.coeffs, c.atLeast⟩
  if c.weight ≠ 0 ∧ goBlockCoeff g > 0 then
    let varInts := varInts ++ [0]
    let bl := varInts.length
    ⟨varInts, st.block ++ [(bl, c.weight)], st.constrs ++ [(newArgS g (bl : Int)).1]⟩
  else
    ⟨varInts, st.block, st.constrs ++ [g]⟩

def newGoS (cs : List MsConstr) : NewState := cs.foldl newStepS ⟨[], [], []⟩

end GS.MaxSatSigned
