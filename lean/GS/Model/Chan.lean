/-!
# GS.Model.Chan — small-step semantics of Go channels and the gophersat channel protocols

Core-only.  Values carried by channels are abstract identifiers (`Nat`): the i-th result /
model / certificate line.  (In `maxsat.(*Solver).Optimal` the forwarder trims the model before
re-sending it; trimming is a pure per-value function, so the forwarded value is identified with
the received one.)

## Channel semantics (Go memory model / language spec, "Channel types", "Send statements",
"Receive operator", "Close")

A channel has a capacity `cap`, a FIFO buffer `buf` (`buf.length ≤ cap` is an invariant of
every system below) and a `closed` flag.

* buffered send (`sendBuf`): enabled iff the channel is open and `buf.length < cap`; appends.
* **unbuffered send = rendezvous** (`sync`): for `cap = 0` no buffered send is ever enabled
  (`buf.length < 0` is false).  A send completes only together with a receive of another process
  that is *ready* (its next action is a receive on the same channel): both processes advance in
  ONE atomic step, the value goes directly from sender to receiver.  This is the synchronous
  (CSP) reading.  Choice justified: the alternative — a one-slot hand-off buffer plus "sender
  resumes only once the slot was taken" — has exactly one extra intermediate state per send
  ("value deposited, sender still blocked"), in which the only enabled action concerning that
  channel is the matching receive; that state is not observable by any process (the sender is
  blocked, `len(ch)` is 0 for an unbuffered channel), so contracting it gives the same reachable
  observable states and the same deadlocks, while keeping the state space small.
  For `cap > 0` Go may also hand a value directly to a waiting receiver; that is
  indistinguishable from `sendBuf` immediately followed by `recvVal`, so it is not a separate rule.
* send on a closed channel, close of a closed channel, close of a nil (absent) channel:
  the whole program panics — `panic := true`, no further step (`sendClosed`, `closeClosed`, `closeNil`).
  A *blocked* sender also panics when the channel gets closed under it: it is still at its send,
  so `sendClosed` becomes enabled.
* receive: takes the head of the buffer if any (`recvVal`, also on a closed channel: buffered
  values are still delivered after `close`); on an empty closed channel it returns "closed"
  (`recvClosed`); on an empty open channel it blocks (or takes part in a `sync`).
* send / receive on a nil (absent) channel block forever (no rule).

## Processes
Programs are data (`List Instr`); a process is a program plus its local variables
(`hold`: the forwarder's `res` waiting to be re-sent; `got`: log of every value received, in order;
`sawClose`: a receive returned "closed").  `Proc.act` gives the next action of a process,
the scheduler is arbitrary: `LStep` picks any enabled process (any enabled pair for `sync`).
Every step carries the list of events it emits (one event, or `sent; received` for a rendezvous).
-/
namespace GS.Chan

structure Chan where
  cap : Nat
  buf : List Nat
  closed : Bool
deriving DecidableEq, Repr

inductive Instr
  /-- `c <- v` -/
  | send (c : Nat) (v : Nat)
  /-- `<-c` once (value logged in `got`, or `sawClose`) -/
  | recv (c : Nat)
  /-- `close(c)` -/
  | close (c : Nat)
  /-- `for v := range c { log v }` : receive until the channel is seen closed -/
  | range (c : Nat)
  /-- a reader that stops on its own after `k` values (or when it sees the close): `UnsatChan` -/
  | rangeMax (c : Nat) (k : Nat)
  /-- `for res = range src { dst <- res }` -/
  | forward (src dst : Nat)
  /-- `return v` (statically known value) -/
  | ret (v : Option Nat)
  /-- `return res` where `res` is the last value received -/
  | retLast
deriving DecidableEq, Repr

inductive Event
  | sent (c : Nat) (v : Nat)
  | received (c : Nat) (v : Nat)
  | closed (c : Nat)
  /-- a receive on `c` returned "closed" -/
  | sawClosed (c : Nat)
  /-- a `rangeMax` reader stopped reading on its own -/
  | stopped (c : Nat)
  | returned (v : Option Nat)
  | panicked
deriving DecidableEq, Repr

structure Proc where
  code : List Instr
  hold : Option Nat := none
  got : List Nat := []
  sawClose : Bool := false
deriving DecidableEq, Repr

structure State where
  procs : List Proc
  chans : List Chan
  panic : Bool := false
deriving DecidableEq, Repr

/-- Next action of a process, with its continuation(s). -/
inductive Act
  | idle
  | tau (e : Event) (p' : Proc)
  | send (c : Nat) (v : Nat) (p' : Proc)
  | recv (c : Nat) (onVal : Nat → Proc) (onClosed : Proc)
  | close (c : Nat) (p' : Proc)

def Proc.act (p : Proc) : Act :=
  match p.code with
  | [] => .idle
  | .send c v :: rest => .send c v { p with code := rest }
  | .recv c :: rest =>
      .recv c (fun v => { p with code := rest, got := p.got ++ [v] })
              { p with code := rest, sawClose := true }
  | .range c :: rest =>
      .recv c (fun v => { p with got := p.got ++ [v] })
              { p with code := rest, sawClose := true }
  | .rangeMax c 0 :: rest => .tau (.stopped c) { p with code := rest }
  | .rangeMax c (k+1) :: rest =>
      .recv c (fun v => { p with code := .rangeMax c k :: rest, got := p.got ++ [v] })
              { p with code := rest, sawClose := true }
  | .forward src dst :: rest =>
      match p.hold with
      | some v => .send dst v { p with hold := none }
      | none =>
        .recv src (fun v => { p with hold := some v, got := p.got ++ [v] })
                  { p with code := rest, sawClose := true }
  | .close c :: rest => .close c { p with code := rest }
  | .ret v :: rest => .tau (.returned v) { p with code := rest }
  | .retLast :: rest => .tau (.returned p.got.getLast?) { p with code := rest }

def State.setProc (s : State) (i : Nat) (p : Proc) : State := { s with procs := s.procs.set i p }
def State.setChan (s : State) (c : Nat) (ch : Chan) : State := { s with chans := s.chans.set c ch }
def State.crash (s : State) : State := { s with panic := true }

/-- Labelled small-step relation; the scheduler is the nondeterministic choice of `i` (and `j`). -/
inductive LStep : State → List Event → State → Prop
  | tau {s : State} {i : Nat} {p p' : Proc} {e : Event} :
      s.panic = false → s.procs[i]? = some p → p.act = .tau e p' →
      LStep s [e] (s.setProc i p')
  | sendBuf {s : State} {i c v : Nat} {p p' : Proc} {ch : Chan} :
      s.panic = false → s.procs[i]? = some p → p.act = .send c v p' →
      s.chans[c]? = some ch → ch.closed = false → ch.buf.length < ch.cap →
      LStep s [.sent c v] ((s.setProc i p').setChan c { ch with buf := ch.buf ++ [v] })
  | sendClosed {s : State} {i c v : Nat} {p p' : Proc} {ch : Chan} :
      s.panic = false → s.procs[i]? = some p → p.act = .send c v p' →
      s.chans[c]? = some ch → ch.closed = true →
      LStep s [.panicked] s.crash
  | sync {s : State} {i j c v : Nat} {p p' q qc : Proc} {f : Nat → Proc} {ch : Chan} :
      s.panic = false → i ≠ j → s.procs[i]? = some p → s.procs[j]? = some q →
      p.act = .send c v p' → q.act = .recv c f qc →
      s.chans[c]? = some ch → ch.closed = false → ch.cap = 0 → ch.buf = [] →
      LStep s [.sent c v, .received c v] ((s.setProc i p').setProc j (f v))
  | recvVal {s : State} {i c v : Nat} {p pc : Proc} {f : Nat → Proc} {ch : Chan} {b : List Nat} :
      s.panic = false → s.procs[i]? = some p → p.act = .recv c f pc →
      s.chans[c]? = some ch → ch.buf = v :: b →
      LStep s [.received c v] ((s.setProc i (f v)).setChan c { ch with buf := b })
  | recvClosed {s : State} {i c : Nat} {p pc : Proc} {f : Nat → Proc} {ch : Chan} :
      s.panic = false → s.procs[i]? = some p → p.act = .recv c f pc →
      s.chans[c]? = some ch → ch.buf = [] → ch.closed = true →
      LStep s [.sawClosed c] (s.setProc i pc)
  | close {s : State} {i c : Nat} {p p' : Proc} {ch : Chan} :
      s.panic = false → s.procs[i]? = some p → p.act = .close c p' →
      s.chans[c]? = some ch → ch.closed = false →
      LStep s [.closed c] ((s.setProc i p').setChan c { ch with closed := true })
  | closeClosed {s : State} {i c : Nat} {p p' : Proc} {ch : Chan} :
      s.panic = false → s.procs[i]? = some p → p.act = .close c p' →
      s.chans[c]? = some ch → ch.closed = true →
      LStep s [.panicked] s.crash
  | closeNil {s : State} {i c : Nat} {p p' : Proc} :
      s.panic = false → s.procs[i]? = some p → p.act = .close c p' →
      s.chans[c]? = none →
      LStep s [.panicked] s.crash

def Step (s s' : State) : Prop := ∃ l, LStep s l s'

/-- `LReach s0 tr s` : `s` is reachable from `s0` by an execution emitting the events `tr`. -/
inductive LReach (s0 : State) : List Event → State → Prop
  | init : LReach s0 [] s0
  | step {tr l : List Event} {s s' : State} : LReach s0 tr s → LStep s l s' → LReach s0 (tr ++ l) s'

def Reachable (s0 s : State) : Prop := ∃ tr, LReach s0 tr s

/-- `Steps n s s'` : an execution of exactly `n` steps. -/
inductive Steps : Nat → State → State → Prop
  | zero {s : State} : Steps 0 s s
  | succ {n : Nat} {s s' s'' : State} : Steps n s s' → Step s' s'' → Steps (n+1) s s''

/-! ## Executable successors -/

/-- The (at most one) non-rendezvous step of process `i`. -/
def localStep (s : State) (i : Nat) : Option (List Event × State) :=
  match s.procs[i]? with
  | none => none
  | some p =>
    match p.act with
    | .idle => none
    | .tau e p' => some ([e], s.setProc i p')
    | .send c v p' =>
      match s.chans[c]? with
      | none => none
      | some ch =>
        if ch.closed then some ([.panicked], s.crash)
        else if ch.buf.length < ch.cap then
          some ([.sent c v], (s.setProc i p').setChan c { ch with buf := ch.buf ++ [v] })
        else none
    | .recv c f pc =>
      match s.chans[c]? with
      | none => none
      | some ch =>
        match ch.buf with
        | v :: b => some ([.received c v], (s.setProc i (f v)).setChan c { ch with buf := b })
        | [] => if ch.closed then some ([.sawClosed c], s.setProc i pc) else none
    | .close c p' =>
      match s.chans[c]? with
      | none => some ([.panicked], s.crash)
      | some ch =>
        if ch.closed then some ([.panicked], s.crash)
        else some ([.closed c], (s.setProc i p').setChan c { ch with closed := true })

/-- The rendezvous of sender `i` with receiver `j`, if enabled. -/
def syncStep (s : State) (i j : Nat) : Option (List Event × State) :=
  if i = j then none else
  match s.procs[i]?, s.procs[j]? with
  | some p, some q =>
    match p.act, q.act with
    | .send c v p', .recv c' f _ =>
      if c = c' then
        match s.chans[c]? with
        | some ch =>
          if ch.closed = false ∧ ch.cap = 0 ∧ ch.buf = [] then
            some ([.sent c v, .received c v], (s.setProc i p').setProc j (f v))
          else none
        | none => none
      else none
    | _, _ => none
  | _, _ => none

def lsuccessors (s : State) : List (List Event × State) :=
  if s.panic then [] else
  (List.range s.procs.length).flatMap fun i =>
    (localStep s i).toList ++
    (List.range s.procs.length).flatMap fun j => (syncStep s i j).toList

def successors (s : State) : List State := (lsuccessors s).map (·.2)

theorem localStep_sound {s : State} {i : Nat} {l : List Event} {s' : State}
    (hp : s.panic = false) (h : localStep s i = some (l, s')) : LStep s l s' := by
  unfold localStep at h
  split at h
  · cases h
  · rename_i p hpi
    split at h
    · cases h
    · rename_i e p' ha
      cases h; exact .tau hp hpi ha
    · rename_i c v p' ha
      split at h
      · cases h
      · rename_i ch hc
        split at h
        · rename_i hcl
          cases h; exact .sendClosed hp hpi ha hc hcl
        · rename_i hcl
          split at h
          · rename_i hlt
            cases h; exact .sendBuf hp hpi ha hc (by simpa using hcl) hlt
          · cases h
    · rename_i c f pc ha
      split at h
      · cases h
      · rename_i ch hc
        split at h
        · rename_i v b hb
          cases h; exact .recvVal hp hpi ha hc hb
        · rename_i hb
          split at h
          · rename_i hcl
            cases h; exact .recvClosed hp hpi ha hc hb hcl
          · cases h
    · rename_i c p' ha
      split at h
      · rename_i hc
        cases h; exact .closeNil hp hpi ha hc
      · rename_i ch hc
        split at h
        · rename_i hcl
          cases h; exact .closeClosed hp hpi ha hc hcl
        · rename_i hcl
          cases h; exact .close hp hpi ha hc (by simpa using hcl)

theorem syncStep_sound {s : State} {i j : Nat} {l : List Event} {s' : State}
    (hp : s.panic = false) (h : syncStep s i j = some (l, s')) : LStep s l s' := by
  unfold syncStep at h
  split at h
  · cases h
  · rename_i hij
    split at h
    · rename_i p q hpi hqj
      split at h
      · rename_i c v p' c' f qc ha hb
        split at h
        · rename_i hcc
          subst hcc
          split at h
          · rename_i ch hc
            split at h
            · rename_i hcond
              cases h
              exact .sync hp hij hpi hqj ha hb hc hcond.1 hcond.2.1 hcond.2.2
            · cases h
          · cases h
        · cases h
      · cases h
    · cases h

/-- `lsuccessors` is sound and complete w.r.t. `LStep`. -/
theorem lstep_iff_mem {s : State} {l : List Event} {s' : State} :
    LStep s l s' ↔ (l, s') ∈ lsuccessors s := by
  constructor
  · intro h
    have key : ∀ i, i < s.procs.length → s.panic = false →
        ((localStep s i = some (l, s')) ∨ ∃ j, j < s.procs.length ∧ syncStep s i j = some (l, s')) →
        (l, s') ∈ lsuccessors s := by
      intro i hi hp hor
      unfold lsuccessors
      simp only [hp, Bool.false_eq_true, if_false, List.mem_flatMap, List.mem_range, List.mem_append,
        Option.mem_toList]
      refine ⟨i, hi, ?_⟩
      rcases hor with h1 | ⟨j, hj, h2⟩
      · exact Or.inl h1
      · exact Or.inr ⟨j, hj, h2⟩
    have lt_of {i : Nat} {p : Proc} (h : s.procs[i]? = some p) : i < s.procs.length := by
      rcases List.getElem?_eq_some_iff.mp h with ⟨hlt, _⟩; exact hlt
    cases h with
    | tau hp hpi ha =>
      exact key _ (lt_of hpi) hp (Or.inl (by simp [localStep, hpi, ha]))
    | sendBuf hp hpi ha hc hcl hlt =>
      exact key _ (lt_of hpi) hp (Or.inl (by simp [localStep, hpi, ha, hc, hcl, hlt]))
    | sendClosed hp hpi ha hc hcl =>
      exact key _ (lt_of hpi) hp (Or.inl (by simp [localStep, hpi, ha, hc, hcl]))
    | sync hp hij hpi hqj ha hb hc hcl hcap hbuf =>
      exact key _ (lt_of hpi) hp (Or.inr ⟨_, lt_of hqj, by
        simp [syncStep, hij, hpi, hqj, ha, hb, hc, hcl, hcap, hbuf]⟩)
    | recvVal hp hpi ha hc hb =>
      exact key _ (lt_of hpi) hp (Or.inl (by simp [localStep, hpi, ha, hc, hb]))
    | recvClosed hp hpi ha hc hb hcl =>
      exact key _ (lt_of hpi) hp (Or.inl (by simp [localStep, hpi, ha, hc, hb, hcl]))
    | close hp hpi ha hc hcl =>
      exact key _ (lt_of hpi) hp (Or.inl (by simp [localStep, hpi, ha, hc, hcl]))
    | closeClosed hp hpi ha hc hcl =>
      exact key _ (lt_of hpi) hp (Or.inl (by simp [localStep, hpi, ha, hc, hcl]))
    | closeNil hp hpi ha hc =>
      exact key _ (lt_of hpi) hp (Or.inl (by simp [localStep, hpi, ha, hc]))
  · intro h
    unfold lsuccessors at h
    by_cases hp : s.panic = true
    · simp [hp] at h
    · have hp' : s.panic = false := by simpa using hp
      simp only [hp', Bool.false_eq_true, if_false, List.mem_flatMap, List.mem_range, List.mem_append,
        Option.mem_toList] at h
      rcases h with ⟨i, _, h1 | ⟨j, _, h2⟩⟩
      · exact localStep_sound hp' h1
      · exact syncStep_sound hp' h2

theorem step_iff_mem {s s' : State} : Step s s' ↔ s' ∈ successors s := by
  unfold Step successors
  constructor
  · rintro ⟨l, h⟩
    exact List.mem_map.mpr ⟨(l, s'), lstep_iff_mem.mp h, rfl⟩
  · intro h
    rcases List.mem_map.mp h with ⟨⟨l, t⟩, hm, rfl⟩
    exact ⟨l, lstep_iff_mem.mpr hm⟩

/-! ## Bounded exhaustive exploration -/

def dedup : List State → List State
  | [] => []
  | s :: r => if r.elem s then dedup r else s :: dedup r

theorem mem_dedup {s : State} : ∀ {l : List State}, s ∈ dedup l ↔ s ∈ l
  | [] => by simp [dedup]
  | a :: r => by
    unfold dedup
    by_cases h : r.elem a = true
    · simp only [h, if_true]
      have ha : a ∈ r := by simpa using h
      rw [mem_dedup]
      constructor
      · exact fun h => List.mem_cons_of_mem _ h
      · intro h
        rcases List.mem_cons.mp h with rfl | h
        · exact ha
        · exact h
    · simp only [h, Bool.false_eq_true, if_false, List.mem_cons]
      rw [mem_dedup]

/-- States one step after a state of `ss`. -/
def expand (ss : List State) : List State := dedup (ss.flatMap successors)

/-- `layer n ss` : the states reachable from a state of `ss` in exactly `n` steps. -/
def layer : Nat → List State → List State
  | 0, ss => ss
  | n+1, ss => layer n (expand ss)

theorem mem_expand {ss : List State} {s' : State} : s' ∈ expand ss ↔ ∃ s, s ∈ ss ∧ Step s s' := by
  unfold expand
  rw [mem_dedup, List.mem_flatMap]
  constructor
  · rintro ⟨s, hs, h⟩; exact ⟨s, hs, step_iff_mem.mpr h⟩
  · rintro ⟨s, hs, h⟩; exact ⟨s, hs, step_iff_mem.mp h⟩

/-- `Steps` with the step taken at the front. -/
theorem Steps.cons {n : Nat} {s s1 s' : State} (h1 : Step s s1) (h : Steps n s1 s') : Steps (n+1) s s' := by
  induction h with
  | zero => exact .succ .zero h1
  | succ _ h2 ih => exact .succ (ih h1) h2

theorem Steps.uncons {n : Nat} {s s' : State} (h : Steps (n+1) s s') : ∃ s1, Step s s1 ∧ Steps n s1 s' := by
  generalize hm : n + 1 = m at h
  induction h generalizing n with
  | zero => omega
  | @succ k s s1 s2 hk hs ih =>
    have : k = n := by omega
    subst this
    cases k with
    | zero => cases hk; exact ⟨_, hs, .zero⟩
    | succ k =>
      rcases ih rfl with ⟨t, ht, hr⟩
      exact ⟨t, ht, .succ hr hs⟩

/-- The exploration is exact: `layer n ss` is the set of states `n` steps away from `ss`. -/
theorem mem_layer {n : Nat} : ∀ {ss : List State} {s' : State},
    s' ∈ layer n ss ↔ ∃ s, s ∈ ss ∧ Steps n s s' := by
  induction n with
  | zero =>
    intro ss s'
    simp only [layer]
    constructor
    · intro h; exact ⟨s', h, .zero⟩
    · rintro ⟨s, hs, h⟩; cases h; exact hs
  | succ n ih =>
    intro ss s'
    simp only [layer]
    rw [ih]
    constructor
    · rintro ⟨s1, h1, hr⟩
      rcases mem_expand.mp h1 with ⟨s, hs, hst⟩
      exact ⟨s, hs, Steps.cons hst hr⟩
    · rintro ⟨s, hs, h⟩
      rcases Steps.uncons h with ⟨s1, h1, hr⟩
      exact ⟨s1, mem_expand.mpr ⟨s, hs, h1⟩, hr⟩

/-- All states within `n` steps. -/
def reachN : Nat → List State → List State
  | 0, ss => ss
  | n+1, ss => ss ++ reachN n (expand ss)

theorem mem_reachN {n : Nat} : ∀ {ss : List State} {s' : State},
    s' ∈ reachN n ss ↔ ∃ k, k ≤ n ∧ s' ∈ layer k ss := by
  induction n with
  | zero =>
    intro ss s'
    simp only [reachN]
    constructor
    · intro h; exact ⟨0, Nat.le_refl _, h⟩
    · rintro ⟨k, hk, h⟩
      have : k = 0 := by omega
      subst this; exact h
  | succ n ih =>
    intro ss s'
    simp only [reachN, List.mem_append]
    rw [ih]
    constructor
    · rintro (h | ⟨k, hk, h⟩)
      · exact ⟨0, by omega, h⟩
      · exact ⟨k+1, by omega, h⟩
    · rintro ⟨k, hk, h⟩
      cases k with
      | zero => exact Or.inl h
      | succ k => exact Or.inr ⟨k, by omega, h⟩

theorem reachable_iff_steps {s0 s : State} : Reachable s0 s ↔ ∃ n, Steps n s0 s := by
  constructor
  · rintro ⟨tr, h⟩
    induction h with
    | init => exact ⟨0, .zero⟩
    | step _ hs ih => rcases ih with ⟨n, hn⟩; exact ⟨n+1, .succ hn ⟨_, hs⟩⟩
  · rintro ⟨n, h⟩
    induction h with
    | zero => exact ⟨[], .init⟩
    | succ _ hs ih =>
      rcases ih with ⟨tr, htr⟩
      rcases hs with ⟨l, hl⟩
      exact ⟨tr ++ l, .step htr hl⟩

/-! ## The three protocols -/

/-- (P)/(E): `solver.Optimal(results, stop)` / `Enumerate(models, stop)` with a consumer that
    receives until it sees the close.  Process 0 = producer, process 1 = consumer, channel 0 = `results`.
    The producer returns its last result (`vals.getLast?`). -/
def producerCode (vals : List Nat) : List Instr :=
  vals.map (Instr.send 0) ++ [.close 0, .ret vals.getLast?]

def producerSystem (cap : Nat) (vals : List Nat) : State :=
  { procs := [ { code := producerCode vals }, { code := [.range 0] } ],
    chans := [ ⟨cap, [], false⟩ ] }

/-- (F): `maxsat.(*Solver).Optimal`.  Channel 0 = `localRes` (unbuffered), channel 1 = `results`
    (capacity `cap`).  Process 0 = `go s.solver.Optimal(localRes, stop)` (its return value is
    discarded), process 1 = the forwarder (`defer close(results)` runs when the range loop ends,
    then it returns the last `res`), process 2 = consumer of `results`. -/
def forwarderSystem (cap : Nat) (vals : List Nat) : State :=
  { procs := [ { code := vals.map (Instr.send 0) ++ [.close 0] },
               { code := [.forward 0 1, .close 1, .retLast] },
               { code := [.range 1] } ],
    chans := [ ⟨0, [], false⟩, ⟨cap, [], false⟩ ] }

/-- (U): `explain.(*Problem).UnsatSubset`.  Channel 0 = `s.CertChan` (unbuffered), channel 1 = `done`
    (capacity 1).  Process 0 = the goroutine: `s.Solve()` sends the certificate lines `vals`, then
    `close(s.CertChan); done <- st`.  Process 1 = the caller: `UnsatChan` reads at most `k` lines
    (it may stop early), then `for range s.CertChan {}`, then `status := <-done`, which it returns. -/
def unsatSubsetSystem (vals : List Nat) (k : Nat) (st : Nat) : State :=
  { procs := [ { code := vals.map (Instr.send 0) ++ [.close 0, .send 1 st] },
               { code := [.rangeMax 0 k, .range 0, .recv 1, .retLast] } ],
    chans := [ ⟨0, [], false⟩, ⟨1, [], false⟩ ] }

/-- Final state: every process has finished, every channel is closed or empty-and-done,
    no panic.  (System-specific refinements are stated in the Props file.) -/
def State.allDone (s : State) : Bool := s.procs.all (fun p => p.code.isEmpty) && !s.panic

/-! ## Trace checker -/

/-- `run fuel s evs` : can `s` emit exactly the event sequence `evs`?  Every step emits at least one
    event, so `fuel = evs.length` suffices. -/
def run : Nat → State → List Event → Bool
  | _, _, [] => true
  | 0, _, _ :: _ => false
  | fuel+1, s, e :: evs =>
    (lsuccessors s).any fun (l, s') =>
      l ≠ [] && l.isPrefixOf (e :: evs) && run fuel s' ((e :: evs).drop l.length)

def sentVals : List Event → List Nat
  | [] => []
  | .sent _ v :: r => v :: sentVals r
  | _ :: r => sentVals r

/-- Is `events` a trace of `producerSystem cap vals` for some `vals`?  The only candidate is
    `vals = ` the values sent in `events` (theorem `acceptsTrace_iff` in the Props file). -/
def acceptsTrace (cap : Nat) (events : List Event) : Bool :=
  run events.length (producerSystem cap (sentVals events)) events

end GS.Chan
