import GS.Spec.Formula
/-!
# GS.Model.BfParse — mirror of the recursive-descent parser of `bf/parser.go`

Tokens are what `text/scanner` returns for the texts the harness generates (identifiers,
single punctuation characters); producing them from bytes is trusted glue, validated by
the exact differential on every generated text. Token encoding: `v<i>` identifier number
`i`, `k<i>` an identifier that is a Go keyword (rejected inside braces by `token.Lookup`),
anything else is the punctuation itself (`BAR` for `|`).

The mirror follows the Go functions one by one, including the end-of-input tests, so that
`parse toks` is `ok f` exactly when `bf.Parse` returns a formula, and then `f` is the same tree.
Fuel: every call consumes at least one token or moves to a strictly lower grammar level,
`8 * (length + 1)` suffices; running out of fuel is reported as `fuel` (never observed).
-/
namespace GS.BfParse
open GS

inductive Res (α : Type) where
  | ok (a : α) (rest : List String)
  | err
  | fuel
deriving Repr

def isOperator (t : String) : Bool := t = "=" || t = "->" || t = "BAR" || t = "&" || t = ";"

/-- variable number of a token used as a name (any token is accepted as a name outside braces) -/
def symCode : String → Nat
  | "," => 2000 | "}" => 2001 | ">" => 2002 | "-" => 2003 | "{" => 2004 | "^" => 2005 | "(" => 2006
  | ")" => 2007 | "=" => 2008 | "&" => 2009 | "BAR" => 2010 | ";" => 2011
  | _ => 2999

def nameId (t : String) : Nat :=
  if t.startsWith "v" then ((t.drop 1).toNat?).getD 2998
  else if t.startsWith "k" then 1000 + ((t.drop 1).toNat?).getD 0
  else symCode t

/-- `token.Lookup(t) == token.IDENT`: everything that is not a Go keyword -/
def lookupIsIdent (t : String) : Bool := !(t.startsWith "k")

/-- the loop of `parseBasic` for `{ ... }`: the current token is `{` or `,`; returns the names -/
def braceLoop : Nat → List String → List Nat → Res (List Nat)
  | 0, _, _ => .fuel
  | fuel+1, toks, acc =>
    -- p.scan()
    match toks with
    | [] => .err                                     -- expected identifier, found EOF
    | t :: rest =>
      if !lookupIsIdent t then .err else
      let acc := acc ++ [nameId t]
      -- p.scan()
      match rest with
      | [] => .err                                   -- expected comma or closing brace, found EOF
      | t2 :: rest2 =>
        if t2 = "}" then .ok acc rest2               -- loop ends; final p.scan()
        else if t2 = "," then braceLoop fuel rest2 acc
        else .err

mutual
def parseClause : Nat → List String → Res SF
  | 0, _ => .fuel
  | fuel+1, toks =>
    match toks with
    | t :: _ => if isOperator t then .err else clauseRest fuel toks
    | [] => clauseRest fuel toks
def clauseRest : Nat → List String → Res SF
  | 0, _ => .fuel
  | fuel+1, toks =>
    match parseEquiv fuel toks with
    | .ok f rest =>
      match rest with
      | [] => .ok f []
      | ";" :: rest2 =>
        match rest2 with
        | [] => .ok f []                              -- trailing ';' is accepted
        | _ => match parseClause fuel rest2 with
               | .ok f2 r => .ok (SF.and [f, f2]) r
               | .err => .err
               | .fuel => .fuel
      | _ => .ok f rest
    | .err => .err
    | .fuel => .fuel
def parseEquiv : Nat → List String → Res SF
  | 0, _ => .fuel
  | fuel+1, toks =>
    match toks with
    | [] => .err
    | t :: _ =>
      if isOperator t then .err else
      match parseImplies fuel toks with
      | .ok f rest =>
        match rest with
        | "=" :: rest2 =>
          match rest2 with
          | [] => .err
          | _ => match parseEquiv fuel rest2 with
                 | .ok f2 r => .ok (SF.iff f f2) r
                 | .err => .err
                 | .fuel => .fuel
        | _ => .ok f rest
      | .err => .err
      | .fuel => .fuel
def parseImplies : Nat → List String → Res SF
  | 0, _ => .fuel
  | fuel+1, toks =>
    match parseOr fuel toks with
    | .ok f rest =>
      match rest with
      | "-" :: rest2 =>
        match rest2 with
        | [] => .err
        | ">" :: rest3 =>
          match rest3 with
          | [] => .err
          | _ => match parseImplies fuel rest3 with
                 | .ok f2 r => .ok (SF.imp f f2) r
                 | .err => .err
                 | .fuel => .fuel
        | _ => .err
      | _ => .ok f rest
    | .err => .err
    | .fuel => .fuel
def parseOr : Nat → List String → Res SF
  | 0, _ => .fuel
  | fuel+1, toks =>
    match parseAnd fuel toks with
    | .ok f rest =>
      match rest with
      | "BAR" :: rest2 =>
        match rest2 with
        | [] => .err
        | _ => match parseOr fuel rest2 with
               | .ok f2 r => .ok (SF.or [f, f2]) r
               | .err => .err
               | .fuel => .fuel
      | _ => .ok f rest
    | .err => .err
    | .fuel => .fuel
def parseAnd : Nat → List String → Res SF
  | 0, _ => .fuel
  | fuel+1, toks =>
    match parseNot fuel toks with
    | .ok f rest =>
      match rest with
      | "&" :: rest2 =>
        match rest2 with
        | [] => .err
        | _ => match parseAnd fuel rest2 with
               | .ok f2 r => .ok (SF.and [f, f2]) r
               | .err => .err
               | .fuel => .fuel
      | _ => .ok f rest
    | .err => .err
    | .fuel => .fuel
def parseNot : Nat → List String → Res SF
  | 0, _ => .fuel
  | fuel+1, toks =>
    match toks with
    | [] => parseBasic fuel toks
    | t :: rest =>
      if isOperator t then .err
      else if t = "^" then
        match rest with
        | [] => .err
        | _ => match parseNot fuel rest with
               | .ok f r => .ok (SF.not f) r
               | .err => .err
               | .fuel => .fuel
      else parseBasic fuel toks
def parseBasic : Nat → List String → Res SF
  | 0, _ => .fuel
  | fuel+1, toks =>
    match toks with
    | [] => .ok (SF.var 2997) []                     -- Var("") at end of input (not reachable from Parse)
    | t :: rest =>
      if isOperator t || t = ")" then .err
      else if t = "(" then
        match parseClause fuel rest with
        | .ok f r =>
          match r with
          | [] => .err
          | ")" :: r2 => .ok f r2
          | _ => .err
        | .err => .err
        | .fuel => .fuel
      else if t = "{" then
        match braceLoop fuel rest [] with
        | .ok ns r => .ok (SF.unique ns) r
        | .err => .err
        | .fuel => .fuel
      else .ok (SF.var (nameId t)) rest
end

/-- `bf.Parse`: a formula, then end of input. -/
def parse (toks : List String) : Res SF :=
  match parseClause (8 * (toks.length + 1)) toks with
  | .ok f [] => .ok f []
  | .ok _ _ => .err
  | .err => .err
  | .fuel => .fuel

mutual
def showSF : SF → String
  | .var n => s!"v {n}"
  | .tt => "t"
  | .ff => "f"
  | .not f => "n " ++ showSF f
  | .and fs => s!"a {fs.length}" ++ showSFs fs
  | .or fs => s!"o {fs.length}" ++ showSFs fs
  | .imp a b => "i " ++ showSF a ++ " " ++ showSF b
  | .iff a b => "e " ++ showSF a ++ " " ++ showSF b
  | .xor a b => "x " ++ showSF a ++ " " ++ showSF b
  | .unique ns => s!"u {ns.length}" ++ String.join (ns.map (fun n => s!" {n}"))
def showSFs : List SF → String
  | [] => ""
  | f :: fs => " " ++ showSF f ++ showSFs fs
end

end GS.BfParse
