import GS.Spec.MaxSat
/-!
# GS.Model.MaxSatEnc — the blocking-literal encoding of weighted partial MaxSAT

Core-only. Mirrors what `maxsat.New` (/repo/maxsat/problem.go) and `maxsat.ParseWCNF`
(/repo/maxsat/parser.go) build before they hand the problem to the pseudo-boolean optimiser:

* every soft constraint `Σ cᵢ·lᵢ ≥ d` of weight `w` gets a fresh *blocking* (relaxation) literal
  `b` and becomes `Σ cᵢ·lᵢ + d·b ≥ d` (`relax`);
* hard constraints are kept as they are;
* the cost function is `Σ w·b`.

Numbering. `ParseWCNF` numbers the relaxation variables `nbVars+1, nbVars+2, …` in the order of
the soft clauses: `wcnfGo` / `wcnfEncode` mirror this literally. `New` interleaves the blocking
variables with the user's variables (a blocking variable is `len(varInts)` at the moment its
constraint is visited); `encode` uses the numbering `n+1+i` instead, i.e. it is `New` up to the
renaming of variables that moves the blocking variables behind the user's ones (the harness op
`msenc` is compared with `New` up to this renaming). `newSoft` mirrors the three branches of
`New` (clause / cardinality / PB) on one constraint, before `solver.GtEq`.
-/
namespace GS.MaxSatEnc
open GS

/-- `c` with the extra term `degree · b`: the relaxed form of a soft constraint. -/
def relax (c : Lin) (b : Int) : Lin := ⟨c.terms ++ [(c.degree, b)], c.degree⟩

/-- Relax the soft constraints in order, with blocking variables `k, k+1, …`. -/
def relaxFrom : Nat → List Soft → Problem
  | _, [] => []
  | k, s :: ss => relax s.c (k : Int) :: relaxFrom (k + 1) ss

/-- The cost function `Σ weightᵢ · b_{k+i}`. -/
def costFrom : Nat → List Soft → List (Int × Int)
  | _, [] => []
  | k, s :: ss => (s.weight, (k : Int)) :: costFrom (k + 1) ss

/-- The encoded problem and its cost function; user variables are `1..n`, the `i`-th soft
    constraint (0-based) is relaxed with the blocking variable `n+1+i`. -/
def encode (n : Nat) (hard : Problem) (soft : List Soft) : Problem × List (Int × Int) :=
  (hard ++ relaxFrom (n + 1) soft, costFrom (n + 1) soft)

/-- The same encoding with an arbitrary list of blocking variables (`maxsat.New` interleaves
    them with the user's variables): the `i`-th soft constraint is relaxed with `bs[i]`. -/
def relaxWith : List Nat → List Soft → Problem
  | b :: bs, s :: ss => relax s.c (b : Int) :: relaxWith bs ss
  | _, _ => []

def costWith : List Nat → List Soft → List (Int × Int)
  | b :: bs, s :: ss => (s.weight, (b : Int)) :: costWith bs ss
  | _, _ => []

def encodeWith (bs : List Nat) (hard : Problem) (soft : List Soft) : Problem × List (Int × Int) :=
  (hard ++ relaxWith bs soft, costWith bs soft)

/-! ### one constraint of `maxsat.New`, branch by branch -/

/-- A `solver.GtEq` call site: literals, coefficients (`[]` = Go's `nil` = all 1), bound. -/
structure GoConstr where
  lits : List Int
  coeffs : List Int
  atLeast : Int
deriving Repr, DecidableEq, Inhabited

/-- Lines 38-59 of problem.go for a soft constraint (`Weight != 0`) with blocking literal `bl`.
    Go's `nil` slice is `none` here: `coeffs` is `nil` when `len(constr.Coeffs) == 0`;
    `lits = append(lits, bl)`; a cardinality constraint (`coeffs == nil && AtLeast > 1`) gets
    explicit unit coefficients (`make([]int, len(Lits))` is non-nil even when empty); if
    `coeffs != nil` the blocking literal gets coefficient `AtLeast`. The result is never a
    non-nil empty slice, so it is returned with `[]` standing for `nil`. -/
def newSoft (c : GoConstr) (bl : Int) : GoConstr :=
  let coeffs0 : Option (List Int) := if c.coeffs.length ≠ 0 then some c.coeffs else none
  let lits := c.lits ++ [bl]
  let coeffs1 : Option (List Int) :=
    if coeffs0.isNone && c.atLeast > 1 then some (c.lits.map (fun _ => (1 : Int))) else coeffs0
  let coeffs2 : Option (List Int) := coeffs1.map (fun cs => cs ++ [c.atLeast])
  ⟨lits, coeffs2.getD [], c.atLeast⟩

/-- Meaning of a `GtEq` call: `nil` coefficients are all 1 (a clause or a cardinality
    constraint); otherwise literals and coefficients are paired (Go panics on a length mismatch:
    `none`). -/
def GoConstr.toLin (c : GoConstr) : Option Lin :=
  if c.coeffs.isEmpty then some ⟨c.lits.map (fun l => (1, l)), c.atLeast⟩
  else if c.coeffs.length = c.lits.length then some ⟨c.coeffs.zip c.lits, c.atLeast⟩
  else none

/-! ### the whole loop of `maxsat.New`, with Go's numbering -/

/-- A `maxsat.Constr`. Variable names are identified with positive integers: the literal `l`
    stands for `Lit{Var: name |l|, Negated: l < 0}`. `coeffs = []` is Go's `nil`/empty `Coeffs`;
    `weight = 0` means hard. -/
structure MsConstr where
  lits : List Int
  coeffs : List Int
  atLeast : Int
  weight : Int
deriving Repr, DecidableEq, Inhabited

/-- State of the loop: `varInts` (name of each solver variable `1..`; `0` stands for the name
    `""` of a blocking literal), `blockWeights` (in creation order; Go iterates the map in an
    unspecified order) and `clauses`. `intVars` is the inverse of `varInts` on the user's names. -/
structure NewState where
  varInts : List Int
  block : List (Nat × Int)
  constrs : List GoConstr
deriving Repr, DecidableEq, Inhabited

/-- `pb.intVars[v]`: 1-based position of the name in `varInts`. -/
def lookupVar (varInts : List Int) (v : Int) : Option Nat :=
  let i := varInts.idxOf v
  if i < varInts.length then some (i + 1) else none

/-- Lines 27-37: map the literals of one constraint, registering unseen names. -/
def mapLits (varInts : List Int) : List Int → List Int × List Int
  | [] => (varInts, [])
  | l :: ls =>
    let v : Int := (l.natAbs : Int)
    let (varInts1, idx) : List Int × Nat := match lookupVar varInts v with
      | some i => (varInts, i)
      | none => (varInts ++ [v], varInts.length + 1)
    let lit : Int := if l < 0 then -(idx : Int) else (idx : Int)
    let (vs, rest) := mapLits varInts1 ls
    (vs, lit :: rest)

/-- One iteration of the loop over `constrs`. -/
def newStep (st : NewState) (c : MsConstr) : NewState :=
  let (varInts, lits) := mapLits st.varInts c.lits
  if c.weight ≠ 0 then
    let varInts := varInts ++ [0]
    let bl := varInts.length
    ⟨varInts, st.block ++ [(bl, c.weight)], st.constrs ++ [newSoft ⟨lits, c.coeffs, c.atLeast⟩ (bl : Int)]⟩
  else
    ⟨varInts, st.block, st.constrs ++ [⟨lits, c.coeffs, c.atLeast⟩]⟩

def newGo (cs : List MsConstr) : NewState := cs.foldl newStep ⟨[], [], []⟩

/-- The cost function `Σ weight · blocking literal`. -/
def NewState.costFn (st : NewState) : List (Int × Int) := st.block.map (fun bw => (bw.2, (bw.1 : Int)))

/-! ### `ParseWCNF` -/

/-- The clause loop of `ParseWCNF` + `parseWCNFClause`: `top = 0` means "no top weight";
    a clause of weight `w` is soft iff `top = 0 ∨ w < top`, in which case the current relax
    literal is appended, the weight recorded and the relax literal incremented.
    Returns the clauses, the weights and the final value of `relaxLit`. -/
def wcnfGo (top : Int) : Nat → List (Int × List Int) → List (List Int) × List Int × Nat
  | k, [] => ([], [], k)
  | k, (w, c) :: rest =>
    if top = 0 ∨ w < top then
      let (cs, ws, k') := wcnfGo top (k + 1) rest
      ((c ++ [(k : Int)]) :: cs, w :: ws, k')
    else
      let (cs, ws, k') := wcnfGo top k rest
      (c :: cs, ws, k')

/-- `relaxLits[i] = nbVars + i + 1` for `i < relaxLit - nbVars - 1`. -/
def relaxLits (n : Nat) (relaxLit : Nat) : List Int :=
  (List.range (relaxLit - n - 1)).map (fun i => ((n + i + 1 : Nat) : Int))

/-- What `ParseWCNF` gives to the solver: the clauses (soft ones with their relax literal),
    the cost terms `(weight, relax literal)`, the number of variables `relaxLit - 1`
    (`ParseSliceNb`) and `firstRelax = nbVars`. -/
structure WcnfOut where
  clauses : List (List Int)
  costFn : List (Int × Int)
  nbVars : Nat
  firstRelax : Nat
deriving Repr, DecidableEq, Inhabited

def wcnfEncode (n : Nat) (top : Int) (cls : List (Int × List Int)) : WcnfOut :=
  let (cs, ws, k) := wcnfGo top (n + 1) cls
  ⟨cs, ws.zip (relaxLits n k), k - 1, n⟩

/-- The hard clauses of a WCNF instance (weight ≥ top, when a top weight is given). -/
def wcnfHard (top : Int) (cls : List (Int × List Int)) : List (List Int) :=
  (cls.filter (fun wc => !decide (top = 0 ∨ wc.1 < top))).map (·.2)

/-- The soft clauses of a WCNF instance, as weighted linear constraints. -/
def wcnfSoft (top : Int) (cls : List (Int × List Int)) : List Soft :=
  (cls.filter (fun wc => decide (top = 0 ∨ wc.1 < top))).map (fun wc => ⟨wc.1, Lin.ofClause wc.2⟩)

end GS.MaxSatEnc
