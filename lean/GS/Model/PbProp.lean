import GS.Spec.Basic
/-!
# GS.Model.PbProp — propagation of ONE cardinality / pseudo-boolean constraint (`/repo/solver/watcher.go`)

Line-by-line mirror, on a single constraint, of `watchPB`, `watchCardAMO`, the cardinality branch of
`watchClause`, `simplifyCardConstr`, `simplifyCardAMOConstr`, `swapFalse`, `slackSum`, `propagateAll`,
`simplifyPseudoBool`, `updateWatchPB`, `removeFrom`, `propagateUnit`.

* A constraint is `Clause{lits, lbdValue = card-1, pbData{weights, watched}}`, read `Σ wᵢ·[litᵢ] ≥ card`.
  Here: `lits : List Int` (DIMACS), `weights : List Int`, `card : Int`, `watched : List Bool`.
* The assignment is `s.model`: per variable a signed decision level, `0` = unbound; here `Nat → Int`
  indexed by the DIMACS variable number (`s.model[lit.Var()]` is `m lit.natAbs`).
* `propagateUnit(c, lvl, unit)` binds `unit` at `lvl` and pushes it on the trail: the literals handed to it
  are collected in order in `St.props` and the binding is seen by the rest of the function (`bind`).
* The watch lists: `wlistPb[lit.Negation()]` is edited by `append` / `removeFrom`; an edit is recorded as
  `(true, lit)` (append to the list of `lit.Negation()`) or `(false, lit)` (removeFrom it) in `St.edits`.
  `St.watched` is, position by position, "the constraint is a member of `wlistPb[lits[i].Negation()]`".
  For a pseudo-boolean constraint that is exactly `pbData.watched` (every write of a flag in
  `watchPB` / `updateWatchPB` / `unwatchPB` is paired with the list edit: *consistency* of flags and
  lists is assumed here, it is what makes `removeFrom` safe in `updateWatchPB`); a cardinality
  constraint (`pbData == nil`) has no flags, `watched` is then only the membership and follows the
  literal when `swapFalse` swaps two positions.
* Go panics (index out of range, `removeFrom` on a list that does not hold the constraint) are `Res.panic`;
  running out of fuel is `Res.fuel` (never happens with the fuel the top-level functions pass: see
  `GS.Props.C02_PbProp`).

Note on `watchClause`: the test that selects `watchCardAMO` is `card == c.Len()+1` (as written in the
code; the comment of `wlistCardAMO` says `card = length - 1`).  `NewCardClause` refuses `card > len`,
so no constraint ever enters `wlistCardAMO` and `simplifyCardAMOConstr` is never dispatched by
`propagate`; an at-most-one shaped constraint (`card = len-1`) lives in `wlistPb` and is handled by
`simplifyCardConstr`.  `simplifyCardAMOConstr` is mirrored all the same (`simplifyCardAMO`).
Core-only.
-/
namespace GS.PbProp
open GS

/-- Result of a mirrored Go function: value, Go panic, or fuel exhausted. -/
inductive Res (α : Type) where
  | ok (a : α)
  | panic
  | fuel
deriving Repr, DecidableEq

def Res.bind {α β : Type} : Res α → (α → Res β) → Res β
  | .ok a, f => f a
  | .panic, _ => .panic
  | .fuel, _ => .fuel

instance : Monad Res where
  pure := Res.ok
  bind := Res.bind

@[simp] theorem Res.bind_ok {α β : Type} (a : α) (f : α → Res β) : (Res.ok a >>= f) = f a := rfl
@[simp] theorem Res.bind_panic {α β : Type} (f : α → Res β) : ((Res.panic : Res α) >>= f) = .panic := rfl
@[simp] theorem Res.bind_fuel {α β : Type} (f : α → Res β) : ((Res.fuel : Res α) >>= f) = .fuel := rfl
@[simp] theorem Res.pure_eq {α : Type} (a : α) : (pure a : Res α) = .ok a := rfl

/-- `Indet` / `Sat` / `Unsat` of `litStatus`. -/
inductive Status where
  | indet | sat | unsat
deriving Repr, DecidableEq

/-- `s.litStatus(l)`. -/
def litStatus (m : Nat → Int) (l : Int) : Status :=
  if m l.natAbs = 0 then .indet
  else if decide (m l.natAbs > 0) = decide (l > 0) then .sat else .unsat

/-- `lvlToSignedLvl(l, lvl)`. -/
def signedLvl (l lvl : Int) : Int := if l > 0 then lvl else -lvl

/-- `s.model[unit.Var()] = lvlToSignedLvl(unit, lvl)`. -/
def bind (m : Nat → Int) (l lvl : Int) : Nat → Int :=
  fun v => if v = l.natAbs then signedLvl l lvl else m v

/-- The part of the solver one call touches. -/
structure St where
  m : Nat → Int
  lits : List Int
  weights : List Int
  watched : List Bool
  props : List Int
  edits : List (Bool × Int)

/-- `propagateUnit(c, lvl, unit)`. -/
def propagateUnit (st : St) (lvl l : Int) : St :=
  { st with m := bind st.m l lvl, props := st.props ++ [l] }

/-- `clause.swap(i, j)` on one slice. -/
def swapL {α : Type} (xs : List α) (i j : Nat) : List α :=
  match xs[i]?, xs[j]? with
  | some a, some b => (xs.set i b).set j a
  | _, _ => xs

/-! ## Initial watches -/

/-- `watchPB`: returns the flags and the appends, in order. -/
def watchPBLoop (goal : Int) : List Int → List Int → Int → Res (List Bool × List (Bool × Int))
  | [], _, _ => .ok ([], [])
  | l :: ls, ws, sum =>
    if sum < goal then
      match ws with
      | [] => .panic -- `c.Weight(i)`
      | w :: ws' => do
        let (fl, ed) ← watchPBLoop goal ls ws' (sum + w)
        pure (true :: fl, (true, l) :: ed)
    else .ok ((l :: ls).map (fun _ => false), [])

def watchPB (lits weights : List Int) (card : Int) : Res (List Bool × List (Bool × Int)) :=
  match weights with
  | [] => .panic -- `c.Weight(0)`
  | w0 :: _ => watchPBLoop (w0 + card) lits weights 0

/-- `for i := 0; i < n; i++ { lit := c.Get(i); append }` of `watchClause` (cardinality branch, `n = card+1`)
    and of `watchCardAMO`. -/
def watchFirst (lits : List Int) : Nat → Nat → Res (List (Bool × Int))
  | 0, _ => .ok []
  | n + 1, i =>
    match lits[i]? with
    | none => .panic
    | some l => do
      let ed ← watchFirst lits n (i + 1)
      pure ((true, l) :: ed)

/-- Which list `watchClause` puts a cardinality constraint (`card > 1`, no `pbData`) in:
    `true` = `wlistCardAMO` (test as written: `card == c.Len()+1`), `false` = `wlistPb`. -/
def watchCardIsAMO (lits : List Int) (card : Int) : Bool := decide (card = (lits.length : Int) + 1)

/-! ## simplifyCardConstr -/

inductive CountRes where
  | sat
  | confl
  | fin (nbTrue nbFalse nbUnb : Int)
deriving Repr, DecidableEq

/-- The counting loop of `simplifyCardConstr` from position `i` on (`ls` = the literals not yet seen). -/
def countLoop (m : Nat → Int) (len card : Int) : List Int → Int → Int → Int → CountRes
  | [], t, f, u => .fin t f u
  | l :: ls, t, f, u =>
    match litStatus m l with
    | .indet =>
      if (u + 1) + t > card then .fin t f (u + 1) else countLoop m len card ls t f (u + 1)
    | .sat =>
      if t + 1 = card then .sat
      else if u + (t + 1) > card then .fin (t + 1) f u else countLoop m len card ls (t + 1) f u
    | .unsat =>
      if len - (f + 1) < card then .confl
      else if u + t > card then .fin t (f + 1) u else countLoop m len card ls t (f + 1) u

/-- `i := 0; for nbUnb > 0 { lit := clause.Get(i); if s.model[lit.Var()] == 0 { propagateUnit; nbUnb-- } else { i++ } }`. -/
def cardPropLoop (lvl : Int) : Nat → St → Nat → Int → Res St
  | fuel, st, i, nbUnb =>
    if nbUnb > 0 then
      match fuel with
      | 0 => .fuel
      | fuel + 1 =>
        match st.lits[i]? with
        | none => .panic
        | some lit =>
          if st.m lit.natAbs = 0 then cardPropLoop lvl fuel (propagateUnit st lvl lit) i (nbUnb - 1)
          else cardPropLoop lvl fuel st (i + 1) nbUnb
    else .ok st

/-- First inner loop of `swapFalse`: `lit := Get(i); for status(lit) != Unsat { i++; if i == card+1 { return }; lit = Get(i) }`.
    `none` = the function returned. -/
def skipNonFalse (m : Nat → Int) (lits : List Int) (card1 : Int) : Nat → Nat → Res (Option Nat)
  | fuel, i =>
    match lits[i]? with
    | none => .panic
    | some lit =>
      if litStatus m lit ≠ .unsat then
        if ((i : Int) + 1) = card1 then .ok none
        else match fuel with
          | 0 => .fuel
          | fuel + 1 => skipNonFalse m lits card1 fuel (i + 1)
      else .ok (some i)

/-- Second inner loop: `lit = Get(j); for status(lit) == Unsat { j++; lit = Get(j) }`. -/
def skipFalse (m : Nat → Int) (lits : List Int) : Nat → Nat → Res Nat
  | fuel, j =>
    match lits[j]? with
    | none => .panic
    | some lit =>
      if litStatus m lit = .unsat then
        match fuel with
        | 0 => .fuel
        | fuel + 1 => skipFalse m lits fuel (j + 1)
      else .ok j

/-- Body of the outer loop of `swapFalse` once `i` and `j` are found: `clause.swap(i, j)`,
    `removeFrom(wlistPb[¬lit_i])` (panics when the constraint is not in it), `append(wlistPb[¬lit_j])`. -/
def swapStep (st : St) (i j : Nat) : Res St :=
  match st.lits[i]?, st.lits[j]? with
  | some li, some lj =>
    if st.watched[i]? = some true then
      .ok { st with
        lits := swapL st.lits i j
        weights := swapL st.weights i j
        watched := (st.watched.set i true).set j false
        edits := st.edits ++ [(false, li), (true, lj)] }
    else .panic
  | _, _ => .panic

/-- Outer loop of `swapFalse`. -/
def swapFalseLoop (card1 : Int) : Nat → St → Nat → Nat → Res St
  | fuel, st, i, j =>
    if (i : Int) < card1 then
      match fuel with
      | 0 => .fuel
      | fuel + 1 =>
        match skipNonFalse st.m st.lits card1 st.lits.length i with
        | .ok none => .ok st
        | .ok (some i') =>
          match skipFalse st.m st.lits st.lits.length j with
          | .ok j' =>
            match swapStep st i' j' with
            | .ok st' => swapFalseLoop card1 fuel st' (i' + 1) (j' + 1)
            | .panic => .panic
            | .fuel => .fuel
          | .panic => .panic
          | .fuel => .fuel
        | .panic => .panic
        | .fuel => .fuel
    else .ok st

/-- `swapFalse(clause)`. -/
def swapFalse (card : Int) (st : St) : Res St :=
  swapFalseLoop (card + 1) (st.lits.length + 1) st 0 (card + 1).toNat

/-- `simplifyCardConstr(clause, lvl)`: the Boolean returned (`false` = conflict) and the state after. -/
def simplifyCard (lvl card : Int) (st : St) : Res (Bool × St) :=
  match countLoop st.m st.lits.length card st.lits 0 0 0 with
  | .sat => .ok (true, st)
  | .confl => .ok (false, st)
  | .fin t _ u =>
    if u + t = card then do
      let st' ← cardPropLoop lvl (u.toNat + st.lits.length + 1) st 0 u
      pure (true, st')
    else do
      let st' ← swapFalse card st
      pure (true, st')

/-! ## simplifyCardAMOConstr -/

/-- First loop: `false` when a second false literal is met. -/
def amoScan (m : Nat → Int) (lits : List Int) : Nat → Nat → Bool → Res Bool
  | 0, _, _ => .ok true
  | n + 1, i, ff =>
    match lits[i]? with
    | none => .panic
    | some l =>
      if litStatus m l = .unsat then
        if ff then .ok false else amoScan m lits n (i + 1) true
      else amoScan m lits n (i + 1) ff

/-- Second loop: every unbound literal among the first `card+1` is propagated. -/
def amoProp (lvl : Int) : Nat → Nat → St → Res St
  | 0, _, st => .ok st
  | n + 1, i, st =>
    match st.lits[i]? with
    | none => .panic
    | some l =>
      if st.m l.natAbs = 0 then amoProp lvl n (i + 1) (propagateUnit st lvl l)
      else amoProp lvl n (i + 1) st

/-- `simplifyCardAMOConstr(clause, lvl)` (`length := card + 1`). -/
def simplifyCardAMO (lvl card : Int) (st : St) : Res (Bool × St) :=
  match amoScan st.m st.lits (card + 1).toNat 0 false with
  | .ok false => .ok (false, st)
  | .ok true => do
    let st' ← amoProp lvl (card + 1).toNat 0 st
    pure (true, st')
  | .panic => .panic
  | .fuel => .fuel

/-! ## simplifyPseudoBool -/

/-- `slackSum(c)`: `for i, w := range c.pbData.weights { status := litStatus(c.Get(i)) … }`. -/
def slackLoop (m : Nat → Int) (card : Int) : List Int → List Int → Int → Int → Res (Int × Bool)
  | [], _, slack, _ => .ok (slack, false)
  | _ :: _, [], _, _ => .panic
  | w :: ws, l :: ls, slack, sum =>
    match litStatus m l with
    | .indet => slackLoop m card ws ls (slack + w) sum
    | .sat => if sum + w ≥ card then .ok (slack + w, true) else slackLoop m card ws ls (slack + w) (sum + w)
    | .unsat => slackLoop m card ws ls slack sum

def slackSum (card : Int) (st : St) : Res (Int × Bool) :=
  slackLoop st.m card st.weights st.lits (-card) 0

/-- `propagateAll(c, lvl)` (the literals do not move: iterate over them). -/
def propAllLoop (lvl : Int) : List Int → St → St
  | [], st => st
  | l :: ls, st =>
    if litStatus st.m l = .indet then propAllLoop lvl ls (propagateUnit st lvl l)
    else propAllLoop lvl ls st

def propagateAll (lvl : Int) (st : St) : St := propAllLoop lvl st.lits st

/-- One pass `for i := 0; i < clause.Len(); i++ { if litStatus(lit) == Indet && clause.Weight(i) > slack { propagateUnit; foundUnit = true } }`
    (`ls`, `ws`: the literals / weights from position `i` on). -/
def pbPassLoop (lvl slack : Int) : List Int → List Int → St → Bool → Res (St × Bool)
  | [], _, st, fu => .ok (st, fu)
  | l :: ls, ws, st, fu =>
    if litStatus st.m l = .indet then
      match ws with
      | [] => .panic
      | w :: ws' =>
        if w > slack then pbPassLoop lvl slack ls ws' (propagateUnit st lvl l) true
        else pbPassLoop lvl slack ls ws' st fu
    else pbPassLoop lvl slack ls ws.tail st fu

/-- First loop of `updateWatchPB`: `for weightWatched <= card && i < clause.Len()`. Returns the state and `i`. -/
def uwLoop1 (card : Int) : Nat → St → Nat → Int → Res (St × Nat)
  | fuel, st, i, ww =>
    if ww ≤ card ∧ i < st.lits.length then
      match fuel with
      | 0 => .fuel
      | fuel + 1 =>
        match st.lits[i]? with
        | none => .panic
        | some lit =>
          if litStatus st.m lit = .unsat then
            match st.watched[i]? with
            | none => .panic
            | some true =>
              uwLoop1 card fuel { st with watched := st.watched.set i false, edits := st.edits ++ [(false, lit)] } (i + 1) ww
            | some false => uwLoop1 card fuel st (i + 1) ww
          else
            match st.weights[i]? with
            | none => .panic
            | some w =>
              match st.watched[i]? with
              | none => .panic
              | some false =>
                uwLoop1 card fuel { st with watched := st.watched.set i true, edits := st.edits ++ [(true, lit)] } (i + 1) (ww + w)
              | some true => uwLoop1 card fuel st (i + 1) (ww + w)
    else .ok (st, i)

/-- Second loop of `updateWatchPB`: `for i := i; i < clause.Len(); i++ { if watched[i] { removeFrom; watched[i] = false } }`. -/
def uwLoop2 : Nat → St → Nat → Res St
  | fuel, st, i =>
    if i < st.lits.length then
      match fuel with
      | 0 => .fuel
      | fuel + 1 =>
        match st.watched[i]? with
        | none => .panic
        | some true =>
          match st.lits[i]? with
          | none => .panic
          | some lit =>
            uwLoop2 fuel { st with watched := st.watched.set i false, edits := st.edits ++ [(false, lit)] } (i + 1)
        | some false => uwLoop2 fuel st (i + 1)
    else .ok st

/-- `updateWatchPB(clause)`. -/
def updateWatchPB (card : Int) (st : St) : Res St :=
  match uwLoop1 card st.lits.length st 0 0 with
  | .ok (st', i) => uwLoop2 st.lits.length st' i
  | .panic => .panic
  | .fuel => .fuel

/-- `for foundUnit { … }` of `simplifyPseudoBool`, then `updateWatchPB`. -/
def pbLoop (lvl card : Int) : Nat → St → Res (Bool × St)
  | 0, _ => .fuel
  | fuel + 1, st =>
    match slackSum card st with
    | .ok (slack, sat) =>
      if sat then .ok (true, st)
      else if slack < 0 then .ok (false, st)
      else if slack = 0 then .ok (true, propagateAll lvl st)
      else
        match pbPassLoop lvl slack st.lits st.weights st false with
        | .ok (st', true) => pbLoop lvl card fuel st'
        | .ok (st', false) =>
          match updateWatchPB card st' with
          | .ok st'' => .ok (true, st'')
          | .panic => .panic
          | .fuel => .fuel
        | .panic => .panic
        | .fuel => .fuel
    | .panic => .panic
    | .fuel => .fuel

/-- `simplifyPseudoBool(clause, lvl)`. -/
def simplifyPB (lvl card : Int) (st : St) : Res (Bool × St) :=
  pbLoop lvl card (st.lits.length + 1) st

/-! ## Dispatch of `propagate` -/

inductive Kind where
  | card | amo | pb
deriving Repr, DecidableEq

/-- The call `propagate` makes for a constraint found in `wlistPb[lit]` (`c.PseudoBoolean()` → `pb`, else `card`)
    or in `wlistCardAMO[lit]` (`amo`). -/
def simplify (k : Kind) (lvl card : Int) (st : St) : Res (Bool × St) :=
  match k with
  | .card => simplifyCard lvl card st
  | .amo => simplifyCardAMO lvl card st
  | .pb => simplifyPB lvl card st

def St.init (m : Nat → Int) (lits weights : List Int) (watched : List Bool) : St :=
  ⟨m, lits, weights, watched, [], []⟩

end GS.PbProp
