import GS.Spec.Basic
/-!
# GS.Model.PbSet — mirror of the `pbSet` arithmetic of `solver/learn_pb.go`

A `pbSet` stores, for each variable (index `i` = variable `i+1`), the signed weight of the
variable in a constraint: positive for the positive literal, negative for the negated
literal, `0` when absent; `card` is the degree. Go's `/` and `%` truncate toward zero:
`Int.tdiv` / `Int.tmod`.
-/
namespace GS

structure PbSet where
  weights : List Int
  card : Int
deriving Repr, DecidableEq, Inhabited

/-- value of the left-hand side under `a`: variable `k+1` is at list position `k` -/
def PbSet.lhsFrom (a : Asg) : Nat → List Int → Int
  | _, [] => 0
  | k, w :: ws =>
    (if w > 0 then (if a (k+1) then w else 0)
     else if w < 0 then (if a (k+1) then 0 else -w)
     else 0) + PbSet.lhsFrom a (k+1) ws

def PbSet.holds (a : Asg) (p : PbSet) : Bool := decide (p.card ≤ PbSet.lhsFrom a 0 p.weights)

def iabs (x : Int) : Int := if x < 0 then -x else x
def imin (x y : Int) : Int := if x < y then x else y

/-- `pb1.clash(pb2)`: coefficient-wise addition with the degree correction when the two
    literals of a variable are opposite. Lists are zipped (Go indexes `pb2.weights[i]`). -/
def clashCorr : List Int → List Int → Int
  | w1 :: r1, w2 :: r2 => (if w1 * w2 < 0 then imin (iabs w1) (iabs w2) else 0) + clashCorr r1 r2
  | _, _ => 0

def PbSet.clash (p1 p2 : PbSet) : PbSet :=
  { weights := List.zipWith (· + ·) p1.weights p2.weights,
    card := p1.card + p2.card - clashCorr p1.weights p2.weights }

/-- rounding division of one signed weight (`divideBy`) -/
def divW (c : Int) (w : Int) : Int :=
  if w = 0 then 0
  else if w.tmod c = 0 then w.tdiv c
  else if w > 0 then w.tdiv c + 1
  else w.tdiv c - 1

def divCard (c : Int) (k : Int) : Int := if k.tmod c = 0 then k.tdiv c else k.tdiv c + 1

def PbSet.divideBy (p : PbSet) (c : Int) : PbSet :=
  { weights := p.weights.map (divW c), card := divCard c p.card }

/-- model value of variable `j+1`: 0 unbound, >0 true, <0 false (as `Solver.model`) -/
def modelAt (m : List Int) (j : Nat) : Int := m.getD j 0

/-- the weakening loop of `roundToOne`: drop every non-falsified literal whose weight is not a
    multiple of `wi` -/
def weakenFrom (m : List Int) (wi : Int) : Nat → List Int → List Int × Int
  | _, [] => ([], 0)
  | j, w :: ws =>
    let (ws', d) := weakenFrom m wi (j+1) ws
    let assign := modelAt m j
    if w ≠ 0 ∧ w.tmod wi ≠ 0 ∧ (assign = 0 ∨ (decide (assign > 0) = decide (w > 0))) then (0 :: ws', d + iabs w)
    else (w :: ws', d)

/-- `pb.roundToOne(s, locked, lvl)`; `none` when the weight of `locked` is 0 (Go divides by zero) -/
def PbSet.roundToOne (p : PbSet) (m : List Int) (locked : Nat) : Option PbSet :=
  let wi := iabs (p.weights.getD locked 0)
  if wi = 1 then some p
  else if wi = 0 then none
  else
    let (ws, d) := weakenFrom m wi 0 p.weights
    some (PbSet.divideBy { weights := ws, card := p.card - d } wi)

end GS
