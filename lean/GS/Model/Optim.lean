import GS.Check.Brute
/-!
# GS.Model.Optim — mirror of the optimisation loop of `Solver.Optimal` / `Solver.Minimize`

Core-only. Go source mirrored: `/repo/solver/solver.go`, `func (s *Solver) Optimal` (l. 958-1045)
and `func (s *Solver) Minimize` (l. 1052-1115); the two loops are textually the same except
for what they report (`Optimal` sends every `(model, cost)` on a channel and returns the last one,
`Minimize` returns the last cost, `-1` for Unsat).

Correspondence
* `s.minLits`, `s.minWeights`   ↦ the cost function `f : List (Int × Int)`, terms `(weight, literal)`
  (`minWeights == nil` is `f = lits.map (1, ·)`; `minLits == nil` behaves exactly as `f = []`,
  see `loop_nil`: first model, cost 0).
* `maxCost`                      ↦ `sumW f`
* `s.hypothesis` / `weights`     ↦ `hypothesis f` = negated literals, sorted by decreasing weight,
  trailing zero weights dropped (Go's `sort.Sort` is not stable: the order among equal weights is
  implementation-defined; the model uses a stable insertion sort; `goBound_holds` shows the order
  is semantically irrelevant).
* `s.AppendClause(NewPBClause(lits2, weights2, maxCost-cost+1))` ↦ `p ++ [goBound f cost]`;
  `NewPBClause` panics when the degree is `< 1` ↦ `Stop.panic`.
* `s.Solve()` on the solver that has received all constraints so far ↦ `solveFn (p ++ …)`,
  an oracle `Problem → Option Asg` (that the incremental solver answers for the conjunction of
  everything appended is property C09; here it is the explicit contract of `solveFn`).
* the `for status == Sat` loop ↦ `loop`, fuel-bounded (`loop_fuel_suffices`-style theorems are in
  `GS/Props/C03_Optim.lean`).
Machine-integer overflow of `maxCost`/`cost` is not modelled (`Int` is unbounded).
-/
namespace GS.Optim
open GS

/-- `maxCost`: sum of all cost weights. -/
def sumW : List (Int × Int) → Int
  | [] => 0
  | t :: ts => t.1 + sumW ts

/-- Cost terms with every literal negated: `(w, l) ↦ (w, -l)` (`lit.Negation()`). -/
def negTerms (f : List (Int × Int)) : List (Int × Int) := f.map (fun t => (t.1, -t.2))

/-- The bound constraint `Σ wᵢ·[¬lᵢ] ≥ (Σ wᵢ) − c + 1`, terms in the order of `f`,
    zero-weight terms kept. -/
def boundConstr (f : List (Int × Int)) (c : Int) : Lin := ⟨negTerms f, sumW f - c + 1⟩

/-- Insert into a list sorted by decreasing weight (stable). -/
def insertDesc (t : Int × Int) : List (Int × Int) → List (Int × Int)
  | [] => [t]
  | u :: us => if u.1 > t.1 then u :: insertDesc t us else t :: u :: us

/-- `sort.Sort(wLits{…})` with `Less(i,j) = weights[i] > weights[j]`. -/
def sortDesc : List (Int × Int) → List (Int × Int)
  | [] => []
  | t :: ts => insertDesc t (sortDesc ts)

/-- `for len(weights) > 0 && weights[len(weights)-1] == 0 { drop last }`. -/
def stripZeros : List (Int × Int) → List (Int × Int)
  | [] => []
  | t :: ts =>
    match stripZeros ts with
    | [] => if t.1 = 0 then [] else [t]
    | r :: rs => t :: r :: rs

/-- `s.hypothesis` zipped with `weights` after the sort and the zero-stripping. -/
def hypothesis (f : List (Int × Int)) : List (Int × Int) := stripZeros (sortDesc (negTerms f))

/-- What the Go loop really appends when the current cost is `c`. -/
def goBound (f : List (Int × Int)) (c : Int) : Lin := ⟨hypothesis f, sumW f - c + 1⟩

/-- Why the loop stopped. -/
inductive Stop
  | exit0   -- `if cost == 0 { break }`
  | unsat   -- `status = s.Solve()` returned Unsat: loop condition fails
  | panic   -- `NewPBClause` panicked: degree `maxCost - cost + 1 < 1`
  | fuel    -- model artefact: fuel exhausted
deriving DecidableEq, Repr

/-- Result of running the loop. `stream` is what `Optimal` sends on `results` (in order);
    `last` is `s.lastModel` and `cost` at the point where the loop stops. -/
structure Run where
  stream : List (Asg × Int)
  last : Asg × Int
  stop : Stop

/-- The `for status == Sat { … }` loop; `p` is everything the solver holds, `a` is `s.model`. -/
def loop (solveFn : Problem → Option Asg) (f : List (Int × Int)) : Nat → Problem → Asg → Run
  | 0, _, a => ⟨[], (a, cost f a), .fuel⟩
  | k + 1, p, a =>
    let c := cost f a
    if c = 0 then ⟨[(a, c)], (a, c), .exit0⟩
    else if sumW f - c + 1 < 1 then ⟨[(a, c)], (a, c), .panic⟩
    else
      match solveFn (p ++ [goBound f c]) with
      | none => ⟨[(a, c)], (a, c), .unsat⟩
      | some b =>
        let r := loop solveFn f k (p ++ [goBound f c]) b
        ⟨(a, c) :: r.stream, r.last, r.stop⟩

/-- Outcome of `Optimal` / `Minimize`. -/
inductive Outcome
  | unsat                                                   -- first Solve is Unsat: `Status: Unsat` / `-1`
  | ok (a : Asg) (c : Int) (stream : List (Asg × Int))      -- returned result, and everything streamed
  | panic (stream : List (Asg × Int))
  | fuel (stream : List (Asg × Int))

/-- `Optimal`: first `Solve`, then the loop. -/
def optimal (solveFn : Problem → Option Asg) (p : Problem) (f : List (Int × Int)) (fuel : Nat) : Outcome :=
  match solveFn p with
  | none => .unsat
  | some a =>
    let r := loop solveFn f fuel p a
    match r.stop with
    | .fuel => .fuel r.stream
    | .panic => .panic r.stream
    | _ => .ok r.last.1 r.last.2 r.stream

/-- Fuel that always suffices for non-negative weights (see `loop_fuel`). -/
def enoughFuel (f : List (Int × Int)) : Nat := (sumW f).toNat + 2

/-- The returned `(model, cost)`, if any. -/
def minimize (solveFn : Problem → Option Asg) (p : Problem) (f : List (Int × Int)) (fuel : Nat) :
    Option (Asg × Int) :=
  match optimal solveFn p f fuel with
  | .ok a c _ => some (a, c)
  | _ => none

/-- The costs sent on the `results` channel, in order. -/
def Outcome.costs : Outcome → List Int
  | .unsat => []
  | .ok _ _ s => s.map (·.2)
  | .panic s => s.map (·.2)
  | .fuel s => s.map (·.2)

/-- What `Minimize()` returns: `some (-1)` for Unsat, `some cost`, `none` for panic / out of fuel. -/
def Outcome.minimizeResult : Outcome → Option Int
  | .unsat => some (-1)
  | .ok _ c _ => some c
  | _ => none

/-! ### executable instance: exhaustive-search oracle over variables `1..n` -/

def bruteSolve (n : Nat) (p : Problem) : Option Asg := (bruteWitness n p).map asgOf

def optimalBrute (n : Nat) (p : Problem) (f : List (Int × Int)) : Outcome :=
  optimal (bruteSolve n) p f (enoughFuel f)

def minimizeBrute (n : Nat) (p : Problem) (f : List (Int × Int)) : Option (Asg × Int) :=
  minimize (bruteSolve n) p f (enoughFuel f)

/-- Cost reported by the loop run with the exhaustive oracle (`none`: Unsat, panic or fuel). -/
def minimizeBruteCost (n : Nat) (p : Problem) (f : List (Int × Int)) : Option Int :=
  (minimizeBrute n p f).map (·.2)

end GS.Optim
