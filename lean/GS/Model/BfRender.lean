import GS.Model.BfParse
/-!
# GS.Model.BfRender — syntax trees of the documented formula grammar and their rendering

The doc comment of `bf.Parse` gives the operators from lowest to highest priority:
`;` (conjunction of clauses), `=`, `->`, `|`, `&`, unary `^`, then the atoms (a name, an
exactly-one group `{a, b}`, a parenthesised formula). `Syn` is a syntax tree of that grammar,
`Syn.toSF` its documented reading, `Syn.render` its token list with the minimal parentheses
for these priorities and right nesting, `renderP d` the same with `d path` additional
(redundant) pairs of parentheses around the sub-term at `path`.

Tokens are those of `GS.Model.BfParse`: a name is any token (the parser mirror turns it into
the variable `nameId t`), `BAR` stands for `|`, `->` is the two tokens `-` `>`.
Core-only, executable.
-/
namespace GS.BfRender
open GS GS.BfParse

/-- the binary operators, lowest priority first -/
inductive Op where
  | seq | iff | imp | or | and
deriving DecidableEq, Repr

/-- priority of an operator = index of the parser function that handles it
(0 `parseClause` entry test, 1 `;`, 2 `=`, 3 `->`, 4 `|`, 5 `&`, 6 `^`, 7 atoms) -/
def Op.prio : Op → Nat
  | .seq => 1 | .iff => 2 | .imp => 3 | .or => 4 | .and => 5

def Op.toks : Op → List String
  | .seq => [";"] | .iff => ["="] | .imp => ["-", ">"] | .or => ["BAR"] | .and => ["&"]

/-- the tree the builders `And`, `Eq`, `Implies`, `Or` give for two operands -/
def Op.mk : Op → SF → SF → SF
  | .seq, f, g => SF.and [f, g]
  | .iff, f, g => SF.iff f g
  | .imp, f, g => SF.imp f g
  | .or, f, g => SF.or [f, g]
  | .and, f, g => SF.and [f, g]

/-- abstract syntax: no parentheses, the tree structure says how operands group -/
inductive Syn where
  | var (t : String)
  | uniq (ns : List String)
  | not (s : Syn)
  | bin (op : Op) (l r : Syn)
deriving Repr

def Syn.prio : Syn → Nat
  | .var _ => 7
  | .uniq _ => 7
  | .not _ => 6
  | .bin op _ _ => op.prio

/-- the documented reading -/
def Syn.toSF : Syn → SF
  | .var t => SF.var (nameId t)
  | .uniq ns => SF.unique (ns.map nameId)
  | .not s => SF.not s.toSF
  | .bin op l r => op.mk l.toSF r.toSF

def paren (b : Bool) (ts : List String) : List String :=
  if b then "(" :: (ts ++ [")"]) else ts

def commaSep : List String → List String
  | [] => []
  | [t] => [t]
  | t :: ts => t :: "," :: commaSep ts

/-- minimal parentheses: a left operand is parenthesised when its priority is `≤` the
operator's, a right operand (and the operand of `^`) when it is `<` -/
def Syn.render : Syn → List String
  | .var t => [t]
  | .uniq ns => "{" :: (commaSep ns ++ ["}"])
  | .not s => "^" :: paren (s.prio < 6) s.render
  | .bin op l r => paren (l.prio ≤ op.prio) l.render ++ (op.toks ++ paren (r.prio < op.prio) r.render)

/-- a plain identifier token: no punctuation of the grammar, not a Go keyword -/
def isPunct (t : String) : Bool :=
  t = "=" || t = "->" || t = "BAR" || t = "&" || t = ";" || t = "^" || t = "(" || t = ")" ||
  t = "{" || t = "}" || t = "," || t = "-" || t = ">"

def plainTok (t : String) : Bool := !isPunct t && lookupIsIdent t

/-- names are plain identifiers, exactly-one groups are not empty -/
def Syn.wf : Syn → Bool
  | .var t => plainTok t
  | .uniq ns => !ns.isEmpty && ns.all plainTok
  | .not s => s.wf
  | .bin _ l r => l.wf && r.wf

/-! ## Concrete syntax: explicit parentheses -/

/-- concrete syntax tree: like `Syn` with explicit parenthesis nodes -/
inductive CST where
  | var (t : String)
  | uniq (ns : List String)
  | not (c : CST)
  | bin (op : Op) (l r : CST)
  | par (c : CST)
deriving Repr

def CST.prio : CST → Nat
  | .var _ => 7
  | .uniq _ => 7
  | .par _ => 7
  | .not _ => 6
  | .bin op _ _ => op.prio

def CST.toSF : CST → SF
  | .var t => SF.var (nameId t)
  | .uniq ns => SF.unique (ns.map nameId)
  | .not c => SF.not c.toSF
  | .bin op l r => op.mk l.toSF r.toSF
  | .par c => c.toSF

def CST.render : CST → List String
  | .var t => [t]
  | .uniq ns => "{" :: (commaSep ns ++ ["}"])
  | .not c => "^" :: c.render
  | .bin op l r => l.render ++ (op.toks ++ r.render)
  | .par c => "(" :: (c.render ++ [")"])

/-- the tree conforms to the grammar: operands have a sufficient priority
(left operand strictly higher than the operator, right operand at least the operator's) -/
def CST.ok : CST → Bool
  | .var t => plainTok t
  | .uniq ns => !ns.isEmpty && ns.all plainTok
  | .not c => decide (6 ≤ c.prio) && c.ok
  | .bin op l r => decide (op.prio < l.prio) && decide (op.prio ≤ r.prio) && l.ok && r.ok
  | .par c => c.ok

def wrapN : Nat → CST → CST
  | 0, c => c
  | n+1, c => .par (wrapN n c)

def parIf (b : Bool) (c : CST) : CST := if b then .par c else c

/-- `d path` = number of redundant pairs of parentheses around the sub-term at `path`
(`false` = left / only operand, `true` = right operand) -/
abbrev Deco := List Bool → Nat

/-- insert the needed parentheses and the redundant ones -/
def decorate (d : Deco) : Syn → CST
  | .var t => wrapN (d []) (.var t)
  | .uniq ns => wrapN (d []) (.uniq ns)
  | .not s => wrapN (d []) (.not (parIf (s.prio < 6) (decorate (fun p => d (false :: p)) s)))
  | .bin op l r =>
    wrapN (d []) (.bin op (parIf (l.prio ≤ op.prio) (decorate (fun p => d (false :: p)) l))
                         (parIf (r.prio < op.prio) (decorate (fun p => d (true :: p)) r)))

/-- rendering with `d path` redundant pairs of parentheses around each sub-term -/
def renderP (d : Deco) (s : Syn) : List String := (decorate d s).render

/-- the identifier token number `i` -/
def vtok (i : Nat) : String := "v" ++ toString i

/-- the name number `i`, the exactly-one group over the names `is` -/
def Syn.v (i : Nat) : Syn := .var (vtok i)
def Syn.u (is : List Nat) : Syn := .uniq (is.map vtok)

/-- a token starting with the letter `v` (kernel-decidable sufficient test for `plainTok`) -/
def isVTok (t : String) : Bool := t.toList.head? == some 'v'

/-- `Syn.wf` with the kernel-decidable name test -/
def Syn.wfV : Syn → Bool
  | .var t => isVTok t
  | .uniq ns => !ns.isEmpty && ns.all isVTok
  | .not s => s.wfV
  | .bin _ l r => l.wfV && r.wfV

/-- a token that cannot continue a complete formula -/
def cantContinue (t : String) : Bool :=
  !(t = "&" || t = "BAR" || t = "-" || t = "=" || t = ";")

end GS.BfRender
