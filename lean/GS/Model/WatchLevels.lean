import GS.Model.Watch
import GS.Model.Search
/-!
# GS.Model.WatchLevels — the two-watched-literal invariant with decision levels (executable part)

`GS.Watch.watchInv` has no decision levels, so it is not preserved by `cleanupBindings` (a backjump may
unbind the true literal that excuses a false watched literal which stays bound).  `watchInvL` adds:

* `levelsMonoB` : `|model[var]|` is non-decreasing along the trail;
* `semBinLOk` / `semLongLOk` : the true literal that excuses a watcher of a processed trail literal `t`
  (`other`; for long clauses also clause literal 0 or 1) is bound at a level `≤` the level of `t`.

The mirror of `cleanupBindings` (restricted to `model` / `trail` / `reasons`) is `GS.Search.cleanup`
(`GS/Model/Search.lean`), with `GS.Search.lvlAbs` = `abs(s.model[l.Var()])` and `GS.Search.keepLen`;
they are reused here, not redefined.  Core-only.
-/
namespace GS.Watch
open GS.Search (lvlAbs keepLen cleanup)

/-- literal `e` is true and bound at a level `≤ L` -/
def trueLe (m : List Int) (L : Int) (e : Int) : Bool := litTrueB m e && decide (lvlAbs m e ≤ L)

/-- the levels `|model[var]|` are non-decreasing along the trail -/
def levelsMonoB (st : State) : Bool :=
  decide (st.trail.Pairwise (fun a b => lvlAbs st.model a ≤ lvlAbs st.model b))

/-- binary clauses: the other literal is true at a level `≤` the level of the processed trail literal. -/
def semBinLOk (st : State) (ptr : Nat) : Bool :=
  st.wbin.zipIdx.all (fun p =>
    !(st.trail.take ptr).contains (idxLit p.2) ||
      p.1.all (fun w => trueLe st.model (lvlAbs st.model (idxLit p.2)) w.other))

/-- longer clauses: the excusing literal (`other`, clause literal 0 or clause literal 1) is true at a
    level `≤` the level of the processed trail literal. -/
def semLongLOk (st : State) (ptr : Nat) : Bool :=
  st.wlong.zipIdx.all (fun p =>
    !(st.trail.take ptr).contains (idxLit p.2) || p.1.all (fun w =>
      trueLe st.model (lvlAbs st.model (idxLit p.2)) w.other ||
        (match st.clauses[w.cid]? with
         | some c =>
           (match c[0]? with | some a => trueLe st.model (lvlAbs st.model (idxLit p.2)) a | none => false) ||
           (match c[1]? with | some b => trueLe st.model (lvlAbs st.model (idxLit p.2)) b | none => false)
         | none => false)))

/-- The two-watched-literal invariant with levels: what both `propagate` and `cleanupBindings` keep. -/
def watchInvL (st : State) (ptr : Nat) : Bool :=
  watchInv st ptr && levelsMonoB st && semBinLOk st ptr && semLongLOk st ptr

/-- `ls.foldl (fun r l => r.set (l.Var()) z) r`: the unbinding loop of `cleanupBindings` -/
def unset {α} (z : α) (ls : List Int) (r : List α) : List α :=
  ls.foldl (fun r l => r.set (l.natAbs - 1) z) r

end GS.Watch
