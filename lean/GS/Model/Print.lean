import GS.Spec.Basic
/-!
# GS.Model.Print — mirrors of the answer printers of `main.go` (C19) and of the DIMACS
clause printer (C18), with their decoders.

`printDecisionResults` prints `v ` then, for variable `i+1`, `i+1` or `-(i+1)`, then `0`.
`printOptimizationResults` prints `x<i+1>` or `-x<i+1>`. `Clause.CNF` prints the literals
followed by `0`.
-/
namespace GS.Print

/-- the integers of a `v` line (without the final 0) for a model, first variable = 1 -/
def vlineFrom : Nat → List Bool → List Int
  | _, [] => []
  | k, b :: bs => (if b then ((k : Int) + 1) else -((k : Int) + 1)) :: vlineFrom (k + 1) bs

def vline (m : List Bool) : List Int := vlineFrom 0 m

/-- reading a `v` line back -/
def decodeV (xs : List Int) : List Bool := xs.map (fun x => decide (x > 0))

theorem decodeV_vlineFrom : ∀ (m : List Bool) (k : Nat), decodeV (vlineFrom k m) = m := by
  intro m
  induction m with
  | nil => intro k; rfl
  | cons b bs ih =>
    intro k
    simp only [vlineFrom, decodeV, List.map_cons]
    have := ih (k + 1)
    unfold decodeV at this
    rw [this]
    cases b
    · simp; omega
    · simp

/-- **C19** decoding the printed `v` line gives back the model. -/
theorem vline_roundtrip (m : List Bool) : decodeV (vline m) = m := decodeV_vlineFrom m 0

/-- the `v` line lists every variable exactly once, in order: literal `k+1+i` or its negation at position `i` -/
theorem vlineFrom_natAbs : ∀ (m : List Bool) (k i : Nat), i < m.length →
    ((vlineFrom k m).getD i 0).natAbs = k + i + 1 := by
  intro m
  induction m with
  | nil => intro k i h; simp at h
  | cons b bs ih =>
    intro k i h
    cases i with
    | zero => simp [vlineFrom]; cases b <;> simp <;> omega
    | succ i =>
      simp only [vlineFrom, List.getD_cons_succ]
      have := ih (k + 1) i (by simpa using h)
      omega

theorem vline_length (m : List Bool) : (vline m).length = m.length := by
  unfold vline
  suffices ∀ k, (vlineFrom k m).length = m.length from this 0
  induction m with
  | nil => intro k; rfl
  | cons b bs ih => intro k; simp [vlineFrom, ih]

/-- every printed literal is true under an assignment that agrees with the model -/
theorem vlineFrom_true (a : Asg) : ∀ (m : List Bool) (k : Nat),
    (∀ i, i < m.length → a (k + i + 1) = m.getD i false) → ∀ l ∈ vlineFrom k m, litTrue a l = true := by
  intro m
  induction m with
  | nil => intro k _ l hl; simp [vlineFrom] at hl
  | cons b bs ih =>
    intro k h l hl
    simp only [vlineFrom, List.mem_cons] at hl
    rcases hl with rfl | hl
    · have h0 := h 0 (by simp)
      simp only [Nat.add_zero, List.getD_cons_zero] at h0
      unfold litTrue
      cases b
      · have hneg : ¬ (-((k : Int) + 1) > 0) := by omega
        have hab : (-((k : Int) + 1)).natAbs = k + 1 := by omega
        simp only [Bool.false_eq_true, if_false, hneg, hab, h0, Bool.not_false]
      · have hpos : ((k : Int) + 1) > 0 := by omega
        have hab : ((k : Int) + 1).natAbs = k + 1 := by omega
        simp only [if_true, hpos, hab, h0]
    · apply ih (k + 1) _ l hl
      intro i hi
      have := h (i + 1) (by simp; omega)
      simp only [List.getD_cons_succ] at this
      rw [← this]; congr 1; omega

/-- **C19** the printed `v` line is a model description: each literal is true under the model -/
theorem vline_true (m : List Bool) : ∀ l ∈ vline m, litTrue (asgOf m) l = true := by
  apply vlineFrom_true (asgOf m) m 0
  intro i _
  simp [asgOf]

/-- status line of the decision printer -/
inductive Status | sat | unsat | indet
deriving DecidableEq, Repr

def statusLine : Status → String
  | .sat => "s SATISFIABLE"
  | .unsat => "s UNSATISFIABLE"
  | .indet => "s UNKNOWN"

def statusLineOpt : Status → String
  | .sat => "s OPTIMUM FOUND"
  | .unsat => "s UNSATISFIABLE"
  | .indet => "s UNKNOWN"

/-- the status line determines the status (no two statuses print the same line) -/
theorem statusLine_injective : ∀ s t, statusLine s = statusLine t → s = t := by
  intro s t; cases s <;> cases t <;> simp [statusLine]

theorem statusLineOpt_injective : ∀ s t, statusLineOpt s = statusLineOpt t → s = t := by
  intro s t; cases s <;> cases t <;> simp [statusLineOpt]

/-- `o` lines: one per satisfiable result of the stream, in order -/
def oLines (stream : List (Status × Int)) : List Int :=
  (stream.filter (fun r => r.1 == .sat)).map (·.2)

theorem oLines_all_sat (stream : List (Status × Int)) (h : ∀ r ∈ stream, r.1 = .sat) :
    oLines stream = stream.map (·.2) := by
  unfold oLines
  congr 1
  rw [List.filter_eq_self]
  intro r hr
  simp [h r hr]

example : vline [true, false, true] = [1, -2, 3] := by decide
example : decodeV [1, -2, 3] = [true, false, true] := by decide

end GS.Print
