/-!
# GS.Model.Assume — mirror of the prologue of `(*Solver).Assume`

Core-only, executable. Mirrors, line by line, `/repo/solver/solver.go`

    func (s *Solver) Assume(lits []Lit) Status

up to (and excluding) its final `s.propagate(0, 1)`, together with what it calls:
`cleanupBindings` (solver.go, instantiated at `lvl = 0`), `litStatus` (solver.go),
`addLearnedUnit`, `lvlToSignedLvl` (watcher.go).

```go
func (s *Solver) Assume(lits []Lit) Status {
	if s.model == nil { return s.status }                 // New on a problem refuted at parse time
	s.cleanupBindings(0)
	s.trail = s.trail[:0]
	s.assumptions = make([]bool, s.nbVars)
	s.status = Indet
	for _, lit := range s.facts {
		switch s.litStatus(lit) {
		case Unsat: s.status = Unsat; return s.status
		case Indet: s.model[lit.Var()] = lvlToSignedLvl(lit, 1); s.trail = append(s.trail, lit)
		}
	}
	for _, lit := range lits {
		switch s.litStatus(lit) {
		case Unsat: s.status = Unsat; return s.status
		case Sat: continue
		}
		s.addLearnedUnit(lit)                              // s.model[lit.Var()] = lvlToSignedLvl(lit, 1)
		s.assumptions[lit.Var()] = true
		s.trail = append(s.trail, lit)
	}
	… s.propagate(0, 1) …                                  // not part of the mirror
}
```

## Conventions

* Literals are DIMACS integers (`Lit.Int()`); `Lit.Var()` (the array index) of `l` is
  `varOf l = |l| - 1`, `IsPositive()` is `l > 0`.  `IntToLit(0).Var() = -1` and a variable beyond
  the arrays make Go panic with an index error at the first array access: outcome `panic`.
* `s.model` is `Option (List Int)` (`none` = Go `nil`, only produced by `New` on a problem whose
  status is already `Unsat`), indexed by `Var`, Go encoding: `0` unbound, `±level`.
* `s.facts` is filled by `New` (`append([]Lit{}, problem.Units...)`: every one-literal line of the
  input, repeated lines included, followed by what the parser's simplification derived) and by
  `propagateUnits` (`s.facts = append(s.facts, unit)` *before* the test of the unit's status: a unit
  contradicting an earlier fact, or repeating it, is kept).  `addLearnedUnit` (learned-unit branch
  of `propagateAndSearch`, and `Assume` itself) does **not** touch `s.facts`.
* `s.reason`, `s.polarity`, `s.varQueue`, statistics, the certificate line written by
  `addLearnedUnit` when `s.Certified` is set: not modelled (no influence on the arrays below).
* `cleanupBindings(0)`: `i` = length of the longest trail prefix whose variables are unbound
  (`abs(model[v]) <= 0`); the model of every trail variable from `i` on is zeroed; `trail = trail[:i]`.
  It touches only variables that are on the trail: "everything unbound afterwards" needs the solver
  invariant *every bound variable is on the trail* (`GS.Assume.WF` in `GS.Props.C10_Assume`).
-/
namespace GS.Assume

/-- `solver.Status` (`Indet`, `Sat`, `Unsat`); also what `litStatus` returns. -/
inductive Status where
  | indet | sat | unsat
deriving Repr, DecidableEq, Inhabited

/-- The fields of `Solver` read or written by the prologue of `Assume`. -/
structure State where
  /-- `s.nbVars` -/
  nbVars : Nat
  /-- `s.status` -/
  status : Status
  /-- `s.facts` -/
  facts : List Int
  /-- `s.model` (`none` = `nil`) -/
  model : Option (List Int)
  /-- `s.trail` -/
  trail : List Int
  /-- `s.assumptions` -/
  flags : List Bool
deriving Repr, DecidableEq, Inhabited

/-- `l.Var()` as an array index. -/
def varOf (l : Int) : Nat := l.natAbs - 1

/-- The array access `arr[l.Var()]` does not panic for an array of length `n`. -/
def inRange (n : Nat) (l : Int) : Bool := l != 0 && decide (l.natAbs ≤ n)

/-- `s.model[v]` (0 out of range; the mirror tests `inRange` before, where Go would panic). -/
def mget (m : List Int) (v : Nat) : Int := (m[v]?).getD 0

/-- `lvlToSignedLvl(l, lvl)`. -/
def lvlToSignedLvl (l : Int) (lvl : Int) : Int := if l > 0 then lvl else -lvl

/-- `s.litStatus(l)`. -/
def litStatus (m : List Int) (l : Int) : Status :=
  let assign := mget m (varOf l)
  if assign = 0 then .indet
  else if decide (assign > 0) == decide (l > 0) then .sat
  else .unsat

/-! ## `cleanupBindings(0)` -/

/-- First loop of `cleanupBindings(lvl)`: `for i < len(s.trail) && abs(s.model[s.trail[i].Var()]) <= lvl { i++ }`;
    returns what is left of the trail from `i` on. -/
def skipKept (m : List Int) (lvl : Nat) (trail : List Int) : List Int :=
  trail.dropWhile (fun l => decide ((mget m (varOf l)).natAbs ≤ lvl))

/-- Second loop: `for j := i; j < len(s.trail); j++ { s.model[s.trail[j].Var()] = 0; … }`. -/
def unbind (m : List Int) : List Int → List Int
  | [] => m
  | l :: rest => unbind (m.set (varOf l) 0) rest

/-- `s.cleanupBindings(lvl)`: new model and new trail (`s.trail[:i]`). -/
def cleanupBindings (m : List Int) (trail : List Int) (lvl : Nat) : List Int × List Int :=
  let rest := skipKept m lvl trail
  (unbind m rest, trail.take (trail.length - rest.length))

/-! ## The two loops -/

/-- Exit of a loop: index panic, `return Unsat` from inside, or normal end. -/
inductive Loop where
  | panic
  | unsat (m : List Int) (tr : List Int) (fl : List Bool)
  | ok (m : List Int) (tr : List Int) (fl : List Bool)
deriving Repr, DecidableEq, Inhabited

/-- `for _, lit := range s.facts { switch s.litStatus(lit) { … } }`; the flags are not touched. -/
def factsLoop (fl : List Bool) : List Int → List Int → List Int → Loop
  | [], m, tr => .ok m tr fl
  | lit :: rest, m, tr =>
    if !inRange m.length lit then .panic                      -- s.model[lit.Var()] in litStatus
    else
      match litStatus m lit with
      | .unsat => .unsat m tr fl                              -- s.status = Unsat; return
      | .indet =>
        factsLoop fl rest (m.set (varOf lit) (lvlToSignedLvl lit 1)) (tr ++ [lit])
      | .sat => factsLoop fl rest m tr

/-- `for _, lit := range lits { … }`. -/
def assumeLoop : List Int → List Int → List Int → List Bool → Loop
  | [], m, tr, fl => .ok m tr fl
  | lit :: rest, m, tr, fl =>
    if !inRange m.length lit then .panic                      -- s.model[lit.Var()] in litStatus
    else
      match litStatus m lit with
      | .unsat => .unsat m tr fl                              -- s.status = Unsat; return
      | .sat => assumeLoop rest m tr fl                       -- continue
      | .indet =>
        let m' := m.set (varOf lit) (lvlToSignedLvl lit 1)    -- s.addLearnedUnit(lit)
        if !inRange fl.length lit then .panic                 -- s.assumptions[lit.Var()] = true
        else assumeLoop rest m' (tr ++ [lit]) (fl.set (varOf lit) true)

/-- What `Assume` has done when it reaches `s.propagate(0, 1)`, or returns before. -/
inductive Outcome where
  /-- `s.model == nil`: `return s.status`, nothing changed. -/
  | early (status : Status)
  /-- An index panic (literal `0` or a variable beyond the arrays). -/
  | panic
  /-- `s.status = Unsat; return s.status` from one of the two loops; the state left behind. -/
  | refuted (st' : State)
  /-- Both loops ended: the state `s.propagate(0, 1)` starts from (`status = Indet`). -/
  | installed (st' : State)
deriving Repr, DecidableEq, Inhabited

/-- The prologue of `Assume`. -/
def assumePrologue (s : State) (lits : List Int) : Outcome :=
  match s.model with
  | none => .early s.status                                   -- if s.model == nil { return s.status }
  | some m0 =>
    let m1 := (cleanupBindings m0 s.trail 0).1                -- s.cleanupBindings(0)
    let tr0 : List Int := []                                  -- s.trail = s.trail[:0]
    let fl0 := List.replicate s.nbVars false                  -- s.assumptions = make([]bool, s.nbVars)
    -- s.status = Indet
    match factsLoop fl0 s.facts m1 tr0 with
    | .panic => .panic
    | .unsat m tr fl => .refuted { s with status := .unsat, model := some m, trail := tr, flags := fl }
    | .ok m tr fl =>
      match assumeLoop lits m tr fl with
      | .panic => .panic
      | .unsat m tr fl => .refuted { s with status := .unsat, model := some m, trail := tr, flags := fl }
      | .ok m tr fl => .installed { s with status := .indet, model := some m, trail := tr, flags := fl }

/-- The state of a solver on which no variable is bound (what `Assume` works from once
    `cleanupBindings(0)` is done, under the invariant that bound variables are on the trail). -/
def fresh (n : Nat) (facts : List Int) : State :=
  { nbVars := n, status := .indet, facts := facts, model := some (List.replicate n 0),
    trail := [], flags := List.replicate n false }

/-- The variables (DIMACS numbers, increasing) whose assumption flag is set. -/
def flagged (fl : List Bool) : List Nat :=
  (List.range fl.length).filterMap (fun v => if fl[v]?.getD false then some (v + 1) else none)

end GS.Assume
