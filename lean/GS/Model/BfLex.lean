import GS.Model.BfParse
/-!
# GS.Model.BfLex — mirror of the lexical layer of `bf/parser.go`

`bf.Parse` does `var s scanner.Scanner; s.Init(r)` and nothing else: `Mode = GoTokens`
(`ScanIdents | ScanFloats | ScanChars | ScanStrings | ScanRawStrings | ScanComments | SkipComments`),
`Whitespace = GoWhitespace` (tab, LF, CR, space), `IsIdentRune = nil` (the default: `_`, letters,
and digits from the second character on), `Error = nil` (lexical errors are printed on
`os.Stderr`, counted, and **otherwise ignored**: the token is delivered all the same).
`parser.scan` keeps `TokenText()` of every token and the fact that `Scan()` returned `EOF`; the
kind of the token is dropped.  So the parser sees a list of token *texts*; the texts
`; = & | ^ ( ) { } , - >` are the punctuation of the grammar, every other text is a name
(an identifier, but also `12`, `1.5e3`, `"a b"`, `'x'`, a raw string, `.`, `+`, a NUL byte …);
inside braces `token.Lookup` only refuses the 25 Go keywords.

`lexRaw` mirrors `Scanner.Scan` (Go 1.23 `text/scanner`) on a byte list, for ASCII input: white
space, identifiers, `scanNumber` (prefixes `0x 0o 0b`, `_` separators, fraction, exponent, with
the erroneous forms that are scanned as one token all the same), `scanString` / `scanChar` with
`scanEscape`, `scanRawString`, `//` and `/* */` comments (skipped, `goto redo`), `.` followed by
a digit, and every other character as a one-character token.  A byte `≥ 0x80` where a token
would start (or right after an identifier / number) is answered `unmodelled` (UTF-8 letters
continue identifiers in Go); inside strings, raw strings and comments such bytes are ordinary
(no byte of a multi-byte sequence is a quote, a backslash or a newline).

`toWire` turns a token text into the token of `GS.BfParse`: punctuation as itself (`BAR` for
`|`), the Go keyword number `i` as `k<i>`, any other text `bs` as `v<code bs>` where `code` is
the injective base-256 reading of `1 :: bs` — so that `nameId (toWire bs) = code bs`.
Core-only, executable.
-/
namespace GS.BfLex
open GS

/-! ## character classes (ASCII part of `unicode.IsLetter` / `unicode.IsDigit`) -/

def isWs (b : Nat) : Bool := b == 9 || b == 10 || b == 13 || b == 32
def isLetter (b : Nat) : Bool := (decide (65 ≤ b) && decide (b ≤ 90)) || (decide (97 ≤ b) && decide (b ≤ 122))
def isDecimal (b : Nat) : Bool := decide (48 ≤ b) && decide (b ≤ 57)
/-- `isIdentRune(ch, 0)` -/
def isIdentStart (b : Nat) : Bool := b == 95 || isLetter b
/-- `isIdentRune(ch, i)` for `i > 0` -/
def isIdentCont (b : Nat) : Bool := isIdentStart b || isDecimal b
def isHex (b : Nat) : Bool :=
  isDecimal b || (decide (65 ≤ b) && decide (b ≤ 70)) || (decide (97 ≤ b) && decide (b ≤ 102))
/-- `lower(ch) == l` for a lower-case letter `l` (`lower(ch) = ch | 0x20`) -/
def lowerIs (c l : Nat) : Bool := c == l || c + 32 == l

/-! ## `scanNumber` -/

/-- `Scanner.digits`: the lookahead list after the digits and `_` -/
def digits (hex : Bool) (bs : List Nat) : List Nat :=
  bs.dropWhile (fun c => (if hex then isHex c else isDecimal c) || c == 95)

/-- the prefix part of `scanNumber` (`seenDot = false`): after a leading `0`, one of `x o b`
(either case) is consumed; `hex` tells whether the digit loop is the hexadecimal one -/
def numPrefix (bs : List Nat) : List Nat × Bool :=
  match bs with
  | 48 :: r =>
    match r with
    | c :: r2 =>
      if lowerIs c 120 then (r2, true)
      else if lowerIs c 111 || lowerIs c 98 then (r2, false)
      else (r, false)
    | [] => (r, false)
  | _ => (bs, false)

/-- the exponent part of `scanNumber` -/
def numExponent (bs : List Nat) : List Nat :=
  match bs with
  | c :: r =>
    if lowerIs c 101 || lowerIs c 112 then
      let r1 := match r with
        | 43 :: r' => r'
        | 45 :: r' => r'
        | _ => r
      digits false r1
    else bs
  | [] => bs

/-- `scanNumber(ch, seenDot)`: `bs` starts with `ch`; the result is the list from the new
lookahead character on -/
def scanNumber (bs : List Nat) (seenDot : Bool) : List Nat :=
  if seenDot then numExponent (digits false bs)
  else
    let (bs0, hex) := numPrefix bs
    let bs1 := digits hex bs0
    match bs1 with
    | 46 :: r => numExponent (digits hex r)       -- fraction
    | _ => numExponent bs1

/-! ## `scanString`, `scanChar`, `scanRawString`, `scanComment` -/

def digitVal (c : Nat) : Nat :=
  if isDecimal c then c - 48
  else if decide (97 ≤ c) && decide (c ≤ 102) then c - 97 + 10
  else if decide (65 ≤ c) && decide (c ≤ 70) then c - 65 + 10
  else 16

/-- `scanDigits(ch, base, n)` -/
def scanDigits (base : Nat) : Nat → List Nat → List Nat
  | 0, bs => bs
  | _+1, [] => []
  | n+1, c :: r => if digitVal c < base then scanDigits base n r else c :: r

/-- `scanEscape(quote)`: `bs` starts with the character after the backslash -/
def scanEscape (quote : Nat) (bs : List Nat) : List Nat :=
  match bs with
  | [] => []
  | c :: r =>
    if c == 97 || c == 98 || c == 102 || c == 110 || c == 114 || c == 116 || c == 118 || c == 92 || c == quote then r
    else if decide (48 ≤ c) && decide (c ≤ 55) then scanDigits 8 3 (c :: r)
    else if c == 120 then scanDigits 16 2 r
    else if c == 117 then scanDigits 16 4 r
    else if c == 85 then scanDigits 16 8 r
    else c :: r                                   -- "invalid char escape": nothing consumed

/-- the loop of `scanString(quote)` followed by the `ch = s.next()` of `Scan`: `bs` starts with the
character after the opening quote; the closing quote, or the newline at which the literal is
"not terminated", is part of the token. -/
def scanString (quote : Nat) : Nat → List Nat → List Nat
  | 0, bs => bs
  | _+1, [] => []
  | fuel+1, c :: r =>
    if c == quote then r
    else if c == 10 then r
    else if c == 92 then scanString quote fuel (scanEscape quote r)
    else scanString quote fuel r

/-- `scanRawString` followed by `ch = s.next()` -/
def scanRawString (bs : List Nat) : List Nat := (bs.dropWhile (· != 96)).drop 1

/-- general comment: `bs` starts after `/*` -/
def blockComment : List Nat → List Nat
  | [] => []
  | 42 :: 47 :: r => r
  | _ :: r => blockComment r

/-! ## `Scan` -/

inductive Step where
  | eof
  | tok (text rest : List Nat)
  | skip (rest : List Nat)          -- a comment: `goto redo`
  | unmodelled
deriving Repr

/-- the text between the start `bs` and the suffix `rest` of it -/
def upTo (bs rest : List Nat) : List Nat := bs.take (bs.length - rest.length)

def step (bs : List Nat) : Step :=
  match bs.dropWhile isWs with
  | [] => .eof
  | b :: r =>
    if 128 ≤ b then .unmodelled
    else if isIdentStart b then .tok (b :: r.takeWhile isIdentCont) (r.dropWhile isIdentCont)
    else if isDecimal b then
      let rest := scanNumber (b :: r) false
      .tok (upTo (b :: r) rest) rest
    else if b == 34 || b == 39 then
      let rest := scanString b (r.length + 1) r
      .tok (upTo (b :: r) rest) rest
    else if b == 96 then
      let rest := scanRawString r
      .tok (upTo (b :: r) rest) rest
    else if b == 46 then
      match r with
      | c :: _ =>
        if isDecimal c then
          let rest := scanNumber r true
          .tok (upTo (b :: r) rest) rest
        else .tok [b] r
      | [] => .tok [b] r
    else if b == 47 then
      match r with
      | 47 :: r2 => .skip (r2.dropWhile (· != 10))
      | 42 :: r2 => .skip (blockComment r2)
      | _ => .tok [b] r
    else .tok [b] r

/-- all token texts; every round consumes at least one byte, `length + 1` rounds suffice -/
def lexAux : Nat → List Nat → Except String (List (List Nat))
  | 0, _ => .error "fuel"
  | fuel+1, bs =>
    match step bs with
    | .eof => .ok []
    | .unmodelled => .error "unmodelled"
    | .skip rest => lexAux fuel rest
    | .tok t rest =>
      match lexAux fuel rest with
      | .ok ts => .ok (t :: ts)
      | .error e => .error e

def lexRaw (bs : List Nat) : Except String (List (List Nat)) := lexAux (bs.length + 1) bs

/-! ## token texts to the tokens of `GS.BfParse` -/

/-- the punctuation of the grammar -/
def punct? : List Nat → Option String
  | [59] => some ";" | [61] => some "=" | [38] => some "&" | [124] => some "BAR" | [94] => some "^"
  | [40] => some "(" | [41] => some ")" | [123] => some "{" | [125] => some "}" | [44] => some ","
  | [45] => some "-" | [62] => some ">"
  | _ => none

/-- the keywords of `go/token` (`token.Lookup` answers `IDENT` for every other string) -/
def keywords : List (List Nat) :=
  [[98, 114, 101, 97, 107],  -- break
   [99, 97, 115, 101],  -- case
   [99, 104, 97, 110],  -- chan
   [99, 111, 110, 115, 116],  -- const
   [99, 111, 110, 116, 105, 110, 117, 101],  -- continue
   [100, 101, 102, 97, 117, 108, 116],  -- default
   [100, 101, 102, 101, 114],  -- defer
   [101, 108, 115, 101],  -- else
   [102, 97, 108, 108, 116, 104, 114, 111, 117, 103, 104],  -- fallthrough
   [102, 111, 114],  -- for
   [102, 117, 110, 99],  -- func
   [103, 111],  -- go
   [103, 111, 116, 111],  -- goto
   [105, 102],  -- if
   [105, 109, 112, 111, 114, 116],  -- import
   [105, 110, 116, 101, 114, 102, 97, 99, 101],  -- interface
   [109, 97, 112],  -- map
   [112, 97, 99, 107, 97, 103, 101],  -- package
   [114, 97, 110, 103, 101],  -- range
   [114, 101, 116, 117, 114, 110],  -- return
   [115, 101, 108, 101, 99, 116],  -- select
   [115, 116, 114, 117, 99, 116],  -- struct
   [115, 119, 105, 116, 99, 104],  -- switch
   [116, 121, 112, 101],  -- type
   [118, 97, 114]]  -- var

def kwIndex (bs : List Nat) : Option Nat := keywords.findIdx? (· == bs)

/-- injective numbering of the token texts: base-256 reading of `1 :: bs` -/
def code (bs : List Nat) : Nat := bs.foldl (fun a b => a * 256 + b) 1

def toWire (bs : List Nat) : String :=
  match punct? bs with
  | some p => p
  | none =>
    match kwIndex bs with
    | some i => "k" ++ toString i
    | none => "v" ++ toString (code bs)

/-- `lex`: the token list the parser mirror `GS.BfParse.parse` consumes -/
def lex (bs : List Nat) : Except String (List String) :=
  match lexRaw bs with
  | .ok ts => .ok (ts.map toWire)
  | .error e => .error e

/-- `bf.Parse` on bytes: `.error "unmodelled"` or the answer of the parser mirror -/
def parseBytes (bs : List Nat) : Except String (BfParse.Res SF) :=
  match lex bs with
  | .ok ts => .ok (BfParse.parse ts)
  | .error e => .error e

end GS.BfLex
