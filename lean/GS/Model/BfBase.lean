import GS.Spec.Formula
/-!
# GS.Model.BfBase — node types of package `bf` (`/repo/bf/bf.go`), `Eval`, the builders

Core-only. A Go `variable{name, dummy}` is the key `(n, dummy)`: the name is a number (the
harness uses the one-letter name `'a' + n`), `dummy` is the Go flag.  Go's `interface` node
types become the nested inductive `F`.

The node type `unique []variable` (what `Unique(names...)` returns since the repair of the
negated exactly-one groups) is the constructor `F.unique`: it is only replaced by clauses in
`nnf` (`GS/Model/Bf.lean`), by `uniqueRec` where the group must hold and by its plain negation
where it must not.
-/
namespace GS.Bf

/-- `variable{name: n, dummy: d}` -/
abbrev Key := Nat × Bool

/-- the Go node types `variable`, `lit`, `not`, `and`, `or`, `trueConst`, `falseConst`, `unique` -/
inductive F where
  | var (n : Nat) (dummy : Bool)
  | lit (n : Nat) (dummy : Bool) (neg : Bool)
  | not (f : F)
  | and (fs : List F)
  | or (fs : List F)
  | tt
  | ff
  | unique (ks : List Key)
deriving Repr, Inhabited

/-! ### `Eval` -/

mutual
/-- `Formula.Eval` (the Go `and.Eval` / `or.Eval` loops compute the plain conjunction /
    disjunction, `true` / `false` when there is no child; `unique.Eval` counts the true
    variables, position by position, and answers `nb == 1`) -/
def eval (m : Key → Bool) : F → Bool
  | .var n d => m (n, d)
  | .lit n d neg => m (n, d) != neg
  | .not f => !eval m f
  | .and fs => evalAll m fs
  | .or fs => evalAny m fs
  | .tt => true
  | .ff => false
  | .unique ks => countTrue (ks.map m) == 1
def evalAll (m : Key → Bool) : List F → Bool
  | [] => true
  | f :: fs => eval m f && evalAll m fs
def evalAny (m : Key → Bool) : List F → Bool
  | [] => false
  | f :: fs => eval m f || evalAny m fs
end

/-! ### Builders -/

/-- `Var(name)` -/
def pbVar (n : Nat) : F := .var n false
/-- the Go value `variable{name, dummy}` as a formula -/
def keyVar (k : Key) : F := .var k.1 k.2
/-- `Implies(f1, f2) = or{not{f1}, f2}` -/
def implies (f1 f2 : F) : F := .or [.not f1, f2]
/-- `Eq(f1, f2) = and{or{not{f1}, f2}, or{f1, not{f2}}}` -/
def eq (f1 f2 : F) : F := .and [.or [.not f1, f2], .or [f1, .not f2]]
/-- `Xor(f1, f2) = and{or{not{f1}, not{f2}}, or{f1, f2}}` -/
def xor (f1 f2 : F) : F := .and [.or [.not f1, .not f2], .or [f1, f2]]

/-- `Unique(names...)`: the node `unique(vars2)` with `vars2[i] = pbVar(names[i])`, for any
    number of names -/
def uniqueOf (ns : List Nat) : F := .unique (ns.map (fun n => (n, false)))

/-- the double loop of `uniqueSmall`: for `i < j`, in lexicographic order, `Or(Not(vᵢ), Not(vⱼ))` -/
def pairsNot : List F → List F
  | [] => []
  | v :: vs => vs.map (fun w => F.or [.not v, .not w]) ++ pairsNot vs

/-- `uniqueSmall(vars...)` on already built variables -/
def uniqueSmallV (vs : List F) : F := .and (.or vs :: pairsNot vs)

/-- `uniqueSmall` on the problem variables named `ns` (what `uniqueRec` returns when
    `len(ns) ≤ 4`) -/
def uniqueSmall (ns : List Nat) : F := uniqueSmallV (ns.map pbVar)

/-- the double loop of `unique.negation`: for `i < j`, in lexicographic order, `And(uᵢ, uⱼ)` -/
def pairsAnd : List F → List F
  | [] => []
  | v :: vs => vs.map (fun w => F.and [v, w]) ++ pairsAnd vs

/-- `unique.negation()`: `Or(And(Not(u₀), …, Not(uₙ₋₁)), And(u₀,u₁), And(u₀,u₂), …)` — "none or
    at least two"; no dummy variable -/
def negation (ks : List Key) : F :=
  .or (.and (ks.map (fun k => F.not (keyVar k))) :: pairsAnd (ks.map keyVar))

end GS.Bf
