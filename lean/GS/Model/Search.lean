import GS.Model.Watch
import GS.Model.Analyze
/-!
# GS.Model.Search — the CDCL loop of `solver.go` replayed from a log of its heuristic choices

Mirror of `Solve` → `search` → `propagateAndSearch` (`/repo/solver/solver.go`, plain clauses, no
assumption, `CuttingPlanes` off), of `cleanupBindings` (restricted to `model` / `trail` / `reason`),
`backtrackData`, `addLearned` → `watchClause`, `addLearnedUnit`, `reduceLearned` / `unwatchClause`
(`watcher.go`) and `computeLbd` (`learn.go`), on top of the propagation mirror `GS.Watch` and the
conflict-analysis mirror `GS.Analyze`.  Core-only.

Everything in the loop is recomputed, except the four heuristic choices, which are read from the log:

| event | Go | what the mirror checks before it follows |
|---|---|---|
| `unify lit lvl` | head of the `for lit != -1` loop | `lvl` is the mirror's level; after `addLearned`: `lit` is the asserting literal; otherwise (a `chooseLit` result): `lit` is unbound, and no `reduceLearned` was due |
| `learn lits` | `addLearned(learnt)` | `lits` = asserting literal, then a permutation of the other literals of the analysis result with non-increasing levels (`sortLiterals` is unstable) |
| `restart` | the `mustRestart()` branch | `unifyLiteral` has just returned without conflict |
| `reduce ids` | `reduceLearned()`, `ids` = `wl.learned` as `sort.Sort` leaves it | the reduction is due (`NbConflicts >= idxReduce*nbMax`), `ids` is a permutation of `learned` with non-increasing lbd; the removals (`lbd > 2`, not locked), the final order and the `unwatchClause` calls are recomputed |
| `reduced ids` | after `reduceLearned()` | `ids` = the recomputed `wl.learned` |
| `fin sat` | `search` returned `Sat` / `Unsat` | `Sat`: `chooseLit` was next, no reduction due, every variable bound; `Unsat`: the mirror reached `setUnsat` |

Clause ids: position in `origClauses`, then learned clauses in the order of `addLearned`; a removed
clause keeps its slot in `ws.clauses` (it is no longer in `learned` nor in any watch list).

`cleanupBindings` reads `s.model[s.trail[i].Var()]`: every trail literal went through `unifyLiteral` /
`bind`, which fail on an unknown variable, so the lookups below use `getD`.
`isLocked` (a bit set by `propagateUnit` / `learnt.lock()` and cleared by `cleanupBindings` together with
`reason[v]`) is read here as "is `reason[v]` for some `v`" (binary clauses are not locked by `propagate`,
but their lbd is ≤ 2 and they are never candidates).
-/
namespace GS.Search
open GS.Watch

inductive Verdict where
  | sat
  | unsat
deriving Repr, DecidableEq, Inhabited

inductive Event where
  | unify (lit lvl : Int)
  | learn (lits : List Int)
  | restart
  | reduce (sorted : List Nat)
  | reduced (after : List Nat)
  | fin (sat : Bool)
deriving Repr, DecidableEq, Inhabited

inductive Err where
  /-- the code could not have produced this log -/
  | reject (msg : String)
  /-- the Go code would panic here (or a mirror ran out of fuel) -/
  | panic (msg : String)
deriving Repr, DecidableEq, Inhabited

/-- Where the control is in `Solve` / `propagateAndSearch`. -/
inductive Phase where
  /-- `unifyLiteral` returned `nil`: `mustRestart`?, reduction?, then `lvl++; chooseLit()` -/
  | afterUnify
  /-- `chooseLit()` is next, `lvl` is the level of the next decision -/
  | choose
  /-- `learnClause` returned a clause: asserting literal, other literals (stable order of the mirror) -/
  | learn (a : Int) (rest : List Int)
  /-- head of the loop with the asserting literal -/
  | assert (lit : Int)
  /-- `reduceLearned` has run -/
  | reduced (after : List Nat)
  /-- `propagateAndSearch` returned `Sat` / `Unsat` -/
  | done (v : Verdict)
  /-- `search` returned it -/
  | ended (v : Verdict)
deriving Repr, DecidableEq, Inhabited

structure St where
  ws : Watch.State
  nOrig : Nat
  /-- `wl.learned` (ids, in order) -/
  learned : List Nat
  /-- lbd of clause `nOrig + i` -/
  lbds : List Nat
  lvl : Int
  nbConfl : Nat
  nbMax : Nat
  idxReduce : Nat
  phase : Phase
deriving Repr, Inhabited

/-- `abs(s.model[l.Var()])` -/
def lvlAbs (m : List Int) (l : Int) : Int := (((m[l.natAbs - 1]?).getD 0).natAbs : Nat)

/-- the `for i < len(s.trail) && abs(s.model[s.trail[i].Var()]) <= lvl` loop of `cleanupBindings` -/
def keepLen (m : List Int) (lvl : Int) : List Int → Nat
  | [] => 0
  | l :: ls => if lvlAbs m l ≤ lvl then keepLen m lvl ls + 1 else 0

/-- `cleanupBindings(lvl)` on `model`, `reason`, `trail`. -/
def cleanup (lvl : Int) (ws : State) : State :=
  let i := keepLen ws.model lvl ws.trail
  let dropped := ws.trail.drop i
  { ws with
    model := dropped.foldl (fun m l => m.set (l.natAbs - 1) 0) ws.model
    reasons := dropped.foldl (fun r l => r.set (l.natAbs - 1) none) ws.reasons
    trail := ws.trail.take i }

/-- What `learnClause` reads: one entry per trail literal. -/
def entries (ws : State) : List GS.Analyze.Entry :=
  ws.trail.map (fun l =>
    { lit := l, lvl := ((ws.model[l.natAbs - 1]?).getD 0).natAbs, assumed := false,
      reason := match ws.reasons[l.natAbs - 1]? with
                | some (some cid) => ws.clauses[cid]?
                | _ => none })

/-- `computeLbd` -/
def computeLbd (m : List Int) (c : List Int) : Nat :=
  match c with
  | [] => 1
  | l0 :: _ =>
    (c.foldl (fun (p : Nat × Int) l => if lvlAbs m l ≠ p.2 then (p.1 + 1, lvlAbs m l) else p)
      (1, lvlAbs m l0)).1

/-- levels never increase along the list -/
def levelsDesc (m : List Int) : List Int → Bool
  | [] => true
  | [_] => true
  | a :: b :: r => decide (lvlAbs m b ≤ lvlAbs m a) && levelsDesc m (b :: r)

def lbdOf (st : St) (cid : Nat) : Nat := (st.lbds[cid - st.nOrig]?).getD 0

def lbdsDesc (st : St) : List Nat → Bool
  | [] => true
  | [_] => true
  | a :: b :: r => decide (lbdOf st b ≤ lbdOf st a) && lbdsDesc st (b :: r)

/-- `isLocked` -/
def locked (ws : State) (cid : Nat) : Bool := ws.reasons.any (· == some cid)

/-- `s.Stats.NbConflicts >= s.wl.idxReduce*s.wl.nbMax` -/
def reduceDue (st : St) : Bool := decide (st.idxReduce * st.nbMax ≤ st.nbConfl)

def allBound (ws : State) : Bool := ws.model.all (· != 0)

/-- The conflict branch of `propagateAndSearch` up to `addLearned` (which needs the next event). -/
def onConflict (st : St) (ws : State) (cid : Nat) : Except Err St :=
  let st1 : St := { st with ws := ws, nbConfl := st.nbConfl + 1 }
  match ws.clauses[cid]? with
  | none => .error (.panic "conflict clause")
  | some confl =>
    match GS.Analyze.analyzeE (entries ws) st.lvl.toNat confl with
    | .stuck => .error (.panic "learnClause")
    | .topLevel => .ok { st1 with phase := .done .unsat }
    | .unit u =>
      match litStatus ws.model u with
      | none => .error (.panic "litStatus(unit)")
      | some s =>
        if lvlAbs ws.model u = 1 ∧ s = .unsat then .ok { st1 with phase := .done .unsat }
        else
          match unifyLiteral u 1 (cleanup 1 ws) with
          | .error _ => .error (.panic "unifyLiteral(unit, 1)")
          | .ok (some _, ws2) => .ok { st1 with ws := ws2, phase := .done .unsat }
          | .ok (none, ws2) => .ok { st1 with ws := ws2, lvl := 2, phase := .choose }
    | .learned a rest => .ok { st1 with phase := .learn a rest }

/-- `unifyLiteral(lit, lvl)` at the head of the loop and what follows up to the next choice. -/
def doUnify (st : St) (lit : Int) : Except Err St :=
  match unifyLiteral lit st.lvl st.ws with
  | .error _ => .error (.panic "unifyLiteral")
  | .ok (none, ws') => .ok { st with ws := ws', phase := .afterUnify }
  | .ok (some cid, ws') => onConflict st ws' cid

/-- `addLearned(learnt)`, `backtrackData`, `cleanupBindings(lvl)`, `s.reason[lit.Var()] = learnt`. -/
def doLearn (st : St) (lits : List Int) : Except Err St :=
  let cid := st.ws.clauses.length
  match lits[0]?, lits[1]? with
  | some a, some b =>
    match watchClause cid lits st.ws.wbin st.ws.wlong with
    | none => .error (.panic "watchClause")
    | some (wb, wl) =>
      let bt := lvlAbs st.ws.model b
      let ws1 : State := { st.ws with clauses := st.ws.clauses ++ [lits], wbin := wb, wlong := wl }
      let ws2 := cleanup bt ws1
      if a.natAbs - 1 < ws2.reasons.length then
        .ok { st with
          ws := { ws2 with reasons := ws2.reasons.set (a.natAbs - 1) (some cid) }
          learned := st.learned ++ [cid]
          lbds := st.lbds ++ [computeLbd st.ws.model lits]
          lvl := bt
          phase := .assert a }
      else .error (.panic "reason[lit.Var()]")
  | _, _ => .error (.panic "backtrackData")

/-- the `for s.wl.wlist[neg][j].clause != c` loop of `unwatchClause` -/
def findW (cid : Nat) : List Watcher → Nat → Option Nat
  | [], _ => none
  | w :: ws, j => if w.cid = cid then some j else findW cid ws (j + 1)

/-- one iteration of `unwatchClause`: `wlist[neg][j] = wlist[neg][len-1]; wlist[neg] = wlist[neg][:len-1]` -/
def unwatchLit (cid : Nat) (wlong : List (List Watcher)) (l : Int) : Option (List (List Watcher)) :=
  match wget wlong (-l) with
  | none => none
  | some ws =>
    match findW cid ws 0, ws.getLast? with
    | some j, some last => some (wlong.set (litIdx (-l)) ((ws.set j last).dropLast))
    | _, _ => none

/-- `unwatchClause(c)` -/
def unwatch (ws : State) (cid : Nat) : Option State :=
  match ws.clauses[cid]? with
  | none => none
  | some c =>
    match c[0]?, c[1]? with
    | some a, some b =>
      match unwatchLit cid ws.wlong a with
      | none => none
      | some w1 =>
        match unwatchLit cid w1 b with
        | none => none
        | some w2 => some { ws with wlong := w2 }
    | _, _ => none

/-- The `for i := 0; i < length; i++` loop of `reduceLearned` over the first half `front` of the
    sorted slice: the new first half and the removed clauses, in order (`k` = `nbRemoved`). -/
def redFront (sorted : List Nat) (n : Nat) (rem : Nat → Bool) : List Nat → Nat → List Nat × List Nat
  | [], _ => ([], [])
  | c :: cs, k =>
    if rem c then
      let r := redFront sorted n rem cs (k + 1)
      ((sorted[n - (k + 1)]?).getD 0 :: r.1, c :: r.2)
    else
      let r := redFront sorted n rem cs k
      (c :: r.1, r.2)

def unwatchAll : List Nat → State → Option State
  | [], ws => some ws
  | c :: cs, ws =>
    match unwatch ws c with
    | none => none
    | some ws' => unwatchAll cs ws'

/-- `idxReduce = NbConflicts/nbMax + 1; reduceLearned(); bumpNbMax()` given the order `sort.Sort` leaves. -/
def doReduce (st : St) (sorted : List Nat) : Except Err St :=
  let n := sorted.length
  let half := n / 2
  -- `if nbLearned > 0 && s.wl.learned[length].lbd() <= 3` (the guard `nbLearned > 0` is the repair of
  -- the panic on an empty database: `sorted[half]?` is `none` exactly when there is no learned clause)
  let nbMax1 := match sorted[half]? with
    | none => st.nbMax
    | some mid => if lbdOf st mid ≤ 3 then st.nbMax + 1000 else st.nbMax
  (
    let rem := fun c => decide (2 < lbdOf st c) && !locked st.ws c
    let r := redFront sorted n rem (sorted.take half) 0
    let final := (r.1 ++ sorted.drop half).take (n - r.2.length)
    match unwatchAll r.2 st.ws with
    | none => .error (.panic "unwatchClause")
    | some ws' =>
      .ok { st with
        ws := ws'
        learned := final
        idxReduce := st.nbConfl / st.nbMax + 1
        nbMax := nbMax1 + 300
        phase := .reduced final })

def step (st : St) (ev : Event) : Except Err St :=
  match ev, st.phase with
  | .unify lit lvl, .assert a =>
    if lvl ≠ st.lvl then .error (.reject "level of the asserting literal")
    else if lit ≠ a then .error (.reject "not the asserting literal")
    else doUnify st lit
  | .unify lit lvl, .afterUnify =>
    if reduceDue st then .error (.reject "a reduction was due")
    else if lvl ≠ st.lvl + 1 then .error (.reject "level of the decision")
    else if litStatus st.ws.model lit ≠ some .indet then .error (.reject "decision on a bound variable")
    else doUnify { st with lvl := st.lvl + 1 } lit
  | .unify lit lvl, .choose =>
    if lvl ≠ st.lvl then .error (.reject "level of the decision")
    else if litStatus st.ws.model lit ≠ some .indet then .error (.reject "decision on a bound variable")
    else doUnify st lit
  | .learn lits, .learn a rest =>
    match lits with
    | a' :: rest' =>
      if a' ≠ a then .error (.reject "asserting literal of the learned clause")
      else if !rest'.isPerm rest then .error (.reject "learned clause is not the analysis result")
      else if !levelsDesc st.ws.model lits then .error (.reject "learned clause not sorted by level")
      else doLearn st lits
    | [] => .error (.reject "empty learned clause")
  | .restart, .afterUnify =>
    .ok { st with ws := cleanup 1 st.ws, lvl := 2, phase := .choose }
  | .reduce sorted, .afterUnify =>
    if !reduceDue st then .error (.reject "no reduction is due")
    else if st.nbMax = 0 then .error (.panic "division by zero")
    else if !sorted.isPerm st.learned then .error (.reject "not a permutation of the learned clauses")
    else if !lbdsDesc st sorted then .error (.reject "not sorted by lbd")
    else doReduce st sorted
  | .reduced after, .reduced final =>
    if after ≠ final then .error (.reject "learned clauses after the reduction")
    else .ok { st with lvl := st.lvl + 1, phase := .choose }
  | .fin true, .afterUnify =>
    if reduceDue st then .error (.reject "a reduction was due")
    else if !allBound st.ws then .error (.reject "Sat while a variable is unbound")
    else .ok { st with phase := .ended .sat }
  | .fin true, .choose =>
    if !allBound st.ws then .error (.reject "Sat while a variable is unbound")
    else .ok { st with phase := .ended .sat }
  | .fin false, .done .unsat => .ok { st with phase := .ended .unsat }
  | _, _ => .error (.reject "unexpected event")

/-- index of the rejected event, reason -/
def runFrom : Nat → St → List Event → Except (Nat × Err) St
  | _, st, [] => .ok st
  | i, st, ev :: evs =>
    match step st ev with
    | .error e => .error (i, e)
    | .ok st' => runFrom (i + 1) st' evs

def run (st : St) (evs : List Event) : Except (Nat × Err) (St × Verdict) :=
  match runFrom 0 st evs with
  | .error e => .error e
  | .ok st' =>
    match st'.phase with
    | .ended v => .ok (st', v)
    | _ => .error (evs.length, .reject "the log stops before the search does")

/-- the `for i, lit := range problem.Units` loop of `New` -/
def bindUnits : List Int → State → Option State
  | [], ws => some ws
  | u :: us, ws =>
    if u = 0 ∨ ¬ (u.natAbs - 1 < ws.model.length) then none
    else bindUnits us { ws with model := ws.model.set (u.natAbs - 1) (signedLvl u 1), trail := ws.trail ++ [u] }

/-- `New(problem)` for a problem with `n` variables, clauses `cls` (length ≥ 2) and unit facts `units`,
    then the entry of `Solve`. -/
def init (n nbMax : Nat) (cls : List (List Int)) (units : List Int) : Option St :=
  match initState n cls with
  | none => none
  | some ws0 =>
    match bindUnits units ws0 with
    | none => none
    | some ws =>
      some { ws := ws, nOrig := cls.length, learned := [], lbds := [], lvl := 2, nbConfl := 0,
             nbMax := nbMax, idxReduce := 1, phase := .choose }

end GS.Search
