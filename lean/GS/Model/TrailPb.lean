import GS.Model.Trail
/-!
# GS.Model.TrailPb — the trail machine of `GS.Model.Trail` with cardinality / pseudo-boolean antecedents

`GS.Model.Trail` covers the propositional part of the CDCL loop: `propagate l c` asks for a
*clause* `c` made unit by the trail.  On problems with cardinality and pseudo-boolean constraints
(`/repo/solver/watcher.go`, loop over `s.wl.wlistPb[lit]` and `s.wl.wlistCardAMO[lit]` in
`propagate`) the solver also calls `propagateUnit(c, lvl, lit)` with such a constraint `c`:

| Go function | test under which `propagateUnit(clause, lvl, lit)` is reached |
|---|---|
| `simplifyPseudoBool` | `slack, sat := slackSum(clause)` with `slack = Σ_{lit not Unsat} w − card`; not `sat`; `slack ≥ 0`; `litStatus(lit) == Indet && clause.Weight(i) > slack` (loop), or `slack == 0` and `litStatus(lit) == Indet` (`propagateAll`) |
| `simplifyCardConstr` | all weights 1; `nbUnb + nbTrue == card` counted over the whole constraint (= number of literals that are not `Unsat`); `s.model[lit.Var()] == 0` |
| `simplifyCardAMOConstr` | all weights 1, `card = len − 1`, exactly one literal `Unsat`; `s.model[lit.Var()] == 0` |

In all three the literal is unbound and the total weight of the literals of the constraint that are
not false, **without** the weight of `lit`, is smaller than the degree: `w > slack` is
`Σ_{not false} w − w(lit) < card`.  That is the guard `forcedPb` of the new operation
`propagatePb l c` (`goPbTest`, `goCardTest` below are the Go tests as written; `GS.Props.C02_TrailPb`
proves that each implies `forcedPb`).  `propagateUnit` stores the constraint itself in
`s.reason[v]`; `learnClause` (`learn.go`) reads only its literals (`reason.Len()`, `reason.Get(i)`)
and keeps those that are `Unsat` **now**.  Hence an entry records the whole constraint
(`PEntry.reason : Option Lin`) and the state handed to the analysis mirror `GS.Analyze` carries its
literal list (`PEntry.toEntry`, `litsOf`): exactly the shape `analyze_sound_pb` speaks about
(`∃ c, Entails p c ∧ c.terms.map (·.2) = r ∧ pbExplains (isFalse pre) [e.lit] c`).

All clause operations of `GS.Model.Trail` are kept with the same guards (`GS.Trail.unbound`,
`GS.Trail.isUnit` evaluated on the projected entries); a clause is stored as `Lin.ofClause c`
(weights 1, degree 1) and `propagate l c` **is** `propagatePb l (Lin.ofClause c)`
(`GS.TrailPb.propagate_eq_propagatePb`).  Core-only.
-/
namespace GS.TrailPb
open GS GS.Analyze

/-- `reason.Get(0) … reason.Get(Len-1)`: the literals of a constraint. -/
def litsOf (c : Lin) : List Int := c.terms.map (·.2)

/-- One trail position: as `GS.Analyze.Entry`, with the whole antecedent constraint. -/
structure PEntry where
  lit : Int
  lvl : Nat
  assumed : Bool
  reason : Option Lin
deriving Repr, DecidableEq, Inhabited

/-- What `learnClause` reads of the entry. -/
def PEntry.toEntry (e : PEntry) : Entry := ⟨e.lit, e.lvl, e.assumed, e.reason.map litsOf⟩

structure State where
  lvl : Nat
  es : List PEntry
deriving Repr, DecidableEq, Inhabited

/-- The analysed entries. -/
def State.ents (s : State) : List Entry := s.es.map PEntry.toEntry

/-- The state of `GS.Model.Trail` seen by the analysis. -/
def State.toTrail (s : State) : GS.Trail.State := ⟨s.lvl, s.ents⟩

/-- The snapshot `learnClause` is run on when a constraint with literals `confl` is found violated. -/
def State.toSt (s : State) (confl : List Int) : St := s.toTrail.toSt confl

inductive Op where
  | decide (l : Int)
  | propagate (l : Int) (c : List Int)
  | backjump (lvl : Nat)
  | assertLearned (l : Int) (c : List Int) (lvl : Nat)
  | addFact (l : Int)
  | assume (l : Int)
  | propagatePb (l : Int) (c : Lin)
deriving Repr, DecidableEq, Inhabited

/-- Guard of `propagatePb`: `l` is a literal of `c`, the weights are non-negative, and the total
    weight of the terms of `c` whose literal is neither false nor `l` is below the degree. -/
def forcedPb (es : List Entry) (l : Int) (c : Lin) : Bool :=
  (litsOf c).contains l && pbExplains (isFalse es) [l] c

/-- `simplifyPseudoBool` as written: positive weights (`NewPBClause`), `slack = Σ_{not false} w − card`
    is `≥ 0` (else the constraint is returned as a conflict) and some position holding `l` has a
    weight `> slack` (`propagateAll` is the case `slack = 0`). -/
def goPbTest (es : List Entry) (l : Int) (c : Lin) : Bool :=
  c.terms.all (fun t => decide (0 < t.1)) &&
  decide (0 ≤ slack (isFalse es) [] c.terms - c.degree) &&
  c.terms.any (fun t => t.2 == l && decide (t.1 > slack (isFalse es) [] c.terms - c.degree))

/-- `simplifyCardConstr` / `simplifyCardAMOConstr` as written: weights 1, `l` in the constraint,
    number of literals that are not false `= card`. -/
def goCardTest (es : List Entry) (l : Int) (c : Lin) : Bool :=
  c.terms.all (fun t => t.1 == 1) && (litsOf c).contains l &&
  decide (slack (isFalse es) [] c.terms = c.degree)

/-- `propagateUnit` / `unifyLiteral`'s two assignments: bind and push. -/
def push (s : State) (l : Int) (lvl : Nat) (assumed : Bool) (r : Option Lin) : State :=
  { lvl := lvl, es := s.es ++ [⟨l, lvl, assumed, r⟩] }

def decideOp (s : State) (l : Int) : Option State :=
  if l != 0 && GS.Trail.unbound s.ents l then some (push s l (s.lvl + 1) false none) else none

def propagateOp (s : State) (l : Int) (c : List Int) : Option State :=
  if l != 0 && GS.Trail.unbound s.ents l && GS.Trail.isUnit s.ents l c then
    some (push s l s.lvl false (some (Lin.ofClause c)))
  else none

def propagatePbOp (s : State) (l : Int) (c : Lin) : Option State :=
  if l != 0 && GS.Trail.unbound s.ents l && forcedPb s.ents l c then
    some (push s l s.lvl false (some c))
  else none

/-- `cleanupBindings(k)`. -/
def backjumpOp (s : State) (k : Nat) : Option State :=
  if decide (1 ≤ k) && decide (k ≤ s.lvl) then
    some { lvl := k, es := s.es.takeWhile (fun e => decide (e.lvl ≤ k)) }
  else none

def assertLearnedOp (s : State) (l : Int) (c : List Int) (k : Nat) : Option State :=
  match backjumpOp s k with
  | some s' => propagateOp s' l c
  | none => none

def addFactOp (s : State) (l : Int) : Option State :=
  if l != 0 && GS.Trail.unbound s.ents l && s.lvl == 1 then some (push s l 1 false none) else none

def assumeOp (s : State) (l : Int) : Option State :=
  if l != 0 && GS.Trail.unbound s.ents l && s.lvl == 1 then some (push s l 1 true none) else none

/-- One operation; `none` when its guard fails. -/
def step (s : State) : Op → Option State
  | .decide l => decideOp s l
  | .propagate l c => propagateOp s l c
  | .backjump k => backjumpOp s k
  | .assertLearned l c k => assertLearnedOp s l c k
  | .addFact l => addFactOp s l
  | .assume l => assumeOp s l
  | .propagatePb l c => propagatePbOp s l c

def run (s : State) : List Op → Option State
  | [] => some s
  | o :: os =>
    match step s o with
    | some s' => run s' os
    | none => none

def empty : State := { lvl := 1, es := [] }

/-- `New`: the problem's unit literals at level 1, in order. -/
def init (units : List Int) : State :=
  { lvl := 1, es := units.map (fun u => ⟨u, 1, false, none⟩) }

/-- The operation of `GS.Model.Trail` a clause operation stands for. -/
def Op.toTrail : Op → Option GS.Trail.Op
  | .decide l => some (.decide l)
  | .propagate l c => some (.propagate l c)
  | .backjump k => some (.backjump k)
  | .assertLearned l c k => some (.assertLearned l c k)
  | .addFact l => some (.addFact l)
  | .assume l => some (.assume l)
  | .propagatePb _ _ => none

/-- A constraint violated at the current level, as `learnClause` treats it (`addClauseLits` keeps
    the literals that are `Unsat`): non-negative weights, the total weight of the literals that are
    not false is below the degree (`slack < 0` in `simplifyPseudoBool`, `length − nbFalse < card` in
    `simplifyCardConstr`, every literal false for a clause), its false literals are pairwise
    distinct and one of them is bound at the current level. -/
def falsifiedPb (s : State) (c : Lin) : Bool :=
  pbExplains (isFalse s.ents) [] c && conflOk s.ents s.lvl (litsOf c)

/-- Trail literals without antecedent, by kind. -/
def decisions (s : State) : List Int :=
  (s.es.filter (fun e => e.reason.isNone && !e.assumed && decide (2 ≤ e.lvl))).map (·.lit)

def facts (s : State) : List Int :=
  (s.es.filter (fun e => e.reason.isNone && !e.assumed && decide (e.lvl ≤ 1))).map (·.lit)

def assumptions (s : State) : List Int :=
  (s.es.filter (fun e => e.reason.isNone && e.assumed)).map (·.lit)

/-- The constraints used as antecedents. -/
def reasonConstrs (s : State) : List Lin := s.es.filterMap (·.reason)

/-- The constraint an operation installs as antecedent, or the fact it adds (as a unit clause). -/
def opConstr : Op → Option Lin
  | .propagate _ c => some (Lin.ofClause c)
  | .propagatePb _ c => some c
  | .assertLearned _ c _ => some (Lin.ofClause c)
  | .addFact l => some (Lin.ofClause [l])
  | _ => none

/-- Every antecedent installed and every fact added by `ops` is a member of `p`. -/
def opsFrom (p : Problem) (ops : List Op) : Bool :=
  ops.all (fun o => match opConstr o with | some c => p.contains c | none => true)

/-- Antecedents in the shape `analyze_sound_pb` asks for: the propagated literal is a literal of its
    antecedent, which forced it given the literals false *before* it (`pre` = entries before). -/
def reasonsPbAux : List Entry → List PEntry → Bool
  | _, [] => true
  | pre, e :: post =>
    (match e.reason with
     | none => true
     | some c => forcedPb pre e.lit c)
    && reasonsPbAux (pre ++ [e.toEntry]) post

def reasonsPb (es : List PEntry) : Bool := reasonsPbAux [] es

/-- Executable form of the inductive invariant (`GS.TrailPb.InvPb`). -/
def invPbB (s : State) : Bool :=
  trailInv s.ents s.lvl && reasonsPb s.es &&
  (List.range (s.lvl + 1)).all (fun k => decide (k < 2) || decisionsOk s.ents k) &&
  decide (1 ≤ s.lvl) && s.ents.all (fun e => decide (1 ≤ e.lvl))

end GS.TrailPb
