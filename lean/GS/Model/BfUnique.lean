import GS.Model.BfBase
/-!
# GS.Model.BfUnique — mirror of `uniqueRec` (the clauses of an exactly-one group where it must hold, /repo/bf/bf.go)

Core-only. `uniqueRec(vars...)`:

* `len(vars) ≤ 4`: `uniqueSmall(vars...)`;
* otherwise `nbLines = int(math.Sqrt(n) + 0.5)`, `nbCols = int(math.Ceil(math.Sqrt(n)))`; variable
  number `p` sits in line `p / nbCols` and column `p % nbCols`; one dummy variable
  `line-i-<names joined by "-">` per line and `col-j-<…>` per column;
  result `And(Eq(line_i, Or(line i)) …, Eq(col_j, Or(col j)) …, uniqueRec(lines…), uniqueRec(cols…))`.

The float computation is abstracted: the model takes the grid-dimension function
`dims : Nat → Nat × Nat` (`(nbLines, nbCols)` for `n` variables) as a parameter; `natDims` is the
exact integer version (`⌊√n + ½⌋`, `⌈√n⌉`), to be compared with Go's float64 values by the
harness (op `uniquedims`).

**Dummy keys.** A Go `variable{name, dummy}` is a `Key = (number, dummy)`. The dummy variable
"line `i` of the group `g`" is the key `(2 * nm false i g + 1, true)`, "column `j` of the group `g`" is
`(2 * nm true j g + 1, true)`, where `nm : Bool → Nat → List Key → Nat` is a parameter of `uniqueRecN`
that must be injective. The concrete choice `natName` is
`natName t i g = pair (t ? 1 : 0) (pair i (codeList (g.map keyCode)))` with
`pair a b = (a+b)² + b` (injective), `keyCode (n, d) = 2n + (d ? 1 : 0)`,
`codeList [] = 0`, `codeList (x :: xs) = pair x (codeList xs) + 1`.
(Go's own encoding — joining the names with `"-"` — is *not* injective when names contain `-`:
see the note in `GS/Props/C11_Unique.lean`.)
These keys have an **odd** number; the keys `(2 * val, true)` that `GS.Bf.dummy` uses for Go's
`dummy-<val>` variables have an even one: as in Go, where the three families of names (`line-…`,
`col-…`, `dummy-…`) are disjoint strings, a dummy of `uniqueRec` is never a dummy of `cnfRec`.

**What the model does not mirror.** Go panics when `nbCols = 0` (integer division by zero) or
when `p / nbCols ≥ nbLines` (index out of range); the model instead puts such a variable in no
line. `DimsOk` excludes both, and `natDims` satisfies `DimsOk` (`GS/Props/C11_Unique.lean`).
The recursion is fuel-bounded (`uniqueRecF`); fuel `len(vars)` suffices when `DimsOk dims`.
-/
namespace GS.BfUnique
open GS.Bf

/-- `xs[q]` for the positions `q` with `f (p + q)`, in order (`p` = index of the head):
    what the loop `for i, v := range vars { linesF[i/nbCols] = append(linesF[i/nbCols], v) … }`
    leaves in one cell of `linesF` / `colsF`. -/
def pick {α} (f : Nat → Bool) : Nat → List α → List α
  | _, [] => []
  | p, x :: xs => if f p then x :: pick f (p + 1) xs else pick f (p + 1) xs

/-! ### grid dimensions in ℕ -/

/-- `(⌊√n + ½⌋, ⌈√n⌉)` given `s = ⌊√n⌋`: `√n + ½ ≥ s + 1 ⟺ n ≥ s² + s + ¼ ⟺ n − s² > s`. -/
def natDimsOf (n s : Nat) : Nat × Nat :=
  (if n - s * s ≤ s then s else s + 1, if s * s = n then s else s + 1)

/-- `(nbLines, nbCols)` of `uniqueRec` for `n` variables, computed in ℕ. -/
def natDims (n : Nat) : Nat × Nat := natDimsOf n (Nat.sqrt n)

/-- What `uniqueRec` needs from the dimensions for `n ≥ 5` variables: no division by zero, every
    index `p < n` has its line `p / C` below `L`, and both recursive calls are on fewer variables. -/
def DimsOk (dims : Nat → Nat × Nat) : Prop :=
  ∀ n, 5 ≤ n → 0 < (dims n).2 ∧ n ≤ (dims n).1 * (dims n).2 ∧ (dims n).1 < n ∧ (dims n).2 < n

/-! ### names of the dummy variables -/

def pair (a b : Nat) : Nat := (a + b) * (a + b) + b

def keyCode (k : Key) : Nat := 2 * k.1 + (if k.2 then 1 else 0)

def codeList : List Nat → Nat
  | [] => 0
  | x :: xs => pair x (codeList xs) + 1

/-- the number standing for the Go name `line-i-<g joined>` (`t = false`) / `col-i-<g joined>`
    (`t = true`) -/
def natName (t : Bool) (i : Nat) (g : List Key) : Nat :=
  pair (if t then 1 else 0) (pair i (codeList (g.map keyCode)))

/-! ### `uniqueRec` -/

/-- `lines[i]` (`t = false`) / `cols[i]` (`t = true`) for the group `vars` -/
def dummyKey (nm : Bool → Nat → List Key → Nat) (t : Bool) (vars : List Key) (i : Nat) : Key :=
  (2 * nm t i vars + 1, true)

/-- the slice `lines` (resp. `cols`): `k` dummy variables -/
def dummyKeys (nm : Bool → Nat → List Key → Nat) (t : Bool) (vars : List Key) (k : Nat) : List Key :=
  (List.range k).map (dummyKey nm t vars)

/-- `linesF[i]` for `nbCols = C` -/
def lineMembers (C : Nat) (vars : List Key) (i : Nat) : List Key := pick (fun p => p / C == i) 0 vars
/-- `colsF[j]` for `nbCols = C` -/
def colMembers (C : Nat) (vars : List Key) (j : Nat) : List Key := pick (fun p => p % C == j) 0 vars

/-- `for i := range lines { res = append(res, Eq(lines[i], Or(linesF[i]...))) }` -/
def lineEqs (nm : Bool → Nat → List Key → Nat) (L C : Nat) (vars : List Key) : List F :=
  (List.range L).map (fun i =>
    Bf.eq (keyVar (dummyKey nm false vars i)) (.or ((lineMembers C vars i).map keyVar)))

/-- `for i := range cols { res = append(res, Eq(cols[i], Or(colsF[i]...))) }` -/
def colEqs (nm : Bool → Nat → List Key → Nat) (C : Nat) (vars : List Key) : List F :=
  (List.range C).map (fun j =>
    Bf.eq (keyVar (dummyKey nm true vars j)) (.or ((colMembers C vars j).map keyVar)))

/-- `uniqueRec(vars...)` with `fuel` nested calls allowed (out of fuel: `uniqueSmall`, never
    reached when `len(vars) ≤ fuel` and `DimsOk dims`). -/
def uniqueRecF (dims : Nat → Nat × Nat) (nm : Bool → Nat → List Key → Nat) : Nat → List Key → F
  | 0, vars => uniqueSmallV (vars.map keyVar)
  | fuel + 1, vars =>
    if vars.length ≤ 4 then uniqueSmallV (vars.map keyVar)
    else
      let L := (dims vars.length).1
      let C := (dims vars.length).2
      .and (lineEqs nm L C vars ++ colEqs nm C vars ++
        [uniqueRecF dims nm fuel (dummyKeys nm false vars L),
         uniqueRecF dims nm fuel (dummyKeys nm true vars C)])

/-- `uniqueRec` with an arbitrary naming of the dummy variables -/
def uniqueRecN (dims : Nat → Nat × Nat) (nm : Bool → Nat → List Key → Nat) (vars : List Key) : F :=
  uniqueRecF dims nm vars.length vars

/-- `uniqueRec(vars...)`, dummy variables named by `natName` -/
def uniqueRec (dims : Nat → Nat × Nat) (vars : List Key) : F := uniqueRecN dims natName vars

/-- `uniqueRec` on the problem variables named `ns`: what `Unique(ns...).nnf()` normalises -/
def unique (dims : Nat → Nat × Nat) (ns : List Nat) : F := uniqueRec dims (ns.map (fun n => (n, false)))

end GS.BfUnique
