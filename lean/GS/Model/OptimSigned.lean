import GS.Model.Optim
/-!
# GS.Model.OptimSigned — mirror of the repaired optimisation loop of `Solver.Optimal` / `Solver.Minimize`
(integer cost weights of either sign)

Core-only. Go source mirrored: `/tmp/pw/repo/solver/solver.go`, `func (s *Solver) Optimal` (l. 965-1055)
and `func (s *Solver) Minimize` (l. 1062-1128), as they are after the repair for negative weights.
`GS/Model/Optim.lean` mirrors the code before the repair (`maxCost = Σ w`, exit at `cost == 0`).

Correspondence (line numbers of `Optimal`; `Minimize` is textually the same set-up and loop)
* `s.minLits`, `s.minWeights`   ↦ the cost function `f : List (Int × Int)`, terms `(weight, literal)`
  (`minWeights == nil` is `f = lits.map (1, ·)`; `minLits == nil` behaves exactly as `f = []`:
  first model, cost 0, see `loopS_nil` in the Props file).
* l. 991-994  `s.hypothesis[i] = lit.Negation()`, l. 995-1002 `copy(weights, s.minWeights)`, and
  l. 1003-1013
      `if w < 0 { weights[i] = -w; s.hypothesis[i] = s.hypothesis[i].Negation(); minCost += w }
       else { maxCost += w }`
                                 ↦ `normTerms f` : `(w, l) ↦ if w < 0 then (-w, l) else (w, -l)`
                                   (`Lit.Negation` is an involution on Go `Lit`s, so the literal negated
                                   twice is `l` itself), `maxCost ↦ posSum f`, `minCost ↦ negSum f`.
* l. 1014 `sort.Sort(wLits{…})` (decreasing weight) ↦ `GS.Optim.sortDesc`;
  l. 1015-1018 (drop trailing zero weights) ↦ `GS.Optim.stripZeros`; together `hypothesisS f`.
  (Go's `sort.Sort` is not stable; the model uses a stable insertion sort; `goBoundS_holds`
  shows that order and zero-weight terms are semantically irrelevant.)
* l. 1023-1032 `cost` computed with the ORIGINAL signed `s.minWeights` ↦ `GS.cost f a`.
* l. 1042 `if cost == minCost { break }` (Minimize l. 1112: `return cost`) ↦ `Stop.exit0`
  (the constructor keeps its old name; it now stands for the `cost == minCost` exit).
* l. 1050 `s.AppendClause(NewPBClause(lits2, weights2, maxCost-cost+1))` ↦ `p ++ [goBoundS f cost]`;
  `NewPBClause` panics when the degree is `< 1` ↦ `Stop.panic` (proved unreachable: `loopS_no_panic`).
* l. 1052 `status = s.Solve()` ↦ `solveFn (p ++ …)`, an oracle `Problem → Option Asg`.
* `for status == Sat` ↦ `loopS`, fuel-bounded (`enoughFuelS` suffices: `loopS_fuel`).
Machine-integer overflow of `maxCost`/`minCost`/`cost` is not modelled (`Int` is unbounded).
-/
namespace GS.OptimS
open GS GS.Optim

/-- `maxCost`: sum of the positive (non-negative) weights. -/
def posSum : List (Int × Int) → Int
  | [] => 0
  | t :: ts => (if t.1 < 0 then 0 else t.1) + posSum ts

/-- `minCost`: sum of the negative weights. -/
def negSum : List (Int × Int) → Int
  | [] => 0
  | t :: ts => (if t.1 < 0 then t.1 else 0) + negSum ts

/-- One `(weights[i], s.hypothesis[i])` pair after the sign normalisation. -/
def normTerm (t : Int × Int) : Int × Int := if t.1 < 0 then (-t.1, t.2) else (t.1, -t.2)

/-- `(weights, s.hypothesis)` after the sign normalisation, before the sort. -/
def normTerms (f : List (Int × Int)) : List (Int × Int) := f.map normTerm

/-- `s.hypothesis` zipped with `weights` after the sort and the zero-stripping. -/
def hypothesisS (f : List (Int × Int)) : List (Int × Int) := stripZeros (sortDesc (normTerms f))

/-- The bound constraint with the terms in the order of `f`, zero-weight terms kept
    (reference form; what Go appends is `goBoundS`). -/
def boundConstrS (f : List (Int × Int)) (c : Int) : Lin := ⟨normTerms f, posSum f - c + 1⟩

/-- What the Go loop appends when the current cost is `c`:
    `NewPBClause(s.hypothesis, weights, maxCost-cost+1)`. -/
def goBoundS (f : List (Int × Int)) (c : Int) : Lin := ⟨hypothesisS f, posSum f - c + 1⟩

/-- The `for status == Sat { … }` loop; `p` is everything the solver holds, `a` is `s.model`. -/
def loopS (solveFn : Problem → Option Asg) (f : List (Int × Int)) : Nat → Problem → Asg → Run
  | 0, _, a => ⟨[], (a, cost f a), .fuel⟩
  | k + 1, p, a =>
    let c := cost f a
    if c = negSum f then ⟨[(a, c)], (a, c), .exit0⟩                    -- `if cost == minCost { break }`
    else if posSum f - c + 1 < 1 then ⟨[(a, c)], (a, c), .panic⟩       -- `NewPBClause`: `card < 1`
    else
      match solveFn (p ++ [goBoundS f c]) with
      | none => ⟨[(a, c)], (a, c), .unsat⟩
      | some b =>
        let r := loopS solveFn f k (p ++ [goBoundS f c]) b
        ⟨(a, c) :: r.stream, r.last, r.stop⟩

/-- `Optimal`: first `Solve`, then the loop. -/
def optimalS (solveFn : Problem → Option Asg) (p : Problem) (f : List (Int × Int)) (fuel : Nat) : Outcome :=
  match solveFn p with
  | none => .unsat
  | some a =>
    let r := loopS solveFn f fuel p a
    match r.stop with
    | .fuel => .fuel r.stream
    | .panic => .panic r.stream
    | _ => .ok r.last.1 r.last.2 r.stream

/-- Fuel that always suffices (see `loopS_fuel`): the cost lies in `[negSum f, posSum f]` and
    strictly decreases. -/
def enoughFuelS (f : List (Int × Int)) : Nat := (posSum f - negSum f).toNat + 2

/-- The returned `(model, cost)` (`s.Model()` after the call, and the cost), if any. -/
def minimizeS (solveFn : Problem → Option Asg) (p : Problem) (f : List (Int × Int)) (fuel : Nat) :
    Option (Asg × Int) :=
  match optimalS solveFn p f fuel with
  | .ok a c _ => some (a, c)
  | _ => none

/-- What `Minimize()` returns as an `int`: `some (-1)` for Unsat, `some cost` otherwise
    (`none`: panic / out of fuel, both proved impossible under the oracle contract).
    This is `GS.Optim.Outcome.minimizeResult` of the signed run. -/
def minimizeIntS (solveFn : Problem → Option Asg) (p : Problem) (f : List (Int × Int)) (fuel : Nat) :
    Option Int :=
  (optimalS solveFn p f fuel).minimizeResult

/-! ### executable instance: exhaustive-search oracle over variables `1..n` -/

def optimalBruteS (n : Nat) (p : Problem) (f : List (Int × Int)) : Outcome :=
  optimalS (bruteSolve n) p f (enoughFuelS f)

def minimizeBruteS (n : Nat) (p : Problem) (f : List (Int × Int)) : Option (Asg × Int) :=
  minimizeS (bruteSolve n) p f (enoughFuelS f)

/-- Cost reported by the loop run with the exhaustive oracle (`none`: Unsat, panic or fuel). -/
def minimizeBruteCostS (n : Nat) (p : Problem) (f : List (Int × Int)) : Option Int :=
  (minimizeBruteS n p f).map (·.2)

/-- The `int` returned by `Minimize()` when run with the exhaustive oracle. -/
def minimizeBruteIntS (n : Nat) (p : Problem) (f : List (Int × Int)) : Option Int :=
  (optimalBruteS n p f).minimizeResult

end GS.OptimS
