import GS.Model.Simplify
/-!
# GS.Model.Append — mirror of the simplification prologue of `(*Solver).AppendClause`

Core-only, executable. Mirrors, line by line, `/repo/solver/solver.go`

    func (s *Solver) AppendClause(clause *Clause)

up to (and excluding) the two calls at its end, `s.propagateUnits(clause.lits)` and
`s.appendClause(clause)`, whose *arguments* are the result of the mirror, together with the
accessors it uses: `litStatus` (solver.go), `Cardinality`, `PseudoBoolean`, `Len`, `Get`, `Weight`,
`removeLit`, `updateCardinality` (clause.go).

## Conventions (the same as `GS.Model.Simplify`, whose `Cl`, `mget`, `varOf`, `updCard` are reused)

* Literals are DIMACS integers; `Lit.Var()` of `l` is `varOf l = |l| - 1`, `IsPositive()` is `l > 0`.
  Go `int` is the unbounded `Int`.
* `s.model` *after* `s.cleanupBindings(1)` is a `List Int` indexed by `Var`: `0` unbound, `> 0` true,
  `< 0` false (after the cleanup only `0`, `1`, `-1` occur, the mirror does not depend on that).
  `mget` returns `0` out of range: this is exactly what `s.newVar(lit.Var())` achieves in Go (the model
  is extended with zeros before `litStatus` reads it), so `newVar` needs no separate mirror.
  The model is not written by the prologue (only `propagateUnits`, afterwards, binds variables).
* `Cl` is `solver.Clause`: `lits`, `weights = none` iff `pbData == nil`, `card = Cardinality()`.
  The Go code indexes `pbData.weights` with the indices of `lits`; when `weights` is shorter than
  `lits` Go panics (index out of range), the mirror reads weight `0` instead (and then takes the
  null-weight branch of the main loop). The theorems assume equal lengths (guaranteed by `NewPBClause` callers: `sort.Sort` needs it as well).
* `removeLit(idx)`: `lits[idx] = lits[len-1]; lits = lits[:len-1]` (and the same on the weights) is
  `removeAt`, literally `(xs.set idx last).dropLast`.
* `updateCardinality(add)` works on `lbdValue = card - 1` as `uint32`: it is `GS.Simplify.updCard`
  (clamps the cardinality at 1).
* Loops carry a fuel; each iteration decreases `Len() - index` by one, so the fuel `Len()` at entry
  is exact (proved for the main loop in `GS.Props.C09_Append`: `scan_spec` needs `len - i ≤ fuel`).
-/
namespace GS.Append
open GS GS.Simplify

/-- `solver.Status` as returned by `litStatus`. -/
inductive LitStatus where
  | indet | sat | unsat
deriving Repr, DecidableEq, Inhabited

/-- `s.litStatus(l)`. -/
def litStatus (m : List Int) (l : Int) : LitStatus :=
  let assign := mget m (varOf l)
  if assign = 0 then .indet
  else if (assign > 0 ↔ l > 0) then .sat
  else .unsat

/-- `xs[idx] = xs[len(xs)-1]; xs = xs[:len(xs)-1]` (Go panics on the empty slice). -/
def removeAt {α : Type} (xs : List α) (idx : Nat) : List α :=
  match xs.getLast? with
  | none => xs
  | some y => (xs.set idx y).dropLast

/-- `c.Get(i)` (0 out of range; Go panics). -/
def get (c : Cl) (i : Nat) : Int := (c.lits[i]?).getD 0

/-- `c.Weight(i)`. -/
def weight (c : Cl) (i : Nat) : Int :=
  match c.weights with
  | none => 1
  | some ws => (ws[i]?).getD 0

/-- `c.removeLit(idx)`. -/
def removeLit (c : Cl) (idx : Nat) : Cl :=
  { c with lits := removeAt c.lits idx, weights := c.weights.map (fun ws => removeAt ws idx) }

/-- `c.updateCardinality(add)`. -/
def updateCardinality (c : Cl) (add : Int) : Cl := { c with card := updCard c.card add }

/-! ## The duplicate-removal loops (propositional clauses only) -/

/-- `for j := i + 1; j < clause.Len(); { if clause.Get(j) == clause.Get(i) { clause.removeLit(j) } else { j++ } }`;
    arguments: fuel, clause, `j`. -/
def dedupInner (i : Nat) : Nat → Cl → Nat → Cl
  | 0, c, _ => c
  | n + 1, c, j =>
    if j < c.lits.length then
      if get c j = get c i then dedupInner i n (removeLit c j) j
      else dedupInner i n c (j + 1)
    else c

/-- `for i := 0; i < clause.Len(); i++ { … }`; arguments: fuel, clause, `i`. -/
def dedupOuter : Nat → Cl → Nat → Cl
  | 0, c, _ => c
  | n + 1, c, i =>
    if i < c.lits.length then dedupOuter n (dedupInner i c.lits.length c (i + 1)) (i + 1)
    else c

def dedup (c : Cl) : Cl := dedupOuter c.lits.length c 0

/-! ## The main loop -/

/-- State at the exit of the `for i < clause.Len()` loop. -/
structure ScanR where
  clause : Cl
  minW : Int
  maxW : Int
deriving Repr, DecidableEq, Inhabited

/-- `for i < clause.Len() { … }`; arguments: fuel, clause, `i`, `minW`, `maxW`. -/
def scan (m : List Int) : Nat → Cl → Nat → Int → Int → ScanR
  | 0, c, _, minW, maxW => ⟨c, minW, maxW⟩
  | n + 1, c, i, minW, maxW =>
    if i < c.lits.length then
      let lit := get c i
      -- s.newVar(lit.Var()): no effect on what `litStatus` reads (see the conventions)
      if weight c i = 0 then scan m n (removeLit c i) i minW maxW     -- removeLit(i); continue
      else
        match litStatus m lit with
        | .sat =>
          let w := weight c i
          scan m n (updateCardinality (removeLit c i) (-w)) i (minW + w) (maxW + w)
        | .unsat => scan m n (removeLit c i) i minW maxW
        | .indet => scan m n c (i + 1) minW (maxW + weight c i)
    else ⟨c, minW, maxW⟩

/-- What `AppendClause` does after the prologue. -/
inductive Result where
  /-- `minW >= card`: plain `return`, nothing is added. -/
  | trivial
  /-- `maxW < card`: `s.status = Unsat`. -/
  | unsat
  /-- `maxW == card`: `s.propagateUnits(clause.lits)` with these literals, in this order. -/
  | units (ls : List Int)
  /-- otherwise: `s.appendClause(clause)` with this (shrunk) constraint. -/
  | attach (c : Cl)
deriving Repr, DecidableEq, Inhabited

/-- The prologue of `AppendClause`; `m` is `s.model` after `cleanupBindings(1)`. -/
def appendSimplify (m : List Int) (clause : Cl) : Result :=
  let card := clause.card
  let clause := if card = 1 ∧ clause.weights = none then dedup clause else clause
  let r := scan m clause.lits.length clause 0 0 0
  if r.minW ≥ card then .trivial
  else if r.maxW < card then .unsat
  else if r.maxW = card then .units r.clause.lits
  else .attach r.clause

/-- `s.model` from the list of literals bound at the top level (the driver's input format):
    `none` on a null literal or on two opposite literals. -/
def modelOfLits : List Int → Option (List Int)
  | [] => some []
  | l :: ls =>
    match modelOfLits ls with
    | none => none
    | some m =>
      if l = 0 then none
      else
        let m := m ++ List.replicate (varOf l + 1 - m.length) 0
        let v := if l > 0 then (1 : Int) else -1
        if mget m (varOf l) = 0 ∨ mget m (varOf l) = v then some (m.set (varOf l) v) else none

end GS.Append
