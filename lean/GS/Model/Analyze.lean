import GS.Spec.Basic
/-!
# GS.Model.Analyze — line-by-line mirror of gophersat's conflict analysis

Mirrors `/repo/solver/learn.go` (`addClauseLits`, `learnClause`, `minimizeLearned`) and
`/repo/solver/sort.go` (`sortLiterals`).  Core-only (linked into the driver).

## What the Go code reads, and how it is represented here

* `s.trail` — the propagation stack; `s.model[v]` — signed level of variable `v`
  (`abs` = level, sign = value, `0` = unbound); `s.reason[v]` — antecedent of `v` or `nil`;
  `s.assumptions[v]`.  All four are indexed **by variable** in Go.  Here the state is one
  `Entry` per trail literal (literal, level, assumed, literals of the antecedent) and the
  per-variable arrays are lookups of the *first* entry carrying that variable (`findVar`):
  `lvOf`, `reasonOf`, `assumedOf`.  `litStatus(l) == Unsat` is `isFalse`: the negation of
  `l` is on the trail.
* Only the *literals* of the conflict and of the antecedents are read (`Len`, `Get`);
  weights and cardinality never are: a literal is used iff it is currently false.
* `met`, `metLvl` (`[]bool` indexed by variable) are lists of variables; `nbLvl` is a counter
  kept separately, exactly as in Go (a literal repeated in the conflict is counted twice);
  `lits` holds positions `1…` of the Go slice (position 0 is reserved for the asserting literal).
* `metLvl` is never cleared in Go, not even for the variables resolved away; the asserting
  literal is the negation of the first trail literal (from the *start* of the trail) whose
  variable is in `metLvl`.  Mirrored as such.

## Result

* `learned a rest` — Go returns a clause whose literal 0 is `a` and whose other literals are,
  as a set, `rest`; `rest` is given here in the order produced by a *stable* sort by decreasing
  level (Go's `sort.Sort` is unstable: the order among equal levels is unspecified);
* `unit l` — Go returns `(nil, l)`;
* `topLevel` — Go returns `(nil, -1)` because the walk reached an assumed variable;
* `stuck` — one of
  1. `nbLvl > 1` but no trail literal at or below `ptr` is in `metLvl`: Go evaluates
     `s.trail[-1]` and panics (index out of range).  Happens when `nbLvl` over-counts (a false
     literal of level `lvl` repeated in the conflict) or when a variable of level `lvl` that is
     in the conflict/antecedents is not on the trail;
  2. no false literal of level `lvl` in the conflict (`nbLvl = 0`, `metLvl` empty): Go does
     **not** fail, it leaves in position 0 whatever the shared buffer `s.bufLits[0]` held
     (literal of variable 0 on the first call, the previous asserting literal afterwards) and
     returns a meaningless clause.
  Neither happens when the conflict is a constraint falsified by propagation at level `lvl`
  with pairwise distinct literals.

Sorting caveat: `sortLiterals` sorts the whole slice, position 0 included.  The asserting literal
has level `lvl`, all other literals a level `≠ lvl`; when every level is `≤ lvl` (the solver's
invariant) it is the unique maximum and stays in position 0 whatever the sort does.  On inputs
with levels `> lvl` the mirror uses the stable sort, which is one of the behaviours Go may show.
-/
namespace GS.Analyze

/-- One trail position: the literal, `abs(model[var])`, `assumptions[var]`, literals of `reason[var]`. -/
structure Entry where
  lit : Int
  lvl : Nat
  assumed : Bool
  reason : Option (List Int)
deriving Repr, DecidableEq, Inhabited

def Entry.var (e : Entry) : Nat := e.lit.natAbs

/-- Arrays indexed by variable: the first trail entry of that variable. -/
def findVar (es : List Entry) (v : Nat) : Option Entry := es.find? (fun e => e.var == v)

/-- `abs(s.model[v])` (0 when unbound). -/
def lvOf (es : List Entry) (v : Nat) : Nat :=
  match findVar es v with
  | some e => e.lvl
  | none => 0

/-- `s.reason[v]`. -/
def reasonOf (es : List Entry) (v : Nat) : Option (List Int) :=
  match findVar es v with
  | some e => e.reason
  | none => none

/-- `s.assumptions[v]`. -/
def assumedOf (es : List Entry) (v : Nat) : Bool :=
  match findVar es v with
  | some e => e.assumed
  | none => false

/-- `s.litStatus(l) == Unsat`: the negation of `l` is on the trail. -/
def isFalse (es : List Entry) (l : Int) : Bool := es.any (fun e => e.lit == -l)

/-- Working state of `learnClause`. -/
structure Acc where
  met : List Nat
  metLvl : List Nat
  nbLvl : Nat
  lits : List Int
deriving Repr, DecidableEq, Inhabited

/-- Body shared by `addClauseLits` (l.27-34) and the antecedent loop (l.77-84) for a false literal:
    `met[v] = true; if abs(model[v]) == lvl { metLvl[v] = true; nbLvl++ } else { lits = append(lits, l) }`. -/
def addFalse (es : List Entry) (lvl : Nat) (acc : Acc) (l : Int) : Acc :=
  if lvOf es l.natAbs = lvl then
    { acc with met := l.natAbs :: acc.met, metLvl := l.natAbs :: acc.metLvl, nbLvl := acc.nbLvl + 1 }
  else
    { acc with met := l.natAbs :: acc.met, lits := acc.lits ++ [l] }

/-- One iteration of `addClauseLits` (no `met` test there). -/
def stepConfl (es : List Entry) (lvl : Nat) (acc : Acc) (l : Int) : Acc :=
  if isFalse es l then addFalse es lvl acc l else acc

/-- One iteration of the antecedent loop, l.71-86: `if !met[v2] { if status != Unsat {continue}; … }`. -/
def stepReason (es : List Entry) (lvl : Nat) (acc : Acc) (l : Int) : Acc :=
  if l.natAbs ∈ acc.met then acc
  else if isFalse es l then addFalse es lvl acc l else acc

/-- `addClauseLits`. -/
def addClauseLits (es : List Entry) (lvl : Nat) (confl : List Int) : Acc :=
  confl.foldl (stepConfl es lvl) ⟨[], [], 0, []⟩

inductive WalkRes where
  | done (acc : Acc)
  | topLevel
  | stuck
deriving Repr, DecidableEq

/-- The `for nbLvl > 1` loop of `learnClause`; the first argument is the part of the trail at
    positions `≤ ptr`, most recent first.  The inner `for !metLvl[…]` loop is the second branch
    (it does not change `nbLvl`, so re-testing `nbLvl > 1` is harmless). -/
def walk (es : List Entry) (lvl : Nat) : List Entry → Acc → WalkRes
  | [], acc => if acc.nbLvl ≤ 1 then .done acc else .stuck
  | e :: rem, acc =>
    if acc.nbLvl ≤ 1 then .done acc
    else if e.var ∉ acc.metLvl then
      walk es lvl rem (if lvOf es e.var = lvl then { acc with met := e.var :: acc.met } else acc)
    else if assumedOf es e.var then .topLevel
    else
      let acc1 := { acc with nbLvl := acc.nbLvl - 1 }
      match reasonOf es e.var with
      | none => walk es lvl rem acc1
      | some r => walk es lvl rem (r.foldl (stepReason es lvl) acc1)

/-- l.89-94: negation of the first trail literal whose variable is in `metLvl`. -/
def asserting (es : List Entry) (metLvl : List Nat) : Option Int :=
  match es.find? (fun e => decide (e.var ∈ metLvl)) with
  | some e => some (-e.lit)
  | none => none

/-- Stable insertion sort by decreasing key (`sortLiterals` up to the order among equal keys). -/
def insDesc (key : Int → Nat) (x : Int) : List Int → List Int
  | [] => [x]
  | y :: ys => if key y ≤ key x then x :: y :: ys else y :: insDesc key x ys

def sortDesc (key : Int → Nat) : List Int → List Int
  | [] => []
  | x :: xs => insDesc key x (sortDesc key xs)

/-- Test of `minimizeLearned` for one literal at a position `≥ 1`: kept iff its variable has no
    reason or some variable of its reason is not `met`. -/
def keep (es : List Entry) (met : List Nat) (l : Int) : Bool :=
  match reasonOf es l.natAbs with
  | none => true
  | some r => r.any (fun x => decide (x.natAbs ∉ met))

/-- `minimizeLearned`: position 0 is kept. -/
def minimize (es : List Entry) (met : List Nat) : List Int → List Int
  | [] => []
  | a :: rest => a :: rest.filter (keep es met)

inductive Res where
  | learned (asserting : Int) (rest : List Int)
  | unit (l : Int)
  | topLevel
  | stuck
deriving Repr, DecidableEq

/-- The literal list `learnClause` ends with (asserting literal first), before the
    `sz == 1` test; `none` = `stuck`, `some none` = top-level conflict. -/
def analyzeRaw (es : List Entry) (lvl : Nat) (confl : List Int) : Option (Option (List Int)) :=
  match walk es lvl es.reverse (addClauseLits es lvl confl) with
  | .stuck => none
  | .topLevel => some none
  | .done acc =>
    match asserting es acc.metLvl with
    | none => none
    | some a => some (some (minimize es acc.met (sortDesc (fun l => lvOf es l.natAbs) (a :: acc.lits))))

/-- `learnClause` on trail entries. -/
def analyzeE (es : List Entry) (lvl : Nat) (confl : List Int) : Res :=
  match analyzeRaw es lvl confl with
  | none => .stuck
  | some none => .topLevel
  | some (some []) => .stuck   -- unreachable: `minimize` of a non-empty list is non-empty
  | some (some [l]) => .unit l
  | some (some (a :: rest)) => .learned a rest

/-! ### Input state in the shape of the harness snapshot -/

/-- Conflict constraint: only its literals matter. -/
structure Cn where
  lits : List Int
deriving Repr, DecidableEq, Inhabited

structure St where
  lvl : Nat
  confl : Cn
  /-- literal, level, assumed -/
  trail : List (Int × Nat × Bool)
  /-- aligned with the trail: literals of the antecedent -/
  reasons : List (Option (List Int))
deriving Repr, Inhabited

def St.entries (st : St) : List Entry :=
  List.zipWith (fun t r => ⟨t.1, t.2.1, t.2.2, r⟩) st.trail st.reasons

def analyze (st : St) : Res := analyzeE st.entries st.lvl st.confl.lits

/-! ### The solver's trail invariant, executable (checked by the harness on real snapshots) -/

/-- No variable twice on the trail. -/
def noDupVars : List Entry → Bool
  | [] => true
  | e :: es => es.all (fun x => x.var != e.var) && noDupVars es

/-- Levels never decrease along the trail. -/
def monoLevels : List Entry → Bool
  | [] => true
  | e :: es => es.all (fun x => decide (e.lvl ≤ x.lvl)) && monoLevels es

/-- Syntactic trail invariant used by the soundness theorem: distinct variables, non-zero
    literals, levels non-decreasing along the trail and bounded by the current level. -/
def trailInv (es : List Entry) (lvl : Nat) : Bool :=
  noDupVars es && es.all (fun e => e.lit != 0) && monoLevels es && es.all (fun e => decide (e.lvl ≤ lvl))

/-- Clause-shaped antecedents: the propagated literal occurs in its antecedent and every other
    literal of the antecedent is false by an earlier trail entry (`pre` = entries before). -/
def reasonsCnfAux : List Entry → List Entry → Bool
  | _, [] => true
  | pre, e :: post =>
    (match e.reason with
     | none => true
     | some r => r.contains e.lit && r.all (fun f => f == e.lit || isFalse pre f))
    && reasonsCnfAux (pre ++ [e]) post

def reasonsCnf (es : List Entry) : Bool := reasonsCnfAux [] es

/-- Entries of the current level without antecedent: only the first entry of that level
    (the decision) or assumptions. -/
def decisionsOkAux (lvl : Nat) : List Entry → List Entry → Bool
  | _, [] => true
  | pre, e :: post =>
    (e.reason.isSome || e.assumed || e.lvl != lvl || pre.all (fun x => x.lvl != lvl))
    && decisionsOkAux lvl (pre ++ [e]) post

def decisionsOk (es : List Entry) (lvl : Nat) : Bool := decisionsOkAux lvl [] es

/-- The false literals of the conflict are pairwise distinct and at least one has level `lvl`. -/
def conflOk (es : List Entry) (lvl : Nat) (confl : List Int) : Bool :=
  let fs := confl.filter (isFalse es)
  decide (fs.Pairwise (· ≠ ·)) && fs.any (fun l => lvOf es l.natAbs == lvl)

/-! ### clausal explanation of a cardinality / PB antecedent (or conflict)

`slack fb extra ts` is the total weight of the terms whose literal is neither marked false by `fb`
nor listed in `extra`.  A constraint `Σ wᵢ·lᵢ ≥ d` with `slack fb [x] ts < d` forces `x` as soon as
the `fb`-literals are false (propagation); with `slack fb [] ts < d` it is violated (conflict). -/
def slack (fb : Int → Bool) (extra : List Int) : List (Int × Int) → Int
  | [] => 0
  | t :: ts => (if fb t.2 || extra.contains t.2 then 0 else t.1) + slack fb extra ts

/-- `c` (non-negative weights) explains the clause `extra ++ {literals of c marked by fb}`. -/
def pbExplains (fb : Int → Bool) (extra : List Int) (c : Lin) : Bool :=
  c.terms.all (fun t => decide (0 ≤ t.1)) && decide (slack fb extra c.terms < c.degree)

end GS.Analyze
