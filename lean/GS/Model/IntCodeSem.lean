import GS.Generated.IntCode
/-!
# GS.IntCodeSem — the integer reading of the generated bit-vector definitions

`GS/Generated/IntCode.lean` is written by `/verif/trans` from the Go source on every run; this
hand-written layer relates those definitions (two's complement, `BitVec 32` / `BitVec 64`) to the
DIMACS-integer view (`Int` literals) used by every other model of the development:

* `litCode i` is the solver's code of the DIMACS literal `i` (`2(i-1)` / `2(-i-1)+1`), `litDecode`
  its inverse, `varOf` the 0-based variable;
* `toInt_IntToLit … : (IntToLit i).toInt = litCode i.toInt` on `0 < |i| ≤ 2^30` (the exact range),
  `toInt_Lit_Int`, `toInt_Lit_Var`, `Lit_IsPositive_eq`, `toInt_Lit_Negation`;
* the flag word `lbdValue : BitVec 32` read as `(learned, locked, lbd)`: `toNat` forms of every
  generated flag function.

Everything is proved from the generated text: when the Go source changes, these lemmas are
re-checked against the new definitions.
-/
namespace GS.IntCodeSem
open GS.Gen.IntCode

/-! ## DIMACS-integer view -/

/-- solver code of the DIMACS literal `i ≠ 0` -/
def litCode (i : Int) : Int := if 0 < i then 2 * (i - 1) else 2 * (-i - 1) + 1
/-- DIMACS literal of the code `l ≥ 0` -/
def litDecode (l : Int) : Int := if l % 2 = 1 then -(l / 2 + 1) else l / 2 + 1

theorem litDecode_litCode (i : Int) (_h : i ≠ 0) : litDecode (litCode i) = i := by
  unfold litDecode litCode; split <;> split <;> omega
theorem litCode_litDecode (l : Int) (_h : 0 ≤ l) : litCode (litDecode l) = l := by
  unfold litDecode litCode; split <;> split <;> omega
theorem litCode_nonneg (i : Int) (h : i ≠ 0) : 0 ≤ litCode i := by
  unfold litCode; split <;> omega
/-- variable (1-based, as in `GS.Spec`) = `natAbs` of the literal = code / 2 + 1 -/
theorem litCode_var (i : Int) (_h : i ≠ 0) : litCode i / 2 + 1 = i.natAbs := by
  unfold litCode; split <;> omega

/-! ## arithmetic helpers -/

theorem toInt_ne_zero {w} {x : BitVec w} (h : x ≠ 0#w) : x.toInt ≠ 0 := by
  intro h0; apply h; apply BitVec.toInt_inj.mp; simpa using h0

/-- `n ^^^ 1` flips the parity bit -/
theorem nat_xor_one (n : Nat) : n ^^^ 1 = if n % 2 = 0 then n + 1 else n - 1 := by
  have hd : (n ^^^ 1) / 2 = n / 2 := by simp [Nat.xor_div_two]
  have hm := Nat.xor_mod_two_eq_one (a := n) (b := 1)
  have := Nat.mod_two_eq_zero_or_one (n ^^^ 1)
  split <;> omega

/-- the parity of the signed and of the unsigned reading agree -/
theorem toInt_emod_two (x : BitVec 32) : x.toInt % 2 = (x.toNat : Int) % 2 := by
  rw [BitVec.toInt_eq_toNat_cond]; split <;> omega

theorem toInt_bounds32 (x : BitVec 32) : -2147483648 ≤ x.toInt ∧ x.toInt < 2147483648 := by
  have := BitVec.toInt_lt (x := x); have := BitVec.le_toInt (x := x)
  constructor <;> omega

/-! ## literals and variables -/

/-- the exact range: `i ≠ 0`, `-2^30 ≤ i ≤ 2^30` -/
theorem toInt_IntToLit (i : BitVec 32) (h0 : i ≠ 0#32) (hlo : -2^30 ≤ i.toInt) (hhi : i.toInt ≤ 2^30) :
    (IntToLit i).toInt = litCode i.toInt := by
  have hne := toInt_ne_zero h0
  have := toInt_bounds32 i
  unfold IntToLit litCode
  simp only [BitVec.slt_eq_decide, decide_eq_true_eq]
  split <;> split <;>
    simp only [BitVec.toInt_add, BitVec.toInt_mul, BitVec.toInt_sub, BitVec.toInt_neg] at * <;>
    simp [Int.bmod_def] at * <;> omega

theorem toInt_sdiv_two (l : BitVec 32) : (BitVec.sdiv l 2#32).toInt = Int.tdiv l.toInt 2 := by
  have := toInt_bounds32 l
  have hs : Int.sign 2 = 1 := rfl
  rw [BitVec.toInt_sdiv]
  simp only [Int.tdiv_eq_ediv]
  simp [Int.bmod_def, hs]
  split <;> omega

theorem and_one_eq_one (l : BitVec 32) : ((l &&& 1#32) == 1#32) = decide (l.toInt % 2 = 1) := by
  rw [toInt_emod_two]
  have h : (l &&& 1#32).toNat = l.toNat % 2 := by simp [BitVec.toNat_and]
  by_cases hp : l.toNat % 2 = 1
  · have e : (l &&& 1#32) = 1#32 := BitVec.eq_of_toNat_eq (by simp [h, hp])
    have hp' : (l.toNat : Int) % 2 = 1 := by omega
    simp [e, hp']
  · have ne : (l &&& 1#32) ≠ 1#32 := by
      intro e; rw [e] at h
      have : (1#32).toNat = 1 := rfl
      omega
    have hp' : ¬ (l.toNat : Int) % 2 = 1 := by omega
    simp [ne, hp']

theorem toInt_Lit_Int (l : BitVec 32) (h : 0 ≤ l.toInt) : (Lit_Int l).toInt = litDecode l.toInt := by
  have := toInt_bounds32 l
  have hd := toInt_sdiv_two l
  rw [Int.tdiv_eq_ediv] at hd
  unfold Lit_Int litDecode
  simp only [and_one_eq_one, decide_eq_true_eq]
  split <;>
    simp only [BitVec.toInt_add, BitVec.toInt_neg, hd] <;>
    simp [Int.bmod_def] <;> omega

theorem toInt_Lit_Var (l : BitVec 32) (h : 0 ≤ l.toInt) : (Lit_Var l).toInt = l.toInt / 2 := by
  unfold Lit_Var
  rw [toInt_sdiv_two, Int.tdiv_eq_ediv]; simp [h]

theorem Lit_IsPositive_eq (l : BitVec 32) : Lit_IsPositive l = decide (l.toInt % 2 = 0) := by
  unfold Lit_IsPositive
  have : (BitVec.srem l 2#32).toInt = Int.tmod l.toInt 2 := by
    rw [BitVec.toInt_srem]; simp
  rw [Int.tmod_eq_emod] at this
  by_cases hp : l.toInt % 2 = 0
  · have h0 : BitVec.srem l 2#32 = 0#32 := BitVec.toInt_inj.mp (by
      rw [this]; simp; split <;> omega)
    simp [h0, hp]
  · have h0 : BitVec.srem l 2#32 ≠ 0#32 := by
      intro e; rw [e] at this; simp at this; split at this <;> omega
    simp [h0, hp]

/-- `l ^ 1` flips the last bit, for every bit pattern (also negative ones) -/
theorem toInt_Lit_Negation (l : BitVec 32) :
    (Lit_Negation l).toInt = if l.toInt % 2 = 0 then l.toInt + 1 else l.toInt - 1 := by
  have hn : (Lit_Negation l).toNat = if l.toNat % 2 = 0 then l.toNat + 1 else l.toNat - 1 := by
    unfold Lit_Negation; rw [BitVec.toNat_xor]; exact nat_xor_one _
  have hl := l.isLt
  rw [toInt_emod_two, BitVec.toInt_eq_toNat_cond, BitVec.toInt_eq_toNat_cond, hn]
  split <;> split <;> split <;> omega

theorem toInt_IntToVar (i : BitVec 32) (h : -2^31 < i.toInt) : (IntToVar i).toInt = i.toInt - 1 := by
  have := toInt_bounds32 i
  unfold IntToVar
  simp only [BitVec.toInt_sub]; simp [Int.bmod_def] at *; omega

/-! ## the flag word `lbdValue`: bit 31 learned, bit 30 locked, bits 0..29 lbd / cardinality-1 -/

theorem masks_toNat : learnedMask.toNat = 2^31 ∧ lockedMask.toNat = 2^30 ∧ bothMasks.toNat = 2^31 + 2^30
    ∧ (~~~bothMasks).toNat = 2^30 - 1 ∧ (~~~lockedMask).toNat = 2^32 - 1 - 2^30 := by decide

/-- two numbers with the same part above and below bit 30 are equal -/
theorem eq_of_div_mod {a b : Nat} (hd : a / 2^30 = b / 2^30) (hm : a % 2^30 = b % 2^30) : a = b := by omega

theorem and_lowMask (x : Nat) : x &&& 1073741823 = x % 2^30 := Nat.and_two_pow_sub_one_eq_mod x 30

theorem lt4_cases {h : Nat} (hh : h < 4) : h = 0 ∨ h = 1 ∨ h = 2 ∨ h = 3 := by omega

/-- and-ing with a mask made of bits 30, 31 only -/
theorem and_highMask (x m : Nat) :
    x &&& (m * 2^30) = ((x / 2^30) &&& m) * 2^30 := by
  apply eq_of_div_mod
  · rw [Nat.and_div_two_pow]; simp
  · rw [Nat.and_mod_two_pow]; simp

theorem or_highMask (x m : Nat) :
    x ||| (m * 2^30) = ((x / 2^30) ||| m) * 2^30 + x % 2^30 := by
  apply eq_of_div_mod
  · rw [Nat.or_div_two_pow]; simp [Nat.add_div]; omega
  · rw [Nat.or_mod_two_pow]; simp

theorem Clause_lbd_toNat (x : BitVec 32) : (Clause_lbd x).toNat = x.toNat % 2^30 := by
  unfold Clause_lbd
  simp only [BitVec.toNat_setWidth, BitVec.toNat_and, masks_toNat.2.2.2.1]
  have := and_lowMask x.toNat
  simp at this ⊢; omega

theorem and_split (a b : Nat) : a &&& b = (a / 2^30 &&& b / 2^30) * 2^30 + (a % 2^30 &&& b % 2^30) := by
  have hlt : (a % 2^30 &&& b % 2^30) < 2^30 := Nat.lt_of_le_of_lt Nat.and_le_left (Nat.mod_lt _ (by decide))
  apply eq_of_div_mod
  · rw [Nat.and_div_two_pow]; omega
  · rw [Nat.and_mod_two_pow]; omega

theorem or_split (a b : Nat) : a ||| b = (a / 2^30 ||| b / 2^30) * 2^30 + (a % 2^30 ||| b % 2^30) := by
  have hlt : (a % 2^30 ||| b % 2^30) < 2^30 := Nat.or_lt_two_pow (Nat.mod_lt _ (by decide)) (Nat.mod_lt _ (by decide))
  apply eq_of_div_mod
  · rw [Nat.or_div_two_pow]; omega
  · rw [Nat.or_mod_two_pow]; omega

theorem hi_lt4 (x : BitVec 32) : x.toNat / 2^30 < 4 := by have := x.isLt; omega

theorem and_both (x : BitVec 32) : (x &&& bothMasks).toNat = (x.toNat / 2^30) * 2^30 := by
  rw [BitVec.toNat_and, masks_toNat.2.2.1, and_split]
  rcases lt4_cases (hi_lt4 x) with h | h | h | h <;> simp [h]

theorem Clause_Learned_eq (x : BitVec 32) : Clause_Learned x = decide (2^31 ≤ x.toNat) := by
  unfold Clause_Learned
  have h : (x &&& learnedMask).toNat = (x.toNat / 2^31) * 2^31 := by
    rw [BitVec.toNat_and, masks_toNat.1, and_split]
    rcases lt4_cases (hi_lt4 x) with h | h | h | h <;> simp [h] <;> omega
  have hx := x.isLt
  by_cases hp : 2^31 ≤ x.toNat
  · have e : (x &&& learnedMask) = learnedMask := BitVec.eq_of_toNat_eq (by rw [h, masks_toNat.1]; omega)
    simp [e, hp]
  · have ne : (x &&& learnedMask) ≠ learnedMask := by
      intro e; rw [e, masks_toNat.1] at h; omega
    simp [ne, hp]

theorem Clause_isLocked_eq (x : BitVec 32) : Clause_isLocked x = decide (2^31 + 2^30 ≤ x.toNat) := by
  unfold Clause_isLocked
  have h := and_both x
  have hx := x.isLt
  by_cases hp : 2^31 + 2^30 ≤ x.toNat
  · have e : (x &&& bothMasks) = bothMasks := BitVec.eq_of_toNat_eq (by rw [h, masks_toNat.2.2.1]; omega)
    simp [e, hp]
  · have ne : (x &&& bothMasks) ≠ bothMasks := by
      intro e; rw [e, masks_toNat.2.2.1] at h; omega
    simp [ne, hp]

theorem Clause_lock_toNat (x : BitVec 32) :
    (Clause_lock x).toNat = if x.toNat / 2^30 % 2 = 0 then x.toNat + 2^30 else x.toNat := by
  unfold Clause_lock
  rw [BitVec.toNat_or, masks_toNat.2.1, or_split]
  rcases lt4_cases (hi_lt4 x) with h | h | h | h <;> simp [h] <;> omega

theorem Clause_unlock_toNat (x : BitVec 32) :
    (Clause_unlock x).toNat = if x.toNat / 2^30 % 2 = 1 then x.toNat - 2^30 else x.toNat := by
  unfold Clause_unlock
  rw [BitVec.toNat_and, masks_toNat.2.2.2.2, and_split]
  have hl := and_lowMask (x.toNat % 2^30)
  rcases lt4_cases (hi_lt4 x) with h | h | h | h <;> simp [h] at hl ⊢ <;> omega

theorem Clause_setLbd_toNat (x : BitVec 32) (n : BitVec 64) (hn : n.toNat < 2^30) :
    (Clause_setLbd x n).toNat = (x.toNat / 2^30) * 2^30 + n.toNat := by
  unfold Clause_setLbd
  rw [BitVec.toNat_or, and_both, BitVec.toNat_setWidth, or_split]
  have h1 : x.toNat / 2^30 * 2^30 / 2^30 = x.toNat / 2^30 := by omega
  have h2 : x.toNat / 2^30 * 2^30 % 2^30 = 0 := by omega
  have h3 : n.toNat % 2^32 / 2^30 = 0 := by omega
  have h4 : n.toNat % 2^32 % 2^30 = n.toNat := by omega
  rw [h1, h2, h3, h4]; simp

theorem Clause_incLbd_toNat (x : BitVec 32) : (Clause_incLbd x).toNat = (x.toNat + 1) % 2^32 := by
  unfold Clause_incLbd; simp [BitVec.toNat_add]

theorem Clause_Cardinality_toNat (x : BitVec 32) :
    (Clause_Cardinality x).toNat = if 2^31 ≤ x.toNat then 1 else x.toNat % 2^30 + 1 := by
  unfold Clause_Cardinality
  have hl := Clause_lbd_toNat x
  unfold Clause_lbd at hl
  rw [Clause_Learned_eq]
  simp only [decide_eq_true_eq]
  split
  · rfl
  · rw [BitVec.toNat_add, hl]; simp; omega

/-! 64-bit helpers (heap indices, decision levels) -/

theorem toInt_bounds64 (x : BitVec 64) : -9223372036854775808 ≤ x.toInt ∧ x.toInt < 9223372036854775808 := by
  have := BitVec.toInt_lt (x := x); have := BitVec.le_toInt (x := x)
  constructor <;> omega

end GS.IntCodeSem
