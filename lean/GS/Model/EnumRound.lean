import GS.Model.Trail
import GS.Model.Enum
/-!
# GS.Model.EnumRound — one round of `Enumerate` / `CountModels`, concretely

Core-only.  Line-by-line mirrors of the pieces of `/repo/solver/solver.go` that implement one
iteration of the loop of `Enumerate` / `CountModels` after `search` answered `Sat`:

| here | Go |
|---|---|
| `decisionLits es model` | `(*Solver).decisionLits` |
| `expandGo model` | `(*Solver).addCurrentModels` (the models sent on the channel, in order) |
| `nbGo`, `countGo` | the `uint64` counter `nb` of `addCurrentModels` / `countCurrentModels`, and `int(nb)` |
| `roundStep es model` | body of `if s.status == Sat { … }` of `Enumerate` / `CountModels` |
| `blockOp` | what the `default:` branch does to the trail (`cleanupBindings(lvl); s.reason[v] = c; propagateAndSearch(lit, lvl)` = the machine operation `assertLearned`) |

State representation.  The trail is a `List GS.Analyze.Entry` (literal, level, assumed flag,
literals of the antecedent), as in `GS.Model.Analyze` / `GS.Model.Trail`: `s.trail` is the list of
the `lit` fields and `s.reason[v]` is the lookup `reasonOf es v` (first entry of that variable).
`s.model` (= `s.lastModel`: `copy(s.lastModel, s.model)` just before) is given explicitly as the Go
array, a `List Int` of signed levels (`0` = unbound, `> 0` true, `< 0` false), of length `nbVars`.
`modelOf n es` is the array that corresponds to a trail.

Go facts used.
* `make([]Lit, k)` is filled with `Lit(0)`, whose DIMACS reading `Lit.Int()` is `1`; it panics for
  `k < 0`.  `lits[idx] = …` panics for `idx < 0`.  A panic is `none` here.
* In `addCurrentModels`, `nb` and `i` are `uint64`, `mask := uint64(1 << j)` is a `uint64` shift
  (the untyped constant `1` takes the type of the conversion), so it is `0` for `j ≥ 64`, and `nb *= 2`
  wraps modulo `2^64`.  There is **no overflow guard**: with 64 or more unbound variables `nb` is `0`
  and nothing is delivered; `int(nb)` is negative with exactly 63.
* The Go slice `model` is allocated once and reused for every `i` (each unbound position is
  overwritten at every iteration, `model2` is the copy sent): `expandLoop` threads it the same way.
-/
namespace GS.EnumRound
open GS GS.Analyze

/-! ### the Go array `s.model` of a trail -/

/-- `s.model[v-1]` for a trail: `±level` of the entry of variable `v`, `0` when there is none
    (`lvlToSignedLvl`). -/
def modelAt (es : List Entry) (v : Nat) : Int :=
  match findVar es v with
  | some e => if e.lit > 0 then (e.lvl : Int) else -(e.lvl : Int)
  | none => 0

/-- The array `s.model` (length `nbVars = n`) that corresponds to the trail `es`. -/
def modelOf (n : Nat) (es : List Entry) : List Int :=
  (List.range n).map (fun i => modelAt es (i + 1))

/-! ### `decisionLits` -/

/-- One iteration of `for i, r := range s.reason` (`acc = none`: a previous iteration panicked).
```go
if lvl := abs(s.model[i]); r == nil && lvl > 1 {
    idx := len(lits) - 1 - int(lvl-2)
    if s.model[i] < 0 { lits[idx] = IntToLit(int32(i + 1)) } else { lits[idx] = IntToLit(int32(-i - 1)) }
}
``` -/
def dlStep (es : List Entry) (model : List Int) (acc : Option (List Int)) (i : Nat) :
    Option (List Int) :=
  match acc with
  | none => none
  | some lits =>
    let m := (model[i]?).getD 0
    let lvl := m.natAbs
    if (reasonOf es (i + 1)).isNone && decide (1 < lvl) then
      if lvl - 2 < lits.length then            -- `idx ≥ 0`; otherwise `lits[idx]` panics
        let idx := lits.length - 1 - (lvl - 2)
        some (lits.set idx (if m < 0 then ((i : Int) + 1) else -((i : Int) + 1)))
      else none
    else some lits

/-- `decisionLits`: `nil` on an empty trail; otherwise a slice of `lvls - 1` literals, `lvls` the
    level of the last trail literal, in which the negated decision of level `k` is written at
    position `lvls - k` (deepest decision first).  `none` = the Go code panics. -/
def decisionLits (es : List Entry) (model : List Int) : Option (List Int) :=
  match es.getLast? with
  | none => some []                                        -- len(s.trail) == 0: return nil
  | some last =>
    let lvls := ((model[last.var - 1]?).getD 0).natAbs      -- abs(s.model[lastLit.Var()])
    if lvls = 0 then none                                  -- make([]Lit, -1)
    else (List.range model.length).foldl (dlStep es model) (some (List.replicate (lvls - 1) 1))

/-! ### `addCurrentModels` / `countCurrentModels` -/

/-- `unbound`: indices `i` with `s.lastModel[i] == 0`, in increasing order (`i` = current index). -/
def unboundFrom : Nat → List Int → List Nat
  | _, [] => []
  | i, lvl :: m => if lvl = 0 then i :: unboundFrom (i + 1) m else unboundFrom (i + 1) m

/-- The partial `model` slice after the first loop: `lvl > 0` for a bound variable, `false`
    (zero value) for an unbound one. -/
def baseModel (model : List Int) : List Bool := model.map (fun lvl => decide (lvl > 0))

/-- `nb` after the first loop (`uint64`: doubling wraps). -/
def nbGo (model : List Int) : Nat :=
  model.foldl (fun nb lvl => if lvl = 0 then nb * 2 % 2 ^ 64 else nb) 1

/-- `int(nb)` for a `uint64`. -/
def toInt64 (nb : Nat) : Int := if nb < 2 ^ 63 then (nb : Int) else (nb : Int) - 2 ^ 64

/-- Value returned by `addCurrentModels` and `countCurrentModels`. -/
def countGo (model : List Int) : Int := toInt64 (nbGo model)

/-- `for j := range unbound { mask := uint64(1 << j); model[unbound[j]] = i&mask != 0 }`
    (first argument of the recursion: the current `j`). -/
def setUnbound (i : Nat) : Nat → List Nat → List Bool → List Bool
  | _, [], model => model
  | j, idx :: rest, model =>
    setUnbound i (j + 1) rest (model.set idx (decide (j < 64) && i.testBit j))

/-- `for i := uint64(0); i < nb; i++ { …; ch <- copy of model }` with the `model` slice threaded. -/
def expandLoop (unb : List Nat) : List Nat → List Bool → List (List Bool)
  | [], _ => []
  | i :: is, model =>
    let model' := setUnbound i 0 unb model
    model' :: expandLoop unb is model'

/-- `addCurrentModels`: the models sent on the channel, in order. -/
def expandGo (model : List Int) : List (List Bool) :=
  expandLoop (unboundFrom 0 model) (List.range (nbGo model)) (baseModel model)

/-- The current model as the abstract loop `GS.Enum` sees it (`none` = level 0 = unbound). -/
def toOpt (model : List Int) : List (Option Bool) :=
  model.map (fun lvl => if lvl = 0 then none else some (decide (lvl > 0)))

/-! ### one iteration of the loop after a `Sat` answer -/

/-- What the `switch len(lits)` does next. -/
inductive Next where
  /-- `case 0: s.status = Unsat`: the enumeration is over. -/
  | finished
  /-- `case 1: s.propagateUnits(lits)`. -/
  | unit (l : Int)
  /-- `default: c := NewClause(lits); s.appendClause(c); …` (two literals or more, in this order). -/
  | clause (lits : List Int)
deriving Repr, DecidableEq, Inhabited

structure Round where
  /-- the models sent on the channel (`Enumerate` with a non-nil channel) -/
  models : List (List Bool)
  /-- what is added to `nb` -/
  count : Int
  next : Next
deriving Repr, DecidableEq, Inhabited

/-- The literals of the blocking constraint added by the round (`[]` when finished). -/
def Next.lits : Next → List Int
  | .finished => []
  | .unit l => [l]
  | .clause ls => ls

/-- Body of `if s.status == Sat { … }`; `none` = `decisionLits` panics. -/
def roundStep (es : List Entry) (model : List Int) : Option Round :=
  let models := expandGo model                 -- copy(s.lastModel, s.model); nb += s.addCurrentModels(models)
  let count := countGo model                   --                       (or nb += s.countCurrentModels())
  match decisionLits es model with             -- lits := s.decisionLits()
  | none => none
  | some [] => some ⟨models, count, .finished⟩          -- case 0
  | some [l] => some ⟨models, count, .unit l⟩           -- case 1
  | some lits => some ⟨models, count, .clause lits⟩     -- default

/-- The `default:` branch on the trail: `lit = lits[0]; lvl = abs(s.model[v]) - 1;
    s.cleanupBindings(lvl); s.reason[v] = c; s.propagateAndSearch(lit, lvl)` is the machine
    operation `assertLearned lits[0] lits lvl`. -/
def blockOp (model : List Int) (lits : List Int) : Option GS.Trail.Op :=
  match lits with
  | l :: _ :: _ => some (.assertLearned l lits (((model[l.natAbs - 1]?).getD 0).natAbs - 1))
  | _ => none

/-- The pair the abstract loop `GS.Enum.enumLoop` consumes: the model with `none` for unbound, and
    the decisions `D` (so that `GS.Enum.negLits D` is the blocking clause, literal for literal). -/
def roundPair (es : List Entry) (model : List Int) : Option (List (Option Bool) × List Int) :=
  match decisionLits es model with
  | none => none
  | some lits => some (toOpt model, lits.map (fun l => -l))

end GS.EnumRound
