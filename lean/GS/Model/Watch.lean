/-!
# GS.Model.Watch — two-watched-literal unit propagation for plain clauses

Line by line mirror of `/repo/solver/watcher.go`: `watchClause` (binary and regular branches),
`propagate` (the `wlistBin` loop and the call of `simplifyPropClauses`; `wlistPb` and
`wlistCardAMO` are empty for CNF problems), `simplifyPropClauses`, `propagateUnit`,
`unifyLiteral`, `lvlToSignedLvl`; `litStatus` (`solver.go`); `Clause.swap/First/Second/Get`
(`clause.go`).  Core-only.

Literals are DIMACS integers; the Go `Lit` of `l` is `litIdx l = 2*(|l|-1) (+1 if l < 0)`, the index
of its watch lists.  A clause is identified by its position in `clauses` (Go: the pointer).

| Go | here |
|---|---|
| `s.wl.wlistBin[lit]`, `s.wl.wlist[lit]` | `wbin[litIdx lit]`, `wlong[litIdx lit]` : `List Watcher` |
| `watcher{other, clause}` | `⟨cid, other⟩` |
| `s.model[v]` (signed level, 0 unbound) | `model[v-1]` |
| `s.trail` | `trail` |
| `s.reason[v]` | `reasons[v-1] : Option Nat` |
| index out of range / nil dereference (`panic`) | `.error .panic` |
| the `for ptr < len(s.trail)` loop | `loop` with fuel (`.error .fuel` when exhausted; see `GS.Watch.loop_fuel_ok` in Props) |

In-place mutation of `wl := s.wl.wlist[lit]` inside `simplifyPropClauses`: the Go code reads `wl[i]`
and writes `wl[j]` with `j ≤ i`, so the elements still to be read are never overwritten; it appends
to `s.wl.wlist[neg]` for **other** literals while iterating, and finally stores `wl[:j]` (or, on a
conflict, `wl[:j] ++ wl[i+1:]`) into `s.wl.wlist[lit]`.  `simpLoop` carries `kept = wl[:j]` and the
not yet read suffix `wl[i:]`; appends go to the state's `wlong` at once (so a clause moved to
`wlist[¬litK]` is seen when `¬litK` is processed later), and `simplify` finally overwrites
`wlong[litIdx lit]`.  (Were `neg = lit` — impossible when `lit` is true — Go's append would write
beyond `len(wl)` or into a fresh array and be lost by the final store; the overwrite here loses it
the same way.)
-/
namespace GS.Watch

structure Watcher where
  cid : Nat
  other : Int
deriving Repr, DecidableEq, Inhabited

structure State where
  clauses : List (List Int)
  wbin : List (List Watcher)
  wlong : List (List Watcher)
  model : List Int
  trail : List Int
  reasons : List (Option Nat)
deriving Repr, DecidableEq, Inhabited

inductive Err where
  | panic
  | fuel
deriving Repr, DecidableEq, Inhabited

inductive Status where
  | indet
  | sat
  | unsat
deriving Repr, DecidableEq, Inhabited

/-- The Go `Lit` of a DIMACS literal: `2*(v-1)`, `+1` when negative. -/
def litIdx (l : Int) : Nat := 2 * (l.natAbs - 1) + (if l < 0 then 1 else 0)

/-- The DIMACS literal of a Go `Lit`. -/
def idxLit (i : Nat) : Int := if i % 2 = 0 then ((i / 2 + 1 : Nat) : Int) else -((i / 2 + 1 : Nat) : Int)

/-- `lvlToSignedLvl` -/
def signedLvl (l : Int) (lvl : Int) : Int := if l > 0 then lvl else -lvl

/-- `s.model[l.Var()]`; `none` = index out of range. -/
def modelAt (m : List Int) (l : Int) : Option Int := if l = 0 then none else m[l.natAbs - 1]?

/-- `litStatus` -/
def litStatus (m : List Int) (l : Int) : Option Status :=
  match modelAt m l with
  | none => none
  | some a =>
    if a = 0 then some .indet
    else if decide (a > 0) == decide (l > 0) then some .sat
    else some .unsat

/-- the list of watchers of literal `l`; `none` = index out of range -/
def wget (ws : List (List Watcher)) (l : Int) : Option (List Watcher) :=
  if l = 0 then none else ws[litIdx l]?

/-- `ws[l] = append(ws[l], w)`; `none` = index out of range -/
def wpush (ws : List (List Watcher)) (l : Int) (w : Watcher) : Option (List (List Watcher)) :=
  match wget ws l with
  | none => none
  | some xs => some (ws.set (litIdx l) (xs ++ [w]))

/-- `Clause.swap(i, j)`; `none` = index out of range -/
def swap (c : List Int) (i j : Nat) : Option (List Int) :=
  match c[i]?, c[j]? with
  | some a, some b => some ((c.set i b).set j a)
  | _, _ => none

/-- `s.reason[v] = c; s.model[v] = lvlToSignedLvl(l, lvl); s.trail = append(s.trail, l)`
    (the binary branch of `propagate`, and `propagateUnit`; the lock bit of the clause is not modelled). -/
def bind (st : State) (l : Int) (lvl : Int) (cid : Nat) : Option State :=
  if l = 0 then none
  else if l.natAbs - 1 < st.reasons.length ∧ l.natAbs - 1 < st.model.length then
    some { st with
      reasons := st.reasons.set (l.natAbs - 1) (some cid)
      model := st.model.set (l.natAbs - 1) (signedLvl l lvl)
      trail := st.trail ++ [l] }
  else none

/-- `for _, w := range s.wl.wlistBin[lit] { … }` of `propagate`. -/
def propBin (lvl : Int) : List Watcher → State → Except Err (Option Nat × State)
  | [], st => .ok (none, st)
  | w :: ws, st =>
    match modelAt st.model w.other with
    | none => .error .panic
    | some a =>
      if a = 0 then
        match bind st w.other lvl w.cid with
        | none => .error .panic
        | some st' => propBin lvl ws st'
      else if decide (a > 0) != decide (w.other > 0) then .ok (some w.cid, st)
      else propBin lvl ws st

/-- `for k := 2; k < c.Len(); k++ { if litK := c.Get(k); s.litStatus(litK) != Unsat {…; break} }`:
    position and value of the first literal that is not `Unsat`, scanning `ls = c[k:]`. -/
def findFree (m : List Int) : List Int → Nat → Except Err (Option (Nat × Int))
  | [], _ => .ok none
  | l :: ls, k =>
    match litStatus m l with
    | none => .error .panic
    | some .unsat => findFree m ls (k + 1)
    | some _ => .ok (some (k, l))

/-- The `for i, w := range wl` loop of `simplifyPropClauses`: `rest = wl[i:]`, `kept = wl[:j]`.
    Result: conflict clause (if any), the new `wlist[lit]`, the state. -/
def simpLoop (lit : Int) (lvl : Int) :
    List Watcher → List Watcher → State → Except Err (Option Nat × List Watcher × State)
  | [], kept, st => .ok (none, kept, st)
  | w :: rest, kept, st =>
    match litStatus st.model w.other with
    | none => .error .panic
    | some .sat => simpLoop lit lvl rest (kept ++ [w]) st       -- wl[j] = w; j++; continue
    | some _ =>
      match st.clauses[w.cid]? with
      | none => .error .panic
      | some c0 =>
        match c0[0]? with                                          -- c.First()
        | none => .error .panic
        | some f0 =>
          match (if f0 = -lit then swap c0 0 1 else some c0) with  -- c.swap(0, 1)
          | none => .error .panic
          | some c1 =>
            match c1[0]? with
            | none => .error .panic
            | some first =>
              let w2 : Watcher := ⟨w.cid, first⟩
              match litStatus st.model first with
              | none => .error .panic
              | some .sat =>                                       -- wl[j] = w2; j++
                simpLoop lit lvl rest (kept ++ [w2]) { st with clauses := st.clauses.set w.cid c1 }
              | some fs =>
                match findFree st.model (c1.drop 2) 2 with
                | .error e => .error e
                | .ok (some (k, litK)) =>
                  match swap c1 1 k with                            -- c.swap(1, k)
                  | none => .error .panic
                  | some c2 =>
                    match wpush st.wlong (-litK) w2 with            -- wlist[neg] = append(wlist[neg], w2)
                    | none => .error .panic
                    | some wl' =>
                      simpLoop lit lvl rest kept { st with clauses := st.clauses.set w.cid c2, wlong := wl' }
                | .ok none =>
                  let st1 : State := { st with clauses := st.clauses.set w.cid c1 }
                  if fs = .unsat then                                -- copy(wl[j:], wl[i+1:]); return c
                    .ok (some w.cid, kept ++ [w2] ++ rest, st1)
                  else
                    match bind st1 first lvl w.cid with             -- propagateUnit(c, lvl, c.First())
                    | none => .error .panic
                    | some st2 => simpLoop lit lvl rest (kept ++ [w2]) st2

/-- `simplifyPropClauses(lit, lvl)` -/
def simplify (lit : Int) (lvl : Int) (st : State) : Except Err (Option Nat × State) :=
  match wget st.wlong lit with
  | none => .error .panic
  | some wl =>
    match simpLoop lit lvl wl [] st with
    | .error e => .error e
    | .ok (confl, kept, st') =>
      .ok (confl, { st' with wlong := st'.wlong.set (litIdx lit) kept })

/-- Body of the `for ptr < len(s.trail)` loop of `propagate` for `lit = s.trail[ptr]`
    (the `wlistPb` / `wlistCardAMO` loops run over empty lists). -/
def propLit (lit : Int) (lvl : Int) (st : State) : Except Err (Option Nat × State) :=
  match wget st.wbin lit with
  | none => .error .panic
  | some wb =>
    match propBin lvl wb st with
    | .error e => .error e
    | .ok (some c, st') => .ok (some c, st')
    | .ok (none, st') => simplify lit lvl st'

/-- `for ptr < len(s.trail) { …; ptr++ }` -/
def loop (lvl : Int) : Nat → Nat → State → Except Err (Option Nat × State)
  | 0, ptr, st => if ptr < st.trail.length then .error .fuel else .ok (none, st)
  | fuel + 1, ptr, st =>
    match st.trail[ptr]? with
    | none => .ok (none, st)
    | some lit =>
      match propLit lit lvl st with
      | .error e => .error e
      | .ok (some c, st') => .ok (some c, st')
      | .ok (none, st') => loop lvl fuel (ptr + 1) st'

/-- number of unbound variables -/
def zeros (m : List Int) : Nat := m.countP (· = 0)

/-- `propagate(ptr, lvl)`: each iteration either is the last one or consumes one pending literal, and
    every literal appended to the trail binds an unbound variable (when `lvl ≠ 0`). -/
def propagate (ptr : Nat) (lvl : Int) (st : State) : Except Err (Option Nat × State) :=
  loop lvl (st.trail.length - ptr + zeros st.model) ptr st

/-- `unifyLiteral(lit, lvl)` -/
def unifyLiteral (lit : Int) (lvl : Int) (st : State) : Except Err (Option Nat × State) :=
  if lit = 0 ∨ ¬ (lit.natAbs - 1 < st.model.length) then .error .panic
  else
    let st1 : State := { st with
      model := st.model.set (lit.natAbs - 1) (signedLvl lit lvl)
      trail := st.trail ++ [lit] }
    propagate (st1.trail.length - 1) lvl st1

/-- `watchClause(c)` for the clause `c` of identifier `cid`: binary and regular branches
    (a clause of length < 2 makes `c.Second()` panic). -/
def watchClause (cid : Nat) (c : List Int) (wbin wlong : List (List Watcher)) :
    Option (List (List Watcher) × List (List Watcher)) :=
  match c[0]?, c[1]? with
  | some first, some second =>
    if c.length = 2 then
      match wpush wbin (-first) ⟨cid, second⟩ with
      | none => none
      | some w1 =>
        match wpush w1 (-second) ⟨cid, first⟩ with
        | none => none
        | some w2 => some (w2, wlong)
    else
      match wpush wlong (-first) ⟨cid, second⟩ with
      | none => none
      | some w1 =>
        match wpush w1 (-second) ⟨cid, first⟩ with
        | none => none
        | some w2 => some (wbin, w2)
  | _, _ => none

/-- `for _, c := range clauses { s.watchClause(c) }` of `initWatcherList`, clause ids from `cid` on. -/
def watchAll : Nat → List (List Int) → List (List Watcher) → List (List Watcher) →
    Option (List (List Watcher) × List (List Watcher))
  | _, [], wbin, wlong => some (wbin, wlong)
  | cid, c :: cs, wbin, wlong =>
    match watchClause cid c wbin wlong with
    | none => none
    | some (wb, wl) => watchAll (cid + 1) cs wb wl

/-- `initWatcherList` + the empty bindings of `New` (no unit). -/
def initState (nbVars : Nat) (clauses : List (List Int)) : Option State :=
  match watchAll 0 clauses (List.replicate (2 * nbVars) []) (List.replicate (2 * nbVars) []) with
  | none => none
  | some (wb, wl) =>
    some { clauses := clauses, wbin := wb, wlong := wl, model := List.replicate nbVars 0,
           trail := [], reasons := List.replicate nbVars none }

/-! ## The executable invariant `watchInv` (read as a `Prop` in `GS.Props.C01_Watch`) -/

def litTrueB (m : List Int) (l : Int) : Bool := litStatus m l == some .sat
def litFalseB (m : List Int) (l : Int) : Bool := litStatus m l == some .unsat
def litUnboundB (m : List Int) (l : Int) : Bool := litStatus m l == some .indet

/-- number of watchers of clause `cid` in a list -/
def countW (ws : List Watcher) (cid : Nat) : Nat := ws.countP (fun w => w.cid == cid)

/-- array sizes: `model`, `reason` have one entry per variable, the watch lists two. -/
def shapeOk (st : State) : Bool :=
  st.reasons.length == st.model.length && st.wbin.length == 2 * st.model.length &&
    st.wlong.length == 2 * st.model.length

/-- every clause has at least two literals, all non-zero, over pairwise distinct known variables -/
def clauseOk (n : Nat) (c : List Int) : Bool :=
  decide (2 ≤ c.length) && c.all (fun l => l != 0 && decide (l.natAbs ≤ n)) &&
    decide ((c.map Int.natAbs).Nodup)

def clausesOk (st : State) : Bool := st.clauses.all (clauseOk st.model.length)

/-- every trail literal is true in the model, over distinct variables; every bound variable is on
    the trail; `ptr` is a position of the trail (or its length). -/
def trailOk (st : State) (ptr : Nat) : Bool :=
  decide (ptr ≤ st.trail.length) && st.trail.all (fun l => litTrueB st.model l) &&
    decide ((st.trail.map Int.natAbs).Nodup) &&
    (List.range st.model.length).all (fun v =>
      st.model[v]? == some 0 || (st.trail.map Int.natAbs).contains (v + 1))

/-- a watcher in `wbin[i]` is for a two-literal clause made of `¬(idxLit i)` and `other`. -/
def binWatcherOk (st : State) (i : Nat) (w : Watcher) : Bool :=
  match st.clauses[w.cid]? with
  | none => false
  | some c => c == [-(idxLit i), w.other] || c == [w.other, -(idxLit i)]

/-- a watcher in `wlong[i]` is for a clause of length ≥ 3 with `¬(idxLit i)` at position 0 or 1,
    and `other` is a literal of that clause. -/
def longWatcherOk (st : State) (i : Nat) (w : Watcher) : Bool :=
  match st.clauses[w.cid]? with
  | none => false
  | some c => decide (3 ≤ c.length) && (c[0]? == some (-(idxLit i)) || c[1]? == some (-(idxLit i))) &&
      c.contains w.other

def wbinOk (st : State) : Bool :=
  st.wbin.zipIdx.all (fun p => p.1.all (binWatcherOk st p.2))

def wlongOk (st : State) : Bool :=
  st.wlong.zipIdx.all (fun p => p.1.all (longWatcherOk st p.2))

/-- each clause has exactly one watcher in the list of the negation of its literal 0 and one in the
    list of the negation of its literal 1 (binary: in `wbin`, none in `wlong`; longer: the converse).
    With `wbinOk` / `wlongOk` (a watcher sits only in those two lists) this is "watched exactly by". -/
def clauseWatched (st : State) (cid : Nat) (c : List Int) : Bool :=
  match c[0]?, c[1]? with
  | some a, some b =>
    let ws := if c.length = 2 then st.wbin else st.wlong
    (match wget ws (-a) with | some l => countW l cid == 1 | none => false) &&
    (match wget ws (-b) with | some l => countW l cid == 1 | none => false)
  | _, _ => false

def countOk (st : State) : Bool :=
  st.clauses.zipIdx.all (fun p => clauseWatched st p.2 p.1)

/-- binary clauses: once the trail literal `idxLit i` has been processed (position `< ptr`), the
    other literal of each clause watched by it is true. -/
def semBinOk (st : State) (ptr : Nat) : Bool :=
  st.wbin.zipIdx.all (fun p =>
    !(st.trail.take ptr).contains (idxLit p.2) || p.1.all (fun w => litTrueB st.model w.other))

/-- longer clauses: once the trail literal `idxLit i` has been processed, each clause watched by it
    has its blocking literal `other` true, or one of its two watched literals true. -/
def semLongOk (st : State) (ptr : Nat) : Bool :=
  st.wlong.zipIdx.all (fun p =>
    !(st.trail.take ptr).contains (idxLit p.2) || p.1.all (fun w =>
      litTrueB st.model w.other ||
        (match st.clauses[w.cid]? with
         | some c => (match c[0]? with | some a => litTrueB st.model a | none => false) ||
                     (match c[1]? with | some b => litTrueB st.model b | none => false)
         | none => false)))

/-- The parts of the invariant, by name (for the `winv` op). -/
def invParts (st : State) (ptr : Nat) : List (String × Bool) :=
  [("shape", shapeOk st), ("clauses", clausesOk st), ("trail", trailOk st ptr),
   ("wbin", wbinOk st), ("wlong", wlongOk st), ("count", countOk st),
   ("sem-bin", semBinOk st ptr), ("sem-long", semLongOk st ptr)]

/-- The two-watched-literal invariant of a state whose trail literals before `ptr` have been processed. -/
def watchInv (st : State) (ptr : Nat) : Bool :=
  shapeOk st && clausesOk st && trailOk st ptr && wbinOk st && wlongOk st && countOk st &&
    semBinOk st ptr && semLongOk st ptr

end GS.Watch
