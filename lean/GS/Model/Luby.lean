/-!
# GS.Luby — hand mirror of `luby` (solver/luby.go) and the standard Luby sequence

```go
func luby(i uint) uint {
	for k := 1; k < 32; k++ {
		if i == (1<<k)-1 { return 1 << (k - 1) }
	}
	k := 1
	for {
		if (1<<(k-1)) <= i && i < (1<<k)-1 { return luby(i - (1 << (k - 1)) + 1) }
		k++
	}
}
```

`luby` has loops, so it is mirrored by hand (not by the translator), on `Nat`: the 64-bit
wrap-around of `1<<k` for `k ≥ 64` is NOT modelled.  It matters only outside `1 ≤ i < 2^32-1`:

* `lubyGo_eq_spec` : for `1 ≤ i < 2^32 - 1` the Go recursion terminates (fuel `i` suffices) and
  returns the standard Luby value `lubySpec i` (1,1,2,1,1,2,4,…), which `lubySpec_pow`,
  `lubySpec_rec` and `lubySpec_unique` pin down as THE function with
  `luby (2^k - 1) = 2^(k-1)` and `luby i = luby (i - 2^(k-1) + 1)` for `2^(k-1) ≤ i < 2^k - 1`.
* the hypothesis `i < 2^32 - 1` is forced: the first loop stops at `k = 31`, so at `i = 2^32 - 1`
  no `k` satisfies the test of the second loop (`secondLoop_none_at_pow`, `lubyGo_none_at_pow`): on `Nat` the loop is
  endless.  The real code (run through `VerifLuby`) is saved by the wrap-around `1<<64 = 0` at
  `k = 65` and answers `luby(2^32) = 1` instead of `2^31`; `luby(0)` answers 1 the same way (65
  iterations, not endless); `luby(2^64-1)` IS an endless loop.  None is reachable: the call sites
  are `luby(1)` and `luby(uint(NbRestarts)+2)` (solver.go:116, 453), `NbRestarts ≥ 0`, and 2^32
  restarts × 512 conflicts are out of reach.
-/
namespace GS.Luby

/-- first loop: `k, k+1, …` for `n` iterations (called with `k = 1`, `n = 31`) -/
def firstLoop (i : Nat) : Nat → Nat → Option Nat
  | _, 0 => none
  | k, n + 1 => if i = 2 ^ k - 1 then some (2 ^ (k - 1)) else firstLoop i (k + 1) n

/-- second loop: the first `k' ≥ k` with `2^(k'-1) ≤ i < 2^k' - 1`, within `f` iterations -/
def secondLoop (i : Nat) : Nat → Nat → Option Nat
  | _, 0 => none
  | k, f + 1 => if 2 ^ (k - 1) ≤ i ∧ i < 2 ^ k - 1 then some k else secondLoop i (k + 1) f

/-- the Go function; `fuel` bounds the recursion depth, `none` = fuel exhausted / endless loop -/
def lubyGo : Nat → Nat → Option Nat
  | 0, _ => none
  | fuel + 1, i =>
    match firstLoop i 1 31 with
    | some r => some r
    | none =>
      match secondLoop i 1 (i + 1) with
      | none => none
      | some k => lubyGo fuel (i - 2 ^ (k - 1) + 1)

/-- the mirror with the fuel that `lubyGo_eq_spec` proves sufficient -/
def luby (i : Nat) : Option Nat := lubyGo i i

/-- the standard Luby sequence (for `i ≥ 1`; `0 ↦ 0` is a junk value) -/
def lubySpec (i : Nat) : Nat :=
  if i = 0 then 0
  else if i + 1 = 2 ^ (i + 1).log2 then 2 ^ ((i + 1).log2 - 1)
  else lubySpec (i + 1 - 2 ^ (i + 1).log2)
termination_by i
decreasing_by
  rename_i h0 _
  have h2 : 2 ^ 1 ≤ i + 1 := by omega
  have h1 : 1 ≤ (i + 1).log2 := (Nat.le_log2 (by omega)).2 h2
  have : 2 ^ 1 ≤ 2 ^ (i + 1).log2 := Nat.pow_le_pow_right (by decide) h1
  have := Nat.log2_self_le (n := i + 1) (by omega)
  omega

/-! ## the defining equations of the standard sequence -/

theorem two_pow_pos (k : Nat) : 1 ≤ 2 ^ k := Nat.one_le_two_pow
theorem two_pow_succ (k : Nat) : 2 ^ (k + 1) = 2 * 2 ^ k := by rw [Nat.pow_succ]; omega

theorem lubySpec_pow (k : Nat) (hk : 1 ≤ k) : lubySpec (2 ^ k - 1) = 2 ^ (k - 1) := by
  have h1 := two_pow_pos k
  have h2 : 2 ^ 1 ≤ 2 ^ k := Nat.pow_le_pow_right (by decide) hk
  have e : 2 ^ k - 1 + 1 = 2 ^ k := by omega
  rw [lubySpec, e, Nat.log2_two_pow]
  have : ¬ 2 ^ k - 1 = 0 := by omega
  simp [this]

theorem log2_of_between (n k : Nat) (h1 : 2 ^ k ≤ n) (h2 : n < 2 ^ (k + 1)) : n.log2 = k := by
  have hn : n ≠ 0 := by have := two_pow_pos k; omega
  have a := (Nat.le_log2 hn (k := k)).2 h1
  have b := (Nat.log2_lt hn (k := k + 1)).2 h2
  omega

theorem lubySpec_rec (i k : Nat) (h1 : 2 ^ (k - 1) ≤ i) (h2 : i < 2 ^ k - 1) :
    lubySpec i = lubySpec (i - 2 ^ (k - 1) + 1) := by
  have hp := two_pow_pos (k - 1)
  have hk : 1 ≤ k := by
    cases k with
    | zero => simp at h2
    | succ k => omega
  have hs : 2 ^ k = 2 * 2 ^ (k - 1) := by
    have : k = (k - 1) + 1 := by omega
    rw [this, two_pow_succ]; simp
  have hl : (i + 1).log2 = k - 1 := log2_of_between _ _ (by omega) (by
    have : k - 1 + 1 = k := by omega
    rw [this]; omega)
  rw [lubySpec, hl]
  have a : ¬ i = 0 := by omega
  have b : ¬ i + 1 = 2 ^ (k - 1) := by omega
  simp only [a, b, if_false]
  congr 1; omega

/-- the two equations determine the sequence: any `f` satisfying them is `lubySpec` on `i ≥ 1` -/
theorem lubySpec_unique (f : Nat → Nat)
    (hpow : ∀ k, 1 ≤ k → f (2 ^ k - 1) = 2 ^ (k - 1))
    (hrec : ∀ i k, 2 ^ (k - 1) ≤ i → i < 2 ^ k - 1 → f i = f (i - 2 ^ (k - 1) + 1)) :
    ∀ i, 1 ≤ i → f i = lubySpec i := by
  intro i
  induction i using Nat.strongRecOn with
  | _ i ih =>
    intro hi
    -- k := log2 (i+1): 2^k ≤ i+1 < 2^(k+1)
    have hk1 := Nat.log2_self_le (n := i + 1) (by omega)
    have hk2 := Nat.lt_log2_self (n := i + 1)
    have hk : 1 ≤ (i + 1).log2 := (Nat.le_log2 (by omega)).2 (by omega : 2 ^ 1 ≤ i + 1)
    have hs := two_pow_succ (i + 1).log2
    have hp : 2 ^ 1 ≤ 2 ^ (i + 1).log2 := Nat.pow_le_pow_right (by decide) hk
    by_cases he : i + 1 = 2 ^ (i + 1).log2
    · have e : i = 2 ^ (i + 1).log2 - 1 := by omega
      rw [e, hpow _ hk, lubySpec_pow _ hk]
    · have r1 := hrec i ((i + 1).log2 + 1) (by simp; omega) (by omega)
      have r2 := lubySpec_rec i ((i + 1).log2 + 1) (by simp; omega) (by omega)
      simp only [Nat.add_sub_cancel] at r1 r2
      rw [r1, r2]
      exact ih _ (by omega) (by omega)

/-! ## the loops -/

theorem firstLoop_some (i : Nat) : ∀ n k r, firstLoop i k n = some r →
    ∃ j, k ≤ j ∧ j < k + n ∧ i = 2 ^ j - 1 ∧ r = 2 ^ (j - 1) := by
  intro n
  induction n with
  | zero => intro k r h; simp [firstLoop] at h
  | succ n ih =>
    intro k r h
    unfold firstLoop at h
    split at h
    · rename_i he; refine ⟨k, Nat.le_refl _, by omega, he, ?_⟩; simpa using h.symm
    · obtain ⟨j, a, b, c, d⟩ := ih _ _ h
      exact ⟨j, by omega, by omega, c, d⟩

theorem firstLoop_none (i : Nat) : ∀ n k, firstLoop i k n = none → ∀ j, k ≤ j → j < k + n → i ≠ 2 ^ j - 1 := by
  intro n
  induction n with
  | zero => intro k _ j a b; omega
  | succ n ih =>
    intro k h j a b
    unfold firstLoop at h
    split at h
    · simp at h
    · rename_i hne
      by_cases e : j = k
      · rw [e]; exact hne
      · exact ih _ h j (by omega) (by omega)

theorem secondLoop_some (i : Nat) : ∀ f k j, secondLoop i k f = some j →
    k ≤ j ∧ 2 ^ (j - 1) ≤ i ∧ i < 2 ^ j - 1 := by
  intro f
  induction f with
  | zero => intro k j h; simp [secondLoop] at h
  | succ f ih =>
    intro k j h
    unfold secondLoop at h
    split at h
    · rename_i hc; simp at h; subst h; exact ⟨Nat.le_refl _, hc.1, hc.2⟩
    · have := ih _ _ h; exact ⟨by omega, this.2⟩

theorem secondLoop_finds (i : Nat) : ∀ f k j, k ≤ j → j < k + f → 2 ^ (j - 1) ≤ i → i < 2 ^ j - 1 →
    secondLoop i k f ≠ none := by
  intro f
  induction f with
  | zero => intro k j a b; omega
  | succ f ih =>
    intro k j a b c d
    unfold secondLoop
    split
    · simp
    · rename_i hne
      by_cases e : j = k
      · subst e; exact absurd ⟨c, d⟩ hne
      · exact ih _ j (by omega) (by omega) c d

/-- at `i = 2^k - 1` no `k'` passes the test of the second loop, whatever the number of iterations:
if the first loop missed it (`k ≥ 32`) the loop is endless on `Nat` -/
theorem secondLoop_none_at_pow (k f k0 : Nat) : secondLoop (2 ^ k - 1) k0 f = none := by
  cases h : secondLoop (2 ^ k - 1) k0 f with
  | none => rfl
  | some j =>
    exfalso
    obtain ⟨_, h1, h2⟩ := secondLoop_some _ _ _ _ h
    have hp := two_pow_pos k
    -- 2^(j-1) ≤ 2^k - 1 < 2^j - 1  gives  j-1 < k < j
    have a : 2 ^ (j - 1) < 2 ^ k := by omega
    have b : 2 ^ k < 2 ^ j := by omega
    have a' := (Nat.pow_lt_pow_iff_right (by decide : 1 < 2)).1 a
    have b' := (Nat.pow_lt_pow_iff_right (by decide : 1 < 2)).1 b
    omega

/-! ## the Go recursion terminates and computes the standard sequence on `1 ≤ i < 2^32 - 1` -/

theorem lubyGo_eq_spec : ∀ i fuel, 1 ≤ i → i < 2 ^ 32 - 1 → i ≤ fuel → lubyGo fuel i = some (lubySpec i) := by
  intro i
  induction i using Nat.strongRecOn with
  | _ i ih =>
    intro fuel h1 h2 hf
    cases fuel with
    | zero => omega
    | succ fuel =>
      unfold lubyGo
      cases hfl : firstLoop i 1 31 with
      | some r =>
        obtain ⟨j, a, _, c, d⟩ := firstLoop_some _ _ _ _ hfl
        simp only [c, d, lubySpec_pow j a]
      | none =>
        have hnot := firstLoop_none _ _ _ hfl
        -- k := log2 i + 1 : 2^(k-1) ≤ i < 2^k
        have hk1 := Nat.log2_self_le (n := i) (by omega)
        have hk2 := Nat.lt_log2_self (n := i)
        have hlt : i.log2 < 32 := (Nat.log2_lt (by omega)).2 (by omega)
        have hne : i ≠ 2 ^ (i.log2 + 1) - 1 := by
          by_cases hz : i.log2 + 1 < 32
          · exact hnot _ (by omega) (by omega)
          · have : i.log2 + 1 = 32 := by omega
            rw [this]; omega
        have hself : i.log2 < i := Nat.lt_of_lt_of_le Nat.lt_two_pow_self hk1
        have hfind := secondLoop_finds i (i + 1) 1 (i.log2 + 1) (by omega) (by omega) (by simpa using hk1) (by omega)
        cases hsl : secondLoop i 1 (i + 1) with
        | none => exact absurd hsl hfind
        | some k =>
          obtain ⟨a, b, c⟩ := secondLoop_some _ _ _ _ hsl
          have hp : 2 ^ 1 ≤ 2 ^ (k - 1) := by
            apply Nat.pow_le_pow_right (by decide)
            cases k with
            | zero => simp at c
            | succ k =>
              cases k with
              | zero => simp at b c; omega
              | succ k => omega
          simp only
          rw [lubySpec_rec i k b c]
          exact ih _ (by omega) _ (by omega) (by omega) (by omega)

/-- termination + correctness of the mirror with fuel `i` -/
theorem luby_eq_spec (i : Nat) (h1 : 1 ≤ i) (h2 : i < 2 ^ 32 - 1) : luby i = some (lubySpec i) :=
  lubyGo_eq_spec i i h1 h2 (Nat.le_refl _)


/-- the forced hypothesis: at `i = 2^k - 1`, `k ≥ 32` (first: `2^32 - 1`) the first loop misses the
value and the (unwrapped) recursion does not answer, whatever the fuel -/
theorem lubyGo_none_at_pow (k : Nat) (hk : 32 ≤ k) (fuel : Nat) : lubyGo fuel (2 ^ k - 1) = none := by
  cases fuel with
  | zero => rfl
  | succ fuel =>
    have h1 : firstLoop (2 ^ k - 1) 1 31 = none := by
      cases h : firstLoop (2 ^ k - 1) 1 31 with
      | none => rfl
      | some r =>
        exfalso
        obtain ⟨j, _, b, c, _⟩ := firstLoop_some _ _ _ _ h
        have := two_pow_pos k; have := two_pow_pos j
        have : 2 ^ j < 2 ^ k := Nat.pow_lt_pow_right (by decide) (by omega)
        omega
    have h2 := secondLoop_none_at_pow k (2 ^ k - 1 + 1) 1
    unfold lubyGo
    rw [h1]; simp only; rw [h2]

/-- `luby 0` on `Nat`: no answer either (the real code answers 1 through the wrap-around at `k = 65`) -/
theorem lubyGo_zero (fuel : Nat) : lubyGo fuel 0 = none := by
  cases fuel with
  | zero => rfl
  | succ fuel =>
    have h1 : firstLoop 0 1 31 = none := by decide
    have h2 : secondLoop 0 1 (0 + 1) = none := by decide
    unfold lubyGo
    rw [h1]; simp only; rw [h2]

/-! non-vacuity: the first 15 terms, through the mirror -/
example : (List.range 15).map (fun i => luby (i + 1)) =
    [1, 1, 2, 1, 1, 2, 4, 1, 1, 2, 1, 1, 2, 4, 8].map some := by decide
example : lubySpec (2 ^ 3 - 1) = 4 := lubySpec_pow 3 (by decide)
example : (1 : Nat) ≤ 100000 ∧ 100000 < 2 ^ 32 - 1 := by decide

end GS.Luby
