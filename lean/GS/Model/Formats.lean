import GS.Model.Constr
import GS.Model.MaxSatEnc
import GS.Model.Explain
/-!
# GS.Model.Formats — DIMACS CNF, OPB and WCNF at the level of *lines of tokens*

Core-only, executable. Byte-level lexing (splitting a text into lines, a line into
whitespace-separated fields, `strconv.Atoi` on a field, the glue done by `spaceOutOperators`)
is trusted; a text is a `List Line`, a line a `List Tok`, a token either an integer field
(`Tok.int`, a field on which the integer reader of the parser at hand succeeds) or any other
field (`Tok.word`).

Contents.
* abstract syntax and published semantics: `Dimacs`, `OpbConstr`, `Opb` (`Dimacs.sem`,
  `OpbConstr.sem`, `Opb.sem`, `Opb.cost`); WCNF instances are the `(weight, clause)` lists of
  `GS.MaxSatEnc`;
* renderings with their free choices (`CnfLayout`, `OpbLayout`): `Dimacs.renderLines`,
  `Opb.renderLines`, `wcnfRenderLines`;
* mirrors of the Go parsers, on token lines:
  - `parseCnfTokens`   : `/repo/solver/parser.go`    `ParseCNF` (the reading loop, before `simplify2`);
  - `parseOpbLines`    : `/repo/solver/parser_pb.go` `ParseOPB` → `parsePBLine` → `parsePBOptim` /
                         `parsePBConstrLine` → `parseTerms`, `GtEq` / `Eq` (`GS.Constr`) and the
                         per-constraint case analysis (before the conflicting-unit check and `simplifyPB`);
  - `explainParseTokens` : `/repo/explain/parser.go`  `ParseCNF`, `parseHeader`, `parseClauses`, `addClause`;
  - `parseWcnfLines`   : `/repo/maxsat/parser.go`    `ParseWCNF`, `parseWCNFClause` (before `ParseSliceNb`);
* mirrors of the printers `Problem.CNF`, `Clause.CNF`, `Problem.PBString`, `Clause.PBString`,
  `costFuncString` (`/repo/solver/problem.go`, `/repo/solver/clause.go`): `printCnf`, `printPB`.

Conventions. Go `int` is the unbounded `Int`. A Go `panic` is an `Except.error` whose message
starts with `panic:`; an error return is any other `Except.error`.
-/
namespace GS.Formats
open GS GS.Constr

/-! ## Tokens -/

inductive Tok where
  | int (i : Int)
  | word (s : String)
deriving Repr, DecidableEq, Inhabited

abbrev Line := List Tok

/-- A line made of integer fields only. -/
def intLine (is : List Int) : Line := is.map Tok.int

/-- First byte of a field. -/
def firstChar (s : String) : Option Char := s.toList.head?

/-- Sequencing of error-returning steps (`if err != nil { return err }`). -/
def andThen {α β : Type} (x : Except String α) (f : α → Except String β) : Except String β :=
  match x with
  | .error e => .error e
  | .ok a => f a

def isPanic (e : String) : Bool := e.startsWith "panic:"

/-! ## Abstract syntax and published semantics -/

/-- A DIMACS CNF file: `p cnf nbVars len(clauses)` and the clauses. -/
structure Dimacs where
  nbVars : Nat
  clauses : List (List Int)
deriving Repr, DecidableEq, Inhabited

/-- The models of a DIMACS file: every clause has a true literal. -/
def Dimacs.sem (a : Asg) (d : Dimacs) : Bool := cnfTrue a d.clauses

/-- Literals are non-zero and within `1..nbVars`. -/
def Dimacs.wf (d : Dimacs) : Bool := cnfWf d.nbVars d.clauses

inductive Rel where
  | ge
  | eq
deriving Repr, DecidableEq, Inhabited

/-- One OPB constraint `Σ coef·lit (>= | =) rhs`; terms are `(coefficient, literal)`. -/
structure OpbConstr where
  terms : List (Int × Int)
  rel : Rel
  rhs : Int
deriving Repr, DecidableEq, Inhabited

def OpbConstr.sem (a : Asg) (c : OpbConstr) : Bool :=
  match c.rel with
  | .ge => decide (c.rhs ≤ lhs a c.terms)
  | .eq => decide (lhs a c.terms = c.rhs)

/-- An OPB file: an optional `min:` objective and the constraints. -/
structure Opb where
  objective : Option (List (Int × Int))
  constrs : List OpbConstr
deriving Repr, DecidableEq, Inhabited

def Opb.sem (a : Asg) (o : Opb) : Bool := o.constrs.all (·.sem a)

/-- Value of the objective (0 when there is none). -/
def Opb.cost (a : Asg) (o : Opb) : Int :=
  match o.objective with
  | none => 0
  | some ts => lhs a ts

/-- Every variable of a constraint is `x<n>` with `n ≥ 1`, and a constraint has at least one term
    (the OPB grammar: `<sum> ::= <weightedterm> | <weightedterm> <sum>`). Nothing is asked of the
    objective: the parser stores its terms as they are. -/
def OpbConstr.wf (c : OpbConstr) : Bool := c.terms.all (fun t => t.2 != 0) && !c.terms.isEmpty

def Opb.wf (o : Opb) : Bool := o.constrs.all (·.wf)

/-! ## DIMACS CNF: rendering -/

/-- A comment line: first field `c`, then anything. -/
def commentLine (ts : List Tok) : Line := Tok.word "c" :: ts

/-- The free choices made when one clause is written:
    * `cuts`: the clause's fields (`lits … 0`) are cut into successive lines of these sizes
      (what is left goes on the last line; a size 0 is a blank line);
    * `join`: the next clause starts on the line on which this one ends;
    * `comments`: comment lines written after the clause (when `join` is false). Comment lines
      are never written inside a clause: `solver.ParseCNF` rejects them there. -/
structure ClauseLayout where
  cuts : List Nat := []
  join : Bool := false
  comments : List (List Tok) := []
deriving Repr, Inhabited

structure CnfLayout where
  /-- comment lines before the header -/
  beforeHeader : List (List Tok) := []
  /-- comment lines between the header and the first clause -/
  afterHeader : List (List Tok) := []
  /-- one layout per clause (missing ones are the default layout) -/
  clauses : List ClauseLayout := []
deriving Repr, Inhabited

/-- Cut `ts` into lines of the given sizes, the first line being appended to the open line
    `opn`; returns the completed lines and the line left open. -/
def cutFrom (opn : List Int) : List Nat → List Int → List (List Int) × List Int
  | [], ts => ([], opn ++ ts)
  | n :: ns, ts =>
    let r := cutFrom [] ns (ts.drop n)
    ((opn ++ ts.take n) :: r.1, r.2)

/-- The clause lines. `opn` is the line left open by the previous clause. -/
def renderClauses : List (List Int) → List ClauseLayout → List Int → List Line
  | [], _, opn => if opn.isEmpty then [] else [intLine opn]
  | c :: cs, ls, opn =>
    let l := ls.headD {}
    let r := cutFrom opn l.cuts (c ++ [0])
    if l.join then r.1.map intLine ++ renderClauses cs ls.tail r.2
    else r.1.map intLine ++ intLine r.2 :: (l.comments.map commentLine ++ renderClauses cs ls.tail [])

def cnfHeaderLine (nbVars nbClauses : Nat) : Line :=
  [Tok.word "p", Tok.word "cnf", Tok.int nbVars, Tok.int nbClauses]

def Dimacs.renderLines (d : Dimacs) (lay : CnfLayout) : List Line :=
  lay.beforeHeader.map commentLine ++
    cnfHeaderLine d.nbVars d.clauses.length ::
      (lay.afterHeader.map commentLine ++ renderClauses d.clauses lay.clauses [])

/-! ## `solver.ParseCNF` on token lines -/

/-- The variables of the reading loop: `pb.NbVars`, `pb.Clauses` and `lits`
    (`cur = []` exactly when the loop is between two clauses: a clause under construction holds
    at least the literal that started it). -/
structure CnfState where
  nbVars : Int := 0
  clauses : List (List Int) := []
  cur : List Int := []
deriving Repr, DecidableEq, Inhabited

/-- One value returned by `readInt` inside the clause loop. -/
def cnfInt (st : CnfState) (v : Int) : Except String CnfState :=
  if v = 0 then .ok { st with clauses := st.clauses ++ [st.cur], cur := [] }
  else if v > st.nbVars ∨ -v > st.nbVars then .error "invalid literal"
  else .ok { st with cur := st.cur ++ [v] }

/-- `parseHeader` on the fields that follow the byte `p`, then the two `make` calls. -/
def cnfHeader (fields : List Tok) : Except String (Int × Int) :=
  match fields with
  | _ :: .int v :: .int c :: _ =>
    if v < 0 ∨ c < 0 then .error "panic: makeslice: len out of range" else .ok (v, c)
  | _ :: .int _ :: _ :: _ => .error "nbClauses not an int"
  | _ :: _ :: _ :: _ => .error "nbvars not an int"
  | _ => .error "invalid syntax in header"

/-- The fields of a line, from the current position on. Between two clauses a field starting
    with `c` discards the rest of the line, a field starting with `p` makes the rest of the line
    a header (`pb.Clauses` is re-made: clauses read before are dropped); every other field has
    to be an integer. Inside a clause every field has to be an integer. -/
def cnfToks (st : CnfState) : List Tok → Except String CnfState
  | [] => .ok st
  | .int v :: ts =>
    match cnfInt st v with
    | .error e => .error e
    | .ok st' => cnfToks st' ts
  | .word s :: ts =>
    if !st.cur.isEmpty then .error "cannot parse clause: not a digit"
    else if firstChar s = some 'c' then .ok st
    else if firstChar s = some 'p' then
      let rest := (s.toList.drop 1)
      let fields := if rest.isEmpty then ts else Tok.word (String.ofList rest) :: ts
      match cnfHeader fields with
      | .error e => .error e
      | .ok (v, _) => .ok { nbVars := v, clauses := [], cur := [] }
    else .error "cannot parse clause: not a digit"

def cnfLines (st : CnfState) : List Line → Except String CnfState
  | [] => .ok st
  | l :: ls =>
    match cnfToks st l with
    | .error e => .error e
    | .ok st' => cnfLines st' ls

/-- End of file: a clause under construction is closed. -/
def cnfFinish (st : CnfState) : Nat × List (List Int) :=
  (st.nbVars.toNat, if st.cur.isEmpty then st.clauses else st.clauses ++ [st.cur])

/-- `solver.ParseCNF` up to (not including) `simplify2`: `pb.NbVars` and the clause list. -/
def parseCnfTokens (lines : List Line) : Except String (Nat × List (List Int)) :=
  match cnfLines {} lines with
  | .error e => .error e
  | .ok st => .ok (cnfFinish st)

/-! ## `explain.ParseCNF` on token lines -/

/-- `explain.Problem` while it is read, and `cur`. -/
structure ExState where
  nbVars : Int := 0
  nbClauses : Int := 0
  clauses : List (List Int) := []
  units : Array Int := #[]
  cur : List Int := []
deriving Repr, DecidableEq, Inhabited

/-- `addClause`. -/
def exAddClause (st : ExState) (clause : List Int) : Except String ExState :=
  let st1 := { st with clauses := st.clauses ++ [clause] }
  match clause with
  | [lit] =>
    let v := if lit < 0 then -lit else lit
    if v > st.nbVars then .error "found lit but problem was supposed to hold fewer vars"
    else if v.toNat - 1 < st.units.size ∧ 0 < v then .ok { st1 with units := setLit st.units lit }
    else .error "panic: index out of range"
  | _ => .ok st1

/-- `parseClauses`. -/
def exFields (st : ExState) : List Tok → Except String ExState
  | [] => .ok st
  | .word _ :: _ => .error "could not parse clause"
  | .int lit :: ts =>
    if lit ≠ 0 then exFields { st with cur := st.cur ++ [lit] } ts
    else
      match exAddClause st st.cur with
      | .error e => .error e
      | .ok st' => exFields { st' with cur := [] } ts

/-- `parseHeader`. -/
def exHeader (st : ExState) (fields : List Tok) : Except String ExState :=
  match fields with
  | [_, _, f2, f3] =>
    match f2 with
    | .word _ => .error "invalid number of vars"
    | .int v =>
      if v < 0 then .error "negative number of vars"
      else
        match f3 with
        | .word _ => .error "invalid number of clauses"
        | .int c =>
          if c < 0 then .error "negative number of clauses"
          else .ok { st with nbVars := v, nbClauses := c, units := Array.replicate v.toNat 0, clauses := [] }
  | _ => .error "expected 4 fields"

/-- One line of the scanner loop. -/
def exLine (st : ExState) (line : Line) : Except String ExState :=
  match line with
  | [] => .ok st
  | .word s :: _ =>
    if s = "c" then .ok st
    else if s = "p" then exHeader st line
    else .error "could not parse clause"
  | .int _ :: _ => exFields st line

def exLines (st : ExState) : List Line → Except String ExState
  | [] => .ok st
  | l :: ls =>
    match exLine st l with
    | .error e => .error e
    | .ok st' => exLines st' ls

/-- `explain.ParseCNF`: the problem, as the `GS.Explain.Pb` the checker mirror works on
    (`tagged` is not set by the parser), and `NbVars`. -/
def explainParseTokens (lines : List Line) : Except String (Nat × GS.Explain.Pb) :=
  match exLines {} lines with
  | .error e => .error e
  | .ok st =>
    let fin : Except String ExState := if st.cur.isEmpty then .ok st else exAddClause st st.cur
    match fin with
    | .error e => .error e
    | .ok st => .ok (st.nbVars.toNat,
        { clauses := st.clauses, nbClauses := st.nbClauses.toNat, units := st.units, tagged := [] })

/-! ## OPB: names, rendering -/

/-- `x<n>` / `~x<n>` for a literal. -/
def varName (l : Int) : String :=
  if l < 0 then "~x" ++ toString l.natAbs else "x" ++ toString l.natAbs

def varTok (l : Int) : Tok := .word (varName l)

/-- A comment line (`some ts`: first field `*`) or an empty line (`none`): both are skipped. -/
def skipLine : Option (List Tok) → Line
  | none => []
  | some ts => Tok.word "*" :: ts

/-- One weighted term. `om`: a coefficient 1 is left out. An optional `+` in front of a
    non-negative coefficient is part of the integer field, hence invisible here. -/
def renderTerm (om : Bool) (t : Int × Int) : List Tok :=
  if om && t.1 == 1 then [varTok t.2] else [Tok.int t.1, varTok t.2]

/-- The terms of a sum; `omits` gives the choice for each term (missing ones: `false`). -/
def renderTerms : List (Int × Int) → List Bool → List Tok
  | [], _ => []
  | t :: ts, os => renderTerm (os.headD false) t ++ renderTerms ts os.tail

def relTok : Rel → Tok
  | .ge => .word ">="
  | .eq => .word "="

/-- The free choices made when one OPB line is written: skipped lines before it, and which
    unit coefficients are left out. Whether `;`, `>=`, `=`, `min:` are glued to their neighbours
    is invisible at the level of fields (the parser separates them first). -/
structure OpbLineLayout where
  skips : List (Option (List Tok)) := []
  omits : List Bool := []
deriving Repr, Inhabited

structure OpbLayout where
  objective : OpbLineLayout := {}
  constrs : List OpbLineLayout := []
  trailing : List (Option (List Tok)) := []
deriving Repr, Inhabited

def renderObjective (ts : List (Int × Int)) (omits : List Bool) : Line :=
  Tok.word "min:" :: (renderTerms ts omits ++ [Tok.word ";"])

def OpbConstr.renderLine (c : OpbConstr) (omits : List Bool) : Line :=
  renderTerms c.terms omits ++ [relTok c.rel, Tok.int c.rhs, Tok.word ";"]

def renderConstrs : List OpbConstr → List OpbLineLayout → List Line
  | [], _ => []
  | c :: cs, ls =>
    let l := ls.headD {}
    l.skips.map skipLine ++ c.renderLine l.omits :: renderConstrs cs ls.tail

/-- The skipped lines of the objective's layout, then the objective line if there is one. -/
def renderObjectiveLines (obj : Option (List (Int × Int))) (l : OpbLineLayout) : List Line :=
  l.skips.map skipLine ++
    (match obj with
     | none => []
     | some ts => [renderObjective ts l.omits])

def Opb.renderLines (o : Opb) (lay : OpbLayout) : List Line :=
  renderObjectiveLines o.objective lay.objective ++
    (renderConstrs o.constrs lay.constrs ++ lay.trailing.map skipLine)

/-! ## `strconv.Atoi` on the digits of a variable name -/

def atoiDigits (ds : List Char) : Option Nat :=
  if !ds.isEmpty && ds.all Char.isDigit then some (Nat.ofDigitChars 10 ds 0) else none

/-- `strconv.Atoi` (base 10, optional sign, at least one digit; overflow not modelled). -/
def atoi (cs : List Char) : Option Int :=
  match cs with
  | '-' :: ds => (atoiDigits ds).map (fun n => -(n : Int))
  | '+' :: ds => (atoiDigits ds).map (fun n => (n : Int))
  | ds => (atoiDigits ds).map (fun n => (n : Int))

/-- `strings.HasPrefix(l, "x") || strings.HasPrefix(l, "~x")` -/
def hasVarPrefix (cs : List Char) : Bool :=
  match cs with
  | 'x' :: _ => true
  | '~' :: 'x' :: _ => true
  | _ => false

/-- `if l[0] == '~' { lit = Atoi(l[2:]); append(-lit) } else { lit = Atoi(l[1:]); append(lit) }`:
    returns `(lit, appended literal)`. Only called on a non-empty `l`. -/
def varLit (cs : List Char) : Option (Int × Int) :=
  match cs with
  | '~' :: rest => (atoi (rest.drop 1)).map (fun v => (v, -v))
  | _ :: rest => (atoi rest).map (fun v => (v, v))
  | [] => none

/-! ## `solver.ParseOPB` on token lines -/

/-- `parseTerms(terms, line)`: `i` is the index of the current field, `len = len(terms)`,
    `nb = pb.NbVars`. Returns weights, lits and the new `pb.NbVars`.
    * a field that is not an integer and has no `x` / `~x` prefix: the error message indexes
      `terms[i*2]`, which panics when `i*2 ≥ len(terms)`;
    * an integer that is the last field: `terms[i]` after `i++` panics. -/
def opbTerms (len : Nat) : Nat → Int → List Tok → Except String (List Int × List Int × Int)
  | _, nb, [] => .ok ([], [], nb)
  | i, nb, .word l :: ts =>
    if !hasVarPrefix l.toList then
      (if i * 2 < len then .error "invalid weight" else .error "panic: index out of range")
    else
      match varLit l.toList with
      | none => .error "invalid variable"
      | some (raw, lit) =>
        match opbTerms len (i + 1) (if raw > nb then raw else nb) ts with
        | .error e => .error e
        | .ok (ws, ls, nb') => .ok (1 :: ws, lit :: ls, nb')
  | _, _, [.int _] => .error "panic: index out of range"
  | _, _, .int _ :: .int _ :: _ => .error "invalid variable name"
  | i, nb, .int w :: .word l :: ts =>
    if !hasVarPrefix l.toList || l.toList.length < 2 then .error "invalid variable name"
    else
      match varLit l.toList with
      | none => .error "invalid variable"
      | some (raw, lit) =>
        match opbTerms len (i + 2) (if raw > nb then raw else nb) ts with
        | .error e => .error e
        | .ok (ws, ls, nb') => .ok (w :: ws, lit :: ls, nb')

/-- What `ParseOPB` has built when the scanner loop ends. `constrs` records every `PBConstr`
    returned by `GtEq` / `Eq`, line after line (it is not a field of the Go problem: it is what the
    case analysis consumes); `units`, `kept` (`pb.Clauses`) and `unsat` (`pb.Status == Unsat`)
    are the outcome of the case analysis. -/
structure OpbState where
  nbVars : Int := 0
  obj : Option (List (Int × Int)) := none
  constrs : List PBC := []
  units : List Int := []
  kept : List PBC := []
  unsat : Bool := false
deriving Repr, DecidableEq, Inhabited

/-- The `for _, constr := range constrs` loop of `parsePBConstrLine` (`GS.Constr.frontPB` is
    the case analysis on one constraint); `return nil` on the first unsatisfiable one. -/
def opbFront (st : OpbState) : List PBC → OpbState
  | [] => st
  | c :: cs =>
    match frontPB c with
    | .dropped => opbFront st cs
    | .unsat => { st with unsat := true }
    | .units ls => opbFront { st with units := st.units ++ ls } cs
    | .kept => opbFront { st with kept := st.kept ++ [c] } cs

/-- `parsePBConstrLine(fields, line)`; `fields[len-2]`, `fields[len-1]` and `fields[:len-2]` are
    read off the reversed list. -/
def opbConstrLine (st : OpbState) (fields : List Tok) : Except String OpbState :=
  match fields.reverse with
  | rhsTok :: opTok :: revTerms@(_ :: _) =>
    let op : Option Rel :=
      if opTok = Tok.word ">=" then some Rel.ge else if opTok = Tok.word "=" then some Rel.eq else none
    match op with
    | none => .error "invalid operator"
    | some rel =>
      match rhsTok with
      | .word _ => .error "invalid value"
      | .int rhs =>
        let terms := revTerms.reverse
        match opbTerms terms.length 0 st.nbVars terms with
        | .error e => .error e
        | .ok (ws, ls, nb) =>
          let made : Option (List PBC) :=
            match rel with
            | .ge => (gtEq ls (some ws) rhs).map (fun c => [c])
            | .eq => eq ls (some ws) rhs
          match made with
          | none => .error "panic: not as many lits as weights"
          | some cs => .ok (opbFront { st with nbVars := nb, constrs := st.constrs ++ cs } cs)
  | _ => .error "invalid syntax"

/-- `line[0] == '*'` -/
def isStarLine : Line → Bool
  | .word s :: _ => firstChar s == some '*'
  | _ => false

/-- `parsePBLine(line)` on the fields of the line (the final `;` is the last field). -/
def opbLine (st : OpbState) (line : Line) : Except String OpbState :=
  match line.reverse with
  | [] => .ok st                                       -- `line == ""`: skipped by `ParseOPB`
  | last :: revFields =>
    if isStarLine line then .ok st                      -- `line[0] == '*'`: skipped by `ParseOPB`
    else if last ≠ Tok.word ";" then .error "line does not end with semicolon"
    else
      let fields := revFields.reverse
      match fields with
      | [] => .error "empty line in file"
      | f0 :: rest =>
        if f0 = Tok.word "min:" then
          match opbTerms rest.length 0 st.nbVars rest with
          | .error e => .error e
          | .ok (ws, ls, nb) => .ok { st with nbVars := nb, obj := some (ws.zip ls) }
        else opbConstrLine st fields

def opbLines (st : OpbState) : List Line → Except String OpbState
  | [] => .ok st
  | l :: ls =>
    match opbLine st l with
    | .error e => .error e
    | .ok st' => opbLines st' ls

/-- `solver.ParseOPB` up to (not including) the conflicting-unit check and `simplifyPB`. -/
def parseOpbLines (lines : List Line) : Except String OpbState := opbLines {} lines

/-- Meaning of what the front end kept: no constraint was found unsatisfiable, every unit is
    true, every kept constraint holds. -/
def OpbState.frontSem (a : Asg) (st : OpbState) : Bool :=
  !st.unsat && st.units.all (litTrue a) && st.kept.all (·.sem a)

/-! ## WCNF -/

/-- A WCNF instance: declared variables, top weight (`none`: the header has four fields; Go
    then keeps `topWeight = 0`), weighted clauses. -/
structure Wcnf where
  nbVars : Nat
  top : Option Int
  clauses : List (Int × List Int)
deriving Repr, DecidableEq, Inhabited

def Wcnf.topVal (w : Wcnf) : Int := w.top.getD 0

def wcnfHeaderLine (w : Wcnf) : Line :=
  [Tok.word "p", Tok.word "wcnf", Tok.int w.nbVars, Tok.int w.clauses.length] ++
    (match w.top with
     | none => []
     | some t => [Tok.int t])

/-- One clause per line: weight, literals, terminating 0. -/
def wcnfClauseLine (wc : Int × List Int) : Line := intLine (wc.1 :: (wc.2 ++ [0]))

/-- A skipped line before a clause: empty, or a comment (first field `c`). -/
def wcnfSkipLine : Option (List Tok) → Line
  | none => []
  | some ts => commentLine ts

def wcnfRenderClauses : List (Int × List Int) → List (List (Option (List Tok))) → List Line
  | [], _ => []
  | wc :: rest, ls => (ls.headD []).map wcnfSkipLine ++ wcnfClauseLine wc :: wcnfRenderClauses rest ls.tail

/-- `before`: skipped lines before the header; `skips`: skipped lines before each clause. -/
def wcnfRenderLines (w : Wcnf) (before : List (Option (List Tok))) (skips : List (List (Option (List Tok)))) :
    List Line :=
  before.map wcnfSkipLine ++ wcnfHeaderLine w :: wcnfRenderClauses w.clauses skips

/-- The variables of `ParseWCNF`. -/
structure WcnfState where
  nbVars : Int := 0
  top : Int := 0
  clauses : List (List Int) := []
  weights : List Int := []
  relaxLit : Int := 0
deriving Repr, DecidableEq, Inhabited

/-- All fields as integers, or `none` (`Invalid integer`). -/
def allInts : List Tok → Option (List Int)
  | [] => some []
  | .int i :: ts => (allInts ts).map (i :: ·)
  | .word _ :: _ => none

def wcnfLine (st : WcnfState) (line : Line) : Except String WcnfState :=
  match line with
  | [] => .ok st
  | .word s :: rest =>
    if firstChar s = some 'p' then
      match rest with
      | f1 :: f2 :: f3 :: more =>
        if f1 ≠ Tok.word "wcnf" then .error "invalid syntax in WCNF file"
        else
          match f2 with
          | .word _ => .error "nbvars not an int"
          | .int v =>
            match f3 with
            | .word _ => .error "nbClauses not an int"
            | .int c =>
              if c < 0 then .error "panic: makeslice: cap out of range"
              else
                let st1 : WcnfState := { st with nbVars := v, relaxLit := v + 1, clauses := [], weights := [] }
                match more with
                | [.int t] => .ok { st1 with top := t }
                | [.word _] => .error "top weight not an int"
                | _ => .ok st1
      | _ => .error "invalid syntax in WCNF file"
    else if firstChar s = some 'c' then .ok st
    else .error "Invalid integer in WCNF clause"
  | .int w :: rest =>
    match allInts rest with
    | none => .error "Invalid integer in WCNF clause"
    | some vals =>
      -- `lits = make([]int, len(fields)-1)`; the last field is overwritten or cut off unread
      if vals.isEmpty then .error "panic: index out of range [-1]"
      else if st.top = 0 ∨ w < st.top then
        .ok { st with clauses := st.clauses ++ [vals.dropLast ++ [st.relaxLit]],
                      weights := st.weights ++ [w], relaxLit := st.relaxLit + 1 }
      else .ok { st with clauses := st.clauses ++ [vals.dropLast] }

def wcnfLines (st : WcnfState) : List Line → Except String WcnfState
  | [] => .ok st
  | l :: ls =>
    match wcnfLine st l with
    | .error e => .error e
    | .ok st' => wcnfLines st' ls

/-- `ParseWCNF` up to the call of `ParseSliceNb`: clauses, cost terms `(weight, relax literal)`,
    `relaxLit - 1` and `firstRelax = nbVars`, as a `GS.MaxSatEnc.WcnfOut`.
    Without a header line `relaxLit - nbVars - 1` is one less than the number of weights:
    `make([]solver.Lit, -1)` or `SetCostFunc` panics. -/
def parseWcnfLines (lines : List Line) : Except String GS.MaxSatEnc.WcnfOut :=
  match wcnfLines {} lines with
  | .error e => .error e
  | .ok st =>
    if st.relaxLit - st.nbVars - 1 ≠ (st.weights.length : Int) then
      .error "panic: makeslice: len out of range / length of lits and of weights don't match"
    else
      let n := st.nbVars.toNat
      .ok ⟨st.clauses, st.weights.zip (GS.MaxSatEnc.relaxLits n st.relaxLit.toNat), (st.relaxLit - 1).toNat, n⟩

/-! ## Printers (C18) -/

/-- `Clause.CNF()`: the literals, then `0`. -/
def clauseLine (c : List Int) : Line := intLine (c ++ [0])

/-- `Problem.CNF()`: header with `len(pb.Clauses)+len(pb.Units)` clauses, one unit per line,
    then the clauses. -/
def printCnf (nbVars : Nat) (units : List Int) (clauses : List (List Int)) : List Line :=
  cnfHeaderLine nbVars (clauses.length + units.length) ::
    (units.map (fun u => intLine [u, 0]) ++ clauses.map clauseLine)

/-- A term other than the first one in `Clause.PBString`: `strings.Join(terms, " +")` glues a
    `+` to the weight; `+<w>` is an integer field only when `w ≥ 0`. -/
def plusTok (w : Int) : Tok := if 0 ≤ w then .int w else .word ("+" ++ toString w)

def pbTermsRest : List (Int × Int) → List Tok
  | [] => []
  | t :: ts => plusTok t.1 :: varTok t.2 :: pbTermsRest ts

def pbTermsToks : List (Int × Int) → List Tok
  | [] => []
  | t :: ts => Tok.int t.1 :: varTok t.2 :: pbTermsRest ts

/-- `Clause.PBString()`: `w x<n> +w ~x<n> … >= card ;`. The clause is given as its literals,
    weights (`none`: `pbData == nil`, every weight 1) and cardinality; the Go clause always has
    as many weights as literals. -/
def pbClauseLine (c : PBC) : Line :=
  pbTermsToks c.terms ++ [Tok.word ">=", Tok.int c.atLeast, Tok.word ";"]

/-- A unit of `Problem.PBString()`: `1 x<n> = 1 ;` / `1 ~x<n> = 1 ;`. -/
def pbUnitLine (u : Int) : Line := [Tok.int 1, varTok u, Tok.word "=", Tok.int 1, Tok.word ";"]

/-- `costFuncString()`: `min: w x<n> +w x<n> -w ~x<n> ;` — the first weight bare, the following
    ones with `+` glued when non-negative (always integer fields). -/
def costLine (ts : List (Int × Int)) : Line :=
  Tok.word "min:" :: (ts.flatMap (fun t => [Tok.int t.1, varTok t.2]) ++ [Tok.word ";"])

/-- The terms of the cost function `(minLits, minWeights)`; `minWeights == nil`: all 1. -/
def costTerms (lits : List Int) (weights : Option (List Int)) : List (Int × Int) :=
  match weights with
  | none => lits.map (fun l => (1, l))
  | some ws => ws.zip lits

/-- `Problem.PBString()`. `obj = none`: `pb.minLits == nil`. -/
def printPB (obj : Option (List (Int × Int))) (units : List Int) (clauses : List PBC) : List Line :=
  (match obj with
   | none => []
   | some ts => [costLine ts]) ++ (units.map pbUnitLine ++ clauses.map pbClauseLine)

end GS.Formats
