import GS.Spec.Basic
/-!
# GS.Model.Amo — mirror of `(*Problem).DetectAtMostOne` / `removeBinaries` (solver/problem.go)

Core-only. Literals are DIMACS integers here (`Lit` value `2*(v-1)` ↦ `v`, `2*(v-1)+1` ↦ `-v`,
`Negation` ↦ unary minus). A constraint is a list of literals together with the minimal number of
true literals (`Cardinality()`); pseudo-boolean weights are not represented (the Go function never
looks at them: it only tests `c.Len() == 2`).

Correspondence with the Go code (line numbers of /repo/solver/problem.go):

* `propagates[l]` / `indexes[l]` (l.175-189) are the two components of `propsOf l cs 0`: the Go
  arrays are filled by one pass over `pb.Clauses`; entry `l` receives, in clause order, `lit2`
  when `lit1.Negation() = l` and then `lit1` when `lit2.Negation() = l`. The model computes that
  entry by the same pass restricted to `l`, which is the same list whenever `l` is a valid index
  (otherwise the Go code panics, see `inRange`).
* the loop `for i := range propagates` (l.190-232) is `List.foldl (step cs) init (List.range (2*nbVars))`,
  `litOfIdx i` being the DIMACS value of `Lit(i)`;
* the inner loop over `others` (l.201-224) is `grow`; the test `for j := 1; j < len(constr)` is
  `(constr.drop 1).all`, and `propagates[constr[j].Negation()]` contains `other` is
  `(prop (-x)).contains other`;
* `considered` is the list of literals whose flag is set;
* `removeBinaries` (l.238-253) is `removeIdx`.
-/
namespace GS.Amo

/-- A clause / cardinality constraint: at least `card` literals of `lits` are true. -/
structure C where
  lits : List Int
  card : Nat
deriving DecidableEq, Repr, Inhabited

/-- `card ≤ number of true literals`. -/
def C.holds (a : Asg) (c : C) : Bool := decide (c.card ≤ c.lits.countP (litTrue a))

/-- DIMACS value of the Go literal `Lit(i)`. -/
def litOfIdx (i : Nat) : Int :=
  if i % 2 = 0 then ((i / 2 + 1 : Nat) : Int) else -((i / 2 + 1 : Nat) : Int)

/-- Go index (`Lit` value) of a non-zero DIMACS literal. -/
def idxOfLit (l : Int) : Nat := if l > 0 then 2 * (l.natAbs - 1) else 2 * (l.natAbs - 1) + 1

/-- Contribution of clause number `i` to `propagates[l]` (first components) and `indexes[l]`
    (second components). -/
def propsOfClause (l : Int) (c : C) (i : Nat) : List (Int × Nat) :=
  match c.lits with
  | [l1, l2] => (if -l1 = l then [(l2, i)] else []) ++ (if -l2 = l then [(l1, i)] else [])
  | _ => []

/-- `propagates[l]` zipped with `indexes[l]`, for the clauses `cs` numbered from `i`. -/
def propsOf (l : Int) : List C → Nat → List (Int × Nat)
  | [], _ => []
  | c :: cs, i => propsOfClause l c i ++ propsOf l cs (i + 1)

/-- `propagates[l]`. -/
def prop (cs : List C) (l : Int) : List Int := (propsOf l cs 0).map (·.1)

/-- The inner loop `for j, other := range others`: returns the final `constr` and `binaries`. -/
def grow (prop : Int → List Int) (considered : List Int) :
    List (Int × Nat) → List Int → List Nat → List Int × List Nat
  | [], constr, bins => (constr, bins)
  | (other, idx) :: rest, constr, bins =>
    if considered.contains other then grow prop considered rest constr bins
    else if (constr.drop 1).all (fun x => (prop (-x)).contains other) then
      grow prop considered rest (constr ++ [other]) (bins ++ [idx])
    else grow prop considered rest constr bins

/-- Loop state: the set flags of `considered`, the constraints appended to `pb.Clauses`,
    and `toRemove`. -/
structure St where
  considered : List Int
  added : List C
  toRemove : List Nat
deriving Repr

def St.init : St := ⟨[], [], []⟩

/-- One iteration of `for i := range propagates`. -/
def step (cs : List C) (st : St) (i : Nat) : St :=
  let lit := litOfIdx i
  if st.considered.contains lit then st
  else
    let others := propsOf lit cs 0
    if others.length < 2 then st
    else
      let r := grow (prop cs) st.considered others [-lit] []
      if r.1.length > 2 then
        { considered := r.1.map (fun x => -x) ++ st.considered
          added := st.added ++ [⟨r.1, r.1.length - 1⟩]
          toRemove := st.toRemove ++ r.2 }
      else st

/-- State after the main loop. -/
def run (nbVars : Nat) (cs : List C) : St := (List.range (2 * nbVars)).foldl (step cs) St.init

/-- The cardinality constraints appended by the detection, in creation order. -/
def added (nbVars : Nat) (cs : List C) : List C := (run nbVars cs).added

/-- The indexes handed to `removeBinaries`. -/
def removed (nbVars : Nat) (cs : List C) : List Nat := (run nbVars cs).toRemove

/-- `removeBinaries`: keep the constraints whose index (counted from `j`) is not in `rm`. -/
def removeIdx (rm : List Nat) : List C → Nat → List C
  | [], _ => []
  | c :: cs, j => if rm.contains j then removeIdx rm cs (j + 1) else c :: removeIdx rm cs (j + 1)

/-- `pb.Clauses` after `pb.DetectAtMostOne()`. -/
def detect (nbVars : Nat) (cs : List C) : List C :=
  removeIdx (removed nbVars cs) (cs ++ added nbVars cs) 0

/-- The Go arrays are indexed by the literals of the 2-literal constraints (and by nothing
    else): every such literal must be a literal of a variable in `1..nbVars`, otherwise
    `propagates[neg1]` panics with "index out of range". -/
def inRange (nbVars : Nat) (cs : List C) : Bool :=
  cs.all (fun c => c.lits.length != 2 || c.lits.all (litOk nbVars))

/-- `detect`, with the Go panic made explicit. -/
def detect? (nbVars : Nat) (cs : List C) : Option (List C) :=
  if inRange nbVars cs then some (detect nbVars cs) else none

end GS.Amo
