import GS.Spec.Formula
/-!
# GS.Model.Bf — mirror of package `bf` (`/repo/bf/bf.go`): node types, builders, `nnf`, `cnfRec`, `Dimacs`

Core-only. A Go `variable{name, dummy}` is the key `(n, dummy)`: the name is a number (the
harness uses the one-letter name `'a' + n`), `dummy` is the Go flag.  Go's `interface` node
types become the nested inductive `F`; the maps `vars.all` / `vars.pb` become one association
list in insertion order (`pb` = the entries whose key is not a dummy created by `dummy()`).
-/
namespace GS.Bf

/-- `variable{name: n, dummy: d}` -/
abbrev Key := Nat × Bool

/-- the Go node types `variable`, `lit`, `not`, `and`, `or`, `trueConst`, `falseConst` -/
inductive F where
  | var (n : Nat) (dummy : Bool)
  | lit (n : Nat) (dummy : Bool) (neg : Bool)
  | not (f : F)
  | and (fs : List F)
  | or (fs : List F)
  | tt
  | ff
deriving Repr, Inhabited

/-! ### `Eval` -/

mutual
/-- `Formula.Eval` (the Go `and.Eval` / `or.Eval` loops compute the plain conjunction /
    disjunction, `true` / `false` when there is no child) -/
def eval (m : Key → Bool) : F → Bool
  | .var n d => m (n, d)
  | .lit n d neg => m (n, d) != neg
  | .not f => !eval m f
  | .and fs => evalAll m fs
  | .or fs => evalAny m fs
  | .tt => true
  | .ff => false
def evalAll (m : Key → Bool) : List F → Bool
  | [] => true
  | f :: fs => eval m f && evalAll m fs
def evalAny (m : Key → Bool) : List F → Bool
  | [] => false
  | f :: fs => eval m f || evalAny m fs
end

/-! ### Builders -/

/-- `Var(name)` -/
def pbVar (n : Nat) : F := .var n false
/-- `Implies(f1, f2) = or{not{f1}, f2}` -/
def implies (f1 f2 : F) : F := .or [.not f1, f2]
/-- `Eq(f1, f2) = and{or{not{f1}, f2}, or{f1, not{f2}}}` -/
def eq (f1 f2 : F) : F := .and [.or [.not f1, f2], .or [f1, .not f2]]
/-- `Xor(f1, f2) = and{or{not{f1}, not{f2}}, or{f1, f2}}` -/
def xor (f1 f2 : F) : F := .and [.or [.not f1, .not f2], .or [f1, f2]]

/-- the double loop of `uniqueSmall`: for `i < j`, in lexicographic order, `Or(Not(vᵢ), Not(vⱼ))` -/
def pairsNot : List F → List F
  | [] => []
  | v :: vs => vs.map (fun w => F.or [.not v, .not w]) ++ pairsNot vs

/-- `uniqueSmall(vars...)` on already built variables -/
def uniqueSmallV (vs : List F) : F := .and (.or vs :: pairsNot vs)

/-- `uniqueSmall` on the problem variables named `ns` (what `Unique(ns...)` returns when
    `len(ns) ≤ 4`) -/
def uniqueSmall (ns : List Nat) : F := uniqueSmallV (ns.map pbVar)

/- `supported`: every `unique` group has at most 4 names: `Unique` goes through `uniqueSmall`
   only (`uniqueRec`, with its floating-point square root, is not mirrored). -/
mutual
def supported : SF → Bool
  | .var _ => true
  | .tt => true
  | .ff => true
  | .not f => supported f
  | .and fs => supportedAll fs
  | .or fs => supportedAll fs
  | .imp a b => supported a && supported b
  | .iff a b => supported a && supported b
  | .xor a b => supported a && supported b
  | .unique ns => decide (ns.length ≤ 4)
def supportedAll : List SF → Bool
  | [] => true
  | f :: fs => supported f && supportedAll fs
end

mutual
/-- the Go formula the harness builds from a spec formula (`FNode.toGo`); faithful on
    `supported` formulas -/
def ofSF : SF → F
  | .var n => pbVar n
  | .tt => .tt
  | .ff => .ff
  | .not f => .not (ofSF f)
  | .and fs => .and (ofSFs fs)
  | .or fs => .or (ofSFs fs)
  | .imp a b => implies (ofSF a) (ofSF b)
  | .iff a b => eq (ofSF a) (ofSF b)
  | .xor a b => xor (ofSF a) (ofSF b)
  | .unique ns => uniqueSmall ns
def ofSFs : List SF → List F
  | [] => []
  | f :: fs => ofSF f :: ofSFs fs
end

/-! ### `nnf` -/

/-- the loop and the tail of `and.nnf`, run on the already normalised children `xs`;
    `acc` is the Go variable `res` -/
def andFold : List F → List F → F
  | [], acc => match acc with
      | [] => .tt                 -- "The empty conjunction is true"
      | [x] => x
      | xs => .and xs
  | .and gs :: rest, acc => andFold rest (acc ++ gs)
  | .tt :: rest, acc => andFold rest acc
  | .ff :: _, _ => .ff
  | g :: rest, acc => andFold rest (acc ++ [g])

/-- the loop and the tail of `or.nnf` -/
def orFold : List F → List F → F
  | [], acc => match acc with
      | [] => .ff                 -- "The empty disjunction is false"
      | [x] => x
      | xs => .or xs
  | .or gs :: rest, acc => orFold rest (acc ++ gs)
  | .ff :: rest, acc => orFold rest acc
  | .tt :: _, _ => .tt
  | g :: rest, acc => orFold rest (acc ++ [g])

mutual
/-- `nnfP false f = f.nnf()`, `nnfP true f = not{f}.nnf()` -/
def nnfP : Bool → F → F
  | false, .var n d => .lit n d false
  | true,  .var n d => .lit n d true
  | b, .lit n d neg => .lit n d (neg != b)
  | b, .not f => nnfP (!b) f
  | false, .and fs => andFold (nnfPs false fs) []
  | true,  .and fs => orFold (nnfPs true fs) []
  | false, .or fs => orFold (nnfPs false fs) []
  | true,  .or fs => andFold (nnfPs true fs) []
  | false, .tt => .tt
  | true,  .tt => .ff
  | false, .ff => .ff
  | true,  .ff => .tt
def nnfPs : Bool → List F → List F
  | _, [] => []
  | b, f :: fs => nnfP b f :: nnfPs b fs
end

/-- `f.nnf()` -/
def nnf (f : F) : F := nnfP false f

/-! ### `vars`, `cnfRec`, `asCnf` -/

/-- `vars.all` in insertion order: `(variable, index)` -/
abbrev Tbl := List (Key × Nat)

/-- `vars.litValue(lit{v: k, signed: neg})`: the literal and the new table -/
def litValue (t : Tbl) (k : Key) (neg : Bool) : Int × Tbl :=
  match t.lookup k with
  | some v => (if neg then -(v : Int) else (v : Int), t)
  | none =>
    let v := t.length + 1
    (if neg then -(v : Int) else (v : Int), t ++ [(k, v)])

/-- `vars.dummy()`: the fresh index and the new table (the Go name `dummy-<val>` is the key
    `(val, true)`) -/
def dummy (t : Tbl) : Nat × Tbl :=
  let v := t.length + 1
  (v, t ++ [((v, true), v)])

mutual
/-- `cnfRec(f, vars)`: clauses and new table; `none` is a Go `panic` -/
def cnfRec : F → Tbl → Option (List (List Int) × Tbl)
  | .lit n d neg, t =>
    let (l, t') := litValue t (n, d) neg
    some ([[l]], t')
  | .and fs, t => cnfAnd fs t
  | .or fs, t =>
    match cnfOr fs t with
    | some (res, lits, t') => some (res ++ [lits], t')
    | none => none
  | .tt, t => some ([], t)
  | .ff, t => some ([[]], t)
  | .var _ _, _ => none        -- panic("invalid NNF formula")
  | .not _, _ => none          -- panic("invalid NNF formula")
/-- the loop of the `and` case (also the inner loop over `sub2` in the `or` case) -/
def cnfAnd : List F → Tbl → Option (List (List Int) × Tbl)
  | [], t => some ([], t)
  | f :: fs, t =>
    match cnfRec f t with
    | none => none
    | some (c1, t1) =>
      match cnfAnd fs t1 with
      | none => none
      | some (c2, t2) => some (c1 ++ c2, t2)
/-- the loop of the `or` case: `(res, lits, vars)` -/
def cnfOr : List F → Tbl → Option (List (List Int) × List Int × Tbl)
  | [], t => some ([], [], t)
  | f :: fs, t =>
    match cnfOrChild f t with
    | none => none
    | some (c1, l, t1) =>
      match cnfOr fs t1 with
      | none => none
      | some (c2, ls, t2) => some (c1 ++ c2, l :: ls, t2)
/-- one iteration of the loop of the `or` case: clauses appended to `res`, literal appended
    to `lits`, new table -/
def cnfOrChild : F → Tbl → Option (List (List Int) × Int × Tbl)
  | .lit n d neg, t =>
    let (l, t') := litValue t (n, d) neg
    some ([], l, t')
  | .and gs, t =>
    let (d, t1) := dummy t
    match cnfAnd gs t1 with
    | none => none
    | some (c, t2) => some (c.map (fun cl => cl ++ [-(d : Int)]), (d : Int), t2)
  | _, _ => none               -- panic("unexpected or in or")
end

/-- `asCnf(f)`: clauses and `vars.all` -/
def asCnf (f : F) : Option (List (List Int) × Tbl) := cnfRec (nnf f) []

/-! ### `Dimacs` -/

/-- the harness name of problem variable `n`: the one-letter string `'a' + n` -/
def nameOf (n : Nat) : String := String.singleton (Char.ofNat (97 + n))

/-- insertion into a list sorted by name number (`sort.Strings` on one-letter names) -/
def insertByName (x : Nat × Nat) : List (Nat × Nat) → List (Nat × Nat)
  | [] => [x]
  | y :: ys => if x.1 ≤ y.1 then x :: y :: ys else y :: insertByName x ys

def sortByName : List (Nat × Nat) → List (Nat × Nat)
  | [] => []
  | x :: xs => insertByName x (sortByName xs)

/-- `(name, index)` of the non-dummy variables, sorted by name -/
def pbVars (t : Tbl) : List (Nat × Nat) :=
  sortByName ((t.filter (fun e => !e.1.2)).map (fun e => (e.1.1, e.2)))

def clauseLine (c : List Int) : String :=
  " ".intercalate (c.map toString) ++ " 0\n"

/-- the bytes written by `Dimacs` for a given `cnf` value -/
def dimacsOf (cs : List (List Int)) (t : Tbl) : String :=
  "p cnf " ++ toString t.length ++ " " ++ toString cs.length ++ "\n"
    ++ String.join ((pbVars t).map (fun p => "c " ++ nameOf p.1 ++ "=" ++ toString p.2 ++ "\n"))
    ++ String.join (cs.map clauseLine)

/-- `Dimacs(f, w)`: what is written on `w` (`none` = `panic`) -/
def dimacs (f : F) : Option String := (asCnf f).map (fun r => dimacsOf r.1 r.2)

end GS.Bf
