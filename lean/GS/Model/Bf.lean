import GS.Model.BfUnique
/-!
# GS.Model.Bf — mirror of package `bf` (`/repo/bf/bf.go`): `nnf`, `cnfRec`, `Dimacs`

Core-only. The node types, `Eval` and the builders are in `GS/Model/BfBase.lean`, `uniqueRec` in
`GS/Model/BfUnique.lean`. The maps `vars.all` / `vars.pb` become one association list in
insertion order (`pb` = the entries whose key is not a dummy created by `dummy()`).

`Unique(names...)` is the node `F.unique` (any number of names). `nnf` replaces it

* where it must hold (`unique.nnf()`), by `uniqueRec(u...).nnf()`: `uniqueSmall` up to 4 names,
  the grid encoding with `line-…` / `col-…` dummy variables above (integer grid dimensions
  `natDims`, dummy names `natName`);
* where it must not hold (`not.nnf`, case `unique`), by `u.negation().nnf()`: "none, or two of
  them", without any dummy variable.
-/
namespace GS.Bf
open GS.BfUnique

/-! ### spec formulas as Go formulas -/

/-- largest exactly-one group in positive position for which the op `bfdimacs` answers -/
def maxPosGroup : Nat := 16

mutual
/-- `supportedP neg g`: what the driver op `bfdimacs` answers for (it says `unsupported`
    otherwise). `neg` is the polarity of the position (`true` under an odd number of negations;
    both polarities occur inside `Eq` / `Xor`, the left of `Implies` is negated).
    A `unique` group in **negative** position is always supported (any number of names: no dummy
    variable). A group in **positive** position is supported up to `maxPosGroup` names: above 4
    names the mirror computes the dummy keys `natName` (numbers whose size doubles with every
    name of the group), which is exact but too slow for long groups. -/
def supportedP : Bool → SF → Bool
  | _, .var _ => true
  | _, .tt => true
  | _, .ff => true
  | b, .not f => supportedP (!b) f
  | b, .and fs => supportedAllP b fs
  | b, .or fs => supportedAllP b fs
  | b, .imp x y => supportedP (!b) x && supportedP b y
  | b, .iff x y => (supportedP (!b) x && supportedP b y) && (supportedP b x && supportedP (!b) y)
  | b, .xor x y => (supportedP (!b) x && supportedP (!b) y) && (supportedP b x && supportedP b y)
  | b, .unique ns => b || decide (ns.length ≤ maxPosGroup)
def supportedAllP : Bool → List SF → Bool
  | _, [] => true
  | b, f :: fs => supportedP b f && supportedAllP b fs
end

/-- the formulas `bfdimacs` answers for: every exactly-one group *in positive position* has at
    most `maxPosGroup` names (no restriction on the groups in negative position) -/
def supported (g : SF) : Bool := supportedP false g

mutual
/-- the Go formula the harness builds from a spec formula (`FNode.toGo`), for every spec formula -/
def ofSF : SF → F
  | .var n => pbVar n
  | .tt => .tt
  | .ff => .ff
  | .not f => .not (ofSF f)
  | .and fs => .and (ofSFs fs)
  | .or fs => .or (ofSFs fs)
  | .imp a b => implies (ofSF a) (ofSF b)
  | .iff a b => eq (ofSF a) (ofSF b)
  | .xor a b => xor (ofSF a) (ofSF b)
  | .unique ns => uniqueOf ns
def ofSFs : List SF → List F
  | [] => []
  | f :: fs => ofSF f :: ofSFs fs
end

/-! ### `nnf` -/

/-- the loop and the tail of `and.nnf`, run on the already normalised children `xs`;
    `acc` is the Go variable `res` -/
def andFold : List F → List F → F
  | [], acc => match acc with
      | [] => .tt                 -- "The empty conjunction is true"
      | [x] => x
      | xs => .and xs
  | .and gs :: rest, acc => andFold rest (acc ++ gs)
  | .tt :: rest, acc => andFold rest acc
  | .ff :: _, _ => .ff
  | g :: rest, acc => andFold rest (acc ++ [g])

/-- the loop and the tail of `or.nnf` -/
def orFold : List F → List F → F
  | [], acc => match acc with
      | [] => .ff                 -- "The empty disjunction is false"
      | [x] => x
      | xs => .or xs
  | .or gs :: rest, acc => orFold rest (acc ++ gs)
  | .ff :: rest, acc => orFold rest acc
  | .tt :: _, _ => .tt
  | g :: rest, acc => orFold rest (acc ++ [g])

mutual
/-- the recursion of `nnf` with the polarity as a parameter: `nnfPX X false f = f.nnf()`,
    `nnfPX X true f = not{f}.nnf()`, where `X b ks` is the result on a `unique` node (`X false`:
    `unique.nnf()`, `X true`: the case `unique` of `not.nnf`). Go normalises there *another*
    formula (`uniqueRec(u...)`, resp. `u.negation()`), which contains no `unique` node: the
    recursion is tied in two steps, `nnf0P` then `nnfP`. -/
def nnfPX (X : Bool → List Key → F) : Bool → F → F
  | false, .var n d => .lit n d false
  | true,  .var n d => .lit n d true
  | b, .lit n d neg => .lit n d (neg != b)
  | b, .not f => nnfPX X (!b) f
  | false, .and fs => andFold (nnfPsX X false fs) []
  | true,  .and fs => orFold (nnfPsX X true fs) []
  | false, .or fs => orFold (nnfPsX X false fs) []
  | true,  .or fs => andFold (nnfPsX X true fs) []
  | false, .tt => .tt
  | true,  .tt => .ff
  | false, .ff => .ff
  | true,  .ff => .tt
  | b, .unique ks => X b ks
def nnfPsX (X : Bool → List Key → F) : Bool → List F → List F
  | _, [] => []
  | b, f :: fs => nnfPX X b f :: nnfPsX X b fs
end

/-- `nnf` on the formulas without `unique` node (the value on such a node is never used) -/
def nnf0P : Bool → F → F := nnfPX (fun _ _ => .ff)

/-- `unique.nnf()` = `uniqueRec(u...).nnf()` (`b = false`) and the case `unique` of `not.nnf`,
    `f.negation().nnf()` (`b = true`) -/
def uniqueXD (dims : Nat → Nat × Nat) (b : Bool) (ks : List Key) : F :=
  nnf0P false (if b then negation ks else uniqueRec dims ks)
/-- with the integer grid dimensions `natDims` -/
def uniqueX : Bool → List Key → F := uniqueXD natDims

/-- `nnfP false f = f.nnf()`, `nnfP true f = not{f}.nnf()` -/
def nnfP : Bool → F → F := nnfPX uniqueX
def nnfPs : Bool → List F → List F := nnfPsX uniqueX

/-- `f.nnf()` -/
def nnf (f : F) : F := nnfP false f

/-! ### `vars`, `cnfRec`, `asCnf` -/

/-- `vars.all` in insertion order: `(variable, index)` -/
abbrev Tbl := List (Key × Nat)

/-- `vars.litValue(lit{v: k, signed: neg})`: the literal and the new table -/
def litValue (t : Tbl) (k : Key) (neg : Bool) : Int × Tbl :=
  match t.lookup k with
  | some v => (if neg then -(v : Int) else (v : Int), t)
  | none =>
    let v := t.length + 1
    (if neg then -(v : Int) else (v : Int), t ++ [(k, v)])

/-- `vars.dummy()`: the fresh index and the new table (the Go name `dummy-<val>` is the key
    `(2 * val, true)`: an even number, the `line-…` / `col-…` dummies of `uniqueRec` have an odd one) -/
def dummy (t : Tbl) : Nat × Tbl :=
  let v := t.length + 1
  (v, t ++ [((2 * v, true), v)])

mutual
/-- `cnfRec(f, vars)`: clauses and new table; `none` is a Go `panic` -/
def cnfRec : F → Tbl → Option (List (List Int) × Tbl)
  | .lit n d neg, t =>
    let (l, t') := litValue t (n, d) neg
    some ([[l]], t')
  | .and fs, t => cnfAnd fs t
  | .or fs, t =>
    match cnfOr fs t with
    | some (res, lits, t') => some (res ++ [lits], t')
    | none => none
  | .tt, t => some ([], t)
  | .ff, t => some ([[]], t)
  | .var _ _, _ => none        -- panic("invalid NNF formula")
  | .not _, _ => none          -- panic("invalid NNF formula")
  | .unique _, _ => none       -- panic("invalid NNF formula")
/-- the loop of the `and` case (also the inner loop over `sub2` in the `or` case) -/
def cnfAnd : List F → Tbl → Option (List (List Int) × Tbl)
  | [], t => some ([], t)
  | f :: fs, t =>
    match cnfRec f t with
    | none => none
    | some (c1, t1) =>
      match cnfAnd fs t1 with
      | none => none
      | some (c2, t2) => some (c1 ++ c2, t2)
/-- the loop of the `or` case: `(res, lits, vars)` -/
def cnfOr : List F → Tbl → Option (List (List Int) × List Int × Tbl)
  | [], t => some ([], [], t)
  | f :: fs, t =>
    match cnfOrChild f t with
    | none => none
    | some (c1, l, t1) =>
      match cnfOr fs t1 with
      | none => none
      | some (c2, ls, t2) => some (c1 ++ c2, l :: ls, t2)
/-- one iteration of the loop of the `or` case: clauses appended to `res`, literal appended
    to `lits`, new table -/
def cnfOrChild : F → Tbl → Option (List (List Int) × Int × Tbl)
  | .lit n d neg, t =>
    let (l, t') := litValue t (n, d) neg
    some ([], l, t')
  | .and gs, t =>
    let (d, t1) := dummy t
    match cnfAnd gs t1 with
    | none => none
    | some (c, t2) => some (c.map (fun cl => cl ++ [-(d : Int)]), (d : Int), t2)
  | _, _ => none               -- panic("unexpected or in or")
end

/-- `asCnf(f)`: clauses and `vars.all` -/
def asCnf (f : F) : Option (List (List Int) × Tbl) := cnfRec (nnf f) []

/-! ### `Dimacs` -/

/-- the harness name of problem variable `n`: the one-letter string `'a' + n` -/
def nameOf (n : Nat) : String := String.singleton (Char.ofNat (97 + n))

/-- insertion into a list sorted by name number (`sort.Strings` on one-letter names) -/
def insertByName (x : Nat × Nat) : List (Nat × Nat) → List (Nat × Nat)
  | [] => [x]
  | y :: ys => if x.1 ≤ y.1 then x :: y :: ys else y :: insertByName x ys

def sortByName : List (Nat × Nat) → List (Nat × Nat)
  | [] => []
  | x :: xs => insertByName x (sortByName xs)

/-- `(name, index)` of the non-dummy variables, sorted by name -/
def pbVars (t : Tbl) : List (Nat × Nat) :=
  sortByName ((t.filter (fun e => !e.1.2)).map (fun e => (e.1.1, e.2)))

def clauseLine (c : List Int) : String :=
  " ".intercalate (c.map toString) ++ " 0\n"

/-- the bytes written by `Dimacs` for a given `cnf` value -/
def dimacsOf (cs : List (List Int)) (t : Tbl) : String :=
  "p cnf " ++ toString t.length ++ " " ++ toString cs.length ++ "\n"
    ++ String.join ((pbVars t).map (fun p => "c " ++ nameOf p.1 ++ "=" ++ toString p.2 ++ "\n"))
    ++ String.join (cs.map clauseLine)

/-- `Dimacs(f, w)`: what is written on `w` (`none` = `panic`) -/
def dimacs (f : F) : Option String := (asCnf f).map (fun r => dimacsOf r.1 r.2)

end GS.Bf
