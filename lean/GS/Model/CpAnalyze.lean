import GS.Model.PbSet
import GS.Model.SimplifyPB
/-!
# GS.Model.CpAnalyze — mirror of `(*Solver).cuttingPlanes` of `solver/learn_pb.go`

The control flow that composes the `pbSet` arithmetic (`GS.Model.PbSet`) and `SimplifyPB`
(`GS.Model.SimplifyPB`): the walk back over the trail, the choice of the literal resolved on,
`pb.falsifies`, `onlyFalsified`, `backtrackLevel`, the levels read from `abs(s.model[v])`, the
final `SimplifyPB` and the choice between "top-level units" and "learned constraint + asserting
literal at `btLvl`". Core-only.

## Representation

* variables are 0-based positions (`varIdx l = |l| - 1`, Go `Lit.Var()`), literals DIMACS integers;
* a constraint (`*Clause`) is a `Lin` (`terms = (weight, literal)` in the order of `c.lits`,
  `degree = c.Cardinality()`); `pbOf n c` is `s.pbSet(c, buffer)` with `len(buffer) = nbVars = n`;
* the trail is a list of entries `(lit, level, reason)` in trail order, `level = abs(s.model[v])`
  and `reason = s.reason[v]` at entry (`none` = `nil`);
* `s.model` is a `List Int` of length `n` (0 unbound, `+lvl` true, `-lvl` false), derived from the
  trail at entry (`modelOfR`, later entries override earlier ones) and **carried explicitly through
  the loops**: Go zeroes `s.model[v]` of every literal it walks past (the trail itself is not
  truncated), and `onlyFalsified`, `roundToOne`, `backtrackLevel` and the final top-level test read
  that mutated model;
* the pointer `ptr` into the trail is represented by the reversed prefix `trail[0..ptr]`
  (head = `trail[ptr]`, `ptr-- ` = tail, `ptr = -1` = `[]`).

Things not mirrored because they do not influence the result: `seen`, `varBumpActivity`,
`clauseBumpActivity`.

## Where Go would fail (value `Result.stuck`)

* `.index` : `s.trail[ptr]` with `ptr = -1` (empty trail at the first `lit := s.trail[ptr]`, or the
  inner walk `for !pb.falsifies(lit)` running off the bottom of the trail because no remaining
  trail literal falsifies `pb`); also `newWeights[0]` on an empty slice in `SimplifyPB`
  (`SimpOut.panic`, proved unreachable elsewhere);
* `.divZero` : `roundToOne` on a variable whose weight is 0 (`wj % 0`) — for `pb` this cannot happen
  (the variable falsifies `pb`), for the reason `pb2` it happens iff the reason does not contain the
  variable it is the reason of;
* `.card` : `pb.clause()` calls `NewPBClause`, which panics (`"Invalid cardinality value"`) when
  `pb.card < 1`;
* `.fuel` : the outer `for` did not terminate within `2 * len(trail) + 2` iterations. Every
  iteration that resolves (reason ≠ nil) makes the weight of the trail literal 0 when the rounded
  reason has weight ∓1 there, and the next iteration then walks past it, so two iterations per trail
  entry suffice in that case; the iteration on a reason-less literal (`continue`) leaves `ptr`,
  `lvl`, the model and (from the second time on) `pb` unchanged, so if the loop condition still
  holds then, Go loops forever: this is the case exactly when more than one remaining trail literal
  of that level falsifies `pb` (a reason-less literal that is not the first of its level ≥ 2).
-/
namespace GS.Cp
open GS

/-- `Lit.Var()` of a DIMACS literal (0-based) -/
def varIdx (l : Int) : Nat := l.natAbs - 1

structure Entry where
  lit : Int
  level : Nat
  reason : Option Lin
deriving Repr, DecidableEq, Inhabited

structure State where
  /-- `s.nbVars` (length of `s.model`, `s.pbSetBuf`, `s.pbSetBuf2`) -/
  n : Nat
  /-- the `lvl` argument -/
  lvl : Int
  /-- the `confl` argument -/
  confl : Lin
  /-- `s.trail` with `abs(s.model[v])` and `s.reason[v]` of each literal -/
  trail : List Entry
deriving Repr, DecidableEq, Inhabited

/-- signed weight stored for a term: `w` for a positive literal, `-w` for a negative one -/
def signedW (t : Int × Int) : Int := if t.2 > 0 then t.1 else -t.1

/-- `s.pbSet(c, buffer)`: clear the buffer, then `weights[v] = ±w` term by term -/
def pbWeights (n : Nat) : List (Int × Int) → List Int
  | [] => List.replicate n 0
  | t :: ts => (pbWeights n ts).set (varIdx t.2) (signedW t)

/-- Go assigns in the order of the terms, so that for a repeated variable the *last* term wins;
    `pbWeights` recurses from the right, hence the reversal. -/
def pbOf (n : Nat) (c : Lin) : PbSet := ⟨pbWeights n c.terms.reverse, c.degree⟩

/-- signed level of a trail entry, as stored in `s.model` (`lvlToSignedLvl`) -/
def signedLvl (e : Entry) : Int := if e.lit > 0 then (e.level : Int) else -(e.level : Int)

/-- `s.model` from the reversed trail prefix (head = most recent literal, which wins) -/
def modelOfR (n : Nat) : List Entry → List Int
  | [] => List.replicate n 0
  | e :: rest => (modelOfR n rest).set (varIdx e.lit) (signedLvl e)

/-- `pb.falsifies(lit)` -/
def falsifies (ws : List Int) (lit : Int) : Bool :=
  let w := ws.getD (varIdx lit) 0
  if w = 0 then false else decide (w < 0) == decide (lit > 0)

/-- `pb.infeasible()` -/
def sumAbs : List Int → Int
  | [] => 0
  | w :: ws => iabs w + sumAbs ws

def infeasible (p : PbSet) : Bool := decide (sumAbs p.weights < p.card)

/-- `pb.onlyFalsified(s, ptr, lvl)`; `none` is Go's `-1`; `res` is the accumulator -/
def onlyFalsifiedAux (ws : List Int) (m : List Int) (lvl : Int) : Option Int → List Entry → Option Int
  | res, [] => res
  | res, e :: rest =>
    if iabs (modelAt m (varIdx e.lit)) ≠ lvl then res
    else if falsifies ws e.lit then
      (match res with
       | some _ => none
       | none => onlyFalsifiedAux ws m lvl (some e.lit) rest)
    else onlyFalsifiedAux ws m lvl res rest

def onlyFalsified (ws : List Int) (m : List Int) (rt : List Entry) (lvl : Int) : Option Int :=
  onlyFalsifiedAux ws m lvl none rt

/-- `pb.backtrackLevel(s, falsified)` -/
def backtrackAux (m : List Int) (v : Nat) (lvl : Int) : Nat → List Int → Int → Int
  | _, [], maxLvl => maxLvl
  | i, w :: ws, maxLvl =>
    if w = 0 ∨ i = v then backtrackAux m v lvl (i+1) ws maxLvl
    else
      let lvlI := iabs (modelAt m i)
      backtrackAux m v lvl (i+1) ws (if lvlI > maxLvl ∧ lvlI ≠ lvl then lvlI else maxLvl)

def backtrackLevel (ws : List Int) (m : List Int) (unit : Int) : Int :=
  backtrackAux m (varIdx unit) (iabs (modelAt m (varIdx unit))) 0 ws 1

/-- the inner loop `for !pb.falsifies(lit) { if reason == nil { lvl-- }; s.model[v] = 0; ptr--;
    lit = s.trail[ptr] }` including the initial `lit := s.trail[ptr]`; `none` = index out of
    range. Returns `(lvl, model, remaining reversed trail)`; the head of the remaining trail
    falsifies `pb`. (The decremented `lvl` is overwritten by the caller: dead code in Go.) -/
def walk (ws : List Int) : Int → List Int → List Entry → Option (Int × List Int × List Entry)
  | _, _, [] => none
  | lvl, m, e :: rest =>
    if falsifies ws e.lit then some (lvl, m, e :: rest)
    else walk ws (if e.reason.isNone then lvl - 1 else lvl) (m.set (varIdx e.lit) 0) rest

/-- `(*pbSet).clause()` before the sort of `NewPBClause`: the non-zero positions in increasing
    variable order (same function as `GS.PbSet.termsFrom` of the Props) -/
def clauseTerms : Nat → List Int → List (Int × Int)
  | _, [] => []
  | k, w :: ws =>
    if w = 0 then clauseTerms (k+1) ws
    else (iabs w, if w < 0 then -((k:Int)+1) else (k:Int)+1) :: clauseTerms (k+1) ws

/-- stable insertion sort by decreasing weight: what `sort.Sort(wl)` of `NewPBClause` does for at
    most 12 terms (Go's pdqsort uses insertion sort there). For longer lists Go's order among
    equal weights is unspecified; it only matters for which of several equal heaviest terms is
    saturated by `SimplifyPB` (see `tieSensitive`). -/
def insTerm (t : Int × Int) : List (Int × Int) → List (Int × Int)
  | [] => [t]
  | u :: us => if t.1 ≥ u.1 then t :: u :: us else u :: insTerm t us

def sortTerms (ts : List (Int × Int)) : List (Int × Int) := ts.foldr insTerm []

inductive Stuck where
  | index | divZero | card | fuel
deriving Repr, DecidableEq, Inhabited

inductive Result where
  /-- `newLvl = -1` -/
  | unsat
  /-- `return nil, propagated, 1` -/
  | units (ls : List Int)
  /-- `return learned, []Lit{unit}, btLvl` with `learned ≠ nil`, as `(terms, degree)` (before the
      re-sort of the final `NewPBClause`) -/
  | learned (c : List (Int × Int) × Int) (unit : Int) (btLvl : Nat)
  /-- `return nil, []Lit{unit}, btLvl`: `SimplifyPB` returned no remainder and every unit is
      already true at level 1 (the caller then dereferences the nil constraint unless `btLvl = 1`) -/
  | learnedNil (unit : Int) (btLvl : Nat)
  /-- Go panics or does not terminate -/
  | stuck (why : Stuck)
deriving Repr, DecidableEq, Inhabited

structure Out where
  res : Result
  /-- `pb` just before `pb.clause().SimplifyPB()` (after the last `roundToOne`) -/
  raw : Option PbSet
deriving Repr, DecidableEq, Inhabited

/-- `s.litStatus(lit) == Sat` -/
def litSat (m : List Int) (l : Int) : Bool :=
  let a := modelAt m (varIdx l)
  a ≠ 0 && (decide (a > 0) == decide (l > 0))

/-- the test `abs(s.model[lit.Var()]) != 1 || s.litStatus(lit) != Sat` -/
def newFact (m : List Int) (l : Int) : Bool :=
  iabs (modelAt m (varIdx l)) ≠ 1 || !litSat m l

/-- everything after the outer loop; `l` is the result of the last `onlyFalsified` -/
def finish (pb : PbSet) (m : List Int) (l : Int) : Out :=
  let unit := -l
  let btLvl := backtrackLevel pb.weights m unit
  match pb.roundToOne m (varIdx unit) with
  | none => ⟨.stuck .divZero, none⟩
  | some pbF =>
    if pbF.card < 1 then ⟨.stuck .card, some pbF⟩
    else
      match simplifyTerms (sortTerms (clauseTerms 0 pbF.weights)) pbF.card with
      | .unsat => ⟨.unsat, some pbF⟩
      | .panic => ⟨.stuck .index, some pbF⟩
      | .done units rest =>
        if units.any (newFact m) then ⟨.units units, some pbF⟩
        else match rest with
          | some c => ⟨.learned c unit btLvl.toNat, some pbF⟩
          | none => ⟨.learnedNil unit btLvl.toNat, some pbF⟩

/-- outcome of one evaluation of the loop condition plus (when it holds) one loop body -/
inductive Step where
  | done (o : Out)
  | next (pb : PbSet) (lvl : Int) (m : List Int) (rt : List Entry)
deriving Repr, DecidableEq, Inhabited

/-- one iteration of `for pb.onlyFalsified(s, ptr, lvl) < 0 { … }`: the loop test (when it fails:
    everything after the loop, `finish`), then the body -/
def step (n : Nat) (pb : PbSet) (lvl : Int) (m : List Int) (rt : List Entry) : Step :=
  match onlyFalsified pb.weights m rt lvl with
  | some l => .done (finish pb m l)
  | none =>
    if lvl = 1 then .done ⟨.unsat, none⟩
    else if infeasible pb then .done ⟨.unsat, none⟩
    else
      match walk pb.weights lvl m rt with
      | none => .done ⟨.stuck .index, none⟩
      | some (_, _, []) => .done ⟨.stuck .index, none⟩
      | some (_, m', e :: rest) =>
        let v := varIdx e.lit
        let lvl' := iabs (modelAt m' v)
        match pb.roundToOne m' v with
        | none => .done ⟨.stuck .divZero, none⟩
        | some pb1 =>
          match e.reason with
          | none => .next pb1 lvl' m' (e :: rest)
          | some r =>
            match (pbOf n r).roundToOne m' v with
            | none => .done ⟨.stuck .divZero, none⟩
            | some pb2 => .next (pb1.clash pb2) lvl' m' (e :: rest)

/-- the outer loop followed by `finish` -/
def loop (n : Nat) : Nat → PbSet → Int → List Int → List Entry → Out
  | 0, _, _, _, _ => ⟨.stuck .fuel, none⟩
  | fuel+1, pb, lvl, m, rt =>
    match step n pb lvl m rt with
    | .done o => o
    | .next pb' lvl' m' rt' => loop n fuel pb' lvl' m' rt'

def fuelOf (s : State) : Nat := 2 * s.trail.length + 2

/-- `s.cuttingPlanes(confl, lvl)` -/
def cpAnalyze (s : State) : Out :=
  loop s.n (fuelOf s) (pbOf s.n s.confl) s.lvl (modelOfR s.n s.trail.reverse) s.trail.reverse

/-- `true` when the answer of Go may differ from the mirror in *which* of several equal heaviest
    remaining terms has its weight saturated: more than 12 terms (unstable sort), and after the
    units the two first remaining terms have the same weight, larger than the remaining degree. -/
def tieSensitive (p : PbSet) : Bool :=
  let ts := sortTerms (clauseTerms 0 p.weights)
  let r := takeUnits (weightSum ts - p.card) ts p.card
  decide (ts.length > 12) &&
    (match r.2.2 with
     | t :: u :: _ => decide (t.1 = u.1) && decide (t.1 > r.2.1)
     | _ => false)

/-! ## The executable trail invariant -/

/-- total weight of the literals not falsified by `m`, positions selected by `excl` left out
    (same function as `GS.freeSum` of the Props, which is stated with `Prop`s) -/
def freeSumB (m : List Int) (excl : Nat → Bool) : Nat → List Int → Int
  | _, [] => 0
  | j, w :: ws =>
    (if excl j = false ∧ (modelAt m j = 0 ∨ (decide (modelAt m j > 0) = decide (w > 0))) then iabs w else 0)
      + freeSumB m excl (j+1) ws

def litOkB (n : Nat) (l : Int) : Bool := l ≠ 0 && decide (varIdx l < n)

/-- the unit constraint `l ≥ 1` as a `pbSet` -/
def unitPb (n : Nat) (l : Int) : PbSet := ⟨(List.replicate n 0).set (varIdx l) (if l > 0 then 1 else -1), 1⟩

/-- one trail entry `e` above the (reversed) earlier trail `rest` -/
def entryOk (n : Nat) (prob : List PbSet) (e : Entry) (rest : List Entry) : Bool :=
  litOkB n e.lit
  && rest.all (fun e' => varIdx e'.lit != varIdx e.lit)
  && decide (1 ≤ e.level)
  && rest.all (fun e' => decide (e'.level ≤ e.level))
  && (match e.reason with
      | none => e.level != 1 || prob.contains (unitPb n e.lit)
      | some r =>
        prob.contains (pbOf n r)
        && (let w := (pbOf n r).weights.getD (varIdx e.lit) 0
            w ≠ 0 && (decide (w > 0) == decide (e.lit > 0)))
        && decide (freeSumB (modelOfR n rest) (fun i => i == varIdx e.lit) 0 (pbOf n r).weights < r.degree))

def trailOk (n : Nat) (prob : List PbSet) : List Entry → Bool
  | [] => true
  | e :: rest => entryOk n prob e rest && trailOk n prob rest

/-- reason-less literals above level 1 are decisions: the first literal of their level -/
def decisionsOk : List Entry → Bool
  | [] => true
  | e :: rest =>
    (if e.reason.isNone ∧ e.level ≠ 1 then rest.all (fun e' => decide (e'.level < e.level)) else true)
    && decisionsOk rest

def conflOk (prob : List PbSet) (s : State) : Bool :=
  prob.contains (pbOf s.n s.confl)
  && decide (freeSumB (modelOfR s.n s.trail.reverse) (fun _ => false) 0 (pbOf s.n s.confl).weights < s.confl.degree)

def lvlOk (s : State) : Bool := s.trail.all (fun e => decide ((e.level : Int) ≤ s.lvl))

def widthOk (prob : List PbSet) (s : State) : Bool := prob.all (fun p => p.weights.length == s.n)

/-- the invariant under which `cpAnalyze` is proved sound -/
def cpInv (prob : List PbSet) (s : State) : Bool :=
  widthOk prob s && trailOk s.n prob s.trail.reverse && conflOk prob s && lvlOk s

/-! ## Executable forms of the asserting / progress properties (checked on real runs by the driver) -/

/-- the model after `cleanupBindings(btLvl)`: the trail literals of level ≤ `btLvl` -/
def modelUpTo (n : Nat) (bt : Nat) (trail : List Entry) : List Int :=
  modelOfR n (trail.filter (fun e => decide (e.level ≤ bt))).reverse

/-- in the `learned c unit btLvl` case: after backjumping to `btLvl`, `unit` is unbound, occurs in
    `c` with its own sign, and the literals of `c` not falsified, `unit` left out, weigh less than
    the degree (so `c` propagates `unit`, or is conflicting, at `btLvl`) -/
def assertingOk (s : State) : Bool :=
  match (cpAnalyze s).res with
  | .learned c u b =>
    let m := modelUpTo s.n b s.trail
    let p := pbOf s.n ⟨c.1, c.2⟩
    let w := p.weights.getD (varIdx u) 0
    decide (modelAt m (varIdx u) = 0) && (w ≠ 0 && (decide (w > 0) == decide (u > 0)))
      && decide (freeSumB m (fun i => i == varIdx u) 0 p.weights < c.2)
  | _ => true

/-- in the `units ls` case: one of the units is not already true at level 1 *in the model at entry*
    (the code tests this on the model after the walk, in which passed literals are unbound) -/
def progressOk (s : State) : Bool :=
  match (cpAnalyze s).res with
  | .units ls => ls.any (newFact (modelOfR s.n s.trail.reverse))
  | _ => true

end GS.Cp
