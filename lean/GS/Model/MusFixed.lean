import GS.Model.Mus
/-!
# Mirror of the repaired `MUSMaxSat` (`explain/mus.go`, after "fix: MUSMaxSat returns a
non-minimal set when the problem has several MUSes")

When the accumulated hard clauses become unsatisfiable (`cost == -1`) the Go function now returns

    makeMus(nbVars, musClauses).MUSDeletion()

instead of `makeMus(nbVars, musClauses)`: the clauses gathered by the MaxSat rounds
(`GS.Mus.maxsatStrategy`, unchanged) are handed to the deletion algorithm (`GS.Mus.deletion`).
The error of the satisfiable case (`cost == 0`) and the errors of `MUSDeletion` are both `none`.

`maxsatFixedWith` is the same over an arbitrary `UnsatSubset` (`sub`, the first step of
`MUSDeletion`); `maxsatFixed` takes the brute-force oracles (`sub` = identity on unsatisfiable
inputs).
-/
namespace GS.Mus

/-- The repaired `MUSMaxSat` over the brute-force MaxSat / SAT oracles and an arbitrary
`UnsatSubset`. -/
def maxsatFixedWith (n : Nat) (sub : List (List Int) → Option (List (List Int)))
    (cs : List (List Int)) : Option (List (List Int)) :=
  (maxsatStrategy n cs).bind (deletionWith (bruteCnfSat n) sub)

/-- The repaired `MUSMaxSat` with the brute-force oracles. -/
def maxsatFixed (n : Nat) (cs : List (List Int)) : Option (List (List Int)) :=
  (maxsatStrategy n cs).bind (deletionBrute n)

end GS.Mus
