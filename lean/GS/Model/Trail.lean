import GS.Model.Analyze
/-!
# GS.Model.Trail — abstract machine of the operations by which the CDCL loop changes the trail

The state analysed by `GS.Model.Analyze` is a list of `Entry` (literal, level, assumed flag,
literals of the antecedent) plus the current decision level.  This file gives the operations by
which `/repo/solver/solver.go` (`propagateAndSearch`, `cleanupBindings`, `New`, `Assume`,
`propagateUnits`) and `/repo/solver/watcher.go` (`unifyLiteral`, `propagate`, `propagateUnit`)
change that state, as a partial step function with executable guards.  Core-only.

Levels are the Go levels: `1` is the top level (facts, assumptions, learned units, and whatever
unit propagation derives from them), decisions start at level `2` (`search`: `lvl := decLevel(2)`).

| operation | Go statements |
|---|---|
| `decide l` | `propagateAndSearch`: `lvl++; lit = s.chooseLit()` followed at the next iteration by the first two lines of `unifyLiteral(lit, lvl)`: `s.model[v] = ±lvl; s.trail = append(s.trail, lit)` (`s.reason[v]` is `nil`: cleared by the `cleanupBindings` that unbound `v`, or never set).  Also `search`: `propagateAndSearch(s.chooseLit(), 2)` from level 1, and after a learned unit `lvl = 2; lit = s.chooseLit()`. |
| `propagate l c` | `propagate`: binary watch `s.reason[v2] = w.clause; s.model[v2] = ±lvl; s.trail = append(…, w.other)` when `model[v2] == 0`; `simplifyPropClauses` → `propagateUnit(c, lvl, c.First())` reached only when `c.Get(1) = ¬lit` is false, every `c.Get(k)`, `k ≥ 2`, is `Unsat` and `c.First()` is neither `Sat` nor `Unsat`. |
| `backjump k` | `cleanupBindings(k)`: `i` = length of the longest prefix of the trail with `abs(model[var]) ≤ k`; `model`/`reason` of the variables beyond are cleared; `s.trail = s.trail[:i]`; the caller continues at level `k` (restart: `cleanupBindings(1)`; learned clause: `cleanupBindings(btLevel)`; learned unit, `propagateUnits`, `AppendClause`: `cleanupBindings(1)`). |
| `assertLearned l c k` | `propagateAndSearch`, learned-clause branch: `lvl, lit = backtrackData(learnt, s.model); s.cleanupBindings(lvl); s.reason[lit.Var()] = learnt` then, at the next iteration, `unifyLiteral(lit, lvl)`'s two assignments. |
| `addFact l` | `propagateAndSearch`, learned-unit branch after `cleanupBindings(1)`: `addLearnedUnit(unit); s.model[v] = ±1; unifyLiteral(unit, 1)`; `propagateUnits` (`AppendClause` of a unit constraint) after `cleanupBindings(1)` when `litStatus(unit) == Indet`; `Assume`: the loop re-installing `s.facts` (`case Indet`). |
| `assume l` | `Assume`: `s.addLearnedUnit(lit); s.assumptions[v] = true; s.trail = append(s.trail, lit)` when `litStatus(lit) == Indet`. |
| `init units` | `New`: `trail = problem.Units` in order, `model[v] = ±1`, no antecedent — **without** testing whether the variable is already bound (`parseSlice` appends every one-literal line to `pb.Units`, repeated lines included). |
-/
namespace GS.Trail
open GS.Analyze

/-- Machine state: the current decision level and the trail (oldest entry first), each entry
    carrying what `model`, `assumptions`, `reason` hold for its variable. -/
structure State where
  lvl : Nat
  es : List Entry
deriving Repr, DecidableEq, Inhabited

/-- The snapshot `learnClause` is run on when `confl` is found falsified in this state. -/
def State.toSt (s : State) (confl : List Int) : St :=
  { lvl := s.lvl, confl := ⟨confl⟩,
    trail := s.es.map (fun e => (e.lit, e.lvl, e.assumed)),
    reasons := s.es.map (fun e => e.reason) }

inductive Op where
  | decide (l : Int)
  | propagate (l : Int) (c : List Int)
  | backjump (lvl : Nat)
  | assertLearned (l : Int) (c : List Int) (lvl : Nat)
  | addFact (l : Int)
  | assume (l : Int)
deriving Repr, DecidableEq, Inhabited

/-- `s.model[l.Var()] == 0`: no trail entry over the variable of `l`. -/
def unbound (es : List Entry) (l : Int) : Bool := es.all (fun e => e.var != l.natAbs)

/-- `c` has become unit on `l`: `l` occurs in `c` and every other literal of `c` is false. -/
def isUnit (es : List Entry) (l : Int) (c : List Int) : Bool :=
  c.contains l && c.all (fun f => f == l || isFalse es f)

/-- `unifyLiteral`'s two assignments / `propagateUnit`: bind and push. -/
def push (s : State) (l : Int) (lvl : Nat) (assumed : Bool) (r : Option (List Int)) : State :=
  { lvl := lvl, es := s.es ++ [⟨l, lvl, assumed, r⟩] }

def decideOp (s : State) (l : Int) : Option State :=
  if l != 0 && unbound s.es l then some (push s l (s.lvl + 1) false none) else none

def propagateOp (s : State) (l : Int) (c : List Int) : Option State :=
  if l != 0 && unbound s.es l && isUnit s.es l c then some (push s l s.lvl false (some c)) else none

/-- `cleanupBindings(k)`: the trail is cut at the first entry of level `> k`. -/
def backjumpOp (s : State) (k : Nat) : Option State :=
  if decide (1 ≤ k) && decide (k ≤ s.lvl) then
    some { lvl := k, es := s.es.takeWhile (fun e => decide (e.lvl ≤ k)) }
  else none

def assertLearnedOp (s : State) (l : Int) (c : List Int) (k : Nat) : Option State :=
  match backjumpOp s k with
  | some s' => propagateOp s' l c
  | none => none

def addFactOp (s : State) (l : Int) : Option State :=
  if l != 0 && unbound s.es l && s.lvl == 1 then some (push s l 1 false none) else none

def assumeOp (s : State) (l : Int) : Option State :=
  if l != 0 && unbound s.es l && s.lvl == 1 then some (push s l 1 true none) else none

/-- One operation; `none` when its guard fails. -/
def step (s : State) : Op → Option State
  | .decide l => decideOp s l
  | .propagate l c => propagateOp s l c
  | .backjump k => backjumpOp s k
  | .assertLearned l c k => assertLearnedOp s l c k
  | .addFact l => addFactOp s l
  | .assume l => assumeOp s l

def run (s : State) : List Op → Option State
  | [] => some s
  | o :: os =>
    match step s o with
    | some s' => run s' os
    | none => none

/-- Empty trail at the top level. -/
def empty : State := { lvl := 1, es := [] }

/-- `New`: the problem's unit literals at level 1, in order, as they are (no test of the binding). -/
def init (units : List Int) : State :=
  { lvl := 1, es := units.map (fun u => ⟨u, 1, false, none⟩) }

/-- Guard under which `init units` is a trail: non-zero literals over pairwise distinct variables. -/
def unitsOk (units : List Int) : Bool :=
  units.all (fun u => u != 0) && noDupVars (init units).es

/-- A clause falsified at the current level, in the shape `learnClause` expects: every literal
    false, no literal repeated, one of them bound at the current level. -/
def falsified (s : State) (confl : List Int) : Bool :=
  confl.all (isFalse s.es) && decide (confl.Pairwise (· ≠ ·)) &&
    confl.any (fun l => lvOf s.es l.natAbs == s.lvl)

/-- Trail literals without antecedent, by kind. -/
def decisions (s : State) : List Int :=
  (s.es.filter (fun e => e.reason.isNone && !e.assumed && decide (2 ≤ e.lvl))).map (·.lit)

def facts (s : State) : List Int :=
  (s.es.filter (fun e => e.reason.isNone && !e.assumed && decide (e.lvl ≤ 1))).map (·.lit)

def assumptions (s : State) : List Int :=
  (s.es.filter (fun e => e.reason.isNone && e.assumed)).map (·.lit)

/-- The clauses used as antecedents. -/
def reasonClauses (s : State) : List (List Int) := s.es.filterMap (·.reason)

/-- The clause an operation installs as antecedent, or the fact it adds (as a unit clause). -/
def opClause : Op → Option (List Int)
  | .propagate _ c => some c
  | .assertLearned _ c _ => some c
  | .addFact l => some [l]
  | _ => none

/-- Every antecedent installed and every fact added by `ops` is a member of `db`. -/
def opsFrom (db : List (List Int)) (ops : List Op) : Bool :=
  ops.all (fun o => match opClause o with | some c => db.contains c | none => true)

/-- Executable form of the inductive invariant (`GS.Trail.Inv`): the three checks of
    `GS.Model.Analyze`, the decision check at every level `2 … lvl`, levels `≥ 1`. -/
def invB (s : State) : Bool :=
  trailInv s.es s.lvl && reasonsCnf s.es &&
  (List.range (s.lvl + 1)).all (fun k => decide (k < 2) || decisionsOk s.es k) &&
  decide (1 ≤ s.lvl) && s.es.all (fun e => decide (1 ≤ e.lvl))

end GS.Trail
