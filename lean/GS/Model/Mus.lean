import GS.Spec.Basic
import GS.Check.Brute
/-!
# Mirrors of the MUS extraction loops of `explain/mus.go`

The three extraction strategies call a SAT (or MaxSat) solver on sub-problems of the input.
The loops are modelled over an abstract satisfiability oracle

    sat : List (List Int) → Bool

whose contract (`sat f = true ↔ GS.CnfSat f`, what properties C01/C09/C10 give for the real
solver, with and without assumptions / appended clauses) is an explicit hypothesis of the
theorems of `GS/Props/C07_Mus.lean`. An executable instance is `GS.bruteCnfSat n`.

Everything here is a pure function on immutable lists: "the caller's problem is left
unchanged" is structural in the model (see the remark at the end of `GS/Props/C07_Mus.lean`).

Correspondence with the Go code (`/repo/explain/mus.go`, `/repo/explain/check.go`):

* `UnsatSubset` (check.go:117) returns, in input order, the clauses tagged by the RUP checker:
  an order-preserving sub-list of `pb.Clauses` that is unsatisfiable, or `ErrNotUnsat`.
  It is a parameter `sub` of `deletionWith` / `insertionWith`; `deletion` / `insertion` take the
  identity-on-unsatisfiable-inputs instance `unsatSubsetId`.
* `MUSDeletion` (mus.go:155): clause `i` carries relax literal `NbVars+i+1`; the assumption
  vector says which clauses are active. Before iteration `i` the active clauses are
  `kept ++ (c :: rest)` (`kept` = the clauses among the first `i` that were re-inserted).
  Iteration `i` relaxes `c` and solves `kept ++ rest`: `Sat` → re-insert (`kept ++ [c]`),
  otherwise leave relaxed. The result is the list of clauses whose assumption is still negative,
  in input order: `kept` at the end. This is `delLoop`.
* `MUSInsertion` (mus.go:107): `insLoop` is the outer `for`, `addUntil` the inner
  `for st == solver.Sat`. `clauses[idx]` with `idx = len(clauses)` is an index-out-of-range
  panic: `addUntil … [] = none`.
* `MUSMaxSat` (mus.go:15): `maxsatLoop`, with a brute-force optimal model standing for
  `s.Minimize(); s.Model()`.
-/
namespace GS.Mus

/-! ### UnsatSubset -/

/-- `UnsatSubset` modelled as the identity on unsatisfiable inputs, `ErrNotUnsat` otherwise. -/
def unsatSubsetId (sat : List (List Int) → Bool) (cs : List (List Int)) : Option (List (List Int)) :=
  if sat cs then none else some cs

/-! ### MUSDeletion -/

/-- The `for i := range pb2.Clauses` loop of `MUSDeletion`.
`kept`: clauses already examined whose relax literal is (again) assumed false;
the list argument: clauses not yet examined. -/
def delLoop (sat : List (List Int) → Bool) (kept : List (List Int)) :
    List (List Int) → List (List Int)
  | [] => kept
  | c :: rest =>
    if sat (kept ++ rest) then delLoop sat (kept ++ [c]) rest   -- Sat: re-insert the clause
    else delLoop sat kept rest                                   -- Unsat: it stays relaxed

/-- `MUSDeletion` over an arbitrary `UnsatSubset`. -/
def deletionWith (sat : List (List Int) → Bool)
    (sub : List (List Int) → Option (List (List Int))) (cs : List (List Int)) :
    Option (List (List Int)) :=
  match sub cs with
  | none => none                          -- `return nil, err`
  | some s => some (delLoop sat [] s)

/-- `MUSDeletion` (= `MUS`). -/
def deletion (sat : List (List Int) → Bool) (cs : List (List Int)) : Option (List (List Int)) :=
  deletionWith sat (unsatSubsetId sat) cs

/-- `MUS` is `MUSDeletion` (mus.go:211). -/
def mus (sat : List (List Int) → Bool) (cs : List (List Int)) : Option (List (List Int)) :=
  deletion sat cs

/-! ### MUSInsertion -/

/-- The inner loop `for st == solver.Sat { s.AppendClause(clauses[idx]); idx++; st = s.Solve() }`.
The solver holds `mus ++ added`; returns `(clauses[:idx], clauses[idx])` for the final
(decremented) `idx`; `none` is the index-out-of-range panic. -/
def addUntil (sat : List (List Int) → Bool) (mus added : List (List Int)) :
    List (List Int) → Option (List (List Int) × List Int)
  | [] => none
  | c :: rest =>
    if sat (mus ++ added ++ [c]) then addUntil sat mus (added ++ [c]) rest
    else some (added, c)

/-- The outer `for` loop of `MUSInsertion` (fuel-bounded; `none` = out of fuel or panic). -/
def insLoop (sat : List (List Int) → Bool) :
    Nat → List (List Int) → List (List Int) → Option (List (List Int))
  | 0, _, _ => none
  | fuel + 1, mus, cands =>
    if sat mus then
      match addUntil sat mus [] cands with
      | none => none
      | some (before, c) => insLoop sat fuel (mus ++ [c]) before
    else some mus                         -- `st == solver.Unsat`: found the MUS

/-- `MUSInsertion` over an arbitrary `UnsatSubset`. The fuel `|s| + 1` suffices
(`GS.Mus.insLoop_spec`): every iteration strictly shortens the candidate list. -/
def insertionWith (sat : List (List Int) → Bool)
    (sub : List (List Int) → Option (List (List Int))) (cs : List (List Int)) :
    Option (List (List Int)) :=
  match sub cs with
  | none => none
  | some s => insLoop sat (s.length + 1) [] s

/-- `MUSInsertion`. -/
def insertion (sat : List (List Int) → Bool) (cs : List (List Int)) : Option (List (List Int)) :=
  insertionWith sat (unsatSubsetId sat) cs

/-! ### MUSMaxSat (tiny executable mirror; known to be non-minimal)

`s.Minimize()` with unit weights on the relax literals: the minimal number of not-yet-`done`
clauses falsified by a model of the `done` (hard) clauses. The brute-force stand-in takes the
first optimal assignment in the enumeration order of `GS.leaves n`. -/

/-- State: every input clause with its `done` flag. -/
abbrev MState := List (List Int × Bool)

def hardOf (st : MState) : List (List Int) := (st.filter (fun p => p.2)).map (fun p => p.1)

/-- Number of true relax literals in an optimal extension of `a`. -/
def costOf (a : Asg) (st : MState) : Nat :=
  (st.filter (fun p => !p.2 && !clauseTrue a p.1)).length

def argmin (f : List Bool → Nat) : List (List Bool) → Option (List Bool)
  | [] => none
  | b :: bs =>
    match argmin f bs with
    | none => some b
    | some b' => if f b ≤ f b' then some b else some b'

/-- `s.Minimize(); s.Model()`: `none` when the hard clauses are unsatisfiable (`cost == -1`). -/
def optModel (n : Nat) (st : MState) : Option (List Bool) :=
  argmin (fun bs => costOf (asgOf bs) st)
    ((leaves n).filter (fun bs => cnfTrue (asgOf bs) (hardOf st)))

/-- One pass of `for i, clause := range pb.Clauses`: the not-`done` clauses falsified by the
model become `done` and are appended (in index order) to `musClauses`. -/
def markFalsified (a : Asg) : MState → MState × List (List Int)
  | [] => ([], [])
  | (c, d) :: rest =>
    let r := markFalsified a rest
    if !d && !clauseTrue a c then ((c, true) :: r.1, c :: r.2) else ((c, d) :: r.1, r.2)

/-- The `for` loop of `MUSMaxSat`. -/
def maxsatLoop (n : Nat) : Nat → MState → List (List Int) → Option (List (List Int))
  | 0, _, _ => none
  | fuel + 1, st, musClauses =>
    match optModel n st with
    | none => some musClauses                       -- cost == -1
    | some bs =>
      if costOf (asgOf bs) st = 0 then none         -- "cannot extract MUS from satisfiable problem"
      else
        let r := markFalsified (asgOf bs) st
        maxsatLoop n fuel r.1 (musClauses ++ r.2)

def maxsatStrategy (n : Nat) (cs : List (List Int)) : Option (List (List Int)) :=
  maxsatLoop n (cs.length + 1) (cs.map (fun c => (c, false))) []

/-! ### Executable instances -/

def deletionBrute (n : Nat) := deletion (bruteCnfSat n)
def insertionBrute (n : Nat) := insertion (bruteCnfSat n)

end GS.Mus
