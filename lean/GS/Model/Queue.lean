/-!
# GS.Model.Queue — mirror of the variable order heap (`/repo/solver/queue.go`)

Line-by-line mirror of `struct queue` (`activity`, `content`, `indices`) and of its users in
`/repo/solver/solver.go` (`chooseLit`, the re-insertion loop of `cleanupBindings`,
`rebuildOrderHeap`, the queue part of `varBumpActivity`).

* Activities are `float64` in Go; the mirror uses `Int` (the differential tie only uses activities
  that are exactly representable, so `>` agrees).
* `content : List Nat` (the Go code only ever stores variable numbers `≥ 0`; a negative index
  panics in Go before anything is stored), `indices : List Int` (`-1` = absent).
* Every slice access out of range (a Go panic) is `none`. A panicking Go call leaves a
  half-updated queue behind; the mirror does not model that state (the driver op stops at the
  first panic).
* Loops are fuel-bounded structural recursions; `GS/Props/C01_Queue.lean` proves that the fuel
  given by the callers suffices (`upLoop_fuel`, `downLoop_fuel`, `chooseLoop_fuel`).

This file is core-only (it is linked into the driver).
-/
namespace GS.Queue

structure Q where
  activity : List Int
  content  : List Nat
  indices  : List Int
deriving Repr, DecidableEq

/-- `func (q *queue) lt(i, j int) bool { return q.activity[i] > q.activity[j] }` -/
def lt (q : Q) (i j : Nat) : Option Bool :=
  match q.activity[i]?, q.activity[j]? with
  | some a, some b => some (decide (a > b))
  | _, _ => none

/-- The two lines `q.content[i] = q.content[j]; q.indices[q.content[j]] = i` of both percolate loops. -/
def move (q : Q) (i j : Nat) : Option Q :=
  match q.content[j]? with
  | none => none
  | some c =>
    if i < q.content.length ∧ c < q.indices.length then
      some { q with content := q.content.set i c, indices := q.indices.set c (i : Int) }
    else none

/-- The two final lines `q.content[i] = x; q.indices[x] = i` of both percolate functions. -/
def place (q : Q) (i x : Nat) : Option Q :=
  if i < q.content.length ∧ x < q.indices.length then
    some { q with content := q.content.set i x, indices := q.indices.set x (i : Int) }
  else none

/-- Loop of `percolateUp` (`p` is recomputed from `i`: `parent(i) = (i-1)>>1`, only used when `i ≠ 0`).
    Fuel `i` suffices (`upLoop_fuel`). -/
def upLoop : Nat → Q → Nat → Nat → Option Q
  | 0, q, x, i => place q i x
  | f+1, q, x, i =>
    if i = 0 then place q i x else
    match q.content[(i - 1) / 2]? with
    | none => none
    | some cp =>
      match lt q x cp with
      | none => none
      | some false => place q i x
      | some true =>
        match move q i ((i - 1) / 2) with
        | none => none
        | some q' => upLoop f q' x ((i - 1) / 2)

def percolateUp (q : Q) (i : Nat) : Option Q :=
  match q.content[i]? with
  | none => none
  | some x => upLoop i q x i

/-- The child selection of `percolateDown` (only called when `left(i) < len(content)`). -/
def pickChild (q : Q) (i : Nat) : Option Nat :=
  if 2 * i + 2 < q.content.length then
    match q.content[2 * i + 2]?, q.content[2 * i + 1]? with
    | some r, some l =>
      match lt q r l with
      | none => none
      | some b => some (if b then 2 * i + 2 else 2 * i + 1)
    | _, _ => none
  else some (2 * i + 1)

/-- Loop of `percolateDown`. Fuel `len(content) - i` suffices (`downLoop_fuel`). -/
def downLoop : Nat → Q → Nat → Nat → Option Q
  | 0, q, x, i => place q i x
  | f+1, q, x, i =>
    if 2 * i + 1 < q.content.length then
      match pickChild q i with
      | none => none
      | some child =>
        match q.content[child]? with
        | none => none
        | some cc =>
          match lt q cc x with
          | none => none
          | some false => place q i x
          | some true =>
            match move q i child with
            | none => none
            | some q' => downLoop f q' x child
    else place q i x

def percolateDown (q : Q) (i : Nat) : Option Q :=
  match q.content[i]? with
  | none => none
  | some x => downLoop (q.content.length - i) q x i

/-- `func (q *queue) empty() bool` -/
def empty (q : Q) : Bool := q.content.isEmpty

/-- `func (q *queue) contains(n int) bool { return n < len(q.indices) && q.indices[n] >= 0 }` (for `n ≥ 0`). -/
def contains (q : Q) (n : Nat) : Bool :=
  match q.indices[n]? with
  | some k => decide (0 ≤ k)
  | none => false

/-- `func (q *queue) decrease(n int) { q.percolateUp(q.indices[n]) }` -/
def decrease (q : Q) (n : Nat) : Option Q :=
  match q.indices[n]? with
  | none => none
  | some k => if k < 0 then none else percolateUp q k.toNat

/-- `for i := len(q.indices); i <= n; i++ { q.indices = append(q.indices, -1) }` -/
def grow (ind : List Int) (n : Nat) : List Int := ind ++ List.replicate (n + 1 - ind.length) (-1)

/-- `func (q *queue) insert(n int)` -/
def insert (q : Q) (n : Nat) : Option Q :=
  percolateUp
    { q with indices := (grow q.indices n).set n (q.content.length : Int), content := q.content ++ [n] }
    q.content.length

/-- `func (q *queue) removeMin() int` -/
def removeMin (q : Q) : Option (Q × Nat) :=
  match q.content[0]? with
  | none => none
  | some x =>
    match q.content[q.content.length - 1]? with
    | none => none
    | some y =>
      if y < q.indices.length then
        if x < q.indices.length then
          let q2 : Q := { q with content := (q.content.set 0 y).take (q.content.length - 1),
                                 indices := (q.indices.set y 0).set x (-1) }
          if q2.content.length > 1 then (percolateDown q2 0).map (fun q3 => (q3, x)) else some (q2, x)
        else none
      else none

/-- First loop of `build`: `for i := range q.content { q.indices[q.content[i]] = -1 }`. -/
def clearLoop : List Nat → List Int → Option (List Int)
  | [], ind => some ind
  | c :: cs, ind => if c < ind.length then clearLoop cs (ind.set c (-1)) else none

/-- Second loop of `build`: `for i, val := range ns { q.indices[val] = i; q.content = append(q.content, val) }`
    (the content it builds is `ns` itself). -/
def fillLoop : List Nat → Nat → List Int → Option (List Int)
  | [], _, ind => some ind
  | v :: vs, i, ind => if v < ind.length then fillLoop vs (i + 1) (ind.set v (i : Int)) else none

/-- Third loop of `build`: `for i := len(q.content)/2 - 1; i >= 0; i-- { q.percolateDown(i) }`
    (`heapify k` runs `i = k-1, …, 0`). -/
def heapify : Nat → Q → Option Q
  | 0, q => some q
  | k+1, q =>
    match percolateDown q k with
    | none => none
    | some q' => heapify k q'

/-- `func (q *queue) build(ns []int)` -/
def build (q : Q) (ns : List Nat) : Option Q :=
  match clearLoop q.content q.indices with
  | none => none
  | some i1 =>
    match fillLoop ns 0 i1 with
    | none => none
    | some i2 => heapify (ns.length / 2) { q with content := ns, indices := i2 }

def insertAll : Q → List Nat → Option Q
  | q, [] => some q
  | q, n :: ns =>
    match insert q n with
    | none => none
    | some q' => insertAll q' ns

/-- `func newQueue(activity []float64) queue` -/
def newQueue (acts : List Int) : Option Q := insertAll ⟨acts, [], []⟩ (List.range acts.length)

/-- Queue part of `varBumpActivity` with the new activity given:
    `s.activity[v] = a; if s.varQueue.contains(v) { s.varQueue.decrease(v) }`. -/
def bump (q : Q) (n : Nat) (a : Int) : Option Q :=
  if n < q.activity.length then
    let q1 : Q := { q with activity := q.activity.set n a }
    if contains q1 n then decrease q1 n else some q1
  else none

/-- Loop of `chooseLit`:
    `for v == -1 && !s.varQueue.empty() { if v2 := removeMin(); s.model[v2] == 0 { v = v2 } }`.
    The inner `none` is `v == -1`. Fuel `len(content)` suffices (`chooseLoop_fuel`). -/
def chooseLoop : Nat → Q → List Int → Option (Q × Option Nat)
  | 0, q, _ => some (q, none)
  | f+1, q, model =>
    if empty q then some (q, none) else
    match removeMin q with
    | none => none
    | some (q', v2) =>
      match model[v2]? with
      | none => none
      | some m => if m = 0 then some (q', some v2) else chooseLoop f q' model

def chooseLit (q : Q) (model : List Int) : Option (Q × Option Nat) :=
  chooseLoop q.content.length q model

/-- First loop of `cleanupBindings` restricted to the queue; `vs` are the variables of
    `trail[i:]` in trail order:
    `if !contains(v) { toInsert = append(toInsert, v); insert(v) }`. -/
def cleanupLoop : Q → List Nat → List Nat → Option (Q × List Nat)
  | q, [], toIns => some (q, toIns)
  | q, v :: vs, toIns =>
    if contains q v then cleanupLoop q vs toIns
    else
      match insert q v with
      | none => none
      | some q' => cleanupLoop q' vs (toIns ++ [v])

/-- Both loops: the second one is `for i := len(toInsert)-1; i >= 0; i-- { insert(toInsert[i]) }`. -/
def cleanup (q : Q) (vs : List Nat) : Option Q :=
  match cleanupLoop q vs [] with
  | none => none
  | some (q', toIns) => insertAll q' toIns.reverse

/-- `for v := 0; v < s.nbVars; v++ { if s.model[v] == 0 { ints = append(ints, v) } }` -/
def rebuildLoop : List Nat → List Int → List Nat → Option (List Nat)
  | [], _, acc => some acc
  | v :: vs, model, acc =>
    match model[v]? with
    | none => none
    | some m => rebuildLoop vs model (if m = 0 then acc ++ [v] else acc)

/-- `rebuildOrderHeap`: `ints := make([]int, s.nbVars)` is `nbVars` zeros, the unbound variables
    are appended after them. -/
def rebuildOrderHeap (q : Q) (nbVars : Nat) (model : List Int) : Option Q :=
  match rebuildLoop (List.range nbVars) model (List.replicate nbVars 0) with
  | none => none
  | some ints => build q ints

end GS.Queue
