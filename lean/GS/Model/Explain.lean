import GS.Check.Rup
/-!
# GS.Model.Explain — line-by-line mirror of the certificate checker of package `explain`

Mirrors `/repo/explain/problem.go` (`Problem`, `initTagged`, `restore`, `(*Problem).unsat`),
`/repo/explain/check.go` (`unsat(pb, clause)`, `(*Problem).Unsat`, `(*Problem).UnsatChan`, the
extraction loop at the end of `UnsatSubset`) and the part of `/repo/explain/parser.go`
(`addClause`) that initialises `units`.

Conventions.
* `Pb.units : Array Int` is the Go slice `units` (`units.size = NbVars`), read through
  `GS.bind` (`units[v-1]`, out of range = 0) and written through `GS.setLit`
  (`Array.setIfInBounds`).  The Go code indexes `units[v-1]` without a bound check, so it
  **panics** on a literal 0 or a literal whose variable exceeds `NbVars` as soon as that
  literal is reached; the model is total and coincides with the Go code on
  literal-well-formed input (`GS.cnfWf units.size`).  `inputWf` is the executable test; the
  driver ops answer `illformed` when it fails.
* `Pb.tagged : List Bool` is the Go slice `tagged` (`make([]bool, NbClauses)`).
* certificate lines are already parsed clauses (`parseClause` drops the `0`s, lines that do
  not start with an integer are skipped before this point, a later unparsable field is an
  error return).
* the Go problem invariant `NbClauses = len(Clauses)` between calls is *not* built in:
  it is the explicit hypothesis `Pb.Ok` of the theorems (ParseCNF trusts the header).

Core-only (no Mathlib / Batteries).
-/
namespace GS.Explain
open GS

/-- `explain.Problem` (fields `NbVars = units.size`, `Options` omitted). -/
structure Pb where
  clauses : List (List Int)
  nbClauses : Nat
  units : Array Int
  tagged : List Bool
deriving Repr

/-! ### parser.go : initialisation of `units` -/

/-- `addClause`: a unit clause binds its variable; a later unit clause on the same variable
    overwrites. (The parser returns an error for a unit clause with `v > NbVars`; here
    `setIfInBounds` leaves the array unchanged in that case.) -/
def addUnit (u : Array Int) (c : List Int) : Array Int :=
  match c with
  | [l] => setLit u l
  | _ => u

/-- `units` after `parseHeader` (`make([]int, NbVars)`) and one `addClause` per clause. -/
def initUnits (nbVars : Nat) (cs : List (List Int)) : Array Int :=
  cs.foldl addUnit (Array.replicate nbVars 0)

/-- The problem as `ParseCNF` builds it from a header `p cnf nbVars len(cs)`. -/
def mkPb (nbVars : Nat) (cs : List (List Int)) : Pb :=
  { clauses := cs, nbClauses := cs.length, units := initUnits nbVars cs, tagged := [] }

/-! ### problem.go -/

/-- `initTagged`: `tagged = make([]bool, NbClauses)`; `tagged[i] = len(Clauses[i]) == 1`.
    (Go panics when `len(Clauses) > NbClauses`; here the extra clauses are ignored.) -/
def initTagged (pb : Pb) : Pb :=
  { pb with tagged := (List.range pb.nbClauses).map fun i =>
      match pb.clauses[i]? with
      | some c => c.length == 1
      | none => false }

/-- `restore`: `pb.Clauses = pb.Clauses[:pb.NbClauses]` -/
def restore (pb : Pb) : Pb := { pb with clauses := pb.clauses.take pb.nbClauses }

/-- The inner `for _, lit := range clause` loop of `(*Problem).unsat`.
    `unb` is the counter `unbound` (0 or 1 while the loop runs), `ul` the variable `unit`.
    * `binding == 0`:
      `if unbound == 1 && lit == unit { continue }` — the first unbound literal again: skipped;
      otherwise `unbound++`; first one is remembered, second one `break`s (`.many`);
    * `binding*lit == v`: `sat = true; break`;
    * end of clause: `unbound == 0` is a conflict, `unbound == 1` a unit.
    Only a repetition of the *first* unbound literal is skipped (`1 2 1` with 1 and 2 unbound
    breaks at `2`).  From the start state `unb = 0` this is `GS.scan` (`scanGo_eq_scan` in
    `GS/Props/C08_Explain.lean`); the two differ only in states `unb ≥ 2`, which the loop never
    reaches (it `break`s when `unbound` becomes 2). -/
def scanGo (u : Array Int) : List Int → Nat → Int → Scan
  | [], 0, _ => .conflict
  | [], _+1, ul => .unit ul
  | l :: rest, unb, ul =>
    let b := bind u l.natAbs
    if b = 0 then
      if unb = 1 ∧ l = ul then scanGo u rest unb ul             -- `continue`
      else if unb = 0 then scanGo u rest 1 l else .many         -- `unbound++`; remember / `break`
    else if b * l = (l.natAbs : Int) then .sat
    else scanGo u rest unb ul

/-- `if i < pb.NbClauses { pb.tagged[i] = true }` -/
def tag (nbC i : Nat) (tg : List Bool) : List Bool := if i < nbC then tg.set i true else tg

/-- state at the end of one `for i, clause := range pb.Clauses` loop -/
structure PassRes where
  conflict : Bool      -- `return true` was executed
  units : Array Int
  done : Array Bool
  tagged : List Bool
  modified : Bool

/-- One execution of `for i, clause := range pb.Clauses { … }`, from clause index `i`. -/
def pass (nbC : Nat) : List (List Int) → Nat → Array Int → Array Bool → List Bool → Bool → PassRes
  | [], _, u, d, tg, m => ⟨false, u, d, tg, m⟩
  | c :: cs, i, u, d, tg, m =>
    if (d[i]?).getD false then pass nbC cs (i+1) u d tg m             -- `if done[i] { continue }`
    else match scanGo u c 0 0 with
      | .sat => pass nbC cs (i+1) u (d.setIfInBounds i true) tg m     -- `done[i] = true; continue`
      | .conflict => ⟨true, u, d, tag nbC i tg, m⟩                    -- tag; `return true`
      | .unit l =>                                                    -- bind, done, tag, modified
        pass nbC cs (i+1) (setLit u l) (d.setIfInBounds i true) (tag nbC i tg) true
      | .many => pass nbC cs (i+1) u d tg m

/-- `for modified { modified = false; for … }`; result `(conflict?, units, tagged, outOfFuel?)`.
    The last component is `true` only when the fuel ran out (never with fuel `≥ units.size + 1`,
    see `GS.Explain.loop_fuel_suffices`). -/
def loop (nbC : Nat) (cs : List (List Int)) :
    Nat → Array Int → Array Bool → List Bool → Bool × Array Int × List Bool × Bool
  | 0, u, _, tg => (false, u, tg, true)
  | fuel+1, u, d, tg =>
    let r := pass nbC cs 0 u d tg false
    if r.conflict then (true, r.units, r.tagged, false)
    else if r.modified then loop nbC cs fuel r.units r.done r.tagged
    else (false, r.units, r.tagged, false)

/-- `(*Problem).unsat()`: `(result, new units, new tagged)`.
    `done := make([]bool, len(pb.Clauses))`; fuel = number of variables + 2 passes. -/
def propagate (pb : Pb) : Bool × Array Int × List Bool :=
  let r := loop pb.nbClauses pb.clauses (pb.units.size + 2) pb.units
    (Array.replicate pb.clauses.length false) pb.tagged
  (r.1, r.2.1, r.2.2.1)

/-! ### check.go -/

/-- `for _, lit := range clause { if lit > 0 { units[lit-1] = -1 } else { units[-lit-1] = 1 } }`
    — written OVER the existing bindings. -/
def installNeg (u : Array Int) : List Int → Array Int
  | [] => u
  | l :: rest => installNeg (setLit u (-l)) rest

/-- `unsat(pb, clause)`: result and the problem afterwards (`units` restored from `oldUnits`,
    `tagged` keeps what the propagation tagged). -/
def checkLine (pb : Pb) (c : List Int) : Bool × Pb :=
  let r := propagate { pb with units := installNeg pb.units c }
  (r.1, { pb with tagged := r.2.2 })

/-- result of a run of `Unsat` / `UnsatChan`: the returned `valid`, the index of the line at
    which the loop returned (`-1`: the loop ran to its end), the problem before `restore`. -/
structure Run where
  valid : Bool
  stopped : Int
  pb : Pb

/-- the `for sc.Scan()` loop of `Unsat`; `i` = index of the current line -/
def allLoop (pb : Pb) : List (List Int) → Nat → Run
  | [], _ => ⟨true, -1, pb⟩
  | c :: rest, i =>
    let r := checkLine pb c
    if !r.1 then ⟨false, i, r.2⟩                                   -- `return false, nil`
    else allLoop { r.2 with clauses := r.2.clauses ++ [c] } rest (i+1)  -- append, next line

/-- the `for line := range ch` loop of `UnsatChan` -/
def chanLoop (pb : Pb) : List (List Int) → Nat → Run
  | [], _ => ⟨true, -1, pb⟩
  | c :: rest, i =>
    let r := checkLine pb c
    if !r.1 then ⟨false, i, r.2⟩
    else if c.isEmpty then ⟨true, i, r.2⟩                          -- `return true, nil`
    else chanLoop { r.2 with clauses := r.2.clauses ++ [c] } rest (i+1)

/-- `(*Problem).Unsat`: `initTagged`, loop, deferred `restore`. -/
def runAll (pb : Pb) (lines : List (List Int)) : Run :=
  let r := allLoop (initTagged pb) lines 0
  { r with pb := restore r.pb }

/-- `(*Problem).UnsatChan` -/
def runChan (pb : Pb) (lines : List (List Int)) : Run :=
  let r := chanLoop (initTagged pb) lines 0
  { r with pb := restore r.pb }

def checkAll (pb : Pb) (lines : List (List Int)) : Bool := (runAll pb lines).valid
def checkChan (pb : Pb) (lines : List (List Int)) : Bool := (runChan pb lines).valid

/-- a certificate as `UnsatChan` sees it: nothing after the first empty clause is read -/
def cutAtEmpty : List (List Int) → List (List Int)
  | [] => []
  | c :: rest => if c.isEmpty then [c] else c :: cutAtEmpty rest

/-- the extraction loop of `UnsatSubset`: `for i, clause := range pb.Clauses { if pb.tagged[i] … }` -/
def subsetOf : List (List Int) → List Bool → List (List Int)
  | c :: cs, t :: ts => if t then c :: subsetOf cs ts else subsetOf cs ts
  | _, _ => []

/-- indices of the tagged clauses -/
def taggedIdx : List Bool → Nat → List Nat
  | [], _ => []
  | t :: ts, i => if t then i :: taggedIdx ts (i+1) else taggedIdx ts (i+1)

/-- executable well-formedness test: the Go code does not panic on such input -/
def inputWf (nbVars : Nat) (cs lines : List (List Int)) : Bool := cnfWf nbVars cs && cnfWf nbVars lines

end GS.Explain
