import GS.Model.Formats
/-!
# GS.Model.SolverPrint — `func (s *Solver) PBString() string` (`/repo/solver/solver.go`)

Core-only, executable. What the method reads of a solver is a `State`:

* `s.nbVars`;
* the cost function `(s.minLits, s.minWeights)` as its terms (`none`: `s.minLits == nil`;
  `GS.Formats.costTerms` builds the terms from the two slices);
* `s.wl.origClauses` and `s.wl.learned`, each clause as the `PBC` made of what
  `Clause.PBString` reads of it: the literals, `pbData.weights` (`none`: `pbData == nil`) and
  `Cardinality()`. `Cl` mirrors the header word `lbdValue`: a clause made by `NewLearnedClause`
  keeps its LBD in the low 30 bits, and `Cardinality()` returns 1 for it whatever these bits;
  a constraint learned by `cuttingPlanes` is made by `NewPBClause`: it is *not* flagged as
  learned and its low bits are its degree minus one (`lock()` only sets bit 30, masked out);
* `s.model`, one signed decision level per variable: `0` unbound, `±1` bound at the top level,
  `±lvl` (`lvl ≥ 2`) bound during the search.

The method is mirrored twice:

* `printSolverText` : the very text (`fmt.Sprintf`, `strings.Join`), byte for byte;
* `printSolver`     : the same lines as lists of fields, the representation of
  `GS.Formats.printPB` / `parseOpbLines` (a field `+3` is the integer field 3: `strconv.Atoi`).

`lexText` (mirror of the line splitting of `bufio.Scanner`, of `spaceOutOperators` and of
`strings.Fields`, for texts without tabs) ties the two on concrete states; in general the
lexing is trusted, as everywhere in `GS.Model.Formats`.

Order of the parts, as in the Go code: the comment line `* #variable= n #constraint= m #learned= k`,
the `min:` line if there is a cost function, the original constraints, the learned ones, and one
line `1 x<i+1> = 1 ;` (resp. `= 0 ;`) for every index `i` with `s.model[i] == 1` (resp. `== -1`),
by increasing `i`. The lines after the `min:` line are *joined* by `\n` (no final newline unless
there is none of them).
-/
namespace GS.SolverPrint
open GS GS.Constr GS.Formats

/-! ## Clauses as the printer sees them -/

/-- What `Clause.PBString` reads of a `*Clause`: `lits`, `pbData.weights` (`none`: `pbData == nil`),
    the learned flag `lbdValue & learnedMask` and the low bits `lbdValue & ^bothMasks`. -/
structure Cl where
  lits : List Int
  weights : Option (List Int) := none
  learned : Bool := false
  low : Nat := 0
deriving Repr, DecidableEq, Inhabited

/-- `Clause.Cardinality()`. -/
def Cl.cardinality (c : Cl) : Int := if c.learned then 1 else (c.low : Int) + 1

/-- The constraint `Clause.PBString` writes. -/
def Cl.pbc (c : Cl) : PBC := ⟨c.lits, c.weights, c.cardinality⟩

/-- `NewLearnedClause(lits)` after `computeLbd` found `lbd` levels. -/
def learnedCl (lits : List Int) (lbd : Nat) : Cl := { lits := lits, learned := true, low := lbd }

/-! ## The state that is printed -/

structure State where
  nbVars : Int
  obj : Option (List (Int × Int))
  orig : List PBC
  learned : List PBC
  model : List Int
deriving Repr, DecidableEq, Inhabited

/-- The state of a Go solver, from the clause headers. -/
def State.ofGo (nbVars : Int) (minLits : Option (List Int)) (minWeights : Option (List Int))
    (orig learned : List Cl) (model : List Int) : State :=
  { nbVars := nbVars, obj := minLits.map (fun ls => costTerms ls minWeights),
    orig := orig.map Cl.pbc, learned := learned.map Cl.pbc, model := model }

/-! ## The top-level bindings

`for i := 0; i < len(s.model); i++ { if s.model[i] == 1 {…} else if s.model[i] == -1 {…} }` -/

/-- `(variable, printed value)` for the indexes `i, i+1, …` of the model. -/
def bindingsFrom (i : Nat) : List Int → List (Nat × Int)
  | [] => []
  | m :: ms =>
    (if m = 1 then [(i + 1, 1)] else if m = -1 then [(i + 1, 0)] else []) ++ bindingsFrom (i + 1) ms

def bindings (model : List Int) : List (Nat × Int) := bindingsFrom 0 model

/-- The literal a printed binding makes true. -/
def bindLit (b : Nat × Int) : Int := if b.2 = 1 then (b.1 : Int) else -(b.1 : Int)

/-- The literals bound at the top level (level 1), by increasing variable. -/
def topLits (model : List Int) : List Int := (bindings model).map bindLit

/-! ## A fresh solver (`New(problem)`)

`model: problem.Model`, then `s.model[lit.Var()] = 1` / `-1` for every `lit` of `problem.Units`
(the parsers have already written the same values in `problem.Model`); no learned clause;
`s.wl.origClauses` are `problem.Clauses`; the cost function is the problem's. -/

/-- `s.model[lit.Var()] = 1` / `= -1`. -/
def setUnit (m : List Int) (u : Int) : List Int := m.set (u.natAbs - 1) (if u > 0 then 1 else -1)

/-- The model array of a fresh solver over `n` variables whose problem has the units `us`. -/
def modelOfUnits (n : Nat) (us : List Int) : List Int := us.foldl setUnit (List.replicate n 0)

def freshState (n : Nat) (obj : Option (List (Int × Int))) (units : List Int) (clauses : List PBC) : State :=
  { nbVars := n, obj := obj, orig := clauses, learned := [], model := modelOfUnits n units }

/-! ## Lines of fields -/

/-- `* #variable= %d #constraint= %d #learned= %d` -/
def headerLine (nbVars : Int) (nOrig nLearned : Nat) : Line :=
  skipLine (some [.word "#variable=", .int nbVars, .word "#constraint=", .int nOrig,
    .word "#learned=", .int nLearned])

/-- `1 x%d = 1 ;` / `1 x%d = 0 ;` -/
def bindLine (b : Nat × Int) : Line :=
  [.int 1, varTok (b.1 : Int), .word "=", .int b.2, .word ";"]

/-- The `min:` line. The first weight is bare, a following one has a `+` glued exactly when it
    is `≥ 0`: every weight is an integer field, the line is `GS.Formats.costLine`. -/
def minLines (obj : Option (List (Int × Int))) : List Line :=
  match obj with
  | none => []
  | some ts => [costLine ts]

/-- `Solver.PBString()`, as lines of fields. -/
def printSolver (st : State) : List Line :=
  headerLine st.nbVars st.orig.length st.learned.length ::
    (minLines st.obj ++
      (st.orig.map pbClauseLine ++ (st.learned.map pbClauseLine ++ (bindings st.model).map bindLine)))

/-! ## The text, byte for byte -/

/-- `%d` -/
def intText (i : Int) : String := toString i

/-- `fmt.Sprintf("%d %sx%d", weight, sign, val)` -/
def termText (t : Int × Int) : String := intText t.1 ++ " " ++ varName t.2

/-- `Clause.PBString()`: `strings.Join(terms, " +") >= card ;` -/
def clauseText (c : PBC) : String :=
  " +".intercalate (c.terms.map termText) ++ " >= " ++ intText c.atLeast ++ " ;"

/-- The terms of the `min:` line: `plus = "+"` iff `i != 0 && weight >= 0`. -/
def minTermTexts (first : Bool) : List (Int × Int) → List String
  | [] => []
  | t :: ts => ((if !first && decide (0 ≤ t.1) then "+" else "") ++ termText t) :: minTermTexts false ts

def minText (obj : Option (List (Int × Int))) : String :=
  match obj with
  | none => ""
  | some ts => "min: " ++ " ".intercalate (minTermTexts true ts) ++ " ;\n"

def bindText (b : Nat × Int) : String := "1 x" ++ toString b.1 ++ " = " ++ intText b.2 ++ " ;"

def headerText (nbVars : Int) (nOrig nLearned : Nat) : String :=
  "* #variable= " ++ intText nbVars ++ " #constraint= " ++ toString nOrig ++ " #learned= " ++
    toString nLearned ++ "\n"

/-- `Solver.PBString()`. -/
def printSolverText (st : State) : String :=
  headerText st.nbVars st.orig.length st.learned.length ++ minText st.obj ++
    "\n".intercalate (st.orig.map clauseText ++ (st.learned.map clauseText ++ (bindings st.model).map bindText))

/-! ## From the text to the lines of fields (what `ParseOPB` does before looking at fields) -/

/-- `strings.Split` on one byte. -/
def splitOnChar (sep : Char) : List Char → List (List Char)
  | [] => [[]]
  | c :: cs =>
    if c = sep then [] :: splitOnChar sep cs
    else match splitOnChar sep cs with
      | [] => [[c]]
      | l :: ls => (c :: l) :: ls

/-- `strings.Fields` (blanks only). -/
def fieldsOf (cs : List Char) : List (List Char) := (splitOnChar ' ' cs).filter (fun f => !f.isEmpty)

/-- `strings.Replace(s, pat, rep, 1)`. -/
def replaceFirst (pat rep : List Char) : List Char → List Char
  | [] => []
  | c :: cs => if pat.isPrefixOf (c :: cs) then rep ++ (c :: cs).drop pat.length else c :: replaceFirst pat rep cs

def containsSub (pat : List Char) : List Char → Bool
  | [] => pat.isEmpty
  | c :: cs => pat.isPrefixOf (c :: cs) || containsSub pat cs

/-- `spaceOutOperators`. -/
def spaceOut (line : List Char) : List Char :=
  if "min:".toList.isPrefixOf line then "min: ".toList ++ line.drop 4
  else if containsSub ">=".toList line then replaceFirst ">=".toList " >= ".toList line
  else replaceFirst "=".toList " = ".toList line

/-- A field: an integer field when `strconv.Atoi` succeeds. -/
def tokOf (f : List Char) : Tok :=
  match atoi f with
  | some i => .int i
  | none => .word (String.ofList f)

/-- The fields of one line of the scanner, `;` being the last one when the line ends with it
    (`parsePBLine` cuts it off and spaces the operators out; an empty or `*` line is skipped
    before that: its fields are never looked at). -/
def lexLine (line : List Char) : Line :=
  match line.reverse with
  | [] => []
  | last :: revRest =>
    if line.head? = some '*' || last != ';' then (fieldsOf line).map tokOf
    else (fieldsOf (spaceOut revRest.reverse)).map tokOf ++ [Tok.word ";"]

/-- The lines `bufio.Scanner` yields: a final newline does not start a line. -/
def scanLines (text : List Char) : List (List Char) :=
  let ls := splitOnChar '\n' text
  if ls.getLast? = some [] then ls.dropLast else ls

def lexText (text : String) : List Line := (scanLines text.toList).map lexLine

end GS.SolverPrint
