import GS.Spec.Basic
import GS.Check.Rup
/-!
# GS.Model.Cdcl — the abstract guard-checking machine every run of `solver.Solver` is tied to

The search of /repo/solver (decisions by the activity heap, restarts, `reduceLearned`, the
watch lists) is **not** mirrored.  A run of the Go solver is projected onto a list of events

* `learn c`     — `addLearned` / `addLearnedUnit` (watcher.go:240-270; also what `Certified` emits),
* `forget i`    — `reduceLearned` dropping a learned clause (watcher.go),
* `append c`    — `AppendClause` (solver.go:848), also the blocking clauses of `Enumerate`,
* `assume ls`   — `Assume` (solver.go:603),
* `answerSat m` — `Solve` returned `Sat` and `Model()` returned `m`,
* `answerUnsat` — `Solve` returned `Unsat` (`setUnsat`, solver.go:524, emits `0`),

and the event list is replayed by `run`.  Each guard is an *executable, verified* checker
(`rupLine`, `upRefute`, `cnfTrue`), so a replay that is accepted is a proof object for that
run; `GS/Props/C01_Cdcl.lean` proves that *every* accepted event list is sound, whatever
decisions, restarts and deletions produced it.

Which clause is decided on, when a restart happens, which learned clause is deleted: none of
these needs an event, because no theorem depends on them.

Core-only (linked into the driver).
-/
namespace GS.Cdcl
open GS

/-- largest variable of a clause -/
def clauseMaxVar (c : List Int) : Nat := c.foldr (fun l m => max l.natAbs m) 0

/-- largest variable of a clause list -/
def cnfMaxVar (f : List (List Int)) : Nat := f.foldr (fun c m => max (clauseMaxVar c) m) 0

structure St where
  /-- number of declared variables (`Solver.nbVars`); grows with `append` (`newVar`) -/
  n : Nat
  /-- input clauses plus everything appended so far (incl. blocking clauses), in order, as written -/
  base : List (List Int)
  /-- learned clauses currently in the database, oldest first -/
  learned : List (List Int)
  /-- assumptions of the current round (`Assume` replaces them) -/
  assumptions : List Int
  /-- ghost flag: some `answerUnsat` was accepted while there were no assumptions -/
  unsatSeen : Bool
deriving Repr, DecidableEq

inductive Ev
  | learn (c : List Int)
  | forget (i : Nat)
  | append (c : List Int)
  | assume (ls : List Int)
  | answerSat (m : List Bool)
  | answerUnsat
deriving Repr, DecidableEq

/-- initial state: `n` declared variables (raised to the largest variable that occurs, as
    `ParseSlice` does), no learned clause, no assumption. -/
def init (n : Nat) (f : List (List Int)) : St :=
  { n := max n (cnfMaxVar f), base := f, learned := [], assumptions := [], unsatSeen := false }

/-- the assumptions as unit clauses -/
def units (ls : List Int) : List (List Int) := ls.map (fun l => [l])

/-- the clause database the verdict guards propagate over -/
def St.db (s : St) : List (List Int) := s.learned ++ s.base

/-- guard of `learn c`: `c` is RUP w.r.t. learned ++ base — **without** the assumptions -/
def learnOk (s : St) (c : List Int) : Bool := rupLine s.n s.db c

/-- guard of `assume ls`: literals are non-zero and over declared variables
    (`Assume` indexes `s.model[lit.Var()]`: anything else is an index-out-of-range panic) -/
def assumeOk (s : St) (ls : List Int) : Bool := ls.all (litOk s.n)

/-- guard of `answerSat m`: one value per declared variable, every clause of the base true
    as written, every current assumption true -/
def satOk (s : St) (m : List Bool) : Bool :=
  m.length == s.n && cnfTrue (asgOf m) s.base && s.assumptions.all (litTrue (asgOf m))

/-- guard of `answerUnsat`: unit propagation alone refutes assumptions ∧ learned ∧ base -/
def unsatOk (s : St) : Bool := upRefute s.n (units s.assumptions ++ s.db)

def apply (s : St) : Ev → Option St
  | .learn c => if learnOk s c then some { s with learned := s.learned ++ [c] } else none
  | .forget i => if i < s.learned.length then some { s with learned := dropNth s.learned i } else none
  | .append c => some { s with base := s.base ++ [c], n := max s.n (clauseMaxVar c) }
  | .assume ls => if assumeOk s ls then some { s with assumptions := ls } else none
  | .answerSat m => if satOk s m then some s else none
  | .answerUnsat =>
    if unsatOk s then some { s with unsatSeen := s.unsatSeen || s.assumptions.isEmpty } else none

def run (s : St) : List Ev → Option St
  | [] => some s
  | e :: es => match apply s e with
    | none => none
    | some s' => run s' es

/-- index of the first rejected event (`none`: all accepted) -/
def firstRejected (s : St) : List Ev → Nat → Option Nat
  | [], _ => none
  | e :: es, i => match apply s e with
    | none => some i
    | some s' => firstRejected s' es (i + 1)

/-! ### The certificate is a projection of the event list

`Certified` only guards output statements (watcher.go:248, 260; solver.go:526): the text that
is emitted is the clause of every `learn` event and `0` (the empty clause) at `answerUnsat`.
The machine state has no certificate component. -/

def certLine : Ev → Option (List Int)
  | .learn c => some c
  | .answerUnsat => some []
  | _ => none

/-- `run` that also produces the certificate text when `cert` is set -/
def runOut (cert : Bool) (s : St) : List Ev → List (List Int) → Option (St × List (List Int))
  | [], out => some (s, out)
  | e :: es, out => match apply s e with
    | none => none
    | some s' =>
      runOut cert s' es (if cert then (match certLine e with | some l => out ++ [l] | none => out) else out)

/-- the clauses appended by an event list, in order -/
def appended : List Ev → List (List Int)
  | [] => []
  | .append c :: es => c :: appended es
  | _ :: es => appended es

/-- the assumptions in force after an event list (starting from `as`) -/
def lastAssumed (as : List Int) : List Ev → List Int
  | [] => as
  | .assume ls :: es => lastAssumed ls es
  | _ :: es => lastAssumed as es

end GS.Cdcl
