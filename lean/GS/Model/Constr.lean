import GS.Spec.Basic
/-!
# GS.Model.Constr — mirror of the public constraint constructors

Core-only, executable. Mirrors, line by line,

* `/repo/solver/pb.go`   : `PBConstr`, `WeightSum`, the saturation loop of `Clause()`,
  `PropClause`, `AtLeast`, `AtMost`, `GtEq`, `LtEq`, `Eq`;
* `/repo/solver/card.go` : `CardConstr`, `AtLeast1`, `AtMost1`, `Exactly1`;
* the case analysis made by `ParsePBConstrs` / `ParseCardConstrs` / `parsePBConstrLine`
  (`/repo/solver/parser_pb.go`) on each constraint *before* `simplifyPB` / `simplifyCard`.

Conventions.
* A Go `[]int` that may be `nil` is an `Option (List Int)`: `none` is the `nil` slice, `some []` a
  non-nil slice of length 0. The distinction is observable in Go (`WeightSum`, `NewPBClause` test
  `Weights == nil`), so it is kept.
* Go `int` is modelled by the unbounded `Int` (no overflow).
* `panic` (explicit, or index out of range) is `none`.
* In-place slice mutation is "return the new list"; aliasing between the arguments of a
  constructor and its result is not modelled (only the returned value is).
-/
namespace GS.Constr
open GS

/-- `solver.PBConstr`. `weights = none` is the `nil` slice: every weight is 1. -/
structure PBC where
  lits : List Int
  weights : Option (List Int)
  atLeast : Int
deriving Repr, DecidableEq, Inhabited

/-- `solver.CardConstr`. -/
structure CardC where
  lits : List Int
  atLeast : Int
deriving Repr, DecidableEq, Inhabited

/-- The `(weight, literal)` terms of a constraint. -/
def PBC.terms (c : PBC) : List (Int × Int) :=
  match c.weights with
  | none => c.lits.map (fun l => (1, l))
  | some ws => ws.zip c.lits

/-- Meaning of a `PBConstr`: `atLeast ≤ Σ wᵢ·[litᵢ]`. -/
def PBC.sem (a : Asg) (c : PBC) : Bool := decide (c.atLeast ≤ lhs a c.terms)

/-- Meaning of a `CardConstr`: at least `atLeast` of the literals are true. -/
def CardC.sem (a : Asg) (c : CardC) : Bool :=
  decide (c.atLeast ≤ lhs a (c.lits.map (fun l => (1, l))))

/-- `PBConstr.WeightSum`. -/
def PBC.weightSum (c : PBC) : Int :=
  match c.weights with
  | none => (c.lits.length : Int)
  | some ws => ws.sum

/-- The saturation loop of `PBConstr.Clause()`:
    `for i := range c.Weights { if c.Weights[i] > c.AtLeast { c.Weights[i] = c.AtLeast } }`
    (a `nil` slice is left alone). -/
def saturate (c : PBC) : PBC :=
  { c with weights := c.weights.map (fun ws => ws.map (fun w => if w > c.atLeast then c.atLeast else w)) }

/-- `PropClause(lits...)`. -/
def propClause (lits : List Int) : PBC := ⟨lits, none, 1⟩

/-- `AtLeast(lits, n)`. -/
def atLeast (lits : List Int) (n : Int) : PBC := ⟨lits, none, n⟩

/-- `AtMost(lits, n)`: every literal negated, `AtLeast: len(lits2) - n`. -/
def atMost (lits : List Int) (n : Int) : PBC :=
  let lits2 := lits.map (fun l => -l)
  ⟨lits2, none, (lits2.length : Int) - n⟩

/-- The loop of `GtEq`, run on lists of the same length (guaranteed by the guard before it).
    One step per original index `i`:
    * `weights[i] < 0`: the weight is negated, `n += weights[i]` (the new, positive value), the
      literal is negated;
    * `weights[i] == 0` (never the case right after a negation): the entry is deleted from both
      slices and `i--`, i.e. the next entry is examined at the same index;
    * otherwise the entry is kept.
    Returns `(lits, weights, n)`. -/
def gtEqLoop : List Int → List Int → Int → List Int × List Int × Int
  | l :: ls, w :: ws, n =>
    if w < 0 then
      let w' := -w
      let r := gtEqLoop ls ws (n + w')
      (-l :: r.1, w' :: r.2.1, r.2.2)
    else if w = 0 then
      gtEqLoop ls ws n
    else
      let r := gtEqLoop ls ws n
      (l :: r.1, w :: r.2.1, r.2.2)
  | _, _, n => ([], [], n)

/-- Length of a possibly-nil slice. -/
def slen (ws : Option (List Int)) : Nat := (ws.getD []).length

/-- `GtEq(lits, weights, n)`.
    `if len(weights) != 0 && len(lits) != len(weights) { panic }`; when `len(weights) == 0` the
    loop does not run and the slices are returned as they are (so a `nil` weights stays `nil`:
    all weights 1, and an empty non-nil one stays empty). -/
def gtEq (lits : List Int) (weights : Option (List Int)) (n : Int) : Option PBC :=
  if slen weights != 0 && lits.length != slen weights then none
  else
    match weights with
    | none => some ⟨lits, none, n⟩
    | some [] => some ⟨lits, some [], n⟩
    | some ws =>
      let r := gtEqLoop lits ws n
      some ⟨r.1, some r.2.1, r.2.2⟩

/-- `LtEq(lits, weights, n)`.
    `for i := range lits { lits[i] = -lits[i]; sum += weights[i] }` panics (index out of range)
    when `len(weights) < len(lits)`; then `GtEq(lits, weights, sum - n)`. -/
def ltEq (lits : List Int) (weights : Option (List Int)) (n : Int) : Option PBC :=
  if slen weights < lits.length then none
  else
    let sum := ((weights.getD []).take lits.length).sum
    gtEq (lits.map (fun l => -l)) weights (sum - n)

/-- `Eq(lits, weights, n)`. `weights2 := make([]int, len(weights)); copy(...)` is never `nil`. -/
def eq (lits : List Int) (weights : Option (List Int)) (n : Int) : Option (List PBC) :=
  match gtEq lits (some (weights.getD [])) n with
  | none => none
  | some ge =>
    match ltEq lits weights n with
    | none => none
    | some le =>
      some ((if ge.atLeast > 0 then [ge] else []) ++ (if le.atLeast > 0 then [le] else []))

/-- `AtLeast1(lits...)`. -/
def atLeast1 (lits : List Int) : CardC := ⟨lits, 1⟩

/-- `AtMost1(lits...)`. -/
def atMost1 (lits : List Int) : CardC := ⟨lits.map (fun l => -l), (lits.length : Int) - 1⟩

/-- `Exactly1(lits...)`. -/
def exactly1 (lits : List Int) : List CardC := [atLeast1 lits, atMost1 lits]

/-- What the front end does with one constraint before simplification. -/
inductive Front where
  | dropped                       -- `card <= 0`: "trivially SAT, ignore"
  | unsat                         -- `sumW < card`: `pb.Status = Unsat; return`
  | units (ls : List Int)         -- `sumW == card`: every literal becomes a unit
  | kept                          -- otherwise the constraint is appended to `pb.Clauses`
deriving Repr, DecidableEq, Inhabited

/-- Case analysis of `ParsePBConstrs` / `parsePBConstrLine` on one constraint. -/
def frontPB (c : PBC) : Front :=
  if c.atLeast ≤ 0 then .dropped
  else if c.weightSum < c.atLeast then .unsat
  else if c.weightSum = c.atLeast then .units c.lits
  else .kept

/-- Case analysis of `ParseCardConstrs` on one constraint. -/
def frontCard (c : CardC) : Front :=
  if c.atLeast ≤ 0 then .dropped
  else if (c.lits.length : Int) < c.atLeast then .unsat
  else if (c.lits.length : Int) = c.atLeast then .units c.lits
  else .kept

end GS.Constr
