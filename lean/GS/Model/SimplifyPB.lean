import GS.Spec.Basic
/-!
# GS.Model.SimplifyPB — mirror of `(*Clause).SimplifyPB` of `solver/clause.go`

A PB clause is given by its terms `(weight, literal)` in the order of `c.lits` /
`c.pbData.weights` (Go keeps the two slices index-aligned; `NewPBClause` has sorted them by
decreasing weight) and its cardinality `card`. Core-only.

Go code mirrored (line by line):

    card := c.Cardinality()
    thresh := c.WeightSum() - card
    if thresh < 0 { return nil, nil, false }
    i := 0
    for i < c.Len() && c.Weight(i) > thresh { units = append(units, c.Get(i)); card -= c.Weight(i); i++ }
    if card <= 0 { return units, nil, true }
    newLits, newWeights := copy of lits[i:], weights[i:]
    i = 0
    for newWeights[i] > card { newWeights[i] = card }      // `i` is never incremented
    return units, NewPBClause(newLits, newWeights, card), true

The last loop only ever looks at index 0 (after one iteration `newWeights[0] = card`, so it
stops); it indexes `newWeights[0]` unconditionally, which would panic on an empty slice:
modelled by `SimpOut.panic` (proved unreachable in `GS.Props.C14_SimplifyPB`). The final
`NewPBClause` re-sorts the terms (a permutation; `sort.Sort` is not stable, so the model
returns the terms before that sort).
-/
namespace GS

/-- `c.WeightSum()` -/
def weightSum : List (Int × Int) → Int
  | [] => 0
  | t :: ts => t.1 + weightSum ts

/-- the unit loop: `(units, card after the loop, terms from index i on)` -/
def takeUnits (thresh : Int) : List (Int × Int) → Int → List Int × Int × List (Int × Int)
  | [], card => ([], card, [])
  | t :: ts, card =>
    if t.1 > thresh then
      let r := takeUnits thresh ts (card - t.1)
      (t.2 :: r.1, r.2.1, r.2.2)
    else ([], card, t :: ts)

/-- the saturation loop `for newWeights[0] > card { newWeights[0] = card }`;
    `none` = index out of range -/
def saturateHead (card : Int) : List (Int × Int) → Option (List (Int × Int))
  | [] => none
  | t :: ts => some ((if t.1 > card then (card, t.2) else t) :: ts)

inductive SimpOut where
  /-- `ok = false` -/
  | unsat
  /-- run-time panic (index out of range in the saturation loop) -/
  | panic
  /-- `ok = true`, `units`, and `c2` (`none` = `nil`) as `(terms, card)` -/
  | done (units : List Int) (rest : Option (List (Int × Int) × Int))
deriving Repr, DecidableEq, Inhabited

def simplifyTerms (ts : List (Int × Int)) (card : Int) : SimpOut :=
  let thresh := weightSum ts - card
  if thresh < 0 then .unsat
  else
    let r := takeUnits thresh ts card
    if r.2.1 ≤ 0 then .done r.1 none
    else
      match saturateHead r.2.1 r.2.2 with
      | none => .panic
      | some ts' => .done r.1 (some (ts', r.2.1))

/-- the same over the two index-aligned slices `lits`, `weights` -/
def simplifyPB (lits weights : List Int) (card : Int) : SimpOut :=
  simplifyTerms (List.zip weights lits) card

end GS
