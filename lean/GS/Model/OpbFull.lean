import GS.Model.Formats
import GS.Model.Simplify
/-!
# GS.Model.OpbFull — `solver.ParseOPB` end to end, on lines of tokens

Core-only, executable. Composition of

* `GS.Formats.parseOpbLines` — the scanner loop of `ParseOPB` (`/repo/solver/parser_pb.go`:
  `parsePBLine`, `parsePBOptim`, `parsePBConstrLine`, `parseTerms`, `GtEq`, `Eq` and the
  per-constraint case analysis that fills `pb.Units`, `pb.Clauses`, `pb.Status`, `pb.NbVars`);
* the **tail of `ParseOPB`** (this file):

      pb.Model = make([]decLevel, pb.NbVars)
      for _, unit := range pb.Units { … conflicting units: pb.Status = Unsat; return &pb, nil }
      pb.simplifyPB()
      return &pb, nil

## What is shared with `ParsePBConstrs` and what is not

The unit loop and the call of `simplifyPB` are, textually, the tail of `ParsePBConstrs`
(`GS.Simplify.finish simplifyPB`). The state they start from is not:

1. **`NewPBClause` has already run** (inside `parsePBConstrLine`): the clauses are
   `kept.map newPBClause` (`GS.Simplify.newPBClause`: the stable sort by decreasing weight).
2. **`pb.Units` may hold the same literal several times** (`parsePBConstrLine` has no `found`
   test). The unit loop copes (third branch); `GS.Simplify.bindUnits` is reused as it is.
3. **`pb.NbVars` is the largest number read after `x` / `~x`** (`parseTerms`), not
   `max |lit|`: a name `x0` gives the null literal, a name `x-3` gives the literal `-3` without
   raising `NbVars`. `pb.Model[unit.Var()]` then panics (index `-1`, or `≥ NbVars`). The unit
   loop is mirrored with that bound check (`bindUnitsChk`); under "every unit is non-null and
   within `NbVars`" it is `bindUnits` (`GS.OpbFull.bindUnitsChk_ok` in the Props file).
   For the clauses the same check is made up front (`litsInRange`): when it fails the answer is
   the error `unmodelled: …` — Go panics there *if and when* `simplifyPB` looks the literal up,
   which depends on the run; this corner (names `x0`, `x-<n>`, `~x-<n>`, outside the OPB grammar)
   is the only part of `ParseOPB` the mirror does not reproduce.
4. **`pb.Status` may already be `Unsat`** when the scanner loop ends (`parsePBConstrLine`
   returns `nil` after `pb.Status = Unsat`; the following lines are still read). Neither the
   unit loop nor `simplifyPB` tests it on entry. `ParsePBConstrs` returns at once in that case,
   so `GS.Simplify.simplifyPB` was written for `Status == Indet` on entry and its sweep stops
   after the first clause when the status is `Unsat`. In Go, with `Status == Unsat` on entry,
   `simplifyPB` goes on removing bound literals and satisfied clauses and returns
   - right after the first `pb.addUnit(lit)` (the test `if pb.Status == Unsat { return }` that
     follows it is true whatever `addUnit` did): **one more unit is appended** and the clause
     is left as it is;
   - or at `wSum < card`;
   - or when a sweep changes nothing.
   This is `simplifyPBU` below (a separate mirror). `pb.Model` does not change before the
   return, so the sweeps take the model as a parameter.

As in `GS.Model.Simplify`, **when the resulting status is `unsat` the field `clauses` is not
meaningful** (Go leaves partially simplified, aliased clauses there); `status`, `nbVars`, `units`
are exact.
-/
namespace GS.OpbFull
open GS GS.Constr GS.Formats GS.Simplify

/-! ## The unit loop, with the index checks of `pb.Model[v]` -/

/-- `for _, unit := range pb.Units { v := unit.Var(); if pb.Model[v] == 0 {…} else if … }`.
    `IntToLit(0).Var()` is `-1` and `IntToLit(l).Var()` is `|l| - 1`: the first access panics
    when the unit is null or beyond `len(pb.Model)`. Otherwise as `GS.Simplify.bindUnits`. -/
def bindUnitsChk : List Int → List Int → Except String (List Int × Bool)
  | [], m => .ok (m, false)
  | u :: us, m =>
    if u = 0 ∨ m.length ≤ varOf u then .error "panic: index out of range"
    else if mget m (varOf u) = 0 then bindUnitsChk us (m.set (varOf u) (if u > 0 then 1 else -1))
    else if ¬ (mget m (varOf u) > 0 ↔ u > 0) then .ok (m, true)
    else bindUnitsChk us m

/-! ## `simplifyPB` entered with `pb.Status == Unsat` -/

/-- Outcome of the `for j < c.Len()` loop when `pb.Status == Unsat`: `forced = some lit` when
    `pb.addUnit(lit)` was reached (`simplifyPB` returns right after it), else the remaining
    terms, the local `card`, the stored `c.Cardinality()`, `wSum` and `modified`. -/
structure ScanU where
  forced : Option Int
  terms : List (Int × Int)
  card : Int
  stored : Int
  wSum : Int
  modified : Bool
deriving Repr, DecidableEq, Inhabited

/-- The `for j < c.Len()` loop of `simplifyPB` under `pb.Status == Unsat`; `m` is `pb.Model`,
    the list is the terms from position `j` on (conventions of `GS.Simplify.scanPB`). -/
def scanPBU (m : List Int) : Nat → Int → Int → Int → List (Int × Int) → ScanU
  | 0, card, st, ws, s => ⟨none, s, card, st, ws, false⟩
  | _ + 1, card, st, ws, [] => ⟨none, [], card, st, ws, false⟩
  | n + 1, card, st, ws, (w, lit) :: r =>
    if mget m (varOf lit) = 0 then
      if ws - w < card then ⟨some lit, (w, lit) :: r, card, st, ws, true⟩   -- addUnit(lit); return
      else
        let q := scanPBU m n card st ws r                                    -- j++
        { q with terms := (w, lit) :: q.terms }
    else
      let cs : Int × Int :=
        if (mget m (varOf lit) = 1 ↔ lit > 0) then (card - w, updCard st (-w)) else (card, st)
      let q := scanPBU m n cs.1 cs.2 (ws - w) (rot r)                        -- c.removeLit(j)
      { q with modified := true }

/-- Result of one `for i < len(pb.Clauses)` sweep under `pb.Status == Unsat`. `forced`: the
    literal given to `addUnit` just before `simplifyPB` returned; `stop`: `simplifyPB`
    returned inside the sweep (after `addUnit`, or at `wSum < card`). -/
structure PassU where
  forced : Option Int
  kept : List Cl
  modified : Bool
  stop : Bool
deriving Repr, DecidableEq, Inhabited

/-- The `for i < len(pb.Clauses)` loop of `simplifyPB` under `pb.Status == Unsat`; the list is
    `pb.Clauses[i:]`. -/
def passPBU (m : List Int) : Nat → List Cl → PassU
  | 0, s => ⟨none, s, false, false⟩
  | _ + 1, [] => ⟨none, [], false, false⟩
  | n + 1, c :: r =>
    let q := scanPBU m c.terms.length c.card c.card (wsum c.terms) c.terms
    match q.forced with
    | some lit => ⟨some lit, c :: r, true, true⟩                           -- return
    | none =>
      if q.card ≤ 0 then                                                    -- clause is Sat
        let p := passPBU m n (rot r)
        { p with modified := true }
      else if q.wSum < q.card then ⟨none, [], true, true⟩                  -- pb.Clauses = nil; return
      else
        let p := passPBU m n r
        { p with kept := c.withTerms q.terms q.stored :: p.kept, modified := q.modified || p.modified }

/-- The `for modified` loop of `simplifyPB` under `pb.Status == Unsat`: the literal given to
    `addUnit` (if that is how it ended) and the clauses. Fuel as for `GS.Simplify.loopPB`. -/
def loopPBU (m : List Int) : Nat → List Cl → Option Int × List Cl
  | 0, cs => (none, cs)
  | n + 1, cs =>
    let r := passPBU m cs.length cs
    if r.stop then (r.forced, r.kept)
    else if r.modified then loopPBU m n r.kept
    else (none, r.kept)

/-- `pb.simplifyPB()` entered with `pb.Status == Unsat` (precondition: `pb.status = .unsat`).
    The final `if pb.Status == Indet && …` does nothing. -/
def simplifyPBU (pb : Pb) : Pb :=
  let pb := replicateUnits pb
  let r := loopPBU pb.model (pbFuel pb.clauses) pb.clauses
  match r.1 with
  | some lit => addUnit { pb with clauses := r.2 } lit
  | none => { pb with clauses := r.2 }

/-! ## The tail of `ParseOPB` -/

/-- Every literal is non-null and its variable is below `n` (`pb.Model[lit.Var()]` is in range). -/
def litsInRange (n : Nat) (ls : List Int) : Bool := ls.all (fun l => l != 0 && decide (l.natAbs ≤ n))

/-- What `ParseOPB` does after the scanner loop, from the state `st` the loop ended in.
    * `NewPBClause` panics on a cardinality below 1 (never the case for a constraint the case
      analysis kept; checked here because it is part of `NewPBClause`);
    * `pb.Model = make([]decLevel, pb.NbVars)` (`NbVars ≥ 0`: it starts at 0 and only grows);
    * the unit loop; conflicting units: `pb.Status = Unsat; return`;
    * `pb.simplifyPB()`: `GS.Simplify.simplifyPB` when the status is `Indet`, `simplifyPBU` when a
      line already set it to `Unsat`. -/
def tailOpb (st : OpbState) : Except String Pb :=
  let n := st.nbVars.toNat
  if st.kept.any (fun k => decide (k.atLeast < 1)) then .error "panic: Invalid cardinality value"
  else
    let clauses := st.kept.map newPBClause
    match bindUnitsChk st.units (List.replicate n 0) with
    | .error e => .error e
    | .ok (m, true) => .ok ⟨n, clauses, .unsat, st.units, m⟩
    | .ok (m, false) =>
      if !st.kept.all (fun k => litsInRange n k.lits) then
        .error "unmodelled: null or out-of-range literal in a constraint (index out of range if simplifyPB reaches it)"
      else if st.unsat then .ok (simplifyPBU ⟨n, clauses, .unsat, st.units, m⟩)
      else .ok (simplifyPB ⟨n, clauses, .indet, st.units, m⟩)

/-- **`solver.ParseOPB`** on the lines of a text: the problem (`Status`, `NbVars`, `Units`,
    `Clauses`, `Model`) and the cost function (`minLits` / `minWeights` as `(weight, literal)`
    terms; `none`: no `min:` line). Errors: `panic: …` (Go panics), `unmodelled: …` (see the
    header), anything else (Go returns an error). -/
def parseOpbFull (lines : List Line) : Except String (Pb × Option (List (Int × Int))) :=
  match parseOpbLines lines with
  | .error e => .error e
  | .ok st =>
    match tailOpb st with
    | .error e => .error e
    | .ok pb => .ok (pb, st.obj)

end GS.OpbFull
