import GS.Spec.Basic
/-!
# GS.Model.Enum — mirror of `Enumerate` / `CountModels` (solver/solver.go)

Core-only. Two parts.

* `expand` / `countCurrent` mirror `addCurrentModels` / `countCurrentModels`: the current
  (possibly partial) model `lastModel` is a `List (Option Bool)` (`none` = level 0 = unbound);
  the `2^k` completions are produced by the Go bit-mask loop (`i` from `0` to `2^k-1`, the
  `j`-th unbound variable gets bit `j` of `i`).
* `enumLoop` / `countLoop` mirror the outer loop of `Enumerate` / `CountModels` over an
  abstract search oracle `step` (one call = "run `search` until `Sat` or `Unsat`"): on a model,
  deliver its completions, compute `decisionLits` (negations of the decisions `D`), stop when
  there is none, otherwise add them as a unit (one literal) or as a new problem clause
  (`appendClause`) and go on. Both cases of the Go `switch` add the same constraint
  `Lin.ofClause (D.map (-·))`; they are kept apart in `addBlock` only to follow the code.

The Go counters are `uint64` converted to `int`; `countCurrentGo` mirrors that wrap-around
(the unbounded `countCurrent` is what the property is stated against).
-/
namespace GS.Enum

/-! ### `addCurrentModels` / `countCurrentModels` -/

/-- Number of unbound variables (`lvl == 0`) of the current model. -/
def nbUnbound : List (Option Bool) → Nat
  | [] => 0
  | none :: m => nbUnbound m + 1
  | some _ :: m => nbUnbound m

/-- `countCurrentModels`: `nb` starts at 1 and is doubled for every unbound variable. -/
def countCurrent (m : List (Option Bool)) : Nat := 2 ^ nbUnbound m

/-- The same with the Go types: `nb` is a `uint64` (doubling wraps modulo `2^64`) and the
    result is `int(nb)` (two's complement reading of the 64 bits). -/
def countCurrentGo (m : List (Option Bool)) : Int :=
  let nb : Nat := 2 ^ nbUnbound m % 2 ^ 64
  if nb < 2 ^ 63 then (nb : Int) else (nb : Int) - 2 ^ 64

/-- Inner loop of `addCurrentModels` for a fixed `i`: bound variables keep their value, the
    `j`-th unbound variable (counting from `j`) gets `i & (1 << j) != 0`. -/
def fillFrom (i : Nat) : Nat → List (Option Bool) → List Bool
  | _, [] => []
  | j, some b :: m => b :: fillFrom i j m
  | j, none :: m => i.testBit j :: fillFrom i (j + 1) m

/-- `addCurrentModels`: the models sent on the channel, in order. -/
def expand (m : List (Option Bool)) : List (List Bool) :=
  (List.range (2 ^ nbUnbound m)).map (fun i => fillFrom i 0 m)

/-- `bs` is a total list that agrees with `m` on its bound positions (same length). -/
def agreesB : List (Option Bool) → List Bool → Bool
  | [], [] => true
  | some b :: m, c :: bs => (b == c) && agreesB m bs
  | none :: m, _ :: bs => agreesB m bs
  | _, _ => false

/-! ### the enumeration loop -/

/-- All literals of `D` are true under the boolean list `bs`. -/
def allTrue (bs : List Bool) (D : List Int) : Bool := D.all (litTrue (asgOf bs))

/-- `decisionLits`: the negations of the decision literals. -/
def negLits (D : List Int) : List Int := D.map (fun l => -l)

/-- The blocking clause `¬D`. -/
def block (D : List Int) : Lin := Lin.ofClause (negLits D)

/-- The `switch len(lits)` of the Go loop, cases 1 and default: a single literal is propagated
    as a top-level unit, several literals are appended as a new problem clause. -/
def addBlock (p : Problem) (lits : List Int) : Problem :=
  match lits with
  | [l] => p ++ [Lin.ofClause [l]]      -- propagateUnits(lits)
  | ls => p ++ [Lin.ofClause ls]        -- appendClause(NewClause(lits))

theorem addBlock_eq (p : Problem) (lits : List Int) : addBlock p lits = p ++ [Lin.ofClause lits] := by
  unfold addBlock
  split <;> rfl

/-- Search oracle: on a problem, a model (`none` = unbound) with its decision literals, or
    `none` for `Unsat`. -/
abbrev Step := Problem → Option (List (Option Bool) × List Int)

/-- Outer loop of `Enumerate` (models delivered, in order). `fuel` bounds the number of rounds. -/
def enumLoop (step : Step) : Nat → Problem → List (List Bool)
  | 0, _ => []
  | fuel + 1, p =>
    match step p with
    | none => []                                    -- status == Unsat
    | some (m, D) =>
      expand m ++                                   -- nb += s.addCurrentModels(models)
        (match negLits D with                       -- lits := s.decisionLits()
         | [] => []                                 -- case 0: s.status = Unsat
         | l :: ls => enumLoop step fuel (addBlock p (l :: ls)))

/-- Outer loop of `CountModels` (and the value returned by `Enumerate`). -/
def countLoop (step : Step) : Nat → Problem → Nat
  | 0, _ => 0
  | fuel + 1, p =>
    match step p with
    | none => 0
    | some (m, D) =>
      countCurrent m +
        (match negLits D with
         | [] => 0
         | l :: ls => countLoop step fuel (addBlock p (l :: ls)))

/-! ### an executable oracle: exhaustive search, every variable is a decision -/

/-- The literals that describe a total model: variable `i+1` positively iff `bs[i]`. -/
def litsOf (bs : List Bool) : List Int :=
  (List.range bs.length).map (fun i => if bs.getD i false then ((i : Int) + 1) else -((i : Int) + 1))

/-- Oracle for total models with explicit decisions (the reading used by the harness: the
    model and the decision literals are those observed in the Go run). -/
def totalStep (f : Problem → Option (List Bool × List Int)) : Step := fun p =>
  match f p with
  | none => none
  | some (bs, D) => some (bs.map some, D)

/-- First model over `1..n` in the order of `leaves`; all variables are decisions. -/
def bruteStepT (n : Nat) : Problem → Option (List Bool × List Int) := fun p =>
  match modelsOver n p with
  | [] => none
  | bs :: _ => some (bs, litsOf bs)

def bruteStep (n : Nat) : Step := totalStep (bruteStepT n)

end GS.Enum
