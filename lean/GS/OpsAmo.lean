import GS.Proto
import GS.Model.Amo
/-!
Driver op for the `DetectAtMostOne` mirror.

`amo <nbVars> | <card l l l … ; card l l l … ; …>` answers the constraint list after detection,
in the same format (`card l l l …` groups separated by ` ; `) and in the order of `pb.Clauses`.
A literal `0` is unparsable (`none`, the driver answers `bad-op`); a 2-literal constraint with a
literal outside `1..nbVars` answers `index-out-of-range` (the Go code panics there).
-/
namespace GS.OpsAmo
open GS GS.Proto GS.Amo

def constrOfInts : List Int → Option C
  | [] => none
  | k :: ls => if k < 0 ∨ ls.contains 0 then none else some ⟨ls, k.toNat⟩

def showConstrs (cs : List C) : String :=
  showGroups (cs.map (fun c => (c.card : Int) :: c.lits))

/-- `amo nbVars | card l l … ; card l l … ; …` -/
def opAmo (fs : List String) : Option String := do
  let [n, g] := fs | none
  let n ← parseNat n
  let gs ← parseGroups g
  let cs ← gs.mapM constrOfInts
  match detect? n cs with
  | none => some "index-out-of-range"
  | some r => some (showConstrs r)

def table : List (String × (List String → Option String)) := [("amo", opAmo)]

/-! Complete 3-clique of negative literals: the two binary clauses of the first literal are
replaced (the clause `-2 -3` stays, as in the Go code); incomplete clique: nothing changes.
(String parsing does not reduce in the kernel, so the string-level checks are `#guard`s; the
list-level facts are proved by `decide`.) -/
example : (([[1,-1,-2],[1,-1,-3],[1,-2,-3]] : List (List Int)).mapM constrOfInts).bind (detect? 3)
    = some [⟨[-2,-3],1⟩, ⟨[-1,-2,-3],2⟩] := by decide
example : (([[1,-1,-2],[1,-1,-3]] : List (List Int)).mapM constrOfInts).bind (detect? 3)
    = some [⟨[-1,-2],1⟩, ⟨[-1,-3],1⟩] := by decide
example : (([[1,-1,-2],[1,-1,-4]] : List (List Int)).mapM constrOfInts).bind (detect? 3) = none := by decide
#guard opAmo ["3", "1 -1 -2 ; 1 -1 -3 ; 1 -2 -3"] == some "1 -2 -3 ; 2 -1 -2 -3"
#guard opAmo ["3", "1 -1 -2 ; 1 -1 -3"] == some "1 -1 -2 ; 1 -1 -3"
#guard opAmo ["3", "1 -1 -2 ; 1 -1 -4"] == some "index-out-of-range"
#guard opAmo ["3", ""] == some ""
#guard opAmo ["3", "1 -1 0"] == none

end GS.OpsAmo
