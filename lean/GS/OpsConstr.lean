import GS.Proto
import GS.Model.Constr
/-!
# GS.OpsConstr — driver ops for the constraint-constructor mirrors (`GS.Model.Constr`)

Input weights field: an empty field is the Go `nil` slice, the single token `e` is a non-nil
slice of length 0, anything else a space-separated list of integers.
Output weights: always explicit — a `nil` `Weights` is printed as one `1` per literal.
-/
namespace GS.OpsConstr
open GS GS.Proto GS.Constr

/-- empty field → `nil` slice; `e` → empty non-nil slice; else the integers. -/
def parseWeights (s : String) : Option (Option (List Int)) :=
  let t := trim s
  if t = "" then some none
  else if t = "e" then some (some [])
  else (parseInts t).map some

/-- Weights printed explicitly (`nil` = one `1` per literal). -/
def explicitWeights (c : PBC) : List Int :=
  match c.weights with
  | none => c.lits.map (fun _ => 1)
  | some ws => ws

def showPBC (sep : String) (c : PBC) : String :=
  s!"{showInts c.lits}{sep}{showInts (explicitWeights c)}{sep}{c.atLeast}"

/-- `gteq <lits> | <weights> | <n>` → `<lits> | <weights> | <atLeast>` or `panic` -/
def opGtEq (fs : List String) : Option String := do
  let [l, w, n] := fs | none
  let l ← parseInts l; let w ← parseWeights w; let n ← (trim n).toInt?
  match gtEq l w n with
  | none => some "panic"
  | some c => some (showPBC " | " c)

/-- `lteq <lits> | <weights> | <n>` → `<lits> | <weights> | <atLeast>` or `panic` -/
def opLtEq (fs : List String) : Option String := do
  let [l, w, n] := fs | none
  let l ← parseInts l; let w ← parseWeights w; let n ← (trim n).toInt?
  match ltEq l w n with
  | none => some "panic"
  | some c => some (showPBC " | " c)

/-- `eq <lits> | <weights> | <n>` → constraints joined by ` ; `, each `<lits> / <weights> / <atLeast>`;
    the empty string when no constraint is returned; `panic`. -/
def opEq (fs : List String) : Option String := do
  let [l, w, n] := fs | none
  let l ← parseInts l; let w ← parseWeights w; let n ← (trim n).toInt?
  match eq l w n with
  | none => some "panic"
  | some cs => some (" ; ".intercalate (cs.map (showPBC " / ")))

/-- `atmost <lits> | <n>` → `<lits> | <atLeast>` -/
def opAtMost (fs : List String) : Option String := do
  let [l, n] := fs | none
  let l ← parseInts l; let n ← (trim n).toInt?
  let c := atMost l n
  some s!"{showInts c.lits} | {c.atLeast}"

/-- `saturate <lits> | <weights> | <atLeast>` → `<lits> | <weights> | <atLeast>` (extra op;
    a `nil` weights stays `nil` and is printed as ones). -/
def opSaturate (fs : List String) : Option String := do
  let [l, w, n] := fs | none
  let l ← parseInts l; let w ← parseWeights w; let n ← (trim n).toInt?
  some (showPBC " | " (saturate ⟨l, w, n⟩))

/-- `frontpb <lits> | <weights> | <atLeast>` → `dropped` | `unsat` | `units <lits>` | `kept` (extra op) -/
def opFrontPB (fs : List String) : Option String := do
  let [l, w, n] := fs | none
  let l ← parseInts l; let w ← parseWeights w; let n ← (trim n).toInt?
  match frontPB ⟨l, w, n⟩ with
  | .dropped => some "dropped"
  | .unsat => some "unsat"
  | .units ls => some s!"units {showInts ls}"
  | .kept => some "kept"

def table : List (String × (List String → Option String)) :=
  [("gteq", opGtEq), ("lteq", opLtEq), ("eq", opEq), ("atmost", opAtMost),
   ("saturate", opSaturate), ("frontpb", opFrontPB)]

end GS.OpsConstr
