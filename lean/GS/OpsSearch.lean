import GS.Proto
import GS.Model.Search
import GS.OpsWatch
/-!
# GS.OpsSearch — driver op for the CDCL replay mirror `GS.Search`

`searchrun <nbVars> <nbMax> | <clauses> | <units> | <events>`

* clauses: `;`-separated groups of DIMACS literals (length ≥ 2; id = position); units: the literals `New` puts
  on the trail at level 1; nbMax: `wl.nbMax` when `Solve` is called;
* events: `;`-separated groups of integers with a leading tag:
  `1 lit lvl` (unify) · `2 l0 l1 …` (learn) · `3` (restart) · `4 id …` (reduce: order left by the sort) ·
  `5 id …` (reduced: `wl.learned` afterwards) · `6 0|1` (search returned Unsat / Sat).

Answer: `ok <sat|unsat> | <model> | <trail> | <nb conflicts> | <learned ids> | <wbin> | <wlong> | <clauses>`
(watchers as in `wunify`, with the ids of this op; clauses: the original ones then the learned ones still held,
literals in their current order), or `reject <event index> <reason>`, or `panic <event index> <where>`.
-/
namespace GS.OpsSearch
open GS GS.Proto GS.Watch GS.Search

def parseEvent : List Int → Option Event
  | [1, lit, lvl] => some (.unify lit lvl)
  | 2 :: lits => some (.learn lits)
  | [3] => some .restart
  | 4 :: ids => if ids.all (0 ≤ ·) then some (.reduce (ids.map Int.toNat)) else none
  | 5 :: ids => if ids.all (0 ≤ ·) then some (.reduced (ids.map Int.toNat)) else none
  | [6, 0] => some (.fin false)
  | [6, 1] => some (.fin true)
  | _ => none

def showNats (xs : List Nat) : String := " ".intercalate (xs.map toString)

def opSearchrun (fs : List String) : Option String := do
  let [hd, cls, units, evs] := fs | none
  let [n, nbMax] ← parseInts hd | none
  if n < 0 ∨ nbMax < 0 then none
  let cls ← parseGroups cls
  let units ← parseInts units
  let evs ← (← parseGroups evs).mapM parseEvent
  match init n.toNat nbMax.toNat cls units with
  | none => some "panic 0 New"
  | some st0 =>
    match run st0 evs with
    | .error (i, .reject msg) => some s!"reject {i} {msg}"
    | .error (i, .panic msg) => some s!"panic {i} {msg}"
    | .ok (st, v) =>
      let vs := match v with | .sat => "sat" | .unsat => "unsat"
      let held := (List.range st.nOrig ++ st.learned).filterMap (fun i => st.ws.clauses[i]?)
      some s!"ok {vs} | {showInts st.ws.model} | {showInts st.ws.trail} | {st.nbConfl} | {showNats st.learned} | {GS.OpsWatch.showWatchers st.ws.wbin} | {GS.OpsWatch.showWatchers st.ws.wlong} | {showGroups held}"

def table : List (String × (List String → Option String)) :=
  [("searchrun", opSearchrun)]

end GS.OpsSearch
