import GS.Spec.Basic
import GS.Check.Brute
import GS.Check.Rup
import GS.Proto
import GS.Ops
import GS.OpsAll
import GS.Props.C01
import GS.Props.C06
