// facts: regenerates lean/GS/Generated/Facts.lean from the Go source of /repo (go/ast only).
// The facts are the premises that the Lean protocol / non-interference models were
// instantiated with; GS/Props/Facts.lean states by `decide` that they still hold.
package main

import (
	"flag"
	"fmt"
	"go/ast"
	"go/build/constraint"
	"go/parser"
	"go/token"
	"os"
	"path/filepath"
	"sort"
	"strconv"
	"strings"
)

type pkgInfo struct {
	name  string
	files []*ast.File
	fset  *token.FileSet
}

func needsVerifTag(path string) bool {
	b, err := os.ReadFile(path)
	if err != nil {
		return false
	}
	for _, line := range strings.Split(string(b), "\n") {
		line = strings.TrimSpace(line)
		if strings.HasPrefix(line, "package ") {
			break
		}
		if constraint.IsGoBuild(line) {
			expr, err := constraint.Parse(line)
			if err != nil {
				return false
			}
			// keep the file iff it is compiled WITHOUT the verif tag
			return !expr.Eval(func(tag string) bool { return tag != "verif" && (tag == "linux" || tag == "amd64" || tag == "gc") })
		}
	}
	return false
}

func loadPkg(dir, name string) *pkgInfo {
	fset := token.NewFileSet()
	p := &pkgInfo{name: name, fset: fset}
	ents, _ := os.ReadDir(dir)
	for _, e := range ents {
		n := e.Name()
		if e.IsDir() || !strings.HasSuffix(n, ".go") || strings.HasSuffix(n, "_test.go") {
			continue
		}
		path := filepath.Join(dir, n)
		if needsVerifTag(path) {
			continue
		}
		f, err := parser.ParseFile(fset, path, nil, parser.ParseComments)
		if err != nil {
			fmt.Fprintf(os.Stderr, "parse %s: %v\n", path, err)
			os.Exit(1)
		}
		p.files = append(p.files, f)
	}
	return p
}

func exprString(e ast.Expr) string {
	switch x := e.(type) {
	case *ast.Ident:
		return x.Name
	case *ast.SelectorExpr:
		return exprString(x.X) + "." + x.Sel.Name
	case *ast.IndexExpr:
		return exprString(x.X) + "[]"
	case *ast.StarExpr:
		return "*" + exprString(x.X)
	case *ast.CallExpr:
		return exprString(x.Fun) + "()"
	case *ast.ParenExpr:
		return exprString(x.X)
	case *ast.UnaryExpr:
		return x.Op.String() + exprString(x.X)
	case *ast.ArrayType:
		return "[]" + exprString(x.Elt)
	case *ast.StructType:
		return "struct{}"
	}
	return "?"
}

func rootIdent(e ast.Expr) *ast.Ident {
	for {
		switch x := e.(type) {
		case *ast.Ident:
			return x
		case *ast.SelectorExpr:
			e = x.X
		case *ast.IndexExpr:
			e = x.X
		case *ast.SliceExpr:
			e = x.X
		case *ast.StarExpr:
			e = x.X
		case *ast.ParenExpr:
			e = x.X
		default:
			return nil
		}
	}
}

func funcName(fd *ast.FuncDecl) string {
	if fd.Recv != nil && len(fd.Recv.List) > 0 {
		t := fd.Recv.List[0].Type
		if s, ok := t.(*ast.StarExpr); ok {
			t = s.X
		}
		return exprString(t) + "." + fd.Name.Name
	}
	return fd.Name.Name
}

// ---- package-level variables and who writes them ----

func pkgVars(p *pkgInfo) (vars []string, writes [][3]string) {
	set := map[string]bool{}
	for _, f := range p.files {
		for _, d := range f.Decls {
			gd, ok := d.(*ast.GenDecl)
			if !ok || gd.Tok != token.VAR {
				continue
			}
			for _, s := range gd.Specs {
				for _, n := range s.(*ast.ValueSpec).Names {
					if n.Name != "_" {
						set[n.Name] = true
						vars = append(vars, n.Name)
					}
				}
			}
		}
	}
	sort.Strings(vars)
	for _, f := range p.files {
		for _, d := range f.Decls {
			fd, ok := d.(*ast.FuncDecl)
			if !ok || fd.Body == nil {
				continue
			}
			// identifiers declared locally shadow package variables: collect them coarsely
			local := map[string]bool{}
			if fd.Recv != nil {
				for _, fl := range fd.Recv.List {
					for _, n := range fl.Names {
						local[n.Name] = true
					}
				}
			}
			for _, fl := range fd.Type.Params.List {
				for _, n := range fl.Names {
					local[n.Name] = true
				}
			}
			if fd.Type.Results != nil {
				for _, fl := range fd.Type.Results.List {
					for _, n := range fl.Names {
						local[n.Name] = true
					}
				}
			}
			ast.Inspect(fd.Body, func(n ast.Node) bool {
				switch x := n.(type) {
				case *ast.AssignStmt:
					if x.Tok == token.DEFINE {
						for _, l := range x.Lhs {
							if id, ok := l.(*ast.Ident); ok {
								local[id.Name] = true
							}
						}
					}
				case *ast.ValueSpec:
					for _, id := range x.Names {
						local[id.Name] = true
					}
				case *ast.RangeStmt:
					if x.Tok == token.DEFINE {
						if id, ok := x.Key.(*ast.Ident); ok {
							local[id.Name] = true
						}
						if id, ok := x.Value.(*ast.Ident); ok {
							local[id.Name] = true
						}
					}
				}
				return true
			})
			note := func(e ast.Expr) {
				if id := rootIdent(e); id != nil && set[id.Name] && !local[id.Name] {
					writes = append(writes, [3]string{p.name, id.Name, funcName(fd)})
				}
			}
			ast.Inspect(fd.Body, func(n ast.Node) bool {
				switch x := n.(type) {
				case *ast.AssignStmt:
					if x.Tok != token.DEFINE {
						for _, l := range x.Lhs {
							note(l)
						}
					}
					// slices derived from a package variable: lits := bufLits[:1] then writes through lits
					for i, r := range x.Rhs {
						if se, ok := r.(*ast.SliceExpr); ok {
							if id := rootIdent(se.X); id != nil && set[id.Name] && !local[id.Name] && i < len(x.Lhs) {
								writes = append(writes, [3]string{p.name, id.Name, funcName(fd) + " (aliased by a slice expression)"})
							}
						}
					}
				case *ast.IncDecStmt:
					note(x.X)
				case *ast.UnaryExpr:
					if x.Op == token.AND { // address taken: may be written through the pointer
						if id := rootIdent(x.X); id != nil && set[id.Name] && !local[id.Name] {
							writes = append(writes, [3]string{p.name, id.Name, funcName(fd) + " (address taken)"})
						}
					}
				}
				return true
			})
		}
	}
	return vars, writes
}

// ---- uses of Solver.Certified / Solver.CertChan inside package solver ----

func certUses(p *pkgInfo) (readers []string, allGuarded bool) {
	allGuarded = true
	seen := map[string]bool{}
	for _, f := range p.files {
		for _, d := range f.Decls {
			fd, ok := d.(*ast.FuncDecl)
			if !ok || fd.Body == nil {
				continue
			}
			var stack []ast.Node
			ast.Inspect(fd.Body, func(n ast.Node) bool {
				if n == nil {
					stack = stack[:len(stack)-1]
					return true
				}
				stack = append(stack, n)
				sel, ok := n.(*ast.SelectorExpr)
				if !ok || (sel.Sel.Name != "Certified" && sel.Sel.Name != "CertChan") {
					return true
				}
				if !seen[funcName(fd)] {
					seen[funcName(fd)] = true
					readers = append(readers, funcName(fd))
				}
				// guarded: either this IS the condition `s.Certified` of an if, or it lies inside the body of such an if
				guarded := false
				for i := len(stack) - 2; i >= 0; i-- {
					if is, ok := stack[i].(*ast.IfStmt); ok {
						if c, ok := is.Cond.(*ast.SelectorExpr); ok && c.Sel.Name == "Certified" {
							guarded = true
							break
						}
					}
				}
				if !guarded {
					allGuarded = false
				}
				return true
			})
		}
	}
	sort.Strings(readers)
	return
}

// ---- channel operations of a function, in source order ----

func chanOps(p *pkgInfo, fname string) []string {
	var ops []string
	for _, f := range p.files {
		for _, d := range f.Decls {
			fd, ok := d.(*ast.FuncDecl)
			if !ok || fd.Body == nil || funcName(fd) != fname {
				continue
			}
			var walk func(n ast.Node, ctx string)
			walk = func(n ast.Node, ctx string) {
				ast.Inspect(n, func(m ast.Node) bool {
					switch x := m.(type) {
					case *ast.DeferStmt:
						if id, ok := x.Call.Fun.(*ast.Ident); ok && id.Name == "close" && len(x.Call.Args) == 1 {
							ops = append(ops, ctx+"defer-close "+exprString(x.Call.Args[0]))
							return false
						}
					case *ast.GoStmt:
						if fl, ok := x.Call.Fun.(*ast.FuncLit); ok {
							ops = append(ops, ctx+"go func")
							walk(fl.Body, ctx+"goroutine: ")
							return false
						}
						args := make([]string, len(x.Call.Args))
						for i, a := range x.Call.Args {
							args[i] = exprString(a)
						}
						ops = append(ops, ctx+"go "+exprString(x.Call.Fun)+"("+strings.Join(args, ",")+")")
						return false
					case *ast.SendStmt:
						ops = append(ops, ctx+"send "+exprString(x.Chan))
					case *ast.UnaryExpr:
						if x.Op == token.ARROW {
							ops = append(ops, ctx+"recv "+exprString(x.X))
						}
					case *ast.RangeStmt:
						// ranging over a channel-typed expression cannot be told without types: record
						// ranges over identifiers / selectors whose name mentions Chan, Res or results/models
						s := exprString(x.X)
						l := strings.ToLower(s)
						if strings.Contains(l, "chan") || strings.Contains(l, "res") || strings.Contains(l, "models") || l == "ch" {
							ops = append(ops, ctx+"range "+s)
						}
					case *ast.CallExpr:
						if id, ok := x.Fun.(*ast.Ident); ok && id.Name == "close" && len(x.Args) == 1 {
							ops = append(ops, ctx+"close "+exprString(x.Args[0]))
						}
						if id, ok := x.Fun.(*ast.Ident); ok && id.Name == "make" && len(x.Args) >= 1 {
							if ct, ok := x.Args[0].(*ast.ChanType); ok {
								capacity := "0"
								if len(x.Args) == 2 {
									capacity = exprString(x.Args[1])
									if bl, ok := x.Args[1].(*ast.BasicLit); ok {
										capacity = bl.Value
									}
								}
								ops = append(ops, ctx+"make chan "+exprString(ct.Value)+" cap "+capacity)
							}
						}
					}
					return true
				})
			}
			walk(fd.Body, "")
		}
	}
	return ops
}

// ---- command line table ----

func cliFacts(p *pkgInfo) (flags []string, suffixes []string) {
	for _, f := range p.files {
		ast.Inspect(f, func(n ast.Node) bool {
			c, ok := n.(*ast.CallExpr)
			if !ok {
				return true
			}
			if sel, ok := c.Fun.(*ast.SelectorExpr); ok {
				if id, ok := sel.X.(*ast.Ident); ok && id.Name == "flag" && strings.HasSuffix(sel.Sel.Name, "Var") && len(c.Args) >= 2 {
					if bl, ok := c.Args[1].(*ast.BasicLit); ok {
						s, _ := strconv.Unquote(bl.Value)
						flags = append(flags, s)
					}
				}
				if id, ok := sel.X.(*ast.Ident); ok && id.Name == "strings" && sel.Sel.Name == "HasSuffix" && len(c.Args) == 2 {
					if bl, ok := c.Args[1].(*ast.BasicLit); ok {
						s, _ := strconv.Unquote(bl.Value)
						suffixes = append(suffixes, s)
					}
				}
			}
			return true
		})
	}
	sort.Strings(flags)
	set := map[string]bool{}
	var uniq []string
	for _, s := range suffixes {
		if !set[s] {
			set[s] = true
			uniq = append(uniq, s)
		}
	}
	sort.Strings(uniq)
	return flags, uniq
}

func intConsts(p *pkgInfo) [][2]string {
	var res [][2]string
	for _, f := range p.files {
		for _, d := range f.Decls {
			gd, ok := d.(*ast.GenDecl)
			if !ok || gd.Tok != token.CONST {
				continue
			}
			for _, s := range gd.Specs {
				vs := s.(*ast.ValueSpec)
				for i, n := range vs.Names {
					if i < len(vs.Values) {
						if bl, ok := vs.Values[i].(*ast.BasicLit); ok && bl.Kind == token.INT {
							res = append(res, [2]string{n.Name, strings.ReplaceAll(bl.Value, "_", "")})
						}
					}
				}
			}
		}
	}
	sort.Slice(res, func(i, j int) bool { return res[i][0] < res[j][0] })
	return res
}

func q(s string) string { return strconv.Quote(s) }

func leanList(xs []string) string {
	qs := make([]string, len(xs))
	for i, x := range xs {
		qs[i] = q(x)
	}
	return "[" + strings.Join(qs, ", ") + "]"
}

func main() {
	repo := flag.String("repo", "/repo", "repository root")
	out := flag.String("out", "", "output Lean file")
	flag.Parse()
	pk := map[string]*pkgInfo{
		"solver":  loadPkg(filepath.Join(*repo, "solver"), "solver"),
		"maxsat":  loadPkg(filepath.Join(*repo, "maxsat"), "maxsat"),
		"explain": loadPkg(filepath.Join(*repo, "explain"), "explain"),
		"bf":      loadPkg(filepath.Join(*repo, "bf"), "bf"),
		"main":    loadPkg(*repo, "main"),
	}
	var sb strings.Builder
	sb.WriteString("/-! GENERATED by /verif/facts from the Go source of /repo on every run. Do not edit. -/\nnamespace GS.Generated\n\n")
	var allVars, allWrites []string
	for _, name := range []string{"bf", "explain", "maxsat", "solver"} {
		vars, writes := pkgVars(pk[name])
		for _, v := range vars {
			allVars = append(allVars, name+"."+v)
		}
		for _, w := range writes {
			allWrites = append(allWrites, w[0]+"."+w[1]+" written in "+w[2])
		}
	}
	sort.Strings(allWrites)
	sb.WriteString("/-- package-level variables of the library packages (non-test files, `verif` tag off) -/\n")
	sb.WriteString("def pkgVars : List String := " + leanList(allVars) + "\n\n")
	sb.WriteString("/-- every place where a package-level variable is assigned, index-assigned, sliced into an alias, incremented or has its address taken inside a function -/\n")
	sb.WriteString("def pkgVarWrites : List String := " + leanList(allWrites) + "\n\n")
	readers, guarded := certUses(pk["solver"])
	sb.WriteString("/-- functions of package solver that mention Solver.Certified / Solver.CertChan -/\n")
	sb.WriteString("def certReaders : List String := " + leanList(readers) + "\n")
	sb.WriteString(fmt.Sprintf("/-- every such mention is the condition, or inside the body, of `if s.Certified` -/\ndef certAllGuarded : Bool := %v\n\n", guarded))
	sb.WriteString("/-- channel operations of the functions that own the result / certificate channels, in source order -/\n")
	sb.WriteString("def chanOps : List (String × List String) := [\n")
	entries := [][2]string{{"solver", "Solver.Optimal"}, {"solver", "Solver.Enumerate"}, {"solver", "Solver.addCurrentModels"}, {"solver", "Solver.addLearned"}, {"solver", "Solver.addLearnedUnit"}, {"solver", "Solver.setUnsat"}, {"solver", "Solver.Minimize"}, {"maxsat", "Solver.Optimal"}, {"explain", "Problem.UnsatSubset"}, {"explain", "Problem.UnsatChan"}, {"main", "solve"}, {"main", "countModels"}, {"main", "parseAndSolveWCNF"}}
	for i, e := range entries {
		sep := ","
		if i == len(entries)-1 {
			sep = ""
		}
		sb.WriteString("  (" + q(e[0]+"."+e[1]) + ", " + leanList(chanOps(pk[e[0]], e[1])) + ")" + sep + "\n")
	}
	sb.WriteString("]\n\n")
	flags, suffixes := cliFacts(pk["main"])
	sb.WriteString("def cliFlags : List String := " + leanList(flags) + "\n")
	sb.WriteString("def cliSuffixes : List String := " + leanList(suffixes) + "\n\n")
	sb.WriteString("def consts : List (String × Nat) := [")
	cs := intConsts(pk["solver"])
	for i, c := range cs {
		if i > 0 {
			sb.WriteString(", ")
		}
		sb.WriteString("(" + q(c[0]) + ", " + c[1] + ")")
	}
	sb.WriteString("]\n\nend GS.Generated\n")
	if *out == "" {
		fmt.Print(sb.String())
		return
	}
	os.MkdirAll(filepath.Dir(*out), 0o755)
	if err := os.WriteFile(*out, []byte(sb.String()), 0o644); err != nil {
		fmt.Fprintln(os.Stderr, err)
		os.Exit(1)
	}
}
