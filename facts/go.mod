module gsverif/facts

go 1.19
