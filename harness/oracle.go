package main

import (
	"bufio"
	"fmt"
	"io"
	"os"
	"os/exec"
	"strconv"
	"strings"
)

// Oracle is one gsdriver process (the compiled Lean model / verified checkers), spoken to
// through the line protocol: one query line in, one answer line out.
type Oracle struct {
	cmd   *exec.Cmd
	in    io.WriteCloser
	out   *bufio.Reader
	Calls int
}

func driverPath() string {
	if p := os.Getenv("GSDRIVER"); p != "" {
		return p
	}
	return "/verif/lean/.lake/build/bin/gsdriver"
}

func NewOracle() (*Oracle, error) {
	cmd := exec.Command(driverPath())
	in, err := cmd.StdinPipe()
	if err != nil {
		return nil, err
	}
	out, err := cmd.StdoutPipe()
	if err != nil {
		return nil, err
	}
	cmd.Stderr = os.Stderr
	if err := cmd.Start(); err != nil {
		return nil, err
	}
	return &Oracle{cmd: cmd, in: in, out: bufio.NewReaderSize(out, 1<<20)}, nil
}

func (o *Oracle) Close() {
	o.in.Close()
	o.cmd.Wait()
}

// Ask sends one query and returns the model's answer.
func (o *Oracle) Ask(q string) string {
	o.Calls++
	if strings.ContainsAny(q, "\n\r") {
		panic("oracle query contains a newline")
	}
	if _, err := io.WriteString(o.in, q+"\n"); err != nil {
		panic(fmt.Sprintf("oracle write: %v", err))
	}
	line, err := o.out.ReadString('\n')
	if err != nil {
		panic(fmt.Sprintf("oracle read: %v (query %q)", err, q))
	}
	return strings.TrimRight(line, "\n")
}

// ---- encoders for the line protocol ----

// Lin is Σ coef·[lit] ≥ degree, the harness-side image of GS.Lin.
type Lin struct {
	Coefs  []int `json:"c"`
	Lits   []int `json:"l"`
	Degree int   `json:"d"`
}

func clauseLin(lits []int) Lin {
	c := make([]int, len(lits))
	for i := range c {
		c[i] = 1
	}
	return Lin{Coefs: c, Lits: append([]int(nil), lits...), Degree: 1}
}

func cardLin(lits []int, k int) Lin {
	l := clauseLin(lits)
	l.Degree = k
	return l
}

func cnfLins(cnf [][]int) []Lin {
	res := make([]Lin, len(cnf))
	for i, c := range cnf {
		res[i] = clauseLin(c)
	}
	return res
}

func encInts(xs []int) string {
	var sb strings.Builder
	for i, x := range xs {
		if i > 0 {
			sb.WriteByte(' ')
		}
		sb.WriteString(strconv.Itoa(x))
	}
	return sb.String()
}

func encLin(l Lin) string {
	var sb strings.Builder
	sb.WriteString(strconv.Itoa(l.Degree))
	for i := range l.Lits {
		sb.WriteByte(' ')
		sb.WriteString(strconv.Itoa(l.Coefs[i]))
		sb.WriteByte(' ')
		sb.WriteString(strconv.Itoa(l.Lits[i]))
	}
	return sb.String()
}

func encProblem(p []Lin) string {
	parts := make([]string, len(p))
	for i, l := range p {
		parts[i] = encLin(l)
	}
	return strings.Join(parts, " ; ")
}

func encTerms(coefs, lits []int) string {
	var sb strings.Builder
	for i := range lits {
		if i > 0 {
			sb.WriteByte(' ')
		}
		sb.WriteString(strconv.Itoa(coefs[i]))
		sb.WriteByte(' ')
		sb.WriteString(strconv.Itoa(lits[i]))
	}
	return sb.String()
}

func encCnf(f [][]int) string {
	parts := make([]string, len(f))
	for i, c := range f {
		if len(c) == 0 {
			parts[i] = "e"
		} else {
			parts[i] = encInts(c)
		}
	}
	return strings.Join(parts, " ; ")
}

func encBools(m []bool) string {
	var sb strings.Builder
	for i, b := range m {
		if i > 0 {
			sb.WriteByte(' ')
		}
		if b {
			sb.WriteByte('1')
		} else {
			sb.WriteByte('0')
		}
	}
	return sb.String()
}

// ---- typed queries ----

func (o *Oracle) Sat(n int, p []Lin) bool {
	a := o.Ask(fmt.Sprintf("sat %d | %s", n, encProblem(p)))
	switch a {
	case "1":
		return true
	case "0":
		return false
	}
	panic("oracle sat: " + a)
}

// Eval returns "ok", "viol <i>" or "len <k>".
func (o *Oracle) Eval(n int, p []Lin, m []bool) string {
	return o.Ask(fmt.Sprintf("eval %d | %s | %s", n, encProblem(p), encBools(m)))
}

// Opt returns (false,0) when unsatisfiable, else (true, minimum cost).
func (o *Oracle) Opt(n int, p []Lin, coefs, lits []int) (bool, int) {
	a := o.Ask(fmt.Sprintf("opt %d | %s | %s", n, encProblem(p), encTerms(coefs, lits)))
	if a == "none" {
		return false, 0
	}
	if strings.HasPrefix(a, "some ") {
		k, err := strconv.Atoi(a[5:])
		if err == nil {
			return true, k
		}
	}
	panic("oracle opt: " + a)
}

func (o *Oracle) Cost(coefs, lits []int, m []bool) int {
	a := o.Ask(fmt.Sprintf("cost %s | %s", encTerms(coefs, lits), encBools(m)))
	k, err := strconv.Atoi(a)
	if err != nil {
		panic("oracle cost: " + a)
	}
	return k
}

func (o *Oracle) Count(n int, p []Lin) int {
	a := o.Ask(fmt.Sprintf("count %d | %s", n, encProblem(p)))
	k, err := strconv.Atoi(a)
	if err != nil {
		panic("oracle count: " + a)
	}
	return k
}

// Models returns the models over 1..n as bit strings ("010"), in the oracle's order.
func (o *Oracle) Models(n int, p []Lin) []string {
	a := o.Ask(fmt.Sprintf("models %d | %s", n, encProblem(p)))
	if a == "" {
		return nil
	}
	if a == "wf-error" || a == "bad-op" {
		panic("oracle models: " + a)
	}
	fs := strings.Fields(a)
	for i := range fs {
		fs[i] = strings.TrimPrefix(fs[i], "m")
	}
	return fs
}

func (o *Oracle) Entails(n int, p []Lin, c Lin) bool {
	a := o.Ask(fmt.Sprintf("ent %d | %s | %s", n, encProblem(p), encLin(c)))
	switch a {
	case "1":
		return true
	case "0":
		return false
	}
	panic("oracle ent: " + a)
}

// Rup returns the index of the first line that is not RUP (-1 if none) and whether the
// certificate refutes the formula.
func (o *Oracle) Rup(n int, f [][]int, lines [][]int) (firstBad int, refutes bool) {
	a := o.Ask(fmt.Sprintf("rup %d | %s | %s", n, encCnf(f), encCnf(lines)))
	var fb, rf int
	if _, err := fmt.Sscanf(a, "firstbad=%d refutes=%d", &fb, &rf); err != nil {
		panic("oracle rup: " + a)
	}
	return fb, rf == 1
}

func (o *Oracle) IsMUS(n int, m [][]int) bool {
	a := o.Ask(fmt.Sprintf("mus %d | %s", n, encCnf(m)))
	switch a {
	case "1":
		return true
	case "0":
		return false
	}
	panic("oracle mus: " + a)
}

func (o *Oracle) CnfSat(n int, f [][]int) bool {
	a := o.Ask(fmt.Sprintf("cnfsat %d | %s", n, encCnf(f)))
	switch a {
	case "1":
		return true
	case "0":
		return false
	}
	panic("oracle cnfsat: " + a)
}

func (o *Oracle) SubMulti(xs, ys [][]int) bool {
	a := o.Ask(fmt.Sprintf("submulti %s | %s", encCnf(xs), encCnf(ys)))
	switch a {
	case "1":
		return true
	case "0":
		return false
	}
	panic("oracle submulti: " + a)
}

// SoftLin is a weighted soft constraint.
type SoftLin struct {
	Weight int `json:"w"`
	C      Lin `json:"c"`
}

func encSoft(ss []SoftLin) string {
	parts := make([]string, len(ss))
	for i, s := range ss {
		parts[i] = strconv.Itoa(s.Weight) + " " + encLin(s.C)
	}
	return strings.Join(parts, " ; ")
}

// MaxSat returns (false,0) when the hard part is unsatisfiable, else the minimal violated weight.
func (o *Oracle) MaxSat(n int, hard []Lin, soft []SoftLin) (bool, int) {
	a := o.Ask(fmt.Sprintf("maxsat %d | %s | %s", n, encProblem(hard), encSoft(soft)))
	if a == "none" {
		return false, 0
	}
	if strings.HasPrefix(a, "some ") {
		if k, err := strconv.Atoi(a[5:]); err == nil {
			return true, k
		}
	}
	panic("oracle maxsat: " + a)
}

func (o *Oracle) Violated(soft []SoftLin, m []bool) int {
	a := o.Ask(fmt.Sprintf("violated %s | %s", encSoft(soft), encBools(m)))
	k, err := strconv.Atoi(a)
	if err != nil {
		panic("oracle violated: " + a)
	}
	return k
}

// parseIntsLine reads a line of space-separated integers (an answer of the model driver).
func parseIntsLine(s string) ([]int, error) {
	var res []int
	for _, t := range strings.Fields(s) {
		v, err := strconv.Atoi(t)
		if err != nil {
			return nil, err
		}
		res = append(res, v)
	}
	return res, nil
}
