package main

import (
	"encoding/json"
	"fmt"
	"strconv"
	"strings"
	"time"

	"github.com/crillab/gophersat/bf"
)

// ParseCase: a token sequence (and the text rendering it) for bf.Parse (C17).
type ParseCase struct {
	Tokens []string `json:"tokens"` // wire tokens: v<i>, k<i>, ^ & BAR - > = ; ( ) { } ,
	Text   string   `json:"text"`
	Ref    *FNode   `json:"ref,omitempty"` // documented reading (valid renderings only)
	Kind   string   `json:"kind"`          // valid | missing-operand | unbalanced | trailing | random
	K      int      `json:"k"`
}

var goKeywords = []string{"func", "go", "if", "for", "map", "var", "type", "range"}

func tokText(t string) string {
	switch {
	case t == "BAR":
		return "|"
	case strings.HasPrefix(t, "v"):
		i, _ := strconv.Atoi(t[1:])
		return nameOf(i)
	case strings.HasPrefix(t, "k"):
		i, _ := strconv.Atoi(t[1:])
		return goKeywords[i%len(goKeywords)]
	}
	return t
}

func isIdentTok(t string) bool { return len(t) > 1 && (t[0] == 'v' || t[0] == 'k') }

func renderTokens(r *Rng, toks []string) string {
	var sb strings.Builder
	for i, t := range toks {
		if i > 0 {
			needSpace := isIdentTok(t) && isIdentTok(toks[i-1])
			switch {
			case needSpace || r.Chance(1, 2):
				sb.WriteString(" ")
				if r.Chance(1, 8) {
					sb.WriteString([]string{" ", "\t", "\n", "  "}[r.Intn(4)])
				}
			}
		}
		sb.WriteString(tokText(t))
	}
	if r.Chance(1, 4) {
		sb.WriteString([]string{" ", "\n", "  \n"}[r.Intn(3)])
	}
	return sb.String()
}

// syntax tree: ops by increasing priority
var synPrio = map[string]int{";": 1, "=": 2, "->": 3, "|": 4, "&": 5, "^": 6, "atom": 7}

type syn struct {
	op    string // ; = -> | & ^ var unique
	kids  []*syn
	v     int
	names []int
}

func genSyn(r *Rng, k, depth int) *syn {
	if depth == 0 || r.Chance(1, 4) {
		if r.Chance(1, 8) {
			sz := r.Range(1, min2(k, 6))
			return &syn{op: "unique", names: append([]int{}, r.Perm(k)[:sz]...)}
		}
		return &syn{op: "var", v: r.Intn(k)}
	}
	ops := []string{";", "=", "->", "|", "&", "^", "|", "&"}
	op := ops[r.Intn(len(ops))]
	if op == "^" {
		return &syn{op: op, kids: []*syn{genSyn(r, k, depth-1)}}
	}
	return &syn{op: op, kids: []*syn{genSyn(r, k, depth-1), genSyn(r, k, depth-1)}}
}

func (s *syn) prio() int {
	if s.op == "var" || s.op == "unique" {
		return synPrio["atom"]
	}
	return synPrio[s.op]
}

// tokens renders with minimal parentheses for the documented priorities and right nesting,
// plus redundant parentheses with probability extra/10.
func (s *syn) tokens(r *Rng, extra int) []string {
	var out []string
	wrap := func(c *syn, need bool) {
		t := c.tokens(r, extra)
		if need || r.Intn(10) < extra {
			out = append(out, "(")
			out = append(out, t...)
			out = append(out, ")")
		} else {
			out = append(out, t...)
		}
	}
	switch s.op {
	case "var":
		out = append(out, "v"+strconv.Itoa(s.v))
	case "unique":
		out = append(out, "{")
		for i, n := range s.names {
			if i > 0 {
				out = append(out, ",")
			}
			out = append(out, "v"+strconv.Itoa(n))
		}
		out = append(out, "}")
	case "^":
		out = append(out, "^")
		wrap(s.kids[0], s.kids[0].prio() < s.prio())
	default:
		wrap(s.kids[0], s.kids[0].prio() <= s.prio()) // same operator on the left needs parentheses (right nesting)
		switch s.op {
		case "->":
			out = append(out, "-", ">")
		case "|":
			out = append(out, "BAR")
		default:
			out = append(out, s.op)
		}
		wrap(s.kids[1], s.kids[1].prio() < s.prio())
	}
	return out
}

// ref gives the documented reading as a formula.
func (s *syn) ref() FNode {
	switch s.op {
	case "var":
		return FNode{Op: "v", Var: s.v}
	case "unique":
		return FNode{Op: "u", Names: append([]int{}, s.names...)}
	case "^":
		return FNode{Op: "n", Kids: []FNode{s.kids[0].ref()}}
	case ";", "&":
		return FNode{Op: "a", Kids: []FNode{s.kids[0].ref(), s.kids[1].ref()}}
	case "|":
		return FNode{Op: "o", Kids: []FNode{s.kids[0].ref(), s.kids[1].ref()}}
	case "->":
		return FNode{Op: "i", Kids: []FNode{s.kids[0].ref(), s.kids[1].ref()}}
	case "=":
		return FNode{Op: "e", Kids: []FNode{s.kids[0].ref(), s.kids[1].ref()}}
	}
	panic("bad syn op")
}

func genParseCase(r *Rng, tier string) ParseCase {
	k := r.Range(1, 8)
	s := genSyn(r, k, r.Range(0, 4))
	toks := s.tokens(r, r.Intn(4))
	c := ParseCase{K: k, Kind: "valid"}
	ref := s.ref()
	switch x := r.Intn(10); {
	case x < 6:
		c.Ref = &ref
	case x == 6 && len(toks) > 1: // delete an operand (an identifier, or a whole brace group's first name)
		c.Kind = "missing-operand"
		var idx []int
		depth := 0
		for i, t := range toks {
			if t == "{" {
				depth++
			}
			if t == "}" {
				depth--
			}
			if isIdentTok(t) && depth == 0 {
				idx = append(idx, i)
			}
		}
		if len(idx) == 0 || len(toks) == 1 {
			c.Kind = "valid"
			c.Ref = &ref
			break
		}
		i := idx[r.Intn(len(idx))]
		toks = append(append([]string{}, toks[:i]...), toks[i+1:]...)
		if len(toks) == 0 {
			toks = []string{"&"}
		}
	case x == 7: // unbalanced parenthesis
		c.Kind = "unbalanced"
		if r.Bool() {
			i := r.Intn(len(toks) + 1)
			toks = append(append(append([]string{}, toks[:i]...), "("), toks[i:]...)
		} else {
			var idx []int
			for i, t := range toks {
				if t == ")" {
					idx = append(idx, i)
				}
			}
			if len(idx) > 0 {
				i := idx[r.Intn(len(idx))]
				toks = append(append([]string{}, toks[:i]...), toks[i+1:]...)
			} else {
				toks = append(toks, ")")
			}
		}
	case x == 8: // trailing tokens
		c.Kind = "trailing"
		toks = append(append([]string{}, toks...), []string{"v0", ")", "v1 v2", "}", ","}[r.Intn(5)])
		toks = strings.Fields(strings.Join(toks, " "))
	default: // random token soup (robustness: no panic, mirror agrees)
		c.Kind = "random"
		all := []string{"v0", "v1", "v2", "k0", "^", "&", "BAR", "-", ">", "=", ";", "(", ")", "{", "}", ","}
		n := r.Range(1, 9)
		toks = nil
		for i := 0; i < n; i++ {
			toks = append(toks, all[r.Intn(len(all))])
		}
	}
	c.Tokens = toks
	c.Text = renderTokens(r, toks)
	return c
}

// wireToFNode parses the driver's formula wire format.
func wireToFNode(toks []string) (FNode, []string, error) {
	if len(toks) == 0 {
		return FNode{}, nil, fmt.Errorf("empty")
	}
	t, rest := toks[0], toks[1:]
	switch t {
	case "v":
		i, err := strconv.Atoi(rest[0])
		return FNode{Op: "v", Var: i}, rest[1:], err
	case "t", "f":
		return FNode{Op: t}, rest, nil
	case "n":
		k, r, err := wireToFNode(rest)
		return FNode{Op: "n", Kids: []FNode{k}}, r, err
	case "a", "o":
		n, err := strconv.Atoi(rest[0])
		if err != nil {
			return FNode{}, nil, err
		}
		rest = rest[1:]
		f := FNode{Op: t}
		for i := 0; i < n; i++ {
			var k FNode
			k, rest, err = wireToFNode(rest)
			if err != nil {
				return f, nil, err
			}
			f.Kids = append(f.Kids, k)
		}
		return f, rest, nil
	case "i", "e", "x":
		a, r1, err := wireToFNode(rest)
		if err != nil {
			return FNode{}, nil, err
		}
		b, r2, err := wireToFNode(r1)
		return FNode{Op: t, Kids: []FNode{a, b}}, r2, err
	case "u":
		n, err := strconv.Atoi(rest[0])
		if err != nil {
			return FNode{}, nil, err
		}
		f := FNode{Op: "u"}
		for i := 0; i < n; i++ {
			v, err := strconv.Atoi(rest[1+i])
			if err != nil {
				return f, nil, err
			}
			f.Names = append(f.Names, v)
		}
		return f, rest[1+n:], nil
	}
	return FNode{}, nil, fmt.Errorf("bad token %q", t)
}

// goName maps a mirror variable number back to the text of its token.
func goNameOfId(id int) string {
	switch {
	case id < 1000:
		return nameOf(id)
	case id < 2000:
		return goKeywords[(id-1000)%len(goKeywords)]
	}
	return map[int]string{2000: ",", 2001: "}", 2002: ">", 2003: "-", 2004: "{", 2005: "^", 2006: "(", 2007: ")", 2008: "=", 2009: "&", 2010: "|", 2011: ";"}[id]
}

func (f FNode) toGoNamed() bf.Formula {
	switch f.Op {
	case "v":
		return bf.Var(goNameOfId(f.Var))
	case "n":
		return bf.Not(f.Kids[0].toGoNamed())
	case "a":
		return bf.And(f.Kids[0].toGoNamed(), f.Kids[1].toGoNamed())
	case "o":
		return bf.Or(f.Kids[0].toGoNamed(), f.Kids[1].toGoNamed())
	case "i":
		return bf.Implies(f.Kids[0].toGoNamed(), f.Kids[1].toGoNamed())
	case "e":
		return bf.Eq(f.Kids[0].toGoNamed(), f.Kids[1].toGoNamed())
	case "u":
		ns := make([]string, len(f.Names))
		for i, n := range f.Names {
			ns[i] = goNameOfId(n)
		}
		return bf.Unique(ns...)
	}
	panic("bad op " + f.Op)
}

func init() {
	register(&Prop{
		ID: "C17",
		Rule: "syntax trees of depth 0..4 over 1..8 identifiers with the operators ; = -> | & ^ and brace groups of 1..6 names, rendered with minimal parentheses for the documented priorities and right nesting plus 0..30% redundant parentheses and free spacing (60% of cases, must parse to the documented reading); the same rendering with an operand deleted, a parenthesis added or removed, or a trailing token appended (30%, must give an error); random token sequences (10%, no panic). Go's result is compared structurally with the documented reading built through bf's constructors, with the Lean mirror of the parser (GS.BfParse.parse) on the token sequence, and the mirror's tree is compared semantically (truth table, GS.SF.eval) with the documented reading. Non-trivial = at least one binary operator; distinct = distinct text.",
		Gens: []Gen{{Name: "syntax", Weight: 150, Make: func(r *Rng, tier string) interface{} { return genParseCase(r, tier) }},
			// a long flat text: more than a thousand small parenthesised clauses, nesting depth 1
			{Name: "many-groups", Weight: 1, Make: func(r *Rng, tier string) interface{} {
				var toks []string
				for i, k := 0, r.Range(1001, 1400); i < k; i++ {
					if i > 0 {
						toks = append(toks, []string{";", "&", "BAR"}[r.Intn(3)])
					}
					toks = append(toks, "(", fmt.Sprintf("v%d", r.Intn(6)), "BAR", "^", fmt.Sprintf("v%d", r.Intn(6)), ")")
				}
				return ParseCase{K: 6, Kind: "valid", Tokens: toks, Text: renderTokens(r, toks)}
			}}},
		Slices: []SliceRef{{"XBFLEX", 2500, 50000}},
		Run:     runParseCase,
		Cases:   defCases(6000, 150000),
		Timeout: defDur(10*time.Second, 60*time.Second),
		Wall:    defDur(50*time.Second, 12*time.Minute),
	})
}

func runParseCase(o *Oracle, d json.RawMessage, oc *Outcome) {
	var c ParseCase
	if err := json.Unmarshal(d, &c); err != nil {
		oc.Fail("crash", "harness", "", "bad case: %v", err)
		return
	}
	oc.Key = keyOf(c.Text)
	oc.Sample = fmt.Sprintf("%s: %q", c.Kind, c.Text)
	oc.Tag("kind:" + c.Kind)
	for _, t := range c.Tokens {
		if t == "&" || t == "BAR" || t == "=" || t == ";" || t == ">" {
			oc.Nontrivial = true
		}
	}
	entry := "bf.Parse"
	if len(c.Tokens) > 0 && c.Tokens[len(c.Tokens)-1] == ";" {
		oc.Class("text-ends-with-semicolon")
	}
	got, err := bf.Parse(strings.NewReader(c.Text))
	if err != nil && got != nil {
		oc.Fail("spec", "error-and-no-formula", entry, "error %v together with formula %v", err, got)
	}
	// correspondence with the Lean mirror of the parser
	ans := o.Ask("bfparse " + strings.Join(c.Tokens, " "))
	oc.Corr++
	switch {
	case ans == "fuel":
		oc.Fail("corr", "parser-mirror", entry, "mirror ran out of fuel on %v", c.Tokens)
	case ans == "err":
		if err == nil {
			oc.Fail("corr", "parser-mirror", entry, "Go parsed %q to %v, the mirror rejects the token sequence %v", c.Text, got, c.Tokens)
		}
	case strings.HasPrefix(ans, "ok "):
		if err != nil {
			oc.Fail("corr", "parser-mirror", entry, "Go rejects %q (%v), the mirror parses %v to %s", c.Text, err, c.Tokens, ans[3:])
		} else {
			mf, rest, perr := wireToFNode(strings.Fields(ans[3:]))
			if perr != nil || len(rest) != 0 {
				oc.Fail("crash", "harness", "", "cannot decode mirror answer %q", ans)
			} else if ms := mf.toGoNamed().String(); ms != got.String() {
				oc.Fail("corr", "parser-mirror", entry, "on %q Go built %s, the mirror %s", c.Text, got.String(), ms)
			} else if c.Ref != nil {
				// spec: the mirror's tree (same as Go's) means what the documented reading means
				if a := o.Ask(fmt.Sprintf("bfequiv %d | %s | %s", c.K, mf.Wire(), c.Ref.Wire())); a != "1" {
					oc.Fail("spec", "documented-reading", entry, "%q parsed as %s, the documented priorities read it as %s", c.Text, got.String(), c.Ref.toGoNamed().String())
				}
			}
		}
	default:
		oc.Fail("crash", "harness", "", "mirror answer %q", ans)
	}
	switch c.Kind {
	case "valid":
		if err != nil {
			oc.Fail("spec", "parse-ok", entry, "well-formed text %q rejected: %v", c.Text, err)
		} else if c.Ref != nil {
			if want := c.Ref.toGoNamed().String(); want != got.String() {
				oc.Fail("spec", "documented-reading", entry, "%q parsed as %s, documented reading is %s", c.Text, got.String(), want)
			}
		}
	case "missing-operand", "unbalanced", "trailing":
		if err == nil {
			oc.Fail("spec", "error-on-malformed", entry, "%s text %q accepted as %s", c.Kind, c.Text, got.String())
		}
	}
}
