package main

import (
	"sort"
	"encoding/json"
	"fmt"
	"strings"
	"time"

	"github.com/crillab/gophersat/solver"
)

// HistOp is one step of a history on a live solver.
type HistOp struct {
	Op      string `json:"op"` // solve | append
	Lits    []int  `json:"l,omitempty"`
	Weights []int  `json:"w,omitempty"` // nil = clause / cardinality
	Card    int    `json:"k,omitempty"`
	PB      bool   `json:"pb,omitempty"`
}

func (h HistOp) lin() Lin {
	w := h.Weights
	if w == nil {
		w = make([]int, len(h.Lits))
		for i := range w {
			w[i] = 1
		}
	}
	return Lin{Coefs: append([]int{}, w...), Lits: append([]int{}, h.Lits...), Degree: h.Card}
}

type HistCase struct {
	Base ConstrCase `json:"base"`
	Cnf  [][]int    `json:"cnf,omitempty"` // when set, the base is this CNF through ParseSlice
	Ops  []HistOp   `json:"ops"`
}

func genAppendOp(r *Rng, n int, model []bool) HistOp {
	// n = variables seen so far; sometimes mention new ones, with or without a gap
	top := n
	if r.Chance(1, 6) {
		top = n + 1
	} else if r.Chance(1, 12) {
		top = n + r.Range(2, 3)
	}
	if top < 1 {
		top = 1
	}
	k := r.Range(1, min2(top, 4))
	lits := randClauseDistinct(r, top, k)
	if top > n { // make sure the new variable really occurs (and only once)
		found := false
		for _, l := range lits {
			if absInt(l) == top {
				found = true
			}
		}
		if !found {
			lits[0] = top
			if r.Bool() {
				lits[0] = -top
			}
		}
	}
	op := HistOp{Op: "append", Lits: lits, Card: 1}
	switch r.Intn(8) {
	case 0, 1, 2, 3: // clause
		if r.Chance(1, 6) && len(lits) < 4 { // repeated literal
			op.Lits = append(op.Lits, op.Lits[r.Intn(len(op.Lits))])
		} else if r.Chance(1, 8) { // both polarities of a variable: a clause that always holds
			op.Lits = append(op.Lits, -op.Lits[r.Intn(len(op.Lits))])
			if r.Bool() && len(op.Lits) > 2 {
				op.Lits[0], op.Lits[len(op.Lits)-1] = op.Lits[len(op.Lits)-1], op.Lits[0]
			}
		}
	case 4, 5: // cardinality
		op.Card = r.Range(1, len(lits))
	default:
		op.PB = true
		op.Weights = make([]int, len(lits))
		sum := 0
		for i := range op.Weights {
			op.Weights[i] = r.Range(1, 4)
			if r.Chance(1, 6) { // a weight 0 is a legal coefficient
				op.Weights[i] = 0
			}
			sum += op.Weights[i]
		}
		if sum < 1 {
			op.Weights[0], sum = 1, sum+1
		}
		op.Card = r.Range(1, sum)
		if r.Chance(1, 4) { // every literal is needed: all of them become facts at once, and the later ones may already be refuted by what the earlier ones propagate
			op.Card = sum
		}
	}
	return op
}

func genHistCase(r *Rng, tier string) HistCase {
	var c HistCase
	n := 0
	if r.Bool() {
		n = r.Range(2, 8)
		c.Cnf = genKSat(r, n, r.Range(1, 3*n), r.Range(2, 3))
		if r.Chance(1, 3) {
			c.Cnf = append(c.Cnf, []int{randLit(r, n)})
		}
	} else {
		c.Base = genSearchyCase(r, tier)
		if len(c.Base.Constrs) > 5 {
			c.Base.Constrs = c.Base.Constrs[:r.Range(1, 5)]
		}
		c.Base.Front = "pb"
		n = maxVarConstrs(c.Base.Constrs)
		c.Base.Constrs = append(c.Base.Constrs, Constr{Kind: "atleast", Lits: []int{n}, N: 0})
	}
	nops := r.Range(2, 10)
	for i := 0; i < nops; i++ {
		if r.Chance(2, 5) {
			c.Ops = append(c.Ops, HistOp{Op: "solve"})
			continue
		}
		op := genAppendOp(r, n, nil)
		for _, l := range op.Lits {
			if absInt(l) > n {
				n = absInt(l)
			}
		}
		c.Ops = append(c.Ops, op)
	}
	c.Ops = append(c.Ops, HistOp{Op: "solve"})
	return c
}

func init() {
	register(&Prop{
		ID: "C09",
		Rule: "histories of 3..11 operations (Solve | AppendClause) on a live solver built from a 2/3-SAT formula (2..8 variables, optionally with a unit clause) or a small cardinality/PB constraint set; appended constraints are clauses (sometimes with a repeated literal), cardinality constraints or PB constraints with weights 1..4 (1 in 6 replaced by 0), over the variables seen so far or new ones (next index, or skipping 1-2 indices). Every Solve is compared with the verified exhaustive verdict on the conjunction of the base problem and everything appended so far, and its model is evaluated on that conjunction; every AppendClause call is compared with the Lean mirror of its simplification prologue (GS.Append.appendSimplify: satisfied / refuting / units / attached in reduced form), the inputs being read by a hook at the start of the call and the effect from the solver's state afterwards. Non-trivial = at least one append followed by a solve with status Sat before it; distinct = distinct history.",
		Gens:    []Gen{{Name: "history", Weight: 1, Make: func(r *Rng, tier string) interface{} { return genHistCase(r, tier) }}},
		Run:     runHistCase,
		Cases:   defCases(4000, 100000),
		Timeout: defDur(10*time.Second, 60*time.Second),
		Wall:    defDur(50*time.Second, 12*time.Minute),
	})
}

func runHistCase(o *Oracle, d json.RawMessage, oc *Outcome) {
	var c HistCase
	if err := json.Unmarshal(d, &c); err != nil {
		oc.Fail("crash", "harness", "", "bad case: %v", err)
		return
	}
	oc.Key = keyOf(c)
	var pb *solver.Problem
	var sem []Lin
	n := 0
	if c.Cnf != nil {
		cp := make([][]int, len(c.Cnf))
		for i, cl := range c.Cnf {
			cp[i] = append([]int(nil), cl...)
		}
		pb = solver.ParseSlice(cp)
		sem = cnfLins(c.Cnf)
		n = maxVarCnf(c.Cnf)
		oc.Sample = fmt.Sprintf("base cnf %s ops %v", cnfString(c.Cnf), c.Ops)
	} else {
		pb = buildConstrProblem(&c.Base)
		sem = semAll(c.Base.Constrs)
		n = maxVarConstrs(c.Base.Constrs)
		oc.Sample = fmt.Sprintf("base %s ops %v", constrsString(c.Base.Constrs), c.Ops)
	}
	if len(oc.Sample) > 500 {
		oc.Sample = oc.Sample[:500] + "…"
	}
	s := solver.New(pb)
	// refinement through the abstract machine GS.Cdcl: possible when the base is a CNF and
	// only clauses are appended (the machine speaks clauses); the solver then runs with a
	// certificate channel and every emitted line becomes a learn event.
	replay := c.Cnf != nil && pb.Status != solver.Unsat
	for _, op := range c.Ops {
		if op.Op == "append" && (op.PB || op.Card > 1) {
			replay = false
		}
	}
	var events []string
	drain := func() {}
	if replay {
		s.Certified = true
		s.CertChan = make(chan string, 1<<16)
		drain = func() {
			for {
				select {
				case line := <-s.CertChan:
					if cl, ok := parseCertLine(line); ok {
						if len(cl) > 0 { // the empty line announces Unsat: the answer event follows
							events = append(events, evLearn(cl))
						}
					}
				default:
					return
				}
			}
		}
		oc.Tag("cdcl-replay")
	}
	if pb.Status == solver.Unsat {
		oc.Tag("base-parse-unsat")
		// a solver built from a refuted problem has no arrays; appending to it is outside
		// what the API supports, only solving is exercised
		for i, op := range c.Ops {
			if op.Op == "solve" {
				if st := s.Solve(); st != solver.Unsat {
					oc.Fail("spec", "verdict", "solver.Solve", "op %d: base problem refuted at parse time but Solve = %v", i, st)
				}
			}
		}
		return
	}
	wasUnsat := false
	seenSat := false
	for i, op := range c.Ops {
		switch op.Op {
		case "append":
			lits := make([]solver.Lit, len(op.Lits))
			for j, l := range op.Lits {
				lits[j] = solver.IntToLit(int32(l))
				if absInt(l) > n {
					n = absInt(l)
					oc.Tag("new-variable")
				}
			}
			var cl *solver.Clause
			switch {
			case op.PB:
				cl = solver.NewPBClause(lits, append([]int{}, op.Weights...), op.Card)
				oc.Tag("append-pb")
			case op.Card > 1:
				cl = solver.NewCardClause(lits, op.Card)
				oc.Tag("append-card")
			default:
				cl = solver.NewClause(lits)
				oc.Tag("append-clause")
			}
			appendMirror(o, oc, s, cl, i)
			drain()
			if len(op.Lits) == 0 {
				events = append(events, "A e")
			} else {
				events = append(events, "A "+encInts(op.Lits))
			}
			sem = append(sem, op.lin())
			if seenSat {
				oc.Nontrivial = true
			}
		case "solve":
			st := s.Solve()
			drain()
			if st == solver.Sat {
				events = append(events, evModel(s.Model()))
			} else if st == solver.Unsat {
				events = append(events, "U")
			}
			truth := o.Sat(n, sem)
			entry := "solver.AppendClause+Solve"
			switch st {
			case solver.Sat:
				seenSat = true
				if !truth {
					oc.Fail("spec", "verdict", entry, "op %d: Sat, but base + appended constraints are unsatisfiable", i)
				}
				if wasUnsat {
					oc.Fail("spec", "unsat-monotone", entry, "op %d: Sat after an earlier Unsat", i)
				}
				m := s.Model()
				if len(m) < n {
					oc.Fail("spec", "model-length", entry, "op %d: model has %d values, %d variables are in use", i, len(m), n)
					return
				}
				if a := o.Eval(len(m), sem, m); a != "ok" {
					oc.Fail("spec", "model-satisfies-conjunction", entry, "op %d: model %v: %s", i, m, a)
				}
			case solver.Unsat:
				wasUnsat = true
				if truth {
					oc.Fail("spec", "verdict", entry, "op %d: Unsat, but base + appended constraints are satisfiable", i)
				}
			default:
				oc.Fail("spec", "never-indet", entry, "op %d: Solve = %v", i, st)
			}
		}
	}
	if replay {
		oc.Corr++
		if a := cdclReplay(o, maxVarCnf(c.Cnf), c.Cnf, events); a != "ok" {
			oc.Fail("corr", "cdcl-refinement", "solver.AppendClause+Solve", "the history is not a run of the abstract machine GS.Cdcl: %s (events %v)", a, events)
		}
	}
	if wasUnsat {
		oc.Tag("ends-unsat")
	} else {
		oc.Tag("ends-sat")
	}
}

// appendMirror calls s.AppendClause(cl) and ties the call to the Lean mirror of its prologue
// (GS.Append.appendSimplify, theorem appendSimplify_sem): given the top-level bindings and the
// constraint as handed over (both reported by the hook at the start of the call), the mirror says
// whether the constraint is dropped as satisfied, refutes the problem, is turned into top-level
// facts, or is attached in a reduced form; what the solver did is read from its state afterwards.
func appendMirror(o *Oracle, oc *Outcome, s *solver.Solver, cl *solver.Clause, opIdx int) {
	var pre appendObs
	seen := false
	s.VerifSetAppendHook(func(top []int, c solver.PBConstr, pb bool) {
		pre, seen = appendObs{append([]int{}, top...), c, pb}, true
	})
	st0, nb0, _, _, facts0 := s.VerifAppendState()
	s.AppendClause(cl)
	s.VerifSetAppendHook(nil)
	st1, nb1, last, lastPB, facts1 := s.VerifAppendState()
	if !seen || st0 == solver.Unsat {
		return // already refuted: nothing AppendClause does is observable
	}
	ws := ""
	if pre.pb {
		ws = encInts(pre.c.Weights)
	}
	want := o.Ask(fmt.Sprintf("appendsimp %s | %s | %s | %d", encInts(pre.top), encInts(pre.c.Lits), ws, pre.c.AtLeast))
	oc.Corr++
	var got string
	switch {
	case nb1 == nb0+1:
		w := "e"
		if lastPB {
			w = encInts(last.Weights)
		}
		got = fmt.Sprintf("attach %d ; %s ; %s", last.AtLeast, encInts(last.Lits), w)
	case len(facts1) > len(facts0):
		got = "units " + encInts(facts1[len(facts0):])
	case st1 == solver.Unsat:
		got = "unsat"
	default:
		got = "trivial"
	}
	ok := got == want
	if !ok && strings.HasPrefix(got, "units ") && strings.HasPrefix(want, got) && st1 == solver.Unsat {
		ok = true // propagateUnits stops at the first unit that refutes the problem
	}
	if !ok {
		oc.Fail("corr", "append-mirror", "solver.AppendClause", "op %d: top level %v, constraint %v*%v >= %d (explicit weights: %v): Go did %q, the mirror GS.Append.appendSimplify says %q", opIdx, pre.top, pre.c.Weights, pre.c.Lits, pre.c.AtLeast, pre.pb, got, want)
	}
	// a literal recorded as a top-level fact is true at the top level from then on, unless the
	// problem is refuted
	if st1 != solver.Unsat && len(facts1) > len(facts0) {
		lv := s.VerifModelLevels()
		for _, f := range facts1[len(facts0):] {
			v := absInt(f)
			if v > len(lv) || !(lv[v-1] == 1 && f > 0 || lv[v-1] == -1 && f < 0) {
				oc.Fail("spec", "facts-hold", "solver.AppendClause", "op %d: %d was recorded as a fact but is not bound true at the top level (binding %v) and the solver is not refuted", opIdx, f, lv)
				break
			}
		}
	}
	// and the trail never holds a literal and its negation unless the problem is refuted
	if st1 != solver.Unsat {
		tr, _, _ := s.VerifTrailState()
		onTrail := map[int]bool{}
		for _, l := range tr {
			if onTrail[-l] {
				oc.Fail("spec", "facts-hold", "solver.AppendClause", "op %d: the trail holds both %d and %d after the call and the solver is not refuted (trail %v)", opIdx, -l, l, tr)
				break
			}
			onTrail[l] = true
		}
	}
	oc.Tag("append-mirror:" + strings.SplitN(want, " ", 2)[0])
}

// canonConstr: a constraint up to the order of its terms (watch maintenance swaps terms, nothing else
// may change a constraint once the solver holds it).
func canonConstr(c solver.PBConstr) string {
	ts := make([][2]int, len(c.Lits))
	for i, l := range c.Lits {
		w := 1
		if c.Weights != nil {
			w = c.Weights[i]
		}
		ts[i] = [2]int{l, w}
	}
	sort.Slice(ts, func(i, j int) bool { return ts[i][0] < ts[j][0] || (ts[i][0] == ts[j][0] && ts[i][1] < ts[j][1]) })
	return fmt.Sprint(c.AtLeast, ts)
}

// stableWatch checks that the problem constraints a solver holds stay what they were when they were
// attached: the k-th constraint, read again later (after further AppendClause calls, after solving),
// has the same terms and degree. Every theorem about a run (cdcl_*, minimizeS_optimal, enum_exact)
// is about a fixed constraint list that only grows.
type stableWatch struct {
	s     *solver.Solver
	seen  []string
	entry string
	bad   bool
}

func (w *stableWatch) check(oc *Outcome, when string) {
	if w.bad {
		return
	}
	orig, _ := w.s.VerifConstraints()
	oc.Corr++
	for i, c := range orig {
		k := canonConstr(c)
		if i < len(w.seen) {
			if w.seen[i] != k {
				w.bad = true
				oc.Fail("corr", "constraints-stable", w.entry, "%s: problem constraint %d of the solver was %s when attached and reads %s now", when, i, w.seen[i], k)
				return
			}
		} else {
			w.seen = append(w.seen, k)
		}
	}
	if len(orig) < len(w.seen) {
		w.bad = true
		oc.Fail("corr", "constraints-stable", w.entry, "%s: the solver held %d problem constraints and holds %d now", when, len(w.seen), len(orig))
	}
}

// mirrorAppends ties every AppendClause call made on s — by the caller or by the library itself
// (bound constraints of Optimal / Minimize, blocking clauses of Enumerate / CountModels) — to the
// Lean mirror of its prologue, exactly as appendMirror does for one call; the returned function
// removes the hooks.
func mirrorAppends(o *Oracle, oc *Outcome, s *solver.Solver, entry string) func() {
	var pre appendObs
	var st0 solver.Status
	var nb0 int
	var facts0 []int
	have := false
	n := 0
	sw := &stableWatch{s: s, entry: entry}
	sw.check(oc, "before the call")
	s.VerifSetAppendHook(func(top []int, c solver.PBConstr, pb bool) {
		pre, have = appendObs{append([]int{}, top...), c, pb}, true
		st0, nb0, _, _, facts0 = s.VerifAppendState()
	})
	s.VerifSetAppendedHook(func() {
		if !have {
			return
		}
		have = false
		n++
		if n <= 40 {
			sw.check(oc, fmt.Sprintf("after AppendClause %d", n))
		}
		if st0 == solver.Unsat || n > 12 || len(oc.Failures) > 0 {
			return
		}
		st1, nb1, last, lastPB, facts1 := s.VerifAppendState()
		ws := ""
		if pre.pb {
			ws = encInts(pre.c.Weights)
		}
		want := o.Ask(fmt.Sprintf("appendsimp %s | %s | %s | %d", encInts(pre.top), encInts(pre.c.Lits), ws, pre.c.AtLeast))
		oc.Corr++
		var got string
		switch {
		case nb1 == nb0+1:
			w := "e"
			if lastPB {
				w = encInts(last.Weights)
			}
			got = fmt.Sprintf("attach %d ; %s ; %s", last.AtLeast, encInts(last.Lits), w)
		case len(facts1) > len(facts0):
			got = "units " + encInts(facts1[len(facts0):])
		case st1 == solver.Unsat:
			got = "unsat"
		default:
			got = "trivial"
		}
		ok := got == want
		if !ok && strings.HasPrefix(got, "units ") && strings.HasPrefix(want, got) && st1 == solver.Unsat {
			ok = true
		}
		if !ok {
			oc.Fail("corr", "append-mirror", entry, "AppendClause %d: top level %v, constraint %v*%v >= %d (explicit weights: %v): Go did %q, the mirror GS.Append.appendSimplify says %q", n, pre.top, pre.c.Weights, pre.c.Lits, pre.c.AtLeast, pre.pb, got, want)
		}
	})
	return func() {
		s.VerifSetAppendHook(nil)
		s.VerifSetAppendedHook(nil)
		sw.check(oc, "after the call")
	}
}
