package main

import (
	"encoding/json"
	"fmt"
	"strings"
	"time"

	"github.com/crillab/gophersat/solver"
)

// Differential tie of the two-watched-literal propagation of /repo/solver/watcher.go
// (watchClause, propagate, simplifyPropClauses, propagateUnit, unifyLiteral) with the Lean mirror
// GS.Watch (ops winit / wunify / wprop / winv of /verif/lean/GS/OpsWatch.lean).

func encWatchers(ws [][3]int) string {
	parts := make([]string, len(ws))
	for i, w := range ws {
		parts[i] = fmt.Sprintf("%d %d %d", w[0], w[1], w[2])
	}
	return strings.Join(parts, " ; ")
}

func encWatchState(st solver.VerifWatchState) string {
	return fmt.Sprintf("%d | %s | %s | %s | %s | %s", st.NbVars, encCnf(st.Clauses), encWatchers(st.Wbin),
		encWatchers(st.Wlong), encInts(st.Model), encInts(st.Trail))
}

// the answer the mirror must give for a call that led from a trail of length oldLen to `after`.
func watchAnswer(after solver.VerifWatchState, oldLen int, confl int, panicked bool) string {
	if panicked {
		return "panic"
	}
	var rs []string
	for _, l := range after.Trail[oldLen:] {
		if id := after.Reasons[absInt(l)-1]; id >= 0 {
			rs = append(rs, fmt.Sprintf("%d %d", absInt(l), id))
		}
	}
	return fmt.Sprintf("ok %d | %s | %s | %s | %s | %s | %s", confl, encInts(after.Trail), encInts(after.Model),
		encCnf(after.Clauses), encWatchers(after.Wbin), encWatchers(after.Wlong), strings.Join(rs, " ; "))
}

func sameWatchers(a, b [][3]int) bool {
	if len(a) != len(b) {
		return false
	}
	for i := range a {
		if a[i] != b[i] {
			return false
		}
	}
	return true
}

// tieWatch walks the real solver by decisions / backtracks and compares every unifyLiteral (or
// propagate) call with the mirror, state against state.
func tieWatch(o *Oracle, oc *Outcome, r *Rng, nbVars int, cnf [][]int) {
	pb := solver.ParseSliceNb(copyCnf(cnf), nbVars)
	if pb.Status != solver.Indet {
		oc.Tag("parse-decided")
		return
	}
	s := solver.New(pb)
	init := s.VerifWatchSnapshot()
	if !init.PlainOnly {
		oc.Fail("crash", "harness", "solver.New", "not a plain-clause state: %s", encWatchState(init))
		return
	}
	// watchClause / initWatcherList
	oc.Corr++
	want := "ok " + encWatchers(init.Wbin) + " | " + encWatchers(init.Wlong)
	if got := o.Ask(fmt.Sprintf("winit %d | %s", init.NbVars, encCnf(init.Clauses))); got != want {
		oc.Fail("corr", "watch-mirror", "solver.initWatcherList", "Go built [%s], the Lean mirror [%s] on %s", want, got, encCnf(init.Clauses))
	}
	afterSolve := r.Bool()
	if afterSolve {
		if st := s.Solve(); st != solver.Sat {
			oc.Tag("solve-unsat")
			return
		}
		s.VerifBacktrack(1)
		oc.Tag("after-solve")
		oc.Nontrivial = true
	}
	start := s.VerifWatchSnapshot()
	if !start.PlainOnly {
		oc.Fail("crash", "harness", "solver.Solve", "not a plain-clause state: %s", encWatchState(start))
		return
	}
	if len(start.Clauses) > len(init.Clauses) {
		oc.Tag("learned-present")
	}
	oc.Corr++
	if a := o.Ask(fmt.Sprintf("winv %s | %d", encWatchState(start), len(start.Trail))); a != "ok" {
		oc.Fail("corr", "watch-invariant", "solver.New/Solve", "watchInv fails (%s) on the start state %s (after Solve: %v)", a, encWatchState(start), afterSolve)
	}
	lvl := 1
	nbConfl, nbProp, nbMoves, nbSwaps := 0, 0, 0, 0
	for step := 0; step < 30; step++ {
		cur := s.VerifWatchSnapshot()
		var unb []int
		for v, m := range cur.Model {
			if m == 0 {
				unb = append(unb, v+1)
			}
		}
		if len(unb) == 0 { // total assignment: go back and continue the walk
			oc.Tag("total")
			if lvl <= 1 {
				break
			}
			lvl = r.Range(1, lvl-1)
			s.VerifBacktrack(lvl)
			continue
		}
		lit := unb[r.Intn(len(unb))]
		if r.Bool() {
			lit = -lit
		}
		lvl++
		var before, after solver.VerifWatchState
		var confl int
		var panicked bool
		var q, entry string
		oldLen := 0
		if r.Chance(1, 4) { // bind by hand, then propagate(ptr, lvl)
			s.VerifBind(lit, lvl)
			ptr := len(cur.Trail)
			before, after, confl, panicked = s.VerifPropagate(ptr, lvl)
			q = fmt.Sprintf("wprop %s | %d %d", encWatchState(before), ptr, lvl)
			entry = "solver.propagate"
			oldLen = len(before.Trail)
		} else {
			before, after, confl, panicked = s.VerifUnify(lit, lvl)
			q = fmt.Sprintf("wunify %s | %d %d", encWatchState(before), lit, lvl)
			entry = "solver.unifyLiteral"
			oldLen = len(before.Trail) + 1
		}
		oc.Corr++
		want := watchAnswer(after, oldLen, confl, panicked)
		if got := o.Ask(q); got != want {
			oc.Fail("corr", "watch-mirror", entry, "Go answered [%s], the Lean mirror [%s] on %s", want, got, q)
			return
		}
		if panicked {
			oc.Fail("crash", "watch-panic", entry, "panic on %s", q)
			return
		}
		nbProp += len(after.Trail) - oldLen
		if !sameWatchers(before.Wlong, after.Wlong) {
			nbMoves++
		}
		if encCnf(before.Clauses) != encCnf(after.Clauses) {
			nbSwaps++
		}
		if confl >= 0 {
			nbConfl++
			back := r.Range(1, lvl-1)
			if r.Chance(2, 3) {
				back = 1
			}
			lvl -= back
			s.VerifBacktrack(lvl)
			// after a backtrack every remaining literal had been processed
			bt := s.VerifWatchSnapshot()
			oc.Corr++
			if a := o.Ask(fmt.Sprintf("winv %s | %d", encWatchState(bt), len(bt.Trail))); a != "ok" {
				oc.Fail("corr", "watch-invariant", "solver.cleanupBindings", "watchInv fails (%s) after conflict %d and backtrack to %d: %s", a, confl, lvl, encWatchState(bt))
				return
			}
		} else {
			oc.Corr++
			if a := o.Ask(fmt.Sprintf("winv %s | %d", encWatchState(after), len(after.Trail))); a != "ok" {
				oc.Fail("corr", "watch-invariant", entry, "watchInv fails (%s) on the state %s reached from %s", a, encWatchState(after), q)
				return
			}
			if r.Chance(1, 8) && lvl > 1 { // a backtrack without conflict (restart-like)
				lvl = r.Range(1, lvl-1)
				s.VerifBacktrack(lvl)
				oc.Tag("plain-backtrack")
			}
		}
	}
	if nbConfl > 0 {
		oc.Tag("conflict")
		oc.Nontrivial = true
	}
	if nbConfl > 2 {
		oc.Tag("conflicts>2")
	}
	if nbProp > 0 {
		oc.Tag("propagation")
		oc.Nontrivial = true
	}
	if nbProp > 5 {
		oc.Tag("propagations>5")
	}
	if nbMoves > 0 {
		oc.Tag("watcher-moved")
	}
	if nbSwaps > 0 {
		oc.Tag("clause-reordered")
	}
}

type WatchCase struct {
	Seed uint64 `json:"seed"`
}

// tieWatchRandom: 3..12 variables, 2..30 clauses of length 2..6 over distinct variables.
func tieWatchRandom(o *Oracle, oc *Outcome, r *Rng) {
	n := r.Range(3, 12)
	m := r.Range(2, 30)
	var cnf [][]int
	for i := 0; i < m; i++ {
		k := 2
		switch {
		case r.Chance(1, 3):
			k = 2
		case r.Chance(1, 2):
			k = 3
		default:
			k = r.Range(3, 6)
		}
		cnf = append(cnf, randClauseDistinct(r, n, k))
	}
	if r.Chance(1, 6) { // a few unit clauses over distinct variables: bindings made by the parser
		// (a repeated unit line is put twice on the trail by New: GS.Trail.init_units_inv_statement_false;
		// the trail part of watchInv asks for distinct variables)
		us := randClauseDistinct(r, n, r.Range(1, 2))
		for _, u := range us {
			cnf = append(cnf, []int{u})
		}
		oc.Tag("units")
	}
	oc.Sample = fmt.Sprintf("n=%d cnf=%s", n, cnfString(cnf))
	tieWatch(o, oc, r, n, cnf)
}

func init() {
	register(&Prop{
		ID:   "XWATCH",
		Rule: "scratch: random CNF over 3..12 variables (2..30 clauses of length 2..6, distinct variables, sometimes unit clauses); the solver is built (half of the cases solved first and brought back to level 1, which leaves learned clauses and permuted watch lists), then walked by up to 30 random decisions through unifyLiteral / propagate with backtracks after conflicts; each call is compared state against state (conflict, trail, bindings, literal order of every clause, both families of watch lists in order, antecedents) with the Lean mirror GS.Watch, and the executable invariant GS.Watch.watchInv is evaluated on every conflict-free state reached.",
		Gens: []Gen{{Name: "walk", Weight: 1, Make: func(r *Rng, tier string) interface{} { return WatchCase{Seed: r.Next()} }}},
		Run: func(o *Oracle, d json.RawMessage, oc *Outcome) {
			var c WatchCase
			if err := json.Unmarshal(d, &c); err != nil {
				oc.Fail("crash", "harness", "", "bad case: %v", err)
				return
			}
			oc.Key = keyOf(c)
			tieWatchRandom(o, oc, NewRng(c.Seed))
		},
		Cases:   defCases(8000, 100000),
		Timeout: defDur(20*time.Second, 60*time.Second),
		Wall:    defDur(10*time.Minute, 60*time.Minute),
	})
}
