package main

import (
	"bytes"
	"encoding/json"
	"fmt"
	"os"
	"os/exec"
	"path/filepath"
	"strconv"
	"strings"
	"time"

	"github.com/crillab/gophersat/maxsat"
	"github.com/crillab/gophersat/solver"
)

// CliCase: a file handed to the gophersat executable with some flags (C19).
type CliCase struct {
	Ext   string      `json:"ext"` // cnf | opb | wcnf | bf | bad
	Flags []string    `json:"flags"`
	Text  string      `json:"text"`
	Cnf   *CnfCase    `json:"cnf,omitempty"`
	Opb   *OpbCase    `json:"opb,omitempty"`
	Wcnf  *MaxSatCase `json:"wcnf,omitempty"`
	Bf    *FNode      `json:"bf,omitempty"`
	K     int         `json:"k,omitempty"`
	Bad   string      `json:"bad,omitempty"` // missing | unknown-suffix | garbage
}

func cliBinary() string {
	if p := os.Getenv("GOPHERSAT_BIN"); p != "" {
		return p
	}
	return filepath.Join(verifDir(), ".build", "gophersat")
}

func genCliCase(r *Rng, tier string) CliCase {
	verbose := r.Chance(1, 6)
	withV := func(f ...string) []string {
		if verbose {
			return append(f, "-verbose")
		}
		return f
	}
	switch r.Intn(12) {
	case 0, 1, 2, 3, 4:
		n := r.Range(1, 9)
		var cnf [][]int
		switch r.Intn(3) {
		case 0:
			cnf = genKSat(r, n, r.Range(1, 5*n), r.Range(1, 3))
		case 1:
			cnf = genMessyCnf(r, n, r.Range(0, 3*n), 3, true)
		default:
			m := genMusCase(r, tier)
			n, cnf = m.NbVars, m.Cnf
		}
		nb := maxVarCnf(cnf)
		if n > nb {
			nb = n
		}
		cc := CnfCase{NbVars: nb, Clauses: cnf}
		c := CliCase{Ext: "cnf", Cnf: &cc}
		switch r.Intn(6) {
		case 0:
			c.Flags = withV()
			c.Text = renderDimacs(r, nb, cnf, false)
		case 1:
			c.Flags = withV("-count")
			c.Text = renderDimacs(r, nb, cnf, false)
		case 2:
			c.Flags = withV("-certified")
			c.Text = renderDimacs(r, nb, cnf, false)
		case 3:
			c.Flags = []string{"-mus"}
			c.Text = plainDimacs(nb, cnf)
			if r.Bool() {
				c.Text = renderDimacs(r, nb, cnf, false)
			}
		case 4:
			c.Flags = withV("-cp")
			c.Text = renderDimacs(r, nb, cnf, false)
		default:
			c.Flags = withV("-cp", "-certified")
			c.Text = renderDimacs(r, nb, cnf, true)
		}
		return c
	case 5, 6:
		o := genOpbCase(r, tier)
		if r.Chance(1, 4) {
			o = genOpbUnits(r, tier)
		} else if r.Chance(1, 3) {
			o = genOpbCaseMode(r, tier, true) // optima around 0, reached at once or in one or two steps
		}
		c := CliCase{Ext: "opb", Opb: &o, Text: o.Text, Flags: withV()}
		if r.Chance(1, 4) {
			c.Flags = withV("-cp")
		} else if r.Chance(1, 3) {
			c.Flags = withV("-count")
		}
		return c
	case 7, 8:
		w := genMaxSatWCNF(r, tier)
		return CliCase{Ext: "wcnf", Wcnf: &w, Text: w.Text, Flags: withV()}
	case 9, 10:
		k := r.Range(1, 7)
		s := genSyn(r, k, r.Range(0, 4))
		if r.Chance(1, 6) { // two exactly-one groups of 5 or 6 names with the same first and last name, and two more conjuncts
			k = r.Range(8, 9)
			sz := r.Range(5, 6)
			p := r.Perm(k)
			g1 := append([]int{}, p[:sz]...)
			g2 := append([]int{p[0]}, p[sz:]...)
			for _, x := range p[1 : sz-1] {
				if len(g2) < sz-1 {
					g2 = append(g2, x)
				}
			}
			g2 = append(g2, p[sz-1])
			s = &syn{op: ";", kids: []*syn{{op: "unique", names: g1}, {op: ";", kids: []*syn{{op: "unique", names: g2},
				{op: ";", kids: []*syn{{op: "var", v: g1[1+r.Intn(sz-2)]}, {op: "var", v: g2[1+r.Intn(sz-2)]}}}}}}}
		}
		f := s.ref()
		return CliCase{Ext: "bf", Bf: &f, K: k, Text: renderTokens(r, s.tokens(r, r.Intn(3))), Flags: nil}
	default:
		c := CliCase{Ext: "bad", Bad: []string{"missing", "unknown-suffix", "garbage-cnf", "garbage-opb", "garbage-wcnf", "garbage-bf"}[r.Intn(6)]}
		c.Text = "p cnf 2 1\n1 -2 0\n"
		if strings.HasPrefix(c.Bad, "garbage") {
			c.Text = []string{"p cnf 2 1\n1 x 0\n", "p cnf 1 1\n3 0\n", "this is not a problem\n", "+1 x1 >= ;\n", "p wcnf a b\n1 1 0\n", "a & & b\n", "(a | b\n"}[r.Intn(7)]
		}
		return c
	}
}

func init() {
	register(&Prop{
		ID: "C19",
		Rule: "files of the four kinds written to disk and given to the gophersat executable built from /repo (no build tag): DIMACS (uniform, messy, or MUS-style formulas over 1..9 variables, free layout) with no flag, -count, -certified, -mus, -cp, -cp -certified (optionally -verbose); OPB with optional objective (non-negative coefficients) with no flag or -cp; WCNF; formulas in the .bf syntax; plus missing files, unknown suffixes and malformed contents. stdout is parsed (s / v / o lines, count, certificate, MUS) and judged by the verified oracles (model evaluation, exhaustive verdict / optimum / count, RUP refutation, isMUSB, truth table); exit status and absence of answer lines are checked for bad files. Non-trivial = well-formed file with at least 2 clauses / constraints; distinct = distinct (file, flags).",
		Gens:    []Gen{{Name: "cli", Weight: 1, Make: func(r *Rng, tier string) interface{} { return genCliCase(r, tier) }}},
		Extra: []ExtraGen{{Gen{Name: "wcnf-many-steps", Make: func(r *Rng, tier string) interface{} {
			w := genMaxSatManySteps(r, tier)
			return CliCase{Ext: "wcnf", Wcnf: &w, Text: w.Text, Flags: []string{}}
		}}, 250, 6000}},
		Run:     runCliCase,
		Cases:   defCases(1200, 30000),
		Timeout: defDur(20*time.Second, 60*time.Second),
		Wall:    defDur(50*time.Second, 12*time.Minute),
	})
}

func runCli(path string, flags []string) (stdout, stderr string, code int, err error) {
	args := append(append([]string{}, flags...), path)
	cmd := exec.Command(cliBinary(), args...)
	var so, se bytes.Buffer
	cmd.Stdout, cmd.Stderr = &so, &se
	done := make(chan error, 1)
	if err := cmd.Start(); err != nil {
		return "", "", -1, err
	}
	go func() { done <- cmd.Wait() }()
	select {
	case e := <-done:
		code = 0
		if e != nil {
			if ee, ok := e.(*exec.ExitError); ok {
				code = ee.ExitCode()
			} else {
				return so.String(), se.String(), -1, e
			}
		}
		return so.String(), se.String(), code, nil
	case <-time.After(15 * time.Second):
		cmd.Process.Kill()
		return so.String(), se.String(), -1, fmt.Errorf("no exit within 15s")
	}
}

func answerLines(out string) (s []string, v []string, oLines []int, other []string, bad []string) {
	for _, l := range strings.Split(out, "\n") {
		switch {
		case l == "":
		case strings.HasPrefix(l, "c ") || l == "c":
		case strings.HasPrefix(l, "s "):
			s = append(s, l[2:])
		case strings.HasPrefix(l, "v ") || l == "v":
			v = append(v, strings.TrimPrefix(l, "v"))
		case strings.HasPrefix(l, "o "):
			k, err := strconv.Atoi(strings.TrimSpace(l[2:]))
			if err != nil {
				bad = append(bad, l)
			} else {
				oLines = append(oLines, k)
			}
		default:
			other = append(other, l)
		}
	}
	return
}

func runCliCase(o *Oracle, d json.RawMessage, oc *Outcome) {
	var c CliCase
	if err := json.Unmarshal(d, &c); err != nil {
		oc.Fail("crash", "harness", "", "bad case: %v", err)
		return
	}
	oc.Key = keyOf(c)
	oc.Tag("ext:" + c.Ext)
	oc.Tag("flags:" + strings.Join(c.Flags, ","))
	dir := filepath.Join(verifDir(), ".build", "tmp")
	os.MkdirAll(dir, 0o755)
	ext := c.Ext
	if c.Ext == "bad" {
		ext = map[string]string{"missing": "cnf", "unknown-suffix": "xyz", "garbage-cnf": "cnf", "garbage-opb": "opb", "garbage-wcnf": "wcnf", "garbage-bf": "bf"}[c.Bad]
	}
	path := filepath.Join(dir, fmt.Sprintf("case-%d-%s.%s", os.Getpid(), oc.Key, ext))
	if c.Bad != "missing" {
		if err := os.WriteFile(path, []byte(c.Text), 0o644); err != nil {
			oc.Fail("crash", "harness", "", "cannot write %s: %v", path, err)
			return
		}
		defer os.Remove(path)
	}
	oc.Sample = fmt.Sprintf("gophersat %s file.%s  <<%q", strings.Join(c.Flags, " "), ext, c.Text)
	if len(oc.Sample) > 400 {
		oc.Sample = oc.Sample[:400] + "…"
	}
	entry := "main(" + strings.Join(c.Flags, " ") + " ." + ext + ")"
	out, errOut, code, err := runCli(path, c.Flags)
	if err != nil {
		oc.Fail("timeout", "terminates", entry, "%v", err)
		return
	}
	sLines, vLines, oLines, other, bad := answerLines(out)
	if len(bad) > 0 {
		oc.Fail("spec", "stdout-conventions", entry, "malformed o line %q", bad[0])
	}
	if c.Ext == "bad" {
		// a garbage file that happens to be accepted by a lenient parser is not this property's business
		// unless an answer line is printed together with a failure status
		if c.Bad == "missing" || c.Bad == "unknown-suffix" {
			if code == 0 {
				oc.Fail("spec", "bad-file-nonzero-exit", entry, "exit status 0 for a %s file (stdout %q)", c.Bad, out)
			}
			if len(sLines) > 0 || len(vLines) > 0 {
				oc.Fail("spec", "bad-file-no-answer", entry, "answer line printed for a %s file: %q", c.Bad, out)
			}
		} else if code != 0 && (len(sLines) > 0 || len(vLines) > 0) {
			oc.Fail("spec", "bad-file-no-answer", entry, "non-zero exit together with an answer line: %q", out)
		} else if code == 0 {
			oc.Tag("garbage-accepted-by-parser")
		}
		return
	}
	isFlag := func(f string) bool {
		for _, x := range c.Flags {
			if x == f {
				return true
			}
		}
		return false
	}
	switch c.Ext {
	case "cnf":
		cc := c.Cnf
		n := cc.NbVars
		oc.Nontrivial = len(cc.Clauses) >= 2
		truth := o.CnfSat(n, cc.Clauses)
		switch {
		case isFlag("-mus"):
			if truth {
				if code == 0 {
					oc.Fail("spec", "mus-error-on-sat", entry, "satisfiable file, exit status 0, stdout %q", out)
				}
				return
			}
			if code != 0 {
				oc.Fail("spec", "exit-status", entry, "exit status %d on a well-formed unsatisfiable file: %s", code, errOut)
				return
			}
			// stdout must be a DIMACS problem (comment lines allowed)
			var mus [][]int
			header := false
			for _, l := range strings.Split(out, "\n") {
				l = strings.TrimSpace(l)
				if l == "" || strings.HasPrefix(l, "c ") || l == "c" {
					continue
				}
				if strings.HasPrefix(l, "p cnf") {
					header = true
					continue
				}
				cl, ok := parseCertLine(l)
				if !ok {
					oc.Fail("spec", "stdout-conventions", entry, "line %q of the MUS output is neither a comment, a header nor a clause", l)
					return
				}
				mus = append(mus, cl)
			}
			if !header {
				oc.Fail("spec", "stdout-conventions", entry, "no DIMACS header in the MUS output %q", out)
			}
			if !o.SubMulti(mus, cc.Clauses) {
				oc.Fail("spec", "mus-sub-multiset", entry, "printed clauses %v are not a sub-multiset of the file's", mus)
			} else if !o.IsMUS(n, mus) {
				oc.Fail("spec", "mus-minimal-unsat", entry, "printed clauses %v are not a minimal unsatisfiable subset", mus)
			}
		case isFlag("-count"):
			if code != 0 {
				oc.Fail("spec", "exit-status", entry, "exit status %d: %s", code, errOut)
				return
			}
			want := o.Count(n, cnfLins(cc.Clauses))
			got := -1
			for _, l := range other {
				if k, err := strconv.Atoi(strings.TrimSpace(l)); err == nil {
					got = k
				}
			}
			if got != want {
				oc.Fail("spec", "count", entry, "printed count %d, the file has %d models over %d variables (stdout %q)", got, want, n, out)
			}
		default:
			if code != 0 {
				oc.Fail("spec", "exit-status", entry, "exit status %d: %s", code, errOut)
				return
			}
			if len(sLines) != 1 {
				oc.Fail("spec", "stdout-conventions", entry, "%d 's' lines in %q", len(sLines), out)
				return
			}
			// certificate lines: bare integer lines
			var cert [][]int
			for _, l := range other {
				if cl, ok := parseCertLine(l); ok {
					cert = append(cert, cl)
				} else {
					oc.Fail("spec", "stdout-conventions", entry, "unexpected stdout line %q", l)
				}
			}
			if !isFlag("-certified") && len(cert) > 0 {
				oc.Fail("spec", "stdout-conventions", entry, "clause lines printed without -certified: %v", cert)
			}
			switch sLines[0] {
			case "SATISFIABLE":
				if !truth {
					oc.Fail("spec", "verdict", entry, "s SATISFIABLE on an unsatisfiable file")
				}
				if len(vLines) != 1 {
					oc.Fail("spec", "stdout-conventions", entry, "%d 'v' lines", len(vLines))
					return
				}
				vals, ok := parseCertLine(vLines[0])
				if !ok || len(vals) != n {
					oc.Fail("spec", "v-line", entry, "v line %q does not list %d literals terminated by 0", vLines[0], n)
					return
				}
				m := make([]bool, n)
				for i, x := range vals {
					if absInt(x) != i+1 {
						oc.Fail("spec", "v-line", entry, "v line %q: literal %d at position %d", vLines[0], x, i)
						return
					}
					m[i] = x > 0
				}
				if a := o.Eval(n, cnfLins(cc.Clauses), m); a != "ok" {
					oc.Fail("spec", "v-line-is-model", entry, "v line %q is not a model of the file: %s", vLines[0], a)
				}
				if fb, _ := o.Rup(n, cc.Clauses, cert); fb >= 0 {
					oc.Fail("spec", "cert-rup", entry, "certificate line %d %v is not RUP", fb, cert[fb])
				}
			case "UNSATISFIABLE":
				if truth {
					oc.Fail("spec", "verdict", entry, "s UNSATISFIABLE on a satisfiable file")
				}
				if len(vLines) != 0 {
					oc.Fail("spec", "stdout-conventions", entry, "v line with s UNSATISFIABLE")
				}
				if isFlag("-certified") {
					fb, refutes := o.Rup(n, cc.Clauses, cert)
					if fb >= 0 {
						oc.Fail("spec", "cert-rup", entry, "certificate line %d %v is not RUP", fb, cert[fb])
					} else if !refutes {
						oc.Fail("spec", "cert-refutes", entry, "the %d printed certificate lines do not refute the file", len(cert))
					}
				}
			default:
				oc.Fail("spec", "stdout-conventions", entry, "status line %q", sLines[0])
			}
		}
	case "opb", "wcnf":
		if code != 0 {
			oc.Fail("spec", "exit-status", entry, "exit status %d on a well-formed file: %s", code, errOut)
			return
		}
		if c.Ext == "opb" && isFlag("-count") {
			hard := semAll(c.Opb.Constrs)
			n := maxVarConstrs(c.Opb.Constrs)
			for _, l := range c.Opb.CostLits {
				if absInt(l) > n {
					n = absInt(l)
				}
			}
			want := o.Count(n, hard)
			got := -1
			for _, l := range other {
				if k, err := strconv.Atoi(strings.TrimSpace(l)); err == nil {
					got = k
				}
			}
			oc.Nontrivial = len(c.Opb.Constrs) >= 2
			if got != want {
				oc.Fail("spec", "count", entry, "printed count %d, the file has %d models over %d variables (stdout %q)", got, want, n, out)
			}
			return
		}
		var n int
		var sat bool
		var best int
		var hard []Lin
		var costOf func(m []bool) int
		if c.Ext == "opb" {
			oc.Nontrivial = len(c.Opb.Constrs) >= 2
			hard = semAll(c.Opb.Constrs)
			n = maxVarConstrs(c.Opb.Constrs)
			for _, l := range c.Opb.CostLits {
				if absInt(l) > n {
					n = absInt(l)
				}
			}
			sat, best = o.Opt(n, hard, c.Opb.CostW, c.Opb.CostLits)
			costOf = func(m []bool) int { return o.Cost(c.Opb.CostW, c.Opb.CostLits, m) }
		} else {
			oc.Nontrivial = len(c.Wcnf.Constrs) >= 2
			var soft []SoftLin
			hard, soft = splitHardSoft(c.Wcnf.Constrs)
			n = c.Wcnf.NbVars
			sat, best = o.MaxSat(n, hard, soft)
			costOf = func(m []bool) int { return o.Violated(soft, m) }
		}
		// the library calls the tool makes for this file, made again in-process with the optimisation
		// loop watched (append-mirror, constraints-stable); the optimum must be the one printed
		if !isFlag("-cp") {
			var inner *solver.Solver
			var run func() solver.Result
			if c.Ext == "opb" {
				if pb, err := solver.ParseOPB(strings.NewReader(c.Text)); err == nil {
					inner = solver.New(pb)
					run = func() solver.Result { return inner.Optimal(nil, nil) }
				}
			} else if itf, err := maxsat.ParseWCNF(strings.NewReader(c.Text)); err == nil {
				if ms, ok := itf.(*maxsat.Solver); ok {
					inner = ms.VerifSolver()
					run = func() solver.Result { return ms.Optimal(nil, nil) }
				}
			}
			if inner != nil {
				stop := mirrorAppends(o, oc, inner, entry+" (same calls in-process)")
				res := run()
				stop()
				oc.Tag("library-twin")
				if res.Status == solver.Sat && len(oLines) > 0 && oLines[len(oLines)-1] != res.Weight {
					oc.Fail("spec", "cli-library-agree", entry, "the tool's last o line is %d, the same library calls in-process end with cost %d", oLines[len(oLines)-1], res.Weight)
				}
			}
		}
		if len(sLines) != 1 {
			oc.Fail("spec", "stdout-conventions", entry, "%d 's' lines in %q", len(sLines), out)
			return
		}
		for _, l := range other {
			oc.Fail("spec", "stdout-conventions", entry, "unexpected stdout line %q", l)
		}
		for i := 1; i < len(oLines); i++ {
			if oLines[i] >= oLines[i-1] {
				oc.Fail("spec", "o-lines-decreasing", entry, "o lines %v", oLines)
				break
			}
		}
		switch sLines[0] {
		case "UNSATISFIABLE":
			if sat {
				oc.Fail("spec", "verdict", entry, "s UNSATISFIABLE on a satisfiable file (optimum %d)", best)
			}
			if len(oLines) > 0 || len(vLines) > 0 {
				oc.Fail("spec", "stdout-conventions", entry, "o / v lines with s UNSATISFIABLE")
			}
		case "OPTIMUM FOUND":
			if !sat {
				oc.Fail("spec", "verdict", entry, "s OPTIMUM FOUND on an unsatisfiable file")
				return
			}
			if len(oLines) == 0 || oLines[len(oLines)-1] != best {
				oc.Fail("spec", "optimum", entry, "o lines %v, true optimum %d", oLines, best)
			}
			if len(vLines) != 1 {
				oc.Fail("spec", "stdout-conventions", entry, "%d 'v' lines", len(vLines))
				return
			}
			fs := strings.Fields(vLines[0])
			if len(fs) != n {
				oc.Fail("spec", "v-line", entry, "v line %q lists %d values for %d variables", vLines[0], len(fs), n)
				return
			}
			m := make([]bool, n)
			for i, f := range fs {
				want := fmt.Sprintf("x%d", i+1)
				switch f {
				case want:
					m[i] = true
				case "-" + want:
					m[i] = false
				default:
					oc.Fail("spec", "v-line", entry, "v line %q: token %q at position %d", vLines[0], f, i)
					return
				}
			}
			if a := o.Eval(n, hard, m); a != "ok" {
				oc.Fail("spec", "v-line-is-model", entry, "v line is not a model of the file: %s", a)
			}
			if len(oLines) > 0 && costOf(m) != oLines[len(oLines)-1] {
				oc.Fail("spec", "v-line-attains-optimum", entry, "v line costs %d, last o line %d", costOf(m), oLines[len(oLines)-1])
			}
		default:
			oc.Fail("spec", "stdout-conventions", entry, "status line %q", sLines[0])
		}
	case "bf":
		if code != 0 {
			oc.Fail("spec", "exit-status", entry, "exit status %d on a well-formed formula: %s", code, errOut)
			return
		}
		oc.Nontrivial = sizeOf(*c.Bf) > 2
		truth := o.Ask(fmt.Sprintf("bfsat %d | %s", c.K, c.Bf.Wire()))
		var status string
		vals := make([]bool, c.K)
		for _, l := range other {
			switch {
			case l == "SATISFIABLE" || l == "UNSATISFIABLE":
				status = l
			case strings.Contains(l, ": "):
				kv := strings.SplitN(l, ": ", 2)
				if len(kv[0]) == 1 && int(kv[0][0]-'a') < c.K && kv[0][0] >= 'a' {
					vals[int(kv[0][0]-'a')] = kv[1] == "true"
				}
			default:
				oc.Fail("spec", "stdout-conventions", entry, "unexpected stdout line %q", l)
			}
		}
		switch status {
		case "UNSATISFIABLE":
			if truth != "0" {
				oc.Fail("spec", "verdict", entry, "UNSATISFIABLE printed for a satisfiable formula")
			}
		case "SATISFIABLE":
			if truth != "1" {
				oc.Fail("spec", "verdict", entry, "SATISFIABLE printed for an unsatisfiable formula")
			} else if a := o.Ask(fmt.Sprintf("bfeval %s | %s", c.Bf.Wire(), encBools(vals))); a != "1" {
				oc.Fail("spec", "printed-assignment-is-model", entry, "printed assignment does not satisfy the formula (stdout %q)", out)
			}
		default:
			oc.Fail("spec", "stdout-conventions", entry, "no status line in %q", out)
		}
	}
}
