package main

import (
	"fmt"
	"testing"

	"github.com/crillab/gophersat/solver"
)

// Witnesses for the hypotheses of the GS.Watch theorems, replayed on the Go code and on the mirror.
func TestWatchWitnesses(t *testing.T) {
	o, err := NewOracle()
	if err != nil {
		t.Skip(err)
	}
	defer o.Close()
	// (1) a repeated unit line is put twice on the trail by New: the trail part of watchInv fails
	s := solver.New(solver.ParseSliceNb([][]int{{-1}, {-1}, {2, 3, 4}, {-2, 3}}, 4))
	st := s.VerifWatchSnapshot()
	fmt.Println("repeated unit: trail", st.Trail, "winv:", o.Ask(fmt.Sprintf("winv %s | %d", encWatchState(st), len(st.Trail))))
	// (2) a level <= 0: the literal "bound true" is recorded as false (negative level), mirror agrees
	s = solver.New(solver.ParseSliceNb([][]int{{-1, 2}, {1, 3, 4}}, 4))
	before, after, confl, panicked := s.VerifUnify(1, -2)
	want := watchAnswer(after, len(before.Trail)+1, confl, panicked)
	got := o.Ask(fmt.Sprintf("wunify %s | 1 -2", encWatchState(before)))
	fmt.Println("level -2: Go", want)
	fmt.Println("level -2: Lean", got, "same:", want == got)
	fmt.Println("level -2: winv:", o.Ask(fmt.Sprintf("winv %s | %d", encWatchState(after), len(after.Trail))))
}
