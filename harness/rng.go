package main

// SplitMix64: every random choice of the harness derives from one of these, seeded by
// (VERIF_SEED, property, case index), so a case is reproducible from its coordinates.
type Rng struct{ s uint64 }

func NewRng(seed uint64) *Rng { return &Rng{s: seed} }

func (r *Rng) Next() uint64 {
	r.s += 0x9e3779b97f4a7c15
	z := r.s
	z = (z ^ (z >> 30)) * 0xbf58476d1ce4e5b9
	z = (z ^ (z >> 27)) * 0x94d049bb133111eb
	return z ^ (z >> 31)
}

// Intn returns a value in [0,n).
func (r *Rng) Intn(n int) int {
	if n <= 0 {
		return 0
	}
	return int(r.Next() % uint64(n))
}

// Range returns a value in [lo,hi].
func (r *Rng) Range(lo, hi int) int { return lo + r.Intn(hi-lo+1) }

func (r *Rng) Bool() bool { return r.Next()&1 == 1 }

// Chance is true with probability num/den.
func (r *Rng) Chance(num, den int) bool { return r.Intn(den) < num }

func (r *Rng) Perm(n int) []int {
	p := make([]int, n)
	for i := range p {
		p[i] = i
	}
	for i := n - 1; i > 0; i-- {
		j := r.Intn(i + 1)
		p[i], p[j] = p[j], p[i]
	}
	return p
}

func mix(a, b uint64) uint64 {
	r := NewRng(a ^ (b * 0x9e3779b97f4a7c15))
	r.Next()
	return r.Next()
}

func hashString(s string) uint64 {
	var h uint64 = 1469598103934665603
	for i := 0; i < len(s); i++ {
		h ^= uint64(s[i])
		h *= 1099511628211
	}
	return h
}
