package main

import (
	"encoding/json"
	"fmt"
	"strings"
	"time"

	"github.com/crillab/gophersat/solver"
)

// AssumeCase: a base CNF and a sequence of rounds, each a list of assumed literals (C10).
type AssumeCase struct {
	NbVars int     `json:"nbvars"`
	Cnf    [][]int `json:"cnf"`
	Rounds [][]int `json:"rounds"`
	Large  bool    `json:"large,omitempty"` // beyond the exhaustive oracle: each answer validated (model evaluated; Unsat by a verified refutation of a fresh run)
}

// genAssumeLarge: rounds that need restarts or very long learned clauses. (a) a pigeonhole problem
// guarded by a literal g (every clause carries -g): unsatisfiable under g after thousands of conflicts,
// trivially satisfiable otherwise; (b) threshold 3-SAT over 90..130 variables with one or two assumed
// literals per round; (c) three clauses over x, y and more than a thousand selector literals, all of them
// assumed: one conflict whose learned clause holds every selector.
func genAssumeLarge(r *Rng, tier string) AssumeCase {
	c := AssumeCase{Large: true}
	switch r.Intn(3) {
	case 0:
		p := r.Range(6, 7)
		if tier == "thorough" {
			p = r.Range(7, 8)
		}
		cnf := genPigeon(p, p-1)
		g := maxVarCnf(cnf) + 1
		for i := range cnf {
			cnf[i] = append(cnf[i], -g)
		}
		c.NbVars, c.Cnf = g, cnf
		c.Rounds = [][]int{{}, {g}, {-g}, {g}, {}}
		if r.Bool() {
			c.Rounds = [][]int{{g}, {}, {g, 1}, {-g}}
		}
	case 1:
		n := r.Range(90, 130)
		c.NbVars = n
		c.Cnf = genKSat(r, n, int(float64(n)*4.2), 3)
		for i := r.Range(3, 5); i > 0; i-- {
			c.Rounds = append(c.Rounds, randClauseDistinct(r, n, r.Range(0, 2)))
		}
	default:
		k := r.Range(1050, 1300)
		const z, x, y = 1, 2, 3
		c1, c2, c3 := []int{x, y}, []int{x, -y}, []int{-x, y}
		var sel []int
		for i := 0; i < k; i++ {
			a := 4 + i
			sel = append(sel, a)
			c1, c2, c3 = append(c1, -a), append(c2, -a), append(c3, -a)
		}
		c.NbVars, c.Cnf = k+3, [][]int{c1, c2, c3}
		with := func(extra ...int) []int { return append(append([]int{}, sel...), extra...) }
		c.Rounds = [][]int{with(), with(-z), with(z), {-z}, {}, with(-z)}
		if r.Bool() {
			c.Rounds = [][]int{with(-x), with(), {z}, with(z, y)}
		}
	}
	return c
}

// runAssumeLarge: every round's answer is validated on its own. Sat: the model is evaluated on the
// formula and the assumptions. Unsat: a fresh solver is run on formula + assumptions as unit clauses with
// certificate generation, and its answer is validated in turn (model evaluated, or refutation replayed by
// the verified RUP checker): only then is the truth known, and the round must agree with it.
func runAssumeLarge(o *Oracle, c *AssumeCase, oc *Outcome) {
	n := c.NbVars
	oc.Tag("large-rounds")
	oc.Nontrivial = true
	cp := copyCnf(c.Cnf)
	s := solver.New(solver.ParseSliceNb(cp, n))
	entry := "solver.Assume+Solve"
	for i, a := range c.Rounds {
		lits := make([]solver.Lit, len(a))
		withUnits := copyCnf(c.Cnf)
		for j, l := range a {
			lits[j] = solver.IntToLit(int32(l))
			withUnits = append(withUnits, []int{l})
		}
		st := s.Assume(lits)
		if st != solver.Unsat {
			st = s.Solve()
		}
		holds := func(m []bool, l int) bool {
			if l < 0 {
				return !m[-l-1]
			}
			return m[l-1]
		}
		evalOn := func(m []bool) string {
			if len(m) != n {
				return fmt.Sprintf("model has %d values for %d variables", len(m), n)
			}
			for k, cl := range withUnits {
				ok := false
				for _, l := range cl {
					if holds(m, l) {
						ok = true
						break
					}
				}
				if !ok {
					if k >= len(c.Cnf) {
						return fmt.Sprintf("assumed literal %v is false", cl)
					}
					return fmt.Sprintf("clause %d is false", k)
				}
			}
			return "ok"
		}
		switch st {
		case solver.Sat:
			if r := evalOn(s.Model()); r != "ok" {
				oc.Fail("spec", "model-satisfies-formula-and-assumptions", entry, "round %d (%d assumed literals): %s", i, len(a), r)
			}
			oc.Tag("large:sat")
		case solver.Unsat:
			// truth by a validated fresh run
			f := solver.New(solver.ParseSliceNb(copyCnf(withUnits), n))
			f.Certified = true
			f.CertChan = make(chan string, 1<<16)
			var lines [][]int
			done := make(chan struct{})
			go func() {
				for line := range f.CertChan {
					if cl, ok := parseCertLine(line); ok {
						lines = append(lines, cl)
					}
				}
				close(done)
			}()
			fst := f.Solve()
			close(f.CertChan)
			<-done
			if fst == solver.Sat {
				if r := evalOn(f.Model()); r == "ok" {
					oc.Fail("spec", "verdict", entry, "round %d (%d assumed literals): Unsat, but formula and assumptions are satisfiable (model of a fresh run, evaluated)", i, len(a))
				} else {
					oc.Fail("spec", "verdict", "solver.Solve", "fresh run on formula + assumptions of round %d: Sat with a model that does not hold: %s", i, r)
				}
			} else if len(withUnits) <= 400 || len(lines) <= 3000 {
				oc.Corr++
				if bad, ref := o.Rup(n, withUnits, lines); bad >= 0 || !ref {
					oc.Fail("spec", "verdict", "solver.Solve", "fresh run on formula + assumptions of round %d: Unsat, but its certificate is not a refutation (first bad line %d, refutes %v)", i, bad, ref)
				}
			}
			oc.Tag("large:unsat")
		default:
			oc.Fail("spec", "never-indet", entry, "round %d: status %v", i, st)
		}
	}
	if s.Stats.NbRestarts > 0 {
		oc.Tag("restarts-under-assumptions")
	}
}

func genAssumeCase(r *Rng, tier string) AssumeCase {
	n := r.Range(2, 10)
	var cnf [][]int
	kind := r.Intn(5)
	switch kind {
	case 4: // threshold 3-SAT, 11..14 variables: rounds with real search, learned clauses kept across rounds
		n = r.Range(11, 14)
		cnf = genKSat(r, n, int(float64(n)*4.1)+r.Range(0, 3), 3)
	case 0:
		cnf = genKSat(r, n, r.Range(1, 4*n), 3)
	case 1:
		cnf = genKSat(r, n, r.Range(1, 2*n), 2)
	case 2: // with unit clauses / parse-time propagated facts
		cnf = genKSat(r, n, r.Range(1, 3*n), r.Range(2, 3))
		for i := 0; i < r.Range(1, 3); i++ {
			u := []int{randLit(r, n)}
			cnf = append(cnf, u)
			for r.Chance(1, 3) { // the same unit clause written again: one fact, several lines
				cnf = append(cnf, append([]int{}, u...))
			}
		}
		cnf = shuffleCnf(r, cnf)
	default:
		cnf = genMessyCnf(r, n, r.Range(1, 3*n), 3, false)
	}
	c := AssumeCase{NbVars: n, Cnf: cnf}
	rounds := r.Range(1, 6)
	if kind == 4 {
		rounds = r.Range(3, 7)
	}
	for i := 0; i < rounds; i++ {
		var a []int
		switch r.Intn(8) {
		case 0: // empty
		case 1: // repeat the previous round
			if i > 0 {
				a = append([]int{}, c.Rounds[i-1]...)
			}
		case 2: // contradict the previous round
			if i > 0 {
				for _, l := range c.Rounds[i-1] {
					a = append(a, -l)
				}
			}
		case 3: // self-contradictory
			l := randLit(r, n)
			a = []int{l, -l}
			if r.Bool() {
				a = append(a, randLit(r, n))
			}
		case 4: // repeated literal
			l := randLit(r, n)
			a = []int{l, l}
		default:
			k := r.Range(1, min2(n, 4))
			if kind == 4 {
				k = r.Range(1, 2) // few assumptions: the round stays hard, and their consequences sit at level 1
			}
			a = randClauseDistinct(r, n, k)
		}
		c.Rounds = append(c.Rounds, a)
	}
	return c
}

func init() {
	register(&Prop{
		ID: "C10",
		Rule: "base CNF over 2..10 variables (uniform 2/3-SAT, with or without unit clauses - some written several times -, or messy clauses with duplicate literals / tautologies) or threshold 3-SAT over 11..14 variables with 3..7 rounds of 1..2 assumptions and 1..6 rounds of assumption lists: empty, 1..4 distinct literals, a repetition or the negation of the previous round, a list containing a literal and its negation, a list repeating a literal. Every round (Assume, then Solve unless Assume already answered Unsat) is compared with the verified exhaustive verdict on formula AND that round's assumptions, and the model is evaluated on the formula as written and on the assumptions; the rounds are replayed through the abstract machine GS.Cdcl (a learned clause must follow from the formula alone) and sampled conflict analyses (with their assumption flags) are compared with the Lean mirror GS.Analyze. Non-trivial = at least two rounds with different verdicts or a round with a conflict; distinct = distinct (formula, rounds).",
		Gens:    []Gen{{Name: "rounds", Weight: 1, Make: func(r *Rng, tier string) interface{} { return genAssumeCase(r, tier) }}},
		Extra:   []ExtraGen{{Gen{Name: "large-rounds", Make: func(r *Rng, tier string) interface{} { return genAssumeLarge(r, tier) }}, 30, 600}},
		Run:     runAssumeCase,
		Cases:   defCases(4000, 100000),
		Timeout: defDur(10*time.Second, 60*time.Second),
		Wall:    defDur(50*time.Second, 12*time.Minute),
	})
}

func runAssumeCase(o *Oracle, d json.RawMessage, oc *Outcome) {
	var c AssumeCase
	if err := json.Unmarshal(d, &c); err != nil {
		oc.Fail("crash", "harness", "", "bad case: %v", err)
		return
	}
	oc.Key = keyOf(c)
	if c.Large {
		oc.Sample = fmt.Sprintf("large: %d variables, %d clauses, %d rounds", c.NbVars, len(c.Cnf), len(c.Rounds))
		runAssumeLarge(o, &c, oc)
		return
	}
	oc.Sample = fmt.Sprintf("cnf %s rounds %v", cnfString(c.Cnf), c.Rounds)
	cp := make([][]int, len(c.Cnf))
	for i, cl := range c.Cnf {
		cp[i] = append([]int(nil), cl...)
	}
	pb := solver.ParseSliceNb(cp, c.NbVars)
	n := c.NbVars
	if len(pb.Units) > 0 {
		oc.Tag("base-has-facts")
	}
	if pb.Status == solver.Unsat {
		oc.Tag("base-parse-unsat")
	}
	s := solver.New(pb)
	if len(c.Cnf)%3 == 0 { // a small limit on learned clauses: the database is reduced while assumptions are installed
		s.VerifSetNbMax(4 + 12*(len(c.Cnf)%2))
		oc.Tag("small-learned-limit")
	}
	analyses := sampleAnalyses(s, 10, 15, 40)
	defer func() {
		s.VerifSetAnalyzeHook(nil)
		analysisMirror(o, oc, *analyses, "solver.Assume+Solve")
	}()
	// refinement through GS.Cdcl with assume events; the lines emitted during Assume itself
	// echo the assumed literals (addLearnedUnit) and are not learn events
	replay := pb.Status != solver.Unsat
	var events []string
	drain := func(keep bool) {}
	if replay {
		s.Certified = true
		s.CertChan = make(chan string, 1<<16)
		drain = func(keep bool) {
			for {
				select {
				case line := <-s.CertChan:
					if cl, ok := parseCertLine(line); ok && keep && len(cl) > 0 {
						events = append(events, evLearn(cl))
					}
				default:
					return
				}
			}
		}
		oc.Tag("cdcl-replay")
	}
	base := cnfLins(c.Cnf)
	verdicts := map[solver.Status]bool{}
	for i, a := range c.Rounds {
		lits := make([]solver.Lit, len(a))
		sem := append([]Lin{}, base...)
		for j, l := range a {
			lits[j] = solver.IntToLit(int32(l))
			sem = append(sem, clauseLin([]int{l}))
		}
		entry := "solver.Assume+Solve"
		st := s.Assume(lits)
		drain(false)
		if pb.Status != solver.Unsat {
			// the prologue of Assume (facts re-installed, assumptions bound and flagged) against its
			// Lean mirror GS.Assume.assumePrologue (theorems assumePrologue_spec / _sem / _no_leak /
			// _trail_run); what follows on the trail is the work of the propagation
			facts, flagged := s.VerifAssumeState()
			tr, _, _ := s.VerifTrailState()
			want := o.Ask(fmt.Sprintf("assumepro %d | %s | %s", n, encInts(facts), encInts(a)))
			oc.Corr++
			switch {
			case want == "refuted":
				if st != solver.Unsat {
					oc.Fail("corr", "assume-mirror", entry, "round %d %v with facts %v: the mirror GS.Assume.assumePrologue refutes, Assume answered %v", i, a, facts, st)
				}
			case strings.HasPrefix(want, "installed"):
				parts := strings.SplitN(strings.TrimPrefix(want, "installed"), "|", 2)
				wt := strings.Join(strings.Fields(parts[0]), " ")
				wf := ""
				if len(parts) == 2 {
					wf = strings.Join(strings.Fields(parts[1]), " ")
				}
				k := len(strings.Fields(wt))
				if k > len(tr) || encInts(tr[:k]) != wt || encInts(flagged) != wf {
					oc.Fail("corr", "assume-mirror", entry, "round %d %v with facts %v: trail %v flagged %v, the mirror installs trail [%s] flagged [%s]", i, a, facts, tr, flagged, wt, wf)
				}
			default:
				oc.Fail("corr", "assume-mirror", entry, "round %d %v with facts %v: mirror answered %q", i, a, facts, want)
			}
		}
		if len(a) == 0 {
			events = append(events, "S")
		} else {
			events = append(events, "S "+encInts(a))
		}
		if st != solver.Unsat {
			st = s.Solve()
		}
		drain(true)
		if st == solver.Sat {
			events = append(events, evModel(s.Model()))
		} else if st == solver.Unsat {
			events = append(events, "U")
		}
		truth := o.Sat(n, sem)
		verdicts[st] = true
		switch st {
		case solver.Sat:
			if !truth {
				oc.Fail("spec", "verdict", entry, "round %d %v: Sat, but formula and assumptions are unsatisfiable", i, a)
			}
			m := s.Model()
			if len(m) != n {
				oc.Fail("spec", "model-length", entry, "round %d: model has %d values for %d variables", i, len(m), n)
			} else if r := o.Eval(n, sem, m); r != "ok" {
				oc.Fail("spec", "model-satisfies-formula-and-assumptions", entry, "round %d %v: model %v: %s", i, a, m, r)
			}
		case solver.Unsat:
			if truth {
				oc.Fail("spec", "verdict", entry, "round %d %v: Unsat, but formula and assumptions are satisfiable", i, a)
			}
		default:
			oc.Fail("spec", "never-indet", entry, "round %d: status %v", i, st)
		}
	}
	if replay {
		oc.Corr++
		if r := cdclReplay(o, n, c.Cnf, events); r != "ok" {
			oc.Fail("corr", "cdcl-refinement", "solver.Assume+Solve", "the rounds are not a run of the abstract machine GS.Cdcl: %s (events %v)", r, events)
		}
	}
	if len(verdicts) > 1 || s.Stats.NbConflicts > 0 {
		oc.Nontrivial = true
	}
	if len(verdicts) > 1 {
		oc.Tag("mixed-verdicts")
	}
}
