package main

import (
	"encoding/json"
	"time"
)

func init() {
	gens := cnfGens()
	c06 := make([]Gen, len(gens))
	for i, g := range gens {
		g := g
		c06[i] = Gen{Name: g.Name, Weight: g.Weight, Make: func(r *Rng, tier string) interface{} {
			c := g.Make(r, tier).(CnfCase)
			c.Certified = true
			return c
		}}
	}
	// more weight on instances with many conflicts and a tiny learned-clause limit
	// long runs: LBD restarts need 50+ conflicts and a recent-LBD surge, so they only happen on
	// instances with hundreds to thousands of conflicts
	c06 = append(c06, Gen{Name: "3sat-restarts", Weight: 12, Make: func(r *Rng, tier string) interface{} {
		n := r.Range(90, 140)
		m := int(float64(n)*4.26) + r.Range(-n/8, n/8)
		c := makeCnfCase(r, genKSat(r, n, m, 3), 0)
		c.Certified = true
		c.NbMax = []int{0, 16}[r.Intn(2)]
		c.Front = "slice"
		return c
	}})
	c06 = append(c06, Gen{Name: "3sat-hard-nbmax4", Weight: 15, Make: func(r *Rng, tier string) interface{} {
		n := r.Range(30, 90)
		m := int(float64(n)*4.26) + r.Range(-n/6, n/6)
		c := makeCnfCase(r, genKSat(r, n, m, 3), 0)
		c.Certified = true
		c.NbMax = 4 + 12*r.Intn(2)
		return c
	}})
	register(&Prop{
		ID: "C06",
		Rule: "CNF formulas as for C01 plus harder uniform 3-SAT (30..90 variables) with the learned-clause limit lowered to 4 or 16, always solved with certificate generation to a channel; the emitted lines are replayed by the verified RUP checker (GS.rupFirstBad / GS.rupRefutes) and the run is repeated with certification off. Non-trivial = the search ran (status undetermined after parsing); distinct = distinct (formula, front-end, configuration).",
		Gens:    c06,
		Slices:  []SliceRef{{"XSEARCH", 500, 20000}},
		Extra:   []ExtraGen{{Gen{Name: "unit-learning-gadgets", Make: func(r *Rng, tier string) interface{} { return genUnitGadgets(r, tier) }}, 20, 300}},
		Run:     func(o *Oracle, d json.RawMessage, oc *Outcome) { runCnfCase(o, d, oc, "C06") },
		Cases:   defCases(3000, 40000),
		Timeout: defDur(60*time.Second, 120*time.Second),
		Wall:    defDur(50*time.Second, 12*time.Minute),
	})
}
