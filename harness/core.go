package main

import (
	"bufio"
	"bytes"
	"encoding/json"
	"fmt"
	"io"
	"os"
	"os/exec"
	"path/filepath"
	"runtime"
	"runtime/debug"
	"sort"
	"strings"
	"sync"
	"time"
)

// Failure is one way in which a case went wrong.
type Failure struct {
	Kind   string `json:"kind"`   // spec | corr | panic | timeout | crash
	Check  string `json:"check"`  // name of the conformance check or correspondence
	Entry  string `json:"entry"`  // entry point of /repo that misbehaved
	Detail string `json:"detail"` // what was expected / observed
}

// Outcome is what running one case produced.
type Outcome struct {
	Failures    []Failure `json:"failures,omitempty"`
	Nontrivial  bool      `json:"nontrivial"`
	Key         string    `json:"key"`               // canonical identity of the input
	Tags        []string  `json:"tags,omitempty"`    // distribution / branch tags
	Classes     []string  `json:"classes,omitempty"` // known-finding classes the input is in
	Sample      string    `json:"sample,omitempty"`  // short human readable rendering
	OracleCalls int       `json:"oracle_calls"`
	Corr        int       `json:"corr"` // number of model-vs-code comparisons made
}

func (o *Outcome) Fail(kind, check, entry, format string, args ...interface{}) {
	o.Failures = append(o.Failures, Failure{Kind: kind, Check: check, Entry: entry, Detail: fmt.Sprintf(format, args...)})
}
func (o *Outcome) Tag(t string)   { o.Tags = append(o.Tags, t) }
func (o *Outcome) Class(c string) { o.Classes = append(o.Classes, c) }

// WireCase is a case as it travels to a worker and as it is stored in replays / corpus.
type WireCase struct {
	Prop string          `json:"prop"`
	Gen  string          `json:"gen"`
	Idx  int             `json:"idx"`
	Seed uint64          `json:"seed"`
	Data json.RawMessage `json:"data"`
}

type Gen struct {
	Name   string
	Weight int
	Make   func(r *Rng, tier string) interface{}
	// Enum, when non-nil, enumerates a finite family (index-addressed, independent of the seed).
	Enum func(tier string) []interface{}
}

type Prop struct {
	ID      string
	Rule    string
	Gens    []Gen
	Run     func(o *Oracle, data json.RawMessage, oc *Outcome)
	Classify func(data json.RawMessage) []string // classes of an input, for cases whose worker died
	Cases   func(tier string) int
	Timeout func(tier string) time.Duration
	Wall    func(tier string) time.Duration
	Shrink  func(data json.RawMessage) []json.RawMessage
	Extra   []ExtraGen // generators added later: each has a stream of its own, so the main stream of a seed never changes
	Slices  []SliceRef // model slices (mirror ties of their own, x_*.go) that run inside this property
}

// ExtraGen is a generator with its own seeded stream and its own number of cases per tier.
type ExtraGen struct {
	Gen             Gen
	Quick, Thorough int
}

// SliceRef names a scratch property X<NAME> (registered by an x_*.go file: one model slice with its
// own generator and differential tie) whose cases also run as part of a real property, and how many.
type SliceRef struct {
	Name            string
	Quick, Thorough int
}

// SliceCase is the wire form of such a case: the slice and the seed of its generator.
type SliceCase struct {
	Slice string `json:"slice"`
	Seed  uint64 `json:"seed"`
}

var props = map[string]*Prop{}

func register(p *Prop) { props[p.ID] = p }

func defCases(q, t int) func(string) int {
	return func(tier string) int {
		if tier == "thorough" {
			return t
		}
		return q
	}
}
func defDur(q, t time.Duration) func(string) time.Duration {
	return func(tier string) time.Duration {
		if tier == "thorough" {
			return t
		}
		return q
	}
}

// ---------------------------------------------------------------- worker

func workerMain(propID string) {
	p := props[propID]
	if p == nil {
		fmt.Fprintf(os.Stderr, "unknown property %s\n", propID)
		os.Exit(2)
	}
	orc, err := NewOracle()
	if err != nil {
		fmt.Fprintf(os.Stderr, "cannot start oracle: %v\n", err)
		os.Exit(2)
	}
	defer orc.Close()
	in := bufio.NewReaderSize(os.Stdin, 1<<22)
	out := bufio.NewWriter(os.Stdout)
	for {
		line, err := in.ReadBytes('\n')
		if len(line) > 0 {
			var wc WireCase
			if e := json.Unmarshal(line, &wc); e != nil {
				fmt.Fprintf(os.Stderr, "bad case: %v\n", e)
				os.Exit(2)
			}
			oc := runCaseRecover(p, orc, wc.Data)
			b, _ := json.Marshal(oc)
			out.Write(b)
			out.WriteByte('\n')
			out.Flush()
		}
		if err != nil {
			return
		}
	}
}

func runCaseRecover(p *Prop, orc *Oracle, data json.RawMessage) (oc Outcome) {
	before := orc.Calls
	t0 := time.Now()
	defer func() {
		if d := time.Since(t0); d > 2*time.Second {
			oc.Tags = append(oc.Tags, fmt.Sprintf("slow>%ds", int(d.Seconds())/2*2))
			fmt.Fprintf(os.Stderr, "slow case (%v): %s\n", d, oc.Sample)
		}
	}()
	defer func() {
		if r := recover(); r != nil {
			oc.Fail("panic", "no-panic", panicEntry(), "panic: %v | %s", r, panicSite())
		}
		oc.OracleCalls = orc.Calls - before
	}()
	var sc SliceCase
	if json.Unmarshal(data, &sc) == nil && sc.Slice != "" {
		x := props[sc.Slice]
		if x == nil {
			oc.Fail("crash", "harness", "", "unknown slice %q", sc.Slice)
			return oc
		}
		d, _ := json.Marshal(struct {
			Seed uint64 `json:"seed"`
		}{sc.Seed})
		oc.Tag("slice:" + sc.Slice)
		x.Run(orc, d, &oc)
		if oc.Key == "" {
			oc.Key = fmt.Sprintf("%s:%d", sc.Slice, sc.Seed)
		}
		return oc
	}
	p.Run(orc, data, &oc)
	return oc
}

// panicSite returns the innermost frames of the panicking goroutine that lie in /repo.
func panicSite() string {
	st := string(debug.Stack())
	var frames []string
	for _, l := range strings.Split(st, "\n") {
		l = strings.TrimSpace(l)
		if strings.HasPrefix(l, "/repo/") {
			if i := strings.Index(l, " +0x"); i > 0 {
				l = l[:i]
			}
			frames = append(frames, strings.TrimPrefix(l, "/repo/"))
			if len(frames) == 4 {
				break
			}
		}
	}
	return strings.Join(frames, " < ")
}

func panicEntry() string {
	st := string(debug.Stack())
	lines := strings.Split(st, "\n")
	// the outermost /repo function below harness frames = the API entry point
	entry := ""
	for i := 0; i+1 < len(lines); i++ {
		if strings.HasPrefix(strings.TrimSpace(lines[i+1]), "/repo/") {
			f := strings.TrimSpace(lines[i])
			if j := strings.Index(f, "("); j > 0 && !strings.HasPrefix(f, "panic") {
				entry = f[:j]
			}
			if j := strings.LastIndex(f, "("); j > 0 {
				entry = f[:j]
			}
		}
	}
	entry = strings.TrimPrefix(entry, "github.com/crillab/gophersat/")
	return entry
}

// ---------------------------------------------------------------- parent

type workerProc struct {
	cmd    *exec.Cmd
	in     io.WriteCloser
	out    *bufio.Reader
	stderr *tailBuf
}

type tailBuf struct {
	mu  sync.Mutex
	buf []byte
}

func (t *tailBuf) Write(p []byte) (int, error) {
	t.mu.Lock()
	defer t.mu.Unlock()
	t.buf = append(t.buf, p...)
	if len(t.buf) > 8192 {
		t.buf = t.buf[len(t.buf)-8192:]
	}
	return len(p), nil
}
func (t *tailBuf) String() string { t.mu.Lock(); defer t.mu.Unlock(); return string(t.buf) }

func startWorker(propID string) (*workerProc, error) {
	self, _ := os.Executable()
	if alt := os.Getenv("HARNESS_WORKER_BIN"); alt != "" { // e.g. the race-detector build (C16)
		self = alt
	}
	cmd := exec.Command(self, "worker", "-prop", propID)
	cmd.Env = append(os.Environ(), "GOMEMLIMIT=3GiB", "GOTRACEBACK=single", "GORACE=halt_on_error=1 exitcode=66")
	in, _ := cmd.StdinPipe()
	out, _ := cmd.StdoutPipe()
	tb := &tailBuf{}
	cmd.Stderr = tb
	if err := cmd.Start(); err != nil {
		return nil, err
	}
	return &workerProc{cmd: cmd, in: in, out: bufio.NewReaderSize(out, 1<<22), stderr: tb}, nil
}

func (w *workerProc) kill() {
	w.in.Close()
	w.cmd.Process.Kill()
	w.cmd.Wait()
}

// runOn runs one case on w; restarts semantics are left to the caller through ok=false.
func (w *workerProc) runOn(wc WireCase, timeout time.Duration) (oc Outcome, ok bool) {
	b, _ := json.Marshal(wc)
	b = append(b, '\n')
	type res struct {
		line []byte
		err  error
	}
	ch := make(chan res, 1)
	go func() {
		if _, err := w.in.Write(b); err != nil {
			ch <- res{nil, err}
			return
		}
		line, err := w.out.ReadBytes('\n')
		ch <- res{line, err}
	}()
	select {
	case r := <-ch:
		if r.err != nil || len(r.line) == 0 {
			time.Sleep(50 * time.Millisecond)
			oc.Fail("crash", "no-panic", crashEntry(w.stderr.String()), "worker died: %s", crashSummary(w.stderr.String()))
			return oc, false
		}
		if err := json.Unmarshal(r.line, &oc); err != nil {
			oc.Fail("crash", "harness", "", "undecodable outcome: %v", err)
			return oc, false
		}
		return oc, true
	case <-time.After(timeout):
		oc.Fail("timeout", "terminates", "", "no answer within %v", timeout)
		return oc, false
	}
}

func crashSummary(stderr string) string {
	lines := strings.Split(stderr, "\n")
	var keep []string
	for _, l := range lines {
		t := strings.TrimSpace(l)
		if strings.HasPrefix(t, "panic:") || strings.HasPrefix(t, "fatal error:") || strings.HasPrefix(t, "/repo/") || strings.HasPrefix(t, "WARNING: DATA RACE") {
			if i := strings.Index(t, " +0x"); i > 0 {
				t = t[:i]
			}
			keep = append(keep, strings.TrimPrefix(t, "/repo/"))
		}
		if len(keep) >= 5 {
			break
		}
	}
	if len(keep) == 0 {
		if len(stderr) > 300 {
			stderr = stderr[len(stderr)-300:]
		}
		return strings.ReplaceAll(stderr, "\n", " / ")
	}
	return strings.Join(keep, " < ")
}

func crashEntry(stderr string) string {
	lines := strings.Split(stderr, "\n")
	entry := ""
	for i := 0; i+1 < len(lines); i++ {
		if strings.HasPrefix(strings.TrimSpace(lines[i+1]), "/repo/") {
			f := strings.TrimSpace(lines[i])
			if j := strings.LastIndex(f, "("); j > 0 {
				entry = f[:j]
			}
		}
	}
	return strings.TrimPrefix(entry, "github.com/crillab/gophersat/")
}

type KnownFinding struct {
	Status   string `json:"status"` // known | fixed
	Property string `json:"property"`
	ID       string `json:"id"`
	Class    string `json:"class"`
	Entry    string `json:"entry"`
	Check    string `json:"check"`
	Detail   string `json:"detail,omitempty"` // substring the failure detail must contain
	What     string `json:"what"`
	Commit   string `json:"commit,omitempty"`
}

func loadKnown(path, prop string) []KnownFinding {
	f, err := os.Open(path)
	if err != nil {
		return nil
	}
	defer f.Close()
	var res []KnownFinding
	sc := bufio.NewScanner(f)
	sc.Buffer(make([]byte, 1<<20), 1<<20)
	for sc.Scan() {
		line := strings.TrimSpace(sc.Text())
		if line == "" || strings.HasPrefix(line, "#") || !strings.HasPrefix(line, "{") {
			continue
		}
		var k KnownFinding
		if json.Unmarshal([]byte(line), &k) == nil && k.Property == prop && k.Status == "known" {
			res = append(res, k)
		}
	}
	return res
}

func (k KnownFinding) matches(oc *Outcome, f Failure) bool {
	if k.Check != "" {
		ok := false
		for _, c := range strings.Split(k.Check, "|") {
			if c == f.Check {
				ok = true
			}
		}
		if !ok {
			return false
		}
	}
	if k.Detail != "" && !strings.Contains(f.Detail, k.Detail) {
		return false
	}
	if k.Entry != "" && !strings.Contains(f.Entry, k.Entry) {
		return false
	}
	for _, c := range oc.Classes {
		if c == k.Class {
			return true
		}
	}
	return false
}

func knownCovers(known []KnownFinding, classes []string, f Failure) bool {
	oc := Outcome{Classes: classes}
	for _, k := range known {
		if k.matches(&oc, f) {
			return true
		}
	}
	return false
}

type Violation struct {
	Case     WireCase  `json:"case"`
	Failures []Failure `json:"failures"`
	Sample   string    `json:"sample"`
	Replay   string    `json:"replay"`
}

type RunResult struct {
	Property           string         `json:"property"`
	Tier               string         `json:"tier"`
	Seed               uint64         `json:"seed"`
	Evaluations        int            `json:"evaluations"`
	DistinctNontrivial int            `json:"distinct_nontrivial"`
	Correspondences    int            `json:"correspondence_comparisons"`
	OracleCalls        int            `json:"oracle_calls"`
	Rule               string         `json:"rule"`
	Samples            []string       `json:"samples"`
	Tags               map[string]int `json:"tags"`
	Gens               map[string]int `json:"generators"`
	Violations         []Violation    `json:"violations"`
	Known              map[string]int `json:"known_findings_confirmed"`
	KnownWhat          map[string]string `json:"known_findings_what"`
	WallS              float64        `json:"wall_s"`
	Truncated          bool           `json:"truncated_by_wall_budget"`
	Exhaustive         bool           `json:"exhaustive"`
}

func buildCases(p *Prop, tier string, seed uint64) []WireCase {
	var cases []WireCase
	// 1. corpus (minimised past failures) first
	files, _ := filepath.Glob(filepath.Join(verifDir(), "harness", "corpus", p.ID, "*.json"))
	sort.Strings(files)
	for _, f := range files {
		b, err := os.ReadFile(f)
		if err != nil {
			continue
		}
		var wc WireCase
		if json.Unmarshal(b, &wc) == nil && wc.Prop == p.ID {
			wc.Gen = "corpus:" + filepath.Base(f)
			cases = append(cases, wc)
		}
	}
	// 2. enumerated families
	for _, g := range p.Gens {
		if g.Enum != nil {
			for i, d := range g.Enum(tier) {
				b, _ := json.Marshal(d)
				cases = append(cases, WireCase{Prop: p.ID, Gen: g.Name, Idx: i, Data: b})
			}
		}
	}
	// 2b. model slices: their own seeded streams (independent of the main stream below, so that adding
	// a slice never changes which main cases a seed produces)
	for _, sr := range p.Slices {
		k := sr.Quick
		if tier == "thorough" {
			k = sr.Thorough
		}
		sb := mix(mix(seed, hashString(p.ID)), hashString(sr.Name))
		for i := 0; i < k; i++ {
			b, _ := json.Marshal(SliceCase{Slice: sr.Name, Seed: mix(sb, uint64(i))})
			cases = append(cases, WireCase{Prop: p.ID, Gen: "slice:" + sr.Name, Idx: i, Seed: seed, Data: b})
		}
	}
	for _, eg := range p.Extra {
		k := eg.Quick
		if tier == "thorough" {
			k = eg.Thorough
		}
		sb := mix(mix(seed, hashString(p.ID)), hashString("extra:"+eg.Gen.Name))
		for i := 0; i < k; i++ {
			d := eg.Gen.Make(NewRng(mix(sb, uint64(i))), tier)
			b, err := json.Marshal(d)
			if err != nil {
				panic(err)
			}
			cases = append(cases, WireCase{Prop: p.ID, Gen: eg.Gen.Name, Idx: i, Seed: seed, Data: b})
		}
	}
	// 3. seeded generation
	total := 0
	for _, g := range p.Gens {
		if g.Make != nil {
			total += g.Weight
		}
	}
	n := p.Cases(tier)
	base := mix(seed, hashString(p.ID))
	for i := 0; i < n && total > 0; i++ {
		r := NewRng(mix(base, uint64(i)))
		k := r.Intn(total)
		var g *Gen
		for j := range p.Gens {
			if p.Gens[j].Make == nil {
				continue
			}
			if k < p.Gens[j].Weight {
				g = &p.Gens[j]
				break
			}
			k -= p.Gens[j].Weight
		}
		d := g.Make(r, tier)
		b, err := json.Marshal(d)
		if err != nil {
			panic(err)
		}
		cases = append(cases, WireCase{Prop: p.ID, Gen: g.Name, Idx: i, Seed: seed, Data: b})
	}
	return cases
}

func verifDir() string {
	if d := os.Getenv("VERIF_DIR"); d != "" {
		return d
	}
	return "/verif"
}

func parentMain(propID, tier string, seed uint64, outPath string, only *WireCase) int {
	p := props[propID]
	if p == nil {
		fmt.Fprintf(os.Stderr, "unknown property %s\n", propID)
		return 2
	}
	start := time.Now()
	var cases []WireCase
	if only != nil {
		cases = []WireCase{*only}
	} else {
		cases = buildCases(p, tier, seed)
	}
	known := loadKnown(filepath.Join(verifDir(), "known_findings.jsonl"), propID)
	res := RunResult{Property: propID, Tier: tier, Seed: seed, Rule: p.Rule,
		Tags: map[string]int{}, Gens: map[string]int{}, Known: map[string]int{}, KnownWhat: map[string]string{}, Violations: []Violation{}, Samples: []string{}}
	nw := runtime.NumCPU()
	if nw > 16 {
		nw = 16
	}
	if w := os.Getenv("VERIF_WORKERS"); w != "" {
		fmt.Sscanf(w, "%d", &nw)
	}
	if nw > len(cases) {
		nw = len(cases)
	}
	if nw < 1 {
		nw = 1
	}
	timeout := p.Timeout(tier)
	wall := p.Wall(tier)
	if v := os.Getenv("VERIF_WALL_S"); v != "" { // the widened search of a quick check is capped
		var secs int
		if _, err := fmt.Sscanf(v, "%d", &secs); err == nil && secs > 0 && time.Duration(secs)*time.Second < wall {
			wall = time.Duration(secs) * time.Second
		}
	}
	type item struct {
		wc WireCase
		oc Outcome
	}
	jobs := make(chan WireCase)
	results := make(chan item, 64)
	var wg sync.WaitGroup
	for i := 0; i < nw; i++ {
		wg.Add(1)
		go func() {
			defer wg.Done()
			var w *workerProc
			for wc := range jobs {
				if w == nil {
					var err error
					w, err = startWorker(propID)
					if err != nil {
						var oc Outcome
						oc.Fail("crash", "harness", "", "cannot start worker: %v", err)
						results <- item{wc, oc}
						continue
					}
				}
				oc, ok := w.runOn(wc, timeout)
				if !ok && len(oc.Failures) > 0 && oc.Failures[0].Kind == "timeout" && p.Classify != nil && knownCovers(known, p.Classify(wc.Data), oc.Failures[0]) {
					// a listed non-termination: no need to confirm it with a longer limit
					oc.Classes = p.Classify(wc.Data)
					w.kill()
					w = nil
					results <- item{wc, oc}
					continue
				}
				if !ok && len(oc.Failures) > 0 && oc.Failures[0].Kind == "timeout" {
					// confirm on a fresh worker with a much longer limit: a loaded machine must
					// not turn a slow case into a failure
					w.kill()
					if w2, err := startWorker(propID); err == nil {
						oc2, ok2 := w2.runOn(wc, 6*timeout)
						if ok2 {
							oc, ok, w = oc2, true, w2
							oc.Tags = append(oc.Tags, "slow-case")
						} else {
							w2.kill()
							w = nil
							if len(oc2.Failures) > 0 && oc2.Failures[0].Kind != "timeout" {
								oc = oc2
							} else {
								oc.Failures[0].Detail = fmt.Sprintf("no answer within %v (confirmed alone with %v)", timeout, 6*timeout)
							}
						}
					} else {
						w = nil
					}
					if !ok && p.Classify != nil {
						oc.Classes = p.Classify(wc.Data)
					}
					if !ok {
						results <- item{wc, oc}
						continue
					}
				}
				if !ok && p.Classify != nil {
					oc.Classes = p.Classify(wc.Data)
				}
				if !ok {
					w.kill()
					w = nil
				}
				results <- item{wc, oc}
			}
			if w != nil {
				w.in.Close()
				w.cmd.Wait()
			}
		}()
	}
	go func() {
		for _, wc := range cases {
			if only == nil && time.Since(start) > wall {
				res.Truncated = true
				break
			}
			jobs <- wc
		}
		close(jobs)
		wg.Wait()
		close(results)
	}()
	seen := map[string]bool{}
	sigCount := map[string]int{}
	nViol := 0
	for it := range results {
		res.Evaluations++
		res.Gens[it.wc.Gen]++
		res.OracleCalls += it.oc.OracleCalls
		res.Correspondences += it.oc.Corr
		for _, t := range it.oc.Tags {
			res.Tags[t]++
		}
		if it.oc.Nontrivial && it.oc.Key != "" && !seen[it.oc.Key] {
			seen[it.oc.Key] = true
			res.DistinctNontrivial++
		}
		if len(res.Samples) < 6 && it.oc.Sample != "" && it.oc.Nontrivial {
			res.Samples = append(res.Samples, it.oc.Sample)
		}
		if len(it.oc.Failures) == 0 {
			continue
		}
		var unlisted []Failure
		for _, f := range it.oc.Failures {
			matched := false
			for _, k := range known {
				if k.matches(&it.oc, f) {
					res.Known[k.ID]++
					res.KnownWhat[k.ID] = k.What
					matched = true
					break
				}
			}
			if !matched {
				unlisted = append(unlisted, f)
			}
		}
		if len(unlisted) > 0 {
			nViol++
			// a failure of the property itself (anything but a model/code disagreement) names the
			// violation: such cases must not be crowded out by more frequent correspondence failures
			sort.SliceStable(unlisted, func(i, j int) bool { return unlisted[i].Kind != "corr" && unlisted[j].Kind == "corr" })
			sig := unlisted[0].Kind + "/" + unlisted[0].Check + " " + unlisted[0].Entry
			sigCount[sig]++
			if sigCount[sig] <= 3 && len(res.Violations) < 40 {
				v := Violation{Case: it.wc, Failures: unlisted, Sample: it.oc.Sample}
				v.Replay = filepath.Join(verifDir(), "replays", fmt.Sprintf("%s-%d-%s-%d.json", propID, seed, sanitize(it.wc.Gen), it.wc.Idx))
				os.MkdirAll(filepath.Dir(v.Replay), 0o755)
				b, _ := json.MarshalIndent(v, "", " ")
				os.WriteFile(v.Replay, b, 0o644)
				res.Violations = append(res.Violations, v)
			}
		}
	}
	res.WallS = time.Since(start).Seconds()
	if len(res.Samples) == 0 {
		res.Samples = []string{}
	}
	if outPath != "" {
		b, _ := json.MarshalIndent(res, "", " ")
		os.WriteFile(outPath, b, 0o644)
	}
	ids := make([]string, 0, len(res.Known))
	for id := range res.Known {
		ids = append(ids, id)
	}
	sort.Strings(ids)
	for _, id := range ids {
		fmt.Printf("KNOWN-FINDING: property=%s %s: %s (%d cases this run)\n", propID, id, res.KnownWhat[id], res.Known[id])
	}
	for _, v := range res.Violations {
		fmt.Printf("FAILING-INPUT property=%s replay=%s :: %s\n", propID, v.Replay, summarize(v.Failures))
	}
	sigs := make([]string, 0, len(sigCount))
	for sg := range sigCount {
		sigs = append(sigs, sg)
	}
	sort.Strings(sigs)
	for _, sg := range sigs {
		fmt.Printf("failure-signature: %d x %s\n", sigCount[sg], sg)
	}
	fmt.Printf("harness: property=%s tier=%s seed=%d evaluations=%d distinct_nontrivial=%d violations=%d wall=%.1fs truncated=%v\n",
		propID, tier, seed, res.Evaluations, res.DistinctNontrivial, nViol, res.WallS, res.Truncated)
	if nViol > 0 {
		return 1
	}
	return 0
}

func sanitize(s string) string {
	var b bytes.Buffer
	for _, c := range s {
		if (c >= 'a' && c <= 'z') || (c >= 'A' && c <= 'Z') || (c >= '0' && c <= '9') || c == '-' {
			b.WriteRune(c)
		} else {
			b.WriteByte('_')
		}
	}
	return b.String()
}

func summarize(fs []Failure) string {
	var parts []string
	for i, f := range fs {
		if i == 3 {
			parts = append(parts, "…")
			break
		}
		d := f.Detail
		if len(d) > 200 {
			d = d[:200] + "…"
		}
		parts = append(parts, fmt.Sprintf("[%s/%s %s] %s", f.Kind, f.Check, f.Entry, d))
	}
	return strings.Join(parts, " ; ")
}
