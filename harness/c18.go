package main

import (
	"encoding/json"
	"fmt"
	"strings"
	"time"

	"github.com/crillab/gophersat/explain"
	"github.com/crillab/gophersat/solver"
)

// PrintCase: a problem built by a parser / constructor, printed and read back (C18).
type PrintCase struct {
	Kind    string   `json:"kind"` // cnf | constr | solver | explain
	NbVars  int      `json:"nbvars,omitempty"`
	Cnf     [][]int  `json:"cnf,omitempty"`
	Constrs []Constr `json:"constrs,omitempty"`
	Front   string   `json:"front,omitempty"`
	CostLits []int   `json:"costlits,omitempty"`
	CostW    []int   `json:"costw,omitempty"`
	NilW     bool    `json:"nilw,omitempty"`
	Solve    bool    `json:"solve,omitempty"` // kind solver: solve before printing (learned clauses, top-level facts)
	Twin     [][]int `json:"twin,omitempty"`  // kind solver: two solvers are made from the same Problem; clause i is appended to solver i; the first one is printed
}

func genPrintCase(r *Rng, tier string) PrintCase {
	switch r.Intn(8) {
	case 0, 1:
		n := r.Range(1, 8)
		cnf := genMessyCnf(r, n, r.Range(0, 3*n), 4, true)
		if r.Bool() {
			cnf = genKSat(r, n, r.Range(1, 4*n), r.Range(1, 3))
		}
		return PrintCase{Kind: "cnf", NbVars: n + r.Intn(3), Cnf: cnf}
	case 2:
		n := r.Range(1, 8)
		return PrintCase{Kind: "explain", NbVars: n + r.Intn(2), Cnf: genMessyCnf(r, n, r.Range(0, 3*n), 4, true)}
	default:
		var cc ConstrCase
		if r.Bool() {
			cc = genConstrCase(r, tier)
		} else {
			cc = genSearchyCase(r, tier)
		}
		if len(cc.Constrs) > 7 {
			cc.Constrs = cc.Constrs[:r.Range(2, 7)]
		}
		c := PrintCase{Kind: "constr", Constrs: cc.Constrs, Front: cc.Front}
		n := maxVarConstrs(cc.Constrs)
		if n > 0 && r.Chance(2, 3) {
			c.CostLits, c.CostW = genCost(r, n, r.Chance(1, 3)) // negative cost coefficients are legal OPB
			if c.CostW == nil {
				c.NilW = true
			}
		}
		if r.Chance(1, 3) {
			c.Kind = "solver"
			c.Solve = r.Bool()
			if n > 1 && r.Chance(1, 3) {
				// two solvers made from one problem value, each given a clause of its own. A Problem
				// value really supports one solver only (New shares its Model slice and its clauses
				// with the solver: DESIGN.md section 9, observations), so the scenario stays where the
				// sharing cannot interfere: no solving, clauses of two or more literals (checked
				// at run time to be over unbound variables)
				c.Solve = false
				c.Twin = [][]int{randClauseDistinct(r, n, r.Range(2, min2(n, 3))), randClauseDistinct(r, n, r.Range(2, min2(n, 3)))}
			}
		}
		return c
	}
}

func init() {
	register(&Prop{
		ID: "C18",
		Rule: "problems built by ParseSliceNb (messy / uniform CNF over 1..8 variables with unused declared ones), ParseCardConstrs / ParsePBConstrs (constraint sets as for C02, optional cost function with weights nil / 0..40), a Solver made from such a problem (before or after a Solve; sometimes one of two solvers made from the same Problem value, each given a clause of its own with AppendClause), and explain.ParseCNF; printed with Problem.CNF, Problem.PBString, Solver.PBString, explain.Problem.CNF and re-parsed with ParseCNF / ParseOPB / explain.ParseCNF. Model sets and per-model costs of original and re-parsed problem are compared through the verified GS.modelsOver / GS.cost. Non-trivial = the printed problem keeps at least one constraint or unit; distinct = distinct problem.",
		Gens:    []Gen{{Name: "print", Weight: 1, Make: func(r *Rng, tier string) interface{} { return genPrintCase(r, tier) }}},
		Run:     runPrintCase,
		Cases:   defCases(4000, 100000),
		Timeout: defDur(10*time.Second, 60*time.Second),
		Wall:    defDur(50*time.Second, 12*time.Minute),
	})
}

func runPrintCase(o *Oracle, d json.RawMessage, oc *Outcome) {
	var c PrintCase
	if err := json.Unmarshal(d, &c); err != nil {
		oc.Fail("crash", "harness", "", "bad case: %v", err)
		return
	}
	oc.Key = keyOf(c)
	oc.Tag("kind:" + c.Kind)
	switch c.Kind {
	case "cnf":
		pb := solver.ParseSliceNb(copyCnf(c.Cnf), c.NbVars)
		text := pb.CNF()
		oc.Sample = fmt.Sprintf("CNF() = %q", text)
		oc.Nontrivial = len(pb.Clauses)+len(pb.Units) > 0
		if pb.Status == solver.Unsat {
			oc.Tag("parse-unsat")
			// a refuted problem has no faithful DIMACS rendering through this printer; the
			// property speaks of problems "after parse-time simplification": skip
			return
		}
		pb2, err := solver.ParseCNF(strings.NewReader(text))
		if err != nil {
			oc.Fail("spec", "reparse-ok", "solver.Problem.CNF", "printed DIMACS rejected by ParseCNF: %v (%q)", err, text)
			return
		}
		n := pb.NbVars
		if pb2.NbVars != n {
			oc.Fail("spec", "same-variables", "solver.Problem.CNF", "original has %d variables, re-parsed %d", n, pb2.NbVars)
			return
		}
		compareParsed(o, oc, "solver.Problem.CNF", pb2, n, cnfLins(c.Cnf))
	case "explain":
		pb, err := explain.ParseCNF(strings.NewReader(plainDimacs(c.NbVars, c.Cnf)))
		if err != nil {
			oc.Fail("spec", "parse-ok", "explain.ParseCNF", "%v", err)
			return
		}
		text := pb.CNF()
		oc.Sample = fmt.Sprintf("explain CNF() = %q", text)
		oc.Nontrivial = len(c.Cnf) > 0
		pb2, err := explain.ParseCNF(strings.NewReader(text))
		if err != nil {
			oc.Fail("spec", "reparse-ok", "explain.Problem.CNF", "printed DIMACS rejected: %v", err)
			return
		}
		if fmt.Sprint(pb2.Clauses) != fmt.Sprint(pb.Clauses) || pb2.NbVars != pb.NbVars || pb2.NbClauses != pb.NbClauses {
			oc.Fail("spec", "same-problem", "explain.Problem.CNF", "re-parsed %v (%d vars), original %v (%d vars)", pb2.Clauses, pb2.NbVars, pb.Clauses, pb.NbVars)
		}
		// and solver.ParseCNF must read it too, with the same models
		if pb3, err := solver.ParseCNF(strings.NewReader(text)); err != nil {
			oc.Fail("spec", "reparse-ok", "explain.Problem.CNF", "printed DIMACS rejected by solver.ParseCNF: %v", err)
		} else {
			compareParsed(o, oc, "explain.Problem.CNF", pb3, c.NbVars, cnfLins(c.Cnf))
		}
	case "constr", "solver":
		cc := ConstrCase{Front: c.Front, Constrs: c.Constrs}
		pb := buildConstrProblem(&cc)
		sem := semAll(c.Constrs)
		n := maxVarConstrs(c.Constrs)
		var coefs, lits []int
		if len(c.CostLits) > 0 && pb.Status != solver.Unsat {
			ls := make([]solver.Lit, 0, len(c.CostLits))
			for i, l := range c.CostLits {
				if absInt(l) > pb.NbVars {
					continue // variable not declared by the front-end (trivially true constraint)
				}
				ls = append(ls, solver.IntToLit(int32(l)))
				lits = append(lits, l)
				if c.CostW != nil {
					coefs = append(coefs, c.CostW[i])
				} else {
					coefs = append(coefs, 1)
				}
			}
			if len(ls) > 0 {
				if c.NilW || len(c.CostLits)%2 == 0 {
					// the objective replaces an earlier one (set by a parser or by the caller): only the last counts
					pre := make([]int, len(ls))
					for i := range pre {
						pre[i] = 2 + (i*3+len(ls))%5
					}
					pb.SetCostFunc(append([]solver.Lit{}, ls...), pre)
					oc.Tag("objective-replaced")
				}
				if c.CostW != nil {
					pb.SetCostFunc(ls, append([]int{}, coefs...))
				} else {
					pb.SetCostFunc(ls, nil)
				}
				oc.Tag("with-cost")
			} else {
				lits, coefs = nil, nil
			}
		}
		if pb.Status == solver.Unsat {
			oc.Tag("parse-unsat")
			return
		}
		var text, entry string
		if c.Kind == "constr" {
			text = pb.PBString()
			entry = "solver.Problem.PBString"
		} else {
			s := solver.New(pb)
			twinOK := len(c.Twin) == 2
			if twinOK {
				bound := map[int]bool{}
				for _, u := range pb.Units {
					bound[absInt(int(u.Int()))] = true
				}
				for _, cl := range c.Twin {
					for _, l := range cl {
						if bound[absInt(l)] || absInt(l) > pb.NbVars {
							twinOK = false
						}
					}
				}
			}
			if twinOK {
				oc.Tag("two-solvers-one-problem")
				s2 := solver.New(pb)
				mk := func(cl []int) *solver.Clause {
					ls := make([]solver.Lit, len(cl))
					for i, l := range cl {
						ls[i] = solver.IntToLit(int32(l))
					}
					return solver.NewClause(ls)
				}
				s.AppendClause(mk(c.Twin[0]))
				s2.AppendClause(mk(c.Twin[1])) // must not show in the first solver's text
				sem = append(sem, clauseLin(c.Twin[0]))
				if !o.Sat(n, sem) {
					oc.Tag("refuted-by-the-appended-clause")
					return // a refuted solver has no OPB rendering of its own: outside the property
				}
			}
			if c.Solve {
				s.Solve()
				oc.Tag("printed-after-solve")
			}
			text = s.PBString()
			entry = "solver.Solver.PBString"
			solverPrintMirror(o, oc, s, pb, text)
		}
		oc.Sample = fmt.Sprintf("%s = %q", entry, text)
		oc.Nontrivial = strings.Contains(text, ">=") || strings.Contains(text, "= ")
		pb2, err := solver.ParseOPB(strings.NewReader(text))
		if err != nil {
			oc.Fail("spec", "reparse-ok", entry, "printed OPB rejected by ParseOPB: %v (%q)", err, text)
			return
		}
		if pb2.NbVars > n {
			oc.Fail("spec", "same-variables", entry, "re-parsed problem has %d variables, original %d", pb2.NbVars, n)
			return
		}
		compareParsed(o, oc, entry, pb2, n, sem)
		l2, w2 := pb2.VerifCostFunc()
		if (len(lits) == 0) != (len(l2) == 0) {
			oc.Fail("spec", "same-cost", entry, "cost function %v*%v re-parsed as %v*%v", coefs, lits, w2, l2)
		} else if len(lits) > 0 && pb2.Status != solver.Unsat {
			if w2 == nil {
				w2 = make([]int, len(l2))
				for i := range w2 {
					w2[i] = 1
				}
			}
			a := o.Ask(fmt.Sprintf("costs %d | %s | %s", n, encProblem(sem), encTerms(coefs, lits)))
			b := o.Ask(fmt.Sprintf("costs %d | %s | %s", n, encProblem(sem), encTerms(w2, l2)))
			if a != b {
				oc.Fail("spec", "same-cost", entry, "cost function %v*%v re-parsed as %v*%v", coefs, lits, w2, l2)
			}
		}
	}
	if len(oc.Sample) > 500 {
		oc.Sample = oc.Sample[:500] + "…"
	}
}

// solverPrintMirror ties Solver.PBString to its Lean mirror GS.SolverPrint.printSolverText (theorems
// solver_print_parse, solver_print_models): same bytes for the state the solver holds (cost
// function, original and learned constraints, binding array).
func solverPrintMirror(o *Oracle, oc *Outcome, s *solver.Solver, pb *solver.Problem, text string) {
	orig, learned := s.VerifConstraints()
	groups := func(cs []solver.PBConstr) string {
		var gs []string
		for _, c := range cs {
			g := fmt.Sprint(c.AtLeast)
			for i, l := range c.Lits {
				w := 1
				if c.Weights != nil {
					w = c.Weights[i]
				}
				g += fmt.Sprintf(" %d %d", w, l)
			}
			gs = append(gs, g)
		}
		return strings.Join(gs, " ; ")
	}
	cost := "none"
	if ls, ws := pb.VerifCostFunc(); ls != nil {
		var ts []string
		for i, l := range ls {
			w := 1
			if ws != nil {
				w = ws[i]
			}
			ts = append(ts, fmt.Sprintf("%d %d", w, l))
		}
		cost = strings.Join(ts, " ")
	}
	lv := s.VerifModelLevels()
	want := o.Ask(fmt.Sprintf("sprintpb %d | %s | %s | %s | %s", len(lv), cost, groups(orig), groups(learned), encInts(lv)))
	oc.Corr++
	if got := strings.ReplaceAll(text, "\n", "\\n"); got != want {
		oc.Fail("corr", "solver-print-mirror", "solver.Solver.PBString", "Go printed %q, the Lean mirror GS.SolverPrint.printSolverText %q", got, want)
	}
}
