package main

import (
	"strings"
	"encoding/json"
	"fmt"
	"sort"
	"time"

	"github.com/crillab/gophersat/solver"
)

// CountCase: a problem (CNF through ParseSliceNb, or constraints through a front-end)
// whose models are counted and enumerated over its declared variables (C05).
type CountCase struct {
	Kind    string   `json:"kind"` // cnf | constr
	NbVars  int      `json:"nbvars"`
	Clauses [][]int  `json:"clauses,omitempty"`
	Constrs []Constr `json:"constrs,omitempty"`
	Front   string   `json:"front,omitempty"`
	ChanCap int      `json:"chancap,omitempty"`
	Delays  []int    `json:"delays,omitempty"`
	Solved  bool     `json:"solved,omitempty"` // Solve is called on each solver before it counts / enumerates
	Grow    []int    `json:"grow,omitempty"`   // a 4th solver is solved, reset with Assume(nil), given this clause (which mentions variable n+1) and then enumerates
}

func genCountCase(r *Rng, tier string) CountCase {
	c := genCountCase0(r, tier)
	c.Solved = r.Chance(1, 4)
	if c.Kind == "cnf" && r.Chance(1, 6) {
		n := c.NbVars
		if mv := maxVarCnf(c.Clauses); mv > n {
			n = mv
		}
		if n >= 1 && n <= 7 {
			c.Grow = append(randClauseDistinct(r, n, r.Range(1, min2(n, 2))), n+1)
			if r.Bool() {
				c.Grow[len(c.Grow)-1] = -(n + 1)
			}
			if r.Chance(1, 3) { // two new variables, the higher one first
				c.Grow = append([]int{n + 2}, c.Grow...)
				if r.Bool() {
					c.Grow[0] = -(n + 2)
				}
			} else if n <= 5 && r.Chance(1, 2) { // a clause over new variables only, the highest first
				c.Grow = []int{n + 3, n + 1, n + 2}
				for i := range c.Grow {
					if r.Chance(1, 4) {
						c.Grow[i] = -c.Grow[i]
					}
				}
			}
		}
	}
	return c
}

func genCountCase0(r *Rng, tier string) CountCase {
	switch r.Intn(10) {
	case 0: // no constraint at all
		return CountCase{Kind: "cnf", NbVars: r.Range(0, 6)}
	case 1: // decided by parse-time propagation
		n := r.Range(1, 7)
		var cnf [][]int
		for i := 1; i <= n; i++ {
			if r.Chance(2, 3) {
				l := i
				if r.Bool() {
					l = -i
				}
				cnf = append(cnf, []int{l})
			}
		}
		cnf = append(cnf, genKSat(r, n, r.Range(0, 3), 2)...)
		for i := 0; i < r.Range(0, 3) && len(cnf) > 0; i++ { // the same unit clause several times
			for _, cl := range cnf {
				if len(cl) == 1 && r.Bool() {
					cnf = append(cnf, []int{cl[0]}, []int{cl[0]})
					break
				}
			}
		}
		return CountCase{Kind: "cnf", NbVars: n + r.Intn(3), Clauses: shuffleCnf(r, cnf)}
	case 2, 3, 4: // under-constrained CNF: many models
		n := r.Range(2, 10)
		cnf := genKSat(r, n, r.Range(1, 2*n), r.Range(2, 3))
		return CountCase{Kind: "cnf", NbVars: n + r.Intn(2), Clauses: cnf}
	case 5, 6: // near threshold, few models
		n := r.Range(4, 11)
		cnf := genKSat(r, n, r.Range(3*n, 5*n), 3)
		return CountCase{Kind: "cnf", NbVars: n, Clauses: cnf}
	case 7:
		n := r.Range(1, 5)
		return CountCase{Kind: "cnf", NbVars: n + r.Intn(2), Clauses: genMessyCnf(r, n, r.Range(0, 8), 3, true)}
	default:
		cc := genSearchyCase(r, tier)
		if r.Bool() {
			cc = genConstrCase(r, tier)
		}
		if len(cc.Constrs) > 6 {
			cc.Constrs = cc.Constrs[:r.Range(2, 6)]
		}
		n := maxVarConstrs(cc.Constrs)
		if cc.Front == "pb" { // declare all variables (see c03.go)
			cc.Constrs = append(cc.Constrs, Constr{Kind: "atleast", Lits: []int{n}, N: 0})
		}
		return CountCase{Kind: "constr", Constrs: cc.Constrs, Front: cc.Front}
	}
}

func (c *CountCase) problem() (*solver.Problem, []Lin) {
	if c.Kind == "cnf" {
		cp := make([][]int, len(c.Clauses))
		for i, cl := range c.Clauses {
			cp[i] = append([]int(nil), cl...)
		}
		return solver.ParseSliceNb(cp, c.NbVars), cnfLins(c.Clauses)
	}
	cc := ConstrCase{Front: c.Front, Constrs: c.Constrs}
	return buildConstrProblem(&cc), semAll(c.Constrs)
}

func init() {
	register(&Prop{
		ID: "C05",
		Rule: "problems over 0..12 declared variables: no constraint at all; unit-heavy CNF decided at parse time with unused declared variables; under-constrained and near-threshold 2/3-SAT; messy tiny CNF (empty/duplicate/tautological clauses); small cardinality/PB constraint sets through both front-ends. Each is counted (CountModels), enumerated on a channel (Enumerate, all models collected) and enumerated without a channel, on fresh solvers, and compared with the verified exhaustive model list (GS.modelsOver). Non-trivial = at least 2 models or a search with a conflict; distinct = distinct problem.",
		Gens:    []Gen{{Name: "count", Weight: 1, Make: func(r *Rng, tier string) interface{} { return genCountCase(r, tier) }}},
		Run:     runCountCase,
		Cases:   defCases(3000, 80000),
		Timeout: defDur(10*time.Second, 60*time.Second),
		Wall:    defDur(50*time.Second, 12*time.Minute),
	})
}

type enumRun struct {
	models []string
	closed bool
	ret    int
}

func runEnumerate(s *solver.Solver, capacity int, delays []int) enumRun {
	ch := make(chan []bool, capacity)
	done := make(chan enumRun)
	go func() {
		var r enumRun
		i := 0
		for m := range ch {
			b := make([]byte, len(m))
			for j, v := range m {
				if v {
					b[j] = '1'
				} else {
					b[j] = '0'
				}
			}
			r.models = append(r.models, string(b))
			if i < len(delays) && delays[i] > 0 {
				time.Sleep(time.Duration(delays[i]) * time.Microsecond)
			}
			i++
		}
		r.closed = true
		done <- r
	}()
	ret := s.Enumerate(ch, nil)
	r := <-done
	r.ret = ret
	return r
}

func runCountCase(o *Oracle, d json.RawMessage, oc *Outcome) {
	var c CountCase
	if err := json.Unmarshal(d, &c); err != nil {
		oc.Fail("crash", "harness", "", "bad case: %v", err)
		return
	}
	oc.Key = keyOf(c)
	pb, sem := c.problem()
	n := pb.NbVars
	if c.Kind == "cnf" && pb.Status != solver.Unsat && n != c.NbVars && n != maxVarCnf(c.Clauses) {
		oc.Tag("nbvars-adjusted")
	}
	if c.Kind == "cnf" {
		n = c.NbVars
		if mv := maxVarCnf(c.Clauses); mv > n {
			n = mv
		}
		oc.Sample = fmt.Sprintf("cnf n=%d %s", n, cnfString(c.Clauses))
	} else {
		n = maxVarConstrs(c.Constrs)
		oc.Sample = fmt.Sprintf("front=%s %s", c.Front, constrsString(c.Constrs))
		if pb.Status != solver.Unsat && pb.NbVars < n {
			// ParseCardConstrs does not declare the variables of a trivially true constraint:
			// count over the variables the problem declares, after checking that every
			// constraint mentioning an undeclared variable is valid (true under all assignments)
			var kept []Lin
			for _, l := range sem {
				if maxVarLins([]Lin{l}) <= pb.NbVars {
					kept = append(kept, l)
				} else if !o.Entails(n, nil, l) {
					oc.Fail("spec", "declared-vars", "solver.ParseCardConstrs", "constraint %v is not trivially true but its variables are not declared (NbVars=%d)", l, pb.NbVars)
				}
			}
			sem = kept
			n = pb.NbVars
			oc.Tag("undeclared-trivial-vars")
		}
	}
	want := o.Models(n, sem)
	oc.Tag(fmt.Sprintf("models:%s", bucket(len(want))))
	switch pb.Status {
	case solver.Sat:
		oc.Tag("parse-sat")
	case solver.Unsat:
		oc.Tag("parse-unsat")
	default:
		oc.Tag("search")
	}
	if len(want) >= 2 {
		oc.Nontrivial = true
	}
	// 1. CountModels, with the per-round contract of GS.Enum.enum_exact checked on every round:
	// the model found satisfies the problem and the blocks so far, makes the decisions true, and
	// every model of problem + blocks that makes the decisions true agrees with it
	s1 := solver.New(pb)
	cur := append([]Lin{}, sem...)
	rounds := 0
	s1.VerifSetEnumHook(func(model []int, blocking []int) {
		rounds++
		if rounds > 40 || len(model) != n || len(oc.Failures) > 0 {
			return
		}
		dec := make([]int, len(blocking))
		for i, l := range blocking {
			dec[i] = -l
		}
		a := o.Ask(fmt.Sprintf("enumround %d | %s | %s | %s", n, encProblem(cur), encInts(model), encInts(dec)))
		oc.Corr++
		if a != "1" {
			oc.Fail("corr", "enum-round-contract", "solver.CountModels", "round %d: model %v with decisions %v does not meet the contract of GS.Enum (answer %s) for problem+blocks %v", rounds, model, dec, a, cur)
		}
		if len(blocking) > 0 {
			cur = append(cur, clauseLin(blocking))
		}
		// the concrete round (decisionLits on the real trail, the model array) against its Lean
		// mirror GS.EnumRound (theorems decisionLits_spec, round_contract, enum_exact_concrete)
		if rounds <= 12 {
			tr, lv, rs := s1.VerifTrailState()
			var te, re []string
			for i := range tr {
				te = append(te, fmt.Sprintf("%d %d", tr[i], lv[i]))
				if rs[i] == nil {
					re = append(re, "0")
				} else {
					re = append(re, encInts(rs[i]))
				}
			}
			q := fmt.Sprintf("%d | %s | %s", n, strings.Join(te, " ; "), strings.Join(re, " ; "))
			head := strings.TrimSpace(strings.SplitN(o.Ask("enumround2 "+q), "|", 2)[0])
			wantHead := "finished"
			if len(blocking) > 0 {
				wantHead = "block " + encInts(blocking)
			}
			oc.Corr++
			if head != wantHead {
				oc.Fail("corr", "enum-round-mirror", "solver.CountModels", "round %d: decisionLits gave %q, the Lean mirror GS.EnumRound.roundStep %q on trail %s", rounds, wantHead, head, q)
			} else if m := o.Ask("enumround2m " + q); m != encInts(model) {
				oc.Fail("corr", "enum-round-mirror", "solver.CountModels", "round %d: model array %v, the mirror's modelOf gives %q on trail %s", rounds, model, m, q)
			}
		}
	})
	if c.Solved {
		s1.Solve()
	}
	an5 := sampleAnalyses(s1, 3, 30, 6)
	got := s1.CountModels()
	s1.VerifSetEnumHook(nil)
	s1.VerifSetAnalyzeHook(nil)
	analysisMirror(o, oc, *an5, "solver.CountModels")
	if rounds > 1 {
		oc.Tag("rounds>1")
	}
	if got != len(want) {
		oc.Fail("spec", "count", "solver.CountModels", "CountModels = %d, the problem has %d models over %d variables", got, len(want), n)
	}
	if s1.Stats.NbConflicts > 0 {
		oc.Nontrivial = true
		oc.Tag("conflicts>0")
	}
	// 2. Enumerate with a channel
	pb2, _ := c.problem()
	s2 := solver.New(pb2)
	if c.Solved {
		s2.Solve()
		oc.Tag("solved-first")
	}
	er := runEnumerate(s2, c.ChanCap, c.Delays)
	if !er.closed {
		oc.Fail("spec", "channel-closed", "solver.Enumerate", "models channel not closed")
	}
	if er.ret != len(er.models) {
		oc.Fail("spec", "enumerate-return", "solver.Enumerate", "returned %d, delivered %d models", er.ret, len(er.models))
	}
	gotM := append([]string(nil), er.models...)
	sort.Strings(gotM)
	wantM := append([]string(nil), want...)
	sort.Strings(wantM)
	if !equalStrings(gotM, wantM) {
		dup, extra, missing := diffModels(gotM, wantM)
		oc.Fail("spec", "enumerate-exact", "solver.Enumerate", "delivered %d models, expected %d: duplicated %v, not models %v, missing %v", len(gotM), len(wantM), dup, extra, missing)
	}
	// 2b. a live solver: solved, reset, extended with a clause over a new variable, then enumerated
	if len(c.Grow) > 0 && pb.Status != solver.Unsat && c.Kind == "cnf" {
		pb4, _ := c.problem()
		if pb4.Status != solver.Unsat && pb4.NbVars == n {
			s4 := solver.New(pb4)
			if s4.Solve() == solver.Sat {
				s4.Assume(nil)
				ls := make([]solver.Lit, len(c.Grow))
				for i, l := range c.Grow {
					ls[i] = solver.IntToLit(int32(l))
				}
				s4.AppendClause(solver.NewClause(ls))
				er4 := runEnumerate(s4, c.ChanCap, c.Delays)
				want4 := o.Models(maxVarCnf([][]int{c.Grow}), append(append([]Lin{}, sem...), clauseLin(c.Grow)))
				g4 := append([]string(nil), er4.models...)
				sort.Strings(g4)
				sort.Strings(want4)
				if !equalStrings(g4, want4) {
					dup, extra, missing := diffModels(g4, want4)
					oc.Fail("spec", "enumerate-exact", "solver.Solve+Assume+AppendClause+Enumerate", "delivered %d models, expected %d: duplicated %v, not models %v, missing %v", len(g4), len(want4), dup, extra, missing)
				}
				oc.Tag("grown-then-enumerated")
			}
		}
	}
	// 3. Enumerate without a channel
	pb3, _ := c.problem()
	s3 := solver.New(pb3)
	if c.Solved {
		s3.Solve()
	}
	stopAppends := mirrorAppends(o, oc, s3, "solver.Enumerate(nil)")
	k3 := s3.Enumerate(nil, nil)
	stopAppends()
	if k := k3; k != len(want) {
		oc.Fail("spec", "count", "solver.Enumerate(nil)", "Enumerate(nil) = %d, the problem has %d models", k, len(want))
	}
}

func bucket(k int) string {
	switch {
	case k == 0:
		return "0"
	case k == 1:
		return "1"
	case k <= 8:
		return "2-8"
	case k <= 64:
		return "9-64"
	default:
		return ">64"
	}
}

func equalStrings(a, b []string) bool {
	if len(a) != len(b) {
		return false
	}
	for i := range a {
		if a[i] != b[i] {
			return false
		}
	}
	return true
}

func diffModels(got, want []string) (dup, extra, missing []string) {
	w := map[string]bool{}
	for _, m := range want {
		w[m] = true
	}
	g := map[string]int{}
	for _, m := range got {
		g[m]++
	}
	for m, k := range g {
		if !w[m] {
			extra = append(extra, m)
		} else if k > 1 {
			dup = append(dup, m)
		}
	}
	for _, m := range want {
		if g[m] == 0 {
			missing = append(missing, m)
		}
	}
	sort.Strings(dup)
	sort.Strings(extra)
	sort.Strings(missing)
	trim := func(x []string) []string {
		if len(x) > 4 {
			return append(x[:4], "…")
		}
		return x
	}
	return trim(dup), trim(extra), trim(missing)
}
