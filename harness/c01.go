package main

import (
	"encoding/json"
	"fmt"
	"sort"
	"strconv"
	"strings"
	"time"

	"github.com/crillab/gophersat/solver"
)

// CnfCase: a CNF formula, a front-end and a solver configuration (C01, C06).
type CnfCase struct {
	NbVars    int     `json:"nbvars"` // declared variables (>= highest variable used)
	Clauses   [][]int `json:"clauses"`
	Front     string  `json:"front"` // slice | slicenb | dimacs
	Text      string  `json:"text,omitempty"`
	Certified bool    `json:"certified"`
	NbMax     int     `json:"nbmax"` // 0 = default learned-clause limit
}

func makeCnfCase(r *Rng, cnf [][]int, extraVars int) CnfCase {
	c := CnfCase{Clauses: cnf, NbVars: maxVarCnf(cnf) + extraVars}
	switch r.Intn(4) {
	case 0:
		c.Front = "slice"
		c.NbVars = maxVarCnf(cnf)
	case 1:
		c.Front = "slicenb"
	default:
		c.Front = "dimacs"
		c.Text = renderDimacs(r, c.NbVars, cnf, r.Chance(1, 3))
	}
	c.Certified = r.Bool()
	switch r.Intn(3) {
	case 0:
		c.NbMax = 0
	case 1:
		c.NbMax = 4
	default:
		c.NbMax = 16
	}
	return c
}

// genUnitGadgets: independent pairs (x v y)(x v -y) (either polarity of x): whichever way the search
// decides, half of the pairs end in a conflict whose learned clause is a unit, so that the database of
// learned clauses is still empty when its first reduction falls due (learned-clause limit 4 or 16; with
// the default limit of 2000 this needs some 5000 pairs: thorough tier only).
func genUnitGadgets(r *Rng, tier string) CnfCase {
	g := r.Range(6, 60)
	if tier == "thorough" && r.Chance(1, 30) {
		g = r.Range(4500, 6000)
	}
	var cnf [][]int
	for i := 0; i < g; i++ {
		x, y := 2*i+1, 2*i+2
		if r.Bool() {
			x = -x
		}
		cnf = append(cnf, []int{x, y}, []int{x, -y})
	}
	if r.Bool() {
		cnf = shuffleCnf(r, cnf)
	}
	c := makeCnfCase(r, cnf, 0)
	if g > 100 {
		c.NbMax, c.Certified = 0, false
		if c.Front == "dimacs" {
			c.Front, c.Text = "slice", ""
		}
	} else if c.NbMax == 0 {
		c.NbMax = 4
	}
	return c
}

func cnfGens() []Gen {
	return []Gen{
		{Name: "tiny-messy", Weight: 30, Make: func(r *Rng, tier string) interface{} {
			n := r.Range(1, 4)
			cnf := genMessyCnf(r, n, r.Range(0, 9), 3, true)
			if r.Chance(1, 5) {
				// one fact written many times (each line is one more entry of the problem's unit list),
				// next to a part over other variables that still needs a search
				n = r.Range(3, 8)
				rest := genKSat(r, n-1, r.Range(n-1, 2*n), r.Range(2, 3))
				for _, cl := range rest { // variables 2..n
					for j := range cl {
						if cl[j] > 0 {
							cl[j]++
						} else {
							cl[j]--
						}
					}
				}
				u := []int{1}
				if r.Bool() {
					u[0] = -1
				}
				cnf = rest
				for k := r.Range(2, n+3); k > 0; k-- {
					cnf = append(cnf, append([]int{}, u...))
				}
				cnf = shuffleCnf(r, cnf)
				c := makeCnfCase(r, cnf, 0)
				if r.Chance(3, 4) { // the slice front ends keep every such line
					c.Front, c.Text, c.NbVars = "slice", "", maxVarCnf(cnf)
				}
				return c
			}
			return makeCnfCase(r, cnf, r.Intn(3))
		}},
		{Name: "small-messy", Weight: 20, Make: func(r *Rng, tier string) interface{} {
			n := r.Range(3, 10)
			return makeCnfCase(r, genMessyCnf(r, n, r.Range(n, 5*n), 4, true), r.Intn(3))
		}},
		{Name: "3sat-small", Weight: 25, Make: func(r *Rng, tier string) interface{} {
			n := r.Range(5, 16)
			m := n*4 + r.Range(-n, n)
			return makeCnfCase(r, genKSat(r, n, m, 3), r.Intn(2))
		}},
		{Name: "3sat-medium", Weight: 12, Make: func(r *Rng, tier string) interface{} {
			n := r.Range(20, 70)
			m := int(float64(n)*4.26) + r.Range(-n/4, n/4)
			return makeCnfCase(r, genKSat(r, n, m, 3), 0)
		}},
		{Name: "3sat-restarts", Weight: 2, Make: func(r *Rng, tier string) interface{} {
			n := r.Range(90, 130)
			m := int(float64(n)*4.26) + r.Range(-n/8, n/8)
			c := makeCnfCase(r, genKSat(r, n, m, 3), 0)
			c.Front = "slice"
			c.NbVars = maxVarCnf(c.Clauses)
			return c
		}},
		{Name: "2sat-mixed", Weight: 5, Make: func(r *Rng, tier string) interface{} {
			n := r.Range(4, 14)
			cnf := genKSat(r, n, r.Range(n, 3*n), 2)
			cnf = append(cnf, genKSat(r, n, r.Range(0, n), 3)...)
			return makeCnfCase(r, shuffleCnf(r, cnf), r.Intn(2))
		}},
		{Name: "pigeon", Weight: 3, Make: func(r *Rng, tier string) interface{} {
			h := r.Range(2, 5)
			p := h + r.Intn(2)
			return makeCnfCase(r, shuffleCnf(r, genPigeon(p, h)), 0)
		}},
		{Name: "implication-chain", Weight: 3, Make: func(r *Rng, tier string) interface{} {
			// x1 -> x2 -> ... -> xL written against the direction of propagation, the unit last:
			// parse-time simplification needs about L passes; extra clauses over chain variables
			// become unit, satisfied or empty on the way
			L := r.Range(4, 40)
			var cnf [][]int
			for k := r.Range(0, 4); k > 0; k-- {
				a, b := r.Range(1, L), r.Range(1, L)
				cl := []int{-a, -b}
				if r.Bool() {
					cl = []int{-a, r.Range(1, L+2)}
				}
				if r.Chance(1, 3) {
					cl = append(cl, -r.Range(1, L))
				}
				cnf = append(cnf, cl)
			}
			for i := L - 1; i >= 1; i-- {
				cnf = append(cnf, []int{-i, i + 1})
			}
			if r.Chance(1, 4) {
				cnf = shuffleCnf(r, cnf)
			}
			cnf = append(cnf, []int{1})
			c := makeCnfCase(r, cnf, r.Intn(2))
			if c.Front == "dimacs" && r.Bool() {
				c.Front, c.Text = "slicenb", ""
			}
			return c
		}},
		{Name: "wide-clauses", Weight: 1, Make: func(r *Rng, tier string) interface{} {
			// a 3-SAT part near the threshold plus four clauses of more than a thousand literals
			// (x1 .. xW, +-a, +-b): every x is decided false before the conflict, so the learned
			// clauses are as wide as the input clauses
			ny := r.Range(18, 30)
			cnf := genKSat(r, ny, int(float64(ny)*4.2)+r.Range(-3, 3), 3)
			a, b := ny+1, ny+2
			W := r.Range(1010, 1150)
			xs := make([]int, W)
			for i := range xs {
				xs[i] = ny + 3 + i
			}
			for _, sa := range []int{1, -1} {
				for _, sb := range []int{1, -1} {
					cl := append(append([]int{}, xs...), sa*a, sb*b)
					cnf = append(cnf, cl)
				}
			}
			c := makeCnfCase(r, cnf, 0)
			c.Front, c.Text, c.NbVars = "slice", "", maxVarCnf(cnf)
			c.Certified = true
			return c
		}},
		{Name: "parity", Weight: 5, Make: func(r *Rng, tier string) interface{} {
			return makeCnfCase(r, shuffleCnf(r, genParity(r, r.Range(3, 9))), 0)
		}},
	}
}

func init() {
	register(&Prop{
		ID: "C01",
		Rule: "CNF formulas from seeded generators (messy tiny/small formulas with empty, unit, duplicate-literal, tautological and repeated clauses and unused declared variables; uniform 2/3-SAT near threshold with 5..70 variables; pigeonhole; parity chains; implication chains of 4..40 steps written against the direction of propagation; a 3-SAT part plus four clauses of more than a thousand literals), each through one front-end (ParseSlice / ParseSliceNb / ParseCNF with free DIMACS layout) and one configuration (certificate on/off x learned-clause limit default/4/16). A case is non-trivial when parsing left the status undetermined so that the CDCL search ran; distinct = distinct (formula, front-end, configuration).",
		Gens:    cnfGens(),
		Slices:  []SliceRef{{"XQUEUE", 600, 20000}, {"XWATCH", 500, 20000}, {"XSEARCH", 800, 30000}, {"XINTCODE", 150, 6000}},
		Extra:   []ExtraGen{{Gen{Name: "unit-learning-gadgets", Make: func(r *Rng, tier string) interface{} { return genUnitGadgets(r, tier) }}, 40, 600}},
		Run:     func(o *Oracle, d json.RawMessage, oc *Outcome) { runCnfCase(o, d, oc, "C01") },
		Cases:   defCases(2500, 40000),
		Timeout: defDur(20*time.Second, 60*time.Second),
		Wall:    defDur(50*time.Second, 12*time.Minute),
	})
}

func parseCertLine(line string) ([]int, bool) {
	fs := strings.Fields(line)
	if len(fs) == 0 {
		return nil, false
	}
	var c []int
	for i, f := range fs {
		v, err := strconv.Atoi(f)
		if err != nil {
			return nil, false
		}
		if v == 0 {
			if i != len(fs)-1 {
				return nil, false
			}
			return c, true
		}
		c = append(c, v)
	}
	return nil, false // no terminating 0
}

type solveRun struct {
	analyses []solver.VerifAnalysis
	status  solver.Status
	model   []bool
	lines   [][]int
	badLine string
	parseSt solver.Status
	nbVars  int
	stats   solver.Stats
	err     error
	slice   Outcome // comparisons made on the live solver by model slices (queue invariant)
}

func buildCnfProblem(c *CnfCase) (*solver.Problem, error) {
	cp := make([][]int, len(c.Clauses))
	for i, cl := range c.Clauses {
		cp[i] = append([]int(nil), cl...)
	}
	switch c.Front {
	case "slice":
		return solver.ParseSlice(cp), nil
	case "slicenb":
		return solver.ParseSliceNb(cp, c.NbVars), nil
	case "dimacs":
		return solver.ParseCNF(strings.NewReader(c.Text))
	}
	return nil, fmt.Errorf("unknown front-end %q", c.Front)
}

func solveCnf(c *CnfCase, certified bool, nbMax int) solveRun {
	var res solveRun
	pb, err := buildCnfProblem(c)
	if err != nil {
		res.err = err
		return res
	}
	res.parseSt = pb.Status
	res.nbVars = pb.NbVars
	s := solver.New(pb)
	if nbMax > 0 {
		s.VerifSetNbMax(nbMax)
	}
	nAn := 0
	s.VerifSetAnalyzeHook(func(a solver.VerifAnalysis) {
		nAn++
		if nAn <= 8 || nAn%50 == 0 { // the executable invariant of GS.Queue.chooseLit_complete on the live heap
			tieQueueInvariant(&res.slice, s, "at conflict analysis")
		}
		if nAn <= 12 || nAn%25 == 0 { // the first analyses and a thin sample of the later ones
			if len(res.analyses) < 60 {
				res.analyses = append(res.analyses, a)
			}
		}
	})
	defer s.VerifSetAnalyzeHook(nil)
	done := make(chan struct{})
	if certified {
		s.Certified = true
		s.CertChan = make(chan string, 1024)
		go func() {
			for line := range s.CertChan {
				if cl, ok := parseCertLine(line); ok {
					res.lines = append(res.lines, cl)
				} else if res.badLine == "" {
					res.badLine = line
				}
			}
			close(done)
		}()
	}
	res.status = s.Solve()
	if certified {
		close(s.CertChan)
		<-done
	}
	res.stats = s.Stats
	tieQueueInvariant(&res.slice, s, "after Solve")
	if res.status == solver.Sat {
		res.model = s.Model()
	}
	return res
}

func runCnfCase(o *Oracle, d json.RawMessage, oc *Outcome, prop string) {
	var c CnfCase
	if err := json.Unmarshal(d, &c); err != nil {
		oc.Fail("crash", "harness", "", "bad case: %v", err)
		return
	}
	oc.Key = keyOf(c)
	oc.Sample = fmt.Sprintf("front=%s n=%d cert=%v nbmax=%d cnf=%s", c.Front, c.NbVars, c.Certified, c.NbMax, cnfString(c.Clauses))
	oc.Tag("front:" + c.Front)
	{
		cnt := map[int]int{}
		for _, cl := range c.Clauses {
			if len(cl) == 1 {
				cnt[cl[0]]++
			}
		}
		for _, k := range cnt {
			if k >= 3 && c.Front != "dimacs" {
				oc.Tag("slice-with-a-fact-written-3+-times")
				break
			}
		}
	}
	entry := "solver.Solve"
	run := solveCnf(&c, c.Certified, c.NbMax)
	if run.err != nil {
		oc.Fail("spec", "parse-ok", "solver.ParseCNF", "well-formed DIMACS rejected: %v", run.err)
		return
	}
	n := c.NbVars
	lins := cnfLins(c.Clauses)
	oc.Failures = append(oc.Failures, run.slice.Failures...)
	oc.Corr += run.slice.Corr
	if run.slice.Corr > 1 {
		oc.Tag("queue-invariant-checked-in-search")
	}
	if run.parseSt == solver.Indet {
		oc.Nontrivial = true
		oc.Tag("search")
	} else {
		oc.Tag("decided-at-parse")
	}
	if run.stats.NbConflicts > 0 {
		oc.Tag("conflicts>0")
	}
	if run.stats.NbConflicts >= 100 {
		oc.Tag("conflicts>=100")
	}
	if run.stats.NbDeleted > 0 {
		oc.Tag("db-reduced")
	}
	if run.stats.NbRestarts > 0 {
		oc.Tag("restarted")
	}
	switch run.status {
	case solver.Sat:
		oc.Tag("sat")
		if len(run.model) != n {
			oc.Fail("spec", "model-length", entry, "model has %d values for %d declared variables", len(run.model), n)
		} else if a := o.Eval(n, lins, run.model); a != "ok" {
			oc.Fail("spec", "model-satisfies-input", entry, "model %v: %s", run.model, a)
		}
	case solver.Unsat:
		oc.Tag("unsat")
	default:
		oc.Fail("spec", "never-indet", entry, "Solve returned %v", run.status)
	}
	// verdict against the verified exhaustive oracle
	var truth, haveTruth bool
	if n <= 16 {
		truth, haveTruth = o.Sat(n, lins), true
		oc.Tag("oracle:brute")
		if run.status == solver.Sat && !truth {
			oc.Fail("spec", "verdict", entry, "answered Sat on an unsatisfiable formula")
		}
		if run.status == solver.Unsat && truth {
			oc.Fail("spec", "verdict", entry, "answered Unsat on a satisfiable formula")
		}
	}
	// certificate (C06): lines in order must be RUP; on Unsat the certificate must refute
	checkCert := func(r *solveRun, label string) {
		if r.badLine != "" {
			oc.Fail("spec", "cert-syntax", entry, "certificate line %q is not a 0-terminated clause", r.badLine)
		}
		fb, refutes := o.Rup(n, c.Clauses, r.lines)
		oc.Tag("oracle:rup")
		if fb >= 0 {
			oc.Fail("spec", "cert-rup", entry, "%s: certificate line %d %v is not RUP w.r.t. the formula and the earlier lines", label, fb, r.lines[fb])
		}
		if r.status == solver.Unsat && !refutes {
			oc.Fail("spec", "cert-refutes", entry, "%s: Unsat answered but the %d emitted lines do not refute the formula by unit propagation", label, len(r.lines))
		}
		if len(r.lines) > 0 {
			oc.Tag("cert-lines>0")
		}
	}
	analysisDiff(o, oc, &run, entry)
	if c.Front != "dimacs" {
		parseSliceDiff(o, oc, &c)
	}
	if c.Certified {
		checkCert(&run, "certified")
		// refinement: the run, seen through what it emitted, is a run of the abstract machine
		if len(run.model) == n || run.status != solver.Sat {
			oc.Corr++
			if a := cdclReplay(o, n, c.Clauses, runEvents(&run)); a != "ok" {
				oc.Fail("corr", "cdcl-refinement", entry, "the run is not accepted by the abstract machine GS.Cdcl: %s (events: %d learned lines then %v)", a, len(run.lines), run.status)
			}
		}
	}
	// same verdict with the other certificate setting; gives an independent validation of
	// Unsat answers beyond the brute-force bound
	if !haveTruth || prop == "C06" || (c.Certified && run.stats.NbConflicts > 0) {
		other := solveCnf(&c, !c.Certified, c.NbMax)
		if other.err == nil {
			if other.status != run.status {
				oc.Fail("spec", "cert-flag-independent", entry, "verdict %v with Certified=%v but %v with Certified=%v", run.status, c.Certified, other.status, !c.Certified)
			}
			if !c.Certified {
				checkCert(&other, "re-run with certificate")
			}
			if other.status == solver.Sat {
				if len(other.model) != n {
					oc.Fail("spec", "model-length", entry, "re-run: model has %d values for %d declared variables", len(other.model), n)
				} else if a := o.Eval(n, lins, other.model); a != "ok" {
					oc.Fail("spec", "model-satisfies-input", entry, "re-run model: %s", a)
				}
			}
		}
	}
}


// cdclReplay runs an event list through the verified abstract machine GS.Cdcl (every learn
// must be RUP w.r.t. base + learned, an Unsat answer needs a unit-propagation refutation,
// a Sat answer a model of the base as written). Returns "ok" or "rejected <i>".
func cdclReplay(o *Oracle, n int, base [][]int, events []string) string {
	return o.Ask(fmt.Sprintf("cdcl %d | %s | %s", n, encCnf(base), strings.Join(events, " / ")))
}

func evLearn(c []int) string {
	if len(c) == 0 {
		return "L e"
	}
	return "L " + encInts(c)
}

func evModel(m []bool) string { return "M " + encBools(m) }

// runEvents turns a certified solver run into events: its certificate lines are learn
// events, except the final empty line which announces the Unsat answer.
func runEvents(r *solveRun) []string {
	var evs []string
	lines := r.lines
	if r.status == solver.Unsat && len(lines) > 0 && len(lines[len(lines)-1]) == 0 {
		lines = lines[:len(lines)-1]
	}
	for _, l := range lines {
		evs = append(evs, evLearn(l))
	}
	switch r.status {
	case solver.Sat:
		evs = append(evs, evModel(r.model))
	case solver.Unsat:
		evs = append(evs, "U")
	}
	return evs
}


// analysisQuery renders a snapshot of learnClause's inputs for the Lean mirror GS.Analyze, and
// the answer the Go code gave in the mirror's output format.
func analysisQuery(a *solver.VerifAnalysis) (query, goAnswer string) {
	level := map[int]int{}
	var trail, reasons []string
	for i, l := range a.Trail {
		level[absInt(l)] = a.Levels[i]
		as := 0
		if a.Assumed[i] {
			as = 1
		}
		trail = append(trail, fmt.Sprintf("%d %d %d", l, a.Levels[i], as))
		if a.Reasons[i] == nil {
			reasons = append(reasons, "0")
		} else {
			reasons = append(reasons, encInts(a.Reasons[i].Lits))
		}
	}
	query = fmt.Sprintf("analyze %d | %s | %s | %s", a.Lvl, encInts(a.Conflict.Lits), strings.Join(trail, " ; "), strings.Join(reasons, " ; "))
	switch {
	case a.TopLevel:
		goAnswer = "toplevel"
	case a.Learned == nil:
		goAnswer = fmt.Sprintf("unit %d", a.Unit)
	default:
		rest := append([]int{}, a.Learned[1:]...)
		sort.SliceStable(rest, func(i, j int) bool {
			li, lj := level[absInt(rest[i])], level[absInt(rest[j])]
			if li != lj {
				return li > lj
			}
			return absInt(rest[i]) < absInt(rest[j])
		})
		goAnswer = fmt.Sprintf("learned %d | %s", a.Learned[0], encInts(rest))
	}
	return
}

// analysisDiff compares the sampled conflict analyses of a run with the Lean mirror; it also
// checks the ordering property the solver relies on (position 1 holds a literal of the
// highest level among the non-asserting literals).
func analysisDiff(o *Oracle, oc *Outcome, r *solveRun, entry string) {
	if !oracleHasOp(o, "analyze") {
		return
	}
	for i := range r.analyses {
		a := &r.analyses[i]
		if len(a.Dangling) > 0 {
			// the analysed state of GS.Analyze has antecedents for trail entries only: a variable that
			// is not assigned must not keep one (it would be used when the variable is bound again)
			oc.Fail("corr", "analyze-invariant", entry, "at conflict %d the unassigned variables %v still have an antecedent recorded", i, a.Dangling)
			return
		}
		q, want := analysisQuery(a)
		got := o.Ask(q)
		oc.Corr++
		if got != want {
			oc.Fail("corr", "analyze-mirror", entry, "learnClause returned %q, the Lean mirror GS.Analyze %q on %s", want, got, q)
			return
		}
		// the hypotheses of analyze_sound_cnf, checked on the real state: distinct variables,
		// monotone levels, every antecedent contains its literal and is otherwise false earlier
		// on the trail, reason-less literals of the level are the decision, conflict well formed
		if (i >= 3 && i%4 != 0) || len(a.Trail) > 160 {
			continue // the invariant check is quadratic in the trail: first snapshots of a run only
		}
		// repeated unit clauses of the input sit several times on the trail (harmless): the
		// hypotheses are checked on the trail without repetitions, for which the mirror must
		// give the same answer
		dq, _ := analysisQuery(dedupTrail(a))
		if dq != q {
			if again := o.Ask(dq); again != got {
				oc.Fail("corr", "analyze-invariant", entry, "removing repeated trail entries changes the analysis: %q vs %q", got, again)
				return
			}
		}
		inv := o.Ask("analyze_inv" + strings.TrimPrefix(dq, "analyze"))
		if a.Lvl == 1 && inv == "inv 1 1 0 1" {
			inv = "inv 1 1 1 1" // at level 1 the reason-less literals are the top-level facts (FactsEntailed), not decisions
		}
		if inv != "inv 1 1 1 1" {
			oc.Fail("corr", "analyze-invariant", entry, "the solver state at a conflict does not meet the hypotheses of GS.Analyze.analyze_sound_cnf (%s: trailInv reasonsCnf decisionsOk conflOk) on %s", inv, q)
			return
		}
		// the sampled state is a state of the abstract trail machine GS.Trail (theorems reachable_inv,
		// reachable_analyze_sound): replaying its trail as decide / propagate / fact operations must be
		// accepted (every antecedent was unit when it was used) and end in a state on which the
		// conflict is falsified
		if oracleHasOp(o, "trail_run") {
			d := dedupTrail(a)
			var ops []string
			for j, l := range d.Trail {
				switch {
				case d.Reasons[j] != nil:
					ops = append(ops, fmt.Sprintf("2 %d %s", l, encInts(d.Reasons[j].Lits)))
				case d.Levels[j] == 1 && d.Assumed[j]:
					ops = append(ops, fmt.Sprintf("6 %d", l))
				case d.Levels[j] == 1:
					ops = append(ops, fmt.Sprintf("5 %d", l))
				default:
					ops = append(ops, fmt.Sprintf("1 %d", l))
				}
			}
			r := o.Ask(fmt.Sprintf("trail_run | %s | %s", strings.Join(ops, " ; "), encInts(a.Conflict.Lits)))
			oc.Corr++
			if !strings.HasPrefix(r, fmt.Sprintf("state %d |", a.Lvl)) || !strings.Contains(r, "| inv 1 | falsified 1 ") {
				oc.Fail("corr", "trail-machine", entry, "the solver state at conflict %d is not a run of the abstract trail machine GS.Trail ending in a falsified conflict: %s (ops %s)", i, r, strings.Join(ops, " ; "))
				return
			}
		}
		if len(a.Learned) > 2 {
			level := map[int]int{}
			for j, l := range a.Trail {
				level[absInt(l)] = a.Levels[j]
			}
			for _, l := range a.Learned[2:] {
				if level[absInt(l)] > level[absInt(a.Learned[1])] {
					oc.Fail("spec", "learned-clause-order", entry, "learned clause %v: position 1 is not at the highest remaining level", a.Learned)
					return
				}
			}
		}
	}
	if len(r.analyses) > 0 {
		oc.Tag("analyses-compared")
	}
}

var opProbe = map[string]bool{}

// oracleHasOp tells whether the driver knows an op (mirrors are integrated one by one).
func oracleHasOp(o *Oracle, op string) bool {
	if v, ok := opProbe[op]; ok {
		return v
	}
	a := o.Ask(op)
	opProbe[op] = a != "bad-op" || false
	// a known op called without arguments also answers bad-op: probe with a harmless full query
	if op == "analyze" {
		opProbe[op] = o.Ask("analyze 2 | 1 | -1 2 0 | 0") != "bad-op"
	}
	if op == "trail_run" {
		opProbe[op] = o.Ask("trail_run | 1 1 | ") != "bad-op"
	}
	return opProbe[op]
}


func fmtProblem(pb *solver.Problem, withWeights bool) string {
	st := map[solver.Status]int{solver.Indet: 0, solver.Sat: 1, solver.Unsat: 2}[pb.Status]
	units := make([]int, len(pb.Units))
	for i, u := range pb.Units {
		units[i] = int(u.Int())
	}
	res := fmt.Sprintf("status=%d nbvars=%d units=%s", st, pb.NbVars, encInts(units))
	if pb.Status == solver.Unsat {
		return res
	}
	var cls []string
	for _, c := range pb.Clauses {
		if withWeights {
			type term struct{ w, l int }
			ts := make([]term, c.Len())
			for i := range ts {
				ts[i] = term{c.Weight(i), int(c.Get(i).Int())}
			}
			sort.SliceStable(ts, func(i, j int) bool {
				if ts[i].w != ts[j].w {
					return ts[i].w > ts[j].w
				}
				return ts[i].l < ts[j].l
			})
			g := fmt.Sprint(c.Cardinality())
			for _, t := range ts {
				g += fmt.Sprintf(" %d %d", t.w, t.l)
			}
			cls = append(cls, g)
			continue
		}
		g := ""
		if c.Cardinality() != 1 || withCard {
			g = fmt.Sprint(c.Cardinality()) + " "
		}
		lits := make([]int, c.Len())
		for i := range lits {
			lits[i] = int(c.Get(i).Int())
		}
		cls = append(cls, g+encInts(lits))
	}
	return res + " clauses=" + strings.Join(cls, " ; ")
}

var withCard = false

// mirrorProblem strips the clause part of a mirror answer when the status is unsat (Go leaves
// half-simplified clauses behind there; only status, nbvars and units are meaningful).
func mirrorProblem(a string) string {
	if strings.HasPrefix(a, "status=2") {
		if i := strings.Index(a, " clauses="); i >= 0 {
			return a[:i]
		}
	}
	return strings.TrimRight(a, " ")
}

// parseSliceDiff: ParseSlice / ParseSliceNb (unit collection, simplify2) must produce exactly
// the problem the Lean mirror GS.Simplify.parseSlice produces: same status, variable count,
// units and clauses, in the same order.
func parseSliceDiff(o *Oracle, oc *Outcome, c *CnfCase) {
	for _, cl := range c.Clauses {
		if len(cl) == 0 {
			break
		}
	}
	nb := 0
	if c.Front == "slicenb" {
		nb = c.NbVars
	}
	pb, err := buildCnfProblem(c)
	if err != nil {
		return
	}
	withCard = false
	got := strings.TrimRight(fmtProblem(pb, false), " ")
	want := mirrorProblem(o.Ask(fmt.Sprintf("pslice %d | %s", nb, encCnf(c.Clauses))))
	oc.Corr++
	if got != want {
		oc.Fail("corr", "parseslice-mirror", "solver.ParseSlice", "Go parsed to %q, the Lean mirror GS.Simplify.parseSlice to %q", got, want)
	}
}


// dedupTrail drops trail entries that repeat an earlier entry's literal.
func dedupTrail(a *solver.VerifAnalysis) *solver.VerifAnalysis {
	seen := map[int]bool{}
	b := *a
	b.Trail, b.Levels, b.Reasons, b.Assumed = nil, nil, nil, nil
	for i, l := range a.Trail {
		if seen[l] {
			continue
		}
		seen[l] = true
		b.Trail = append(b.Trail, l)
		b.Levels = append(b.Levels, a.Levels[i])
		b.Reasons = append(b.Reasons, a.Reasons[i])
		b.Assumed = append(b.Assumed, a.Assumed[i])
	}
	return &b
}

// sampleAnalyses registers the conflict-analysis hook on s and collects the first analyses of
// the run plus a thin sample of the later ones.
func sampleAnalyses(s *solver.Solver, first, every, max int) *[]solver.VerifAnalysis {
	var as []solver.VerifAnalysis
	n := 0
	s.VerifSetAnalyzeHook(func(a solver.VerifAnalysis) {
		n++
		if (n <= first || n%every == 0) && len(as) < max {
			as = append(as, a)
		}
	})
	return &as
}

// analysisMirror compares sampled analyses with the Lean mirror of learnClause / minimizeLearned
// (GS.Analyze): same learned clause, unit or top-level verdict; no antecedent left on an
// unassigned variable.
func analysisMirror(o *Oracle, oc *Outcome, as []solver.VerifAnalysis, entry string) {
	for i := range as {
		a := &as[i]
		if len(a.Dangling) > 0 {
			oc.Fail("corr", "analyze-invariant", entry, "at conflict %d the unassigned variables %v still have an antecedent recorded", i, a.Dangling)
			return
		}
		q, want := analysisQuery(a)
		oc.Corr++
		if got := o.Ask(q); got != want {
			oc.Fail("corr", "analyze-mirror", entry, "learnClause returned %q, the Lean mirror GS.Analyze %q on %s", want, got, q)
			return
		}
	}
	if len(as) > 0 {
		oc.Tag("analyses-compared")
	}
}
