package main

// Differential tie between bf.Parse on byte strings and the Lean mirror GS.BfLex (lexer) composed
// with GS.BfParse (parser): ops `bflex`, `bfparsebytes`.
//
// Streams:
//   rendered   a random syntax tree of c17.go (valid renderings, 0..30% redundant parentheses) written with
//              random identifiers ([A-Za-z_][A-Za-z0-9_]*, no Go keyword) and a free layout: any amount of
//              ' ' '\t' '\n' '\r' between two tokens, at least one only between two identifiers
//              (Go image of GS.BfLex.renderBytes; theorems lex_render / parseBytes_render):
//              expected: accepted, the documented reading;
//   corrupted  the token-level corruptions of c17.go (operand deleted, parenthesis added / removed, trailing
//              token, token soup) plus tokens that are no identifiers (numbers, quoted strings, raw strings,
//              characters, keywords, '.', comments), same free layout;
//   mutated    a rendering with 1..3 byte mutations over bflexAlphabet / bflexPieces;
//   random     strings of 0..24 pieces of the alphabet;
//   long       more than 1024 bytes (text/scanner refills its buffer in the middle of tokens).
// For every input: (1) text/scanner configured as bf.Parse configures it (Init only) against `bflex`, token
// text by token text; (2) bf.Parse against `bfparsebytes`: accept / reject, and the formula (%#v and String());
// a panic of bf.Parse is reported with the bytes (C17: never a panic).

import (
	"encoding/json"
	"fmt"
	"math/big"
	"os"
	"strconv"
	"strings"
	"text/scanner"
	"time"

	"github.com/crillab/gophersat/bf"
)

var bflexKeywords = []string{"break", "case", "chan", "const", "continue", "default", "defer", "else", "fallthrough", "for",
	"func", "go", "goto", "if", "import", "interface", "map", "package", "range", "return", "select", "struct", "switch", "type", "var"}

var bflexAlphabet = []byte{'a', 'b', 'Z', 'e', 'x', 'p', '_', '0', '1', '7', '9',
	'^', '&', '|', '-', '>', '=', ';', '(', ')', '{', '}', ',',
	' ', '\t', '\r', '\n', '/', '*', '"', '\'', '`', '.', '\\', '+', 0, 0x80, '\v', '!', '<', 'n', 'u'}

var bflexPieces = []string{"0x", "0X1p-2", "0b12", "0o7", "1e", "1e+", "1_0", "1__0", ".5", "1.", "1.5e3", "0x1.8p1", "08", "0_", "\xc3\xa9", "a\xc3\xa9",
	"//", "/*", "*/", "/**/", "// c\n", "/* c */", "\"a b\"", "\"a\\\"b\"", "\"\\x4", "'a'", "'\\''", "'ab", "`a\nb`", "`", "\\", "->", "- >", "-\n>",
	"func", "go", "true", "false", "BAR", "v1", "k0", "\xef\xbb\xbf", "\"\\u12", "\"\\777\"", "\"\\q\"", "\"a\nb\"", "1a", "a1", "a-b", "_", "__x9"}

func bflexWs(r *Rng, min int) string {
	n := min
	if r.Chance(1, 2) {
		n += r.Intn(3)
	}
	var sb strings.Builder
	for i := 0; i < n; i++ {
		sb.WriteByte(" \t\n\r   "[r.Intn(7)])
	}
	return sb.String()
}

func bflexIsIdent(s string) bool {
	if s == "" {
		return false
	}
	for i := 0; i < len(s); i++ {
		c := s[i]
		switch {
		case c == '_' || 'a' <= c && c <= 'z' || 'A' <= c && c <= 'Z':
		case '0' <= c && c <= '9' && i > 0:
		default:
			return false
		}
	}
	return true
}

func bflexIsKeyword(s string) bool {
	for _, k := range bflexKeywords {
		if k == s {
			return true
		}
	}
	return false
}

// bflexNames: k distinct identifiers that are no keywords.
func bflexNames(r *Rng, k int) []string {
	const first = "abcxyzABXYZ_pqeEnu"
	const cont = "abcxyzABXYZ_pqeE0123456789"
	seen := map[string]bool{}
	var out []string
	for len(out) < k {
		n := 1
		if r.Chance(2, 3) {
			n = r.Range(1, 7)
		}
		b := []byte{first[r.Intn(len(first))]}
		for i := 1; i < n; i++ {
			b = append(b, cont[r.Intn(len(cont))])
		}
		s := string(b)
		if r.Chance(1, 12) {
			s = []string{"true", "false", "BAR", "v1", "k0", "not", "and", "or", "fun", "gof", "_", "__", "x_1", "Func", "iff"}[r.Intn(15)]
		}
		if seen[s] || bflexIsKeyword(s) {
			continue
		}
		seen[s] = true
		out = append(out, s)
	}
	return out
}

// bflexRender writes the texts with a free layout; a separator is forced only between two identifiers.
func bflexRender(r *Rng, texts []string, comments bool) string {
	var sb strings.Builder
	sb.WriteString(bflexWs(r, 0))
	for i, t := range texts {
		if i > 0 {
			min := 0
			if bflexIsIdent(t) && bflexIsIdent(texts[i-1]) {
				min = 1
			}
			if comments && r.Chance(1, 6) {
				sb.WriteString([]string{"/* c */", "/**/", "// x y\n", "/* a\n * b */", "//\n"}[r.Intn(5)])
				min = 0
			}
			sb.WriteString(bflexWs(r, min))
		}
		sb.WriteString(t)
	}
	sb.WriteString(bflexWs(r, 0))
	return sb.String()
}

// bflexScan: the token texts text/scanner delivers with the settings of bf.Parse, and its error count.
func bflexScan(text string) (toks []string, errs int) {
	var s scanner.Scanner
	s.Init(strings.NewReader(text))
	s.Error = func(_ *scanner.Scanner, _ string) {}
	for tok := s.Scan(); tok != scanner.EOF; tok = s.Scan() {
		toks = append(toks, s.TokenText())
	}
	return toks, s.ErrorCount
}

var bflexDevNull *os.File

// bflexParse runs bf.Parse; the lexical errors text/scanner prints on os.Stderr go to /dev/null.
func bflexParse(text string) (f bf.Formula, err error, panicked interface{}) {
	if bflexDevNull == nil {
		bflexDevNull, _ = os.OpenFile(os.DevNull, os.O_WRONLY, 0)
	}
	saved := os.Stderr
	if bflexDevNull != nil {
		os.Stderr = bflexDevNull
	}
	defer func() {
		os.Stderr = saved
		if p := recover(); p != nil {
			panicked = p
		}
	}()
	f, err = bf.Parse(strings.NewReader(text))
	return
}

// bflexTokText: the text of a token of the wire format of `bflex`.
func bflexTokText(t string) (string, error) {
	switch {
	case t == "BAR":
		return "|", nil
	case len(t) > 1 && t[0] == 'v':
		n, ok := new(big.Int).SetString(t[1:], 10)
		if !ok {
			return "", fmt.Errorf("bad token %q", t)
		}
		return bflexNameOfCode(n)
	case len(t) > 1 && t[0] == 'k':
		i, err := strconv.Atoi(t[1:])
		if err != nil || i < 0 || i >= len(bflexKeywords) {
			return "", fmt.Errorf("bad token %q", t)
		}
		return bflexKeywords[i], nil
	}
	return t, nil
}

// bflexNameOfCode: the name behind a variable number of the mirror (GS.BfParse.nameId of a token of GS.BfLex.toWire).
func bflexNameOfCode(n *big.Int) (string, error) {
	if n.IsInt64() {
		id := n.Int64()
		if 1000 <= id && id < 1000+int64(len(bflexKeywords)) {
			return bflexKeywords[id-1000], nil
		}
		if 2000 <= id && id <= 2011 {
			return map[int64]string{2000: ",", 2001: "}", 2002: ">", 2003: "-", 2004: "{", 2005: "^", 2006: "(", 2007: ")", 2008: "=", 2009: "&", 2010: "|", 2011: ";"}[id], nil
		}
	}
	b := n.Bytes()
	if len(b) < 2 || b[0] != 1 {
		return "", fmt.Errorf("bad name code %v", n)
	}
	return string(b[1:]), nil
}

// bflexWireToBf decodes the formula of `bfparsebytes` into a bf.Formula built with the package's constructors.
func bflexWireToBf(toks []string) (bf.Formula, []string, error) {
	if len(toks) == 0 {
		return nil, nil, fmt.Errorf("empty")
	}
	t, rest := toks[0], toks[1:]
	name := func(s string) (string, error) {
		n, ok := new(big.Int).SetString(s, 10)
		if !ok {
			return "", fmt.Errorf("bad number %q", s)
		}
		return bflexNameOfCode(n)
	}
	switch t {
	case "v":
		if len(rest) == 0 {
			return nil, nil, fmt.Errorf("short")
		}
		s, err := name(rest[0])
		return bf.Var(s), rest[1:], err
	case "n":
		k, r, err := bflexWireToBf(rest)
		if err != nil {
			return nil, nil, err
		}
		return bf.Not(k), r, nil
	case "a", "o":
		if len(rest) == 0 {
			return nil, nil, fmt.Errorf("short")
		}
		n, err := strconv.Atoi(rest[0])
		if err != nil {
			return nil, nil, err
		}
		rest = rest[1:]
		var kids []bf.Formula
		for i := 0; i < n; i++ {
			var k bf.Formula
			k, rest, err = bflexWireToBf(rest)
			if err != nil {
				return nil, nil, err
			}
			kids = append(kids, k)
		}
		if t == "a" {
			return bf.And(kids...), rest, nil
		}
		return bf.Or(kids...), rest, nil
	case "i", "e":
		a, r1, err := bflexWireToBf(rest)
		if err != nil {
			return nil, nil, err
		}
		b, r2, err := bflexWireToBf(r1)
		if err != nil {
			return nil, nil, err
		}
		if t == "i" {
			return bf.Implies(a, b), r2, nil
		}
		return bf.Eq(a, b), r2, nil
	case "u":
		if len(rest) == 0 {
			return nil, nil, fmt.Errorf("short")
		}
		n, err := strconv.Atoi(rest[0])
		if err != nil || len(rest) < 1+n {
			return nil, nil, fmt.Errorf("bad unique")
		}
		var ns []string
		for i := 0; i < n; i++ {
			s, err := name(rest[1+i])
			if err != nil {
				return nil, nil, err
			}
			ns = append(ns, s)
		}
		return bf.Unique(ns...), rest[1+n:], nil
	}
	return nil, nil, fmt.Errorf("bad token %q", t)
}

func bflexRefToBf(f FNode, names []string) bf.Formula {
	switch f.Op {
	case "v":
		return bf.Var(names[f.Var])
	case "n":
		return bf.Not(bflexRefToBf(f.Kids[0], names))
	case "a":
		return bf.And(bflexRefToBf(f.Kids[0], names), bflexRefToBf(f.Kids[1], names))
	case "o":
		return bf.Or(bflexRefToBf(f.Kids[0], names), bflexRefToBf(f.Kids[1], names))
	case "i":
		return bf.Implies(bflexRefToBf(f.Kids[0], names), bflexRefToBf(f.Kids[1], names))
	case "e":
		return bf.Eq(bflexRefToBf(f.Kids[0], names), bflexRefToBf(f.Kids[1], names))
	case "u":
		ns := make([]string, len(f.Names))
		for i, n := range f.Names {
			ns[i] = names[n]
		}
		return bf.Unique(ns...)
	}
	panic("bad op " + f.Op)
}

// texts of the tokens of a c17 case under a name table
func bflexTexts(toks []string, names []string) []string {
	out := make([]string, len(toks))
	for i, t := range toks {
		switch {
		case t == "BAR":
			out[i] = "|"
		case len(t) > 1 && t[0] == 'v':
			j, _ := strconv.Atoi(t[1:])
			out[i] = names[j%len(names)]
		case len(t) > 1 && t[0] == 'k':
			j, _ := strconv.Atoi(t[1:])
			out[i] = bflexKeywords[j%len(bflexKeywords)]
		default:
			out[i] = t
		}
	}
	return out
}

var bflexOddNames = []string{"12", "0", "1.5", "0x1F", "1e3", "\"a b\"", "\"\"", "'a'", "`r s`", ".", "+", "!", "func", "go", "if", "1_000", "0b101", "\"a\\\"b\"", "*", "<", "\\"}

func bflexFeatures(oc *Outcome, text string) {
	has := func(s string) bool { return strings.Contains(text, s) }
	if has("//") || has("/*") {
		oc.Tag("in:comment-opener")
	}
	if has("\"") || has("'") || has("`") {
		oc.Tag("in:quote")
	}
	if strings.ContainsAny(text, "0123456789") {
		oc.Tag("in:digit")
	}
	for i := 0; i < len(text); i++ {
		if text[i] >= 0x80 {
			oc.Tag("in:byte>=0x80")
			break
		}
	}
	if has("\x00") {
		oc.Tag("in:NUL")
	}
	if len(text) > 1024 {
		oc.Tag("in:longer-than-scanner-buffer")
	}
}

func tieBfLex(o *Oracle, oc *Outcome, r *Rng) {
	var text string
	var want bf.Formula // documented reading (stream rendered)
	var wantTexts []string
	stream := r.Intn(20)
	switch {
	case stream < 6: // rendered
		oc.Tag("stream:rendered")
		k := r.Range(1, 8)
		s := genSyn(r, k, r.Range(0, 4))
		toks := s.tokens(r, r.Intn(4))
		names := bflexNames(r, k)
		wantTexts = bflexTexts(toks, names)
		text = bflexRender(r, wantTexts, false)
		want = bflexRefToBf(s.ref(), names)
	case stream < 11: // corrupted
		oc.Tag("stream:corrupted")
		c := genParseCase(r, "quick")
		names := bflexNames(r, 8)
		texts := bflexTexts(c.Tokens, names)
		if r.Chance(1, 2) { // names that are no identifiers
			for i, t := range texts {
				if bflexIsIdent(t) && r.Chance(1, 3) {
					texts[i] = bflexOddNames[r.Intn(len(bflexOddNames))]
				}
			}
			oc.Tag("odd-names")
		}
		text = bflexRender(r, texts, r.Chance(1, 3))
		oc.Tag("kind:" + c.Kind)
	case stream < 15: // mutated
		oc.Tag("stream:mutated")
		k := r.Range(1, 8)
		s := genSyn(r, k, r.Range(0, 3))
		bs := []byte(bflexRender(r, bflexTexts(s.tokens(r, r.Intn(4)), bflexNames(r, k)), false))
		for n := r.Range(1, 3); n > 0; n-- {
			pos := r.Intn(len(bs) + 1)
			b := bflexAlphabet[r.Intn(len(bflexAlphabet))]
			switch op := r.Intn(7); {
			case op <= 1:
				bs = append(bs[:pos], append([]byte{b}, bs[pos:]...)...)
			case op <= 3 && len(bs) > 0:
				if pos == len(bs) {
					pos--
				}
				bs = append(bs[:pos], bs[pos+1:]...)
			case op <= 4 && len(bs) > 0:
				if pos == len(bs) {
					pos--
				}
				bs[pos] = b
			default:
				t := bflexPieces[r.Intn(len(bflexPieces))]
				bs = append(bs[:pos], append([]byte(t), bs[pos:]...)...)
			}
		}
		text = string(bs)
	default: // random
		oc.Tag("stream:random")
		var sb strings.Builder
		for n := r.Range(0, 24); n > 0; n-- {
			if r.Chance(1, 5) {
				sb.WriteString(bflexPieces[r.Intn(len(bflexPieces))])
			} else {
				sb.WriteByte(bflexAlphabet[r.Intn(len(bflexAlphabet))])
			}
		}
		text = sb.String()
	}
	if r.Chance(1, 150) { // long: a valid conjunction of groups with long names in front
		oc.Tag("stream:+long-prefix")
		var sb strings.Builder
		for sb.Len() < 1100 {
			n := r.Range(1, 60)
			sb.WriteString("(" + strings.Repeat("a", n) + "_" + strconv.Itoa(n) + bflexWs(r, 0) + "|" + bflexWs(r, 0) + "^" + strings.Repeat("Z", r.Range(1, 40)) + ")")
			sb.WriteString([]string{";", "&", " | ", "\n=\t", "->", "/* c */;"}[r.Intn(6)])
		}
		text = sb.String() + text
		want, wantTexts = nil, nil
	}
	oc.Sample = fmt.Sprintf("%q", text)
	oc.Key = keyOf(text)
	bflexFeatures(oc, text)
	enc := encBytes([]byte(text))

	// (1) the lexer against text/scanner
	goToks, nerr := bflexScan(text)
	if nerr > 0 {
		oc.Tag("scanner-errors")
	}
	lexAns := o.Ask("bflex " + enc)
	oc.Corr++
	switch {
	case lexAns == "unmodelled":
		oc.Tag("lex:unmodelled")
		if want != nil {
			oc.Fail("corr", "bflex-render", "text/scanner", "the mirror answers unmodelled on a rendering: %q", text)
		}
	case lexAns == "ok" || strings.HasPrefix(lexAns, "ok "):
		oc.Tag("lex:ok")
		ws := strings.Fields(lexAns)[1:]
		same := len(ws) == len(goToks)
		var mt []string
		for _, w := range ws {
			s, err := bflexTokText(w)
			if err != nil {
				oc.Fail("crash", "harness", "", "cannot decode %q: %v", lexAns, err)
				return
			}
			mt = append(mt, s)
		}
		for i := 0; same && i < len(mt); i++ {
			same = mt[i] == goToks[i]
		}
		if !same {
			oc.Fail("corr", "bflex-mirror", "text/scanner.Scan", "on %q text/scanner delivers the tokens %q, the Lean mirror GS.BfLex.lex %q", text, goToks, mt)
		}
		if wantTexts != nil {
			oc.Corr++
			if strings.Join(mt, "\x01") != strings.Join(wantTexts, "\x01") {
				oc.Fail("corr", "bflex-render", "text/scanner.Scan", "the mirror reads %q from %q which renders %q", mt, text, wantTexts)
			}
		}
		if len(goToks) > 0 {
			oc.Nontrivial = true
		}
	default:
		oc.Fail("corr", "bflex-mirror", "text/scanner.Scan", "the mirror answers %q on %q", lexAns, text)
	}

	// (2) bf.Parse against lexer + parser mirror
	entry := "bf.Parse"
	got, err, pan := bflexParse(text)
	ans := o.Ask("bfparsebytes " + enc)
	oc.Corr++
	if pan != nil {
		oc.Tag("go:panic")
		oc.Fail("spec", "no-panic", entry, "bf.Parse panics (%v) on the bytes %v = %q; the mirror answers %q", pan, []byte(text), text, ans)
		return
	}
	if err != nil && got != nil {
		oc.Fail("spec", "error-and-no-formula", entry, "error %v together with formula %v", err, got)
	}
	if err != nil {
		oc.Tag("go:err")
	} else {
		oc.Tag("go:ok")
	}
	switch {
	case ans == "unmodelled":
		oc.Tag("parse:unmodelled")
	case ans == "fuel":
		oc.Fail("corr", "bflex-mirror", entry, "mirror ran out of fuel on %q", text)
	case ans == "err":
		if err == nil {
			oc.Fail("corr", "bflex-mirror", entry, "Go parsed %q to %v, the mirror rejects it", text, got)
		}
	case strings.HasPrefix(ans, "ok "):
		if err != nil {
			oc.Fail("corr", "bflex-mirror", entry, "Go rejects %q (%v), the mirror parses it to %s", text, err, ans[3:])
			break
		}
		mf, rest, perr := bflexWireToBf(strings.Fields(ans[3:]))
		if perr != nil || len(rest) != 0 {
			oc.Fail("crash", "harness", "", "cannot decode mirror answer %q: %v", ans, perr)
			break
		}
		if a, b := fmt.Sprintf("%#v", mf), fmt.Sprintf("%#v", got); a != b || mf.String() != got.String() {
			oc.Fail("corr", "bflex-mirror", entry, "on %q Go built %s, the mirror %s", text, b, a)
		}
	default:
		oc.Fail("crash", "harness", "", "mirror answer %q", ans)
	}
	if want != nil {
		oc.Corr++
		switch {
		case err != nil:
			oc.Fail("spec", "parse-ok", entry, "well-formed text %q rejected: %v", text, err)
		case fmt.Sprintf("%#v", want) != fmt.Sprintf("%#v", got):
			oc.Fail("spec", "documented-reading", entry, "%q parsed as %s, documented reading is %s", text, got.String(), want.String())
		}
	}
}

type bflexCase struct {
	Seed uint64 `json:"seed"`
}

func init() {
	register(&Prop{
		ID:   "XBFLEX",
		Rule: "scratch: bf.Parse and text/scanner on byte strings against the Lean mirrors GS.BfLex.lex / parseBytes (renderings with a free layout, token-level corruptions with non-identifier names and comments, byte mutations, random strings, texts longer than the scanner buffer).",
		Gens: []Gen{{Name: "bflex", Weight: 1, Make: func(r *Rng, tier string) interface{} { return bflexCase{Seed: r.Next()} }}},
		Run: func(o *Oracle, d json.RawMessage, oc *Outcome) {
			var c bflexCase
			if err := json.Unmarshal(d, &c); err != nil {
				oc.Fail("crash", "harness", "", "bad case: %v", err)
				return
			}
			tieBfLex(o, oc, NewRng(c.Seed))
		},
		Cases:   defCases(12000, 100000),
		Timeout: defDur(10*time.Second, 60*time.Second),
		Wall:    defDur(180*time.Second, 12*time.Minute),
	})
}
