package main

import (
	"encoding/json"
	"fmt"
	"time"

	"github.com/crillab/gophersat/solver"
)

// Check, on the real unifyLiteral / propagate / cleanupBindings, of the watch invariants proved of the
// Lean mirror in GS.Props.C02_PbPropWatch (WInv: the watched literals that are not false weigh at least
// card, or the true literals do) and GS.Props.C02_PbPropCardWatch (CInv: no false literal among the
// first card+1 positions, or card literals are true): at every fixpoint of propagate that reports no
// conflict, and after every backjump, each constraint satisfies its invariant for the current
// assignment and for the assignment restricted to every lower level (pb_call_levelInv,
// card_call_levelInv); hence no constraint is violated (winv_no_conflict, card_no_missed_conflict) and
// at a total assignment all of them hold.

type pbWatchCase struct {
	Seed uint64 `json:"seed"`
}

func init() {
	register(&Prop{
		ID:      "XPBWATCH",
		Rule:    "scratch: 1..3 random cardinality constraints (ParseCardConstrs) or PB constraints (ParsePBConstrs) over 4..8 variables; random decisions through the real unifyLiteral (propagate to fixpoint), random backjumps through cleanupBindings; after each the watch invariants WInv / CInv of every constraint are evaluated on the solver state, for the current assignment and for its restriction to every lower level.",
		Gens:    []Gen{{Name: "walk", Weight: 1, Make: func(r *Rng, tier string) interface{} { return pbWatchCase{Seed: r.Next()} }}},
		Run:     runPbWatchCase,
		Cases:   defCases(10000, 100000),
		Timeout: defDur(10*time.Second, 60*time.Second),
		Wall:    defDur(10*time.Minute, 60*time.Minute),
	})
}

func runPbWatchCase(o *Oracle, d json.RawMessage, oc *Outcome) {
	var c pbWatchCase
	if err := json.Unmarshal(d, &c); err != nil {
		oc.Fail("crash", "harness", "", "bad case: %v", err)
		return
	}
	oc.Key = keyOf(c)
	oc.Sample = fmt.Sprintf("seed=%d", c.Seed)
	tiePbWatch(oc, NewRng(c.Seed))
}

// pbWatchInv evaluates the invariant of one constraint under the model restricted to the levels <= k
// (k < 0: no restriction). It returns (invariant holds, constraint not violated, all bound, constraint holds).
func pbWatchInv(st solver.VerifPbPropState, k int) (inv, noConfl, total, holds bool) {
	val := func(l int) int { // 1 true, -1 false, 0 unbound
		m := st.Model[absInt(l)-1]
		if m == 0 || (k >= 0 && absInt(m) > k) {
			return 0
		}
		if (m > 0) == (l > 0) {
			return 1
		}
		return -1
	}
	wTrue, wNF, wWatched := 0, 0, 0
	total = true
	firstNF := true
	for i, l := range st.Lits {
		v := val(l)
		w := st.Weights[i]
		if v == 0 {
			total = false
		}
		if v >= 0 {
			wNF += w
			if st.Member[i] > 0 {
				wWatched += w
			}
		}
		if v > 0 {
			wTrue += w
		}
		if v < 0 && i < st.Card+1 {
			firstNF = false
		}
	}
	switch st.Kind {
	case "pb":
		inv = wWatched >= st.Card || wTrue >= st.Card
	case "card":
		inv = (firstNF && st.Card+1 <= len(st.Lits)) || wTrue >= st.Card
	default:
		inv = true
	}
	return inv, wNF >= st.Card, total, wTrue >= st.Card
}

func tiePbWatch(oc *Outcome, r *Rng) {
	entry := "solver.(*Solver).propagate"
	n := r.Range(4, 8)
	nc := r.Range(1, 3)
	usePB := r.Bool()
	var gen string
	var pb *solver.Problem
	if usePB {
		var cs []solver.PBConstr
		for c := 0; c < nc; c++ {
			k := r.Range(2, n)
			vars := r.Perm(n)[:k]
			lits := make([]int, k)
			for i, v := range vars {
				lits[i] = v + 1
				if r.Bool() {
					lits[i] = -lits[i]
				}
			}
			if r.Chance(1, 3) {
				cs = append(cs, solver.PBConstr{Lits: lits, AtLeast: r.Range(1, k)})
			} else {
				ws := make([]int, k)
				sum := 0
				maxw := r.Range(1, 6)
				for i := range ws {
					ws[i] = r.Range(1, maxw)
					sum += ws[i]
				}
				deg := 1
				if sum > 2 {
					deg = r.Range(1, sum-1)
				}
				cs = append(cs, solver.PBConstr{Lits: lits, Weights: ws, AtLeast: deg})
			}
		}
		gen = fmt.Sprintf("ParsePBConstrs %v", cs)
		cp := make([]solver.PBConstr, len(cs))
		for i, c := range cs {
			cp[i] = solver.PBConstr{Lits: append([]int{}, c.Lits...), AtLeast: c.AtLeast}
			if c.Weights != nil {
				cp[i].Weights = append([]int{}, c.Weights...)
			}
		}
		pb = solver.ParsePBConstrs(cp)
		oc.Tag("gen:pb")
	} else {
		var cs []solver.CardConstr
		for c := 0; c < nc; c++ {
			k := r.Range(3, n)
			vars := r.Perm(n)[:k]
			lits := make([]int, k)
			for i, v := range vars {
				lits[i] = v + 1
				if r.Bool() {
					lits[i] = -lits[i]
				}
			}
			cs = append(cs, solver.CardConstr{Lits: lits, AtLeast: r.Range(1, k-1)})
		}
		gen = fmt.Sprintf("ParseCardConstrs %v", cs)
		cp := make([]solver.CardConstr, len(cs))
		for i, c := range cs {
			cp[i] = solver.CardConstr{Lits: append([]int{}, c.Lits...), AtLeast: c.AtLeast}
		}
		pb = solver.ParseCardConstrs(cp)
		oc.Tag("gen:card")
	}
	if pb.Status != solver.Indet {
		oc.Tag("skip:frontend-decided")
		return
	}
	s := solver.New(pb)
	nb := s.VerifNbOrig()
	if nb == 0 {
		oc.Tag("skip:no-constraint")
		return
	}
	oc.Nontrivial = true
	lvl := 1
	check := func(when string) bool {
		for idx := 0; idx < nb; idx++ {
			st := s.VerifPbPropSnapshot(idx)
			if st.Kind == "none" {
				continue
			}
			for k := -1; k < lvl; k++ {
				if k == 0 {
					continue
				}
				inv, noConfl, total, holds := pbWatchInv(st, k)
				oc.Corr++
				if !noConfl {
					oc.Fail("spec", "pbwatch-missed-conflict", entry, "%s: constraint %d is violated under the assignment (levels <= %d) but propagate reported no conflict: %s (%s)", when, idx, k, pbStateString(st), gen)
					return false
				}
				if !inv {
					oc.Fail("corr", "pbwatch-invariant", entry, "%s: the watch invariant of constraint %d fails for the levels <= %d: %s (%s)", when, idx, k, pbStateString(st), gen)
					return false
				}
				if k == -1 && total {
					oc.Tag("total")
					if !holds {
						oc.Fail("spec", "pbwatch-total", entry, "%s: total assignment, constraint %d false, no conflict reported: %s (%s)", when, idx, pbStateString(st), gen)
						return false
					}
				}
			}
			oc.Tag("checked:" + st.Kind)
		}
		return true
	}
	if !check("after New") {
		return
	}
	steps := r.Range(1, 3*n)
	for step := 0; step < steps; step++ {
		model := s.VerifModelLevels()
		var free []int
		for v, m := range model {
			if m == 0 {
				free = append(free, v+1)
			}
		}
		if len(free) == 0 || (lvl > 1 && r.Chance(1, 5)) {
			if lvl <= 1 {
				return
			}
			k := r.Range(1, lvl-1)
			s.VerifCleanup(k)
			lvl = k
			oc.Tag("backjump")
			if !check(fmt.Sprintf("after cleanupBindings(%d)", k)) {
				return
			}
			continue
		}
		lit := free[r.Intn(len(free))]
		if r.Bool() {
			lit = -lit
		}
		lvl++
		confl, panicked := s.VerifUnifyPb(lit, lvl)
		if panicked {
			oc.Fail("panic", "pbwatch-panic", entry, "unifyLiteral(%d, %d) panics (%s)", lit, lvl, gen)
			return
		}
		if confl {
			oc.Tag("conflict")
			k := r.Range(1, lvl-1)
			s.VerifCleanup(k)
			lvl = k
			if !check(fmt.Sprintf("after conflict and cleanupBindings(%d)", k)) {
				return
			}
			continue
		}
		oc.Tag("decision")
		if len(s.VerifModelLevels()) > 0 {
			after := s.VerifModelLevels()
			cnt := 0
			for v := range after {
				if after[v] != 0 && model[v] == 0 {
					cnt++
				}
			}
			if cnt > 1 {
				oc.Tag("propagated")
			}
		}
		if !check(fmt.Sprintf("after unifyLiteral(%d, %d)", lit, lvl)) {
			return
		}
	}
}
