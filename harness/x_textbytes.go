package main

// Differential tie between the three line-oriented readers on byte strings
//   solver.ParseOPB, maxsat.ParseWCNF, explain.ParseCNF
// and the Lean mirrors GS.TextBytes.parseOpbBytes / parseOpbBytesFull / parseWcnfBytes /
// explainParseBytes (ops `opbbytes`, `opbbytesfull`, `wcnfbytes`, `xcnfbytes`).
//
// For each format, streams of inputs:
//   (i)   a well-formed text of the C13 generators (genFormatCase) re-laid out at byte level: runs
//         of ' ' / '\t' (rarely U+00A0, U+0085) between fields, leading / trailing blanks where the
//         reader tolerates them, "\n" or "\r\n", optional final newline, comment / blank lines,
//         for OPB glued operators and optional blank before ';' — the Go image of
//         GS.TextBytes.render…Bytes: expected: no error, and the problem parsed from the original text;
//   (ii)  the same with 1..3 byte mutations;
//   (iii) short random byte strings;
//   (iv)  (rare) a text with one line whose length is around bufio.MaxScanTokenSize.
// In all streams: error / panic / success must agree and, on success, the parsed problem must be
// the one the mirror computes (as tokenDiff of c13.go compares them).

import (
	"encoding/json"
	"fmt"
	"strconv"
	"strings"
	"time"

	"github.com/crillab/gophersat/explain"
	"github.com/crillab/gophersat/maxsat"
	"github.com/crillab/gophersat/solver"
)

var textBytesAlphabet = []byte{'0', '1', '2', '3', '4', '5', '6', '7', '8', '9', '-', '+', ' ', '\t', '\r', '\n', 'x', '~', ';', '>', '=', '<', ':',
	'c', 'p', '*', 'm', 'i', 'n', 0, 0xC2, 0x85, 0xA0}

var textBytesTokens = []string{"9223372036854775808", "-9223372036854775808", "9223372036854775807", "-9223372036854775809",
	"4611686018427387904", "2305843009213693952", ">=", "=", "min:", "~x", "x", " ;", ";", "* ", "p wcnf ", "p cnf ", "c ", "\xc2\xa0", "\xc2\x85", "\r\n",
	"x99999999999999999999", "~x-1", "x0", "x+2", "wcnf", "cnf", " 0", "+1", "-0", "\n \n", "\n\t", " p", " c", " *"}

func tbWs(r *Rng, oc *Outcome, min, max int) string {
	n := r.Range(min, max)
	var sb strings.Builder
	for i := 0; i < n; i++ {
		switch {
		case r.Chance(1, 3):
			sb.WriteByte('\t')
			oc.Tag("tab")
		case i > 0 && r.Chance(1, 25):
			sb.WriteString([]string{"\xc2\xa0", "\xc2\x85"}[r.Intn(2)])
			oc.Tag("unicode-space")
		default:
			sb.WriteByte(' ')
		}
	}
	return sb.String()
}

func tbJunk(r *Rng) string {
	n := r.Intn(10)
	var sb strings.Builder
	for i := 0; i < n; i++ {
		b := textBytesAlphabet[r.Intn(len(textBytesAlphabet))]
		if r.Chance(1, 3) {
			b = byte(r.Intn(256))
		}
		if b == '\n' {
			b = ' '
		}
		sb.WriteByte(b)
	}
	return sb.String()
}

// tbRelayout re-renders a well-formed text of the given format with a free byte layout.
func tbRelayout(r *Rng, oc *Outcome, text string, format string) []byte {
	lines := strings.Split(strings.ReplaceAll(text, "\r", ""), "\n")
	if len(lines) > 0 && lines[len(lines)-1] == "" {
		lines = lines[:len(lines)-1]
	}
	crlf := r.Chance(1, 4)
	if crlf {
		oc.Tag("crlf")
	}
	var out []string
	filler := func() {
		for r.Chance(1, 6) {
			switch format {
			case "opb":
				if r.Bool() {
					out = append(out, "*"+tbJunk(r))
					oc.Tag("comment")
				} else {
					out = append(out, "")
					oc.Tag("blank-line")
				}
			case "wcnf":
				if r.Bool() {
					out = append(out, "c"+tbJunk(r))
					oc.Tag("comment")
				} else {
					out = append(out, "") // a line of blanks would make ParseWCNF panic
					oc.Tag("blank-line")
				}
			default:
				if r.Bool() {
					out = append(out, tbWs(r, oc, 0, 2)+"c"+tbWs(r, oc, 1, 2)+strings.ReplaceAll(tbJunk(r), "\r", " "))
					oc.Tag("comment")
				} else {
					out = append(out, tbWs(r, oc, 0, 3))
					oc.Tag("blank-line")
				}
			}
		}
	}
	for _, line := range lines {
		filler()
		fs := strings.Fields(line)
		switch {
		case format == "opb" && (line == "" || line[0] == '*'):
			out = append(out, line)
		case format == "wcnf" && (line == "" || line[0] == 'c'):
			out = append(out, line)
		case format == "opb":
			// separate a glued ';' and glued operators first
			var toks []string
			for _, f := range fs {
				if len(f) > 1 && strings.HasSuffix(f, ";") {
					f = f[:len(f)-1]
					toks = append(toks, f, ";")
				} else {
					toks = append(toks, f)
				}
			}
			var ts []string
			for _, f := range toks {
				switch {
				case strings.HasPrefix(f, "min:") && len(f) > 4:
					ts = append(ts, "min:", f[4:])
				case strings.HasPrefix(f, ">=") && len(f) > 2:
					ts = append(ts, ">=", f[2:])
				case strings.HasPrefix(f, "=") && len(f) > 1:
					ts = append(ts, "=", f[1:])
				default:
					ts = append(ts, f)
				}
			}
			var sb strings.Builder
			glueMin := false
			for i, t := range ts {
				sep := tbWs(r, oc, 1, 3)
				switch {
				case i == 0:
					sep = ""
				case t == ";" && r.Chance(1, 3):
					sep = ""
					oc.Tag("semicolon-glued")
				case (t == ">=" || t == "=") && r.Chance(1, 4):
					sep = ""
					oc.Tag("operator-glued-left")
				case (ts[i-1] == ">=" || ts[i-1] == "=") && r.Chance(1, 3):
					sep = ""
					oc.Tag("operator-glued-right")
				case ts[i-1] == "min:" && i == 1 && r.Chance(1, 3):
					sep = ""
					glueMin = true
					oc.Tag("min-glued")
				}
				sb.WriteString(sep + t)
			}
			lead := ""
			if !glueMin && r.Chance(1, 5) {
				lead = tbWs(r, oc, 1, 2)
				oc.Tag("leading-blanks")
			}
			out = append(out, lead+sb.String())
		default:
			var sb strings.Builder
			if !(format == "wcnf" && len(fs) > 0 && fs[0] == "p") && r.Chance(1, 5) {
				sb.WriteString(tbWs(r, oc, 1, 2))
				oc.Tag("leading-blanks")
			}
			for i, f := range fs {
				if i > 0 {
					sb.WriteString(tbWs(r, oc, 1, 3))
				}
				sb.WriteString(f)
			}
			if r.Chance(1, 5) && (format != "wcnf" || len(fs) > 0) {
				sb.WriteString(tbWs(r, oc, 1, 2))
				oc.Tag("trailing-blanks")
			}
			out = append(out, sb.String())
		}
	}
	filler()
	var sb strings.Builder
	for i, l := range out {
		sb.WriteString(l)
		eol := "\n"
		if crlf && !r.Chance(1, 6) {
			eol = "\r\n"
		}
		if i == len(out)-1 && r.Chance(1, 3) {
			oc.Tag("no-final-newline")
			eol = ""
			if crlf && r.Bool() {
				eol = "\r"
			}
		}
		sb.WriteString(eol)
	}
	return []byte(sb.String())
}

func tbMutate(r *Rng, bs []byte) []byte {
	bs = append([]byte(nil), bs...)
	for k := r.Range(1, 3); k > 0; k-- {
		pos := r.Intn(len(bs) + 1)
		b := textBytesAlphabet[r.Intn(len(textBytesAlphabet))]
		switch op := r.Intn(7); {
		case op <= 1:
			bs = append(bs[:pos], append([]byte{b}, bs[pos:]...)...)
		case op <= 3 && len(bs) > 0:
			if pos == len(bs) {
				pos--
			}
			bs = append(bs[:pos], bs[pos+1:]...)
		case op <= 5 && len(bs) > 0:
			if pos == len(bs) {
				pos--
			}
			bs[pos] = b
		default:
			t := textBytesTokens[r.Intn(len(textBytesTokens))]
			bs = append(bs[:pos], append([]byte(t), bs[pos:]...)...)
		}
	}
	return bs
}

// tbLongLine: a text with one line of about bufio.MaxScanTokenSize bytes.
func tbLongLine(r *Rng, oc *Outcome, format string) []byte {
	target := 65536 + r.Range(-2, 2)
	var pre, post, start, unit string
	switch format {
	case "opb":
		pre, post = "1 x1 >= 1 ;\n", "1 x2 >= 1 ;\n"
		start, unit = "*", " z"
		if r.Bool() {
			start, unit = "1 x3", " +1 x3"
		}
	case "wcnf":
		pre, post = "p wcnf 3 2\n1 1 0\n", "2 -2 0\n"
		start, unit = "c", " z"
		if r.Bool() {
			start, unit = "3", " 1"
		}
	default:
		pre, post = "p cnf 3 2\n1 0\n", "-2 3 0\n"
		start, unit = "c", " z"
		if r.Bool() {
			start, unit = "1", " 2"
		}
	}
	if r.Chance(1, 4) {
		pre = ""
	}
	var sb strings.Builder
	sb.WriteString(start)
	end := ""
	switch format {
	case "opb":
		if start != "*" {
			end = " >= 1 ;"
		}
	default:
		if start != "c" {
			end = " 0"
		}
	}
	cr := r.Chance(1, 3)
	want := target - len(end)
	if cr {
		want--
	}
	for sb.Len()+len(unit) <= want {
		sb.WriteString(unit)
	}
	for sb.Len() < want {
		sb.WriteString(" ")
	}
	if format == "opb" && end != "" {
		// no blank may follow the ';': pad before the end
		s := sb.String()
		sb.Reset()
		sb.WriteString(s)
	}
	sb.WriteString(end)
	if cr {
		sb.WriteString("\r")
	}
	line := sb.String()
	oc.Tag(fmt.Sprintf("long-line:%+d", len(line)-65536))
	tail := "\n" + post
	switch r.Intn(3) {
	case 0:
		tail = ""
		oc.Tag("long-line-at-eof")
	case 1:
		tail = "\n"
	}
	return []byte(pre + line + tail)
}

// tbUnsafe: inputs on which the Go reader may allocate gigabytes (fatal "out of memory", not a
// recoverable panic) are not run through Go: a variable number or a declared count of 7 digits
// or more.
func tbUnsafe(bs []byte, format string) bool {
	long := func(f string) bool {
		run := 0
		for i := 0; i < len(f); i++ {
			if f[i] >= '0' && f[i] <= '9' {
				run++
				if run >= 7 {
					return true
				}
			} else {
				run = 0
			}
		}
		return false
	}
	// 20 digits or more without a smaller run: strconv.Atoi fails (value out of range), nothing is allocated
	veryLong := func(f string) bool {
		run, ok := 0, true
		for i := 0; i <= len(f); i++ {
			if i < len(f) && f[i] >= '0' && f[i] <= '9' {
				run++
			} else {
				if run >= 7 && run < 20 {
					ok = false
				}
				run = 0
			}
		}
		return ok
	}
	for _, line := range strings.Split(string(bs), "\n") {
		fs := strings.Fields(line)
		switch format {
		case "opb":
			for _, f := range fs {
				if strings.Contains(f, "x") && long(f) && !veryLong(f) {
					return true
				}
			}
		case "wcnf":
			if strings.Contains(line, "p") {
				if long(line) {
					return true
				}
			} else {
				for i, f := range fs {
					if i > 0 && long(f) {
						return true
					}
				}
			}
		default:
			if strings.Contains(line, "p") && long(line) {
				return true
			}
		}
	}
	return false
}

func tbErrKind(format string, err error) string {
	s := err.Error()
	kinds := map[string][]string{
		"opb": {"does not end with semicolon", "empty line", "invalid syntax", "invalid operator", "invalid value", "invalid weight",
			"invalid variable name", "invalid variable ", "could not parse OPB"},
		"wcnf": {"invalid syntax", "nbvars not an int", "nbClauses not an int", "top weight not an int", "Invalid integer"},
		"explain": {"expected 4 fields", "invalid number of vars", "negative number of vars", "invalid number of clauses",
			"negative number of clauses", "found lit", "could not parse clause", "could not parse problem"},
	}
	for _, k := range kinds[format] {
		if (k != "invalid syntax" && strings.Contains(s, k)) || strings.HasPrefix(s, k) {
			return "err:" + strings.ReplaceAll(strings.TrimSpace(k), " ", "-")
		}
	}
	return "err:other"
}

func tbViewString(first int, v solver.VerifSolverView) string {
	var cs []string
	for _, c := range v.Orig {
		cs = append(cs, fmt.Sprintf("%d %v %v", c.AtLeast, c.Lits, c.Weights))
	}
	return fmt.Sprintf("first=%d nbvars=%d status=%v trail=%v orig=%v cost=%v %v %v", first, v.NbVars, v.Status, v.Trail, cs, v.HasCost, v.CostLits, v.CostWeights)
}

// tbWcnfReference: what ParseWCNF does after its reading loop, on the outcome of the mirror.
func tbWcnfReference(nbVars, first int, clauses [][]int, costs []int) (s string, panicked string) {
	defer func() {
		if p := recover(); p != nil {
			panicked = fmt.Sprint(p)
		}
	}()
	relaxLits := make([]solver.Lit, len(costs)/2)
	weights := make([]int, 0, len(costs)/2)
	for i := 0; i+1 < len(costs); i += 2 {
		weights = append(weights, costs[i])
		relaxLits[i/2] = solver.IntToLit(int32(costs[i+1]))
	}
	prob := solver.ParseSliceNb(clauses, nbVars)
	prob.SetCostFunc(relaxLits, weights)
	sv := solver.New(prob)
	return tbViewString(first, sv.VerifView()), ""
}

func tbParseGroups(s string) [][]int {
	s = strings.TrimSpace(s)
	if s == "" {
		return nil
	}
	var res [][]int
	for _, g := range strings.Split(s, ";") {
		g = strings.TrimSpace(g)
		cl := []int{}
		if g != "e" {
			for _, f := range strings.Fields(g) {
				v, _ := strconv.Atoi(f)
				cl = append(cl, v)
			}
		}
		res = append(res, cl)
	}
	return res
}

func tieTextBytes(o *Oracle, oc *Outcome, r *Rng) {
	format := []string{"opb", "wcnf", "explain"}[r.Intn(3)]
	oc.Tag("format:" + format)
	stream := r.Intn(3)
	if r.Chance(1, 120) {
		stream = 3
	}
	var bs []byte
	var orig *FormatCase
	gen := func(sub *Outcome) []byte {
		for {
			c := genFormatCase(r, "quick")
			if c.Format != format {
				continue
			}
			orig = &c
			text := ""
			switch format {
			case "opb":
				text = c.Opb.Text
			case "wcnf":
				text = c.Wcnf.Text
			default:
				text = c.Cnf.Text
			}
			if len(text) > 3000 { // the 4-10 KiB comment lines of renderDimacs: kept out, the op line would be long
				continue
			}
			return tbRelayout(r, sub, text, format)
		}
	}
	switch stream {
	case 0:
		oc.Tag("stream:rendered")
		bs = gen(oc)
	case 1:
		oc.Tag("stream:mutated")
		bs = tbMutate(r, gen(&Outcome{}))
		orig = nil
	case 2:
		oc.Tag("stream:random")
		n := r.Range(0, 30)
		bs = make([]byte, n)
		for i := range bs {
			bs[i] = textBytesAlphabet[r.Intn(len(textBytesAlphabet))]
		}
		if r.Chance(1, 2) {
			pre := map[string][]string{"opb": {"min:", "1 x1 ", "+1 x1 >= 1 ;\n", "x1 x2 = 1", "*"},
				"wcnf": {"p wcnf ", "p wcnf 2 1\n", "p wcnf 2 1 3\n1 ", "c"}, "explain": {"p cnf ", "p cnf 2 1\n", "p cnf 3 2\n1 ", "c "}}[format]
			bs = append([]byte(pre[r.Intn(len(pre))]), bs...)
		}
	default:
		oc.Tag("stream:long-line")
		bs = tbLongLine(r, oc, format)
		if r.Chance(1, 4) {
			bs = tbMutate(r, bs)
			oc.Tag("long-line-mutated")
		}
	}
	if len(bs) > 300 {
		oc.Sample = fmt.Sprintf("%s %q… (%d bytes)", format, bs[:300], len(bs))
	} else {
		oc.Sample = fmt.Sprintf("%s %q", format, bs)
	}
	oc.Key = keyOf(append([]byte(format), bs...))
	show := func() string {
		if len(bs) > 400 {
			return fmt.Sprintf("%q… (%d bytes, seed-reproducible)", bs[:400], len(bs))
		}
		return fmt.Sprintf("%q (bytes %v)", bs, bs)
	}
	enc := encBytes(bs)
	op := map[string]string{"opb": "opbbytes", "wcnf": "wcnfbytes", "explain": "xcnfbytes"}[format]
	entry := map[string]string{"opb": "solver.ParseOPB", "wcnf": "maxsat.ParseWCNF", "explain": "explain.ParseCNF"}[format]
	a := o.Ask(op + " " + enc)
	if tbUnsafe(bs, format) {
		oc.Tag("skipped:long-number")
		return
	}
	if a == "unmodelled" {
		oc.Tag("mirror:unmodelled")
		if stream == 0 {
			oc.Fail("corr", "textbytes-mirror", entry, "the mirror answers unmodelled on a rendering: %s", show())
		}
		return
	}
	if a == "bad-op" {
		oc.Fail("crash", "harness", entry, "bad-op on %s", show())
		return
	}
	oc.Corr++
	var err error
	var pan string
	var opbPb *solver.Problem
	var xPb *explain.Problem
	var wFirst int
	var wView solver.VerifSolverView
	switch format {
	case "opb":
		opbPb, err, pan = solver.VerifParseOPB(strings.NewReader(string(bs)))
	case "wcnf":
		wFirst, wView, err, pan = maxsat.VerifParseWCNF(strings.NewReader(string(bs)))
	default:
		xPb, err, pan = explain.VerifParseCNF(strings.NewReader(string(bs)))
	}
	mirrorOk := strings.HasPrefix(a, "ok ")
	switch {
	case pan != "":
		oc.Tag("go:panic")
		if format == "wcnf" && mirrorOk {
			// the reading loop ended; the panic must come from ParseSliceNb / SetCostFunc / New
			oc.Tag("go:panic-after-the-reading-loop")
			parts := strings.Split(a, " | ")
			var nv, first int
			fmt.Sscanf(parts[0], "ok nbvars=%d first=%d", &nv, &first)
			var costs []int
			for _, f := range strings.Fields(parts[2]) {
				v, _ := strconv.Atoi(f)
				costs = append(costs, v)
			}
			if _, rp := tbWcnfReference(nv, first, tbParseGroups(parts[1]), costs); rp == "" {
				oc.Fail("corr", "textbytes-mirror", entry, "Go panics (%s); the mirror reads %q, on which ParseSliceNb + SetCostFunc + New do not panic; on %s", pan, a, show())
			}
		} else if format == "opb" && mirrorOk {
			// the scanner loop ended; the panic must come from the unit check / simplifyPB (names x0, x-<n>)
			full := o.Ask("opbbytesfull " + enc)
			oc.Tag("go:panic-after-the-reading-loop:full=" + strings.SplitN(full, " ", 2)[0])
			if full != "panic" && full != "unmodelled" {
				oc.Fail("corr", "textbytes-full-mirror", entry, "Go panics (%s), the Lean mirror answers %q and end to end %q on %s", pan, a, full, show())
			}
		} else if a != "panic" {
			oc.Fail("corr", "textbytes-mirror", entry, "Go panics (%s), the Lean mirror answers %q on %s", pan, a, show())
		}
		oc.Class("panic:" + format)
	case err != nil:
		oc.Tag(tbErrKind(format, err))
		if a != "err" {
			oc.Fail("corr", "textbytes-mirror", entry, "Go returns the error %v, the Lean mirror answers %q on %s", err, a, show())
		}
	default:
		oc.Tag("go:ok")
		if !mirrorOk {
			oc.Fail("corr", "textbytes-mirror", entry, "Go parses, the Lean mirror answers %q on %s", a, show())
			return
		}
		switch format {
		case "opb":
			pb := opbPb
			var nv, un int
			fmt.Sscanf(a, "ok nbvars=%d unsat=%d", &nv, &un)
			if nv != pb.NbVars || (un == 1 && pb.Status != solver.Unsat) {
				oc.Fail("corr", "textbytes-mirror", entry, "Go: NbVars %d status %v; mirror %q on %s", pb.NbVars, pb.Status, a, show())
			}
			full := o.Ask("opbbytesfull " + enc)
			if strings.HasPrefix(full, "ok ") {
				oc.Corr++
				sp := strings.SplitN(full, " | obj=", 2)
				got := strings.TrimRight(fmtProblem(pb, true), " ")
				want := mirrorProblem(strings.TrimPrefix(sp[0], "ok "))
				if got != want {
					oc.Fail("corr", "textbytes-full-mirror", entry, "Go parsed to %q, the Lean mirror GS.TextBytes.parseOpbBytesFull to %q on %s", got, want, show())
				}
				lits, ws := pb.VerifCostFunc()
				obj := "none"
				if lits != nil {
					var ts []string
					for i := range lits {
						ts = append(ts, fmt.Sprint(ws[i]), fmt.Sprint(lits[i]))
					}
					obj = strings.Join(ts, " ")
				}
				if len(sp) == 2 && strings.TrimSpace(sp[1]) != obj && !(obj == "none" && false) {
					// an empty `min: ;` gives a non-nil empty minLits in Go only if make() ran: VerifCostFunc then returns nil
					if !(strings.TrimSpace(sp[1]) == "" && obj == "none") {
						oc.Fail("corr", "textbytes-full-mirror", entry, "objective: Go %q, mirror %q on %s", obj, sp[1], show())
					}
				}
				if pb.Status == solver.Unsat {
					oc.Tag("final:unsat")
				} else if len(pb.Clauses) > 0 {
					oc.Tag("final:clauses-left")
					oc.Nontrivial = true
				}
			} else if full == "unmodelled" {
				oc.Tag("full:unmodelled")
			} else {
				oc.Fail("corr", "textbytes-full-mirror", entry, "Go parses the text, the end-to-end mirror answers %q on %s", full, show())
			}
		case "explain":
			pb := xPb
			got := fmt.Sprintf("ok %d %d | %s | %s", pb.NbVars, pb.NbClauses, encCnf(pb.Clauses), encInts(pb.VerifUnits()))
			if strings.TrimSpace(got) != strings.TrimSpace(a) {
				oc.Fail("corr", "textbytes-mirror", entry, "Go parsed %q, the mirror %q on %s", got, a, show())
			}
			oc.Nontrivial = len(pb.Clauses) >= 2
		default:
			parts := strings.Split(a, " | ")
			for len(parts) < 3 {
				parts = append(parts, "")
			}
			var nv, first int
			fmt.Sscanf(parts[0], "ok nbvars=%d first=%d", &nv, &first)
			var costs []int
			for _, f := range strings.Fields(parts[2]) {
				v, _ := strconv.Atoi(f)
				costs = append(costs, v)
			}
			want, rp := tbWcnfReference(nv, first, tbParseGroups(parts[1]), costs)
			got := tbViewString(wFirst, wView)
			if rp != "" {
				oc.Fail("corr", "textbytes-mirror", entry, "Go parses to %q; ParseSliceNb + SetCostFunc + New panic (%s) on what the mirror reads, %q, on %s", got, rp, a, show())
			} else if got != want {
				oc.Fail("corr", "textbytes-mirror", entry, "Go parsed to %q; from what the mirror reads (%q) one gets %q; on %s", got, a, want, show())
			}
			// directly observable: firstRelax, the cost function
			if wView.Status != solver.Unsat {
				var cs []int
				for i := range wView.CostLits {
					cs = append(cs, wView.CostWeights[i], wView.CostLits[i])
				}
				if wFirst != first || encInts(cs) != strings.TrimSpace(parts[2]) {
					oc.Fail("corr", "textbytes-mirror", entry, "Go: firstRelax %d cost %v; the mirror %q on %s", wFirst, cs, a, show())
				}
			}
			oc.Nontrivial = len(costs) >= 2
		}
	}
	if stream == 3 {
		// the lines the scanner delivers
		oc.Corr++
		tl := o.Ask("textlines " + enc)
		var n, long int
		fmt.Sscanf(tl, "%d %d", &n, &long)
		oc.Tag(fmt.Sprintf("scanner-too-long:%d", long))
		if long == 1 && format == "wcnf" && err == nil && pan == "" {
			oc.Tag("wcnf-silently-truncated")
			oc.Class("wcnf-long-line-silently-dropped")
		}
	}
	if stream == 0 && orig != nil {
		// a re-laid out text is read without error, as the original text is
		oc.Corr++
		if err != nil || pan != "" {
			oc.Fail("corr", "textbytes-render", entry, "Go fails (err=%v panic=%q) on the well-formed text %s", err, pan, show())
			return
		}
		var text, tokOp string
		switch format {
		case "opb":
			text, tokOp = orig.Opb.Text, "popbfront"
		case "wcnf":
			text, tokOp = orig.Wcnf.Text, "pwcnftok"
		default:
			text, tokOp = orig.Cnf.Text, "pxcnftok"
		}
		toks := tokenLines(text, true, format == "opb")
		if format == "wcnf" {
			// tokenLines keeps comment lines: their first field is `c`, as the token level wants
			toks = tokenLines(text, true, false)
		}
		if toks != "" || format != "opb" {
			b := o.Ask(tokOp + " " + toks)
			if strings.TrimSpace(a) != strings.TrimSpace(b) {
				oc.Fail("corr", "textbytes-render", entry, "the byte-level mirror reads %q from the re-laid out text %s; the token-level mirror reads %q from the tokens of the original text %q", a, show(), b, text)
			}
			oc.Tag("same-as-token-level")
		}
	}
}

type textBytesCase struct {
	Seed uint64 `json:"seed"`
}

func init() {
	register(&Prop{
		ID:   "XTEXTBYTES",
		Rule: "scratch: solver.ParseOPB, maxsat.ParseWCNF and explain.ParseCNF on byte strings against the Lean mirrors GS.TextBytes (re-laid out well-formed texts, mutated ones, random byte strings, lines around the bufio.Scanner limit).",
		Gens: []Gen{{Name: "textbytes", Weight: 1, Make: func(r *Rng, tier string) interface{} { return textBytesCase{Seed: r.Next()} }}},
		Run: func(o *Oracle, d json.RawMessage, oc *Outcome) {
			var c textBytesCase
			if err := json.Unmarshal(d, &c); err != nil {
				oc.Fail("crash", "harness", "", "bad case: %v", err)
				return
			}
			tieTextBytes(o, oc, NewRng(c.Seed))
		},
		Cases:   defCases(10000, 100000),
		Timeout: defDur(20*time.Second, 60*time.Second),
		Wall:    defDur(240*time.Second, 15*time.Minute),
	})
}
