package main

import (
	"encoding/json"
	"flag"
	"fmt"
	"os"
	"sort"
)

func main() {
	if len(os.Args) < 2 {
		fmt.Fprintln(os.Stderr, "usage: harness run|worker|replay|dump|list ...")
		os.Exit(2)
	}
	fs := flag.NewFlagSet(os.Args[1], flag.ExitOnError)
	prop := fs.String("prop", "", "property id")
	tier := fs.String("tier", "quick", "quick|thorough")
	seed := fs.Uint64("seed", 1, "seed")
	out := fs.String("out", "", "result json path")
	file := fs.String("file", "", "replay file")
	index := fs.Int("index", 0, "dump: member index of an enumerated family")
	fs.Parse(os.Args[2:])
	switch os.Args[1] {
	case "worker":
		workerMain(*prop)
	case "run":
		os.Exit(parentMain(*prop, *tier, *seed, *out, nil))
	case "replay":
		b, err := os.ReadFile(*file)
		if err != nil {
			fmt.Fprintln(os.Stderr, err)
			os.Exit(2)
		}
		var v Violation
		var wc WireCase
		if json.Unmarshal(b, &v) == nil && v.Case.Prop != "" {
			wc = v.Case
		} else if json.Unmarshal(b, &wc) != nil || wc.Prop == "" {
			fmt.Fprintln(os.Stderr, "not a replay or corpus file")
			os.Exit(2)
		}
		if *prop == "" {
			*prop = wc.Prop
		}
		os.Exit(parentMain(*prop, *tier, wc.Seed, *out, &wc))
	case "dump": // print member -index of the property's enumerated family as a corpus/replay file
		p := props[*prop]
		if p == nil {
			fmt.Fprintln(os.Stderr, "unknown property")
			os.Exit(2)
		}
		for _, g := range p.Gens {
			if g.Enum == nil {
				continue
			}
			fam := g.Enum(*tier)
			if *index < 0 || *index >= len(fam) {
				fmt.Fprintln(os.Stderr, "index out of range")
				os.Exit(2)
			}
			d, _ := json.Marshal(fam[*index])
			b, _ := json.MarshalIndent(WireCase{Prop: p.ID, Gen: g.Name, Idx: *index, Data: d}, "", " ")
			fmt.Println(string(b))
			return
		}
		os.Exit(2)
	case "list":
		ids := make([]string, 0, len(props))
		for id := range props {
			ids = append(ids, id)
		}
		sort.Strings(ids)
		for _, id := range ids {
			fmt.Println(id)
		}
	default:
		fmt.Fprintln(os.Stderr, "unknown command")
		os.Exit(2)
	}
}
