package main

import (
	"encoding/json"
	"flag"
	"fmt"
	"os"
	"sort"
)

func main() {
	if len(os.Args) < 2 {
		fmt.Fprintln(os.Stderr, "usage: harness run|worker|replay|list ...")
		os.Exit(2)
	}
	fs := flag.NewFlagSet(os.Args[1], flag.ExitOnError)
	prop := fs.String("prop", "", "property id")
	tier := fs.String("tier", "quick", "quick|thorough")
	seed := fs.Uint64("seed", 1, "seed")
	out := fs.String("out", "", "result json path")
	file := fs.String("file", "", "replay file")
	fs.Parse(os.Args[2:])
	switch os.Args[1] {
	case "worker":
		workerMain(*prop)
	case "run":
		os.Exit(parentMain(*prop, *tier, *seed, *out, nil))
	case "replay":
		b, err := os.ReadFile(*file)
		if err != nil {
			fmt.Fprintln(os.Stderr, err)
			os.Exit(2)
		}
		var v Violation
		var wc WireCase
		if json.Unmarshal(b, &v) == nil && v.Case.Prop != "" {
			wc = v.Case
		} else if json.Unmarshal(b, &wc) != nil || wc.Prop == "" {
			fmt.Fprintln(os.Stderr, "not a replay or corpus file")
			os.Exit(2)
		}
		if *prop == "" {
			*prop = wc.Prop
		}
		os.Exit(parentMain(*prop, *tier, wc.Seed, *out, &wc))
	case "list":
		ids := make([]string, 0, len(props))
		for id := range props {
			ids = append(ids, id)
		}
		sort.Strings(ids)
		for _, id := range ids {
			fmt.Println(id)
		}
	default:
		fmt.Fprintln(os.Stderr, "unknown command")
		os.Exit(2)
	}
}
