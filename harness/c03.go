package main

import (
	"encoding/json"
	"fmt"
	"strings"
	"time"

	"github.com/crillab/gophersat/solver"
)

// OptCase: constraints + linear cost function over distinct variables (C03, C14, C20).
type OptCase struct {
	Constrs  []Constr `json:"constrs"`
	CostLits []int    `json:"costlits"` // nil = no cost function
	CostW    []int    `json:"costw"`    // nil = all 1
	NoCost   bool     `json:"nocost"`
	CP       bool     `json:"cp,omitempty"`
	AMO      bool     `json:"amo,omitempty"`
	ChanCap  int      `json:"chancap,omitempty"`
	Delays   []int    `json:"delays,omitempty"` // consumer delays in microseconds (C20)
}

func genCost(r *Rng, n int, allowNeg bool) (lits, ws []int) {
	k := r.Range(1, n)
	lits = randClauseDistinct(r, n, k)
	if r.Chance(1, 6) {
		return lits, nil // nil weights: all 1
	}
	ws = make([]int, k)
	for i := range ws {
		ws[i] = r.Range(0, 6)
		if r.Chance(1, 10) {
			ws[i] = r.Range(10, 40)
		}
		if allowNeg && r.Chance(1, 3) {
			ws[i] = -r.Range(1, 6)
		}
	}
	return lits, ws
}

func genOptCase(r *Rng, tier string) OptCase {
	var cc ConstrCase
	if r.Chance(1, 4) {
		cc = genConstrCase(r, tier)
	} else {
		cc = genSearchyCase(r, tier)
	}
	for len(cc.Constrs) > 8 && r.Chance(2, 3) { // keep many instances satisfiable
		cc.Constrs = cc.Constrs[:len(cc.Constrs)-2]
	}
	c := OptCase{Constrs: cc.Constrs}
	n := maxVarConstrs(cc.Constrs)
	if n == 0 || r.Chance(1, 15) {
		c.NoCost = true
		return c
	}
	c.CostLits, c.CostW = genCost(r, n, r.Chance(1, 3))
	// declare every variable even if GtEq drops its zero-weight term (a trivially true
	// constraint still declares its variables in ParsePBConstrs)
	c.Constrs = append(c.Constrs, Constr{Kind: "atleast", Lits: []int{n}, N: 0})
	return c
}

func (c *OptCase) problem() *solver.Problem {
	var pc []solver.PBConstr
	for _, k := range c.Constrs {
		pc = append(pc, k.pb()...)
	}
	pb := solver.ParsePBConstrs(pc)
	if !c.NoCost {
		lits := make([]solver.Lit, len(c.CostLits))
		for i, l := range c.CostLits {
			lits[i] = solver.IntToLit(int32(l))
		}
		var ws []int
		if c.CostW != nil {
			ws = append([]int{}, c.CostW...)
		}
		pb.SetCostFunc(lits, ws)
	}
	return pb
}

func (c *OptCase) costTerms() (coefs, lits []int) {
	if c.NoCost {
		return nil, nil
	}
	lits = c.CostLits
	coefs = c.CostW
	if coefs == nil {
		coefs = make([]int, len(lits))
		for i := range coefs {
			coefs[i] = 1
		}
	}
	return coefs, lits
}

func (c *OptCase) hasNegCost() bool {
	for _, w := range c.CostW {
		if w < 0 {
			return true
		}
	}
	return false
}

func init() {
	register(&Prop{
		ID: "C03",
		Rule: "constraint sets as for C02 (through ParsePBConstrs) with a cost function over 1..n distinct variables, literals of either polarity, weights nil (all 1), 0..6, occasionally 10..40, and, in 1 case in 3, negative for a third of the terms; 1 case in 15 has no cost function. Each case is optimised with Solver.Optimal (unbuffered result channel, all results collected) and, on a fresh solver, with Solver.Minimize; both are judged by the verified exhaustive optimum (GS.bruteOpt); every bound constraint Optimal appends (hook at the start of AppendClause) is compared term for term with the one the Lean mirror GS.OptimS.goBoundS builds for the cost just streamed. Non-trivial = satisfiable with a cost function and at least one improvement step or search; distinct = distinct (constraints, cost function).",
		Gens:    []Gen{{Name: "opt", Weight: 1, Make: func(r *Rng, tier string) interface{} { return genOptCase(r, tier) }}},
		Run:     runOptCase,
		Cases:   defCases(4000, 100000),
		Timeout: defDur(10*time.Second, 60*time.Second),
		Wall:    defDur(50*time.Second, 12*time.Minute),
	})
}

type optRun struct {
	res    solver.Result
	live   []solver.Result // the delivered values themselves (models not copied)
	stream []solver.Result
	closed bool
}

// runOptimal calls Optimal with a result channel of the given capacity and collects the stream.
func runOptimal(s solver.Interface, capacity int, delays []int) optRun {
	ch := make(chan solver.Result, capacity)
	done := make(chan optRun)
	go func() {
		var r optRun
		i := 0
		for x := range ch {
			cp := x // keep what was delivered at the time it was delivered: a consumer owns a received result
			cp.Model = append([]bool(nil), x.Model...)
			r.stream = append(r.stream, cp)
			r.live = append(r.live, x)
			if i < len(delays) && delays[i] > 0 {
				time.Sleep(time.Duration(delays[i]) * time.Microsecond)
			}
			i++
		}
		r.closed = true
		done <- r
	}()
	res := s.Optimal(ch, nil)
	r := <-done
	r.res = res
	return r
}

func runOptCase(o *Oracle, d json.RawMessage, oc *Outcome) {
	var c OptCase
	if err := json.Unmarshal(d, &c); err != nil {
		oc.Fail("crash", "harness", "", "bad case: %v", err)
		return
	}
	oc.Key = keyOf(c)
	oc.Sample = fmt.Sprintf("min %v*%v s.t. %s", c.CostW, c.CostLits, constrsString(c.Constrs))
	if c.hasNegCost() {
		oc.Tag("negative-cost-coefficient")
	}
	if c.CostW == nil && !c.NoCost {
		oc.Tag("nil-weights")
	}
	sem := semAll(c.Constrs)
	n := maxVarConstrs(c.Constrs)
	coefs, lits := c.costTerms()
	sat, best := o.Opt(n, sem, coefs, lits)
	if sat {
		oc.Tag("satisfiable")
	} else {
		oc.Tag("unsatisfiable")
	}
	judge := func(entry string, status solver.Status, cost int, model []bool) {
		if status == solver.Unsat {
			if sat {
				oc.Fail("spec", "verdict", entry, "Unsat reported, constraints are satisfiable (optimum %d)", best)
			}
			return
		}
		if status != solver.Sat {
			oc.Fail("spec", "never-indet", entry, "status %v", status)
			return
		}
		if !sat {
			oc.Fail("spec", "verdict", entry, "Sat reported, constraints are unsatisfiable")
			return
		}
		m := model
		if len(m) < n {
			m = append(append([]bool{}, m...), make([]bool, n-len(m))...)
		}
		if a := o.Eval(len(m), sem, m); a != "ok" {
			oc.Fail("spec", "model-satisfies-input", entry, "final model %v: %s", model, a)
		}
		if real := o.Cost(coefs, lits, m); real != cost {
			oc.Fail("spec", "cost-is-cost-of-model", entry, "reported cost %d, model %v costs %d", cost, model, real)
		}
		if cost != best {
			oc.Fail("spec", "optimum", entry, "reported cost %d, true minimum is %d", cost, best)
		}
	}
	// the constraints go through ParsePBConstrs: its parse-time simplification is tied to its Lean
	// mirror here too (theorem parsePBConstrs_equiv)
	frontEndDiff(o, oc, &ConstrCase{Front: "pb", Constrs: c.Constrs})
	// entry point 1: Optimal
	s1 := solver.New(c.problem())
	s1.CuttingPlanes = c.CP
	obs := watchAppends(s1)
	sw1 := &stableWatch{s: s1, entry: "solver.Optimal"}
	sw1.check(oc, "before the call")
	nApp1 := 0
	s1.VerifSetAppendedHook(func() {
		if nApp1++; nApp1 <= 40 {
			sw1.check(oc, fmt.Sprintf("after AppendClause %d", nApp1))
		}
	})
	an1 := sampleAnalyses(s1, 2, 40, 4)
	r1 := runOptimal(s1, 0, nil)
	s1.VerifSetAppendHook(nil)
	s1.VerifSetAppendedHook(nil)
	sw1.check(oc, "after the call")
	s1.VerifSetAnalyzeHook(nil)
	if !c.CP {
		// conflict analysis with the bound constraints among the antecedents (GS.Analyze, analyze_sound_pb)
		analysisMirror(o, oc, *an1, "solver.Optimal")
	}
	judge("solver.Optimal", r1.res.Status, r1.res.Weight, r1.res.Model)
	boundMirror(o, oc, "solver.Optimal", *obs, r1, coefs, lits)
	if len(r1.stream) > 1 {
		oc.Tag("improvement-steps>0")
		oc.Nontrivial = true
	}
	if s1.Stats.NbConflicts > 0 {
		oc.Nontrivial = true
	}
	checkStream(o, oc, "solver.Optimal", r1, n, sem, coefs, lits)
	// entry point 2: Minimize
	s2 := solver.New(c.problem())
	s2.CuttingPlanes = c.CP
	obs2 := watchAppends(s2)
	cost2 := s2.Minimize()
	s2.VerifSetAppendHook(nil)
	boundMirrorMinimize(o, oc, *obs2, coefs, lits, cost2)
	// once more with the prologue of every AppendClause tied to its mirror
	s3 := solver.New(c.problem())
	s3.CuttingPlanes = c.CP
	stopAppends := mirrorAppends(o, oc, s3, "solver.Minimize")
	if cost3 := s3.Minimize(); cost3 != cost2 {
		oc.Fail("spec", "entry-points-agree", "solver.Minimize", "two runs on the same problem: %d then %d", cost2, cost3)
	}
	stopAppends()
	if cost2 == -1 && !(sat && best == -1) {
		judge("solver.Minimize", solver.Unsat, -1, nil)
	} else {
		judge("solver.Minimize", solver.Sat, cost2, s2.Model())
	}
	// Minimize answers -1 both for Unsat and for an optimum of -1 (GS.OptimS.minimizeResult_ambiguous)
	if (r1.res.Status == solver.Unsat && cost2 != -1) || (r1.res.Status == solver.Sat && r1.res.Weight != cost2) {
		oc.Fail("spec", "entry-points-agree", "solver.Optimal/Minimize", "Optimal: %v cost %d; Minimize: %d", r1.res.Status, r1.res.Weight, cost2)
	}
}

// checkStream checks the C20 part of an optimisation run: every streamed result is a model
// with its true cost, costs strictly decrease, the last one equals the returned one, the
// channel was closed.
func checkStream(o *Oracle, oc *Outcome, entry string, r optRun, n int, sem []Lin, coefs, lits []int) {
	if !r.closed {
		oc.Fail("spec", "channel-closed", entry, "result channel not closed on return")
	}
	// the observed sequence (values in order, close seen by the consumer, returned value) must be
	// a trace of the verified protocol model GS.Chan.producerSystem (for any capacity a send
	// immediately followed by its receive is a valid linearisation)
	{
		id := func(x solver.Result) string { return fmt.Sprintf("%v/%d/%v", x.Status, x.Weight, x.Model) }
		ids := map[string]int{}
		var evs []string
		for _, x := range r.stream {
			k, ok := ids[id(x)]
			if !ok {
				k = len(ids) + 1
				ids[id(x)] = k
			}
			evs = append(evs, fmt.Sprintf("1 %d", k), fmt.Sprintf("2 %d", k))
		}
		if r.closed {
			evs = append(evs, "3", "4")
		}
		if k, ok := ids[id(r.res)]; ok {
			evs = append(evs, fmt.Sprintf("5 %d", k))
		} else {
			evs = append(evs, fmt.Sprintf("5 %d", len(ids)+1))
		}
		oc.Corr++
		if a := o.Ask("chantrace 0 | " + strings.Join(evs, " ; ")); a != "1" {
			oc.Fail("corr", "channel-protocol-model", entry, "the observed event sequence [%s] is not a trace of GS.Chan.producerSystem (%s)", strings.Join(evs, " ; "), a)
		}
	}
	if len(r.stream) == 0 {
		oc.Fail("spec", "stream-last-is-result", entry, "no result was sent on the channel")
		return
	}
	for i := range r.live { // a delivered model must not change after it was delivered
		if fmt.Sprint(r.live[i].Model) != fmt.Sprint(r.stream[i].Model) {
			oc.Fail("spec", "stream-valid", entry, "the model of streamed result %d changed after delivery: %v became %v", i, r.stream[i].Model, r.live[i].Model)
			break
		}
	}
	last := r.stream[len(r.stream)-1]
	if last.Status != r.res.Status || last.Weight != r.res.Weight || fmt.Sprint(last.Model) != fmt.Sprint(r.res.Model) {
		oc.Fail("spec", "stream-last-is-result", entry, "last streamed %v/%d differs from returned %v/%d", last.Status, last.Weight, r.res.Status, r.res.Weight)
	}
	for i, x := range r.stream {
		if x.Status != solver.Sat {
			if i != len(r.stream)-1 || len(r.stream) != 1 {
				oc.Fail("spec", "stream-valid", entry, "streamed result %d has status %v", i, x.Status)
			}
			continue
		}
		m := x.Model
		if len(m) < n {
			m = append(append([]bool{}, m...), make([]bool, n-len(m))...)
		}
		if a := o.Eval(len(m), sem, m); a != "ok" {
			oc.Fail("spec", "stream-valid", entry, "streamed result %d is not a model: %s", i, a)
		}
		if real := o.Cost(coefs, lits, m); real != x.Weight {
			oc.Fail("spec", "stream-valid", entry, "streamed result %d: reported cost %d, true cost %d", i, x.Weight, real)
		}
		if i > 0 && r.stream[i-1].Status == solver.Sat && x.Weight >= r.stream[i-1].Weight {
			oc.Fail("spec", "stream-decreasing", entry, "costs %d then %d", r.stream[i-1].Weight, x.Weight)
		}
	}
}

// appendObs is what the AppendClause hook reports: the top-level literals at that point and the
// constraint as it was handed over.
type appendObs struct {
	top []int
	c   solver.PBConstr
	pb  bool
}

func watchAppends(s *solver.Solver) *[]appendObs {
	var obs []appendObs
	s.VerifSetAppendHook(func(top []int, c solver.PBConstr, pb bool) {
		obs = append(obs, appendObs{append([]int{}, top...), c, pb})
	})
	return &obs
}

// boundMirror ties the optimisation loop to its Lean mirror GS.OptimS (theorems boundS_sem,
// minimizeS_optimal): the k-th constraint Optimal appends must be, term for term, the bound
// constraint goBoundS f c_k the mirror builds for the k-th streamed cost (Go's sort is not stable:
// terms are compared as multisets), and no append happens after the last result.
func boundMirror(o *Oracle, oc *Outcome, entry string, obs []appendObs, r optRun, coefs, lits []int) {
	var costs []int
	for _, x := range r.stream {
		if x.Status == solver.Sat {
			costs = append(costs, x.Weight)
		}
	}
	if len(obs) > len(costs) || (len(costs) > 0 && len(obs) < len(costs)-1) {
		oc.Fail("corr", "bound-mirror", entry, "%d constraints appended for %d streamed results", len(obs), len(costs))
		return
	}
	terms := make([]int, 0, 2*len(lits))
	for i := range lits {
		terms = append(terms, coefs[i], lits[i])
	}
	for k, ob := range obs {
		a := o.Ask(fmt.Sprintf("gobounds %s | %d", encInts(terms), costs[k]))
		want, err := parseIntsLine(a)
		oc.Corr++
		if err != nil || len(want)%2 != 1 {
			oc.Fail("corr", "bound-mirror", entry, "mirror answered %q", a)
			return
		}
		type term struct{ w, l int }
		ms := map[term]int{}
		for i := 1; i+1 < len(want); i += 2 {
			ms[term{want[i], want[i+1]}]++
		}
		ok := ob.pb && ob.c.AtLeast == want[0] && len(ob.c.Lits) == (len(want)-1)/2
		for i := range ob.c.Lits {
			ms[term{ob.c.Weights[i], ob.c.Lits[i]}]--
		}
		for _, v := range ms {
			if v != 0 {
				ok = false
			}
		}
		if !ok {
			oc.Fail("corr", "bound-mirror", entry, "after cost %d Go appended %v*%v >= %d, the mirror GS.OptimS.goBoundS gives [degree c l ...] %v", costs[k], ob.c.Weights, ob.c.Lits, ob.c.AtLeast, want)
			return
		}
	}
	if len(obs) > 0 {
		oc.Tag("bound-mirror-compared")
	}
}

// boundMirrorMinimize: Minimize streams nothing, so the cost each bound constraint was built for is
// read back from its degree (degree = posSum - cost + 1, GS.OptimS.goBoundS); the constraint must
// then be the mirror's for that cost, the costs must strictly decrease (streamS_strictly_decreasing)
// and stay above the returned one.
func boundMirrorMinimize(o *Oracle, oc *Outcome, obs []appendObs, coefs, lits []int, result int) {
	if len(obs) == 0 {
		return
	}
	entry := "solver.Minimize"
	terms := make([]int, 0, 2*len(lits))
	for i := range lits {
		terms = append(terms, coefs[i], lits[i])
	}
	mm, err := parseIntsLine(o.Ask("costbounds " + encInts(terms)))
	if err != nil || len(mm) != 2 {
		oc.Fail("corr", "bound-mirror", entry, "mirror answered %v to costbounds", mm)
		return
	}
	posSum := mm[1]
	prev := 0
	for k, ob := range obs {
		cost := posSum - ob.c.AtLeast + 1
		if k > 0 && cost >= prev {
			oc.Fail("corr", "bound-mirror", entry, "bound constraints %d and %d are for costs %d then %d: not decreasing", k-1, k, prev, cost)
			return
		}
		prev = cost
		if cost < result && !(result == -1) {
			oc.Fail("corr", "bound-mirror", entry, "bound constraint %d is for cost %d, below the returned cost %d", k, cost, result)
			return
		}
		want, err := parseIntsLine(o.Ask(fmt.Sprintf("gobounds %s | %d", encInts(terms), cost)))
		oc.Corr++
		if err != nil || len(want)%2 != 1 {
			oc.Fail("corr", "bound-mirror", entry, "mirror answered %v", want)
			return
		}
		type term struct{ w, l int }
		ms := map[term]int{}
		for i := 1; i+1 < len(want); i += 2 {
			ms[term{want[i], want[i+1]}]++
		}
		ok := ob.pb && ob.c.AtLeast == want[0] && len(ob.c.Lits) == (len(want)-1)/2
		for i := range ob.c.Lits {
			ms[term{ob.c.Weights[i], ob.c.Lits[i]}]--
		}
		for _, v := range ms {
			if v != 0 {
				ok = false
			}
		}
		if !ok {
			oc.Fail("corr", "bound-mirror", entry, "bound constraint %d: Go appended %v*%v >= %d, the mirror GS.OptimS.goBoundS gives [degree c l ...] %v", k, ob.c.Weights, ob.c.Lits, ob.c.AtLeast, want)
			return
		}
	}
}
