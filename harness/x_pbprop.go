package main

import (
	"encoding/json"
	"fmt"
	"sort"
	"strings"
	"time"

	"github.com/crillab/gophersat/solver"
)

// Differential tie between the propagation of one cardinality / pseudo-boolean constraint in
// /repo/solver/watcher.go (simplifyCardConstr, simplifyCardAMOConstr, simplifyPseudoBool, swapFalse,
// updateWatchPB, …, through solver.VerifSimplifyConstr) and the Lean mirror GS.PbProp (driver ops
// `pbprop`, `pbwatch`, /verif/lean/GS/OpsPbProp.lean).

type pbPropCase struct {
	Seed    uint64 `json:"seed"`
	Witness string `json:"witness,omitempty"` // replay of a witness of GS.Props.C02_PbProp instead of a random walk
}

// Witnesses of the hypotheses of GS.Props.C02_PbProp, replayed on the Go code.
var pbPropWitnesses = []string{"dup-variable", "zero-weight", "amo-no-false"}

func init() {
	register(&Prop{
		ID:      "XPBPROP",
		Rule:    "scratch: one random cardinality / PB constraint over 2..8 distinct variables, built by the real front end, then a random walk of bindings; after each binding the simplify function propagate would call is run through solver.VerifSimplifyConstr and compared field by field with the Lean mirror GS.PbProp (op pbprop).",
		Gens: []Gen{{Name: "walk", Weight: 1, Make: func(r *Rng, tier string) interface{} { return pbPropCase{Seed: r.Next()} }},
			{Name: "witness", Enum: func(tier string) []interface{} {
				var res []interface{}
				for _, w := range pbPropWitnesses {
					res = append(res, pbPropCase{Witness: w})
				}
				return res
			}}},
		Run:     runPbPropCase,
		Cases:   defCases(10000, 100000),
		Timeout: defDur(10*time.Second, 60*time.Second),
		Wall:    defDur(10*time.Minute, 60*time.Minute),
	})
}

func runPbPropCase(o *Oracle, d json.RawMessage, oc *Outcome) {
	var c pbPropCase
	if err := json.Unmarshal(d, &c); err != nil {
		oc.Fail("crash", "harness", "", "bad case: %v", err)
		return
	}
	oc.Key = keyOf(c)
	oc.Sample = fmt.Sprintf("seed=%d witness=%s", c.Seed, c.Witness)
	if c.Witness != "" {
		replayPbPropWitness(o, oc, c.Witness)
		return
	}
	tiePbProp(o, oc, NewRng(c.Seed))
}

func pbFlags(member []int) []bool {
	res := make([]bool, len(member))
	for i, m := range member {
		res[i] = m > 0
	}
	return res
}

func pbStateString(st solver.VerifPbPropState) string {
	return fmt.Sprintf("kind=%s lits=%v weights=%v card=%d member=%v flags=%v model=%v", st.Kind, st.Lits, st.Weights, st.Card, st.Member, st.Flags, st.Model)
}

// pbNetEdits turns the mirror's ordered edit list ("0 lit" remove / "1 lit" add) into a net count per literal.
func pbNetEdits(field string) (map[int]int, int, bool) {
	net := map[int]int{}
	n := 0
	field = strings.TrimSpace(field)
	if field == "" {
		return net, 0, true
	}
	for _, g := range strings.Split(field, ";") {
		xs, err := parseIntsLine(strings.TrimSpace(g))
		if err != nil || len(xs) != 2 || (xs[0] != 0 && xs[0] != 1) {
			return nil, 0, false
		}
		if xs[0] == 1 {
			net[xs[1]]++
		} else {
			net[xs[1]]--
		}
		n++
	}
	return net, n, true
}

func tiePbProp(o *Oracle, oc *Outcome, r *Rng) {
	entry := "solver.(*Solver).propagate"
	// ---- the constraint
	n := r.Range(2, 8)
	univ := n + r.Range(0, 2)
	vars := r.Perm(univ)[:n]
	lits := make([]int, n)
	for i, v := range vars {
		lits[i] = v + 1
		if r.Bool() {
			lits[i] = -lits[i]
		}
	}
	kindSel := r.Intn(10)
	var pb *solver.Problem
	var gen string
	forceAMO := false
	switch {
	case kindSel < 4: // plain cardinality constraint (no pbData)
		card := 1
		if n >= 3 {
			if r.Chance(1, 3) {
				card = n - 1 // at-most-one shape
			} else {
				card = r.Range(2, n-1)
			}
		} else if r.Bool() {
			card = 2
		}
		if card == n-1 && card >= 2 {
			oc.Tag("gen:card-amo-shape")
			if r.Chance(1, 3) {
				forceAMO = true
			}
		} else {
			oc.Tag("gen:card")
		}
		gen = fmt.Sprintf("ParseCardConstrs lits=%v atleast=%d", lits, card)
		pb = solver.ParseCardConstrs([]solver.CardConstr{{Lits: append([]int{}, lits...), AtLeast: card}})
	case kindSel < 6: // cardinality constraint through the PB front end (weights nil -> all 1, pbData set)
		card := r.Range(1, n)
		oc.Tag("gen:pb-unweighted")
		gen = fmt.Sprintf("ParsePBConstrs lits=%v weights=nil atleast=%d", lits, card)
		pb = solver.ParsePBConstrs([]solver.PBConstr{{Lits: append([]int{}, lits...), AtLeast: card}})
	default:
		ws := make([]int, n)
		sum := 0
		maxw := r.Range(1, 6)
		for i := range ws {
			ws[i] = r.Range(1, maxw)
			sum += ws[i]
		}
		deg := 1
		if sum > 2 {
			deg = r.Range(1, sum-1)
		}
		oc.Tag("gen:pb-weighted")
		gen = fmt.Sprintf("ParsePBConstrs lits=%v weights=%v atleast=%d", lits, ws, deg)
		pb = solver.ParsePBConstrs([]solver.PBConstr{{Lits: append([]int{}, lits...), Weights: ws, AtLeast: deg}})
	}
	if pb.Status != solver.Indet {
		oc.Tag("skip:frontend-decided")
		return
	}
	s := solver.New(pb)
	if s.VerifNbOrig() != 1 {
		oc.Tag("skip:frontend-no-constraint")
		return
	}
	st0 := s.VerifPbPropSnapshot(0)
	if st0.Kind == "none" {
		oc.Tag("skip:frontend-clause") // card 1 (a clause): lives in wlist / wlistBin
		return
	}
	if len(st0.Lits) != n {
		oc.Tag("frontend-shrunk") // simplifyPB removed literals (removeLit keeps pbData.watched at its old length)
	}
	oc.Tag("kind:" + st0.Kind)
	oc.Nontrivial = true

	// ---- initial watches against watchPB / watchClause
	{
		q := fmt.Sprintf("pbwatch %s | %s | %s | %d", st0.Kind, encInts(st0.Lits), encInts(st0.Weights), st0.Card)
		ans := o.Ask(q)
		oc.Corr++
		list := "0"
		if st0.Kind == "amo" {
			list = "1"
		}
		want := "ok " + list + " | " + encBools(pbFlags(st0.Member))
		if st0.Kind == "amo" {
			want = "ok " + list + " | " + encBools(pbFlags(st0.AMO))
		}
		if !strings.HasPrefix(ans, want+" |") {
			oc.Fail("corr", "pbprop-mirror", "solver.(*Solver).watchClause", "Go watches %s, the Lean mirror answers %q on %s (%s)", want, ans, q, gen)
			return
		}
		if st0.Flags != nil && (len(st0.Flags) < len(st0.Member) || encBools(st0.Flags[:len(st0.Member)]) != encBools(pbFlags(st0.Member))) {
			oc.Fail("corr", "pbprop-consistency", "solver.(*Solver).watchPB", "pbData.watched %v differs from the membership %v (%s)", st0.Flags, st0.Member, gen)
		}
	}

	// ---- the walk
	cur := st0
	order := r.Perm(len(cur.Lits))
	steps := r.Range(0, len(cur.Lits))
	if r.Chance(1, 3) {
		steps = len(cur.Lits) // walks that reach a total assignment
	}
	falseBias := r.Range(1, 3) // out of 4: probability of falsifying the literal
	lvl := 1
	varsOf := append([]int{}, cur.Lits...) // the variables to bind, by their literal at the start
	for k := 0; k < steps; k++ {
		target := varsOf[order[k]]
		v := absInt(target)
		model := s.VerifModelLevels()
		if model[v-1] != 0 {
			oc.Tag("walk:already-bound")
			continue
		}
		lvl++
		bindLit := target
		if r.Chance(falseBias, 4) {
			bindLit = -target
		}
		s.VerifBind(bindLit, lvl)
		before := s.VerifPbPropSnapshot(0)
		// does the negation of the bound literal watch the constraint?
		watching := false
		for i, l := range before.Lits {
			if l == -bindLit && (before.Member[i] > 0 || before.AMO[i] > 0) {
				watching = true
			}
		}
		if r.Chance(1, 5) {
			oc.Tag("walk:nocall") // leave the binding unprocessed: the next call sees several new bindings (conflicts)
			continue
		}
		if !watching {
			if r.Bool() {
				oc.Tag("walk:unwatched-nocall")
				continue // as propagate: the constraint is not visited
			}
			oc.Tag("call:unwatched")
		} else {
			oc.Tag("call:watched")
		}
		kind := ""
		if forceAMO {
			kind = "amo"
		}
		res := s.VerifSimplifyConstrAs(0, lvl, kind)
		bf := res.Before
		watched := pbFlags(bf.Member)
		q := fmt.Sprintf("pbprop %s | %s | %s | %d | %s | %s | %d", res.Kind, encInts(bf.Lits), encInts(bf.Weights), bf.Card,
			encBools(watched), encInts(bf.Model), lvl)
		ans := o.Ask(q)
		oc.Corr++
		oc.Tag("fn:" + res.Kind)
		if res.Panicked {
			oc.Tag("go-panic")
			if ans != "panic" {
				oc.Fail("corr", "pbprop-mirror", entry, "Go panics (%s), the Lean mirror answers %q on %s (%s)", res.PanicMsg, ans, q, gen)
			}
			return
		}
		af := res.After
		resBit := "0"
		if res.Res {
			resBit = "1"
		}
		want := fmt.Sprintf("ok %s | %s | %s | %s | %s |", resBit, encInts(res.Propagated), encInts(af.Lits), encInts(af.Weights), encBools(pbFlags(af.Member)))
		if !strings.HasPrefix(ans, want) {
			oc.Fail("corr", "pbprop-mirror", entry, "Go gives %q, the Lean mirror %q on %s (%s)", want, ans, q, gen)
			return
		}
		// watch-list edits: net effect per literal
		fields := strings.Split(ans, "|")
		net, nEdits, ok := pbNetEdits(fields[len(fields)-1])
		if !ok || len(fields) != 6 {
			oc.Fail("corr", "pbprop-mirror", entry, "unreadable answer %q on %s", ans, q)
			return
		}
		goNet := map[int]int{}
		for i, l := range bf.Lits {
			goNet[l] -= bf.Member[i]
		}
		for i, l := range af.Lits {
			goNet[l] += af.Member[i]
		}
		keys := map[int]bool{}
		for l := range net {
			keys[l] = true
		}
		for l := range goNet {
			keys[l] = true
		}
		var ks []int
		for l := range keys {
			ks = append(ks, l)
		}
		sort.Ints(ks)
		for _, l := range ks {
			if net[l] != goNet[l] {
				oc.Fail("corr", "pbprop-mirror", entry, "watch lists: Go changes the membership under literal %d by %d, the Lean mirror by %d (answer %q) on %s (%s)", l, goNet[l], net[l], ans, q, gen)
				return
			}
		}
		oc.Corr++
		// consistency of the flags, no stray membership
		sumM := 0
		for _, m := range af.Member {
			sumM += m
			if m > 1 {
				oc.Fail("corr", "pbprop-consistency", entry, "constraint watched %d times under one literal after %s (%s)", m, q, gen)
			}
		}
		if sumM != af.Total {
			oc.Fail("corr", "pbprop-consistency", entry, "the constraint is in %d lists of wlistPb but only %d of them belong to its literals, after %s (%s)", af.Total, sumM, q, gen)
		}
		if af.Flags != nil && (len(af.Flags) < len(af.Member) || encBools(af.Flags[:len(af.Member)]) != encBools(pbFlags(af.Member))) {
			oc.Fail("corr", "pbprop-consistency", entry, "pbData.watched %v differs from the membership %v after %s (%s)", af.Flags, af.Member, q, gen)
		}
		// tags
		if !res.Res {
			oc.Tag("conflict")
		}
		if len(res.Propagated) > 0 {
			oc.Tag("propagated")
		}
		if encInts(bf.Lits) != encInts(af.Lits) {
			oc.Tag("swapped")
		}
		if nEdits > 0 {
			oc.Tag("watch-edits")
		}
		// completeness at a total assignment (pb_true_of_total / card_true_of_total), checked on the Go side too
		total := true
		sumTrue := 0
		for i, l := range af.Lits {
			m := af.Model[absInt(l)-1]
			if m == 0 {
				total = false
			} else if (m > 0) == (l > 0) {
				sumTrue += af.Weights[i]
			}
		}
		if total {
			oc.Tag("total")
			oc.Corr++
			if res.Res != (sumTrue >= af.Card) && !forceAMO {
				oc.Fail("spec", "pbprop-total", entry, "all literals bound, weight of the true ones %d, degree %d, but the function returned %v after %s (%s)", sumTrue, af.Card, res.Res, q, gen)
			}
		}
		if !res.Res {
			return
		}
	}
}

// replayPbPropWitness replays on the Go code a witness of a hypothesis of GS.Props.C02_PbProp
// (card_panics_on_duplicate_variable, pb_zero_weight_not_forced, amo_unsound_without_false) and checks
// that the Go code does what the Lean mirror says.
func replayPbPropWitness(o *Oracle, oc *Outcome, w string) {
	entry := "solver.(*Solver).propagate"
	var pb *solver.Problem
	var binds []int
	kind := ""
	switch w {
	case "dup-variable": // x1 + ¬x1 + x2 + x3 >= 3, x3 false: simplifyCardConstr runs past the end of the constraint
		pb = solver.ParseCardConstrs([]solver.CardConstr{{Lits: []int{1, -1, 2, 3}, AtLeast: 3}})
		binds = []int{-3}
	case "zero-weight": // x1 + x2 + 0 x3 >= 1, x1 false: propagateAll propagates x3 (not forced)
		pb = solver.ParsePBConstrs([]solver.PBConstr{{Lits: []int{1, 2, 3}, Weights: []int{1, 1, 0}, AtLeast: 1}})
		binds = []int{-1}
	case "amo-no-false": // x1 + x2 + x3 >= 2, nothing bound: simplifyCardAMOConstr propagates all three
		pb = solver.ParseCardConstrs([]solver.CardConstr{{Lits: []int{1, 2, 3}, AtLeast: 2}})
		kind = "amo"
	}
	if pb.Status != solver.Indet {
		oc.Tag("witness:" + w + ":frontend-decided")
		return
	}
	s := solver.New(pb)
	if s.VerifNbOrig() != 1 {
		oc.Tag("witness:" + w + ":frontend-no-constraint")
		return
	}
	oc.Nontrivial = true
	lvl := 1
	for _, b := range binds {
		lvl++
		s.VerifBind(b, lvl)
	}
	res := s.VerifSimplifyConstrAs(0, lvl+1, kind)
	bf := res.Before
	q := fmt.Sprintf("pbprop %s | %s | %s | %d | %s | %s | %d", res.Kind, encInts(bf.Lits), encInts(bf.Weights), bf.Card,
		encBools(pbFlags(bf.Member)), encInts(bf.Model), lvl+1)
	ans := o.Ask(q)
	oc.Corr++
	got := "panic"
	if !res.Panicked {
		bit := "0"
		if res.Res {
			bit = "1"
		}
		got = fmt.Sprintf("ok %s | %s |", bit, encInts(res.Propagated))
	}
	if !strings.HasPrefix(ans, got) {
		oc.Fail("corr", "pbprop-mirror", entry, "witness %s: Go gives %q, the Lean mirror %q on %s", w, got, ans, q)
		return
	}
	want := map[string]string{"dup-variable": "panic", "zero-weight": "ok 1 | 2 3 |", "amo-no-false": "ok 1 | 1 2 3 |"}[w]
	if got == want {
		oc.Tag("witness:" + w + ":confirmed " + got + " " + res.PanicMsg)
	} else {
		oc.Tag("witness:" + w + ":not-reproduced " + got)
	}
}
