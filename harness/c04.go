package main

import (
	"encoding/json"
	"fmt"
	"sort"
	"strings"
	"time"

	"github.com/crillab/gophersat/maxsat"
	"github.com/crillab/gophersat/solver"
)

// MSConstr is a MaxSAT constraint as the user writes it (Weight 0 = hard).
type MSConstr struct {
	Lits    []int `json:"l"`
	Coeffs  []int `json:"c,omitempty"`
	AtLeast int   `json:"k"`
	Weight  int   `json:"w"`
}

func (c MSConstr) lin() Lin {
	co := c.Coeffs
	if co == nil {
		co = make([]int, len(c.Lits))
		for i := range co {
			co[i] = 1
		}
	}
	return Lin{Coefs: append([]int{}, co...), Lits: append([]int{}, c.Lits...), Degree: c.AtLeast}
}

type MaxSatCase struct {
	Entry   string     `json:"entry"` // api | wcnf
	Constrs []MSConstr `json:"constrs"`
	NbVars  int        `json:"nbvars"`        // wcnf: declared variables
	Top     int        `json:"top,omitempty"` // wcnf: top weight (0 = absent)
	Text    string     `json:"text,omitempty"`
	ChanCap int        `json:"chancap,omitempty"`
	Delays  []int      `json:"delays,omitempty"`
}

func splitHardSoft(cs []MSConstr) (hard []Lin, soft []SoftLin) {
	for _, c := range cs {
		if c.Weight == 0 {
			hard = append(hard, c.lin())
		} else {
			soft = append(soft, SoftLin{Weight: c.Weight, C: c.lin()})
		}
	}
	return
}

func genMaxSatAPI(r *Rng, tier string) MaxSatCase {
	n := r.Range(1, 8)
	m := r.Range(1, 2*n+3)
	cs := make([]MSConstr, 0, m)
	for i := 0; i < m; i++ {
		k := r.Range(1, min2(n, 4))
		c := MSConstr{Lits: randClauseDistinct(r, n, k), AtLeast: 1}
		switch r.Intn(6) {
		case 0, 1, 2: // clause
		case 3: // cardinality (implicit unit coefficients)
			c.AtLeast = r.Range(1, k)
			if r.Chance(1, 10) {
				c.AtLeast = k + 1
			}
		default: // PB
			c.Coeffs = make([]int, k)
			sum := 0
			lo := 0
			neg := r.Chance(1, 4)  // coefficients of either sign
			zero := r.Chance(1, 5) // and null ones
			for j := range c.Coeffs {
				c.Coeffs[j] = r.Range(1, 5)
				if zero && r.Chance(1, 3) {
					c.Coeffs[j] = 0
				} else if neg && r.Chance(1, 2) {
					c.Coeffs[j] = -c.Coeffs[j]
					lo += c.Coeffs[j]
				} else {
					sum += c.Coeffs[j]
				}
			}
			if sum < lo+1 {
				c.AtLeast = lo + 1
			} else {
				c.AtLeast = r.Range(lo+1, sum)
			}
			if r.Chance(1, 12) {
				c.AtLeast = sum + 1
			} else if r.Chance(1, 12) {
				c.AtLeast = lo - r.Range(0, 2) // holds whatever the assignment
			}
		}
		if r.Chance(3, 5) {
			c.Weight = r.Range(1, 4)
			if r.Chance(1, 8) {
				c.Weight = r.Range(5, 30)
			}
		}
		cs = append(cs, c)
	}
	if r.Chance(1, 8) { // a last constraint that always holds, over a variable nothing else mentions: still one of the user's variables
		c := MSConstr{Lits: []int{-(n + 1)}, Coeffs: []int{-r.Range(1, 3)}, AtLeast: -3}
		if r.Bool() {
			c = MSConstr{Lits: []int{n + 1, -(n + 2)}, Coeffs: []int{2, -1}, AtLeast: -1}
		}
		if r.Bool() {
			c.Weight = r.Range(1, 4)
		}
		cs = append(cs, c)
	}
	return MaxSatCase{Entry: "api", Constrs: cs}
}

func genMaxSatWCNF(r *Rng, tier string) MaxSatCase {
	n := r.Range(1, 8)
	m := r.Range(0, 3*n+2)
	c := MaxSatCase{Entry: "wcnf"}
	hasTop := r.Chance(3, 4)
	maxW := 0
	for i := 0; i < m; i++ {
		k := r.Range(1, min2(n, 4))
		cl := MSConstr{Lits: randClauseDistinct(r, n, k), AtLeast: 1}
		if !hasTop || r.Chance(3, 5) {
			cl.Weight = r.Range(1, 5)
			if r.Chance(1, 8) {
				cl.Weight = r.Range(6, 40)
			}
			if cl.Weight > maxW {
				maxW = cl.Weight
			}
		}
		c.Constrs = append(c.Constrs, cl)
	}
	used := 0
	for _, cl := range c.Constrs {
		for _, l := range cl.Lits {
			if absInt(l) > used {
				used = absInt(l)
			}
		}
	}
	c.NbVars = used + []int{0, 0, 1, 3}[r.Intn(4)]
	if hasTop {
		c.Top = maxW + r.Range(1, 5)
		if r.Chance(1, 5) {
			// top = sum of soft weights + 1, the usual convention
			sum := 0
			for _, cl := range c.Constrs {
				sum += cl.Weight
			}
			c.Top = sum + 1
		}
	}
	var sb strings.Builder
	if r.Chance(1, 3) {
		sb.WriteString("c weighted partial maxsat instance\n")
	}
	if hasTop {
		sb.WriteString(fmt.Sprintf("p wcnf %d %d %d\n", c.NbVars, len(c.Constrs), c.Top))
	} else {
		sb.WriteString(fmt.Sprintf("p wcnf %d %d\n", c.NbVars, len(c.Constrs)))
	}
	for _, cl := range c.Constrs {
		if r.Chance(1, 12) {
			sb.WriteString("c a comment\n")
		}
		if r.Chance(1, 20) {
			sb.WriteString("\n")
		}
		w := cl.Weight
		if w == 0 {
			w = c.Top + []int{0, 0, 2}[r.Intn(3)]
		}
		sep := " "
		if r.Chance(1, 6) {
			sep = "  "
		}
		sb.WriteString(fmt.Sprint(w))
		for _, l := range cl.Lits {
			sb.WriteString(sep + fmt.Sprint(l))
		}
		sb.WriteString(sep + "0\n")
	}
	c.Text = sb.String()
	return c
}

// genMaxSatManySteps: mostly soft clauses with weights 3..12 over 4..6 variables and at most two
// hard ones: the first model is far from the optimum, the optimisation loop takes several steps, and
// the shrinking bound forces heavy relaxation literals at the top level between two steps.
func genMaxSatManySteps(r *Rng, tier string) MaxSatCase {
	n := r.Range(4, 6)
	m := r.Range(10, 20)
	c := MaxSatCase{Entry: "wcnf"}
	sum := 0
	for i := 0; i < m; i++ {
		k := r.Range(1, 3)
		cl := MSConstr{Lits: randClauseDistinct(r, n, k), AtLeast: 1, Weight: r.Range(3, 12)}
		if i >= m-2 && r.Chance(1, 2) {
			cl.Weight = 0 // hard
		}
		sum += cl.Weight
		c.Constrs = append(c.Constrs, cl)
	}
	c.NbVars = n
	c.Top = sum + r.Range(1, 900)
	var sb strings.Builder
	sb.WriteString(fmt.Sprintf("p wcnf %d %d %d\n", c.NbVars, len(c.Constrs), c.Top))
	for _, cl := range c.Constrs {
		w := cl.Weight
		if w == 0 {
			w = c.Top
		}
		sb.WriteString(fmt.Sprint(w))
		for _, l := range cl.Lits {
			sb.WriteString(" " + fmt.Sprint(l))
		}
		sb.WriteString(" 0\n")
	}
	c.Text = sb.String()
	return c
}

func init() {
	register(&Prop{
		ID: "C04",
		Rule: "weighted partial MaxSAT instances over 1..8 user variables: (api) 1..19 constraints, each a clause, a cardinality constraint with implicit unit coefficients or a PB constraint with coefficients 1..5, hard or soft with weight 1..30, degrees up to one above the maximum; (wcnf) WCNF text with 0..26 clauses, top weight present or absent, hard clauses written with weight >= top, declared variable count up to 3 above the highest variable used, comment and blank lines. Judged by the verified exhaustive MaxSAT optimum (GS.bruteMaxSat). Non-trivial = at least one soft constraint and hard part satisfiable; distinct = distinct instance.",
		Gens: []Gen{
			{Name: "api", Weight: 1, Make: func(r *Rng, tier string) interface{} { return genMaxSatAPI(r, tier) }},
			{Name: "wcnf", Weight: 1, Make: func(r *Rng, tier string) interface{} { return genMaxSatWCNF(r, tier) }},
		},
		Extra:   []ExtraGen{{Gen{Name: "wcnf-many-steps", Make: func(r *Rng, tier string) interface{} { return genMaxSatManySteps(r, tier) }}, 400, 10000}},
		Run:     runMaxSatCase,
		Cases:   defCases(4000, 100000),
		Timeout: defDur(10*time.Second, 60*time.Second),
		Wall:    defDur(50*time.Second, 12*time.Minute),
	})
}

func runMaxSatCase(o *Oracle, d json.RawMessage, oc *Outcome) {
	var c MaxSatCase
	if err := json.Unmarshal(d, &c); err != nil {
		oc.Fail("crash", "harness", "", "bad case: %v", err)
		return
	}
	oc.Key = keyOf(c)
	oc.Tag("entry:" + c.Entry)
	hard, soft := splitHardSoft(c.Constrs)
	n := 0
	for _, k := range c.Constrs {
		for _, l := range k.Lits {
			if absInt(l) > n {
				n = absInt(l)
			}
		}
	}
	if c.Entry == "wcnf" {
		n = c.NbVars
		oc.Sample = fmt.Sprintf("wcnf %q", c.Text)
	} else {
		oc.Sample = fmt.Sprintf("api %v", c.Constrs)
	}
	if len(oc.Sample) > 400 {
		oc.Sample = oc.Sample[:400] + "…"
	}
	sat, best := o.MaxSat(n, hard, soft)
	if sat && len(soft) > 0 {
		oc.Nontrivial = true
	}
	if !sat {
		oc.Tag("hard-unsat")
	} else if best > 0 {
		oc.Tag("optimum>0")
	} else {
		oc.Tag("optimum=0")
	}
	for _, k := range c.Constrs {
		if k.Weight > 0 && k.Coeffs == nil && k.AtLeast > 1 {
			oc.Tag("soft-cardinality")
			break
		}
	}
	judge := func(entry string, unsat bool, cost int, model []bool) {
		if unsat {
			if sat {
				oc.Fail("spec", "verdict", entry, "unsatisfiable reported, hard constraints are satisfiable (optimum %d)", best)
			}
			return
		}
		if !sat {
			oc.Fail("spec", "verdict", entry, "a model was reported, hard constraints are unsatisfiable")
			return
		}
		if len(model) != n {
			oc.Fail("spec", "covers-user-variables", entry, "model has %d values, the user has %d variables", len(model), n)
			if len(model) < n {
				return
			}
			model = model[:n]
		}
		if a := o.Eval(n, hard, model); a != "ok" {
			oc.Fail("spec", "model-satisfies-hard", entry, "model %v: %s", model, a)
		}
		if v := o.Violated(soft, model); v != cost {
			oc.Fail("spec", "cost-is-violated-weight", entry, "reported cost %d, model %v violates weight %d", cost, model, v)
		}
		if cost != best {
			oc.Fail("spec", "optimum", entry, "reported cost %d, minimal violated weight is %d", cost, best)
		}
	}
	switch c.Entry {
	case "api":
		names := map[string]bool{}
		cs := make([]maxsat.Constr, len(c.Constrs))
		shared := map[string][]int{} // constraints with equal coefficient lists share one table, as a caller may
		for i, k := range c.Constrs {
			lits := make([]maxsat.Lit, len(k.Lits))
			for j, l := range k.Lits {
				name := fmt.Sprintf("v%d", absInt(l))
				names[name] = true
				lits[j] = maxsat.Lit{Var: name, Negated: l < 0}
			}
			var co []int
			if k.Coeffs != nil {
				key := fmt.Sprint(k.Coeffs)
				if t, ok := shared[key]; ok {
					co = t
				} else {
					co = append([]int{}, k.Coeffs...)
					shared[key] = co
				}
			}
			cs[i] = maxsat.Constr{Lits: lits, Coeffs: co, AtLeast: k.AtLeast, Weight: k.Weight}
		}
		var enc *msEncoding
		maxsat.VerifSetNewHook(func(constrs []solver.PBConstr, costLits, costWeights []int, varNames []string) {
			enc = &msEncoding{constrs, costLits, costWeights, varNames}
		})
		pb := maxsat.New(cs...)
		maxsat.VerifSetNewHook(nil)
		encodingMirror(o, oc, c.Constrs, enc)
		an := sampleAnalyses(pb.Solver(), 2, 40, 4)
		stopAppends := mirrorAppends(o, oc, pb.Solver(), "maxsat.Problem.Solve")
		model, cost := pb.Solve()
		stopAppends()
		pb.Solver().VerifSetAnalyzeHook(nil)
		analysisMirror(o, oc, *an, "maxsat.Problem.Solve")
		entry := "maxsat.Problem.Solve"
		// the caller's constraints are his: building and solving must not change them, and the
		// same values handed to New again must give the same answer (judged below on the 2nd run)
		for i, k := range c.Constrs {
			if fmt.Sprint(cs[i].Coeffs) != fmt.Sprint(k.Coeffs) && !(k.Coeffs == nil && cs[i].Coeffs == nil) {
				oc.Fail("spec", "caller-constraints-unchanged", "maxsat.New", "constraint %d: coefficients %v became %v after New/Solve", i, k.Coeffs, cs[i].Coeffs)
				break
			}
		}
		if len(oc.Failures) == 0 {
			model, cost = maxsat.New(cs...).Solve()
			oc.Tag("solved-twice")
		}
		if model == nil {
			judge(entry, true, cost, nil)
			if cost != -1 {
				oc.Fail("spec", "unsat-cost", entry, "nil model with cost %d", cost)
			}
			return
		}
		var extra, missing []string
		for k := range model {
			if !names[k] {
				extra = append(extra, k)
			}
		}
		for k := range names {
			if _, ok := model[k]; !ok {
				missing = append(missing, k)
			}
		}
		sort.Strings(extra)
		sort.Strings(missing)
		if len(extra) > 0 || len(missing) > 0 {
			oc.Fail("spec", "covers-user-variables", entry, "model keys: extra %q missing %q", extra, missing)
		}
		m := make([]bool, n)
		for i := range m {
			m[i] = model[fmt.Sprintf("v%d", i+1)]
		}
		judge(entry, false, cost, m)
	case "wcnf":
		s, err := maxsat.ParseWCNF(strings.NewReader(c.Text))
		if err != nil {
			oc.Fail("spec", "parse-ok", "maxsat.ParseWCNF", "well-formed WCNF rejected: %v", err)
			return
		}
		r := runOptimal(s, c.ChanCap, c.Delays)
		entry := "maxsat.Solver.Optimal(chan)"
		judge(entry, r.res.Status == solver.Unsat, r.res.Weight, r.res.Model)
		if r.res.Status != solver.Sat && r.res.Status != solver.Unsat {
			oc.Fail("spec", "never-indet", entry, "status %v", r.res.Status)
		}
		if !r.closed {
			oc.Fail("spec", "channel-closed", entry, "result channel not closed")
		}
		for i, x := range r.stream {
			if x.Status == solver.Sat {
				if len(x.Model) != n {
					oc.Fail("spec", "stream-valid", entry, "streamed model %d has %d values for %d user variables", i, len(x.Model), n)
				} else {
					if a := o.Eval(n, hard, x.Model); a != "ok" {
						oc.Fail("spec", "stream-valid", entry, "streamed result %d violates hard clause: %s", i, a)
					}
					if v := o.Violated(soft, x.Model); v != x.Weight {
						oc.Fail("spec", "stream-valid", entry, "streamed result %d: cost %d, violated weight %d", i, x.Weight, v)
					}
				}
				if i > 0 && r.stream[i-1].Status == solver.Sat && x.Weight >= r.stream[i-1].Weight {
					oc.Fail("spec", "stream-decreasing", entry, "costs %d then %d", r.stream[i-1].Weight, x.Weight)
				}
			}
		}
		if len(r.stream) > 0 {
			last := r.stream[len(r.stream)-1]
			if last.Status != r.res.Status || last.Weight != r.res.Weight || fmt.Sprint(last.Model) != fmt.Sprint(r.res.Model) {
				oc.Fail("spec", "stream-last-is-result", entry, "last streamed result differs from the returned one")
			}
		} else {
			oc.Fail("spec", "stream-last-is-result", entry, "nothing was sent on the channel")
		}
		// same instance, no channel
		s2, err := maxsat.ParseWCNF(strings.NewReader(c.Text))
		if err == nil {
			// every AppendClause of the optimisation loop tied to the mirror of its prologue, and the
			// constraints the solver holds read again after each of them (constraints-stable)
			var stop func()
			if ms, ok := s2.(*maxsat.Solver); ok {
				stop = mirrorAppends(o, oc, ms.VerifSolver(), "maxsat.Solver.Optimal(nil)")
			}
			res2 := s2.Optimal(nil, nil)
			if stop != nil {
				stop()
			}
			judge("maxsat.Solver.Optimal(nil)", res2.Status == solver.Unsat, res2.Weight, res2.Model)
		}
	}
}

// msEncoding is what maxsat.New hands to the solver package (reported by the hook in New).
type msEncoding struct {
	constrs     []solver.PBConstr
	costLits    []int
	costWeights []int
	varNames    []string
}

// encodingMirror ties maxsat.New to its Lean mirror GS.MaxSatSigned.newGoS (theorems relaxS_sem,
// encodingS_sound/complete, optimumS_transfer): the constraints handed to solver.ParsePBConstrs
// (in order, term for term), the numbering of the user's variables and of the blocking variables,
// and the cost function (as a multiset: New ranges over a map) must be the mirror's.
func encodingMirror(o *Oracle, oc *Outcome, cs []MSConstr, enc *msEncoding) {
	if enc == nil {
		oc.Fail("corr", "encoding-mirror", "maxsat.New", "the hook in New was not called")
		return
	}
	groups := make([]string, len(cs))
	for i, k := range cs {
		if k.Coeffs == nil {
			groups[i] = strings.TrimSpace(fmt.Sprintf("%d %d 0 %s", k.Weight, k.AtLeast, encInts(k.Lits)))
		} else {
			g := fmt.Sprintf("%d %d 1", k.Weight, k.AtLeast)
			for j := range k.Lits {
				g += fmt.Sprintf(" %d %d", k.Coeffs[j], k.Lits[j])
			}
			groups[i] = g
		}
	}
	want := o.Ask("msencgos " + strings.Join(groups, " ; "))
	oc.Corr++
	if want == "panic" || want == "wf-error" || want == "bad-op" {
		oc.Fail("corr", "encoding-mirror", "maxsat.New", "mirror answered %q for %v", want, cs)
		return
	}
	parts := strings.Split(want, "|")
	if len(parts) != 3 {
		oc.Fail("corr", "encoding-mirror", "maxsat.New", "mirror answered %q", want)
		return
	}
	// the mirror lists the arguments New passes to solver.GtEq; the hook sees GtEq's results: the
	// constructor mirror GS.Constr.gtEq (theorem gtEq_sem) maps one to the other
	var wantLins []string
	if t := strings.TrimSpace(parts[0]); t != "" {
		for _, g := range strings.Split(t, ";") {
			xs, err := parseIntsLine(g)
			if err != nil || len(xs)%2 != 1 {
				oc.Fail("corr", "encoding-mirror", "maxsat.New", "mirror answered %q", want)
				return
			}
			var ws, ls []int
			for i := 1; i+1 < len(xs); i += 2 {
				ws, ls = append(ws, xs[i]), append(ls, xs[i+1])
			}
			wf := encInts(ws)
			if len(ws) == 0 {
				wf = "e"
			}
			wantLins = append(wantLins, o.Ask(fmt.Sprintf("gteq %s | %s | %d", encInts(ls), wf, xs[0])))
		}
	}
	lins := make([]string, len(enc.constrs))
	for i, k := range enc.constrs {
		ws := k.Weights
		if ws == nil {
			ws = make([]int, len(k.Lits))
			for j := range ws {
				ws[j] = 1
			}
		}
		lins[i] = fmt.Sprintf("%s | %s | %d", encInts(k.Lits), encInts(ws), k.AtLeast)
	}
	gotProblem := strings.Join(lins, " ; ")
	parts[0] = strings.Join(wantLins, " ; ")
	names := make([]int, len(enc.varNames))
	for i, nm := range enc.varNames {
		if nm != "" {
			fmt.Sscanf(nm, "v%d", &names[i])
		}
	}
	canonTerms := func(ws, ls []int) string {
		ts := make([][2]int, len(ls))
		for i := range ls {
			ts[i] = [2]int{ls[i], ws[i]}
		}
		sort.Slice(ts, func(i, j int) bool { return ts[i][0] < ts[j][0] })
		return fmt.Sprint(ts)
	}
	wantCost, err := parseIntsLine(parts[1])
	if err != nil || len(wantCost)%2 != 0 {
		oc.Fail("corr", "encoding-mirror", "maxsat.New", "mirror answered %q", want)
		return
	}
	var ww, wl []int
	for i := 0; i+1 < len(wantCost); i += 2 {
		ww, wl = append(ww, wantCost[i]), append(wl, wantCost[i+1])
	}
	norm := func(x string) string { return strings.Join(strings.Fields(x), " ") }
	if norm(gotProblem) != norm(parts[0]) {
		oc.Fail("corr", "encoding-mirror", "maxsat.New", "constraints handed to the solver: Go %q, mirror GS.MaxSatSigned.newGoS %q for %v", gotProblem, strings.TrimSpace(parts[0]), cs)
	} else if encInts(names) != strings.TrimSpace(parts[2]) {
		oc.Fail("corr", "encoding-mirror", "maxsat.New", "variable numbering: Go %v, mirror %q for %v", names, strings.TrimSpace(parts[2]), cs)
	} else if canonTerms(enc.costWeights, enc.costLits) != canonTerms(ww, wl) {
		oc.Fail("corr", "encoding-mirror", "maxsat.New", "cost function: Go %v*%v, mirror [c l ...] %v for %v", enc.costWeights, enc.costLits, wantCost, cs)
	}
}
