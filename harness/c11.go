package main

import (
	"bytes"
	"encoding/json"
	"fmt"
	"strconv"
	"strings"
	"time"

	"github.com/crillab/gophersat/bf"
	"github.com/crillab/gophersat/solver"
)

// FNode is a formula as the user builds it with package bf's constructors.
type FNode struct {
	Op    string  `json:"op"` // v t f n a o i e x u
	Var   int     `json:"v,omitempty"`
	Kids  []FNode `json:"k,omitempty"`
	Names []int   `json:"ns,omitempty"`
}

// nameScheme selects how the i-th name is written on the Go side for the case being run:
// "" = a, b, c ...; "dummy" = dummy-1, dummy-2 ... (names that look like the package's own
// auxiliary variables; the mirror identifies names with numbers, so nothing changes there).
var nameScheme string

func nameOf(i int) string {
	if nameScheme == "dummy" {
		return fmt.Sprintf("dummy-%d", i+1)
	}
	return string(rune('a' + i))
}

// mirrorNames rewrites the name comments of the mirror's DIMACS text (names a, b, c ...) in the
// scheme of the case being run.
func mirrorNames(a string) string {
	if nameScheme == "" {
		return a
	}
	lines := strings.Split(a, "\\n")
	for i, l := range lines {
		if strings.HasPrefix(l, "c ") && len(l) > 3 && l[3] == '=' && l[2] >= 'a' && l[2] <= 'z' {
			lines[i] = "c " + nameOf(int(l[2]-'a')) + l[3:]
		}
	}
	return strings.Join(lines, "\\n")
}

// indexOfName is the inverse of nameOf (-1 when s is not a name of the scheme).
func indexOfName(s string, k int) int {
	for i := 0; i < k; i++ {
		if nameOf(i) == s {
			return i
		}
	}
	return -1
}

func (f FNode) toGo() bf.Formula {
	kids := func() []bf.Formula {
		r := make([]bf.Formula, len(f.Kids))
		for i, k := range f.Kids {
			r[i] = k.toGo()
		}
		return r
	}
	switch f.Op {
	case "v":
		return bf.Var(nameOf(f.Var))
	case "t":
		return bf.True
	case "f":
		return bf.False
	case "n":
		return bf.Not(f.Kids[0].toGo())
	case "a":
		return bf.And(kids()...)
	case "o":
		return bf.Or(kids()...)
	case "i":
		return bf.Implies(f.Kids[0].toGo(), f.Kids[1].toGo())
	case "e":
		return bf.Eq(f.Kids[0].toGo(), f.Kids[1].toGo())
	case "x":
		return bf.Xor(f.Kids[0].toGo(), f.Kids[1].toGo())
	case "u":
		ns := make([]string, len(f.Names))
		for i, n := range f.Names {
			ns[i] = nameOf(n)
		}
		return bf.Unique(ns...)
	}
	panic("bad op " + f.Op)
}

func (f FNode) wire(sb *strings.Builder) {
	switch f.Op {
	case "v":
		sb.WriteString("v " + strconv.Itoa(f.Var) + " ")
	case "t", "f":
		sb.WriteString(f.Op + " ")
	case "n", "i", "e", "x":
		sb.WriteString(f.Op + " ")
		for _, k := range f.Kids {
			k.wire(sb)
		}
	case "a", "o":
		sb.WriteString(f.Op + " " + strconv.Itoa(len(f.Kids)) + " ")
		for _, k := range f.Kids {
			k.wire(sb)
		}
	case "u":
		sb.WriteString("u " + strconv.Itoa(len(f.Names)) + " ")
		for _, n := range f.Names {
			sb.WriteString(strconv.Itoa(n) + " ")
		}
	}
}

func (f FNode) Wire() string {
	var sb strings.Builder
	f.wire(&sb)
	return strings.TrimSpace(sb.String())
}

// polarity walk: calls visit(node, pol) with pol = +1 positive, -1 negative, 0 both.
func (f FNode) walk(pol int, visit func(FNode, int)) {
	visit(f, pol)
	switch f.Op {
	case "n":
		f.Kids[0].walk(-pol, visit)
	case "a", "o":
		for _, k := range f.Kids {
			k.walk(pol, visit)
		}
	case "i":
		f.Kids[0].walk(-pol, visit)
		f.Kids[1].walk(pol, visit)
	case "e", "x":
		f.Kids[0].walk(0, visit)
		f.Kids[1].walk(0, visit)
	}
}

func genFormula(r *Rng, k, depth int, pol int, uniquePositiveOnly bool) FNode {
	if depth == 0 || r.Chance(1, 5) {
		switch x := r.Intn(12); {
		case x == 0:
			return FNode{Op: "t"}
		case x == 1:
			return FNode{Op: "f"}
		case x == 2 && (!uniquePositiveOnly || pol > 0):
			sz := r.Range(0, min2(k, 9))
			p := r.Perm(k)
			return FNode{Op: "u", Names: append([]int{}, p[:sz]...)}
		default:
			return FNode{Op: "v", Var: r.Intn(k)}
		}
	}
	sub := func(p int) FNode { return genFormula(r, k, depth-1, p, uniquePositiveOnly) }
	switch r.Intn(10) {
	case 0, 1:
		return FNode{Op: "n", Kids: []FNode{sub(-pol)}}
	case 2, 3, 4:
		n := r.Range(0, 3)
		ks := make([]FNode, n)
		for i := range ks {
			ks[i] = sub(pol)
		}
		return FNode{Op: "a", Kids: ks}
	case 5, 6, 7:
		n := r.Range(0, 3)
		ks := make([]FNode, n)
		for i := range ks {
			ks[i] = sub(pol)
		}
		return FNode{Op: "o", Kids: ks}
	case 8:
		return FNode{Op: "i", Kids: []FNode{sub(-pol), sub(pol)}}
	default:
		op := "e"
		if r.Bool() {
			op = "x"
		}
		return FNode{Op: op, Kids: []FNode{sub(0), sub(0)}}
	}
}

type BfCase struct {
	K      int    `json:"k"` // names a.. (k of them)
	F      FNode  `json:"f"`
	Scheme string `json:"scheme,omitempty"` // see nameScheme
}

// genUniqueRepeated: an exactly-one group in which a name is written twice or more (bf.Unique takes
// any list of names; its meaning counts every occurrence), alone, under a conjunction / disjunction
// with other literals, or (when allowed) under a negation.
func genUniqueRepeated(r *Rng, tier string, positiveOnly bool) BfCase {
	k := r.Range(1, 6)
	sz := r.Range(2, 4)
	if r.Chance(1, 4) {
		sz = r.Range(5, 8)
	}
	names := make([]int, sz)
	for i := range names {
		names[i] = r.Intn(k)
	}
	names[r.Intn(sz)] = names[(r.Intn(sz-1)+1+r.Intn(sz))%sz] // usually at least one repetition
	u := FNode{Op: "u", Names: names}
	f := u
	lit := func() FNode {
		v := FNode{Op: "v", Var: r.Intn(k)}
		if r.Bool() {
			return FNode{Op: "n", Kids: []FNode{v}}
		}
		return v
	}
	switch r.Intn(5) {
	case 0:
		f = FNode{Op: "a", Kids: []FNode{lit(), u}}
	case 1:
		f = FNode{Op: "o", Kids: []FNode{u, lit()}}
	case 2:
		f = FNode{Op: "a", Kids: []FNode{FNode{Op: "o", Kids: []FNode{lit(), u}}, lit()}}
	case 3:
		if !positiveOnly {
			f = FNode{Op: "n", Kids: []FNode{u}}
		}
	}
	return BfCase{K: k, F: f}
}

func genBfCase(r *Rng, tier string, positiveUnique bool) BfCase {
	k := r.Range(1, 7)
	if r.Chance(1, 4) {
		k = r.Range(5, 9)
	}
	c := BfCase{K: k, F: genFormula(r, k, r.Range(1, 4), 1, positiveUnique)}
	if r.Chance(1, 12) {
		c.Scheme = "dummy"
	}
	return c
}

// genTwoUnique: a conjunction with two exactly-one groups of the same size (5..6 names) that
// share their first and last name (positive positions only), optionally with a few literals.
func genTwoUnique(r *Rng, tier string) BfCase {
	k := r.Range(8, 9)
	sz := 5
	if k == 9 && r.Bool() {
		sz = 6
	}
	p := r.Perm(k)
	first, last := p[0], p[1]
	rest := p[2:]
	g1 := append([]int{first}, rest[:sz-2]...)
	g1 = append(g1, last)
	mid := append([]int{}, rest[sz-2:]...)
	for len(mid) < sz-2 { // not enough fresh names: reuse some of the first group's
		mid = append(mid, rest[r.Intn(sz-2)])
	}
	seen := map[int]bool{}
	var mid2 []int
	for _, x := range mid {
		if !seen[x] {
			seen[x] = true
			mid2 = append(mid2, x)
		}
	}
	for i := 0; len(mid2) < sz-2; i++ {
		if !seen[rest[i]] {
			seen[rest[i]] = true
			mid2 = append(mid2, rest[i])
		}
	}
	g2 := append([]int{first}, mid2[:sz-2]...)
	g2 = append(g2, last)
	kids := []FNode{{Op: "u", Names: g1}, {Op: "u", Names: g2}}
	if r.Bool() {
		kids = append(kids, FNode{Op: "o", Kids: []FNode{{Op: "v", Var: r.Intn(k)}, {Op: "n", Kids: []FNode{{Op: "v", Var: r.Intn(k)}}}}})
	}
	return BfCase{K: k, F: FNode{Op: "a", Kids: kids}}
}

// genUniqueLarge: one exactly-one group over 10..26 names (the grid encoding recurses on its own
// auxiliary variables from 17 names on), alone or in conjunction with a literal.
func genUniqueLarge(r *Rng, tier string) BfCase {
	k := r.Range(10, 26)
	kids := []FNode{{Op: "u", Names: r.Perm(k)}}
	if r.Bool() {
		l := FNode{Op: "v", Var: r.Intn(k)}
		if r.Bool() {
			l = FNode{Op: "n", Kids: []FNode{l}}
		}
		kids = append(kids, l)
	}
	return BfCase{K: k, F: FNode{Op: "a", Kids: kids}}
}

func (c *BfCase) classes() []string {
	var cl []string
	c.F.walk(1, func(n FNode, pol int) {
		if n.Op == "u" && len(n.Names) >= 5 && pol <= 0 {
			cl = append(cl, "unique>=5-in-nonpositive-position")
		}
	})
	return cl
}

func init() {
	register(&Prop{
		ID: "C11",
		Rule: "formula trees of depth 1..4 over 1..9 names built with package bf's constructors: variables, True/False, Not, And/Or of 0..3 sub-formulas, Implies, Eq, Xor, Unique groups of 0..9 distinct names at any polarity; bf.Solve is compared with the verified truth table (GS.sfSat / GS.SF.eval, standard semantics of each connective). Non-trivial = the formula is neither constant-free trivial nor a single literal (at least one binary connective or Unique group); distinct = distinct tree.",
		Gens: []Gen{
			{Name: "tree", Weight: 60, Make: func(r *Rng, tier string) interface{} { return genBfCase(r, tier, false) }},
			{Name: "unique-large", Weight: 1, Make: func(r *Rng, tier string) interface{} {
				c := genUniqueLarge(r, tier)
				if r.Bool() { // a second literal: two names true is impossible, one true and one false is fine
					l := FNode{Op: "v", Var: r.Intn(c.K)}
					if r.Bool() {
						l = FNode{Op: "n", Kids: []FNode{l}}
					}
					c.F.Kids = append(c.F.Kids, l)
				}
				return c
			}},
			// grid dimensions of Unique for every group size in a range: Go computes them with
			// float64 square roots, the Lean mirror (GS.BfUnique.natDims) in N
			{Name: "unique-dims", Enum: func(tier string) []interface{} {
				top := 400
				if tier == "thorough" {
					top = 1500
				}
				var res []interface{}
				for n := 5; n <= top; n += 1 + n/60 {
					res = append(res, BfCase{K: n, F: FNode{Op: "dims"}})
				}
				return res
			}},
		},
		Extra: []ExtraGen{{Gen{Name: "unique-repeated-name", Make: func(r *Rng, tier string) interface{} { return genUniqueRepeated(r, tier, false) }}, 300, 6000}},
		Run: runBfSolveCase,
		Classify: func(d json.RawMessage) []string {
			var c BfCase
			if json.Unmarshal(d, &c) == nil {
				return c.classes()
			}
			return nil
		},
		Cases:   defCases(5000, 120000),
		Timeout: defDur(15*time.Second, 180*time.Second),
		Wall:    defDur(50*time.Second, 12*time.Minute),
	})
	register(&Prop{
		ID: "C12",
		Rule: "formula trees as for C11 (in half of the cases with Unique groups in positive positions only, where they produce auxiliary variables); bf.Dimacs output is parsed (header counts, literal ranges, name comments) and compared with the formula over the whole truth table by the verified GS.exportEquiv: every formula model extends to a model of the export and every model of the export restricts to formula models, eliminated names being unconstrained. Exports with 15-48 variables over at most 9 names are judged by verified solving instead: for every assignment of the names, 'the formula holds' must equal 'the assignment extends to a model of the export', the extension question being answered by the Go solver and verified in Lean (Sat: the model is evaluated; Unsat: the RUP certificate is checked). Exports with up to 400 variables over 10..26 names (one exactly-one group of that many names) are judged the same way on the assignments with at most two names true or at most one false and a seeded sample of others. Larger exports are only checked for well-formedness and byte equality with the Lean mirror. Non-trivial = export with at least 2 clauses; distinct = distinct tree.",
		Gens: []Gen{
			{Name: "tree", Weight: 30, Make: func(r *Rng, tier string) interface{} { return genBfCase(r, tier, r.Bool()) }},
			{Name: "two-unique-groups", Weight: 1, Make: func(r *Rng, tier string) interface{} { return genTwoUnique(r, tier) }},
			{Name: "unique-large", Weight: 1, Make: func(r *Rng, tier string) interface{} { return genUniqueLarge(r, tier) }},
		},
		Extra: []ExtraGen{{Gen{Name: "unique-repeated-name", Make: func(r *Rng, tier string) interface{} { return genUniqueRepeated(r, tier, true) }}, 300, 6000}},
		Run: runBfDimacsCase,
		Cases:   defCases(4000, 100000),
		Timeout: defDur(15*time.Second, 180*time.Second),
		Wall:    defDur(50*time.Second, 12*time.Minute),
	})
}

func sizeOf(f FNode) int {
	n := 1
	for _, k := range f.Kids {
		n += sizeOf(k)
	}
	return n
}

func runBfSolveCase(o *Oracle, d json.RawMessage, oc *Outcome) {
	var c BfCase
	if err := json.Unmarshal(d, &c); err != nil {
		oc.Fail("crash", "harness", "", "bad case: %v", err)
		return
	}
	nameScheme = c.Scheme
	defer func() { nameScheme = "" }()
	oc.Key = keyOf(c)
	if c.F.Op == "dims" {
		runUniqueDims(o, &c, oc)
		return
	}
	oc.Classes = c.classes()
	f := c.F.toGo()
	oc.Sample = f.String()
	if len(oc.Sample) > 300 {
		oc.Sample = oc.Sample[:300] + "…"
	}
	if sizeOf(c.F) > 2 || c.F.Op == "u" {
		oc.Nontrivial = true
	}
	c.F.walk(1, func(n FNode, pol int) {
		if n.Op == "u" {
			if len(n.Names) >= 5 {
				oc.Tag("unique>=5")
			} else {
				oc.Tag("unique<5")
			}
		}
		if (n.Op == "a" || n.Op == "o") && len(n.Kids) == 0 {
			oc.Tag("empty-and/or")
		}
	})
	wire := c.F.Wire()
	// bf.Solve = CNF translation + CNF solver: the translation is tied to its Lean mirror
	// (GS.Bf.asCnf, theorem solve_agrees) byte for byte through bf.Dimacs
	if a := o.Ask("bfdimacs " + wire); a != "unsupported" {
		var buf bytes.Buffer
		if err := bf.Dimacs(f, &buf); err == nil {
			oc.Corr++
			if got := strings.ReplaceAll(buf.String(), "\n", "\\n"); got != mirrorNames(a) {
				oc.Fail("corr", "dimacs-mirror", "bf.Solve", "the CNF translation differs from its Lean mirror: Go %q, mirror %q for %s", got, a, f.String())
			}
		}
	}
	var truth string
	if c.K > 16 || (c.K > 9 && c.F.Op == "a" && len(c.F.Kids) > 0 && c.F.Kids[0].Op == "u" && len(c.F.Kids[0].Names) == c.K) {
		// too many names for the truth table: the formula is a conjunction whose first member is an
		// exactly-one group over all the names, so its only candidate models are the assignments with
		// a single name true; each is evaluated by the verified GS.SF.eval
		oc.Tag("verdict-by-candidate-models")
		truth = "0"
		for i := 0; i < c.K && truth == "0"; i++ {
			vals := make([]bool, c.K)
			vals[i] = true
			if o.Ask(fmt.Sprintf("bfeval %s | %s", wire, encBools(vals))) == "1" {
				truth = "1"
			}
		}
	} else {
		truth = o.Ask(fmt.Sprintf("bfsat %d | %s", c.K, wire))
	}
	m := bf.Solve(f)
	entry := "bf.Solve"
	if m == nil {
		oc.Tag("unsat")
		if truth != "0" {
			oc.Fail("spec", "verdict", entry, "no model returned but the formula is satisfiable: %s", f.String())
		}
		return
	}
	oc.Tag("sat")
	if truth != "1" {
		oc.Fail("spec", "verdict", entry, "a model was returned but the formula is false under every assignment: %s", f.String())
		return
	}
	vals := make([]bool, c.K)
	for i := range vals {
		vals[i] = m[nameOf(i)] // names the model does not mention: completed with false
	}
	if a := o.Ask(fmt.Sprintf("bfeval %s | %s", wire, encBools(vals))); a != "1" {
		oc.Fail("spec", "model-satisfies-formula", entry, "returned assignment %v makes the formula false: %s", m, f.String())
	}
}

func runBfDimacsCase(o *Oracle, d json.RawMessage, oc *Outcome) {
	var c BfCase
	if err := json.Unmarshal(d, &c); err != nil {
		oc.Fail("crash", "harness", "", "bad case: %v", err)
		return
	}
	nameScheme = c.Scheme
	defer func() { nameScheme = "" }()
	oc.Key = keyOf(c)
	f := c.F.toGo()
	oc.Sample = f.String()
	if len(oc.Sample) > 300 {
		oc.Sample = oc.Sample[:300] + "…"
	}
	var buf bytes.Buffer
	entry := "bf.Dimacs"
	if err := bf.Dimacs(f, &buf); err != nil {
		oc.Fail("spec", "no-error", entry, "error %v", err)
		return
	}
	// exact differential: the Lean mirror of nnf + cnfRec + Dimacs (GS.Bf.dimacs) must produce
	// the same bytes (Unique groups of more than 4 names are outside the mirror)
	if a := o.Ask("bfdimacs " + c.F.Wire()); a != "unsupported" {
		oc.Corr++
		oc.Tag("dimacs-mirror-compared")
		if got := strings.ReplaceAll(buf.String(), "\n", "\\n"); got != mirrorNames(a) {
			oc.Fail("corr", "dimacs-mirror", entry, "Go wrote %q, the Lean mirror %q for %s", got, a, f.String())
		}
	}
	lines := strings.Split(strings.TrimRight(buf.String(), "\n"), "\n")
	if len(lines) == 0 || !strings.HasPrefix(lines[0], "p cnf ") {
		oc.Fail("spec", "well-formed", entry, "first line is not a DIMACS header: %q", buf.String())
		return
	}
	var nv, nc int
	if _, err := fmt.Sscanf(lines[0], "p cnf %d %d", &nv, &nc); err != nil {
		oc.Fail("spec", "well-formed", entry, "bad header %q", lines[0])
		return
	}
	idx := make([]int, c.K)
	usedIdx := map[int]string{}
	var cnf [][]int
	for _, l := range lines[1:] {
		if strings.HasPrefix(l, "c ") {
			kv := strings.SplitN(l[2:], "=", 2)
			if len(kv) != 2 {
				oc.Fail("spec", "well-formed", entry, "bad name comment %q", l)
				continue
			}
			v, err := strconv.Atoi(kv[1])
			if err != nil || v < 1 || v > nv {
				oc.Fail("spec", "well-formed", entry, "name comment %q: index out of range 1..%d", l, nv)
				continue
			}
			if prev, ok := usedIdx[v]; ok {
				oc.Fail("spec", "names-distinct", entry, "names %q and %q share index %d", prev, kv[0], v)
			}
			usedIdx[v] = kv[0]
			if ni := indexOfName(kv[0], c.K); ni >= 0 {
				if idx[ni] != 0 {
					oc.Fail("spec", "names-distinct", entry, "name %q listed twice", kv[0])
				}
				idx[ni] = v
			} else {
				oc.Fail("spec", "well-formed", entry, "name comment for unknown name %q", kv[0])
			}
			continue
		}
		cl, ok := parseCertLine(l)
		if !ok {
			oc.Fail("spec", "well-formed", entry, "line %q is not a 0-terminated clause", l)
			continue
		}
		for _, x := range cl {
			if absInt(x) > nv {
				oc.Fail("spec", "well-formed", entry, "literal %d out of range 1..%d", x, nv)
			}
		}
		cnf = append(cnf, cl)
	}
	if len(cnf) != nc {
		oc.Fail("spec", "header-counts", entry, "header announces %d clauses, %d written", nc, len(cnf))
	}
	if len(cnf) >= 2 {
		oc.Nontrivial = true
	}
	if len(oc.Failures) > 0 {
		return
	}
	if nv > 14 {
		if (nv <= 48 && c.K <= 9) || (nv <= 400 && c.K <= 26) {
			largeExportCheck(o, oc, &c, idx, nv, cnf, f.String())
			return
		}
		oc.Tag("export>400vars-wellformedness-only")
		return
	}
	oc.Tag("export-compared")
	if a := o.Ask(fmt.Sprintf("bfexport %d | %s | %s | %d | %s", c.K, c.F.Wire(), encInts(idx), nv, encCnf(cnf))); a != "1" {
		oc.Fail("spec", "export-equivalent", entry, "models of the export restricted to the names differ from the models of %s (export: %q)", f.String(), buf.String())
	}
}


// runUniqueDims: the number of line and column auxiliaries bf.Unique creates for n names must
// be the grid dimensions of the Lean mirror (natDims n), read off the formula's String().
func runUniqueDims(o *Oracle, c *BfCase, oc *Outcome) {
	n := c.K
	names := make([]string, n)
	for i := range names {
		names[i] = fmt.Sprintf("v%d", i)
	}
	full := strings.Join(names, "-")
	str := bf.Unique(names...).String()
	toks := strings.FieldsFunc(str, func(r rune) bool { return r == '(' || r == ')' || r == ',' || r == ' ' })
	lines, cols := map[string]bool{}, map[string]bool{}
	for _, t := range toks {
		if strings.HasSuffix(t, "-"+full) {
			if strings.HasPrefix(t, "line-") && strings.Count(t, "line-") == 1 && !strings.Contains(t, "col-") {
				lines[t] = true
			}
			if strings.HasPrefix(t, "col-") && strings.Count(t, "col-") == 1 && !strings.Contains(t, "line-") {
				cols[t] = true
			}
		}
	}
	got := fmt.Sprintf("%d %d", len(lines), len(cols))
	want := o.Ask(fmt.Sprintf("uniquedims %d", n))
	oc.Corr++
	oc.Nontrivial = true
	oc.Sample = fmt.Sprintf("Unique of %d names: %s lines/cols", n, got)
	oc.Tag("unique-dims")
	if got != want {
		oc.Fail("corr", "unique-dims-mirror", "bf.Unique", "n=%d: Go builds %s line/column auxiliaries, the Lean mirror natDims gives %s", n, got, want)
	}
}


// largeExportCheck handles exports too large for the exhaustive comparison: for every
// assignment of the names, the formula's value (GS.SF.eval) must equal "the assignment extends
// to a model of the export". The extension question is answered by the CNF solver, and that
// answer is itself verified: a Sat answer by evaluating its model (GS evaluation), an Unsat
// answer by replaying its certificate through the verified RUP checker.
func largeExportCheck(o *Oracle, oc *Outcome, c *BfCase, idx []int, nv int, cnf [][]int, fstr string) {
	oc.Tag("export-compared-by-verified-solving")
	wire := c.F.Wire()
	// every assignment of the names up to 9 names; beyond, those with at most two names true or
	// at most one false, and a seeded sample of the others
	var assignments []uint64
	if c.K <= 9 {
		for a := uint64(0); a < 1<<uint(c.K); a++ {
			assignments = append(assignments, a)
		}
	} else {
		oc.Tag("export-compared-on-sampled-assignments")
		all := uint64(1)<<uint(c.K) - 1
		assignments = append(assignments, 0, all)
		for i := 0; i < c.K; i++ {
			assignments = append(assignments, 1<<uint(i), all&^(1<<uint(i)))
			for j := i + 1; j < c.K && len(assignments) < 420; j++ {
				assignments = append(assignments, 1<<uint(i)|1<<uint(j))
			}
		}
		rr := NewRng(uint64(len(wire))*2654435761 + uint64(nv))
		for i := 0; i < 30; i++ {
			assignments = append(assignments, rr.Next()&all)
		}
	}
	for _, a := range assignments {
		vals := make([]bool, c.K)
		var units [][]int
		for i := range vals {
			vals[i] = (a>>uint(i))&1 == 1
			if idx[i] != 0 {
				if vals[i] {
					units = append(units, []int{idx[i]})
				} else {
					units = append(units, []int{-idx[i]})
				}
			}
		}
		want := o.Ask(fmt.Sprintf("bfeval %s | %s", wire, encBools(vals))) == "1"
		full := append(copyCnf(cnf), units...)
		cc := CnfCase{NbVars: nv, Clauses: full, Front: "slicenb"}
		run := solveCnf(&cc, true, 0)
		var ext bool
		switch run.status {
		case solver.Sat:
			if len(run.model) != nv || o.Eval(nv, cnfLins(full), run.model) != "ok" {
				oc.Fail("spec", "export-equivalent", "bf.Dimacs", "cannot verify the solver's model of the export for names %v", vals)
				return
			}
			ext = true
		case solver.Unsat:
			if _, refutes := o.Rup(nv, full, run.lines); !refutes {
				oc.Fail("spec", "export-equivalent", "bf.Dimacs", "cannot verify the solver's refutation of the export for names %v", vals)
				return
			}
		}
		if ext != want {
			oc.Fail("spec", "export-equivalent", "bf.Dimacs", "names %v: formula is %v but 'extends to a model of the export' is %v, for %s", vals, want, ext, fstr)
			return
		}
	}
}
