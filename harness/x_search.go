package main

import (
	"encoding/json"
	"fmt"
	"strings"
	"time"

	"github.com/crillab/gophersat/solver"
)

// Differential tie of the whole CDCL run on plain clauses (Solve -> search -> propagateAndSearch of
// /repo/solver/solver.go, with learnClause, addLearned, cleanupBindings, reduceLearned, unwatchClause) with
// the Lean replay mirror GS.Search (op searchrun of /verif/lean/GS/OpsSearch.lean): the heuristic choices
// of the run are recorded by build-tag-guarded hooks (solver/verif_search_on.go), everything else is
// recomputed by the mirror, and the final states are compared.

// searchFinal is what the mirror must answer for the final state of the solver, with the recorder's clause ids.
func searchFinal(s *solver.Solver, st solver.Status) (string, bool) {
	snap := s.VerifWatchSnapshot()
	ids := s.VerifSearchLearnedIds()
	nOrig := len(snap.Clauses) - len(ids)
	if !snap.PlainOnly || nOrig < 0 {
		return "", false
	}
	mapID := func(c int) int {
		if c < nOrig {
			return c
		}
		return ids[c-nOrig]
	}
	mapW := func(ws [][3]int) [][3]int {
		res := make([][3]int, len(ws))
		for i, w := range ws {
			res[i] = [3]int{w[0], mapID(w[1]), w[2]}
		}
		return res
	}
	verdict := "unsat"
	if st == solver.Sat {
		verdict = "sat"
	}
	return fmt.Sprintf("ok %s | %s | %s | %d | %s | %s | %s | %s", verdict, encInts(snap.Model), encInts(snap.Trail),
		s.VerifNbConflicts(), encInts(ids), encWatchers(mapW(snap.Wbin)), encWatchers(mapW(snap.Wlong)), encCnf(snap.Clauses)), true
}

func distinctVars(c []int) bool {
	seen := map[int]bool{}
	for _, l := range c {
		if l == 0 || seen[absInt(l)] {
			return false
		}
		seen[absInt(l)] = true
	}
	return true
}

// mutateLog returns a log that differs from evs by one mutation, and the name of the mutation ("" if none applies).
func mutateLog(r *Rng, evs []string) ([]string, string) {
	out := append([]string{}, evs...)
	var unifies, learns []int
	for i, e := range evs {
		switch e[0] {
		case '1':
			unifies = append(unifies, i)
		case '2':
			learns = append(learns, i)
		}
	}
	switch r.Intn(6) {
	case 0: // drop an event
		i := r.Intn(len(out))
		return append(out[:i], out[i+1:]...), "drop"
	case 1: // swap two adjacent events
		if len(out) < 2 {
			return nil, ""
		}
		i := r.Intn(len(out) - 1)
		if out[i] == out[i+1] {
			return nil, ""
		}
		out[i], out[i+1] = out[i+1], out[i]
		return out, "swap"
	case 2: // drop a learn event
		if len(learns) == 0 {
			return nil, ""
		}
		i := learns[r.Intn(len(learns))]
		return append(out[:i], out[i+1:]...), "drop-learn"
	case 3: // a decision on the variable of an earlier unify event of the same search (bound, unless a backjump undid it)
		if len(unifies) < 2 {
			return nil, ""
		}
		k := r.Range(1, len(unifies)-1)
		var a, b, c, d int
		fmt.Sscanf(evs[unifies[k-1]], "1 %d %d", &a, &b)
		fmt.Sscanf(evs[unifies[k]], "1 %d %d", &c, &d)
		if absInt(a) == absInt(c) {
			return nil, ""
		}
		out[unifies[k]] = fmt.Sprintf("1 %d %d", a, d)
		return out, "redecide"
	case 4: // negate the literal of a unify event
		if len(unifies) == 0 {
			return nil, ""
		}
		i := unifies[r.Intn(len(unifies))]
		var a, b int
		fmt.Sscanf(evs[i], "1 %d %d", &a, &b)
		out[i] = fmt.Sprintf("1 %d %d", -a, b)
		return out, "negate"
	default: // swap the first two literals of a learned clause
		if len(learns) == 0 {
			return nil, ""
		}
		i := learns[r.Intn(len(learns))]
		f := strings.Fields(evs[i])
		f[1], f[2] = f[2], f[1]
		out[i] = strings.Join(f, " ")
		return out, "learn-order"
	}
}

// tieSearch solves one CNF with the recorder on and replays the log in the mirror.
func tieSearch(o *Oracle, oc *Outcome, r *Rng, nbVars int, cnf [][]int, nbMax int) {
	pb := solver.ParseSliceNb(copyCnf(cnf), nbVars)
	if pb.Status != solver.Indet {
		oc.Tag("parse-decided")
		return
	}
	s := solver.New(pb)
	init := s.VerifWatchSnapshot()
	if !init.PlainOnly {
		oc.Tag("skip-not-plain")
		return
	}
	for _, c := range init.Clauses {
		if !distinctVars(c) {
			oc.Tag("skip-repeated-variable")
			return
		}
	}
	if !distinctVars(init.Trail) {
		oc.Tag("skip-repeated-unit")
		return
	}
	if nbMax > 0 {
		s.VerifSetNbMax(nbMax)
		oc.Tag(fmt.Sprintf("nbMax=%d", nbMax))
	} else {
		nbMax = 2000
		oc.Tag("nbMax=default")
	}
	s.VerifRecordSearch(true)
	defer s.VerifRecordSearch(false)
	var st solver.Status
	panicked := ""
	func() {
		defer func() {
			if e := recover(); e != nil {
				panicked = fmt.Sprint(e)
			}
		}()
		st = s.Solve()
	}()
	evs := s.VerifSearchLog()
	q := fmt.Sprintf("searchrun %d %d | %s | %s | ", init.NbVars, nbMax, encCnf(init.Clauses), encInts(init.Trail))
	oc.Corr++
	if panicked != "" { // reduceLearned on an empty wl.learned (only with a forced tiny limit): the mirror must stop at the same place
		oc.Tag("go-panic")
		got := o.Ask(q + strings.Join(evs, " ; "))
		if !strings.HasPrefix(got, "panic") && !strings.HasPrefix(got, "reject") {
			oc.Fail("corr", "search-mirror", "solver.Solve", "Go panicked (%s), the Lean mirror answered [%s] on %s", panicked, got, q+strings.Join(evs, " ; "))
		}
		return
	}
	want, ok := searchFinal(s, st)
	if !ok {
		oc.Fail("crash", "harness", "solver.Solve", "not a plain-clause state after Solve on n=%d %s", nbVars, cnfString(cnf))
		return
	}
	full := q + strings.Join(evs, " ; ")
	got := o.Ask(full)
	if got != want {
		oc.Fail("corr", "search-mirror", "solver.Solve", "Go ended in [%s], the Lean mirror in [%s] on %s", want, got, full)
		return
	}
	oc.Nontrivial = true
	if st == solver.Sat { // hypothesis of GS.Search.search_sat_sound_partial on the real final state: watchInv, everything processed
		snap := s.VerifWatchSnapshot()
		oc.Corr++
		if a := o.Ask(fmt.Sprintf("winv %s | %d", encWatchState(snap), len(snap.Trail))); a != "ok" {
			oc.Fail("corr", "watch-invariant", "solver.Solve", "watchInv fails (%s) on the final state of a Sat run: %s", a, encWatchState(snap))
			return
		}
		oc.Tag("final-watchInv-ok")
	}
	nL, nR, nZ, nBin, removed := 0, 0, 0, 0, false
	var before int
	for _, e := range evs {
		switch e[0] {
		case '2':
			nL++
			if len(strings.Fields(e)) == 3 {
				nBin++
			}
		case '3':
			nR++
		case '4':
			nZ++
			before = len(strings.Fields(e))
		case '5':
			if len(strings.Fields(e)) < before {
				removed = true
			}
		}
	}
	nConfl := s.VerifNbConflicts()
	if st == solver.Sat {
		oc.Tag("sat")
	} else {
		oc.Tag("unsat")
	}
	switch {
	case nConfl == 0:
		oc.Tag("conflicts=0")
	case nConfl <= 5:
		oc.Tag("conflicts=1..5")
	case nConfl <= 50:
		oc.Tag("conflicts=6..50")
	default:
		oc.Tag("conflicts>50")
	}
	if nConfl > nL {
		oc.Tag("learned-unit")
	}
	if nBin > 0 {
		oc.Tag("learned-binary")
	}
	if nL > nBin {
		oc.Tag("learned-long")
	}
	if nR > 0 {
		oc.Tag("restart")
	}
	if nZ > 0 {
		oc.Tag("reduction")
	}
	if removed {
		oc.Tag("reduction-removes")
	}
	if len(init.Trail) > 0 {
		oc.Tag("units")
	}
	// negative control: one mutation of the accepted log
	if mut, name := mutateLog(r, evs); name != "" {
		oc.Corr++
		a := o.Ask(q + strings.Join(mut, " ; "))
		switch {
		case strings.HasPrefix(a, "reject"), strings.HasPrefix(a, "bad"):
			oc.Tag("mut-" + name + ":rejected")
		case strings.HasPrefix(a, "panic"):
			oc.Tag("mut-" + name + ":panic")
		case a == want:
			oc.Tag("mut-" + name + ":SAME-STATE")
		default:
			oc.Tag("mut-" + name + ":other-state")
		}
	}
}

type SearchCase struct {
	Seed uint64 `json:"seed"`
}

func tieSearchRandom(o *Oracle, oc *Outcome, r *Rng) {
	var n int
	var cnf [][]int
	switch r.Intn(9) {
	case 8: // larger 3-SAT near the threshold: enough conflicts for restarts (50 recent lbd values) and repeated reductions
		n = r.Range(41, 90)
		m := n*426/100 + r.Range(-3, 3)
		cnf = genKSat(r, n, m, 3)
		oc.Tag("gen:3sat-large")
	case 0, 1, 2: // 3-SAT near the threshold
		n = r.Range(5, 40)
		m := n*426/100 + r.Range(-3, 3)
		cnf = genKSat(r, n, m, 3)
		oc.Tag("gen:3sat")
	case 3: // 2-SAT
		n = r.Range(5, 30)
		cnf = genKSat(r, n, n+r.Range(-2, n/2), 2)
		oc.Tag("gen:2sat")
	case 4: // pigeonhole
		p := r.Range(2, 5)
		h := p - r.Intn(2)
		if h < 1 {
			h = 1
		}
		n = p * h
		cnf = genPigeon(p, h)
		if r.Bool() { // shuffled
			pm := r.Perm(len(cnf))
			c2 := make([][]int, len(cnf))
			for i, j := range pm {
				c2[i] = cnf[j]
			}
			cnf = c2
		}
		oc.Tag("gen:pigeon")
	case 5: // messy small formulas
		n = r.Range(3, 10)
		cnf = genMessyCnf(r, n, r.Range(2, 25), 5, false)
		oc.Tag("gen:messy")
	default: // mixed lengths over distinct variables, sometimes units
		n = r.Range(4, 16)
		m := r.Range(n, 4*n)
		for i := 0; i < m; i++ {
			k := 2
			if !r.Chance(1, 3) {
				k = r.Range(3, 5)
			}
			cnf = append(cnf, randClauseDistinct(r, n, k))
		}
		if r.Chance(1, 3) {
			for _, u := range randClauseDistinct(r, n, r.Range(1, 2)) {
				cnf = append(cnf, []int{u})
			}
		}
		oc.Tag("gen:mixed")
	}
	nbMax := 0
	switch r.Intn(3) {
	case 1:
		nbMax = 4
	case 2:
		nbMax = 16
	}
	oc.Sample = fmt.Sprintf("n=%d nbMax=%d cnf=%s", n, nbMax, cnfString(cnf))
	tieSearch(o, oc, r, n, cnf, nbMax)
}

func init() {
	register(&Prop{
		ID:   "XSEARCH",
		Rule: "scratch: random CNF (3-SAT near the threshold over 5..40 variables, 2-SAT, pigeonhole, messy small formulas, mixed clause lengths with unit clauses) solved by Solve() with the search recorder on (learned-clause limit default / 4 / 16); the recorded log of heuristic choices (decisions, order of the learned literals, restarts, order left by the sort of reduceLearned) is replayed by the Lean mirror GS.Search (op searchrun), which recomputes every propagation, analysis, backjump, watcher insertion, reduction and the verdict; verdict, bindings, trail, number of conflicts, learned ids, both families of watch lists and the literal order of every held clause must be equal. Negative control: one mutation of the accepted log must be rejected or lead elsewhere.",
		Gens: []Gen{{Name: "solve", Weight: 1, Make: func(r *Rng, tier string) interface{} { return SearchCase{Seed: r.Next()} }}},
		Run: func(o *Oracle, d json.RawMessage, oc *Outcome) {
			var c SearchCase
			if err := json.Unmarshal(d, &c); err != nil {
				oc.Fail("crash", "harness", "", "bad case: %v", err)
				return
			}
			oc.Key = keyOf(c)
			tieSearchRandom(o, oc, NewRng(c.Seed))
		},
		Cases:   defCases(8000, 100000),
		Timeout: defDur(30*time.Second, 60*time.Second),
		Wall:    defDur(15*time.Minute, 60*time.Minute),
	})
}
