package main

import (
	"encoding/json"
	"fmt"
	"reflect"
	"strings"
	"time"

	"github.com/crillab/gophersat/explain"
	"github.com/crillab/gophersat/solver"
)

// CertCase: a CNF problem and a sequence of clause lines offered as a certificate (C08).
type CertCase struct {
	NbVars int     `json:"nbvars"`
	Cnf    [][]int `json:"cnf"`
	Lines  [][]int `json:"lines"`
	Kind   string  `json:"kind"`
	Noise  bool    `json:"noise,omitempty"` // interleave non-clause lines (must be skipped)
}

func genuineTrace(n int, cnf [][]int) [][]int {
	c := CnfCase{NbVars: n, Clauses: cnf, Front: "slicenb"}
	run := solveCnf(&c, true, 0)
	return run.lines
}

func genCertCase(r *Rng, tier string) (c CertCase) {
	n := r.Range(2, 12)
	var cnf [][]int
	if r.Chance(3, 4) {
		cnf = genKSat(r, n, r.Range(3*n, 6*n), 3) // mostly unsatisfiable: real refutations exist
		if r.Chance(1, 3) {
			cnf = append(cnf, genKSat(r, n, r.Range(1, n), 2)...)
			cnf = append(cnf, []int{randLit(r, n)})
		}
	} else {
		cnf = genKSat(r, n, r.Range(n, 4*n), r.Range(2, 3))
	}
	cnf = shuffleCnf(r, cnf)
	rep := r.Chance(1, 4) // clauses (and, below, certificate lines) that write a literal twice
	if rep {
		for i := range cnf {
			if r.Chance(1, 3) && len(cnf[i]) > 0 {
				cnf[i] = append(cnf[i], cnf[i][r.Intn(len(cnf[i]))])
			} else if r.Chance(1, 6) && len(cnf[i]) > 0 { // both polarities of a variable: the clause always holds and must never act as a unit clause
				cnf[i] = append(cnf[i], -cnf[i][r.Intn(len(cnf[i]))])
				if r.Bool() {
					cnf[i][0], cnf[i][len(cnf[i])-1] = cnf[i][len(cnf[i])-1], cnf[i][0]
				}
			}
		}
	}
	c = CertCase{NbVars: n, Cnf: cnf}
	defer func() {
		if rep {
			for i := range c.Lines {
				if r.Chance(1, 4) && len(c.Lines[i]) > 0 {
					c.Lines[i] = append(append([]int{}, c.Lines[i]...), c.Lines[i][r.Intn(len(c.Lines[i]))])
				}
			}
			if len(c.Lines) > 0 && r.Chance(1, 6) { // one line longer than any read buffer: the same clause, its literals written over and over
				i := r.Intn(len(c.Lines))
				if base := c.Lines[i]; len(base) > 0 {
					long := append([]int{}, base...)
					for len(long) < 1500+r.Intn(1500) {
						long = append(long, base[r.Intn(len(base))])
					}
					c.Lines[i] = long
				}
			}
		}
	}()
	trace := genuineTrace(n, cnf)
	switch k := r.Intn(10); {
	case k < 3 || len(trace) == 0 && k < 6:
		c.Kind = "genuine"
		c.Lines = trace
	case k < 6: // one literal dropped or flipped, or one line removed
		c.Kind = "corrupted"
		c.Lines = copyCnf(trace)
		i := r.Intn(len(c.Lines))
		switch r.Intn(3) {
		case 0:
			if len(c.Lines[i]) > 0 {
				j := r.Intn(len(c.Lines[i]))
				c.Lines[i] = append(c.Lines[i][:j], c.Lines[i][j+1:]...)
			}
		case 1:
			if len(c.Lines[i]) > 0 {
				j := r.Intn(len(c.Lines[i]))
				c.Lines[i][j] = -c.Lines[i][j]
			}
		default:
			c.Lines = append(c.Lines[:i], c.Lines[i+1:]...)
		}
	case k < 8: // random clause sequence
		c.Kind = "random"
		m := r.Range(1, 8)
		for i := 0; i < m; i++ {
			c.Lines = append(c.Lines, randClauseDistinct(r, n, r.Range(1, 3)))
		}
		if r.Chance(1, 3) {
			c.Lines = append(c.Lines, []int{})
		}
	default: // consequences found by resolution of two input clauses (entailed; RUP or not)
		c.Kind = "resolvents"
		for t := 0; t < 6 && len(cnf) > 1; t++ {
			a, b := cnf[r.Intn(len(cnf))], cnf[r.Intn(len(cnf))]
			for _, l := range a {
				for _, l2 := range b {
					if l == -l2 {
						var res []int
						seen := map[int]bool{}
						for _, x := range append(append([]int{}, a...), b...) {
							if x != l && x != l2 && !seen[x] {
								seen[x] = true
								res = append(res, x)
							}
						}
						c.Lines = append(c.Lines, res)
					}
				}
			}
		}
		if len(c.Lines) > 8 {
			c.Lines = c.Lines[:8]
		}
	}
	c.Noise = r.Chance(1, 5)
	return c
}

func certText(c *CertCase) []string {
	var lines []string
	for i, l := range c.Lines {
		if c.Noise && i%2 == 0 {
			lines = append(lines, "c some comment", "")
		}
		s := ""
		for _, x := range l {
			s += fmt.Sprint(x, " ")
		}
		lines = append(lines, s+"0")
	}
	return lines
}

func hasTautology(c []int) bool {
	for i, a := range c {
		for _, b := range c[i+1:] {
			if a == -b {
				return true
			}
		}
	}
	return false
}

func init() {
	register(&Prop{
		ID: "C08",
		Rule: "(problem, certificate) pairs over 2..12 variables: the problem is uniform 2/3-SAT (mostly over-constrained, sometimes with a unit clause); the certificate is the genuine trace of the solver, that trace with one literal dropped / flipped or one line removed, a random clause sequence (optionally ending with the empty clause), or resolvents of input clauses; optionally interleaved with comment and blank lines. Checked through Unsat (reader) and UnsatChan (channel): accepted => every line entailed (verified GS.entailsB) ; all lines RUP for the verified GS.rupFirstBad => accepted ; second run gives the same answer; problem unchanged; UnsatSubset is an unsatisfiable sub-multiset or an error. Non-trivial = certificate with at least one line; distinct = distinct pair.",
		Gens:    []Gen{{Name: "cert", Weight: 1, Make: func(r *Rng, tier string) interface{} { return genCertCase(r, tier) }}},
		Run:     runCertCase,
		Cases:   defCases(2500, 60000),
		Timeout: defDur(15*time.Second, 60*time.Second),
		Wall:    defDur(50*time.Second, 12*time.Minute),
	})
}

func runCertCase(o *Oracle, d json.RawMessage, oc *Outcome) {
	var c CertCase
	if err := json.Unmarshal(d, &c); err != nil {
		oc.Fail("crash", "harness", "", "bad case: %v", err)
		return
	}
	oc.Key = keyOf(c)
	oc.Sample = fmt.Sprintf("kind=%s n=%d cnf=%s cert=%v", c.Kind, c.NbVars, cnfString(c.Cnf), c.Lines)
	if len(oc.Sample) > 600 {
		oc.Sample = oc.Sample[:600] + "…"
	}
	oc.Tag("kind:" + c.Kind)
	n := c.NbVars
	if len(c.Lines) > 0 {
		oc.Nontrivial = true
	}
	pb, err := explain.ParseCNF(strings.NewReader(plainDimacs(n, c.Cnf)))
	if err != nil {
		oc.Fail("spec", "parse-ok", "explain.ParseCNF", "plain DIMACS rejected: %v", err)
		return
	}
	before := copyCnf(pb.Clauses)
	text := certText(&c)
	// reader entry point, twice
	v1, err1 := pb.Unsat(strings.NewReader(strings.Join(text, "\n") + "\n"))
	tags1 := pb.VerifTagged()
	v2, err2 := pb.Unsat(strings.NewReader(strings.Join(text, "\n") + "\n"))
	// channel entry point
	ch := make(chan string)
	go func() {
		for _, l := range text {
			ch <- l
		}
		close(ch)
	}()
	v3, err3 := pb.UnsatChan(ch)
	for range ch { // UnsatChan may return before draining
	}
	tags3 := pb.VerifTagged()
	// exact differential with the Lean mirror of the checker (GS.Explain.runAll / runChan):
	// same verdict and same tagged clauses
	tagStr := func(t []bool) string {
		b := make([]byte, len(t))
		for i, x := range t {
			b[i] = '0'
			if x {
				b[i] = '1'
			}
		}
		return string(b)
	}
	mirror := func(op string, valid bool, tags []bool) {
		a := o.Ask(fmt.Sprintf("%s %d | %s | %s", op, n, encCnf(c.Cnf), encCnf(c.Lines)))
		oc.Corr++
		var mv int
		var mt string
		fs := strings.Fields(a)
		if len(fs) < 2 || !strings.HasPrefix(fs[0], "valid=") || !strings.HasPrefix(fs[1], "tagged=") {
			oc.Fail("corr", "explain-mirror", "explain.Problem.Unsat", "mirror answered %q", a)
			return
		}
		fmt.Sscanf(fs[0], "valid=%d", &mv)
		mt = strings.TrimPrefix(fs[1], "tagged=")
		if (mv == 1) != valid || mt != tagStr(tags) {
			oc.Fail("corr", "explain-mirror", "explain.Problem."+map[string]string{"xcheck": "Unsat", "xchan": "UnsatChan"}[op], "Go: valid=%v tagged=%s ; Lean mirror: %s", valid, tagStr(tags), a)
		}
	}
	mirror("xcheck", v1, tags1)
	mirror("xchan", v3, tags3)
	if err1 != nil || err2 != nil || err3 != nil {
		oc.Fail("spec", "no-error", "explain.Problem.Unsat", "errors on a syntactically valid certificate: %v %v %v", err1, err2, err3)
	}
	if v1 != v2 {
		oc.Fail("spec", "reusable-same-answer", "explain.Problem.Unsat", "first check %v, second check %v", v1, v2)
	}
	if !reflect.DeepEqual(before, pb.Clauses) || pb.NbClauses != len(before) {
		oc.Fail("spec", "problem-unchanged", "explain.Problem.Unsat", "clauses changed by checking: %d -> %d (NbClauses %d)", len(before), len(pb.Clauses), pb.NbClauses)
	}
	// UnsatChan stops at the first empty clause: compare on the prefix up to it
	upto := len(c.Lines)
	for i, l := range c.Lines {
		if len(l) == 0 {
			upto = i + 1
			break
		}
	}
	fbFull, _ := o.Rup(n, c.Cnf, c.Lines)
	fbPre, _ := o.Rup(n, c.Cnf, c.Lines[:upto])
	if v1 {
		oc.Tag("accepted")
	} else {
		oc.Tag("rejected")
	}
	judge := func(entry string, valid bool, lines [][]int, fb int) {
		if valid {
			// soundness: every line must be a logical consequence of the problem
			for i, l := range lines {
				if !o.Entails(n, cnfLins(c.Cnf), clauseLin(l)) {
					oc.Fail("spec", "accepted-lines-entailed", entry, "certificate accepted but line %d %v is not a consequence of the problem", i, l)
					break
				}
			}
		} else if fb < 0 {
			// completeness w.r.t. unit propagation (lines without complementary literals)
			taut := false
			for _, l := range lines {
				if hasTautology(l) {
					taut = true
				}
			}
			if !taut {
				oc.Fail("spec", "accepts-up-derivable", entry, "every line is derivable by unit propagation (verified checker) but the certificate was rejected")
			}
		}
	}
	judge("explain.Problem.Unsat", v1, c.Lines, fbFull)
	judge("explain.Problem.UnsatChan", v3, c.Lines[:upto], fbPre)
	// UnsatSubset
	pb2, _ := explain.ParseCNF(strings.NewReader(plainDimacs(n, c.Cnf)))
	sub, err := pb2.UnsatSubset()
	sat := o.CnfSat(n, c.Cnf)
	if sat {
		oc.Tag("problem-sat")
		if err == nil {
			oc.Fail("spec", "error-on-sat", "explain.Problem.UnsatSubset", "satisfiable problem but no error")
		}
	} else {
		oc.Tag("problem-unsat")
		if err != nil || sub == nil {
			oc.Fail("spec", "no-error-on-unsat", "explain.Problem.UnsatSubset", "unsatisfiable problem, error %v", err)
		} else {
			res := sub.Clauses
			if !o.SubMulti(res, c.Cnf) {
				oc.Fail("spec", "sub-multiset", "explain.Problem.UnsatSubset", "result is not a sub-multiset of the input: %v", res)
			} else if o.CnfSat(n, res) {
				oc.Fail("spec", "subset-unsat", "explain.Problem.UnsatSubset", "result %v is satisfiable", res)
			}
		}
	}
	_ = solver.Sat
}
