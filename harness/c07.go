package main

import (
	"encoding/json"
	"fmt"
	"reflect"
	"strings"
	"time"

	"github.com/crillab/gophersat/explain"
)

// MusCase: a CNF problem handed to the MUS extraction methods (C07).
type MusCase struct {
	NbVars int     `json:"nbvars"`
	Cnf    [][]int `json:"cnf"`
	Reuse  bool    `json:"reuse,omitempty"` // all methods are called one after the other on the SAME Problem value
	Big    bool    `json:"big,omitempty"`   // threshold 3-SAT with a real search: no MUS counting, no MUSMaxSat
	Pre    [][]int `json:"pre,omitempty"`   // with Reuse: a certificate checked (and usually rejected) on the Problem before the extractions
}

// genMusBig: threshold 3-SAT over 10..14 variables: the solver really searches and learns
// (units among the learned clauses), and the same Problem is used for several extractions.
func genMusBig(r *Rng, tier string) MusCase {
	n := r.Range(10, 14)
	m := int(float64(n)*4.6) + r.Range(0, n)
	c := MusCase{NbVars: n, Cnf: genKSat(r, n, m, 3), Reuse: true, Big: true}
	if r.Bool() {
		c.Pre = genKSat(r, n, r.Range(1, 3), r.Range(1, 2))
	}
	return c
}

func plainDimacs(n int, cnf [][]int) string {
	var sb strings.Builder
	sb.WriteString(fmt.Sprintf("p cnf %d %d\n", n, len(cnf)))
	for _, c := range cnf {
		for _, l := range c {
			sb.WriteString(fmt.Sprint(l, " "))
		}
		sb.WriteString("0\n")
	}
	return sb.String()
}

func genMusCase(r *Rng, tier string) MusCase {
	n := r.Range(1, 6)
	var cnf [][]int
	switch r.Intn(9) {
	case 8: // variables with several digits whose clauses read the same once written without separators (1 2 / 12, -1 2 / -12, 1 12 / 11 2): needed clauses that a careless key would confuse
		n = r.Range(13, 14)
		pairs := [][2][]int{{{1, 2}, {12}}, {{-1, 2}, {-12}}, {{1, 3}, {13}}, {{-1, 3}, {-13}}, {{1, -2}, {1, -2}}}
		p := pairs[r.Intn(4)]
		a, z := p[0], p[1][0]
		// one MUS that needs both look-alikes: a, (z), (-z or -a1), (-z or -a2)
		cnf = [][]int{append([]int{}, a...), {z}, {-z, -a[0]}, {-z, -a[1]}}
		cnf = append(cnf, genKSat(r, n, r.Range(0, 3), 3)...)
	case 7: // over-constrained 3-SAT whose clauses repeat a literal: refuted by search, and the certificate check has to treat "1 2 1" as a 2-literal clause
		n = r.Range(3, 7)
		cnf = genKSat(r, n, r.Range(4*n, 6*n), 3)
		for i := range cnf {
			if r.Chance(1, 3) {
				cnf[i] = append(cnf[i], cnf[i][r.Intn(len(cnf[i]))])
			}
		}
	case 0: // trivially conflicting units (+ noise)
		v := r.Range(1, n)
		cnf = [][]int{{v}, {-v}}
		cnf = append(cnf, genKSat(r, n, r.Range(0, 4), 2)...)
	case 1: // two disjoint cores
		n = r.Range(2, 6)
		a, b := 1, 2
		cnf = [][]int{{a}, {-a}, {b}, {-b}}
		if r.Bool() {
			cnf = [][]int{{a, b}, {-a, b}, {a, -b}, {-a, -b}}
			if n >= 4 {
				cnf = append(cnf, []int{3, 4}, []int{-3, 4}, []int{3, -4}, []int{-3, -4})
			}
		}
		cnf = append(cnf, genKSat(r, n, r.Range(0, 3), 2)...)
	case 2: // repeated clauses
		cnf = genKSat(r, n, r.Range(2, 4*n), r.Range(1, 3))
		for i := 0; i < 3 && len(cnf) > 0; i++ {
			cnf = append(cnf, append([]int{}, cnf[r.Intn(len(cnf))]...))
		}
	case 3: // satisfiable-leaning
		cnf = genKSat(r, n, r.Range(1, 2*n), r.Range(2, 3))
	case 4: // clauses with repeated literals / tautologies, unit-propagation refutable
		cnf = genMessyCnf(r, n, r.Range(3, 12), 3, true)
	default: // over-constrained: usually unsatisfiable with overlapping cores
		cnf = genKSat(r, n, r.Range(3*n, 6*n), r.Range(1, 3))
	}
	if len(cnf) > 14 {
		cnf = cnf[:14]
	}
	c := MusCase{NbVars: n, Cnf: shuffleCnf(r, cnf), Reuse: r.Bool()}
	if c.Reuse && r.Bool() {
		c.Pre = genKSat(r, n, r.Range(1, 3), r.Range(1, 2))
	}
	return c
}

// countMUSes counts the minimal unsatisfiable sub-multisets (as index sets) of cnf by brute
// force; used only as the decidable class predicate of a known finding.
func countMUSes(n int, cnf [][]int, limit int) int {
	m := len(cnf)
	if m > 14 {
		return -1
	}
	satMask := func(mask int) bool {
		for a := 0; a < 1<<uint(n); a++ {
			ok := true
			for i := 0; i < m && ok; i++ {
				if mask&(1<<uint(i)) == 0 {
					continue
				}
				cs := false
				for _, l := range cnf[i] {
					v := absInt(l) - 1
					if (a>>uint(v))&1 == 1 == (l > 0) {
						cs = true
						break
					}
				}
				ok = cs
			}
			if ok {
				return true
			}
		}
		return false
	}
	unsat := make([]bool, 1<<uint(m))
	for mask := 0; mask < 1<<uint(m); mask++ {
		unsat[mask] = !satMask(mask)
	}
	count := 0
	for mask := 0; mask < 1<<uint(m); mask++ {
		if !unsat[mask] {
			continue
		}
		minimal := true
		for i := 0; i < m; i++ {
			if mask&(1<<uint(i)) != 0 && unsat[mask&^(1<<uint(i))] {
				minimal = false
				break
			}
		}
		if minimal {
			count++
			if count >= limit {
				return count
			}
		}
	}
	return count
}

func init() {
	register(&Prop{
		ID: "C07",
		Rule: "CNF problems over 1..6 variables with up to 14 clauses: trivially conflicting units, two disjoint cores, repeated clauses, satisfiable formulas, over-constrained formulas with overlapping cores, over-constrained 3-SAT with repeated literals inside clauses; each handed (through explain.ParseCNF) to MUS, MUSDeletion, MUSInsertion and MUSMaxSat, on fresh Problem values or one after the other on the same value (then in half of the cases after a usually wrong certificate was checked on it with Problem.Unsat). The result is judged by the verified GS.subMultiset and GS.isMUSB; the receiver is compared before/after. Non-trivial = unsatisfiable input that is not already minimal; distinct = distinct clause list.",
		Gens: []Gen{
			{Name: "mus", Weight: 4, Make: func(r *Rng, tier string) interface{} { return genMusCase(r, tier) }},
			{Name: "mus-3sat-reuse", Weight: 3, Make: func(r *Rng, tier string) interface{} { return genMusBig(r, tier) }},
		},
		Run:     runMusCase,
		Cases:   defCases(3000, 40000),
		Timeout: defDur(15*time.Second, 60*time.Second),
		Wall:    defDur(50*time.Second, 12*time.Minute),
	})
}

func copyCnf(cnf [][]int) [][]int {
	cp := make([][]int, len(cnf))
	for i, c := range cnf {
		cp[i] = append([]int{}, c...)
	}
	return cp
}

func runMusCase(o *Oracle, d json.RawMessage, oc *Outcome) {
	var c MusCase
	if err := json.Unmarshal(d, &c); err != nil {
		oc.Fail("crash", "harness", "", "bad case: %v", err)
		return
	}
	oc.Key = keyOf(c)
	oc.Sample = fmt.Sprintf("n=%d cnf=%s", c.NbVars, cnfString(c.Cnf))
	n := c.NbVars
	sat := o.CnfSat(n, c.Cnf)
	nMus := 0
	if !sat && !c.Big {
		nMus = countMUSes(n, c.Cnf, 3)
		if nMus >= 2 {
			oc.Class("more-than-one-mus")
			oc.Tag("several-muses")
		} else {
			oc.Tag("single-mus")
		}
		if !o.IsMUS(n, c.Cnf) {
			oc.Nontrivial = true
		}
	} else {
		oc.Tag("satisfiable")
	}
	text := plainDimacs(n, c.Cnf)
	methods := []struct {
		name string
		run  func(pb *explain.Problem) (*explain.Problem, error)
	}{
		{"explain.Problem.MUS", func(pb *explain.Problem) (*explain.Problem, error) { return pb.MUS() }},
		{"explain.Problem.MUSDeletion", func(pb *explain.Problem) (*explain.Problem, error) { return pb.MUSDeletion() }},
		{"explain.Problem.MUSInsertion", func(pb *explain.Problem) (*explain.Problem, error) { return pb.MUSInsertion() }},
		{"explain.Problem.MUSMaxSat", func(pb *explain.Problem) (*explain.Problem, error) { return pb.MUSMaxSat() }},
	}
	if c.Big {
		oc.Nontrivial = !sat
		oc.Tag("3sat-reuse")
		// MUSMaxSat is exponential-ish here and has its own known finding: keep the three others, twice
		methods = append(methods[:3], methods[:3]...)
	}
	if c.Reuse {
		oc.Tag("same-problem-reused")
	}
	var shared *explain.Problem
	for _, m := range methods {
		var pb *explain.Problem
		var err error
		if c.Reuse && shared != nil {
			pb = shared // the caller's problem is left unchanged by every call: it can be used again
		} else {
			pb, err = explain.ParseCNF(strings.NewReader(text))
			shared = pb
			if err == nil && c.Reuse && len(c.Pre) > 0 {
				// the caller first checks some certificate on this problem (mostly a wrong one): whatever
				// the answer, the problem is still his problem afterwards
				var sb strings.Builder
				for _, cl := range c.Pre {
					sb.WriteString(encInts(cl) + " 0\n")
				}
				if ok, cerr := pb.Unsat(strings.NewReader(sb.String())); cerr == nil && !ok {
					oc.Tag("after-rejected-certificate")
				}
			}
		}
		if err != nil {
			oc.Fail("spec", "parse-ok", "explain.ParseCNF", "plain DIMACS rejected: %v", err)
			return
		}
		before := copyCnf(pb.Clauses)
		bv, bc := pb.NbVars, pb.NbClauses
		func() {
			defer func() {
				if r := recover(); r != nil {
					oc.Fail("panic", "no-panic", m.name, "panic: %v | %s", r, panicSite())
				}
			}()
			mus, err := m.run(pb)
			if sat {
				if err == nil {
					oc.Fail("spec", "error-on-sat", m.name, "satisfiable problem, but no error (result %v)", mus)
				}
			} else if err != nil {
				oc.Fail("spec", "no-error-on-unsat", m.name, "unsatisfiable problem, error %v", err)
			} else if mus == nil {
				oc.Fail("spec", "no-error-on-unsat", m.name, "nil result without error")
			} else {
				res := mus.Clauses
				if mus.NbClauses < len(res) {
					res = res[:mus.NbClauses]
				}
				if !o.SubMulti(res, c.Cnf) {
					oc.Fail("spec", "sub-multiset", m.name, "result %v is not a sub-multiset of the input", res)
				} else if o.CnfSat(n, res) {
					oc.Fail("spec", "mus-unsat", m.name, "result %v is satisfiable", res)
				} else if !o.IsMUS(n, res) {
					oc.Fail("spec", "mus-minimal", m.name, "result %v is unsatisfiable but not minimal", res)
				}
			}
		}()
		if !reflect.DeepEqual(before, pb.Clauses) || bv != pb.NbVars || bc != pb.NbClauses {
			oc.Fail("spec", "caller-unchanged", m.name, "receiver changed: clauses %v -> %v, NbVars %d -> %d, NbClauses %d -> %d", before, pb.Clauses, bv, pb.NbVars, bc, pb.NbClauses)
		}
	}
}
