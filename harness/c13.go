package main

import (
	"encoding/json"
	"fmt"
	"reflect"
	"strings"
	"time"

	"github.com/crillab/gophersat/explain"
	"github.com/crillab/gophersat/solver"
)

// problemLins reads a parsed solver.Problem back as linear constraints: its unit facts and
// its remaining constraints (literals, weights, degree).
func problemLins(pb *solver.Problem) []Lin {
	var res []Lin
	for _, u := range pb.Units {
		res = append(res, clauseLin([]int{int(u.Int())}))
	}
	for _, c := range pb.Clauses {
		l := Lin{Degree: c.Cardinality()}
		for i := 0; i < c.Len(); i++ {
			l.Lits = append(l.Lits, int(c.Get(i).Int()))
			l.Coefs = append(l.Coefs, c.Weight(i))
		}
		res = append(res, l)
	}
	return res
}

// OpbCase: an OPB file given by its abstract content and a rendered text.
type OpbCase struct {
	Constrs  []Constr `json:"constrs"` // kinds gteq / eq only, weights of either sign
	CostLits []int    `json:"costlits,omitempty"`
	CostW    []int    `json:"costw,omitempty"`
	Text     string   `json:"text"`
	Glued    bool     `json:"glued,omitempty"` // uses '>=1' or 'min:+1' without space (legal per the PB grammar)
}

type FormatCase struct {
	Format string      `json:"format"` // dimacs | opb | wcnf | explain
	Cnf    *CnfCase    `json:"cnf,omitempty"`
	Opb    *OpbCase    `json:"opb,omitempty"`
	Wcnf   *MaxSatCase `json:"wcnf,omitempty"`
}

func opbTerm(r *Rng, w, l int, first bool) string {
	v := absInt(l)
	name := fmt.Sprintf("x%d", v)
	if l < 0 {
		name = "~" + name
	}
	sign := ""
	if w >= 0 && (!first || r.Bool()) {
		sign = "+"
	}
	sp := " "
	if r.Chance(1, 8) {
		sp = "  "
	}
	return fmt.Sprintf("%s%d%s%s", sign, w, sp, name)
}

func genOpbCase(r *Rng, tier string) OpbCase {
	n := r.Range(1, 9)
	m := r.Range(1, n+4)
	var c OpbCase
	var sb strings.Builder
	if r.Chance(1, 2) {
		sb.WriteString(fmt.Sprintf("* #variable= %d #constraint= %d\n", n, m))
	}
	c.Glued = r.Chance(1, 25)
	if r.Chance(1, 2) {
		k := r.Range(1, n)
		c.CostLits = randClauseDistinct(r, n, k)
		c.CostW = make([]int, k)
		sb.WriteString("min:")
		for i := range c.CostW {
			c.CostW[i] = r.Range(0, 6)
			if r.Chance(1, 10) {
				c.CostW[i] = -r.Range(1, 5)
			}
			if !(c.Glued && i == 0) {
				sb.WriteString(" ")
			}
			sb.WriteString(opbTerm(r, c.CostW[i], c.CostLits[i], i == 0))
		}
		sb.WriteString(" ;\n")
	}
	for i := 0; i < m; i++ {
		if r.Chance(1, 8) {
			sb.WriteString("* a comment line\n")
		}
		k := r.Range(1, min2(n, 5))
		lits := randClauseDistinct(r, n, k)
		ws := make([]int, k)
		lo, hi := 0, 0
		for j := range ws {
			ws[j] = r.Range(-5, 5)
			if ws[j] > 0 {
				hi += ws[j]
			} else {
				lo += ws[j]
			}
		}
		kind := "gteq"
		if r.Chance(1, 3) {
			kind = "eq"
		}
		deg := r.Range(lo-1, hi+1)
		c.Constrs = append(c.Constrs, Constr{Kind: kind, Lits: lits, Weights: ws, N: deg})
		for j := range ws {
			if j > 0 {
				sb.WriteString(" ")
			}
			sb.WriteString(opbTerm(r, ws[j], lits[j], j == 0))
		}
		op := ">="
		if kind == "eq" {
			op = "="
		}
		if c.Glued {
			sb.WriteString(fmt.Sprintf(" %s%d ;\n", op, deg))
		} else if r.Chance(1, 6) {
			sb.WriteString(fmt.Sprintf(" %s %d;\n", op, deg))
		} else {
			sb.WriteString(fmt.Sprintf(" %s %d ;\n", op, deg))
		}
	}
	c.Text = sb.String()
	return c
}

func genFormatCase(r *Rng, tier string) FormatCase {
	switch r.Intn(8) {
	case 0, 1, 2:
		n := r.Range(1, 9)
		cnf := genMessyCnf(r, n, r.Range(0, 3*n), 4, true)
		if r.Bool() {
			cnf = genKSat(r, n, r.Range(1, 4*n), r.Range(1, 3))
		}
		nb := n + r.Intn(3)
		cc := CnfCase{NbVars: nb, Clauses: cnf, Front: "dimacs", Text: renderDimacs(r, nb, cnf, false)}
		return FormatCase{Format: "dimacs", Cnf: &cc}
	case 3, 4:
		o := genOpbCase(r, tier)
		return FormatCase{Format: "opb", Opb: &o}
	case 5:
		w := genMaxSatWCNF(r, tier)
		return FormatCase{Format: "wcnf", Wcnf: &w}
	default:
		n := r.Range(1, 9)
		cnf := genMessyCnf(r, n, r.Range(0, 3*n), 4, true)
		nb := n + r.Intn(3)
		cc := CnfCase{NbVars: nb, Clauses: cnf, Front: "dimacs", Text: renderDimacs(r, nb, cnf, false)}
		return FormatCase{Format: "explain", Cnf: &cc}
	}
}

func init() {
	register(&Prop{
		ID: "C13",
		Rule: "well-formed texts with free layout: DIMACS CNF (1..9 variables + up to 2 unused, messy or uniform clauses, comments between clauses, several clauses per line, clauses broken over lines, tabs, CRLF, optional final newline) through solver.ParseCNF and explain.ParseCNF; OPB (1..9 variables, >= and = constraints with coefficients -5..5 and any degree, optional 'min:' objective, comment lines, optional '+', 1 case in 25 with the operator glued to the integer) through solver.ParseOPB; WCNF (as for C04) through maxsat.ParseWCNF. The parsed problem is read back (units + constraints + cost function) and its model set and per-model cost are compared with the text's meaning by the verified GS.modelsOver / GS.cost. Non-trivial = at least 2 constraints; distinct = distinct text.",
		Gens:    []Gen{{Name: "text", Weight: 1, Make: func(r *Rng, tier string) interface{} { return genFormatCase(r, tier) }}},
		Run:     runFormatCase,
		Classify: func(d json.RawMessage) []string {
			var c FormatCase
			if json.Unmarshal(d, &c) == nil && c.Opb != nil && c.Opb.Glued {
				return []string{"opb-operator-glued-to-integer"}
			}
			return nil
		},
		Cases:   defCases(4000, 100000),
		Timeout: defDur(10*time.Second, 60*time.Second),
		Wall:    defDur(50*time.Second, 12*time.Minute),
	})
}

// compareParsed checks that a parsed problem has exactly the models of sem over 1..n.
func compareParsed(o *Oracle, oc *Outcome, entry string, pb *solver.Problem, n int, sem []Lin) {
	if pb.Status == solver.Unsat {
		if o.Sat(n, sem) {
			oc.Fail("spec", "parsed-same-models", entry, "problem refuted at parse time but the text is satisfiable")
		}
		return
	}
	got := problemLins(pb)
	if pb.Status == solver.Sat && len(pb.Clauses) != 0 {
		oc.Fail("spec", "parsed-same-models", entry, "status Sat with %d remaining constraints", len(pb.Clauses))
	}
	if mv := maxVarLins(got); mv > n {
		oc.Fail("spec", "parsed-same-models", entry, "parsed problem mentions variable %d > %d", mv, n)
		return
	}
	want := o.Models(n, sem)
	have := o.Models(n, got)
	if !equalStrings(want, have) {
		oc.Fail("spec", "parsed-same-models", entry, "text has %d models over %d variables, parsed problem (units %v + %d constraints) has %d", len(want), n, pb.Units, len(pb.Clauses), len(have))
		return
	}
	// then solve what was parsed: the verdict and the model must be the text's
	s := solver.New(pb)
	st := s.Solve()
	if (st == solver.Sat) != (len(want) > 0) || (st != solver.Sat && st != solver.Unsat) {
		oc.Fail("spec", "parsed-then-solved", entry+"+Solve", "status %v, the text has %d models", st, len(want))
	} else if st == solver.Sat {
		m := s.Model()
		if len(m) < n {
			m = append(m, make([]bool, n-len(m))...)
		}
		if a := o.Eval(len(m), sem, m); a != "ok" {
			oc.Fail("spec", "parsed-then-solved", entry+"+Solve", "model %v is not a model of the text: %s", m, a)
		}
	}
}

func runFormatCase(o *Oracle, d json.RawMessage, oc *Outcome) {
	var c FormatCase
	if err := json.Unmarshal(d, &c); err != nil {
		oc.Fail("crash", "harness", "", "bad case: %v", err)
		return
	}
	oc.Key = keyOf(c)
	oc.Tag("format:" + c.Format)
	switch c.Format {
	case "dimacs":
		cc := c.Cnf
		oc.Sample = fmt.Sprintf("dimacs %q", cc.Text)
		oc.Nontrivial = len(cc.Clauses) >= 2
		pb, err := solver.ParseCNF(strings.NewReader(cc.Text))
		if err != nil {
			oc.Fail("spec", "parse-ok", "solver.ParseCNF", "well-formed DIMACS rejected: %v", err)
			return
		}
		if pb.NbVars != cc.NbVars {
			oc.Fail("spec", "declared-vars", "solver.ParseCNF", "NbVars = %d, header declares %d", pb.NbVars, cc.NbVars)
		}
		compareParsed(o, oc, "solver.ParseCNF", pb, cc.NbVars, cnfLins(cc.Clauses))
	case "explain":
		cc := c.Cnf
		oc.Sample = fmt.Sprintf("explain %q", cc.Text)
		oc.Nontrivial = len(cc.Clauses) >= 2
		pb, err := explain.ParseCNF(strings.NewReader(cc.Text))
		if err != nil {
			oc.Fail("spec", "parse-ok", "explain.ParseCNF", "well-formed DIMACS rejected: %v", err)
			return
		}
		want := cc.Clauses
		if want == nil {
			want = [][]int{}
		}
		got := pb.Clauses
		if got == nil {
			got = [][]int{}
		}
		same := len(got) == len(want)
		for i := 0; same && i < len(got); i++ {
			if len(got[i]) != len(want[i]) {
				same = false
			}
			for j := 0; same && j < len(got[i]); j++ {
				same = got[i][j] == want[i][j]
			}
		}
		if !same || pb.NbVars != cc.NbVars || pb.NbClauses != len(want) {
			oc.Fail("spec", "parsed-same-clauses", "explain.ParseCNF", "text has clauses %v over %d variables; parsed %v, NbVars %d, NbClauses %d", want, cc.NbVars, got, pb.NbVars, pb.NbClauses)
		}
	case "opb":
		oc_ := c.Opb
		oc.Sample = fmt.Sprintf("opb %q", oc_.Text)
		oc.Nontrivial = len(oc_.Constrs) >= 2
		if oc_.Glued {
			oc.Class("opb-operator-glued-to-integer")
		}
		pb, err := solver.ParseOPB(strings.NewReader(oc_.Text))
		if err != nil {
			oc.Fail("spec", "parse-ok", "solver.ParseOPB", "well-formed OPB rejected: %v", err)
			return
		}
		n := maxVarConstrs(oc_.Constrs)
		for _, l := range oc_.CostLits {
			if absInt(l) > n {
				n = absInt(l)
			}
		}
		sem := semAll(oc_.Constrs)
		compareParsed(o, oc, "solver.ParseOPB", pb, n, sem)
		// cost function: same cost for every model of the text
		lits, ws := pb.VerifCostFunc()
		if (len(oc_.CostLits) == 0) != (len(lits) == 0) {
			oc.Fail("spec", "parsed-same-cost", "solver.ParseOPB", "objective in text: %v, parsed: %v", oc_.CostLits, lits)
		} else if len(lits) > 0 && pb.Status != solver.Unsat {
			if ws == nil {
				ws = make([]int, len(lits))
				for i := range ws {
					ws[i] = 1
				}
			}
			a := o.Ask(fmt.Sprintf("costs %d | %s | %s", n, encProblem(sem), encTerms(oc_.CostW, oc_.CostLits)))
			b := o.Ask(fmt.Sprintf("costs %d | %s | %s", n, encProblem(sem), encTerms(ws, lits)))
			if a != b {
				oc.Fail("spec", "parsed-same-cost", "solver.ParseOPB", "objective %v*%v parsed as %v*%v", oc_.CostW, oc_.CostLits, ws, lits)
			}
		}
	case "wcnf":
		b, _ := json.Marshal(c.Wcnf)
		sub := Outcome{}
		runMaxSatCase(o, b, &sub)
		oc.Failures = append(oc.Failures, sub.Failures...)
		oc.Sample = sub.Sample
		oc.Nontrivial = sub.Nontrivial
	}
	_ = reflect.DeepEqual
	if len(oc.Sample) > 500 {
		oc.Sample = oc.Sample[:500] + "…"
	}
}
