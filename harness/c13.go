package main

import (
	"sort"
	"encoding/json"
	"fmt"
	"reflect"
	"strings"
	"time"

	"github.com/crillab/gophersat/explain"
	"github.com/crillab/gophersat/solver"
)

// problemLins reads a parsed solver.Problem back as linear constraints: its unit facts and
// its remaining constraints (literals, weights, degree).
func problemLins(pb *solver.Problem) []Lin {
	var res []Lin
	for _, u := range pb.Units {
		res = append(res, clauseLin([]int{int(u.Int())}))
	}
	for _, c := range pb.Clauses {
		l := Lin{Degree: c.Cardinality()}
		for i := 0; i < c.Len(); i++ {
			l.Lits = append(l.Lits, int(c.Get(i).Int()))
			l.Coefs = append(l.Coefs, c.Weight(i))
		}
		res = append(res, l)
	}
	return res
}

// OpbCase: an OPB file given by its abstract content and a rendered text.
type OpbCase struct {
	Constrs  []Constr `json:"constrs"` // kinds gteq / eq only, weights of either sign
	CostLits []int    `json:"costlits,omitempty"`
	CostW    []int    `json:"costw,omitempty"`
	Text     string   `json:"text"`
	Glued    bool     `json:"glued,omitempty"` // uses '>=1' or 'min:+1' without space (legal per the PB grammar)
}

type FormatCase struct {
	Format string      `json:"format"` // dimacs | opb | wcnf | explain
	Cnf    *CnfCase    `json:"cnf,omitempty"`
	Opb    *OpbCase    `json:"opb,omitempty"`
	Wcnf   *MaxSatCase `json:"wcnf,omitempty"`
}

func opbTerm(r *Rng, w, l int, first bool) string {
	v := absInt(l)
	name := fmt.Sprintf("x%d", v)
	if l < 0 {
		name = "~" + name
	}
	sign := ""
	if w >= 0 && (!first || r.Bool()) {
		sign = "+"
	}
	sp := " "
	if r.Chance(1, 8) {
		sp = "  "
	}
	return fmt.Sprintf("%s%d%s%s", sign, w, sp, name)
}

func genOpbCase(r *Rng, tier string) OpbCase { return genOpbCaseMode(r, tier, r.Chance(1, 6)) }

func genOpbCaseMode(r *Rng, tier string, small bool) OpbCase {
	n := r.Range(1, 9)
	m := r.Range(1, n+4)
	// small: few variables, few constraints, an objective with tiny coefficients of either sign: optima around 0
	if small {
		n = r.Range(1, 4)
		m = r.Range(1, 2)
	}
	// eqMode: one or two '=' lines with small positive coefficients and a small degree: the '<='
	// half forces the heavy literals false and leaves work for the '>=' half
	eqMode := !small && r.Chance(1, 6)
	if eqMode {
		n = r.Range(3, 6)
		m = r.Range(1, 2)
	}
	var c OpbCase
	var sb strings.Builder
	if r.Chance(1, 2) {
		sb.WriteString(fmt.Sprintf("* #variable= %d #constraint= %d\n", n, m))
	}
	c.Glued = r.Chance(1, 25)
	if small || r.Chance(1, 2) {
		k := r.Range(1, n)
		if small {
			k = r.Range(1, min2(n, 2))
		}
		c.CostLits = randClauseDistinct(r, n, k)
		c.CostW = make([]int, k)
		sb.WriteString("min:")
		for i := range c.CostW {
			c.CostW[i] = r.Range(0, 6)
			if r.Chance(1, 10) {
				c.CostW[i] = -r.Range(1, 5)
			}
			if small {
				c.CostW[i] = r.Range(-2, 2)
			}
			if !(c.Glued && i == 0) {
				sb.WriteString(" ")
			}
			sb.WriteString(opbTerm(r, c.CostW[i], c.CostLits[i], i == 0))
		}
		sb.WriteString(" ;\n")
	}
	for i := 0; i < m; i++ {
		if r.Chance(1, 8) {
			sb.WriteString("* a comment line\n")
		}
		k := r.Range(1, min2(n, 5))
		if eqMode {
			k = r.Range(3, min2(n, 5))
		}
		lits := randClauseDistinct(r, n, k)
		ws := make([]int, k)
		lo, hi := 0, 0
		for j := range ws {
			ws[j] = r.Range(-5, 5)
			if eqMode {
				ws[j] = r.Range(1, 3)
			}
			if ws[j] > 0 {
				hi += ws[j]
			} else {
				lo += ws[j]
			}
		}
		kind := "gteq"
		if r.Chance(1, 3) || eqMode {
			kind = "eq"
		}
		deg := r.Range(lo-1, hi+1)
		if eqMode {
			deg = r.Range(1, 3)
		}
		c.Constrs = append(c.Constrs, Constr{Kind: kind, Lits: lits, Weights: ws, N: deg})
		for j := range ws {
			if j > 0 {
				sb.WriteString(" ")
			}
			sb.WriteString(opbTerm(r, ws[j], lits[j], j == 0))
		}
		op := ">="
		if kind == "eq" {
			op = "="
		}
		if c.Glued {
			sb.WriteString(fmt.Sprintf(" %s%d ;\n", op, deg))
		} else if r.Chance(1, 6) {
			sb.WriteString(fmt.Sprintf(" %s %d;\n", op, deg))
		} else {
			sb.WriteString(fmt.Sprintf(" %s %d ;\n", op, deg))
		}
	}
	c.Text = sb.String()
	return c
}

// genOpbUnits: OPB files decided (or nearly) at parse time: constraints that force all their
// literals (sum of coefficients = degree), the same literal forced by several of them,
// consistent with a hidden assignment, plus a few free variables.
func genOpbUnits(r *Rng, tier string) OpbCase {
	n := r.Range(1, 7)
	hidden := make([]bool, n+1)
	for i := range hidden {
		hidden[i] = r.Bool()
	}
	var c OpbCase
	var sb strings.Builder
	m := r.Range(1, 5)
	for i := 0; i < m; i++ {
		k := r.Range(1, min2(n, 3))
		vs := r.Perm(n)[:k]
		lits := make([]int, k)
		ws := make([]int, k)
		deg := 0
		for j, v := range vs {
			lits[j] = v + 1
			if !hidden[v+1] {
				lits[j] = -(v + 1)
			}
			ws[j] = r.Range(1, 3)
			deg += ws[j]
		}
		kind := "gteq"
		if r.Chance(1, 4) {
			kind = "eq"
		}
		c.Constrs = append(c.Constrs, Constr{Kind: kind, Lits: lits, Weights: ws, N: deg})
		for j := range ws {
			if j > 0 {
				sb.WriteString(" ")
			}
			sb.WriteString(opbTerm(r, ws[j], lits[j], j == 0))
		}
		op := ">="
		if kind == "eq" {
			op = "="
		}
		sb.WriteString(fmt.Sprintf(" %s %d ;\n", op, deg))
	}
	if r.Chance(1, 3) { // a free clause over the remaining variables
		lits := randClauseDistinct(r, n, min2(n, 2))
		c.Constrs = append(c.Constrs, Constr{Kind: "gteq", Lits: lits, Weights: []int{1, 1}[:len(lits)], N: 1})
		for j, l := range lits {
			if j > 0 {
				sb.WriteString(" ")
			}
			sb.WriteString(opbTerm(r, 1, l, j == 0))
		}
		sb.WriteString(" >= 1 ;\n")
	}
	c.Text = sb.String()
	return c
}

func genFormatCase(r *Rng, tier string) FormatCase {
	switch r.Intn(8) {
	case 0, 1, 2:
		n := r.Range(1, 9)
		cnf := genMessyCnf(r, n, r.Range(0, 3*n), 4, true)
		if r.Bool() {
			cnf = genKSat(r, n, r.Range(1, 4*n), r.Range(1, 3))
		}
		nb := n + r.Intn(3)
		cc := CnfCase{NbVars: nb, Clauses: cnf, Front: "dimacs", Text: renderDimacs(r, nb, cnf, false)}
		return FormatCase{Format: "dimacs", Cnf: &cc}
	case 3, 4:
		o := genOpbCase(r, tier)
		if r.Chance(1, 4) {
			o = genOpbUnits(r, tier)
		}
		return FormatCase{Format: "opb", Opb: &o}
	case 5:
		w := genMaxSatWCNF(r, tier)
		return FormatCase{Format: "wcnf", Wcnf: &w}
	default:
		n := r.Range(1, 9)
		cnf := genMessyCnf(r, n, r.Range(0, 3*n), 4, true)
		nb := n + r.Intn(3)
		cc := CnfCase{NbVars: nb, Clauses: cnf, Front: "dimacs", Text: renderDimacs(r, nb, cnf, false)}
		return FormatCase{Format: "explain", Cnf: &cc}
	}
}

func init() {
	register(&Prop{
		ID: "C13",
		Rule: "well-formed texts with free layout: DIMACS CNF (1..9 variables + up to 2 unused, messy or uniform clauses, comments between clauses, several clauses per line, clauses broken over lines, tabs, CRLF, optional final newline) through solver.ParseCNF and explain.ParseCNF; OPB (1..9 variables, >= and = constraints with coefficients -5..5 and any degree, optional 'min:' objective, comment lines, optional '+', 1 case in 25 with the operator glued to the integer) through solver.ParseOPB; WCNF (as for C04) through maxsat.ParseWCNF. The parsed problem is read back (units + constraints + cost function) and its model set and per-model cost are compared with the text's meaning by the verified GS.modelsOver / GS.cost. Non-trivial = at least 2 constraints; distinct = distinct text.",
		Gens:    []Gen{{Name: "text", Weight: 1, Make: func(r *Rng, tier string) interface{} { return genFormatCase(r, tier) }}},
		Slices:  []SliceRef{{"XCNFBYTES", 3000, 60000}, {"XTEXTBYTES", 3000, 60000}},
		Run:     runFormatCase,
		Classify: func(d json.RawMessage) []string {
			var c FormatCase
			if json.Unmarshal(d, &c) == nil && c.Opb != nil && c.Opb.Glued {
				return []string{"opb-operator-glued-to-integer"}
			}
			return nil
		},
		Cases:   defCases(4000, 100000),
		Timeout: defDur(10*time.Second, 60*time.Second),
		Wall:    defDur(50*time.Second, 12*time.Minute),
	})
}

// compareParsed checks that a parsed problem has exactly the models of sem over 1..n.
func compareParsed(o *Oracle, oc *Outcome, entry string, pb *solver.Problem, n int, sem []Lin) {
	if pb.Status == solver.Unsat {
		if o.Sat(n, sem) {
			oc.Fail("spec", "parsed-same-models", entry, "problem refuted at parse time but the text is satisfiable")
		}
		return
	}
	got := problemLins(pb)
	if pb.Status == solver.Sat && len(pb.Clauses) != 0 {
		oc.Fail("spec", "parsed-same-models", entry, "status Sat with %d remaining constraints", len(pb.Clauses))
	}
	if mv := maxVarLins(got); mv > n {
		oc.Fail("spec", "parsed-same-models", entry, "parsed problem mentions variable %d > %d", mv, n)
		return
	}
	want := o.Models(n, sem)
	have := o.Models(n, got)
	if !equalStrings(want, have) {
		oc.Fail("spec", "parsed-same-models", entry, "text has %d models over %d variables, parsed problem (units %v + %d constraints) has %d", len(want), n, pb.Units, len(pb.Clauses), len(have))
		return
	}
	// then solve what was parsed: the verdict and the model must be the text's; when the parsed
	// problem declares exactly the text's variables, all its models are enumerated instead and must
	// be the text's (a constraint kept in a form the solver does not enforce shows here, not in
	// the read-back above)
	if pb.NbVars == n && len(want) <= 256 && pb.Status != solver.Unsat {
		er := runEnumerate(solver.New(pb), 16, nil)
		gotM := append([]string(nil), er.models...)
		sort.Strings(gotM)
		wantM := append([]string(nil), want...)
		sort.Strings(wantM)
		if !equalStrings(gotM, wantM) {
			dup, extra, missing := diffModels(gotM, wantM)
			oc.Fail("spec", "parsed-then-solved", entry+"+Enumerate", "the parsed problem has %d models, the text %d: duplicated %v, not models of the text %v, missing %v", len(gotM), len(wantM), dup, extra, missing)
		}
		oc.Tag("parsed-then-enumerated")
		return
	}
	s := solver.New(pb)
	st := s.Solve()
	if (st == solver.Sat) != (len(want) > 0) || (st != solver.Sat && st != solver.Unsat) {
		oc.Fail("spec", "parsed-then-solved", entry+"+Solve", "status %v, the text has %d models", st, len(want))
	} else if st == solver.Sat {
		m := s.Model()
		if len(m) < n {
			m = append(m, make([]bool, n-len(m))...)
		}
		if a := o.Eval(len(m), sem, m); a != "ok" {
			oc.Fail("spec", "parsed-then-solved", entry+"+Solve", "model %v is not a model of the text: %s", m, a)
		}
	}
}

func runFormatCase(o *Oracle, d json.RawMessage, oc *Outcome) {
	var c FormatCase
	if err := json.Unmarshal(d, &c); err != nil {
		oc.Fail("crash", "harness", "", "bad case: %v", err)
		return
	}
	oc.Key = keyOf(c)
	oc.Tag("format:" + c.Format)
	tokenDiff(o, oc, &c)
	switch c.Format {
	case "dimacs":
		cc := c.Cnf
		oc.Sample = fmt.Sprintf("dimacs %q", cc.Text)
		oc.Nontrivial = len(cc.Clauses) >= 2
		pb, err := solver.ParseCNF(strings.NewReader(cc.Text))
		if err != nil {
			oc.Fail("spec", "parse-ok", "solver.ParseCNF", "well-formed DIMACS rejected: %v", err)
			return
		}
		if pb.NbVars != cc.NbVars {
			oc.Fail("spec", "declared-vars", "solver.ParseCNF", "NbVars = %d, header declares %d", pb.NbVars, cc.NbVars)
		}
		compareParsed(o, oc, "solver.ParseCNF", pb, cc.NbVars, cnfLins(cc.Clauses))
	case "explain":
		cc := c.Cnf
		oc.Sample = fmt.Sprintf("explain %q", cc.Text)
		oc.Nontrivial = len(cc.Clauses) >= 2
		pb, err := explain.ParseCNF(strings.NewReader(cc.Text))
		if err != nil {
			oc.Fail("spec", "parse-ok", "explain.ParseCNF", "well-formed DIMACS rejected: %v", err)
			return
		}
		want := cc.Clauses
		if want == nil {
			want = [][]int{}
		}
		got := pb.Clauses
		if got == nil {
			got = [][]int{}
		}
		same := len(got) == len(want)
		for i := 0; same && i < len(got); i++ {
			if len(got[i]) != len(want[i]) {
				same = false
			}
			for j := 0; same && j < len(got[i]); j++ {
				same = got[i][j] == want[i][j]
			}
		}
		if !same || pb.NbVars != cc.NbVars || pb.NbClauses != len(want) {
			oc.Fail("spec", "parsed-same-clauses", "explain.ParseCNF", "text has clauses %v over %d variables; parsed %v, NbVars %d, NbClauses %d", want, cc.NbVars, got, pb.NbVars, pb.NbClauses)
		}
	case "opb":
		oc_ := c.Opb
		oc.Sample = fmt.Sprintf("opb %q", oc_.Text)
		oc.Nontrivial = len(oc_.Constrs) >= 2
		if oc_.Glued {
			oc.Class("opb-operator-glued-to-integer")
		}
		pb, err := solver.ParseOPB(strings.NewReader(oc_.Text))
		if err != nil {
			oc.Fail("spec", "parse-ok", "solver.ParseOPB", "well-formed OPB rejected: %v", err)
			return
		}
		n := maxVarConstrs(oc_.Constrs)
		for _, l := range oc_.CostLits {
			if absInt(l) > n {
				n = absInt(l)
			}
		}
		sem := semAll(oc_.Constrs)
		compareParsed(o, oc, "solver.ParseOPB", pb, n, sem)
		// cost function: same cost for every model of the text
		lits, ws := pb.VerifCostFunc()
		if (len(oc_.CostLits) == 0) != (len(lits) == 0) {
			oc.Fail("spec", "parsed-same-cost", "solver.ParseOPB", "objective in text: %v, parsed: %v", oc_.CostLits, lits)
		} else if len(lits) > 0 && pb.Status != solver.Unsat {
			if ws == nil {
				ws = make([]int, len(lits))
				for i := range ws {
					ws[i] = 1
				}
			}
			a := o.Ask(fmt.Sprintf("costs %d | %s | %s", n, encProblem(sem), encTerms(oc_.CostW, oc_.CostLits)))
			b := o.Ask(fmt.Sprintf("costs %d | %s | %s", n, encProblem(sem), encTerms(ws, lits)))
			if a != b {
				oc.Fail("spec", "parsed-same-cost", "solver.ParseOPB", "objective %v*%v parsed as %v*%v", oc_.CostW, oc_.CostLits, ws, lits)
			}
		}
	case "wcnf":
		b, _ := json.Marshal(c.Wcnf)
		sub := Outcome{}
		runMaxSatCase(o, b, &sub)
		oc.Failures = append(oc.Failures, sub.Failures...)
		oc.Sample = sub.Sample
		oc.Nontrivial = sub.Nontrivial
	}
	_ = reflect.DeepEqual
	if len(oc.Sample) > 500 {
		oc.Sample = oc.Sample[:500] + "…"
	}
}


// tokenLines turns a text into the token lines of the Lean mirrors: integers as such, anything
// else as w:<text>, lines separated by a bare ";". plusOK tells whether "+2" counts as an
// integer (strconv.Atoi accepts it, solver.ParseCNF's readInt does not). For OPB the operator
// spacing of spaceOutOperators and the final ';' are applied first (trusted glue).
func tokenLines(text string, plusOK bool, opb bool) string {
	var lines []string
	for _, line := range strings.Split(strings.ReplaceAll(text, "\r", ""), "\n") {
		if opb {
			if line == "" || line[0] == '*' {
				continue
			}
			if !strings.HasSuffix(line, ";") {
				return "" // not representable: the mirror works on lines ending with ';'
			}
			body := line[:len(line)-1]
			switch {
			case strings.HasPrefix(body, "min:"):
				body = "min: " + body[4:]
			case strings.Contains(body, ">="):
				body = strings.Replace(body, ">=", " >= ", 1)
			default:
				body = strings.Replace(body, "=", " = ", 1)
			}
			line = body + " ;"
		}
		var toks []string
		for _, f := range strings.Fields(line) {
			isInt := false
			g := f
			if len(g) > 0 && (g[0] == '-' || (plusOK && g[0] == '+')) {
				g = g[1:]
			}
			if len(g) > 0 {
				isInt = true
				for _, ch := range g {
					if ch < '0' || ch > '9' {
						isInt = false
					}
				}
			}
			if isInt {
				toks = append(toks, f)
			} else {
				toks = append(toks, "w:"+f)
			}
		}
		lines = append(lines, strings.Join(toks, " "))
	}
	return strings.Join(lines, " ; ")
}

// tokenDiff: token-level mirrors of the parsers (GS.Formats) against the real parsers on the
// same text: same accept/reject, same declared variables, and for explain.ParseCNF exactly the
// same clauses and unit bindings.
func tokenDiff(o *Oracle, oc *Outcome, c *FormatCase) {
	switch c.Format {
	case "dimacs":
		toks := tokenLines(c.Cnf.Text, false, false)
		a := o.Ask("pcnftok " + toks)
		pb, err := solver.ParseCNF(strings.NewReader(c.Cnf.Text))
		oc.Corr++
		if (err == nil) != strings.HasPrefix(a, "ok ") {
			oc.Fail("corr", "formats-mirror", "solver.ParseCNF", "Go error=%v, token-level mirror answered %q", err, a)
		} else if err == nil {
			var nv int
			fmt.Sscanf(a, "ok %d", &nv)
			if nv != pb.NbVars {
				oc.Fail("corr", "formats-mirror", "solver.ParseCNF", "NbVars %d, mirror %d", pb.NbVars, nv)
			}
			want := "ok " + fmt.Sprint(c.Cnf.NbVars) + " | " + encCnf(c.Cnf.Clauses)
			if strings.TrimSpace(a) != strings.TrimSpace(want) {
				oc.Fail("corr", "formats-mirror", "solver.ParseCNF", "the mirror read %q from the text, the text was rendered from %q", a, want)
			}
		}
	case "explain":
		toks := tokenLines(c.Cnf.Text, true, false)
		a := o.Ask("pxcnftok " + toks)
		pb, err := explain.ParseCNF(strings.NewReader(c.Cnf.Text))
		oc.Corr++
		if (err == nil) != strings.HasPrefix(a, "ok ") {
			oc.Fail("corr", "formats-mirror", "explain.ParseCNF", "Go error=%v, token-level mirror answered %q", err, a)
		} else if err == nil {
			got := fmt.Sprintf("ok %d %d | %s | %s", pb.NbVars, pb.NbClauses, encCnf(pb.Clauses), encInts(pb.VerifUnits()))
			if strings.TrimSpace(got) != strings.TrimSpace(a) {
				oc.Fail("corr", "formats-mirror", "explain.ParseCNF", "Go parsed %q, the mirror %q", got, a)
			}
		}
	case "opb":
		toks := tokenLines(c.Opb.Text, true, true)
		if toks == "" {
			return
		}
		a := o.Ask("popbfront " + toks)
		pb, err := solver.ParseOPB(strings.NewReader(c.Opb.Text))
		oc.Corr++
		if (err == nil) != strings.HasPrefix(a, "ok ") {
			oc.Fail("corr", "formats-mirror", "solver.ParseOPB", "Go error=%v, token-level mirror answered %q", err, a)
		} else if err == nil {
			var nv, un int
			fmt.Sscanf(a, "ok nbvars=%d unsat=%d", &nv, &un)
			if nv != pb.NbVars || (un == 1 && pb.Status != solver.Unsat) {
				oc.Fail("corr", "formats-mirror", "solver.ParseOPB", "Go: NbVars %d status %v; mirror %q", pb.NbVars, pb.Status, a)
			}
			// end to end: the parsed problem (status, units, remaining constraints after the unit check
			// and simplifyPB) against GS.OpbFull.parseOpbFull (theorems parseOpbFull_equiv / _render)
			if full := o.Ask("popbfull " + toks); strings.HasPrefix(full, "ok ") {
				oc.Corr++
				got := strings.TrimRight(fmtProblem(pb, true), " ")
				want := mirrorProblem(strings.TrimPrefix(strings.SplitN(full, " | obj=", 2)[0], "ok "))
				if got != want {
					oc.Fail("corr", "opb-full-mirror", "solver.ParseOPB", "Go parsed to %q, the Lean mirror GS.OpbFull.parseOpbFull to %q", got, want)
				}
			} else if full != "unmodelled" {
				oc.Fail("corr", "opb-full-mirror", "solver.ParseOPB", "Go parses the text, the end-to-end mirror answers %q", full)
			}
		}
	}
}
