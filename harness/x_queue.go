package main

import (
	"encoding/json"
	"fmt"
	"strings"
	"time"

	"github.com/crillab/gophersat/solver"
)

// Differential tie of the variable order heap (repo/solver/queue.go and its users chooseLit,
// cleanupBindings, rebuildOrderHeap, varBumpActivity) against the Lean mirror GS.Queue
// (lean/GS/Model/Queue.lean) through the driver op "queue", plus a plain Go check on a real solver
// of the executable invariant of GS.Queue.chooseLit_complete (lean/GS/Props/C01_Queue.lean).

func encQueueOps(ops [][]int) string {
	parts := make([]string, len(ops))
	for i, op := range ops {
		parts[i] = encInts(op)
	}
	return strings.Join(parts, " ; ")
}

// tieQueue builds one random case from r, runs it on the real queue (solver.VerifQueueRun) and on
// the mirror, and compares content, indices, outputs and panic position exactly.
func tieQueue(o *Oracle, oc *Outcome, r *Rng) {
	n := r.Range(0, 12)
	acts := make([]float64, n)
	iacts := make([]int, n)
	spread := r.Range(1, 4) // few distinct values: many ties
	for i := range acts {
		iacts[i] = r.Range(0, spread)
		if r.Chance(1, 10) {
			iacts[i] = -r.Range(0, 3)
		}
		acts[i] = float64(iacts[i])
	}
	nOps := r.Range(0, 40)
	var ops [][]int
	seen := map[string]bool{}
	tag := func(t string) {
		if !seen[t] {
			seen[t] = true
			oc.Tag(t)
		}
	}
	// the generator looks at the real state after the ops chosen so far to aim at (or away from) the preconditions
	content, indices, _, _ := solver.VerifQueueRun(acts, nil)
	inContent := func() map[int]bool {
		m := map[int]bool{}
		for _, x := range content {
			m[x] = true
		}
		return m
	}
	anyVar := func() int { // a variable the solver could name
		if n == 0 {
			return 0
		}
		return r.Intn(n)
	}
	randModel := func(k int) []int {
		m := make([]int, k)
		bound := r.Range(0, 4) // out of 4: how often a variable is bound
		for i := range m {
			if r.Intn(4) < bound {
				m[i] = r.Range(1, 3)
				if r.Bool() {
					m[i] = -m[i]
				}
			}
		}
		return m
	}
	for len(ops) < nOps {
		var op []int
		rare := r.Chance(1, 30) // aim outside the precondition
		switch k := r.Intn(20); {
		case k < 4: // insert
			v := anyVar()
			if rare {
				v = n + r.Intn(3)
				tag("insert-beyond-activity")
			} else if n == 0 {
				continue
			} else if inContent()[v] {
				tag("insert-contained")
			} else {
				tag("insert-absent")
			}
			op = []int{1, v}
		case k < 8: // removeMin
			if len(content) == 0 {
				if !r.Chance(1, 10) {
					continue
				}
				tag("removeMin-empty")
			} else {
				tag("removeMin")
			}
			op = []int{2}
		case k < 11: // bump
			v := anyVar()
			if rare {
				v = n + r.Intn(2)
				tag("bump-beyond-activity")
			} else if n == 0 {
				continue
			} else if v < len(indices) && indices[v] >= 0 {
				tag("bump-contained")
			} else {
				tag("bump-absent")
			}
			op = []int{3, v, r.Range(-1, spread+2)}
		case k < 13: // build
			op = []int{4}
			lim := len(indices)
			if rare {
				lim += 2
				tag("build-maybe-beyond-indices")
			}
			if lim == 0 {
				tag("build-empty")
			} else {
				if r.Bool() { // as rebuildOrderHeap does: leading zeros
					for i := 0; i < r.Range(1, lim); i++ {
						op = append(op, 0)
					}
					tag("build-leading-zeros")
				}
				for i := 0; i < r.Range(0, lim+2); i++ {
					op = append(op, r.Intn(lim))
				}
				tag("build")
			}
		case k < 14: // contains
			op = []int{5, r.Intn(n + 3)}
			tag("contains")
		case k < 15:
			op = []int{6}
			tag("empty")
		case k < 17: // chooseLit
			k := len(indices)
			if k < n {
				k = n
			}
			if rare && k > 0 {
				k = r.Intn(k)
				tag("chooseLit-short-model")
			} else {
				tag("chooseLit")
			}
			op = append([]int{7}, randModel(k)...)
		case k < 18: // decrease without guard
			v := anyVar()
			if v < len(indices) && indices[v] >= 0 {
				tag("decrease-contained")
			} else if !rare {
				continue
			} else {
				tag("decrease-absent")
			}
			op = []int{8, v}
		case k < 19: // cleanupBindings
			if n == 0 {
				continue
			}
			p := r.Perm(n)[:r.Range(0, n)]
			op = append([]int{9}, p...)
			if rare {
				op = append(op, p...)
				tag("cleanup-repeated")
			} else {
				tag("cleanup")
			}
		default: // rebuildOrderHeap
			nb := n
			if nb > len(indices) {
				if !rare {
					continue
				}
				tag("rebuild-beyond-indices")
			} else if rare {
				nb = r.Intn(n + 3)
				tag("rebuild-other-nbvars")
			} else {
				tag("rebuild")
			}
			op = append([]int{10, nb}, randModel(n)...)
		}
		ops = append(ops, op)
		var pa int
		content, indices, _, pa = solver.VerifQueueRun(acts, ops)
		if pa >= 0 {
			break
		}
	}
	content, indices, outs, panicAt := solver.VerifQueueRun(acts, ops)
	var want string
	if panicAt >= 0 {
		want = fmt.Sprintf("panic %d", panicAt)
		tag("panic")
	} else {
		want = "ok " + encInts(content) + " | " + encInts(indices) + " | " + encInts(outs)
		tag("no-panic")
		cnt := map[int]int{}
		for _, x := range content {
			cnt[x]++
			if cnt[x] == 2 {
				tag("final-content-has-duplicates")
			}
			if indices[x] < 0 {
				tag("final-content-has-stale-element")
			}
		}
	}
	q := "queue " + encInts(iacts) + " | " + encQueueOps(ops)
	got := o.Ask(q)
	oc.Corr++
	if strings.TrimRight(got, " ") != strings.TrimRight(want, " ") {
		oc.Fail("corr", "queue-mirror", "solver.queue", "Go %q, the Lean mirror %q on %s", want, got, q)
	}
	if oc.Sample == "" {
		oc.Sample = q
	}
}

// tieQueueInvariant checks on a real solver the executable invariant of GS.Queue.chooseLit_complete:
// QInv (every indices[n] >= 0 is a position of content holding n; every element of content is a
// variable with an index entry) and "every unbound variable occurs in content".
func tieQueueInvariant(oc *Outcome, s *solver.Solver, where string) {
	content, indices := s.VerifQueueState()
	model := s.VerifModelLevels()
	oc.Corr++
	for v, k := range indices {
		if k >= 0 && (k >= len(content) || content[k] != v) {
			oc.Fail("corr", "queue-invariant", where, "indices[%d] = %d does not point to %d in content %v", v, k, v, content)
			return
		}
	}
	in := make(map[int]bool, len(content))
	for _, x := range content {
		if x < 0 || x >= len(indices) || x >= len(model) {
			oc.Fail("corr", "queue-invariant", where, "content element %d outside indices (%d) / model (%d)", x, len(indices), len(model))
			return
		}
		in[x] = true
	}
	for v, m := range model {
		if m == 0 && !in[v] {
			oc.Fail("corr", "queue-invariant", where, "variable %d is unbound but does not occur in content %v (indices %v)", v, content, indices)
			return
		}
	}
}

type xQueueCase struct {
	Seed uint64 `json:"seed"`
}

func init() {
	register(&Prop{
		ID:   "XQUEUE",
		Rule: "scratch: random op sequences on the variable order heap, real queue vs the Lean mirror GS.Queue (op queue); one case in eight also solves a random 3-CNF and checks the queue invariant on the real solver at each conflict analysis, each learned clause and after Solve",
		Gens: []Gen{{Name: "queue", Weight: 1, Make: func(r *Rng, tier string) interface{} { return xQueueCase{Seed: r.Next()} }}},
		Run: func(o *Oracle, d json.RawMessage, oc *Outcome) {
			var c xQueueCase
			if err := json.Unmarshal(d, &c); err != nil {
				oc.Fail("crash", "harness", "", "bad case: %v", err)
				return
			}
			oc.Key = keyOf(c)
			r := NewRng(c.Seed)
			tieQueue(o, oc, r)
			oc.Nontrivial = true
			if r.Chance(1, 8) {
				n := r.Range(3, 25)
				cnf := genKSat(r, n, int(float64(n)*4.2)+r.Range(-3, 3), 3)
				s := solver.New(solver.ParseSliceNb(copyCnf(cnf), n))
				checks := 0
				s.VerifSetAnalyzeHook(func(solver.VerifAnalysis) {
					if checks < 50 {
						checks++
						tieQueueInvariant(oc, s, "at conflict analysis")
					}
				})
				s.VerifSetLearnHook(func(solver.PBConstr) {
					if checks < 50 {
						checks++
						tieQueueInvariant(oc, s, "at addLearned")
					}
				})
				st := s.Solve()
				s.VerifSetAnalyzeHook(nil)
				s.VerifSetLearnHook(nil)
				tieQueueInvariant(oc, s, "after Solve")
				oc.Tag(fmt.Sprintf("solve-%v", st))
				if checks > 0 {
					oc.Tag("invariant-checked-in-search")
				}
			}
		},
		Cases:   defCases(7000, 100000),
		Timeout: defDur(10*time.Second, 60*time.Second),
		Wall:    defDur(4*time.Minute, 30*time.Minute),
	})
}
