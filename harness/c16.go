package main

import (
	"encoding/json"
	"fmt"
	"strings"
	"sync"
	"time"

	"github.com/crillab/gophersat/bf"
	"github.com/crillab/gophersat/explain"
	"github.com/crillab/gophersat/maxsat"
	"github.com/crillab/gophersat/solver"
)

// Work is one data-independent use of the library.
type Work struct {
	Kind   string      `json:"kind"` // cnf | opt | maxsat | mus | bf | count
	Cnf    *CnfCase    `json:"cnf,omitempty"`
	Opt    *OptCase    `json:"opt,omitempty"`
	MaxSat *MaxSatCase `json:"maxsat,omitempty"`
	Mus    *MusCase    `json:"mus,omitempty"`
	Bf     *BfCase     `json:"bf,omitempty"`
	Count  *CountCase  `json:"count,omitempty"`
}

// ConcCase: k works run at the same time (C16).
type ConcCase struct {
	Works []Work `json:"works"`
}

func genWork(r *Rng, tier string) Work {
	switch r.Intn(8) {
	case 0, 1, 2: // conflict-rich CNF: exercises learnClause concurrently
		n := r.Range(12, 40)
		cnf := genKSat(r, n, int(float64(n)*4.3), 3)
		if r.Chance(1, 4) {
			h := r.Range(3, 5)
			cnf = genPigeon(h+1, h)
		}
		cc := CnfCase{NbVars: maxVarCnf(cnf), Clauses: cnf, Front: "slice", Certified: r.Bool()}
		return Work{Kind: "cnf", Cnf: &cc}
	case 3:
		o := genOptCase(r, tier)
		return Work{Kind: "opt", Opt: &o}
	case 4:
		var m MaxSatCase
		if r.Bool() {
			m = genMaxSatAPI(r, tier)
		} else {
			m = genMaxSatWCNF(r, tier)
		}
		return Work{Kind: "maxsat", MaxSat: &m}
	case 5:
		m := genMusCase(r, tier)
		return Work{Kind: "mus", Mus: &m}
	case 6:
		b := genBfCase(r, tier, true)
		return Work{Kind: "bf", Bf: &b}
	default:
		c := genCountCase(r, tier)
		return Work{Kind: "count", Count: &c}
	}
}

func genConcCase(r *Rng, tier string) ConcCase {
	k := []int{2, 2, 4, 8}[r.Intn(4)]
	c := ConcCase{}
	for i := 0; i < k; i++ {
		c.Works = append(c.Works, genWork(r, tier))
	}
	return c
}

// runWork performs the work and returns a signature of everything that must not depend on
// what else is running: verdicts, counts, optima, sizes and validity of MUSes. Models are
// returned separately (they may legitimately differ, only their validity matters).
func runWork(w *Work) (sig string, models [][]bool) {
	switch w.Kind {
	case "cnf":
		r := solveCnf(w.Cnf, w.Cnf.Certified, 0)
		if r.status == solver.Sat {
			models = append(models, r.model)
		}
		return fmt.Sprintf("cnf:%v", r.status), models
	case "opt":
		s := solver.New(w.Opt.problem())
		r := runOptimal(s, 0, nil)
		if r.res.Status == solver.Sat {
			models = append(models, r.res.Model)
		}
		return fmt.Sprintf("opt:%v:%d", r.res.Status, r.res.Weight), models
	case "maxsat":
		c := w.MaxSat
		if c.Entry == "wcnf" {
			s, err := maxsat.ParseWCNF(strings.NewReader(c.Text))
			if err != nil {
				return "wcnf:err", nil
			}
			r := runOptimal(s, 0, nil)
			if r.res.Status == solver.Sat {
				models = append(models, r.res.Model)
			}
			return fmt.Sprintf("wcnf:%v:%d", r.res.Status, r.res.Weight), models
		}
		cs := make([]maxsat.Constr, len(c.Constrs))
		for i, k := range c.Constrs {
			lits := make([]maxsat.Lit, len(k.Lits))
			for j, l := range k.Lits {
				lits[j] = maxsat.Lit{Var: fmt.Sprintf("v%d", absInt(l)), Negated: l < 0}
			}
			var co []int
			if k.Coeffs != nil {
				co = append([]int{}, k.Coeffs...)
			}
			cs[i] = maxsat.Constr{Lits: lits, Coeffs: co, AtLeast: k.AtLeast, Weight: k.Weight}
		}
		m, cost := maxsat.New(cs...).Solve()
		return fmt.Sprintf("maxsat:%v:%d", m == nil, cost), nil
	case "mus":
		var parts []string
		text := plainDimacs(w.Mus.NbVars, w.Mus.Cnf)
		for i := 0; i < 3; i++ {
			pb, err := explain.ParseCNF(strings.NewReader(text))
			if err != nil {
				return "mus:parse-error", nil
			}
			var res *explain.Problem
			switch i {
			case 0:
				res, err = pb.MUSDeletion()
			case 1:
				res, err = pb.MUSInsertion()
			default:
				res, err = pb.UnsatSubset()
			}
			if err != nil {
				parts = append(parts, "err")
			} else {
				// deletion / insertion results are determined by the deterministic solver; the
				// subset depends on the certificate only
				parts = append(parts, fmt.Sprint(res.Clauses))
			}
		}
		return "mus:" + strings.Join(parts, "|"), nil
	case "bf":
		m := bf.Solve(w.Bf.F.toGo())
		return fmt.Sprintf("bf:%v", m == nil), nil
	case "count":
		pb, _ := w.Count.problem()
		s := solver.New(pb)
		er := runEnumerate(s, 0, nil)
		return fmt.Sprintf("count:%d:%d", er.ret, len(er.models)), nil
	}
	return "?", nil
}

func init() {
	register(&Prop{
		ID: "C16",
		Rule: "2, 4 or 8 data-independent uses of the packages run at the same time from different goroutines behind a start barrier, in a binary built with the Go race detector (GORACE=halt_on_error): conflict-rich CNF solving (12..40 variables, with and without certificate channel), optimisation with a result channel, MaxSAT (API and WCNF), MUS extraction (deletion, insertion, unsat subset), bf.Solve, model enumeration on a channel. Each use's verdict / optimum / count / MUS is compared with the same use run alone beforehand; any race report kills the worker and is the replay. Non-trivial = at least two uses with a conflict-driven search; distinct = distinct set of works.",
		Gens:    []Gen{{Name: "concurrent", Weight: 1, Make: func(r *Rng, tier string) interface{} { return genConcCase(r, tier) }}},
		Run:     runConcCase,
		Cases:   defCases(1500, 30000),
		Timeout: defDur(60*time.Second, 120*time.Second),
		Wall:    defDur(60*time.Second, 12*time.Minute),
	})
}

func runConcCase(o *Oracle, d json.RawMessage, oc *Outcome) {
	var c ConcCase
	if err := json.Unmarshal(d, &c); err != nil {
		oc.Fail("crash", "harness", "", "bad case: %v", err)
		return
	}
	oc.Key = keyOf(c)
	kinds := make([]string, len(c.Works))
	search := 0
	for i, w := range c.Works {
		kinds[i] = w.Kind
		if w.Kind == "cnf" || w.Kind == "opt" || w.Kind == "mus" {
			search++
		}
	}
	oc.Sample = fmt.Sprintf("%d concurrent works: %v", len(c.Works), kinds)
	oc.Tag(fmt.Sprintf("k=%d", len(c.Works)))
	oc.Nontrivial = search >= 2
	// alone
	alone := make([]string, len(c.Works))
	for i := range c.Works {
		alone[i], _ = runWork(&c.Works[i])
	}
	// together
	together := make([]string, len(c.Works))
	panics := make([]string, len(c.Works))
	var wg sync.WaitGroup
	start := make(chan struct{})
	for i := range c.Works {
		wg.Add(1)
		go func(i int) {
			defer wg.Done()
			defer func() {
				if r := recover(); r != nil {
					panics[i] = fmt.Sprintf("%v | %s", r, panicSite())
				}
			}()
			<-start
			together[i], _ = runWork(&c.Works[i])
		}(i)
	}
	close(start)
	wg.Wait()
	for i := range c.Works {
		if panics[i] != "" {
			oc.Fail("panic", "no-panic", "concurrent "+c.Works[i].Kind, "work %d panicked when run concurrently: %s", i, panics[i])
		} else if alone[i] != together[i] {
			oc.Fail("spec", "same-result-as-alone", "concurrent "+c.Works[i].Kind, "work %d (%s): alone %s, concurrently %s", i, c.Works[i].Kind, alone[i], together[i])
		}
	}
}
