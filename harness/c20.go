package main

import (
	"encoding/json"
	"fmt"
	"strings"
	"time"

	"github.com/crillab/gophersat/maxsat"
	"github.com/crillab/gophersat/solver"
)

// StreamCase: an optimisation / MaxSAT / enumeration run observed through its result
// channel under a given consumer behaviour (C20).
type StreamCase struct {
	Kind    string      `json:"kind"` // opt | maxsat | enum
	Opt     *OptCase    `json:"opt,omitempty"`
	MaxSat  *MaxSatCase `json:"maxsat,omitempty"`
	Count   *CountCase  `json:"count,omitempty"`
	ChanCap int         `json:"chancap"`
	Delays  []int       `json:"delays"` // microseconds slept by the consumer after the i-th receive
	Pre     []int       `json:"pre,omitempty"` // opt: the solver is first solved, then given this clause with AppendClause, then optimised
}

func genStreamCase(r *Rng, tier string) StreamCase {
	c := StreamCase{ChanCap: []int{0, 0, 1, 2, 4, 16}[r.Intn(6)]}
	nd := r.Range(0, 6)
	for i := 0; i < nd; i++ {
		c.Delays = append(c.Delays, []int{0, 50, 300, 2000}[r.Intn(4)])
	}
	switch r.Intn(3) {
	case 0:
		o := genOptCase(r, tier)
		c.Kind, c.Opt = "opt", &o
		if n := maxVarConstrs(o.Constrs); n > 0 && r.Chance(1, 4) { // a live solver: solved, extended, then optimised
			c.Pre = randClauseDistinct(r, n, r.Range(1, min2(n, 3)))
		}
	case 1:
		m := genMaxSatWCNF(r, tier)
		c.Kind, c.MaxSat = "maxsat", &m
	default:
		k := genCountCase(r, tier)
		c.Kind, c.Count = "enum", &k
	}
	return c
}

func init() {
	register(&Prop{
		ID: "C20",
		Rule: "optimisation (Solver.Optimal on constraint sets with a cost function of either sign; in a quarter of the cases on a solver that was first solved and then given one more clause), MaxSAT (ParseWCNF(...).Optimal) and enumeration (Solver.Enumerate) problems as for C03/C04/C05, each observed through a result channel of capacity 0,1,2,4 or 16 whose consumer sleeps 0..2000 microseconds after each of its first 0..6 receives. Checked: every delivered result is a model with its true cost (verified evaluation), costs strictly decrease, the last delivered result equals the returned one, the channel is closed when the call returns, enumeration delivers each model once; a deadlock or a send on a closed channel shows as a time-out or a crash of the worker. Non-trivial = at least 2 values delivered; distinct = distinct (problem, capacity, delays).",
		Gens:    []Gen{{Name: "stream", Weight: 1, Make: func(r *Rng, tier string) interface{} { return genStreamCase(r, tier) }}},
		Run:     runStreamCase,
		Cases:   defCases(3000, 80000),
		Timeout: defDur(10*time.Second, 60*time.Second),
		Wall:    defDur(50*time.Second, 12*time.Minute),
	})
}

func runStreamCase(o *Oracle, d json.RawMessage, oc *Outcome) {
	var c StreamCase
	if err := json.Unmarshal(d, &c); err != nil {
		oc.Fail("crash", "harness", "", "bad case: %v", err)
		return
	}
	oc.Key = keyOf(c)
	oc.Tag("kind:" + c.Kind)
	oc.Tag(fmt.Sprintf("cap:%d", c.ChanCap))
	switch c.Kind {
	case "opt":
		oc.Sample = fmt.Sprintf("cap=%d delays=%v min %v*%v s.t. %s", c.ChanCap, c.Delays, c.Opt.CostW, c.Opt.CostLits, constrsString(c.Opt.Constrs))
		sem := semAll(c.Opt.Constrs)
		n := maxVarConstrs(c.Opt.Constrs)
		coefs, lits := c.Opt.costTerms()
		pb := c.Opt.problem()
		s := solver.New(pb)
		if len(c.Pre) > 0 && pb.Status != solver.Unsat {
			oc.Tag("solved-extended-then-optimised")
			s.Solve()
			ls := make([]solver.Lit, len(c.Pre))
			for i, l := range c.Pre {
				ls[i] = solver.IntToLit(int32(l))
			}
			s.AppendClause(solver.NewClause(ls))
			sem = append(sem, clauseLin(c.Pre))
		}
		r := runOptimal(s, c.ChanCap, c.Delays)
		checkStream(o, oc, "solver.Optimal", r, n, sem, coefs, lits)
		if len(r.stream) >= 2 {
			oc.Nontrivial = true
		}
		sat, best := o.Opt(n, sem, coefs, lits)
		if sat != (r.res.Status == solver.Sat) || (sat && best != r.res.Weight) {
			oc.Fail("spec", "optimum", "solver.Optimal", "returned %v/%d, oracle sat=%v optimum=%d", r.res.Status, r.res.Weight, sat, best)
		}
	case "maxsat":
		c.MaxSat.ChanCap = c.ChanCap
		c.MaxSat.Delays = c.Delays
		b, _ := json.Marshal(c.MaxSat)
		runMaxSatCase(o, b, oc)
		oc.Key = keyOf(c)
		// count delivered values for the non-triviality rule
		if s, err := maxsat.ParseWCNF(strings.NewReader(c.MaxSat.Text)); err == nil {
			if r := runOptimal(s, c.ChanCap, nil); len(r.stream) >= 2 {
				oc.Nontrivial = true
			}
		}
	case "enum":
		c.Count.ChanCap = c.ChanCap
		c.Count.Delays = c.Delays
		b, _ := json.Marshal(c.Count)
		runCountCase(o, b, oc)
		oc.Key = keyOf(c)
	}
	if len(oc.Sample) > 400 {
		oc.Sample = oc.Sample[:400] + "…"
	}
}
