package main

// Differential tie between solver.ParseCNF on byte strings and the Lean mirror
// GS.CnfBytes.parseCnfBytes / parseCnfFull (ops `cnfbytes`, `cnfbytesfull`).
//
// Three streams of inputs:
//   (i)   renderings of a random well-formed DIMACS file with a free byte layout, the Go image of
//         GS.CnfBytes.renderBytes (theorem parseBytes_render): expected: no error, the clauses
//         that were rendered, the declared counts;
//   (ii)  the same with 1..3 byte mutations;
//   (iii) random byte strings of length 0..40 over a small alphabet.
// In all streams: error / panic / success must agree and, on success, the final *Problem (after
// simplify2) must be the one the mirror computes.

import (
	"encoding/json"
	"fmt"
	"strconv"
	"strings"
	"time"

	"github.com/crillab/gophersat/solver"
)

var cnfBytesAlphabet = []byte{'0', '1', '2', '3', '4', '5', '6', '7', '8', '9', '-', '+', ' ', '\t', '\r', '\n', 'c', 'p', 'x',
	0, 0xC2, 0x85, 0xA0, 0xE2, 0x80, 0xA8, '\v', 'n', 'f'}

var cnfBytesTokens = []string{"9223372036854775808", "18446744073709551617", "-9223372036854775808", "9223372036854775807",
	"18446744073709551615", "-0", "+1", "00", "p cnf", "\xc2\xa0", "\xc2\x85", "\xe2\x80\xa8", "c", "\r\n", "_"}

type cnfBytesRender struct {
	text    []byte
	nbVars  int
	clauses [][]int
}

func cbWs(r *Rng, alpha string, min, max int) string {
	n := r.Range(min, max)
	var sb strings.Builder
	for i := 0; i < n; i++ {
		sb.WriteByte(alpha[r.Intn(len(alpha))])
	}
	return sb.String()
}

func cbComment(r *Rng) string {
	n := r.Intn(8)
	var sb strings.Builder
	for i := 0; i < n; i++ {
		b := cnfBytesAlphabet[r.Intn(len(cnfBytesAlphabet))]
		if r.Chance(1, 3) {
			b = byte(r.Intn(256))
		}
		if b == '\n' {
			b = ' '
		}
		sb.WriteByte(b)
	}
	return sb.String()
}

// fillers: blanks and comment lines, legal wherever the reader is between two clauses.
func cbFillers(r *Rng, oc *Outcome, sb *strings.Builder) {
	for r.Chance(1, 3) {
		if r.Bool() {
			sb.WriteString(cbWs(r, " \t\r\n", 0, 3))
		} else {
			sb.WriteString("c" + cbComment(r) + "\n")
			oc.Tag("comment")
		}
	}
}

func cbZeros(r *Rng, oc *Outcome) string {
	if r.Chance(1, 8) {
		oc.Tag("leading-zeros")
		return strings.Repeat("0", r.Range(1, 3))
	}
	return ""
}

func cbHeaderNum(r *Rng, oc *Outcome, n int) string {
	s := ""
	if r.Chance(1, 8) {
		s = "+"
		oc.Tag("plus-in-header")
	}
	return s + cbZeros(r, oc) + strconv.Itoa(n)
}

func cbLit(r *Rng, oc *Outcome, v int) string {
	if v < 0 {
		return "-" + cbZeros(r, oc) + strconv.Itoa(-v)
	}
	return cbZeros(r, oc) + strconv.Itoa(v)
}

func cbSep(r *Rng, oc *Outcome) string {
	switch r.Intn(6) {
	case 0:
		oc.Tag("clause-over-lines")
		return cbWs(r, " \t", 0, 1) + "\n" + cbWs(r, " \t", 0, 2)
	case 1:
		oc.Tag("crlf")
		oc.Tag("clause-over-lines")
		return "\r\n"
	case 2:
		return cbWs(r, " \t\r\n", 1, 3)
	default:
		return " "
	}
}

// renderCnfBytes mirrors GS.CnfBytes.renderBytes with random layout choices.
func renderCnfBytes(r *Rng, oc *Outcome) cnfBytesRender {
	nbVars := r.Range(0, 6)
	if r.Chance(1, 10) {
		nbVars = r.Range(7, 300)
	}
	nbCl := r.Range(0, 5)
	if nbVars == 0 && r.Chance(2, 3) {
		nbCl = 0
	}
	var clauses [][]int
	for i := 0; i < nbCl; i++ {
		n := r.Range(0, 4)
		if nbVars == 0 {
			n = 0
		}
		cl := make([]int, n)
		for j := range cl {
			cl[j] = r.Range(1, nbVars)
			if r.Bool() {
				cl[j] = -cl[j]
			}
		}
		clauses = append(clauses, cl)
	}
	var sb strings.Builder
	cbFillers(r, oc, &sb)
	eol := "\n"
	if r.Chance(1, 4) {
		eol = "\r\n"
		oc.Tag("crlf")
	}
	sb.WriteString("p" + cbWs(r, " \t", 1, 2) + "cnf" + cbWs(r, " \t", 1, 2) + cbHeaderNum(r, oc, nbVars) +
		cbWs(r, " \t", 1, 2) + cbHeaderNum(r, oc, len(clauses)) + cbWs(r, " \t", 0, 2))
	ending := r.Intn(4) // 0,1: full; 2: bare; 3: noZero
	if len(clauses) == 0 {
		if ending == 2 {
			if eol == "\r\n" {
				sb.WriteString("\r")
			}
			oc.Tag("header-at-eof")
			return cnfBytesRender{[]byte(sb.String()), nbVars, clauses}
		}
		sb.WriteString(eol)
		cbFillers(r, oc, &sb)
		if r.Chance(1, 4) {
			sb.WriteString("c" + cbComment(r))
			oc.Tag("comment-at-eof")
		}
		return cnfBytesRender{[]byte(sb.String()), nbVars, clauses}
	}
	sb.WriteString(eol)
	cbFillers(r, oc, &sb)
	for i, cl := range clauses {
		last := i == len(clauses)-1
		if last && ending == 3 && len(cl) > 0 {
			for j, v := range cl {
				sb.WriteString(cbLit(r, oc, v))
				if j < len(cl)-1 {
					sb.WriteString(cbSep(r, oc))
				}
			}
			sb.WriteString(cbWs(r, " \t\r\n", 0, 2))
			oc.Tag("clause-at-eof-without-0")
			break
		}
		for _, v := range cl {
			sb.WriteString(cbLit(r, oc, v))
			sb.WriteString(cbSep(r, oc))
		}
		sb.WriteString(cbZeros(r, oc) + "0")
		if last && ending == 2 {
			oc.Tag("no-final-newline")
			break
		}
		switch r.Intn(5) {
		case 0:
			sb.WriteString(" ")
			oc.Tag("clauses-share-line")
		case 1:
			sb.WriteString("\r")
		default:
			sb.WriteString(eol) // "0\r\n": the '\r' ends the number, the '\n' is a blank
		}
		cbFillers(r, oc, &sb)
		if last && r.Chance(1, 5) {
			sb.WriteString("c" + cbComment(r))
			oc.Tag("comment-at-eof")
		}
	}
	return cnfBytesRender{[]byte(sb.String()), nbVars, clauses}
}

func encBytes(bs []byte) string {
	var sb strings.Builder
	for i, b := range bs {
		if i > 0 {
			sb.WriteByte(' ')
		}
		sb.WriteString(strconv.Itoa(int(b)))
	}
	return sb.String()
}

// cnfBytesUnsafe: a header line with a long digit run may make ParseCNF allocate terabytes
// (fatal "out of memory", not a recoverable panic): such inputs are not run through Go.
func cnfBytesUnsafe(bs []byte) bool {
	for _, line := range strings.Split(string(bs), "\n") {
		if !strings.Contains(line, "p") {
			continue
		}
		run := 0
		for i := 0; i < len(line); i++ {
			if line[i] >= '0' && line[i] <= '9' {
				run++
				if run >= 7 {
					return true
				}
			} else {
				run = 0
			}
		}
	}
	return false
}

func runParseCNF(bs []byte) (pb *solver.Problem, err error, panicked interface{}) {
	defer func() {
		if p := recover(); p != nil {
			panicked = p
		}
	}()
	pb, err = solver.ParseCNF(strings.NewReader(string(bs)))
	return
}

func cbErrKind(err error) string {
	s := err.Error()
	switch {
	case strings.Contains(s, "cannot read header"):
		return "err:header-eof"
	case strings.Contains(s, "invalid syntax"):
		return "err:header-fields"
	case strings.Contains(s, "nbvars not an int"):
		return "err:header-nbvars"
	case strings.Contains(s, "nbClauses not an int"):
		return "err:header-nbclauses"
	case strings.Contains(s, "invalid literal"):
		return "err:literal-range"
	case strings.Contains(s, "is not a digit"):
		return "err:not-a-digit"
	case strings.Contains(s, "cannot read int: EOF"):
		return "err:eof-after-minus"
	}
	return "err:other"
}

func tieCnfBytes(o *Oracle, oc *Outcome, r *Rng) {
	stream := r.Intn(3)
	var bs []byte
	var rend *cnfBytesRender
	switch stream {
	case 0:
		oc.Tag("stream:rendered")
		x := renderCnfBytes(r, oc)
		rend = &x
		bs = x.text
	case 1:
		oc.Tag("stream:mutated")
		x := renderCnfBytes(r, &Outcome{})
		bs = append([]byte(nil), x.text...)
		for k := r.Range(1, 3); k > 0; k-- {
			pos := r.Intn(len(bs) + 1)
			b := cnfBytesAlphabet[r.Intn(len(cnfBytesAlphabet))]
			switch op := r.Intn(7); {
			case op <= 1: // insert
				bs = append(bs[:pos], append([]byte{b}, bs[pos:]...)...)
			case op <= 3 && len(bs) > 0: // delete
				if pos == len(bs) {
					pos--
				}
				bs = append(bs[:pos], bs[pos+1:]...)
			case op <= 5 && len(bs) > 0: // replace
				if pos == len(bs) {
					pos--
				}
				bs[pos] = b
			default: // insert a token
				t := cnfBytesTokens[r.Intn(len(cnfBytesTokens))]
				bs = append(bs[:pos], append([]byte(t), bs[pos:]...)...)
			}
		}
	default:
		oc.Tag("stream:random")
		n := r.Range(0, 40)
		bs = make([]byte, n)
		for i := range bs {
			bs[i] = cnfBytesAlphabet[r.Intn(len(cnfBytesAlphabet))]
		}
		if n > 8 && r.Chance(1, 3) { // make a header likely
			copy(bs, "p cnf ")
		}
	}
	oc.Sample = fmt.Sprintf("%q", bs)
	oc.Key = keyOf(bs)
	entry := "solver.ParseCNF"
	enc := encBytes(bs)
	full := o.Ask("cnfbytesfull " + enc)
	if cnfBytesUnsafe(bs) {
		oc.Tag("skipped:long-number-on-a-p-line")
		return
	}
	pb, err, pan := runParseCNF(bs)
	oc.Corr++
	switch {
	case full == "unmodelled":
		oc.Tag("mirror:unmodelled")
		if pan != nil {
			oc.Tag("go-panic-where-unmodelled")
		}
		if stream == 0 {
			oc.Fail("corr", "cnfbytes-mirror", entry, "the mirror answers unmodelled on a rendering: %q", bs)
		}
		return
	case pan != nil:
		oc.Tag("go:panic")
		if full != "panic" {
			oc.Fail("corr", "cnfbytes-mirror", entry, "Go panics (%v), the Lean mirror answers %q on %q", pan, full, bs)
		}
	case err != nil:
		oc.Tag(cbErrKind(err))
		if full != "err" {
			oc.Fail("corr", "cnfbytes-mirror", entry, "Go returns the error %v, the Lean mirror answers %q on %q", err, full, bs)
		}
	default:
		oc.Tag("go:ok")
		if full == "err" || full == "panic" || full == "bad-op" {
			oc.Fail("corr", "cnfbytes-mirror", entry, "Go parses, the Lean mirror answers %q on %q", full, bs)
			return
		}
		withCard = false
		got := strings.TrimRight(fmtProblem(pb, false), " ")
		want := mirrorProblem(full)
		if got != want {
			oc.Fail("corr", "cnfbytes-mirror", entry, "Go parsed to %q, the Lean mirror GS.CnfBytes.parseCnfFull to %q on %q", got, want, bs)
		}
		if pb.Status == solver.Unsat {
			oc.Tag("final:unsat")
		} else if len(pb.Clauses) > 0 {
			oc.Tag("final:clauses-left")
			oc.Nontrivial = true
		}
	}
	if rend != nil {
		// a rendering is read without error, as the clauses that were written
		oc.Corr++
		if err != nil || pan != nil {
			oc.Fail("corr", "cnfbytes-render", entry, "Go fails (err=%v panic=%v) on the well-formed text %q", err, pan, bs)
		}
		a := o.Ask("cnfbytes " + enc)
		want := strings.TrimSpace(fmt.Sprintf("ok %d %d | %s", rend.nbVars, len(rend.clauses), encCnf(rend.clauses)))
		if strings.TrimSpace(a) != want {
			oc.Fail("corr", "cnfbytes-render", entry, "the mirror reads %q from %q, which was rendered from %q", a, bs, want)
		}
		oc.Nontrivial = true
	}
}

type cnfBytesCase struct {
	Seed uint64 `json:"seed"`
}

func init() {
	register(&Prop{
		ID:   "XCNFBYTES",
		Rule: "scratch: solver.ParseCNF on byte strings against the Lean mirror GS.CnfBytes (renderings with a free byte layout, mutated renderings, random byte strings).",
		Gens: []Gen{{Name: "cnfbytes", Weight: 1, Make: func(r *Rng, tier string) interface{} { return cnfBytesCase{Seed: r.Next()} }}},
		Run: func(o *Oracle, d json.RawMessage, oc *Outcome) {
			var c cnfBytesCase
			if err := json.Unmarshal(d, &c); err != nil {
				oc.Fail("crash", "harness", "", "bad case: %v", err)
				return
			}
			tieCnfBytes(o, oc, NewRng(c.Seed))
		},
		Cases:   defCases(10000, 100000),
		Timeout: defDur(10*time.Second, 60*time.Second),
		Wall:    defDur(120*time.Second, 12*time.Minute),
	})
}
