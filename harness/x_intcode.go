package main

import (
	"encoding/json"
	"fmt"
	"math"
	"strconv"
	"strings"
	"time"

	"github.com/crillab/gophersat/solver"
)

// Differential sanity of the translator route: the GENERATED Lean definitions
// (lean/GS/Generated/IntCode.lean, written by /verif/trans from the Go source) are evaluated by the
// driver op `intcode <fn> <args…>` and compared with the real Go functions, on boundary and random
// values.  The theorems of GS/Props/C01_IntCode.lean are about those definitions for ALL values;
// this tie only guards the translator (operator / signedness / width mapping).
// `luby <i>` / `lubyrange <a> <b>` tie the hand mirror GS.Luby.luby with solver.luby (VerifLuby).

var intcodeBoundary32 = []int64{0, 1, -1, 2, -2, 3, -3, 1<<30 - 1, 1 << 30, 1<<30 + 1, -(1 << 30), -(1 << 30) - 1,
	-(1 << 30) + 1, math.MaxInt32, math.MaxInt32 - 1, math.MinInt32, math.MinInt32 + 1, 1 << 29, -(1 << 29)}

func randI32(r *Rng) int32 {
	switch r.Intn(4) {
	case 0:
		return int32(intcodeBoundary32[r.Intn(len(intcodeBoundary32))])
	case 1:
		return int32(r.Range(-40, 40))
	case 2:
		return int32(intcodeBoundary32[r.Intn(len(intcodeBoundary32))] + int64(r.Range(-3, 3)))
	}
	return int32(uint32(r.Next()))
}

func randU32(r *Rng) uint32 {
	hi := uint32(r.Intn(4)) << 30 // the two flag bits
	switch r.Intn(4) {
	case 0:
		return hi | uint32(r.Intn(8))
	case 1:
		return hi | (1<<30 - 1 - uint32(r.Intn(3)))
	case 2:
		return hi
	}
	return uint32(r.Next())
}

func randI64(r *Rng) int {
	b := []int{0, 1, -1, 2, 3, 1<<30 - 1, 1 << 30, 1<<31 - 1, 1 << 31, 1 << 32, 1<<62 - 2, 1<<62 - 1, 1 << 62, math.MaxInt64, math.MinInt64, math.MinInt64 + 1, -(1 << 30)}
	switch r.Intn(4) {
	case 0:
		return b[r.Intn(len(b))]
	case 1:
		return r.Range(-50, 50)
	case 2:
		return b[r.Intn(len(b))] + r.Range(-2, 2)
	}
	return int(r.Next())
}

func b01i(b bool) int64 {
	if b {
		return 1
	}
	return 0
}

// tieIntCode: one random case (a literal, a variable, a flag word, a heap index, a level).
func tieIntCode(o *Oracle, oc *Outcome, r *Rng) {
	cmp := func(goFn string, got int64, fn string, args ...int64) {
		q := "intcode " + fn
		for _, a := range args {
			q += " " + strconv.FormatInt(a, 10)
		}
		ans := o.Ask(q)
		oc.Corr++
		if ans != strconv.FormatInt(got, 10) {
			oc.Fail("corr", "intcode-mirror", goFn, "Go %s = %d, the generated Lean definition answers %s on %q", goFn, got, ans, q)
		}
	}
	// literals
	i := randI32(r)
	switch {
	case i == 0:
		oc.Tag("lit-zero")
	case i >= -(1<<30) && i <= 1<<30:
		oc.Tag("lit-in-range")
	default:
		oc.Tag("lit-out-of-range")
	}
	l := solver.IntToLit(i)
	cmp("solver.IntToLit", int64(int32(l)), "IntToLit", int64(i))
	cmp("solver.IntToVar", int64(int32(solver.IntToVar(i))), "IntToVar", int64(i))
	for _, x := range []solver.Lit{l, solver.Lit(randI32(r))} {
		if x < 0 {
			oc.Tag("negative-code")
		}
		cmp("solver.Lit.Int", int64(x.Int()), "Lit_Int", int64(int32(x)))
		cmp("solver.Lit.Var", int64(int32(x.Var())), "Lit_Var", int64(int32(x)))
		cmp("solver.Lit.Negation", int64(int32(x.Negation())), "Lit_Negation", int64(int32(x)))
		cmp("solver.Lit.IsPositive", b01i(x.IsPositive()), "Lit_IsPositive", int64(int32(x)))
	}
	v := solver.Var(randI32(r))
	cmp("solver.Var.Lit", int64(int32(v.Lit())), "Var_Lit", int64(int32(v)))
	cmp("solver.Var.Int", int64(v.Int()), "Var_Int", int64(int32(v)))
	sg := r.Bool()
	cmp("solver.Var.SignedLit", int64(int32(v.SignedLit(sg))), "Var_SignedLit", int64(int32(v)), b01i(sg))
	// flag word
	w := randU32(r)
	if w&(1<<30-1) == 1<<30-1 {
		oc.Tag("lbd-max")
	}
	oc.Tag(fmt.Sprintf("flags-%d", w>>30))
	arg := randI64(r)
	if arg < 0 || arg >= 1<<30 {
		oc.Tag("setLbd-arg-out-of-range")
	}
	for _, op := range []string{"Learned", "isLocked", "Cardinality", "lbd", "lock", "unlock", "setLbd", "incLbd"} {
		res, ok := solver.VerifFlagOp(op, w, arg)
		if !ok {
			oc.Fail("crash", "intcode-wrapper", "solver.Clause."+op, "panic or unknown op on lbdValue=%d arg=%d", w, arg)
			continue
		}
		if op == "setLbd" {
			cmp("solver.Clause.setLbd", int64(res), "Clause_setLbd", int64(w), int64(arg))
		} else {
			cmp("solver.Clause."+op, int64(res), "Clause_"+op, int64(w))
		}
	}
	// 64-bit: heap indices, levels
	a, b := randI64(r), randI64(r)
	for _, op := range []string{"left", "right", "parent", "abs_decLevel", "abs_int"} {
		res, ok := solver.VerifIntOp(op, a, 0)
		if !ok {
			oc.Fail("crash", "intcode-wrapper", "solver."+op, "panic on %d", a)
			continue
		}
		cmp("solver."+op, int64(res), op, int64(a))
	}
	if res, ok := solver.VerifIntOp("min_int", a, b); ok {
		cmp("solver.min", int64(res), "min_int", int64(a), int64(b))
	}
	if res, ok := solver.VerifIntOp("lvlToSignedLvl", int(int32(l)), b); ok {
		cmp("solver.lvlToSignedLvl", int64(res), "lvlToSignedLvl", int64(int32(l)), int64(b))
	}
}

// tieLuby: solver.luby against GS.Luby.luby on lo..hi (1 ≤ lo ≤ hi ≤ 100000) and on the boundary.
func tieLuby(o *Oracle, oc *Outcome, lo, hi int) {
	ans := strings.Fields(o.Ask(fmt.Sprintf("lubyrange %d %d", lo, hi)))
	if len(ans) != hi-lo+1 {
		oc.Fail("corr", "luby-mirror", "solver.luby", "lubyrange %d %d answered %d values", lo, hi, len(ans))
		return
	}
	for i := lo; i <= hi; i++ {
		res, ok := solver.VerifLuby(uint(i))
		oc.Corr++
		if !ok || strconv.FormatUint(uint64(res), 10) != ans[i-lo] {
			oc.Fail("corr", "luby-mirror", "solver.luby", "Go luby(%d) = %d (ok=%v), the Lean mirror answers %s", i, res, ok, ans[i-lo])
			return
		}
	}
	// single-value op, and the last value below the limit 2^32-1 of lubyGo_eq_spec
	for _, i := range []uint{uint(lo), 1<<31 - 1, 1 << 31, 1<<32 - 2} {
		res, _ := solver.VerifLuby(i)
		oc.Corr++
		if a := o.Ask(fmt.Sprintf("luby %d", i)); a != strconv.FormatUint(uint64(res), 10) {
			oc.Fail("corr", "luby-mirror", "solver.luby", "Go luby(%d) = %d, the Lean mirror answers %s", i, res, a)
		}
	}
}

type intCodeCase struct {
	Seed uint64 `json:"seed"`
	Luby int    `json:"luby,omitempty"` // 0: intcode case; k>0: the Luby chunk 5000(k-1)+1 .. 5000k
}

func init() {
	register(&Prop{
		ID:   "XINTCODE",
		Rule: "scratch property of the translator route: random / boundary int32, uint32 flag words and int values through the real Go functions and through the generated Lean definitions (op intcode); Luby chunks of 5000 in 1..100000 through solver.luby and GS.Luby.luby.",
		Gens: []Gen{
			{Name: "intcode", Weight: 40, Make: func(r *Rng, tier string) interface{} { return intCodeCase{Seed: r.Next()} }},
			{Name: "luby", Weight: 1, Make: func(r *Rng, tier string) interface{} { return intCodeCase{Seed: r.Next(), Luby: 1 + r.Intn(20)} }},
		},
		Run: func(o *Oracle, d json.RawMessage, oc *Outcome) {
			var c intCodeCase
			if err := json.Unmarshal(d, &c); err != nil {
				oc.Fail("crash", "harness", "", "bad case: %v", err)
				return
			}
			oc.Key = keyOf(c)
			oc.Sample = fmt.Sprintf("seed=%d luby=%d", c.Seed, c.Luby)
			oc.Nontrivial = true
			if c.Luby > 0 {
				oc.Tag(fmt.Sprintf("luby-chunk-%02d", c.Luby))
				tieLuby(o, oc, 5000*(c.Luby-1)+1, 5000*c.Luby)
				return
			}
			tieIntCode(o, oc, NewRng(c.Seed))
		},
		Cases:   defCases(8000, 100000),
		Timeout: defDur(30*time.Second, 60*time.Second),
		Wall:    defDur(4*time.Minute, 12*time.Minute),
	})
}
