package main

import (
	"encoding/json"
	"fmt"
	"strings"
	"time"

	"github.com/crillab/gophersat/solver"
)

// AmoCase: a problem rich in binary clauses, given to DetectAtMostOne (C15).
type AmoCase struct {
	NbVars  int      `json:"nbvars"`
	Cnf     [][]int  `json:"cnf"`
	Constrs []Constr `json:"constrs,omitempty"` // extra card / PB constraints (then the PB front-end is used)
}

func genAmoCase(r *Rng, tier string) AmoCase {
	n := r.Range(3, 10)
	var cnf [][]int
	groups := r.Range(1, 3)
	for g := 0; g < groups; g++ {
		k := r.Range(2, min2(n, 5))
		vs := r.Perm(n)[:k]
		neg := r.Chance(4, 5) // cliques of negative literals (at most one true), sometimes positive
		complete := r.Chance(2, 3)
		for i := 0; i < k; i++ {
			for j := i + 1; j < k; j++ {
				if !complete && r.Chance(1, 4) {
					continue // incomplete clique
				}
				a, b := vs[i]+1, vs[j]+1
				if neg {
					a, b = -a, -b
				}
				if r.Bool() {
					a, b = b, a
				}
				cnf = append(cnf, []int{a, b})
				if r.Chance(1, 10) { // repeated binary clause
					cnf = append(cnf, []int{b, a})
				}
			}
		}
	}
	// binary clauses that belong to no clique, longer clauses
	for i := 0; i < r.Range(0, n); i++ {
		cnf = append(cnf, randClauseDistinct(r, n, 2))
	}
	for i := 0; i < r.Range(0, n); i++ {
		cnf = append(cnf, randClauseDistinct(r, n, r.Range(3, 4)))
	}
	c := AmoCase{NbVars: n, Cnf: shuffleCnf(r, cnf)}
	if r.Chance(1, 3) {
		for i := 0; i < r.Range(1, 3); i++ {
			k := genConstr(r, n, r.Bool(), 4)
			if k.Kind != "clause" {
				c.Constrs = append(c.Constrs, k)
			}
		}
		if r.Bool() { // weighted 3-literal constraints plus a unit falsifying one of their literals
			for i := 0; i < r.Range(1, 2); i++ {
				ls := randClauseDistinct(r, n, 3)
				ws := []int{r.Range(1, 3), r.Range(1, 3), r.Range(1, 3)}
				c.Constrs = append(c.Constrs, Constr{Kind: "gteq", Lits: ls, Weights: ws, N: r.Range(1, 3)})
				c.Constrs = append(c.Constrs, Constr{Kind: "clause", Lits: []int{-ls[r.Intn(3)]}})
			}
		}
	}
	return c
}

func (c *AmoCase) problem() (*solver.Problem, []Lin) {
	if len(c.Constrs) == 0 {
		return solver.ParseSliceNb(copyCnf(c.Cnf), c.NbVars), cnfLins(c.Cnf)
	}
	var pc []solver.PBConstr
	for _, cl := range c.Cnf {
		pc = append(pc, solver.PropClause(append([]int{}, cl...)...))
	}
	for _, k := range c.Constrs {
		pc = append(pc, k.pb()...)
	}
	pc = append(pc, solver.AtLeast([]int{c.NbVars}, 0))
	return solver.ParsePBConstrs(pc), append(cnfLins(c.Cnf), semAll(c.Constrs)...)
}

func init() {
	register(&Prop{
		ID: "C15",
		Rule: "problems over 3..10 variables made of 1..3 pairwise-encoded at-most-one groups (complete or with missing pairs, negative or positive literals, overlapping, with repeated binary clauses), binary clauses that belong to no group, longer clauses, and optionally cardinality / PB constraints (then through ParsePBConstrs). Problem.Clauses after DetectAtMostOne is read back and its model set compared with the one before by the verified GS.modelsOver; the detected problem is then solved and counted. Non-trivial = at least one cardinality constraint was introduced; distinct = distinct problem.",
		Gens:    []Gen{{Name: "amo", Weight: 1, Make: func(r *Rng, tier string) interface{} { return genAmoCase(r, tier) }}},
		Run:     runAmoCase,
		Cases:   defCases(4000, 100000),
		Timeout: defDur(10*time.Second, 60*time.Second),
		Wall:    defDur(50*time.Second, 12*time.Minute),
	})
}

func runAmoCase(o *Oracle, d json.RawMessage, oc *Outcome) {
	var c AmoCase
	if err := json.Unmarshal(d, &c); err != nil {
		oc.Fail("crash", "harness", "", "bad case: %v", err)
		return
	}
	oc.Key = keyOf(c)
	oc.Sample = fmt.Sprintf("n=%d cnf=%s extra=%s", c.NbVars, cnfString(c.Cnf), constrsString(c.Constrs))
	pb, sem := c.problem()
	n := c.NbVars
	if pb.Status == solver.Unsat {
		oc.Tag("parse-unsat")
		return
	}
	entry := "solver.Problem.DetectAtMostOne"
	nbBefore := len(pb.Clauses)
	cardBefore := 0
	for _, cl := range pb.Clauses {
		if cl.Cardinality() > 1 {
			cardBefore++
		}
	}
	// hypothesis of GS.Amo.detect_equiv (BinClausal): after parse-time simplification every
	// 2-literal constraint is a clause, i.e. each of its literals alone satisfies it
	for _, cl := range pb.Clauses {
		if cl.Len() == 2 && (cl.Weight(0) < cl.Cardinality() || cl.Weight(1) < cl.Cardinality()) {
			oc.Fail("corr", "amo-hypothesis", entry, "a 2-literal constraint that is not a clause reaches DetectAtMostOne: %s", cl.PBString())
		}
	}
	// exact differential with the Lean mirror GS.Amo.detect (propositional / cardinality
	// constraints only: the mirror has no weights)
	pure := true
	var beforeEnc []string
	for _, cl := range pb.Clauses {
		if cl.PseudoBoolean() {
			pure = false
			break
		}
		g := fmt.Sprint(cl.Cardinality())
		for i := 0; i < cl.Len(); i++ {
			g += fmt.Sprint(" ", cl.Get(i).Int())
		}
		beforeEnc = append(beforeEnc, g)
	}
	pb.DetectAtMostOne()
	if pure {
		var afterEnc []string
		for _, cl := range pb.Clauses {
			g := fmt.Sprint(cl.Cardinality())
			for i := 0; i < cl.Len(); i++ {
				g += fmt.Sprint(" ", cl.Get(i).Int())
			}
			afterEnc = append(afterEnc, g)
		}
		want := o.Ask(fmt.Sprintf("amo %d | %s", pb.NbVars, strings.Join(beforeEnc, " ; ")))
		oc.Corr++
		if got := strings.Join(afterEnc, " ; "); got != want {
			oc.Fail("corr", "amo-mirror", entry, "Go produced [%s], the Lean mirror [%s] from [%s]", got, want, strings.Join(beforeEnc, " ; "))
		}
	}
	cardAfter := 0
	for _, cl := range pb.Clauses {
		if cl.Cardinality() > 1 {
			cardAfter++
		}
	}
	if cardAfter > cardBefore {
		oc.Nontrivial = true
		oc.Tag("cardinality-introduced")
	}
	if len(pb.Clauses) < nbBefore {
		oc.Tag("clauses-removed")
	}
	after := problemLins(pb)
	want := o.Models(n, sem)
	have := o.Models(n, after)
	if !equalStrings(want, have) {
		oc.Fail("spec", "same-models", entry, "%d models before, %d after detection (constraints after: %v)", len(want), len(have), after)
		return
	}
	// consequences: verdict and count on the transformed problem
	s := solver.New(pb)
	st := s.Solve()
	if (st == solver.Sat) != (len(want) > 0) || (st != solver.Sat && st != solver.Unsat) {
		oc.Fail("spec", "verdict", entry+"+Solve", "status %v, the problem has %d models", st, len(want))
	} else if st == solver.Sat {
		if a := o.Eval(n, sem, s.Model()); a != "ok" {
			oc.Fail("spec", "model-satisfies-input", entry+"+Solve", "model %v: %s", s.Model(), a)
		}
	}
	pb2, _ := c.problem()
	pb2.DetectAtMostOne()
	// detection run again on the problem it has already rewritten (a second call finds the groups
	// that the first one made visible, or nothing): still the same models, by the same theorem
	if pb2.Status != solver.Unsat {
		nb1 := len(pb2.Clauses)
		pb2.DetectAtMostOne()
		if len(pb2.Clauses) != nb1 {
			oc.Tag("second-detection-changes-the-problem")
		}
		oc.Tag("detected-twice")
		if have2 := o.Models(n, problemLins(pb2)); !equalStrings(want, have2) {
			oc.Fail("spec", "same-models", entry+" (second call on the same problem)", "%d models before, %d after two detections (constraints after: %v)", len(want), len(have2), problemLins(pb2))
		}
	}
	if k := solver.New(pb2).CountModels(); k != len(want) {
		oc.Fail("spec", "count", entry+"+CountModels", "count %d after detection, %d models", k, len(want))
	}
}
